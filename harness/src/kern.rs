//! One call of a vector kernel (any of the four signature kinds, per-backend export or safe
//! function) as a reproducible, shrinkable case, and its execution against guard-page arenas.

use std::fmt::Write as _;

use crate::elem::{hexs, mask_name, Elem, Func, Kind, Routine};
use crate::mem::{self, Arena, Case, Place};

#[derive(Clone)]
pub struct VecCall<T: Elem> {
    pub r: Routine<T>,
    /// Dispatcher mask to force for safe routines (`None`: leave real detection).
    pub mask: Option<u8>,
    /// Scalar operand (Map1V only).
    pub value: T,
    pub a: Vec<T>,
    /// Second vector (Reduce2 / Map2 only).
    pub b: Vec<T>,
    /// Length of the result slice (Map2 / Map1V only).
    pub res_len: usize,
    /// Placement of a, b, result.
    pub place: [Place; 3],
    pub poison: u8,
    /// Bit pattern the result slice is pre-filled with.
    pub prefill: u64,
    /// Extra identity mixed into the case hash (e.g. placement, when placement is the point).
    pub salt: u64,
    /// Library calls performed per evaluation of this case (searches that run it several times).
    pub weight: u64,
    /// Pass the *same* slice as `a` and as `b` (only meaningful when `b` has the contents of `a`): a placement in which
    /// the two inputs share their storage.
    pub alias_b: bool,
}

impl<T: Elem> VecCall<T> {
    pub fn new(r: Routine<T>, mask: Option<u8>) -> VecCall<T> {
        VecCall {
            r,
            mask,
            value: T::zero(),
            a: Vec::new(),
            b: Vec::new(),
            res_len: 0,
            place: [Place::End; 3],
            alias_b: false,
            poison: 0xA5,
            prefill: 0xC3C3_C3C3_C3C3_C3C3,
            salt: 0,
            weight: 1,
        }
    }

    /// Sets all lengths consistently from `a` (b must already have the same length if used).
    pub fn with_data(mut self, value: T, a: Vec<T>, b: Vec<T>) -> Self {
        self.res_len = a.len();
        self.value = value;
        self.a = a;
        self.b = b;
        match self.r.kind() {
            Kind::Reduce1 => {
                self.b.clear();
                self.res_len = 0;
            }
            Kind::Reduce2 => self.res_len = 0,
            Kind::Map2 => {}
            Kind::Map1V => self.b.clear(),
        }
        self
    }

    pub fn uses_b(&self) -> bool {
        matches!(self.r.kind(), Kind::Reduce2 | Kind::Map2)
    }
    pub fn uses_result(&self) -> bool {
        matches!(self.r.kind(), Kind::Map2 | Kind::Map1V)
    }

    /// True when every slice length (and DIMS for const forms) agrees.
    pub fn lengths_agree(&self) -> bool {
        let n = self.a.len();
        (!self.uses_b() || self.b.len() == n)
            && (!self.uses_result() || self.res_len == n)
            && self.r.dims.map(|d| d == n).unwrap_or(true)
    }

    pub fn max_bytes(&self) -> usize {
        self.a.len().max(self.b.len()).max(self.res_len) * std::mem::size_of::<T>()
    }
}

#[derive(Clone, Debug, PartialEq)]
pub enum Out<T> {
    Scalar(T),
    Vector(Vec<T>),
    Panic(String),
}

pub struct Exec<T> {
    pub out: Out<T>,
    /// Canary damage around a, b or result (description).
    pub canary: Option<String>,
    /// An input slice was modified by the call.
    pub input_changed: Option<String>,
    /// Heap allocations made while the library routine ran (0 when it panicked: the payload allocates).
    pub allocs: u64,
    /// The call returned with other floating-point *control* bits than it was entered with (x86-64 MXCSR: rounding
    /// mode, flush-to-zero, denormals-are-zero, exception masks; the sticky status flags are not compared):
    /// `(before, after)`. The state is put back before `exec` returns, so that later cases are not perturbed.
    pub fp_env: Option<(u32, u32)>,
}

/// MXCSR without the six sticky exception flags (which ordinary arithmetic sets)
#[cfg(target_arch = "x86_64")]
pub fn fp_control() -> u32 {
    let mut v = 0u32;
    unsafe {
        std::arch::asm!("stmxcsr [{}]", in(reg) std::ptr::addr_of_mut!(v), options(nostack));
    }
    v & 0xFFC0
}
#[cfg(target_arch = "x86_64")]
pub fn set_fp_control(ctl: u32) {
    let mut cur = 0u32;
    unsafe {
        std::arch::asm!("stmxcsr [{}]", in(reg) std::ptr::addr_of_mut!(cur), options(nostack));
        let new = (cur & 0x3F) | (ctl & 0xFFC0);
        std::arch::asm!("ldmxcsr [{}]", in(reg) std::ptr::addr_of!(new), options(nostack, readonly));
    }
}
#[cfg(not(target_arch = "x86_64"))]
pub fn fp_control() -> u32 {
    0
}
#[cfg(not(target_arch = "x86_64"))]
pub fn set_fp_control(_ctl: u32) {}

pub fn show_fp_control(v: u32) -> String {
    let rc = ["nearest", "down", "up", "toward-zero"][((v >> 13) & 3) as usize];
    format!(
        "{v:#06x} (rounding {rc}, flush-to-zero {}, denormals-are-zero {}, exception masks {:#04x})",
        (v >> 15) & 1,
        (v >> 6) & 1,
        (v >> 7) & 0x3F
    )
}

pub struct Arenas {
    pub a: Arena,
    pub b: Arena,
    pub r: Arena,
    /// How many bytes around each slice are checked for canary damage.
    pub window: usize,
}

impl Arenas {
    pub fn new(max_bytes: usize) -> Arenas {
        Arenas {
            a: Arena::new(max_bytes),
            b: Arena::new(max_bytes),
            r: Arena::new(max_bytes),
            window: 1024,
        }
    }
    pub fn ensure(&mut self, max_bytes: usize) {
        if self.a.capacity() < max_bytes {
            *self = Arenas {
                window: self.window,
                ..Arenas::new(max_bytes * 2)
            };
        }
    }
}

#[inline]
pub fn set_mask(mask: Option<u8>) {
    cfavml::dispatch::verif::set(mask);
}

impl<T: Elem> VecCall<T> {
    /// Performs the call with every slice placed in its guard-page arena.
    pub fn exec(&self, ar: &mut Arenas) -> Exec<T> {
        ar.ensure(self.max_bytes());
        ar.a.set_poison(self.poison);
        ar.b.set_poison(self.poison);
        ar.r.set_poison(self.poison);
        let la = self.a.len();
        let lb = if self.uses_b() { self.b.len() } else { 0 };
        let lr = if self.uses_result() { self.res_len } else { 0 };
        unsafe {
            let pa: *mut T = mem::place_elems(&mut ar.a, la, self.place[0]);
            let pb: *mut T = mem::place_elems(&mut ar.b, lb, self.place[1]);
            let pr: *mut T = mem::place_elems(&mut ar.r, lr, self.place[2]);
            std::ptr::copy_nonoverlapping(self.a.as_ptr(), pa, la);
            if lb > 0 {
                std::ptr::copy_nonoverlapping(self.b.as_ptr(), pb, lb);
            }
            let fill = T::from_bits(self.prefill);
            for i in 0..lr {
                pr.add(i).write(fill);
            }
            let sa: &[T] = std::slice::from_raw_parts(pa, la);
            let sb: &[T] = if self.alias_b && lb == la && lb > 0 { sa } else { std::slice::from_raw_parts(pb, lb) };
            let sr: &mut [T] = std::slice::from_raw_parts_mut(pr, lr);
            if self.r.safe {
                set_mask(self.mask);
            }
            let value = self.value;
            let fp0 = fp_control();
            let allocs0 = crate::alloc_calls();
            let res = match self.r.f {
                Func::R1(f) => mem::catch(|| Out::Scalar(f(sa))),
                Func::R2(f) => mem::catch(|| Out::Scalar(f(sa, sb))),
                Func::M2(f) => mem::catch(|| {
                    f(sa, sb, sr);
                    Out::Vector(Vec::new())
                }),
                Func::M1(f) => mem::catch(|| {
                    f(value, sa, sr);
                    Out::Vector(Vec::new())
                }),
            };
            let allocs = if res.is_ok() { crate::alloc_calls() - allocs0 } else { 0 };
            let fp1 = fp_control();
            let fp_env = if fp1 != fp0 {
                set_fp_control(fp0);
                Some((fp0, fp1))
            } else {
                None
            };
            let out = match res {
                Ok(Out::Vector(_)) => Out::Vector(std::slice::from_raw_parts(pr as *const T, lr).to_vec()),
                Ok(o) => o,
                Err(msg) => Out::Panic(msg),
            };
            let mut canary = None;
            for (name, arena) in [("a", &ar.a), ("b", &ar.b), ("result", &ar.r)] {
                if let Some(d) = arena.check(ar.window) {
                    canary = Some(format!("slice `{name}`: {d}"));
                    break;
                }
            }
            let mut input_changed = None;
            let na = std::slice::from_raw_parts(pa as *const T, la);
            if let Some(i) = (0..la).find(|&i| na[i].to_bits() != self.a[i].to_bits()) {
                input_changed = Some(format!("a[{i}] changed {} -> {}", hexs(self.a[i]), hexs(na[i])));
            }
            let nb = std::slice::from_raw_parts(pb as *const T, lb);
            if let Some(i) = (0..lb).find(|&i| nb[i].to_bits() != self.b[i].to_bits()) {
                input_changed = Some(format!("b[{i}] changed {} -> {}", hexs(self.b[i]), hexs(nb[i])));
            }
            Exec {
                out,
                canary,
                input_changed,
                allocs,
                fp_env,
            }
        }
    }
}

pub fn mix(h: &mut u64, x: u64) {
    *h = (*h ^ x).wrapping_mul(0x9E37_79B9_7F4A_7C15);
    *h ^= *h >> 29;
}

pub fn hash_str(h: &mut u64, s: &str) {
    for b in s.bytes() {
        mix(h, b as u64);
    }
}

fn hex_list<T: Elem>(v: &[T]) -> String {
    const CAP: usize = 4096;
    let mut o = String::from("[");
    for (i, x) in v.iter().take(CAP).enumerate() {
        if i > 0 {
            o.push(',');
        }
        let _ = write!(o, "\"{}\"", hexs(*x));
    }
    if v.len() > CAP {
        let _ = write!(o, ",\"... {} more elements not shown\"", v.len() - CAP);
    }
    o.push(']');
    o
}

impl<T: Elem> Case for VecCall<T> {
    fn routine(&self) -> String {
        self.r.display()
    }

    fn inflight(&self, w: &mut dyn std::fmt::Write) {
        let _ = write!(
            w,
            "{} ty={} a.len={} b.len={} result.len={} mask={} place=[{:?},{:?},{:?}]",
            self.r.name,
            T::NAME,
            self.a.len(),
            self.b.len(),
            self.res_len,
            mask_name(self.mask),
            self.place[0],
            self.place[1],
            self.place[2]
        );
        if let Some(d) = self.r.dims {
            let _ = write!(w, " DIMS={d}");
        }
    }

    fn call(&self) -> String {
        let n = self.r.display();
        let mut s = match self.r.kind() {
            Kind::Reduce1 => format!("{n}(a[{}])", self.a.len()),
            Kind::Reduce2 => format!("{n}(a[{}], b[{}])", self.a.len(), self.b.len()),
            Kind::Map2 => {
                format!(
                    "{n}(a[{}], b[{}], result[{}])",
                    self.a.len(),
                    self.b.len(),
                    self.res_len
                )
            }
            Kind::Map1V => format!(
                "{n}(value={}, a[{}], result[{}])",
                self.value.show(),
                self.a.len(),
                self.res_len
            ),
        };
        if self.r.safe {
            let _ = write!(s, " with dispatcher forced to {}", mask_name(self.mask));
        }
        if self.a.len() <= 8 {
            let _ = write!(s, "; a={:?}", self.a);
            if self.uses_b() {
                let _ = write!(s, " b={:?}", self.b);
            }
        }
        s
    }

    fn input_json(&self) -> String {
        let mut f: Vec<(&str, String)> = Vec::new();
        f.push(("type", format!("\"{}\"", T::NAME)));
        if let Some(d) = self.r.dims {
            f.push(("DIMS", d.to_string()));
        }
        if self.r.safe {
            f.push(("dispatch_mask", format!("\"{}\"", mask_name(self.mask))));
        }
        if self.r.kind() == Kind::Map1V {
            f.push(("value", format!("\"{}\"", hexs(self.value))));
        }
        f.push(("a", hex_list(&self.a)));
        if self.uses_b() {
            f.push(("b", hex_list(&self.b)));
        }
        if self.uses_result() {
            f.push(("result_len", self.res_len.to_string()));
            f.push((
                "result_prefill",
                format!("\"{}\"", hexs(T::from_bits(self.prefill))),
            ));
        }
        f.push((
            "placement",
            format!(
                "[\"{}\",\"{}\",\"{}\"]",
                self.place[0].label(),
                self.place[1].label(),
                self.place[2].label()
            ),
        ));
        crate::report::json_obj(&f)
    }

    fn hash(&self) -> u64 {
        let mut h = 0x1234_5678_9ABC_DEF1u64;
        hash_str(&mut h, self.r.name);
        mix(&mut h, self.r.dims.map(|d| d as u64 + 1).unwrap_or(0));
        mix(&mut h, self.mask.map(|m| m as u64 + 1).unwrap_or(0));
        mix(&mut h, self.value.to_bits());
        mix(&mut h, self.a.len() as u64);
        for x in &self.a {
            mix(&mut h, x.to_bits());
        }
        mix(&mut h, self.b.len() as u64);
        for x in &self.b {
            mix(&mut h, x.to_bits());
        }
        mix(&mut h, self.res_len as u64);
        mix(&mut h, self.salt);
        h
    }

    fn calls(&self) -> u64 {
        self.weight
    }

    fn shrink(&self) -> Vec<Self> {
        let mut out = Vec::new();
        let n = self.a.len();
        let ub = self.uses_b();
        let ur = self.uses_result();
        let agree = self.lengths_agree();
        let resized = |keep: std::ops::Range<usize>| -> VecCall<T> {
            let mut c = self.clone();
            c.a = self.a[keep.clone()].to_vec();
            if ub {
                c.b = self.b[keep.clone()].to_vec();
            }
            if ur {
                c.res_len = keep.len();
            }
            c
        };
        // 1. lengths (only xany forms can change length without changing the kind of case)
        if self.r.dims.is_none() && agree && n > 0 {
            if n > 1 {
                out.push(resized(0..n / 2));
                out.push(resized(n - n / 2..n));
                out.push(resized(n / 2..n));
            }
            out.push(resized(0..n - 1));
            out.push(resized(1..n));
        } else if !agree {
            // mismatching lengths: shorten each slice on its own
            if n > 0 {
                let mut c = self.clone();
                c.a.truncate(n / 2);
                out.push(c);
                let mut c = self.clone();
                c.a.truncate(n - 1);
                out.push(c);
            }
            if ub && !self.b.is_empty() {
                let mut c = self.clone();
                c.b.truncate(self.b.len() / 2);
                out.push(c);
                let mut c = self.clone();
                c.b.truncate(self.b.len() - 1);
                out.push(c);
            }
            if ur && self.res_len > 0 {
                let mut c = self.clone();
                c.res_len /= 2;
                out.push(c);
                let mut c = self.clone();
                c.res_len -= 1;
                out.push(c);
            }
        }
        // 2. placement
        if self.place != [Place::End; 3] {
            let mut c = self.clone();
            c.place = [Place::End; 3];
            out.push(c);
        }
        // 3. values: towards 0 / 1 (x -> 0 if x != 0; x -> 1 if x not in {0, 1})
        let zero = T::zero().to_bits();
        let one = T::one().to_bits();
        let cands = |x: T| -> Vec<T> {
            let b = x.to_bits();
            let mut v = Vec::new();
            if b != zero {
                v.push(T::zero());
                if b != one {
                    v.push(T::one());
                }
            }
            v
        };
        if self.r.kind() == Kind::Map1V {
            for s in cands(self.value) {
                let mut c = self.clone();
                c.value = s;
                out.push(c);
            }
        }
        // whole-vector simplifications first
        if self.a.iter().any(|x| x.to_bits() != zero) {
            let mut c = self.clone();
            c.a.iter_mut().for_each(|x| *x = T::zero());
            out.push(c);
        }
        if self.a.iter().any(|x| x.to_bits() != zero && x.to_bits() != one) {
            let mut c = self.clone();
            c.a.iter_mut().for_each(|x| *x = T::one());
            out.push(c);
        }
        if ub && self.b.iter().any(|x| x.to_bits() != zero) {
            let mut c = self.clone();
            c.b.iter_mut().for_each(|x| *x = T::zero());
            out.push(c);
        }
        if ub && self.b.iter().any(|x| x.to_bits() != zero && x.to_bits() != one) {
            let mut c = self.clone();
            c.b.iter_mut().for_each(|x| *x = T::one());
            out.push(c);
        }
        let mut budget = 256usize;
        for i in 0..n {
            if budget == 0 {
                break;
            }
            for s in cands(self.a[i]) {
                let mut c = self.clone();
                c.a[i] = s;
                out.push(c);
                budget = budget.saturating_sub(1);
            }
        }
        if ub {
            for i in 0..self.b.len() {
                if budget == 0 {
                    break;
                }
                for s in cands(self.b[i]) {
                    let mut c = self.clone();
                    c.b[i] = s;
                    out.push(c);
                    budget = budget.saturating_sub(1);
                }
            }
        }
        out
    }
}

/// Hash of a placement triple (for searches where the placement is part of the case identity).
pub fn place_salt(p: &[Place; 3]) -> u64 {
    let mut h = 0x9876_5432_10FE_DCBAu64;
    for x in p {
        let v = match *x {
            Place::End => 1u64,
            Place::Start => 2,
            Place::AlignHi(k) => 256 + k as u64,
            Place::AlignLo(k) => 512 + k as u64,
        };
        mix(&mut h, v);
    }
    h
}
