//! The single source of randomness: xorshift64* seeded from `--seed`.
//!
//! Jobs that run in forked children get their own stream; the stream seed is drawn from the
//! master generator in job-creation order, so the whole run is a function of `--seed`.

#[derive(Clone, Debug)]
pub struct Rng {
    s: u64,
}

impl Rng {
    pub fn new(seed: u64) -> Rng {
        // xorshift must not start at 0; scramble the seed with splitmix64 first.
        let mut z = seed.wrapping_add(0x9E37_79B9_7F4A_7C15);
        z = (z ^ (z >> 30)).wrapping_mul(0xBF58_476D_1CE4_E5B9);
        z = (z ^ (z >> 27)).wrapping_mul(0x94D0_49BB_1331_11EB);
        z ^= z >> 31;
        if z == 0 {
            z = 0x2545_F491_4F6C_DD1D;
        }
        Rng { s: z }
    }

    #[inline]
    pub fn next_u64(&mut self) -> u64 {
        let mut x = self.s;
        x ^= x >> 12;
        x ^= x << 25;
        x ^= x >> 27;
        self.s = x;
        x.wrapping_mul(0x2545_F491_4F6C_DD1D)
    }

    /// Uniform in `0..n` (n > 0); the tiny modulo bias is irrelevant for test generation.
    #[inline]
    pub fn below(&mut self, n: u64) -> u64 {
        debug_assert!(n > 0);
        ((self.next_u64() >> 11) as u128 * n as u128 >> 53) as u64
    }

    #[inline]
    pub fn usize_below(&mut self, n: usize) -> usize {
        self.below(n as u64) as usize
    }

    #[inline]
    pub fn range_i64(&mut self, lo: i64, hi: i64) -> i64 {
        lo + self.below((hi - lo + 1) as u64) as i64
    }

    #[inline]
    pub fn chance(&mut self, num: u64, den: u64) -> bool {
        self.below(den) < num
    }

    #[inline]
    pub fn pick<'a, T>(&mut self, xs: &'a [T]) -> &'a T {
        &xs[self.usize_below(xs.len())]
    }

    /// A new independent stream whose seed is drawn from this one.
    pub fn split(&mut self) -> Rng {
        Rng::new(self.next_u64())
    }
}
