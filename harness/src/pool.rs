//! `cfavml-harness pool [--racers N]` — probe of the cfavml-utils thread pool in THIS process' environment
//! (the check runs it in a fresh process per configuration: env vars, affinity mask via taskset).
//! Prints one line: `threads=<n> borrowed=<0|1> same=<0|1> work=<sum> physical=<p>`.
use std::sync::{Arc, Barrier};

pub fn main_pool(args: &[String]) -> i32 {
    let mut racers = 1usize;
    // `--from-rayon`: the callers are worker threads of another rayon pool (an application with its own pool)
    let mut from_rayon = false;
    // `--rounds K`: afterwards, K sequential obtain / use / drop rounds on this thread, then count the threads left alive
    let mut rounds = 0usize;
    let mut i = 0;
    while i < args.len() {
        if args[i] == "--racers" {
            racers = args.get(i + 1).and_then(|s| s.parse().ok()).unwrap_or(1);
            i += 2;
        } else if args[i] == "--from-rayon" {
            from_rayon = true;
            i += 1;
        } else if args[i] == "--rounds" {
            rounds = args.get(i + 1).and_then(|s| s.parse().ok()).unwrap_or(0);
            i += 2;
        } else {
            i += 1;
        }
    }
    let physical = num_cpus_physical();
    // count panics of any thread (a worker that panics in rayon's start handler does not stop the pool)
    static PANICS: std::sync::atomic::AtomicUsize = std::sync::atomic::AtomicUsize::new(0);
    std::panic::set_hook(Box::new(|_| {
        PANICS.fetch_add(1, std::sync::atomic::Ordering::SeqCst);
    }));
    let avail = affinity_count();
    // N threads race on the first get_or_init_pool(); every caller then asks a second time (while still holding the first
    // answer) and counts the threads that really execute work (`broadcast` runs the closure once on every worker)
    let caller = || {
        let pool = cfavml_utils::get_or_init_pool();
        let borrowed = matches!(pool, cfavml_utils::MaybeBorrowedPool::Borrowed(_));
        let addr_of = |pool: &cfavml_utils::MaybeBorrowedPool| match pool {
            cfavml_utils::MaybeBorrowedPool::Borrowed(p) => (*p) as *const rayon_pool::ThreadPoolAlias as usize,
            cfavml_utils::MaybeBorrowedPool::Owned(p) => p as *const rayon_pool::ThreadPoolAlias as usize,
        };
        let addr = addr_of(&pool);
        let threads = pool.current_num_threads();
        // run work on it
        let work: u64 = pool.install(|| (1..=100u64).sum());
        let ids: Vec<std::thread::ThreadId> = pool.broadcast(|_| std::thread::current().id());
        let distinct: std::collections::BTreeSet<String> = ids.iter().map(|t| format!("{t:?}")).collect();
        let workers = distinct.len();
        // a request made from inside work that runs on the pool (a nested call of a routine that uses the pool)
        let nested_addr: usize = pool.install(|| {
            let inner = cfavml_utils::get_or_init_pool();
            let a = addr_of(&inner);
            let ok = inner.install(|| (1..=10u64).sum::<u64>()) == 55;
            if ok { a } else { 0 }
        });
        let nested_same = nested_addr == addr;
        let nested_works = nested_addr != 0;
        let again = cfavml_utils::get_or_init_pool();
        let again_borrowed = matches!(again, cfavml_utils::MaybeBorrowedPool::Borrowed(_));
        let again_works = again.current_num_threads() == threads && again.install(|| (1..=100u64).sum::<u64>()) == work;
        let again_same = addr_of(&again) == addr && again_borrowed == borrowed;
        (threads, borrowed, addr, work, workers, again_works && nested_works, again_same && nested_same)
    };
    let mut results = vec![];
    if from_rayon {
        let outer = rayon::ThreadPoolBuilder::new().num_threads(racers.max(1)).build().expect("outer pool");
        let rs: Vec<Result<_, ()>> = outer.broadcast(|_| std::panic::catch_unwind(std::panic::AssertUnwindSafe(caller)).map_err(|_| ()));
        for r in rs {
            match r {
                Ok(r) => results.push(r),
                Err(()) => {
                    println!("caller-panicked (called from a worker thread of another rayon pool)");
                    return 1;
                },
            }
        }
    } else {
        let barrier = Arc::new(Barrier::new(racers));
        let mut handles = vec![];
        for _ in 0..racers {
            let b = barrier.clone();
            handles.push(std::thread::spawn(move || {
                b.wait();
                caller()
            }));
        }
        for h in handles {
            match h.join() {
                Ok(r) => results.push(r),
                Err(_) => {
                    println!("caller-panicked");
                    return 1;
                },
            }
        }
    }
    let (threads, borrowed, addr0, work, _, _, _) = results[0];
    let workers_ok = results.iter().all(|r| r.4 == r.0);
    // `again_ok`: the second answer is a working pool of the same size; `again_same`: it is the very same pool
    let again_ok = results.iter().all(|r| r.5);
    let again_same = results.iter().all(|r| r.6);
    let all_borrowed = results.iter().all(|r| r.1);
    // `same`: every caller holds the very same pool object
    let same = results.iter().all(|r| r.2 == addr0);
    let all_owned = results.iter().all(|r| !r.1);
    let same_threads = results.iter().all(|r| r.0 == threads);
    // let every worker finish its start handler
    std::thread::sleep(std::time::Duration::from_millis(60));
    let panics = PANICS.load(std::sync::atomic::Ordering::SeqCst);
    let pools = if all_borrowed { 1 } else { 3 * results.len() };
    drop(results);
    let mut rounds_ok = true;
    for _ in 0..rounds {
        let ok = std::panic::catch_unwind(|| {
            let pool = cfavml_utils::get_or_init_pool();
            pool.install(|| (1..=100u64).sum::<u64>()) == 5050
        });
        if !matches!(ok, Ok(true)) {
            rounds_ok = false;
            break;
        }
    }
    if rounds > 0 {
        std::thread::sleep(std::time::Duration::from_millis(300));
    }
    let alive = std::fs::read_to_string("/proc/self/status")
        .ok()
        .and_then(|t| t.lines().find(|l| l.starts_with("Threads:")).and_then(|l| l.split_whitespace().nth(1).and_then(|x| x.parse::<usize>().ok())))
        .unwrap_or(0);
    println!(
        "threads={} borrowed={} same={} same_threads={} work={} physical={} panics={} avail={} pools={} workers_ok={} again_ok={} all_owned={} rounds={} rounds_ok={} alive={} again_same={}",
        threads, borrowed as u8, same as u8, same_threads as u8, work, physical, panics, avail, pools, workers_ok as u8, again_ok as u8,
        all_owned as u8, rounds, rounds_ok as u8, alive, again_same as u8
    );
    0
}

/// number of CPUs in this process' affinity mask (what `core_affinity::get_core_ids()` enumerates)
fn affinity_count() -> usize {
    unsafe {
        let mut set: libc::cpu_set_t = std::mem::zeroed();
        if libc::sched_getaffinity(0, std::mem::size_of::<libc::cpu_set_t>(), &mut set) != 0 {
            return 0;
        }
        (0..libc::CPU_SETSIZE as usize).filter(|&i| libc::CPU_ISSET(i, &set)).count()
    }
}

mod rayon_pool {
    /// `MaybeBorrowedPool` derefs to `rayon::ThreadPool`; we only need an address, so name the type through Deref
    pub type ThreadPoolAlias = <cfavml_utils::MaybeBorrowedPool as std::ops::Deref>::Target;
}

/// physical core count the way `num_cpus::get_physical()` computes it on Linux (distinct (physical id, core id)
/// pairs of /proc/cpuinfo), independent of the library's dependency
fn num_cpus_physical() -> usize {
    let text = std::fs::read_to_string("/proc/cpuinfo").unwrap_or_default();
    let mut set = std::collections::BTreeSet::new();
    let mut phys = String::new();
    let mut logical = 0usize;
    for l in text.lines() {
        if l.starts_with("processor") {
            logical += 1;
        }
        if l.starts_with("physical id") {
            phys = l.split(':').nth(1).unwrap_or("").trim().to_string();
        }
        if l.starts_with("core id") {
            let core = l.split(':').nth(1).unwrap_or("").trim().to_string();
            set.insert((phys.clone(), core));
        }
    }
    if set.is_empty() {
        logical.max(1)
    } else {
        set.len()
    }
}
