//! Value and length generators shared by the searches.

use crate::elem::Elem;
use crate::prng::Rng;

/// Boundary values of the type.  Floats: no NaN unless `nan` is set.
pub fn boundaries<T: Elem>(nan: bool) -> Vec<T> {
    let mut v: Vec<u64> = Vec::new();
    if T::FLOAT {
        let (ebits, mbits) = if T::BITS == 32 {
            (8u32, 23u32)
        } else {
            (11u32, 52u32)
        };
        let sign = 1u64 << (T::BITS - 1);
        let exp_mask = ((1u64 << ebits) - 1) << mbits;
        let man_mask = (1u64 << mbits) - 1;
        let bias = (1u64 << (ebits - 1)) - 1;
        let mut pos: Vec<u64> = vec![
            0,                                             // +0
            1,                                             // min subnormal
            man_mask,                                      // max subnormal
            man_mask >> 1,                                 // mid subnormal
            1u64 << mbits,                                 // min normal
            exp_mask - 1,                                  // max finite
            exp_mask - (1u64 << mbits),                    // 2^emax
            exp_mask,                                      // +inf
            bias << mbits,                                 // 1.0
            (bias << mbits) + 1,                           // 1 + ulp
            (bias << mbits) - 1,                           // 1 - ulp/2
            (bias + 1) << mbits,                           // 2.0
            (bias - 1) << mbits,                           // 0.5
            ((bias + 1) << mbits) | (1u64 << (mbits - 1)), // 3.0
            ((bias - 2) << mbits) | (man_mask / 3),        // ~1/3
            (bias + mbits as u64) << mbits,                // 2^mbits
            ((bias + mbits as u64 + 1) << mbits) | 1,      // just above 2^(mbits+1)
            (bias - mbits as u64) << mbits,                // 2^-mbits
            (bias + 10) << mbits,                          // 1024
            ((bias + 6) << mbits) | (man_mask & 0x5555_5555_5555_5555),
        ];
        // half-way to overflow / underflow: sqrt(max), sqrt(min)
        pos.push((bias + bias / 2) << mbits);
        pos.push((bias / 2) << mbits);
        for p in pos {
            v.push(p);
            v.push(p | sign);
        }
        if nan {
            v.push(exp_mask | (1u64 << (mbits - 1))); // quiet NaN
            v.push(exp_mask | sign | (1u64 << (mbits - 1)) | 1);
            v.push(exp_mask | 1); // signalling NaN
        }
    } else {
        let bits = T::BITS;
        let all = u64::MAX >> (64 - bits);
        let top = 1u64 << (bits - 1);
        let half = 1u64 << (bits / 2);
        let mut raw = vec![
            0,
            1,
            2,
            3,
            all,     // -1 / MAX
            all - 1, // -2 / MAX-1
            top,     // MIN / 2^(bits-1)
            top + 1, // MIN+1
            top - 1, // MAX (signed)
            top - 2,
            top >> 1,
            half,
            half - 1,
            half + 1,
            all & 0x5555_5555_5555_5555,
            all & 0xAAAA_AAAA_AAAA_AAAA,
            all ^ (half - 1), // high half set
            7,
            10,
            100 & all,
            (all / 3) & all,
            top | (top >> 1), // 0xC0..: large unsigned / negative
        ];
        // sqrt-ish boundaries of the product
        raw.push(((1u64 << (bits / 2)) as f64 * std::f64::consts::SQRT_2) as u64 & all);
        raw.sort_unstable();
        raw.dedup();
        v = raw;
    }
    v.into_iter().map(T::from_bits).collect()
}

/// Uniformly random bit pattern (floats: NaN patterns are replaced unless `nan`).
pub fn random_bits<T: Elem>(rng: &mut Rng, nan: bool) -> T {
    loop {
        let v = T::from_bits(rng.next_u64());
        if nan || !v.is_nan() {
            return v;
        }
    }
}

/// Mixed generator: boundary values, small integers, random bit patterns.
pub fn mixed<T: Elem>(rng: &mut Rng, bounds: &[T], nan: bool) -> T {
    match rng.below(8) {
        0..=2 => *rng.pick(bounds),
        3 => small_int::<T>(rng, 9),
        _ => random_bits::<T>(rng, nan),
    }
}

/// Integer-valued element in [-m, m] (or [0, m] for unsigned types).
pub fn small_int<T: Elem>(rng: &mut Rng, m: i64) -> T {
    let lo = if T::SIGNED { -m } else { 0 };
    let v = rng.range_i64(lo, m);
    if T::FLOAT {
        T::from_f64(v as f64)
    } else {
        T::from_i128(v as i128)
    }
}

/// Finite float with exponent in [emin, emax] and random sign/mantissa (ints: random bits).
pub fn scaled_float<T: Elem>(rng: &mut Rng, emin: i32, emax: i32) -> T {
    debug_assert!(T::FLOAT);
    let e = rng.range_i64(emin as i64, emax as i64) as i32;
    let m = 1.0 + (rng.next_u64() >> 11) as f64 / (1u64 << 53) as f64;
    let s = if rng.chance(1, 2) { -1.0 } else { 1.0 };
    T::from_f64(s * m * 2f64.powi(e))
}

pub fn nonzero<T: Elem>(rng: &mut Rng, mut f: impl FnMut(&mut Rng) -> T) -> T {
    loop {
        let v = f(rng);
        if v != T::zero() {
            return v;
        }
    }
}

/// Lanes per register for a register width in bytes (`None` = fallback: 1).
pub fn lanes<T>(register_bytes: Option<usize>) -> usize {
    match register_bytes {
        Some(b) => b / std::mem::size_of::<T>(),
        None => 1,
    }
}

/// Largest interesting length: 2 dense blocks + 7 lanes + a full tail.
pub fn max_len(lane: usize) -> usize {
    2 * 8 * lane + 7 * lane + (lane.max(2) - 1)
}

/// A smart subset of `0..=max_len(lane)`: every length up to two registers, then everything
/// around each multiple of the lane count and of the dense block.
pub fn smart_lengths(lane: usize, extra: &[usize]) -> Vec<usize> {
    let dense = 8 * lane;
    let top = max_len(lane);
    let mut v: Vec<usize> = (0..=(2 * lane + 1).min(top)).collect();
    let mut k = lane;
    while k <= top {
        for d in [-1i64, 0, 1] {
            let x = k as i64 + d;
            if x >= 0 && x as usize <= top {
                v.push(x as usize);
            }
        }
        // a mid-register tail as well
        if lane > 2 && k + lane / 2 <= top {
            v.push(k + lane / 2);
        }
        k += lane;
    }
    for base in [dense, 2 * dense] {
        for d in [-2i64, -1, 0, 1, 2] {
            let x = base as i64 + d;
            if x >= 0 && x as usize <= top {
                v.push(x as usize);
            }
        }
    }
    v.push(top);
    v.extend_from_slice(extra);
    v.sort_unstable();
    v.dedup();
    v
}

/// Lengths well beyond every register geometry (blocked / chunked code paths switch on thresholds such as 1024, 2048, 4096):
/// the usual embedding sizes (128 … 4096, 1536 and 3072 among them), the neighbours of the powers of two, a few primes.
pub const LARGE_LENGTHS: [usize; 19] = [128, 256, 384, 512, 768, 1023, 1024, 1025, 1536, 2047, 2048, 2049, 3072, 4095, 4096, 4097, 6145, 8193, 10007];

pub fn len_bucket(n: usize) -> &'static str {
    match n {
        0 => "len:0",
        1..=7 => "len:1-7",
        8..=63 => "len:8-63",
        64..=511 => "len:64-511",
        512..=4095 => "len:512-4095",
        _ => "len:4096+",
    }
}
