//! Aligned-buffer level of the correspondence run: random operation sequences on a heap of real
//! `AlignedBuffer<T>` values, one sequence per line, in the encoding the driver's `abufs` request replays on
//! `Hand.step` (Hand/AlignedBufferState.lean).
//!
//! `abufs <size_of T> <op>;<op>;…` with
//!   `z:<len>` zeroed, `w:<k>:<i>:<bytes>` as_mut_slice()[i] = v, `p:<k>:<i>:<bytes>` as_mut_ptr().add(i).write(v), `r:<k>:<i>` as_slice()[i] (odd steps through Deref),
//!   `c:<k>` clone, `f:<d>:<s>` clone_from, `s:<k>:<bytes>` copy_from_slice, `i:<k>` len / allocated_size, `d:<k>` dump
//! and the answers `n<len>,<alloc>`, `u`, `e<bytes>`, `v<bytes>`, `p` (panic), `b` (not an operation).

use cfavml_utils::aligned_buffer::AlignedBuffer;

use crate::mem;
use crate::prng::Rng;

fn hex(bs: &[u8]) -> String {
    if bs.is_empty() {
        return "-".into();
    }
    let mut s = String::with_capacity(bs.len() * 2);
    for b in bs {
        s.push_str(&format!("{b:02x}"));
    }
    s
}

fn bytes_of<T: Copy>(x: &T) -> Vec<u8> {
    unsafe { std::slice::from_raw_parts(x as *const T as *const u8, std::mem::size_of::<T>()).to_vec() }
}

fn from_bytes<T: Copy>(bs: &[u8]) -> T {
    assert_eq!(bs.len(), std::mem::size_of::<T>());
    unsafe { std::ptr::read_unaligned(bs.as_ptr() as *const T) }
}

fn slice_bytes<T: Copy>(xs: &[T]) -> Vec<u8> {
    unsafe { std::slice::from_raw_parts(xs.as_ptr() as *const u8, std::mem::size_of_val(xs)).to_vec() }
}

fn rand_bytes(rng: &mut Rng, n: usize) -> Vec<u8> {
    (0..n)
        .map(|_| match rng.below(6) {
            0 => 0,
            1 => 0xff,
            _ => rng.below(256) as u8,
        })
        .collect()
}

fn rand_len(rng: &mut Rng, per_chunk: usize) -> usize {
    if rng.below(40) == 0 {
        // a request of 2^63 bytes or more: refused with a panic, whatever the element size
        return match rng.below(4) {
            0 => usize::MAX,
            1 => usize::MAX - rng.usize_below(70),
            2 => (usize::MAX / 2 + 1) + rng.usize_below(9),
            _ => (usize::MAX / (64 / per_chunk).max(1)).saturating_add(1 + rng.usize_below(3)),
        };
    }
    match rng.below(8) {
        0 => 0,
        1 => 1,
        2 => per_chunk.saturating_sub(1),
        3 => per_chunk,
        4 => per_chunk + 1,
        5 => 2 * per_chunk,
        6 => rng.usize_below(4 * per_chunk + 3),
        _ => rng.usize_below(9),
    }
}

/// a random operation sequence for elements of `size` bytes (a shadow of the buffer lengths keeps most operations valid)
fn gen_ops(rng: &mut Rng, size: usize, n_ops: usize) -> Vec<String> {
    let per_chunk = 64 / size;
    let mut lens: Vec<usize> = Vec::new();
    let mut ops = Vec::new();
    for _ in 0..n_ops {
        // mostly existing buffers, now and then a slot that does not exist
        let slot = |rng: &mut Rng, lens: &Vec<usize>| -> usize {
            if lens.is_empty() || rng.below(24) == 0 {
                lens.len() + rng.usize_below(2)
            } else {
                rng.usize_below(lens.len())
            }
        };
        // mostly valid indices, sometimes one past the end or far beyond (must panic, never read the slack)
        let index = |rng: &mut Rng, len: usize| -> usize {
            match rng.below(10) {
                0 => len,
                1 => len + 1 + rng.usize_below(per_chunk + 2),
                _ if len > 0 => rng.usize_below(len),
                _ => 0,
            }
        };
        let choice = if lens.is_empty() { 0 } else { rng.below(16) };
        match choice {
            0 | 1 => {
                let len = rand_len(rng, per_chunk);
                ops.push(format!("z:{len:x}"));
                if len < (1 << 40) {
                    lens.push(len);
                }
            },
            2..=5 => {
                let k = slot(rng, &lens);
                let l = lens.get(k).copied().unwrap_or(3);
                if rng.below(3) == 0 && l > 0 && k < lens.len() {
                    // the same write through the raw pointer (`as_mut_ptr().add(i).write(v)`), in-range indices only
                    let i = rng.usize_below(l);
                    ops.push(format!("p:{k:x}:{i:x}:{}", hex(&rand_bytes(rng, size))));
                } else {
                    let i = index(rng, l);
                    ops.push(format!("w:{k:x}:{i:x}:{}", hex(&rand_bytes(rng, size))));
                }
            },
            6..=8 => {
                let k = slot(rng, &lens);
                let i = index(rng, lens.get(k).copied().unwrap_or(3));
                ops.push(format!("r:{k:x}:{i:x}"));
            },
            9 => {
                let k = slot(rng, &lens);
                ops.push(format!("c:{k:x}"));
                if let Some(l) = lens.get(k).copied() {
                    lens.push(l);
                }
            },
            10 | 11 => {
                let d = slot(rng, &lens);
                let s = slot(rng, &lens);
                ops.push(format!("f:{d:x}:{s:x}"));
                if d < lens.len() && s < lens.len() {
                    lens[d] = lens[s];
                }
            },
            12 | 13 => {
                let k = slot(rng, &lens);
                let len = lens.get(k).copied().unwrap_or(2);
                let n = match rng.below(6) {
                    0 => len + 1,
                    1 => len.saturating_sub(1),
                    _ => len,
                };
                ops.push(format!("s:{k:x}:{}", hex(&rand_bytes(rng, n * size))));
            },
            14 => ops.push(format!("i:{:x}", slot(rng, &lens))),
            _ => ops.push(format!("d:{:x}", slot(rng, &lens))),
        }
    }
    // every buffer is dumped at the end: the final state of the whole heap is compared, not only what was read on the way
    for k in 0..lens.len() {
        ops.push(format!("d:{k:x}"));
        ops.push(format!("i:{k:x}"));
    }
    ops
}

fn unhex(s: &str) -> Option<Vec<u8>> {
    if s == "-" {
        return Some(vec![]);
    }
    if s.len() % 2 != 0 {
        return None;
    }
    (0..s.len() / 2).map(|i| u8::from_str_radix(&s[2 * i..2 * i + 2], 16).ok()).collect()
}

/// run an operation sequence on real `AlignedBuffer<T>` values; one answer per operation
fn exec_ops<T: Copy>(ops: &[String]) -> Vec<String> {
    let size = std::mem::size_of::<T>();
    let mut heap: Vec<AlignedBuffer<T>> = Vec::new();
    let mut outs = Vec::new();
    let info = |b: &AlignedBuffer<T>| format!("n{:x},{:x}", b.as_slice().len(), b.allocated_size());
    let num = |t: &str| usize::from_str_radix(t, 16).ok();
    for (step, op) in ops.iter().enumerate() {
        let f: Vec<&str> = op.split(':').collect();
        let out: String = match f.as_slice() {
            ["z", len] => match num(len) {
                Some(len) => match mem::catch(|| unsafe { AlignedBuffer::<T>::zeroed(len) }) {
                    Ok(b) => {
                        let o = info(&b);
                        heap.push(b);
                        o
                    },
                    Err(_) => "p".into(),
                },
                None => "b".into(),
            },
            ["w", k, i, v] => match (num(k), num(i), unhex(v)) {
                (Some(k), Some(i), Some(v)) if v.len() == size => match heap.get_mut(k) {
                    None => "b".into(),
                    Some(b) => {
                        let x: T = from_bytes(&v);
                        match mem::catch(|| b.as_mut_slice()[i] = x) {
                            Ok(()) => "u".into(),
                            Err(_) => "p".into(),
                        }
                    },
                },
                _ => "b".into(),
            },
            ["p", k, i, v] => match (num(k), num(i), unhex(v)) {
                (Some(k), Some(i), Some(v)) if v.len() == size => match heap.get_mut(k) {
                    None => "b".into(),
                    Some(b) if i < b.as_slice().len() => {
                        let x: T = from_bytes(&v);
                        unsafe { b.as_mut_ptr().add(i).write(x) };
                        "u".into()
                    },
                    // out of range: a raw write there would be undefined behaviour of the *caller*; not performed
                    Some(_) => "p".into(),
                },
                _ => "b".into(),
            },
            ["r", k, i] => match (num(k), num(i)) {
                (Some(k), Some(i)) => match heap.get(k) {
                    None => "b".into(),
                    Some(b) => {
                        let r = if step % 2 == 0 {
                            mem::catch(|| b.as_slice()[i])
                        } else {
                            mem::catch(|| {
                                let d: &[T] = b;
                                d[i]
                            })
                        };
                        match r {
                            Ok(x) => format!("e{}", hex(&bytes_of(&x))),
                            Err(_) => "p".into(),
                        }
                    },
                },
                _ => "b".into(),
            },
            ["c", k] => match num(k).and_then(|k| heap.get(k)) {
                None => "b".into(),
                Some(b) => {
                    let c = b.clone();
                    let o = info(&c);
                    heap.push(c);
                    o
                },
            },
            ["f", d, s] => match (num(d), num(s)) {
                (Some(d), Some(s)) if d < heap.len() && s < heap.len() => {
                    if d != s {
                        // borrowck: split the vector to borrow target and source together
                        let (a, b) = if d < s {
                            let (lo, hi) = heap.split_at_mut(s);
                            (&mut lo[d], &hi[0])
                        } else {
                            let (lo, hi) = heap.split_at_mut(d);
                            (&mut hi[0], &lo[s])
                        };
                        a.clone_from(b);
                    }
                    // (`x.clone_from(&x)` cannot be written in safe Rust; the model's answer is the buffer itself)
                    info(&heap[d])
                },
                _ => "b".into(),
            },
            ["s", k, v] => match (num(k), unhex(v)) {
                (Some(k), Some(v)) if v.len() % size == 0 => match heap.get_mut(k) {
                    None => "b".into(),
                    Some(b) => {
                        let data: Vec<T> = v.chunks(size).map(from_bytes::<T>).collect();
                        match mem::catch(|| b.copy_from_slice(&data)) {
                            Ok(()) => "u".into(),
                            Err(_) => "p".into(),
                        }
                    },
                },
                _ => "b".into(),
            },
            ["i", k] => match num(k).and_then(|k| heap.get(k)) {
                None => "b".into(),
                Some(b) => info(b),
            },
            ["d", k] => match num(k).and_then(|k| heap.get(k)) {
                None => "b".into(),
                Some(b) => format!("v{}", hex(&slice_bytes(b.as_slice()))),
            },
            _ => "b".into(),
        };
        outs.push(out);
    }
    outs
}

/// `cfavml-harness abufs <size hex> <ops>`: replay one sequence on the real code (used to shrink a disagreement)
pub fn run_sequence(size: usize, ops: &[String]) -> Option<Vec<String>> {
    Some(match size {
        1 => exec_ops::<u8>(ops),
        2 => exec_ops::<u16>(ops),
        4 => exec_ops::<u32>(ops),
        8 => exec_ops::<u64>(ops),
        16 => exec_ops::<u128>(ops),
        32 => exec_ops::<[u64; 4]>(ops),
        64 => exec_ops::<[u64; 8]>(ops),
        3 => exec_ops::<[u8; 3]>(ops),
        48 => exec_ops::<[u8; 48]>(ops),
        _ => return None,
    })
}

pub fn main_abufs(args: &[String]) -> i32 {
    std::panic::set_hook(Box::new(|_| {}));
    let size = args.first().and_then(|s| usize::from_str_radix(s, 16).ok());
    let ops: Vec<String> = args.get(1).map(|s| s.split(';').map(|t| t.to_string()).collect()).unwrap_or_default();
    match size.and_then(|sz| run_sequence(sz, &ops)) {
        Some(outs) => {
            println!("ok {}", outs.join(";"));
            0
        },
        None => {
            println!("bad-request");
            2
        },
    }
}

pub fn abuf_cases(rng: &mut Rng, cases: usize, out: &mut Vec<String>) {
    for size in [1usize, 2, 4, 8, 16, 32, 64] {
        for _ in 0..cases * 6 {
            let n_ops = 4 + rng.usize_below(36);
            let ops = gen_ops(rng, size, n_ops);
            let outs = run_sequence(size, &ops).unwrap_or_default();
            out.push(format!("abufs {size:x} {}\tok {}", ops.join(";"), outs.join(";")));
        }
    }
    // element sizes that do not divide 64: construction must panic (and nothing else happens)
    for len in [0usize, 1, 5, 64] {
        for size in [3usize, 48] {
            let ops = vec![format!("z:{len:x}"), "i:0".to_string()];
            let outs = run_sequence(size, &ops).unwrap_or_default();
            out.push(format!("abufs {size:x} {}\tok {}", ops.join(";"), outs.join(";")));
        }
    }
}
