//! Safe-API level of the correspondence run (see `emit.rs` for the other levels).
// --------------------------------------------------------------------------------------- safe-API level

/// `safe <xany name> <c|a> <DIMS> <mask> <args in the wrapper's parameter order>`: the real safe function under a forced
/// dispatcher mask, with matching and mismatching slice lengths (a mismatch must panic)
pub fn safe_cases(seed: u64, cases: usize, out: &mut Vec<String>) {
    let mut rng0 = Rng::new(seed ^ 0x5afe);
    let rng = &mut rng0;
    use crate::elem::{Elem, Kind, Op};
    use crate::prng::Rng;
    use crate::kern::{Arenas, Out, VecCall};
    fn hl<T: Elem>(xs: &[T]) -> String {
        if xs.is_empty() {
            return "-".to_string();
        }
        xs.iter().map(|x| format!("{:x}", x.to_bits())).collect::<Vec<_>>().join(",")
    }
    let nightly = cfg!(feature = "nightly");
    crate::all_elems!(T => {
        let mut ar = Arenas::new(1 << 16);
        for r in T::all_routines() {
            if !r.safe {
                continue;
            }
            let float = <T as Elem>::FLOAT;
            if nightly && float && (r.op == Op::Cosine || r.op.is_div() || r.op.is_sum_like()) {
                // fast-math may reassociate / use reciprocals: not comparable bit for bit
                continue;
            }
            let int_div = !float && r.op.is_div();
            for c in 0..cases {
                let mask: u8 = (rng.below(8) as u8) & if nightly { 0b111 } else { 0b110 };
                let n = match r.dims {
                    Some(d) => d,
                    None => [0usize, 1, 5, 9, 33, 70, 131][(c + rng.below(7) as usize) % 7],
                };
                // lengths: matching, or one of the slices off by one
                let variant = rng.below(5);
                let (la, lb, lr) = match variant {
                    0 | 1 => (n, n, n),
                    2 => (n + 1, n, n),
                    3 => (n, n + 1, n),
                    _ => (n, n, n + 1),
                };
                let gen = |rng: &mut Rng, divisor: bool| -> T {
                    let v: T = if float || r.op == Op::Cosine { crate::vals::small_int::<T>(rng, 9) } else { crate::vals::random_bits::<T>(rng, false) };
                    if divisor && int_div && v == <T as Elem>::zero() { <T as Elem>::one() } else { v }
                };
                let a: Vec<T> = (0..la).map(|_| gen(rng, false)).collect();
                let b: Vec<T> = (0..lb).map(|_| gen(rng, true)).collect();
                let v: T = gen(rng, true);
                let mut call: VecCall<T> = VecCall::new(r, Some(mask)).with_data(v, a.clone(), b.clone());
                let kind = r.kind();
                if kind == Kind::Map2 || kind == Kind::Map1V {
                    call.res_len = lr;
                }
                let pre = <T as Elem>::from_bits(call.prefill);
                let e = call.exec(&mut ar);
                let ans = match &e.out {
                    Out::Scalar(x) => format!("ok {:x}", x.to_bits()),
                    Out::Vector(xs) => format!("ok {}", hl(xs)),
                    Out::Panic(_) => "fault panic".to_string(),
                };
                let name = if r.dims.is_some() { r.xany_name() } else { r.name.to_string() };
                let head = format!("safe {} {} {:x} {:x}", name, if r.dims.is_some() { "c" } else { "a" }, r.dims.unwrap_or(0), mask);
                let prev: Vec<T> = vec![pre; call.res_len];
                let args = match kind {
                    Kind::Reduce1 => format!("m:{}", hl(&call.a)),
                    Kind::Reduce2 => format!("m:{} m:{}", hl(&call.a), hl(&call.b)),
                    Kind::Map2 => format!("m:{} m:{} m:{}", hl(&call.a), hl(&call.b), hl(&prev)),
                    Kind::Map1V => format!("v:{:x} m:{} m:{}", v.to_bits(), hl(&call.a), hl(&prev)),
                };
                out.push(format!("{head} {args}\t{ans}"));
            }
        }
    });
}

