//! The element trait: everything type-generic code needs to know about the 10 element types,
//! the scalar oracle primitives (independent of the library: plain wrapping / IEEE operations
//! of the Rust primitive types), and access to the generated routine tables.

use std::fmt::Debug;

use crate::tables;

pub type R1<T> = unsafe fn(&[T]) -> T;
pub type R2<T> = unsafe fn(&[T], &[T]) -> T;
pub type M2<T> = unsafe fn(&[T], &[T], &mut [T]);
pub type M1<T> = unsafe fn(T, &[T], &mut [T]);

#[derive(Clone, Copy)]
pub enum Func<T: 'static> {
    R1(R1<T>),
    R2(R2<T>),
    M2(M2<T>),
    M1(M1<T>),
}

#[derive(Clone, Copy, PartialEq, Eq, Debug, Hash)]
pub enum Kind {
    Reduce1,
    Reduce2,
    Map2,
    Map1V,
}

#[derive(Clone, Copy, PartialEq, Eq, Debug, Hash)]
pub enum Backend {
    Fallback,
    Avx2,
    Avx2Fma,
    Avx512,
    /// Safe public function: backend chosen by the runtime dispatcher.
    Dispatch,
}

impl Backend {
    pub fn name(self) -> &'static str {
        match self {
            Backend::Fallback => "fallback",
            Backend::Avx2 => "avx2",
            Backend::Avx2Fma => "avx2fma",
            Backend::Avx512 => "avx512",
            Backend::Dispatch => "dispatch",
        }
    }

    /// Register width in bytes (`None` for the fallback: one element per "register").
    pub fn register_bytes(self) -> Option<usize> {
        match self {
            Backend::Fallback => None,
            Backend::Avx2 | Backend::Avx2Fma => Some(32),
            Backend::Avx512 => Some(64),
            Backend::Dispatch => None,
        }
    }

    pub fn host_supports(self) -> bool {
        match self {
            Backend::Fallback | Backend::Dispatch => true,
            Backend::Avx2 => std::arch::is_x86_feature_detected!("avx2"),
            Backend::Avx2Fma => {
                std::arch::is_x86_feature_detected!("avx2") && std::arch::is_x86_feature_detected!("fma")
            }
            Backend::Avx512 => {
                std::arch::is_x86_feature_detected!("avx512f")
                    && std::arch::is_x86_feature_detected!("avx512bw")
            }
        }
    }
}

#[derive(Clone, Copy, PartialEq, Eq, Debug, Hash)]
pub enum Op {
    Dot,
    Cosine,
    SquaredEuclidean,
    SquaredNorm,
    Sum,
    MaxHorizontal,
    MinHorizontal,
    MaxVertical,
    MinVertical,
    MaxValue,
    MinValue,
    AddValue,
    SubValue,
    MulValue,
    DivValue,
    AddVector,
    SubVector,
    MulVector,
    DivVector,
}

pub const OP_SUFFIXES: [(&str, Op); 19] = [
    ("_squared_euclidean", Op::SquaredEuclidean),
    ("_squared_norm", Op::SquaredNorm),
    ("_max_horizontal", Op::MaxHorizontal),
    ("_min_horizontal", Op::MinHorizontal),
    ("_max_vertical", Op::MaxVertical),
    ("_min_vertical", Op::MinVertical),
    ("_max_value", Op::MaxValue),
    ("_min_value", Op::MinValue),
    ("_add_value", Op::AddValue),
    ("_sub_value", Op::SubValue),
    ("_mul_value", Op::MulValue),
    ("_div_value", Op::DivValue),
    ("_add_vector", Op::AddVector),
    ("_sub_vector", Op::SubVector),
    ("_mul_vector", Op::MulVector),
    ("_div_vector", Op::DivVector),
    ("_cosine", Op::Cosine),
    ("_dot", Op::Dot),
    ("_sum", Op::Sum),
];

impl Op {
    pub fn name(self) -> &'static str {
        OP_SUFFIXES
            .iter()
            .find(|(_, o)| *o == self)
            .map(|(s, _)| &s[1..])
            .unwrap()
    }
    pub fn is_arith(self) -> bool {
        use Op::*;
        matches!(
            self,
            AddValue | SubValue | MulValue | DivValue | AddVector | SubVector | MulVector | DivVector
        )
    }
    pub fn is_div(self) -> bool {
        matches!(self, Op::DivValue | Op::DivVector)
    }
    pub fn is_minmax(self) -> bool {
        use Op::*;
        matches!(
            self,
            MaxHorizontal | MinHorizontal | MaxVertical | MinVertical | MaxValue | MinValue
        )
    }
    pub fn is_sum_like(self) -> bool {
        matches!(self, Op::Dot | Op::SquaredEuclidean | Op::SquaredNorm | Op::Sum)
    }
}

#[derive(Clone, Copy)]
pub struct Routine<T: 'static> {
    pub name: &'static str,
    /// `Some(DIMS)` for const-dimension forms.
    pub dims: Option<usize>,
    pub safe: bool,
    pub backend: Backend,
    pub op: Op,
    pub f: Func<T>,
}

impl<T: 'static> Routine<T> {
    fn new(name: &'static str, dims: Option<usize>, safe: bool, f: Func<T>) -> Routine<T> {
        let op = OP_SUFFIXES
            .iter()
            .find(|(s, _)| name.ends_with(s))
            .map(|(_, o)| *o)
            .unwrap_or_else(|| panic!("unknown op suffix in routine name {name}"));
        let backend = if safe {
            Backend::Dispatch
        } else if name.contains("_fallback_") {
            Backend::Fallback
        } else if name.contains("_avx2_fma_") {
            Backend::Avx2Fma
        } else if name.contains("_avx2_nofma_") {
            Backend::Avx2
        } else if name.contains("_avx512_") {
            Backend::Avx512
        } else {
            panic!("unknown backend in routine name {name}")
        };
        Routine {
            name,
            dims,
            safe,
            backend,
            op,
            f,
        }
    }

    pub fn kind(&self) -> Kind {
        match self.f {
            Func::R1(_) => Kind::Reduce1,
            Func::R2(_) => Kind::Reduce2,
            Func::M2(_) => Kind::Map2,
            Func::M1(_) => Kind::Map1V,
        }
    }

    /// `name` for xany forms, `name::<DIMS>` for xconst forms.
    pub fn display(&self) -> String {
        match self.dims {
            Some(d) => format!("{}::<{}>", self.name, d),
            None => self.name.to_string(),
        }
    }

    /// The xany routine name this xconst routine corresponds to.
    pub fn xany_name(&self) -> String {
        self.name.replacen("_xconst_", "_xany_", 1)
    }
}

/// Dispatcher feature masks for `cfavml::dispatch::verif::set`: bit0 avx512, bit1 avx2, bit2 fma.
/// Only subsets of what the host really has are ever forced.
pub fn dispatch_masks() -> Vec<(u8, &'static str)> {
    let mut v = Vec::new();
    let avx2 = std::arch::is_x86_feature_detected!("avx2");
    let fma = std::arch::is_x86_feature_detected!("fma");
    #[cfg(feature = "nightly")]
    {
        if Backend::Avx512.host_supports() && avx2 && fma {
            v.push((0b111u8, "avx512"));
        }
    }
    if avx2 && fma {
        v.push((0b110u8, "avx2+fma"));
    }
    if avx2 {
        v.push((0b010u8, "avx2"));
    }
    v.push((0b000u8, "fallback"));
    v
}

pub fn mask_name(mask: Option<u8>) -> &'static str {
    match mask {
        None => "-",
        Some(0b111) => "avx512",
        Some(0b110) => "avx2+fma",
        Some(0b010) => "avx2",
        Some(0b000) => "fallback",
        Some(_) => "other",
    }
}

/// Widest register (bytes) the dispatcher can pick under `mask`.
pub fn mask_register_bytes(mask: u8) -> Option<usize> {
    if cfg!(feature = "nightly") && mask & 1 != 0 {
        Some(64)
    } else if mask & 2 != 0 {
        Some(32)
    } else {
        None
    }
}

pub trait Elem: Copy + PartialEq + PartialOrd + Debug + Send + Sync + 'static {
    const NAME: &'static str;
    const BITS: u32;
    const FLOAT: bool;
    const SIGNED: bool;

    fn to_bits(self) -> u64;
    fn from_bits(b: u64) -> Self;
    fn is_nan(self) -> bool;
    fn zero() -> Self;
    fn one() -> Self;
    /// Smallest value of the type (`MIN`, or `-inf`).
    fn lowest() -> Self;
    /// Largest value of the type (`MAX`, or `+inf`).
    fn highest() -> Self;

    // scalar oracle primitives
    fn w_add(self, o: Self) -> Self;
    fn w_sub(self, o: Self) -> Self;
    fn w_mul(self, o: Self) -> Self;
    /// `None` = division by zero on an integer type (the call must panic).
    fn w_div(self, o: Self) -> Option<Self>;
    /// Fused multiply-add for floats (`mul_add`), wrapping `a*b+c` for integers.
    fn fused(self, b: Self, c: Self) -> Self;
    /// Mathematical value for integers (exact), 0 for floats.
    fn to_i128(self) -> i128;
    /// Truncation mod 2^BITS for integers.
    fn from_i128(v: i128) -> Self;
    fn to_f64(self) -> f64;
    /// `v as Self` (saturating, NaN -> 0 for integers).
    fn from_f64(v: f64) -> Self;
    /// `(self as f64).sqrt() as Self` for integers, `sqrt` for floats.
    fn sqrt_via_f64(self) -> Self;
    /// Monotone integer key of a float (ulp distance = key difference); value for integers.
    fn ulp_key(self) -> i128;

    fn show(self) -> String;

    fn all_routines() -> Vec<Routine<Self>>;
}

pub fn hexs<T: Elem>(v: T) -> String {
    format!("0x{:0width$x}", v.to_bits(), width = (T::BITS as usize) / 4)
}

macro_rules! impl_int {
    ($t:ty, $name:expr, $signed:expr) => {
        impl Elem for $t {
            const NAME: &'static str = $name;
            const BITS: u32 = <$t>::BITS;
            const FLOAT: bool = false;
            const SIGNED: bool = $signed;
            #[inline]
            fn to_bits(self) -> u64 {
                (self as u64) & (u64::MAX >> (64 - <$t>::BITS))
            }
            #[inline]
            fn from_bits(b: u64) -> Self {
                b as $t
            }
            #[inline]
            fn is_nan(self) -> bool {
                false
            }
            fn zero() -> Self {
                0
            }
            fn one() -> Self {
                1
            }
            fn lowest() -> Self {
                <$t>::MIN
            }
            fn highest() -> Self {
                <$t>::MAX
            }
            #[inline]
            fn w_add(self, o: Self) -> Self {
                self.wrapping_add(o)
            }
            #[inline]
            fn w_sub(self, o: Self) -> Self {
                self.wrapping_sub(o)
            }
            #[inline]
            fn w_mul(self, o: Self) -> Self {
                self.wrapping_mul(o)
            }
            #[inline]
            fn w_div(self, o: Self) -> Option<Self> {
                if o == 0 {
                    None
                } else {
                    Some(self.wrapping_div(o))
                }
            }
            #[inline]
            fn fused(self, b: Self, c: Self) -> Self {
                self.wrapping_mul(b).wrapping_add(c)
            }
            #[inline]
            fn to_i128(self) -> i128 {
                self as i128
            }
            #[inline]
            fn from_i128(v: i128) -> Self {
                v as $t
            }
            #[inline]
            fn to_f64(self) -> f64 {
                self as f64
            }
            #[inline]
            fn from_f64(v: f64) -> Self {
                v as $t
            }
            #[inline]
            fn sqrt_via_f64(self) -> Self {
                (self as f64).sqrt() as $t
            }
            #[inline]
            fn ulp_key(self) -> i128 {
                self as i128
            }
            fn show(self) -> String {
                format!("{}", self)
            }
            fn all_routines() -> Vec<Routine<Self>> {
                <$t as HasTables>::collect()
            }
        }
    };
}

macro_rules! impl_float {
    ($t:ty, $name:expr, $bits:expr, $ubits:ty) => {
        impl Elem for $t {
            const NAME: &'static str = $name;
            const BITS: u32 = $bits;
            const FLOAT: bool = true;
            const SIGNED: bool = true;
            #[inline]
            fn to_bits(self) -> u64 {
                <$t>::to_bits(self) as u64
            }
            #[inline]
            fn from_bits(b: u64) -> Self {
                <$t>::from_bits(b as $ubits)
            }
            #[inline]
            fn is_nan(self) -> bool {
                self != self
            }
            fn zero() -> Self {
                0.0
            }
            fn one() -> Self {
                1.0
            }
            fn lowest() -> Self {
                <$t>::NEG_INFINITY
            }
            fn highest() -> Self {
                <$t>::INFINITY
            }
            #[inline]
            fn w_add(self, o: Self) -> Self {
                self + o
            }
            #[inline]
            fn w_sub(self, o: Self) -> Self {
                self - o
            }
            #[inline]
            fn w_mul(self, o: Self) -> Self {
                self * o
            }
            #[inline]
            fn w_div(self, o: Self) -> Option<Self> {
                Some(self / o)
            }
            #[inline]
            fn fused(self, b: Self, c: Self) -> Self {
                self.mul_add(b, c)
            }
            #[inline]
            fn to_i128(self) -> i128 {
                0
            }
            #[inline]
            fn from_i128(v: i128) -> Self {
                v as $t
            }
            #[inline]
            fn to_f64(self) -> f64 {
                self as f64
            }
            #[inline]
            fn from_f64(v: f64) -> Self {
                v as $t
            }
            #[inline]
            fn sqrt_via_f64(self) -> Self {
                self.sqrt()
            }
            #[inline]
            fn ulp_key(self) -> i128 {
                let b = <$t>::to_bits(self);
                let sign = b >> ($bits - 1) != 0;
                let mag = (b & (<$ubits>::MAX >> 1)) as i128;
                if sign {
                    -mag
                } else {
                    mag
                }
            }
            fn show(self) -> String {
                format!("{:e}", self)
            }
            fn all_routines() -> Vec<Routine<Self>> {
                <$t as HasTables>::collect()
            }
        }
    };
}

pub trait HasTables: Sized + 'static {
    fn collect() -> Vec<Routine<Self>>;
}

macro_rules! impl_tables {
    ($t:ty;
     $r1a:ident, $r1c:ident, $r1sa:ident, $r1sc:ident;
     $r2a:ident, $r2c:ident, $r2sa:ident, $r2sc:ident;
     $m2a:ident, $m2c:ident, $m2sa:ident, $m2sc:ident;
     $m1a:ident, $m1c:ident, $m1sa:ident, $m1sc:ident) => {
        impl HasTables for $t {
            fn collect() -> Vec<Routine<$t>> {
                let mut v: Vec<Routine<$t>> = Vec::new();
                for &(n, f) in tables::$r1a.iter() {
                    v.push(Routine::new(n, None, false, Func::R1(f)));
                }
                for &(n, f) in tables::$r2a.iter() {
                    v.push(Routine::new(n, None, false, Func::R2(f)));
                }
                for &(n, f) in tables::$m2a.iter() {
                    v.push(Routine::new(n, None, false, Func::M2(f)));
                }
                for &(n, f) in tables::$m1a.iter() {
                    v.push(Routine::new(n, None, false, Func::M1(f)));
                }
                #[cfg(feature = "xconst")]
                fn xc(v: &mut Vec<Routine<$t>>) {
                    for &(n, d, f) in tables::$r1c.iter() {
                        v.push(Routine::new(n, Some(d), false, Func::R1(f)));
                    }
                    for &(n, d, f) in tables::$r2c.iter() {
                        v.push(Routine::new(n, Some(d), false, Func::R2(f)));
                    }
                    for &(n, d, f) in tables::$m2c.iter() {
                        v.push(Routine::new(n, Some(d), false, Func::M2(f)));
                    }
                    for &(n, d, f) in tables::$m1c.iter() {
                        v.push(Routine::new(n, Some(d), false, Func::M1(f)));
                    }
                }
                #[cfg(not(feature = "xconst"))]
                fn xc(_v: &mut Vec<Routine<$t>>) {}
                xc(&mut v);
                for &(n, f) in tables::$r1sa.iter() {
                    v.push(Routine::new(n, None, true, Func::R1(f as R1<$t>)));
                }
                for &(n, f) in tables::$r2sa.iter() {
                    v.push(Routine::new(n, None, true, Func::R2(f as R2<$t>)));
                }
                for &(n, f) in tables::$m2sa.iter() {
                    v.push(Routine::new(n, None, true, Func::M2(f as M2<$t>)));
                }
                for &(n, f) in tables::$m1sa.iter() {
                    v.push(Routine::new(n, None, true, Func::M1(f as M1<$t>)));
                }
                for &(n, d, f) in tables::$r1sc.iter() {
                    v.push(Routine::new(n, Some(d), true, Func::R1(f as R1<$t>)));
                }
                for &(n, d, f) in tables::$r2sc.iter() {
                    v.push(Routine::new(n, Some(d), true, Func::R2(f as R2<$t>)));
                }
                for &(n, d, f) in tables::$m2sc.iter() {
                    v.push(Routine::new(n, Some(d), true, Func::M2(f as M2<$t>)));
                }
                for &(n, d, f) in tables::$m1sc.iter() {
                    v.push(Routine::new(n, Some(d), true, Func::M1(f as M1<$t>)));
                }
                v.retain(|r| r.backend.host_supports());
                v
            }
        }
    };
}

impl_float!(f32, "f32", 32, u32);
impl_float!(f64, "f64", 64, u64);
impl_int!(i8, "i8", true);
impl_int!(i16, "i16", true);
impl_int!(i32, "i32", true);
impl_int!(i64, "i64", true);
impl_int!(u8, "u8", false);
impl_int!(u16, "u16", false);
impl_int!(u32, "u32", false);
impl_int!(u64, "u64", false);

impl_tables!(f32; F32_REDUCE1_XANY, F32_REDUCE1_XCONST, F32_REDUCE1_SAFE_XANY, F32_REDUCE1_SAFE_XCONST; F32_REDUCE2_XANY, F32_REDUCE2_XCONST, F32_REDUCE2_SAFE_XANY, F32_REDUCE2_SAFE_XCONST; F32_MAP2_XANY, F32_MAP2_XCONST, F32_MAP2_SAFE_XANY, F32_MAP2_SAFE_XCONST; F32_MAP1V_XANY, F32_MAP1V_XCONST, F32_MAP1V_SAFE_XANY, F32_MAP1V_SAFE_XCONST);
impl_tables!(f64; F64_REDUCE1_XANY, F64_REDUCE1_XCONST, F64_REDUCE1_SAFE_XANY, F64_REDUCE1_SAFE_XCONST; F64_REDUCE2_XANY, F64_REDUCE2_XCONST, F64_REDUCE2_SAFE_XANY, F64_REDUCE2_SAFE_XCONST; F64_MAP2_XANY, F64_MAP2_XCONST, F64_MAP2_SAFE_XANY, F64_MAP2_SAFE_XCONST; F64_MAP1V_XANY, F64_MAP1V_XCONST, F64_MAP1V_SAFE_XANY, F64_MAP1V_SAFE_XCONST);
impl_tables!(i8; I8_REDUCE1_XANY, I8_REDUCE1_XCONST, I8_REDUCE1_SAFE_XANY, I8_REDUCE1_SAFE_XCONST; I8_REDUCE2_XANY, I8_REDUCE2_XCONST, I8_REDUCE2_SAFE_XANY, I8_REDUCE2_SAFE_XCONST; I8_MAP2_XANY, I8_MAP2_XCONST, I8_MAP2_SAFE_XANY, I8_MAP2_SAFE_XCONST; I8_MAP1V_XANY, I8_MAP1V_XCONST, I8_MAP1V_SAFE_XANY, I8_MAP1V_SAFE_XCONST);
impl_tables!(i16; I16_REDUCE1_XANY, I16_REDUCE1_XCONST, I16_REDUCE1_SAFE_XANY, I16_REDUCE1_SAFE_XCONST; I16_REDUCE2_XANY, I16_REDUCE2_XCONST, I16_REDUCE2_SAFE_XANY, I16_REDUCE2_SAFE_XCONST; I16_MAP2_XANY, I16_MAP2_XCONST, I16_MAP2_SAFE_XANY, I16_MAP2_SAFE_XCONST; I16_MAP1V_XANY, I16_MAP1V_XCONST, I16_MAP1V_SAFE_XANY, I16_MAP1V_SAFE_XCONST);
impl_tables!(i32; I32_REDUCE1_XANY, I32_REDUCE1_XCONST, I32_REDUCE1_SAFE_XANY, I32_REDUCE1_SAFE_XCONST; I32_REDUCE2_XANY, I32_REDUCE2_XCONST, I32_REDUCE2_SAFE_XANY, I32_REDUCE2_SAFE_XCONST; I32_MAP2_XANY, I32_MAP2_XCONST, I32_MAP2_SAFE_XANY, I32_MAP2_SAFE_XCONST; I32_MAP1V_XANY, I32_MAP1V_XCONST, I32_MAP1V_SAFE_XANY, I32_MAP1V_SAFE_XCONST);
impl_tables!(i64; I64_REDUCE1_XANY, I64_REDUCE1_XCONST, I64_REDUCE1_SAFE_XANY, I64_REDUCE1_SAFE_XCONST; I64_REDUCE2_XANY, I64_REDUCE2_XCONST, I64_REDUCE2_SAFE_XANY, I64_REDUCE2_SAFE_XCONST; I64_MAP2_XANY, I64_MAP2_XCONST, I64_MAP2_SAFE_XANY, I64_MAP2_SAFE_XCONST; I64_MAP1V_XANY, I64_MAP1V_XCONST, I64_MAP1V_SAFE_XANY, I64_MAP1V_SAFE_XCONST);
impl_tables!(u8; U8_REDUCE1_XANY, U8_REDUCE1_XCONST, U8_REDUCE1_SAFE_XANY, U8_REDUCE1_SAFE_XCONST; U8_REDUCE2_XANY, U8_REDUCE2_XCONST, U8_REDUCE2_SAFE_XANY, U8_REDUCE2_SAFE_XCONST; U8_MAP2_XANY, U8_MAP2_XCONST, U8_MAP2_SAFE_XANY, U8_MAP2_SAFE_XCONST; U8_MAP1V_XANY, U8_MAP1V_XCONST, U8_MAP1V_SAFE_XANY, U8_MAP1V_SAFE_XCONST);
impl_tables!(u16; U16_REDUCE1_XANY, U16_REDUCE1_XCONST, U16_REDUCE1_SAFE_XANY, U16_REDUCE1_SAFE_XCONST; U16_REDUCE2_XANY, U16_REDUCE2_XCONST, U16_REDUCE2_SAFE_XANY, U16_REDUCE2_SAFE_XCONST; U16_MAP2_XANY, U16_MAP2_XCONST, U16_MAP2_SAFE_XANY, U16_MAP2_SAFE_XCONST; U16_MAP1V_XANY, U16_MAP1V_XCONST, U16_MAP1V_SAFE_XANY, U16_MAP1V_SAFE_XCONST);
impl_tables!(u32; U32_REDUCE1_XANY, U32_REDUCE1_XCONST, U32_REDUCE1_SAFE_XANY, U32_REDUCE1_SAFE_XCONST; U32_REDUCE2_XANY, U32_REDUCE2_XCONST, U32_REDUCE2_SAFE_XANY, U32_REDUCE2_SAFE_XCONST; U32_MAP2_XANY, U32_MAP2_XCONST, U32_MAP2_SAFE_XANY, U32_MAP2_SAFE_XCONST; U32_MAP1V_XANY, U32_MAP1V_XCONST, U32_MAP1V_SAFE_XANY, U32_MAP1V_SAFE_XCONST);
impl_tables!(u64; U64_REDUCE1_XANY, U64_REDUCE1_XCONST, U64_REDUCE1_SAFE_XANY, U64_REDUCE1_SAFE_XCONST; U64_REDUCE2_XANY, U64_REDUCE2_XCONST, U64_REDUCE2_SAFE_XANY, U64_REDUCE2_SAFE_XCONST; U64_MAP2_XANY, U64_MAP2_XCONST, U64_MAP2_SAFE_XANY, U64_MAP2_SAFE_XCONST; U64_MAP1V_XANY, U64_MAP1V_XCONST, U64_MAP1V_SAFE_XANY, U64_MAP1V_SAFE_XCONST);

/// Expands `$body` once per element type with `$t` bound to it.
#[macro_export]
macro_rules! all_elems {
    ($t:ident => $body:block) => {{
        {
            type $t = f32;
            $body
        }
        {
            type $t = f64;
            $body
        }
        {
            type $t = i8;
            $body
        }
        {
            type $t = i16;
            $body
        }
        {
            type $t = i32;
            $body
        }
        {
            type $t = i64;
            $body
        }
        {
            type $t = u8;
            $body
        }
        {
            type $t = u16;
            $body
        }
        {
            type $t = u32;
            $body
        }
        {
            type $t = u64;
            $body
        }
    }};
}

#[macro_export]
macro_rules! int_elems {
    ($t:ident => $body:block) => {{
        {
            type $t = i8;
            $body
        }
        {
            type $t = i16;
            $body
        }
        {
            type $t = i32;
            $body
        }
        {
            type $t = i64;
            $body
        }
        {
            type $t = u8;
            $body
        }
        {
            type $t = u16;
            $body
        }
        {
            type $t = u32;
            $body
        }
        {
            type $t = u64;
            $body
        }
    }};
}

#[macro_export]
macro_rules! float_elems {
    ($t:ident => $body:block) => {{
        {
            type $t = f32;
            $body
        }
        {
            type $t = f64;
            $body
        }
    }};
}
