//! Hand-rolled JSON report writer and the partial-result record that forked workers hand back.

use std::collections::BTreeMap;
use std::fmt::Write as _;

pub const MAX_VIOLATIONS: usize = 20;
pub const MAX_SAMPLES: usize = 5;

#[derive(Clone, Debug, Default)]
pub struct Violation {
    pub kind: String,
    pub routine: String,
    pub call: String,
    /// Raw JSON object text (already valid JSON).
    pub input: String,
    pub expected: String,
    pub actual: String,
    pub note: String,
}

/// What one job (one forked child) contributes to the report.
#[derive(Clone, Debug, Default)]
pub struct Partial {
    pub evaluations: u64,
    pub distinct: u64,
    pub hist: BTreeMap<String, u64>,
    /// Raw JSON values.
    pub samples: Vec<String>,
    pub violations: Vec<Violation>,
    pub internal_errors: Vec<String>,
    /// Number of cases executed (a case may bundle several library calls).
    pub cases: u64,
}

impl Partial {
    #[inline]
    pub fn bump_cases(&mut self) {
        self.cases += 1;
    }

    pub fn bump(&mut self, key: &str, n: u64) {
        if let Some(v) = self.hist.get_mut(key) {
            *v += n;
        } else {
            self.hist.insert(key.to_string(), n);
        }
    }

    pub fn add_violation(&mut self, v: Violation) {
        self.bump("violations_found", 1);
        if self.violations.len() < MAX_VIOLATIONS {
            self.violations.push(v);
        }
    }

    pub fn add_sample(&mut self, s: String) {
        if self.samples.len() < MAX_SAMPLES {
            self.samples.push(s);
        }
    }

    /// Merge without the global caps being applied to violations found by the same job twice.
    pub fn merge_all(&mut self, o: Partial) {
        self.merge(o);
    }

    pub fn merge(&mut self, o: Partial) {
        self.evaluations += o.evaluations;
        self.distinct += o.distinct;
        self.cases += o.cases;
        for (k, v) in o.hist {
            *self.hist.entry(k).or_insert(0) += v;
        }
        self.samples.extend(o.samples);
        if self.samples.len() > MAX_SAMPLES {
            // deterministic, but spread over jobs: keep the samples with the smallest text hash
            self.samples.sort_by_key(|s| fnv(s));
            self.samples.truncate(MAX_SAMPLES);
        }
        for v in o.violations {
            if self.violations.len() < MAX_VIOLATIONS {
                self.violations.push(v);
            }
        }
        self.internal_errors.extend(o.internal_errors);
    }

    // ---- wire format (child -> parent through a MAP_SHARED region) ----

    pub fn serialize(&self) -> Vec<u8> {
        let mut out = Vec::new();
        put_u64(&mut out, self.evaluations);
        put_u64(&mut out, self.distinct);
        put_u64(&mut out, self.cases);
        put_u64(&mut out, self.hist.len() as u64);
        for (k, v) in &self.hist {
            put_str(&mut out, k);
            put_u64(&mut out, *v);
        }
        put_u64(&mut out, self.samples.len() as u64);
        for s in &self.samples {
            put_str(&mut out, s);
        }
        put_u64(&mut out, self.violations.len() as u64);
        for v in &self.violations {
            for s in [
                &v.kind,
                &v.routine,
                &v.call,
                &v.input,
                &v.expected,
                &v.actual,
                &v.note,
            ] {
                put_str(&mut out, s);
            }
        }
        put_u64(&mut out, self.internal_errors.len() as u64);
        for s in &self.internal_errors {
            put_str(&mut out, s);
        }
        out
    }

    pub fn deserialize(buf: &[u8]) -> Option<Partial> {
        let mut r = Reader { b: buf, p: 0 };
        let mut p = Partial {
            evaluations: r.u64()?,
            distinct: r.u64()?,
            cases: r.u64()?,
            ..Default::default()
        };
        for _ in 0..r.u64()? {
            let k = r.str()?;
            let v = r.u64()?;
            p.hist.insert(k, v);
        }
        for _ in 0..r.u64()? {
            p.samples.push(r.str()?);
        }
        for _ in 0..r.u64()? {
            let v = Violation {
                kind: r.str()?,
                routine: r.str()?,
                call: r.str()?,
                input: r.str()?,
                expected: r.str()?,
                actual: r.str()?,
                note: r.str()?,
            };
            p.violations.push(v);
        }
        for _ in 0..r.u64()? {
            p.internal_errors.push(r.str()?);
        }
        Some(p)
    }
}

fn fnv(s: &str) -> u64 {
    let mut h = 0xcbf2_9ce4_8422_2325u64;
    for b in s.bytes() {
        h = (h ^ b as u64).wrapping_mul(0x0000_0100_0000_01b3);
    }
    h
}

fn put_u64(out: &mut Vec<u8>, v: u64) {
    out.extend_from_slice(&v.to_le_bytes());
}

fn put_str(out: &mut Vec<u8>, s: &str) {
    put_u64(out, s.len() as u64);
    out.extend_from_slice(s.as_bytes());
}

struct Reader<'a> {
    b: &'a [u8],
    p: usize,
}

impl Reader<'_> {
    fn u64(&mut self) -> Option<u64> {
        let s = self.b.get(self.p..self.p + 8)?;
        self.p += 8;
        Some(u64::from_le_bytes(s.try_into().ok()?))
    }
    fn str(&mut self) -> Option<String> {
        let n = self.u64()? as usize;
        let s = self.b.get(self.p..self.p.checked_add(n)?)?;
        self.p += n;
        String::from_utf8(s.to_vec()).ok()
    }
}

// ---- JSON ----

pub fn json_str(s: &str) -> String {
    let mut o = String::with_capacity(s.len() + 2);
    o.push('"');
    for c in s.chars() {
        match c {
            '"' => o.push_str("\\\""),
            '\\' => o.push_str("\\\\"),
            '\n' => o.push_str("\\n"),
            '\r' => o.push_str("\\r"),
            '\t' => o.push_str("\\t"),
            c if (c as u32) < 0x20 => {
                let _ = write!(o, "\\u{:04x}", c as u32);
            }
            c => o.push(c),
        }
    }
    o.push('"');
    o
}

/// `{"k":v,...}` from already-rendered JSON values.
pub fn json_obj(fields: &[(&str, String)]) -> String {
    let mut o = String::from("{");
    for (i, (k, v)) in fields.iter().enumerate() {
        if i > 0 {
            o.push(',');
        }
        o.push_str(&json_str(k));
        o.push(':');
        o.push_str(v);
    }
    o.push('}');
    o
}

pub fn json_arr(items: &[String]) -> String {
    let mut o = String::from("[");
    for (i, v) in items.iter().enumerate() {
        if i > 0 {
            o.push(',');
        }
        o.push_str(v);
    }
    o.push(']');
    o
}

pub fn hex(bits: u64, nbits: u32) -> String {
    format!("\"0x{:0width$x}\"", bits, width = (nbits as usize) / 4)
}

pub struct BuildInfo {
    pub nightly: bool,
    pub profile: &'static str,
    pub xconst: bool,
}

pub fn build_info() -> BuildInfo {
    BuildInfo {
        nightly: cfg!(feature = "nightly"),
        profile: if cfg!(debug_assertions) {
            "debug"
        } else {
            "release"
        },
        xconst: cfg!(feature = "xconst"),
    }
}

pub struct Report {
    pub property: String,
    pub tier: String,
    pub seed: u64,
    pub rule: String,
    pub elapsed_ms: u64,
    pub body: Partial,
}

impl Report {
    pub fn to_json(&self) -> String {
        let b = build_info();
        let build = json_obj(&[
            ("nightly", b.nightly.to_string()),
            ("profile", json_str(b.profile)),
            ("xconst", b.xconst.to_string()),
        ]);
        let hist: Vec<(&str, String)> = self
            .body
            .hist
            .iter()
            .map(|(k, v)| (k.as_str(), v.to_string()))
            .collect();
        let viols: Vec<String> = self
            .body
            .violations
            .iter()
            .map(|v| {
                json_obj(&[
                    ("kind", json_str(&v.kind)),
                    ("routine", json_str(&v.routine)),
                    ("call", json_str(&v.call)),
                    (
                        "input",
                        if v.input.is_empty() {
                            "{}".to_string()
                        } else {
                            v.input.clone()
                        },
                    ),
                    ("expected", json_str(&v.expected)),
                    ("actual", json_str(&v.actual)),
                    ("note", json_str(&v.note)),
                ])
            })
            .collect();
        let errs: Vec<String> = self.body.internal_errors.iter().map(|s| json_str(s)).collect();
        let mut fields = vec![
            ("property", json_str(&self.property)),
            ("tier", json_str(&self.tier)),
            ("seed", self.seed.to_string()),
            ("build", build),
            ("evaluations", self.body.evaluations.to_string()),
            ("cases", self.body.cases.to_string()),
            ("distinct_nontrivial", self.body.distinct.to_string()),
            ("rule", json_str(&self.rule)),
            ("elapsed_ms", self.elapsed_ms.to_string()),
            ("histogram", json_obj(&hist)),
            ("samples", json_arr(&self.body.samples)),
            ("violations", json_arr(&viols)),
        ];
        if !errs.is_empty() {
            fields.push(("internal_errors", json_arr(&errs)));
        }
        // pretty enough: one top-level field per line
        let mut o = String::from("{\n");
        for (i, (k, v)) in fields.iter().enumerate() {
            let _ = write!(o, "  {}: {}", json_str(k), v);
            o.push_str(if i + 1 < fields.len() { ",\n" } else { "\n" });
        }
        o.push_str("}\n");
        o
    }
}
