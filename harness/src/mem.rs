//! Memory-safety instrumentation: guard-page arenas, canaries, and the fork/watchdog job runner.
//!
//! Every search runs its library calls inside `fork()`ed children (one child per job, up to
//! `nproc` at a time).  The parent never calls the library.  A child that dies from a signal
//! (SIGSEGV/SIGBUS/SIGILL/SIGFPE/SIGABRT) or from the SIGALRM watchdog is turned into a `fault`
//! violation described by the in-flight record the child keeps in a MAP_SHARED page; the job is
//! then re-run with the faulting case replaced by a minimisation that probes in grandchildren.

use std::collections::HashSet;
use std::fmt::Write as _;
use std::time::{Duration, Instant};

use crate::prng::Rng;
use crate::report::{Partial, Violation, MAX_VIOLATIONS};

pub const PAGE: usize = 4096;
/// Violations written out per job (the report keeps at most `MAX_VIOLATIONS` overall).
pub const MAX_PER_JOB: usize = 3;

// ------------------------------------------------------------------------------------------
// Guard-page arena
// ------------------------------------------------------------------------------------------

/// Where a slice is put inside an arena.
#[derive(Clone, Copy, Debug, PartialEq, Eq, Hash)]
pub enum Place {
    /// Slice END is flush against the trailing PROT_NONE page (canary before the start).
    End,
    /// Slice START is flush after the leading PROT_NONE page (canary after the end).
    Start,
    /// Start address ≡ k (mod 64), as close to the trailing guard page as that allows
    /// (0..63 canary bytes between the slice end and the guard page).
    AlignHi(u8),
    /// Start address = first byte after the leading guard page + k.
    AlignLo(u8),
}

impl Place {
    pub fn label(self) -> String {
        match self {
            Place::End => "end-flush".into(),
            Place::Start => "start-flush".into(),
            Place::AlignHi(k) => format!("hi+{k}"),
            Place::AlignLo(k) => format!("lo+{k}"),
        }
    }
}

/// `[PROT_NONE page][data pages, poison-filled][PROT_NONE page]`
pub struct Arena {
    base: *mut u8,
    map_len: usize,
    data: *mut u8,
    data_len: usize,
    poison: u8,
    /// Byte range of `data` currently occupied by a slice (everything else is poison).
    cur: (usize, usize),
}

impl Arena {
    pub fn new(max_bytes: usize) -> Arena {
        let data_len = (max_bytes + 192 + PAGE - 1) / PAGE * PAGE;
        let map_len = data_len + 2 * PAGE;
        unsafe {
            let base = libc::mmap(
                std::ptr::null_mut(),
                map_len,
                libc::PROT_READ | libc::PROT_WRITE,
                libc::MAP_PRIVATE | libc::MAP_ANONYMOUS,
                -1,
                0,
            );
            assert!(base != libc::MAP_FAILED, "mmap failed");
            let base = base as *mut u8;
            assert_eq!(libc::mprotect(base as *mut _, PAGE, libc::PROT_NONE), 0);
            assert_eq!(
                libc::mprotect(base.add(PAGE + data_len) as *mut _, PAGE, libc::PROT_NONE),
                0
            );
            let data = base.add(PAGE);
            std::ptr::write_bytes(data, 0xA5, data_len);
            Arena {
                base,
                map_len,
                data,
                data_len,
                poison: 0xA5,
                cur: (0, 0),
            }
        }
    }

    pub fn capacity(&self) -> usize {
        self.data_len - 192
    }

    pub fn set_poison(&mut self, p: u8) {
        if p != self.poison {
            self.poison = p;
            unsafe { std::ptr::write_bytes(self.data, p, self.data_len) };
            self.cur = (0, 0);
        }
    }

    /// Reserves `bytes` bytes at the given placement and returns the start pointer.  The
    /// previously placed slice is re-poisoned first.  `align` is the element alignment.
    pub fn place(&mut self, bytes: usize, align: usize, place: Place) -> *mut u8 {
        assert!(
            bytes + 128 <= self.data_len,
            "arena too small: {} > {}",
            bytes,
            self.data_len
        );
        unsafe {
            let (s, e) = self.cur;
            if e > s {
                std::ptr::write_bytes(self.data.add(s), self.poison, e - s);
            }
        }
        let start = match place {
            Place::End => self.data_len - bytes,
            Place::Start => 0,
            Place::AlignHi(k) => {
                let k = k as usize % 64;
                let pad = (self.data_len - bytes + 64 - k) % 64; // data_len ≡ 0 (mod 64)
                self.data_len - bytes - pad
            }
            Place::AlignLo(k) => k as usize % 64,
        };
        assert_eq!(start % align, 0, "placement violates element alignment");
        self.cur = (start, start + bytes);
        unsafe { self.data.add(start) }
    }

    /// Verifies that every byte within `window` bytes of the current slice (outside it) still
    /// holds the poison value.  Returns a description of the first damaged byte.
    pub fn check(&self, window: usize) -> Option<String> {
        let (s, e) = self.cur;
        let lo = s.saturating_sub(window);
        let hi = (e + window).min(self.data_len);
        unsafe {
            let d = std::slice::from_raw_parts(self.data, self.data_len);
            if let Some(i) = find_not(&d[lo..s], self.poison) {
                let off = lo + i;
                return Some(format!(
                    "canary byte {} before the slice start overwritten ({:#04x} -> {:#04x})",
                    s - off,
                    self.poison,
                    d[off]
                ));
            }
            if let Some(i) = find_not(&d[e..hi], self.poison) {
                return Some(format!(
                    "canary byte {} past the slice end overwritten ({:#04x} -> {:#04x})",
                    i,
                    self.poison,
                    d[e + i]
                ));
            }
        }
        None
    }

    pub fn poison(&self) -> u8 {
        self.poison
    }
}

fn find_not(d: &[u8], p: u8) -> Option<usize> {
    // word-at-a-time scan
    let pat = u64::from_ne_bytes([p; 8]);
    let mut i = 0;
    while i + 8 <= d.len() {
        let w = u64::from_ne_bytes(d[i..i + 8].try_into().unwrap());
        if w != pat {
            break;
        }
        i += 8;
    }
    while i < d.len() {
        if d[i] != p {
            return Some(i);
        }
        i += 1;
    }
    None
}

impl Drop for Arena {
    fn drop(&mut self) {
        unsafe {
            libc::munmap(self.base as *mut _, self.map_len);
        }
    }
}

/// A typed view helper: place `len` elements of `T`, returning a raw pointer.
pub fn place_elems<T>(ar: &mut Arena, len: usize, place: Place) -> *mut T {
    ar.place(len * std::mem::size_of::<T>(), std::mem::align_of::<T>(), place) as *mut T
}

// ------------------------------------------------------------------------------------------
// Shared memory between parent and children
// ------------------------------------------------------------------------------------------

const INFLIGHT_TEXT: usize = 1000;
const RESULT_BYTES: usize = 4 << 20;

#[repr(C)]
struct SlotHeader {
    seq: u64,
    /// Heartbeat: bumped for every executed check (also during minimisation).
    hb: u64,
    text_len: u64,
    text: [u8; INFLIGHT_TEXT],
    result_len: u64,
    result_ready: u64,
}

struct Slot {
    mem: *mut u8,
    len: usize,
}

impl Slot {
    fn new() -> Slot {
        let len = (std::mem::size_of::<SlotHeader>() + RESULT_BYTES + PAGE - 1) / PAGE * PAGE;
        unsafe {
            let mem = libc::mmap(
                std::ptr::null_mut(),
                len,
                libc::PROT_READ | libc::PROT_WRITE,
                libc::MAP_SHARED | libc::MAP_ANONYMOUS,
                -1,
                0,
            );
            assert!(mem != libc::MAP_FAILED, "mmap shared failed");
            Slot {
                mem: mem as *mut u8,
                len,
            }
        }
    }
    fn hdr(&self) -> *mut SlotHeader {
        self.mem as *mut SlotHeader
    }
    fn result_area(&self) -> *mut u8 {
        unsafe { self.mem.add(std::mem::size_of::<SlotHeader>()) }
    }
    fn reset(&self) {
        unsafe {
            let h = self.hdr();
            std::ptr::write_volatile(&mut (*h).seq, 0);
            std::ptr::write_volatile(&mut (*h).hb, 0);
            std::ptr::write_volatile(&mut (*h).text_len, 0);
            std::ptr::write_volatile(&mut (*h).result_len, 0);
            std::ptr::write_volatile(&mut (*h).result_ready, 0);
        }
    }
    fn heartbeat(&self) -> u64 {
        unsafe { std::ptr::read_volatile(&(*self.hdr()).hb) }
    }
    fn inflight(&self) -> (u64, String) {
        unsafe {
            let h = self.hdr();
            let seq = std::ptr::read_volatile(&(*h).seq);
            let n = (std::ptr::read_volatile(&(*h).text_len) as usize).min(INFLIGHT_TEXT);
            let bytes = std::slice::from_raw_parts((*h).text.as_ptr(), n);
            (seq, String::from_utf8_lossy(bytes).into_owned())
        }
    }
}

impl Drop for Slot {
    fn drop(&mut self) {
        unsafe {
            libc::munmap(self.mem as *mut _, self.len);
        }
    }
}

/// `fmt::Write` into the in-flight text buffer, without allocating.
struct FixedWriter {
    buf: *mut u8,
    cap: usize,
    len: usize,
}

impl std::fmt::Write for FixedWriter {
    fn write_str(&mut self, s: &str) -> std::fmt::Result {
        let n = s.len().min(self.cap - self.len);
        unsafe { std::ptr::copy_nonoverlapping(s.as_ptr(), self.buf.add(self.len), n) };
        self.len += n;
        Ok(())
    }
}

// ------------------------------------------------------------------------------------------
// Cases, verdicts, and the per-job context
// ------------------------------------------------------------------------------------------

/// One reproducible library call (or small fixed group of calls) with its concrete inputs.
pub trait Case: Clone {
    /// Name of the routine under test (export or safe function name).
    fn routine(&self) -> String;
    /// Short description written to the in-flight page before the call (no allocation).
    fn inflight(&self, w: &mut dyn std::fmt::Write);
    /// Readable call, e.g. `f32_xany_dot(a[37], b[37]) mask=avx2`.
    fn call(&self) -> String;
    /// JSON object with the exact inputs as hex bit patterns.
    fn input_json(&self) -> String;
    /// Hash of the complete logical case (routine + inputs).
    fn hash(&self) -> u64;
    /// Simpler variants, most aggressive first: shorter lengths, then simpler values.
    fn shrink(&self) -> Vec<Self>;
    /// Number of library calls checked by one evaluation of this case.
    fn calls(&self) -> u64 {
        1
    }
}

/// A failed check.
#[derive(Clone, Debug)]
pub struct Fail {
    /// Violation kind for the report (`impl_vs_oracle`, `missing_panic`, `canary`, ...).
    pub kind: &'static str,
    /// Failure class; minimisation only accepts candidates that fail in the same class.
    pub class: &'static str,
    pub expected: String,
    pub actual: String,
    pub note: String,
}

pub type Verdict = Option<Fail>;

#[derive(Clone, Copy, PartialEq, Eq, Debug)]
pub enum Tier {
    Quick,
    Thorough,
}

impl Tier {
    pub fn name(self) -> &'static str {
        match self {
            Tier::Quick => "quick",
            Tier::Thorough => "thorough",
        }
    }
    pub fn pick<T>(self, quick: T, thorough: T) -> T {
        match self {
            Tier::Quick => quick,
            Tier::Thorough => thorough,
        }
    }
}

#[derive(Clone, Copy)]
struct Replay {
    /// Do not execute cases with `seq <= skip_upto`.
    skip_upto: u64,
    /// The case with this sequence number killed the previous child with this signal.
    fault: Option<(u64, i32)>,
}

pub struct Ctx {
    pub p: Partial,
    pub rng: Rng,
    pub tier: Tier,
    pub job_name: String,
    seen: HashSet<u64>,
    slot_hdr: *mut SlotHeader,
    seq: u64,
    replay: Replay,
    deadline: Instant,
    watchdog_default: u32,
    in_probe: bool,
}

pub fn signal_name(sig: i32) -> String {
    match sig {
        libc::SIGSEGV => "SIGSEGV".into(),
        libc::SIGBUS => "SIGBUS".into(),
        libc::SIGILL => "SIGILL".into(),
        libc::SIGFPE => "SIGFPE".into(),
        libc::SIGABRT => "SIGABRT".into(),
        libc::SIGALRM => "watchdog timeout (SIGALRM)".into(),
        libc::SIGPROF => "watchdog timeout (CPU time, SIGPROF)".into(),
        libc::SIGKILL => "SIGKILL".into(),
        s => format!("signal {s}"),
    }
}

/// Result of running a closure in a forked grandchild.
pub enum Probe {
    Pass,
    Fail,
    Died(i32),
}

impl Ctx {
    /// True once the global time budget is used up; jobs stop generating further cases.
    pub fn out_of_time(&mut self) -> bool {
        if Instant::now() >= self.deadline {
            if !self.p.hist.contains_key("jobs_cut_by_deadline") {
                self.p.bump("jobs_cut_by_deadline", 1);
            }
            true
        } else {
            false
        }
    }

    pub fn time_left(&self) -> Duration {
        self.deadline.saturating_duration_since(Instant::now())
    }

    /// Arms a short watchdog for the calls that follow: `secs` of this process's own CPU time (SIGPROF), with a generous
    /// wall-clock backstop — a loaded machine must not turn a slow case into a "hang".
    pub fn arm_watchdog(&self, secs: u32) {
        unsafe {
            cpu_alarm(secs);
        }
    }

    pub fn arm_default_watchdog(&self) {
        unsafe {
            cpu_alarm(0);
            libc::alarm(self.watchdog_default);
        }
    }

    /// Tells the parent this child is alive (it kills children without progress).
    #[inline]
    pub fn beat(&self) {
        unsafe {
            let h = self.slot_hdr;
            let v = std::ptr::read_volatile(&(*h).hb);
            std::ptr::write_volatile(&mut (*h).hb, v.wrapping_add(1));
        }
    }

    /// Publishes the partial report collected so far, so that it survives a later crash of
    /// this child.  After a flush the local partial starts from zero again.
    fn flush_interim(&mut self) {
        unsafe {
            let h = self.slot_hdr;
            // merge with what is already published
            let mut total = Partial::default();
            if std::ptr::read_volatile(&(*h).result_ready) != 0 {
                let n = std::ptr::read_volatile(&(*h).result_len) as usize;
                let area = (h as *mut u8).add(std::mem::size_of::<SlotHeader>());
                if let Some(p) = Partial::deserialize(std::slice::from_raw_parts(area, n)) {
                    total = p;
                }
            }
            total.merge_all(std::mem::take(&mut self.p));
            let bytes = total.serialize();
            if bytes.len() <= RESULT_BYTES {
                let area = (h as *mut u8).add(std::mem::size_of::<SlotHeader>());
                std::ptr::write_volatile(&mut (*h).result_ready, 0);
                std::ptr::copy_nonoverlapping(bytes.as_ptr(), area, bytes.len());
                std::ptr::write_volatile(&mut (*h).result_len, bytes.len() as u64);
                std::ptr::write_volatile(&mut (*h).result_ready, 2);
            } else {
                self.p = total;
            }
        }
    }

    fn note_inflight<C: Case>(&mut self, case: &C) {
        unsafe {
            let h = self.slot_hdr;
            let mut w = FixedWriter {
                buf: (*h).text.as_mut_ptr(),
                cap: INFLIGHT_TEXT,
                len: 0,
            };
            case.inflight(&mut w);
            std::ptr::write_volatile(&mut (*h).text_len, w.len as u64);
            std::ptr::write_volatile(&mut (*h).seq, self.seq);
            let v = std::ptr::read_volatile(&(*h).hb);
            std::ptr::write_volatile(&mut (*h).hb, v.wrapping_add(1));
        }
    }

    /// Runs `check` in a forked grandchild under a watchdog.
    pub fn probe(&self, secs: u32, check: &mut dyn FnMut() -> bool) -> Probe {
        self.beat();
        unsafe {
            let pid = libc::fork();
            if pid < 0 {
                return Probe::Pass;
            }
            if pid == 0 {
                cpu_alarm(secs);
                let ok = std::panic::catch_unwind(std::panic::AssertUnwindSafe(|| check()));
                libc::_exit(match ok {
                    Ok(true) => 0,
                    Ok(false) => 1,
                    Err(_) => 3,
                });
            }
            let mut status = 0;
            loop {
                let r = libc::waitpid(pid, &mut status, 0);
                if r == pid || (r < 0 && *libc::__errno_location() != libc::EINTR) {
                    break;
                }
            }
            if libc::WIFSIGNALED(status) {
                Probe::Died(libc::WTERMSIG(status))
            } else if libc::WIFEXITED(status) && libc::WEXITSTATUS(status) == 0 {
                Probe::Pass
            } else {
                Probe::Fail
            }
        }
    }

    /// Executes one case: in-flight record, check, bookkeeping, minimisation on failure.
    ///
    /// `nontrivial` says whether the case counts towards `distinct_nontrivial` (by the rule
    /// the property states); `check` must be a pure function of the case.
    pub fn run_case<C: Case>(&mut self, case: &C, nontrivial: bool, check: &mut dyn FnMut(&C) -> Verdict) {
        self.seq += 1;
        let seq = self.seq;
        if let Some((fseq, sig)) = self.replay.fault {
            if fseq == seq {
                self.minimise_fault(case, sig, check);
                return;
            }
        }
        if seq <= self.replay.skip_upto {
            return;
        }
        self.note_inflight(case);
        let v = check(case);
        self.p.evaluations += case.calls();
        self.p.bump_cases();
        if nontrivial && self.seen.insert(case.hash()) {
            self.p.distinct += 1;
        }
        if let Some(fail) = v {
            self.p.bump("violations_found", 1);
            let r = case.routine();
            self.p
                .bump(&format!("violating:{}", r.split("::").next().unwrap_or(&r)), 1);
            if self.p.violations.len() < MAX_PER_JOB {
                let hdr = self.slot_hdr;
                let (min, fail, steps) = shrink_case(case, fail, 3000, &mut |c| {
                    unsafe {
                        let v = std::ptr::read_volatile(&(*hdr).hb);
                        std::ptr::write_volatile(&mut (*hdr).hb, v.wrapping_add(1));
                    }
                    check(c)
                });
                let mut note = fail.note.clone();
                if steps > 0 {
                    let _ = write!(note, " [minimised in {steps} steps from: {}]", case.call());
                }
                self.p.violations.push(Violation {
                    kind: fail.kind.to_string(),
                    routine: min.routine(),
                    call: min.call(),
                    input: min.input_json(),
                    expected: fail.expected,
                    actual: fail.actual,
                    note,
                });
                self.flush_interim();
            }
        }
    }

    /// Like `run_case` for checks that are not shrinkable calls (plain assertions about a
    /// single computed fact).  Still counted and guarded by the in-flight record.
    pub fn sequence(&self) -> u64 {
        self.seq
    }

    fn minimise_fault<C: Case>(&mut self, case: &C, sig: i32, check: &mut dyn FnMut(&C) -> Verdict) {
        self.p.evaluations += case.calls();
        self.p.bump_cases();
        self.p.bump("violations_found", 1);
        if self.in_probe {
            return;
        }
        let secs = 3;
        let mut budget = 60usize;
        let mut cur = case.clone();
        let mut steps = 0;
        // does it reproduce at all?
        let mut last_sig = sig;
        let reproduced = match self.probe(secs, &mut || check(&cur.clone()).is_none()) {
            Probe::Died(s) => {
                last_sig = s;
                true
            }
            _ => false,
        };
        if reproduced {
            'outer: loop {
                for cand in cur.shrink() {
                    if budget == 0 {
                        break 'outer;
                    }
                    budget -= 1;
                    if let Probe::Died(s) = self.probe(secs, &mut || check(&cand).is_none()) {
                        last_sig = s;
                        cur = cand;
                        steps += 1;
                        continue 'outer;
                    }
                }
                break;
            }
        }
        let mut note = signal_name(last_sig);
        if !reproduced {
            note.push_str(" (did not reproduce in an isolated re-run; reporting the original case)");
        } else if steps > 0 {
            let _ = write!(note, " [minimised in {steps} steps from: {}]", case.call());
        }
        if self.p.violations.len() < MAX_VIOLATIONS {
            self.p.violations.push(Violation {
                kind: "fault".into(),
                routine: cur.routine(),
                call: cur.call(),
                input: cur.input_json(),
                expected: "returns (or panics) without a memory fault / within the watchdog".into(),
                actual: format!("child process killed: {}", signal_name(last_sig)),
                note,
            });
        }
        self.flush_interim();
    }
}

/// Greedy minimisation: repeatedly take the first shrink candidate that still fails in the same
/// class.  Returns the minimal case, its failure, and the number of accepted steps.
pub fn shrink_case<C: Case>(
    case: &C,
    fail: Fail,
    mut budget: usize,
    check: &mut dyn FnMut(&C) -> Verdict,
) -> (C, Fail, usize) {
    let mut cur = case.clone();
    let mut cur_fail = fail;
    let mut steps = 0;
    'outer: loop {
        for cand in cur.shrink() {
            if budget == 0 {
                break 'outer;
            }
            budget -= 1;
            if let Some(f) = check(&cand) {
                if f.class == cur_fail.class {
                    cur = cand;
                    cur_fail = f;
                    steps += 1;
                    continue 'outer;
                }
            }
        }
        break;
    }
    (cur, cur_fail, steps)
}

// ------------------------------------------------------------------------------------------
// Job runner
// ------------------------------------------------------------------------------------------

pub struct Job {
    pub name: String,
    pub seed: u64,
    pub run: Box<dyn Fn(&mut Ctx)>,
}

impl Job {
    pub fn new(name: String, rng: &mut Rng, run: impl Fn(&mut Ctx) + 'static) -> Job {
        Job {
            name,
            seed: rng.next_u64(),
            run: Box::new(run),
        }
    }
}

pub struct RunCfg {
    pub tier: Tier,
    pub workers: usize,
    /// Global budget for generating cases (jobs stop early once it is used up).
    pub budget: Duration,
}

impl RunCfg {
    pub fn for_tier(tier: Tier) -> RunCfg {
        let workers = std::thread::available_parallelism()
            .map(|n| n.get())
            .unwrap_or(4)
            .min(32);
        let budget = match tier {
            Tier::Quick => Duration::from_secs(18),
            Tier::Thorough => Duration::from_secs(300),
        };
        RunCfg {
            tier,
            workers,
            budget,
        }
    }
}

struct Running {
    pid: i32,
    job: usize,
    slot: usize,
    attempts: u32,
    /// Fault seen by a previous attempt, waiting for the minimising re-run.
    pending: Option<(u64, i32, String)>,
    last_hb: u64,
    last_progress: Instant,
    /// CPU time (clock ticks) the child had consumed when its heartbeat last advanced; `None` = not sampled yet
    cpu_at_progress: Option<u64>,
    /// Killed by the parent because the heartbeat stopped.
    stalled: bool,
}

/// Seconds of the child's own **CPU time** without a heartbeat after which the parent kills it (watchdog). Measured in
/// CPU time, not wall time: on a loaded machine a child that is merely not being scheduled must not be taken for a hang
/// (that produced false "watchdog timeout" faults when several checks ran at once).
pub const STALL_SECS: u64 = 8;
/// Wall-clock bound for a child that neither advances nor burns CPU (blocked forever)
pub const STALL_WALL_SECS: u64 = 300;

/// `secs` seconds of CPU time until SIGPROF (0 cancels), plus a wall-clock SIGALRM backstop at `30·secs + 60` s
pub unsafe fn cpu_alarm(secs: u32) {
    let it = libc::itimerval {
        it_interval: libc::timeval { tv_sec: 0, tv_usec: 0 },
        it_value: libc::timeval { tv_sec: secs as libc::time_t, tv_usec: 0 },
    };
    libc::setitimer(libc::ITIMER_PROF, &it, std::ptr::null_mut());
    if secs > 0 {
        libc::alarm(secs * 30 + 60);
    }
}

/// user + system CPU time of a process in clock ticks (`/proc/<pid>/stat`, fields 14 and 15)
fn cpu_ticks(pid: i32) -> Option<u64> {
    let s = std::fs::read_to_string(format!("/proc/{pid}/stat")).ok()?;
    // the command name may contain spaces: fields are counted after the closing parenthesis
    let rest = &s[s.rfind(')')? + 1..];
    let f: Vec<&str> = rest.split_whitespace().collect();
    let ut: u64 = f.get(11)?.parse().ok()?;
    let st: u64 = f.get(12)?.parse().ok()?;
    Some(ut + st)
}

fn silent_panics() {
    std::panic::set_hook(Box::new(|_| {}));
}

unsafe fn child_main(job: &Job, slot: &Slot, replay: Replay, cfg: &RunCfg, deadline: Instant) -> ! {
    silent_panics();
    let left = deadline.saturating_duration_since(Instant::now()).as_secs() as u32;
    let watchdog = left + 25;
    libc::alarm(watchdog);
    let mut ctx = Ctx {
        p: Partial::default(),
        rng: Rng::new(job.seed),
        tier: cfg.tier,
        job_name: job.name.clone(),
        seen: HashSet::new(),
        slot_hdr: slot.hdr(),
        seq: 0,
        replay,
        deadline,
        watchdog_default: watchdog,
        in_probe: false,
    };
    let r = std::panic::catch_unwind(std::panic::AssertUnwindSafe(|| (job.run)(&mut ctx)));
    if let Err(e) = r {
        let msg = if let Some(s) = e.downcast_ref::<String>() {
            s.clone()
        } else if let Some(s) = e.downcast_ref::<&str>() {
            s.to_string()
        } else {
            "unknown panic".into()
        };
        ctx.p
            .internal_errors
            .push(format!("job {} panicked in harness code: {}", job.name, msg));
    }
    ctx.flush_interim();
    let h = slot.hdr();
    if std::ptr::read_volatile(&(*h).result_ready) != 2 {
        // cannot happen with the caps on samples/violations
        libc::_exit(4);
    }
    std::ptr::write_volatile(&mut (*h).result_ready, 1);
    libc::_exit(0);
}

/// Runs all jobs in forked children and merges their partial reports.
pub fn run_jobs(jobs: Vec<Job>, cfg: &RunCfg) -> Partial {
    let start = Instant::now();
    let deadline = start + cfg.budget;
    let mut total = Partial::default();
    let nslots = cfg.workers.max(1);
    let slots: Vec<Slot> = (0..nslots).map(|_| Slot::new()).collect();
    let mut free: Vec<usize> = (0..nslots).rev().collect();
    let mut running: Vec<Running> = Vec::new();
    let mut next = 0usize;
    total.bump("jobs", jobs.len() as u64);

    let spawn = |job: usize,
                 slot: usize,
                 attempts: u32,
                 replay: Replay,
                 pending: Option<(u64, i32, String)>|
     -> Running {
        slots[slot].reset();
        unsafe {
            let pid = libc::fork();
            assert!(pid >= 0, "fork failed");
            if pid == 0 {
                child_main(&jobs[job], &slots[slot], replay, cfg, deadline);
            }
            Running {
                pid,
                job,
                slot,
                attempts,
                pending,
                last_hb: 0,
                last_progress: Instant::now(),
                cpu_at_progress: None,
                stalled: false,
            }
        }
    };
    // Reads whatever partial report the child has published (final or interim).
    let published = |slot: &Slot| -> Option<Partial> {
        unsafe {
            if std::ptr::read_volatile(&(*slot.hdr()).result_ready) == 0 {
                return None;
            }
            let n = std::ptr::read_volatile(&(*slot.hdr()).result_len) as usize;
            Partial::deserialize(std::slice::from_raw_parts(
                slot.result_area(),
                n.min(RESULT_BYTES),
            ))
        }
    };
    let push_fault = |total: &mut Partial, v: Violation| {
        total.bump("violations_found", 1);
        if total.violations.len() < MAX_VIOLATIONS {
            total.violations.push(v);
        }
    };

    loop {
        while next < jobs.len() && !free.is_empty() {
            let slot = free.pop().unwrap();
            running.push(spawn(
                next,
                slot,
                0,
                Replay {
                    skip_upto: 0,
                    fault: None,
                },
                None,
            ));
            next += 1;
        }
        if running.is_empty() {
            break;
        }
        let mut status = 0;
        let pid = unsafe { libc::waitpid(-1, &mut status, libc::WNOHANG) };
        if pid < 0 {
            if unsafe { *libc::__errno_location() } == libc::EINTR {
                continue;
            }
            total.internal_errors.push("waitpid failed".into());
            break;
        }
        if pid == 0 {
            // nobody finished: watchdog pass, then a short sleep
            let now = Instant::now();
            for r in running.iter_mut() {
                let hb = slots[r.slot].heartbeat();
                if hb != r.last_hb {
                    r.last_hb = hb;
                    r.last_progress = now;
                    r.cpu_at_progress = None;
                } else if !r.stalled && now.duration_since(r.last_progress).as_secs() >= STALL_SECS {
                    // no heartbeat for a while in wall time: a hang only if the child also burned that much CPU
                    let ticks_per_sec = unsafe { libc::sysconf(libc::_SC_CLK_TCK) }.max(1) as u64;
                    let wall = now.duration_since(r.last_progress).as_secs();
                    let cpu_now = cpu_ticks(r.pid);
                    let burned = match (r.cpu_at_progress, cpu_now) {
                        (Some(c0), Some(c1)) => c1.saturating_sub(c0) / ticks_per_sec,
                        (None, Some(c1)) => {
                            // first sample after the wall threshold: start counting CPU from here
                            r.cpu_at_progress = Some(c1);
                            0
                        },
                        _ => 0,
                    };
                    if burned >= STALL_SECS || wall >= STALL_WALL_SECS {
                        r.stalled = true;
                        unsafe {
                            libc::kill(r.pid, libc::SIGKILL);
                        }
                    }
                }
            }
            std::thread::sleep(Duration::from_micros(500));
            continue;
        }
        let Some(idx) = running.iter().position(|r| r.pid == pid) else {
            continue;
        };
        let r = running.swap_remove(idx);
        let slot = &slots[r.slot];
        let job_name = &jobs[r.job].name;
        let part = published(slot);
        let reported_fault = part
            .as_ref()
            .map(|p| p.violations.iter().any(|v| v.kind == "fault"))
            .unwrap_or(false);
        if libc::WIFEXITED(status) && libc::WEXITSTATUS(status) == 0 {
            match part {
                Some(p) => {
                    // If this was a minimising re-run, the child reported the fault itself.
                    if let Some((seq, sig, desc)) = &r.pending {
                        if !reported_fault {
                            push_fault(&mut total, raw_fault(job_name, *seq, *sig, desc));
                        }
                    }
                    total.merge(p);
                }
                None => total
                    .internal_errors
                    .push(format!("job {job_name}: child exited without a readable result")),
            }
            free.push(r.slot);
        } else if libc::WIFSIGNALED(status) {
            let sig = if r.stalled {
                libc::SIGALRM
            } else {
                libc::WTERMSIG(status)
            };
            let (seq, desc) = slot.inflight();
            total.bump("child_faults", 1);
            if let Some((pseq, psig, pdesc)) = &r.pending {
                // The minimising re-run died as well: if it got as far as reporting the earlier
                // fault (interim report) fine, otherwise report it unminimised.
                if !reported_fault {
                    push_fault(&mut total, raw_fault(job_name, *pseq, *psig, pdesc));
                }
            }
            // keep what the child had published before it died
            if let Some(p) = part {
                total.merge(p);
            }
            if seq == 0 {
                total.internal_errors.push(format!(
                    "job {job_name}: child died from {} before running any case",
                    signal_name(sig)
                ));
                free.push(r.slot);
            } else if r.attempts >= 6 || total.violations.len() >= MAX_VIOLATIONS {
                push_fault(&mut total, raw_fault(job_name, seq, sig, &desc));
                total.bump("jobs_abandoned_after_repeated_faults", 1);
                free.push(r.slot);
            } else {
                // Re-run the job: skip what was already executed, minimise the faulting case.
                let same_as_pending = r.pending.as_ref().map(|p| p.0 == seq).unwrap_or(false);
                let replay = if same_as_pending {
                    // the minimiser itself crashed the child: just skip that case
                    Replay {
                        skip_upto: seq,
                        fault: None,
                    }
                } else {
                    Replay {
                        skip_upto: seq,
                        fault: Some((seq, sig)),
                    }
                };
                let pending = if same_as_pending {
                    None
                } else {
                    Some((seq, sig, desc))
                };
                running.push(spawn(r.job, r.slot, r.attempts + 1, replay, pending));
            }
        } else {
            let code = if libc::WIFEXITED(status) {
                libc::WEXITSTATUS(status)
            } else {
                -1
            };
            total
                .internal_errors
                .push(format!("job {job_name}: child exited with status {code}"));
            free.push(r.slot);
        }
    }
    total.bump("wall_ms_jobs", start.elapsed().as_millis() as u64);
    total
}

fn raw_fault(job: &str, seq: u64, sig: i32, desc: &str) -> Violation {
    Violation {
        kind: "fault".into(),
        routine: desc.split_whitespace().next().unwrap_or("?").to_string(),
        call: desc.to_string(),
        input: format!(
            "{{\"job\":{},\"case_seq\":{}}}",
            crate::report::json_str(job),
            seq
        ),
        expected: "returns (or panics) without a memory fault / within the watchdog".into(),
        actual: format!("child process killed: {}", signal_name(sig)),
        note: format!(
            "{} (unminimised: in-flight record of the child)",
            signal_name(sig)
        ),
    }
}

/// Runs `f` under `catch_unwind`; `Err(message)` if it panicked.
pub fn catch<R>(f: impl FnOnce() -> R) -> Result<R, String> {
    match std::panic::catch_unwind(std::panic::AssertUnwindSafe(f)) {
        Ok(r) => Ok(r),
        Err(e) => Err(if let Some(s) = e.downcast_ref::<String>() {
            s.clone()
        } else if let Some(s) = e.downcast_ref::<&str>() {
            s.to_string()
        } else {
            "panic".into()
        }),
    }
}
