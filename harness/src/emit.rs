//! `cfavml-harness emit ...` — placeholder, filled in elsewhere.

/// Entry point of the `emit` subcommand.  Returns the process exit code.
pub fn main_emit(args: &[String]) -> i32 {
    let _ = args;
    eprintln!("cfavml-harness emit: not implemented yet");
    2
}
