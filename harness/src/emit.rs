//! `cfavml-harness emit <level> --seed N --cases K --out FILE`
//!
//! Correspondence driver (implementation side). Writes one line per case: `<request>\t<answer of the real code>`,
//! in the line protocol of the Lean driver (/verif/lean/CfavmlModel/Driver/Main.lean). The check pipes the
//! requests through the model and diffs the answers.
//!   level `reg`  : every `SimdRegister<T>` method of every backend of this build, called directly
//!   level `math` : every `Math<T>` method of StdMath / AutoMath (FastMath on nightly)
//!   level `kern` : every xany export by name; the request names the (register, type, kernel) the
//!                  translator extracted for that export, so a table slip shows as a disagreement
#![allow(clippy::missing_safety_doc)]

use std::fmt::Write as _;
use std::io::Write as _;
use std::panic::{catch_unwind, AssertUnwindSafe};

use cfavml::danger::*;
use cfavml::math::{AutoMath, Math, StdMath};

use crate::tables;

pub trait Bits: Copy + Default + 'static {
    const NAME: &'static str;
    const W: u32;
    const FLOAT: bool;
    fn to_u64(self) -> u64;
    fn from_u64(x: u64) -> Self;
}

macro_rules! bits_int {
    ($t:ty, $u:ty, $w:expr) => {
        impl Bits for $t {
            const NAME: &'static str = stringify!($t);
            const W: u32 = $w;
            const FLOAT: bool = false;
            fn to_u64(self) -> u64 {
                (self as $u) as u64
            }
            fn from_u64(x: u64) -> Self {
                (x as $u) as $t
            }
        }
    };
}
bits_int!(i8, u8, 8);
bits_int!(i16, u16, 16);
bits_int!(i32, u32, 32);
bits_int!(i64, u64, 64);
bits_int!(u8, u8, 8);
bits_int!(u16, u16, 16);
bits_int!(u32, u32, 32);
bits_int!(u64, u64, 64);
impl Bits for f32 {
    const NAME: &'static str = "f32";
    const W: u32 = 32;
    const FLOAT: bool = true;
    fn to_u64(self) -> u64 {
        self.to_bits() as u64
    }
    fn from_u64(x: u64) -> Self {
        f32::from_bits(x as u32)
    }
}
impl Bits for f64 {
    const NAME: &'static str = "f64";
    const W: u32 = 64;
    const FLOAT: bool = true;
    fn to_u64(self) -> u64 {
        self.to_bits()
    }
    fn from_u64(x: u64) -> Self {
        f64::from_bits(x)
    }
}

pub struct Rng(u64);
impl Rng {
    pub fn new(seed: u64) -> Self {
        Rng(seed.wrapping_mul(0x9E3779B97F4A7C15) | 1)
    }
    pub fn next(&mut self) -> u64 {
        let mut x = self.0;
        x ^= x >> 12;
        x ^= x << 25;
        x ^= x >> 27;
        self.0 = x;
        x.wrapping_mul(0x2545F4914F6CDD1D)
    }
    pub fn below(&mut self, n: u64) -> u64 {
        self.next() % n.max(1)
    }
}

/// value classes: 0 = arbitrary bits / boundaries, 1 = small integers (exact in every float op), 2 = moderate floats
fn gen_val<T: Bits>(rng: &mut Rng, class: u32) -> T {
    let mask = if T::W == 64 { u64::MAX } else { (1u64 << T::W) - 1 };
    if T::FLOAT {
        let small = |rng: &mut Rng| -> f64 { (rng.below(33) as f64) - 16.0 };
        let v: f64 = match class {
            1 => small(rng),
            2 => ((rng.below(2_000_001) as f64) - 1_000_000.0) / 1024.0,
            _ => {
                let specials32: [u32; 12] = [
                    0, 0x8000_0000, 0x3f80_0000, 0xbf80_0000, 0x7f80_0000, 0xff80_0000, 0x7fc0_0000, 0x0000_0001, 0x8000_0001, 0x7f7f_ffff,
                    0x0080_0000, 0x3400_0000,
                ];
                let specials64: [u64; 12] = [
                    0,
                    0x8000_0000_0000_0000,
                    0x3ff0_0000_0000_0000,
                    0xbff0_0000_0000_0000,
                    0x7ff0_0000_0000_0000,
                    0xfff0_0000_0000_0000,
                    0x7ff8_0000_0000_0000,
                    1,
                    0x8000_0000_0000_0001,
                    0x7fef_ffff_ffff_ffff,
                    0x0010_0000_0000_0000,
                    0x3ca0_0000_0000_0000,
                ];
                return match rng.below(3) {
                    0 => T::from_u64(if T::W == 32 { specials32[rng.below(12) as usize] as u64 } else { specials64[rng.below(12) as usize] }),
                    _ => T::from_u64(rng.next() & mask),
                };
            },
        };
        if T::W == 32 {
            T::from_u64((v as f32).to_bits() as u64)
        } else {
            T::from_u64(v.to_bits())
        }
    } else {
        match class {
            1 => T::from_u64((rng.below(33) as i64 - 16) as u64 & mask),
            _ => {
                let b: [u64; 8] = [0, 1, mask, mask >> 1, (mask >> 1) + 1, 2, mask - 1, (mask >> 1) - 1];
                match rng.below(3) {
                    0 => T::from_u64(b[rng.below(8) as usize]),
                    _ => T::from_u64(rng.next() & mask),
                }
            },
        }
    }
}

fn hexlist<T: Bits>(xs: &[T]) -> String {
    if xs.is_empty() {
        return "-".to_string();
    }
    let mut s = String::new();
    for (k, x) in xs.iter().enumerate() {
        if k > 0 {
            s.push(',');
        }
        let _ = write!(s, "{:x}", x.to_u64());
    }
    s
}

fn quiet_panics() {
    std::panic::set_hook(Box::new(|_| {}));
}

fn answer<F: FnOnce() -> String>(f: F) -> String {
    match catch_unwind(AssertUnwindSafe(f)) {
        Ok(s) => s,
        Err(_) => "fault panic".to_string(),
    }
}

// --------------------------------------------------------------------------------------- register level

unsafe fn reg_from<T: Bits, R: SimdRegister<T>>(lanes: &[T]) -> R::Register {
    R::load(lanes.as_ptr())
}
unsafe fn reg_to<T: Bits, R: SimdRegister<T>>(r: R::Register, l: usize) -> Vec<T> {
    let mut v = vec![T::default(); l];
    R::write(v.as_mut_ptr(), r);
    v
}
unsafe fn dense_from<T: Bits, R: SimdRegister<T>>(lanes: &[T], l: usize) -> DenseLane<R::Register> {
    DenseLane {
        a: reg_from::<T, R>(&lanes[0..l]),
        b: reg_from::<T, R>(&lanes[l..2 * l]),
        c: reg_from::<T, R>(&lanes[2 * l..3 * l]),
        d: reg_from::<T, R>(&lanes[3 * l..4 * l]),
        e: reg_from::<T, R>(&lanes[4 * l..5 * l]),
        f: reg_from::<T, R>(&lanes[5 * l..6 * l]),
        g: reg_from::<T, R>(&lanes[6 * l..7 * l]),
        h: reg_from::<T, R>(&lanes[7 * l..8 * l]),
    }
}
unsafe fn dense_to<T: Bits, R: SimdRegister<T>>(d: DenseLane<R::Register>, l: usize) -> Vec<T> {
    let mut v = vec![];
    for r in [d.a, d.b, d.c, d.d, d.e, d.f, d.g, d.h] {
        v.extend(reg_to::<T, R>(r, l));
    }
    v
}

/// all register-level cases of one backend at one element type
unsafe fn reg_cases<T: Bits, R: SimdRegister<T>>(reg: &str, fused: bool, rng: &mut Rng, cases: usize, out: &mut Vec<String>) {
    let l = R::elements_per_lane();
    let head = format!("reg {reg} {}", T::NAME);
    out.push(format!("{head} elements_per_lane\tok {:x}", l));
    out.push(format!("{head} elements_per_dense\tok {:x}", R::elements_per_dense()));
    out.push(format!("{head} zeroed\tok {}", hexlist(&reg_to::<T, R>(R::zeroed(), l))));
    out.push(format!("{head} zeroed_dense\tok {}", hexlist(&dense_to::<T, R>(R::zeroed_dense(), l))));
    for c in 0..cases {
        let class = if T::FLOAT { [0, 0, 2, 1][c % 4] } else { 0 };
        let x: Vec<T> = (0..l).map(|_| gen_val::<T>(rng, class)).collect();
        let y: Vec<T> = (0..l).map(|_| gen_val::<T>(rng, class)).collect();
        let z: Vec<T> = (0..l).map(|_| gen_val::<T>(rng, class)).collect();
        let v: T = gen_val::<T>(rng, class);
        out.push(format!("{head} filled v:{:x}\tok {}", v.to_u64(), hexlist(&reg_to::<T, R>(R::filled(v), l))));
        macro_rules! bin {
            ($name:literal, $m:ident) => {{
                let a = answer(|| format!("ok {}", hexlist(&reg_to::<T, R>(R::$m(reg_from::<T, R>(&x), reg_from::<T, R>(&y)), l))));
                out.push(format!("{head} {} r:{} r:{}\t{}", $name, hexlist(&x), hexlist(&y), a));
            }};
        }
        bin!("add", add);
        bin!("sub", sub);
        bin!("mul", mul);
        if cfg!(feature = "nightly") && T::FLOAT && reg == "Fallback" {
            // FastMath division (reciprocal multiplication is allowed): moderate operands only, compared within 2 ulp
            let x2: Vec<T> = (0..l).map(|_| gen_val::<T>(rng, 2)).collect();
            let y2: Vec<T> = (0..l).map(|_| gen_val::<T>(rng, 2)).collect();
            let a = answer(|| format!("ok {}", hexlist(&reg_to::<T, R>(R::div(reg_from::<T, R>(&x2), reg_from::<T, R>(&y2)), l))));
            out.push(format!("{head} div r:{} r:{}\t{}", hexlist(&x2), hexlist(&y2), a));
        } else {
            bin!("div", div);
        }
        bin!("max", max);
        bin!("min", min);
        // fused multiply-add: arbitrary bit patterns (the model driver has an exact software fma); NaN payloads
        // are canonicalised by the comparison
        let _ = fused;
        let (fx, fy, fz): (Vec<T>, Vec<T>, Vec<T>) = (x.clone(), y.clone(), z.clone());
        out.push(format!(
            "{head} fmadd r:{} r:{} r:{}\tok {}",
            hexlist(&fx),
            hexlist(&fy),
            hexlist(&fz),
            hexlist(&reg_to::<T, R>(R::fmadd(reg_from::<T, R>(&fx), reg_from::<T, R>(&fy), reg_from::<T, R>(&fz)), l))
        ));
        // horizontal folds: float sums on moderate / small data only (overflow to inf is fine, NaN payloads are not compared)
        let hx: Vec<T> = if T::FLOAT && class == 0 { (0..l).map(|_| gen_val::<T>(rng, 2)).collect() } else { x.clone() };
        out.push(format!("{head} sum_to_value r:{}\tok {:x}", hexlist(&hx), R::sum_to_value(reg_from::<T, R>(&hx)).to_u64()));
        let mx: Vec<T> = if T::FLOAT { (0..l).map(|_| gen_val::<T>(rng, 2)).collect() } else { x.clone() };
        out.push(format!("{head} max_to_value r:{}\tok {:x}", hexlist(&mx), R::max_to_value(reg_from::<T, R>(&mx)).to_u64()));
        out.push(format!("{head} min_to_value r:{}\tok {:x}", hexlist(&mx), R::min_to_value(reg_from::<T, R>(&mx)).to_u64()));
        // memory
        let n = l * 2 + 3;
        let mem: Vec<T> = (0..n).map(|_| gen_val::<T>(rng, class)).collect();
        let off = rng.below((n - l + 1) as u64) as usize;
        out.push(format!("{head} load m:{} o:{:x}\tok {}", hexlist(&mem), off, hexlist(&reg_to::<T, R>(R::load(mem.as_ptr().add(off)), l))));
        let mut m2 = mem.clone();
        R::write(m2.as_mut_ptr().add(off), reg_from::<T, R>(&x));
        out.push(format!("{head} write m:{} o:{:x} r:{}\tok {}", hexlist(&mem), off, hexlist(&x), hexlist(&m2)));
        // dense forms (every 4th case: they are eight times as long)
        if c % 4 == 0 {
            let dclass = if T::FLOAT { 2 } else { 0 };
            let dx: Vec<T> = (0..8 * l).map(|_| gen_val::<T>(rng, dclass)).collect();
            let dy: Vec<T> = (0..8 * l).map(|_| gen_val::<T>(rng, dclass)).collect();
            let dz: Vec<T> = (0..8 * l).map(|_| gen_val::<T>(rng, dclass)).collect();
            macro_rules! dbin {
                ($name:literal, $m:ident) => {{
                    let a = answer(|| {
                        format!("ok {}", hexlist(&dense_to::<T, R>(R::$m(dense_from::<T, R>(&dx, l), dense_from::<T, R>(&dy, l)), l)))
                    });
                    out.push(format!("{head} {} d:{} d:{}\t{}", $name, hexlist(&dx), hexlist(&dy), a));
                }};
            }
            dbin!("add_dense", add_dense);
            dbin!("sub_dense", sub_dense);
            dbin!("mul_dense", mul_dense);
            if !(cfg!(feature = "nightly") && T::FLOAT && reg == "Fallback" && class == 0) {
                dbin!("div_dense", div_dense);
            }
            dbin!("max_dense", max_dense);
            dbin!("min_dense", min_dense);
            let sx: Vec<T> = dx.clone();
            let sy: Vec<T> = dy.clone();
            let sz: Vec<T> = dz.clone();
            out.push(format!(
                "{head} fmadd_dense d:{} d:{} d:{}\tok {}",
                hexlist(&sx),
                hexlist(&sy),
                hexlist(&sz),
                hexlist(&dense_to::<T, R>(R::fmadd_dense(dense_from::<T, R>(&sx, l), dense_from::<T, R>(&sy, l), dense_from::<T, R>(&sz, l)), l))
            ));
            out.push(format!("{head} sum_to_register d:{}\tok {}", hexlist(&dx), hexlist(&reg_to::<T, R>(R::sum_to_register(dense_from::<T, R>(&dx, l)), l))));
            out.push(format!("{head} max_to_register d:{}\tok {}", hexlist(&dx), hexlist(&reg_to::<T, R>(R::max_to_register(dense_from::<T, R>(&dx, l)), l))));
            out.push(format!("{head} min_to_register d:{}\tok {}", hexlist(&dx), hexlist(&reg_to::<T, R>(R::min_to_register(dense_from::<T, R>(&dx, l)), l))));
            out.push(format!("{head} filled_dense v:{:x}\tok {}", v.to_u64(), hexlist(&dense_to::<T, R>(R::filled_dense(v), l))));
            let n = l * 8 + 5;
            let mem: Vec<T> = (0..n).map(|_| gen_val::<T>(rng, class)).collect();
            let off = rng.below(6) as usize;
            out.push(format!("{head} load_dense m:{} o:{:x}\tok {}", hexlist(&mem), off, hexlist(&dense_to::<T, R>(R::load_dense(mem.as_ptr().add(off)), l))));
            let mut m2 = mem.clone();
            R::write_dense(m2.as_mut_ptr().add(off), dense_from::<T, R>(&dx, l));
            out.push(format!("{head} write_dense m:{} o:{:x} d:{}\tok {}", hexlist(&mem), off, hexlist(&dx), hexlist(&m2)));
        }
    }
}

macro_rules! for_all_types {
    ($f:ident, $R:ty, $reg:expr, $fused:expr, $rng:expr, $cases:expr, $out:expr) => {{
        $f::<f32, $R>($reg, $fused, $rng, $cases, $out);
        $f::<f64, $R>($reg, $fused, $rng, $cases, $out);
        $f::<i8, $R>($reg, false, $rng, $cases, $out);
        $f::<i16, $R>($reg, false, $rng, $cases, $out);
        $f::<i32, $R>($reg, false, $rng, $cases, $out);
        $f::<i64, $R>($reg, false, $rng, $cases, $out);
        $f::<u8, $R>($reg, false, $rng, $cases, $out);
        $f::<u16, $R>($reg, false, $rng, $cases, $out);
        $f::<u32, $R>($reg, false, $rng, $cases, $out);
        $f::<u64, $R>($reg, false, $rng, $cases, $out);
    }};
}

#[target_feature(enable = "avx2")]
unsafe fn reg_avx2(rng: &mut Rng, cases: usize, out: &mut Vec<String>) {
    for_all_types!(reg_cases, Avx2, "Avx2", false, rng, cases, out);
}
#[target_feature(enable = "avx2,fma")]
unsafe fn reg_avx2fma(rng: &mut Rng, cases: usize, out: &mut Vec<String>) {
    reg_cases::<f32, Avx2Fma>("Avx2Fma", true, rng, cases, out);
    reg_cases::<f64, Avx2Fma>("Avx2Fma", true, rng, cases, out);
}
#[cfg(feature = "nightly")]
#[target_feature(enable = "avx512f,avx512bw")]
unsafe fn reg_avx512(rng: &mut Rng, cases: usize, out: &mut Vec<String>) {
    for_all_types!(reg_cases, Avx512, "Avx512", true, rng, cases, out);
}
unsafe fn reg_fallback(rng: &mut Rng, cases: usize, out: &mut Vec<String>) {
    for_all_types!(reg_cases, Fallback, "Fallback", false, rng, cases, out);
}

// --------------------------------------------------------------------------------------- math level

fn math_cases<T: Bits + PartialEq, M: Math<T>>(which: &str, rng: &mut Rng, cases: usize, out: &mut Vec<String>) {
    let head = format!("math {which} {}", T::NAME);
    out.push(format!("{head} zero\tok {:x}", M::zero().to_u64()));
    out.push(format!("{head} one\tok {:x}", M::one().to_u64()));
    out.push(format!("{head} max\tok {:x}", M::max().to_u64()));
    out.push(format!("{head} min\tok {:x}", M::min().to_u64()));
    for c in 0..cases {
        let class = if T::FLOAT { [0, 2, 1][c % 3] } else { 0 };
        let a: T = gen_val(rng, class);
        let b: T = gen_val(rng, class);
        macro_rules! bin {
            ($name:literal, $m:ident) => {{
                let r = answer(|| format!("ok {:x}", M::$m(a, b).to_u64()));
                out.push(format!("{head} {} {:x} {:x}\t{}", $name, a.to_u64(), b.to_u64(), r));
            }};
        }
        bin!("add", add);
        bin!("sub", sub);
        bin!("mul", mul);
        if cfg!(feature = "nightly") && T::FLOAT && which != "StdMath" {
            let a2: T = gen_val(rng, 2);
            let b2: T = gen_val(rng, 2);
            let r = answer(|| format!("ok {:x}", M::div(a2, b2).to_u64()));
            out.push(format!("{head} div {:x} {:x}\t{}", a2.to_u64(), b2.to_u64(), r));
        } else {
            bin!("div", div);
        }
        // NaN operands of min/max: Rust returns the other operand; covered. ±0: canonicalised by the comparison.
        bin!("cmp_min", cmp_min);
        bin!("cmp_max", cmp_max);
        out.push(format!("{head} cmp_eq {:x} {:x}\tok {}", a.to_u64(), b.to_u64(), M::cmp_eq(a, b)));
        // sqrt: floats on any value; integers through f64 (non-negative values below 2^52 are the property's
        // domain, the model covers the cast semantics for the others as well)
        out.push(format!("{head} sqrt {:x}\tok {:x}", a.to_u64(), M::sqrt(a).to_u64()));
        if T::FLOAT || a.to_u64() != (1u64 << (T::W - 1)) {
            let r = answer(|| format!("ok {:x}", M::abs(a).to_u64()));
            out.push(format!("{head} abs {:x}\t{}", a.to_u64(), r));
        }
    }
}

macro_rules! math_all {
    ($M:ty, $which:expr, $rng:expr, $cases:expr, $out:expr) => {{
        math_cases::<f32, $M>($which, $rng, $cases, $out);
        math_cases::<f64, $M>($which, $rng, $cases, $out);
        math_cases::<i8, $M>($which, $rng, $cases, $out);
        math_cases::<i16, $M>($which, $rng, $cases, $out);
        math_cases::<i32, $M>($which, $rng, $cases, $out);
        math_cases::<i64, $M>($which, $rng, $cases, $out);
        math_cases::<u8, $M>($which, $rng, $cases, $out);
        math_cases::<u16, $M>($which, $rng, $cases, $out);
        math_cases::<u32, $M>($which, $rng, $cases, $out);
        math_cases::<u64, $M>($which, $rng, $cases, $out);
    }};
}

// --------------------------------------------------------------------------------------- kernel level

fn is_reduction(op: &str) -> bool {
    matches!(op, "generic_sum" | "generic_squared_norm" | "generic_dot_product" | "generic_euclidean" | "generic_cosine")
}

/// the (register, kernel) an export's *name* promises: `<ty>_x{any,const}_<arch>_<fma|nofma>_<op>`
fn name_binding(name: &str, ty: &str) -> Option<(&'static str, &'static str)> {
    let rest = name.strip_prefix(ty)?.strip_prefix("_xany_").or_else(|| name.strip_prefix(ty)?.strip_prefix("_xconst_"))?;
    let (arch, rest) = rest.split_once('_')?;
    let (fma, op) = rest.split_once('_')?;
    let reg = match (arch, fma) {
        ("fallback", "nofma") => "Fallback",
        ("avx2", "nofma") => "Avx2",
        ("avx2", "fma") => "Avx2Fma",
        ("avx512", _) => "Avx512",
        ("neon", _) => "Neon",
        _ => return None,
    };
    let kernel = match op {
        "dot" => "generic_dot_product",
        "cosine" => "generic_cosine",
        "squared_euclidean" => "generic_euclidean",
        "squared_norm" => "generic_squared_norm",
        "sum" => "generic_sum",
        "max_horizontal" => "generic_max_horizontal",
        "min_horizontal" => "generic_min_horizontal",
        "max_vertical" => "generic_max_vertical",
        "min_vertical" => "generic_min_vertical",
        "max_value" => "generic_max_value",
        "min_value" => "generic_min_value",
        "add_value" => "generic_add_value",
        "sub_value" => "generic_sub_value",
        "mul_value" => "generic_mul_value",
        "div_value" => "generic_div_value",
        "add_vector" => "generic_add_vector",
        "sub_vector" => "generic_sub_vector",
        "mul_vector" => "generic_mul_vector",
        "div_vector" => "generic_div_vector",
        _ => return None,
    };
    Some((reg, kernel))
}

macro_rules! kern_for_type {
    ($t:ty, $r1:ident, $r2:ident, $m2:ident, $m1:ident, $rng:expr, $cases:expr, $out:expr) => {{
        let metas: Vec<&tables::ExportMeta> = tables::EXPORT_META.iter().filter(|m| m.ty == <$t as Bits>::NAME).collect();
        for m in metas {
            if m.reg == "Neon" {
                continue;
            }
            let lens = [0usize, 1, 7, 33, 67, 130, 300];
            for c in 0..$cases {
                let n = lens[(c + $rng.below(7) as usize) % lens.len()];
                // float reductions are compared on exactly representable data only (summation order and
                // fusion are then unobservable); everything else on arbitrary bits
                let nightly_float = cfg!(feature = "nightly") && <$t as Bits>::FLOAT;
                // nightly fast-math: `f*_algebraic` may reassociate / use reciprocals, so float cosine is not
                // compared at all and float division only on moderate operands (compared within 2 ulp)
                if nightly_float && m.op == "generic_cosine" {
                    continue;
                }
                let class = if <$t as Bits>::FLOAT {
                    if is_reduction(m.op) {
                        // stable builds evaluate strictly in source order, which the model reproduces operation by
                        // operation (incl. fused multiply-add): arbitrary moderate data, compared bit for bit.
                        // nightly fast-math may reassociate the scalar tail: exactly representable data only
                        if nightly_float { 1 } else { [2, 2, 1][c % 3] }
                    } else if nightly_float && m.op.contains("div") {
                        2
                    } else {
                        [0, 2][c % 2]
                    }
                } else {
                    0
                };
                let a: Vec<$t> = (0..n).map(|_| gen_val::<$t>($rng, class)).collect();
                let b: Vec<$t> = (0..n).map(|_| gen_val::<$t>($rng, class)).collect();
                let pre: Vec<$t> = (0..n).map(|_| gen_val::<$t>($rng, 0)).collect();
                let v: $t = gen_val::<$t>($rng, class);
                // the request names the (register, kernel) the export table binds; when the export's *name* promises a
                // different pair (C11), a second request asks the model for what the name promises as well
                let mut bindings: Vec<(&str, &str)> = vec![(m.reg, m.op)];
                if let Some(nb) = name_binding(m.xany, m.ty) {
                    if nb != (m.reg, m.op) && !(nb.0 == "Avx512" && m.reg == "Avx512") {
                        bindings.push(nb);
                    }
                }
                for (breg, bop) in bindings {
                let head = format!("kern {} {} {} {:x}", breg, m.ty, bop, n);
                match m.kind {
                    "reduce1" => {
                        if let Some((_, f)) = tables::$r1.iter().find(|x| x.0 == m.xany) {
                            let r = answer(|| format!("ok {:x}", unsafe { f(&a) }.to_u64()));
                            $out.push(format!("{head} m:{}\t{}", hexlist(&a), r));
                        }
                    },
                    "reduce2" => {
                        if let Some((_, f)) = tables::$r2.iter().find(|x| x.0 == m.xany) {
                            let r = answer(|| format!("ok {:x}", unsafe { f(&a, &b) }.to_u64()));
                            $out.push(format!("{head} m:{} m:{}\t{}", hexlist(&a), hexlist(&b), r));
                        }
                    },
                    "map2" => {
                        if let Some((_, f)) = tables::$m2.iter().find(|x| x.0 == m.xany) {
                            let mut res = pre.clone();
                            let r = answer(|| {
                                unsafe { f(&a, &b, &mut res) };
                                format!("ok {}", hexlist(&res))
                            });
                            $out.push(format!("{head} m:{} m:{} m:{}\t{}", hexlist(&a), hexlist(&b), hexlist(&pre), r));
                        }
                    },
                    _ => {
                        if let Some((_, f)) = tables::$m1.iter().find(|x| x.0 == m.xany) {
                            let mut res = pre.clone();
                            let r = answer(|| {
                                unsafe { f(v, &a, &mut res) };
                                format!("ok {}", hexlist(&res))
                            });
                            $out.push(format!("{head} v:{:x} m:{} m:{}\t{}", v.to_u64(), hexlist(&a), hexlist(&pre), r));
                        }
                    },
                }
                }
            }
        }
    }};
}


// --------------------------------------------------------------------------------------- transpose level

/// one `transpose_matrix::<T>` call: request `xpose <bits> <class> <width> <height> m:<data> m:<result before>`
fn xpose_one<T: Bits>(class: &str, w: usize, h: usize, dlen: usize, rlen: usize, out: &mut Vec<String>) {
    let data: Vec<T> = (0..dlen).map(|k| T::from_u64(k as u64 + 1)).collect();
    let mut result: Vec<T> = (0..rlen).map(|k| T::from_u64(0xE0u64.wrapping_add(k as u64) & 0xFF)).collect();
    let req = format!("xpose {:x} {} {:x} {:x} m:{} m:{}", T::W, class, w, h, hexlist(&data), hexlist(&result));
    let ans = answer(|| {
        cfavml_gemm::transpose::transpose_matrix(w, h, &data, &mut result);
        format!("ok {}", hexlist(&result))
    });
    out.push(format!("{req}\t{ans}"));
}

fn xpose_cases(rng: &mut Rng, cases: usize, out: &mut Vec<String>) {
    // every shape of a small square, then sampled larger / skewed shapes, then length mismatches
    let small = 10 + cases.min(40);
    let mut shapes: Vec<(usize, usize)> = vec![];
    for w in 0..=small {
        for h in 0..=small {
            shapes.push((w, h));
        }
    }
    for _ in 0..cases * 4 {
        shapes.push((rng.below(48) as usize, rng.below(48) as usize));
        shapes.push((1 + rng.below(3) as usize, 40 + rng.below(200) as usize));
        shapes.push((40 + rng.below(200) as usize, 1 + rng.below(3) as usize));
    }
    for (k, &(w, h)) in shapes.iter().enumerate() {
        let n = w * h;
        // rotate the element type so that every shape meets every type over a few runs, and all of them in the small square
        let all = k < (small + 1) * (small + 1);
        let pick = (k + rng.below(8) as usize) % 8;
        let want = |t: usize| all && (w <= 17 && h <= 17) || pick == t;
        if want(0) { xpose_one::<f32>("f32", w, h, n, n, out); }
        if want(1) { xpose_one::<u32>("u32", w, h, n, n, out); }
        if want(2) { xpose_one::<i32>("other", w, h, n, n, out); }
        if want(3) { xpose_one::<f64>("f64", w, h, n, n, out); }
        if want(4) { xpose_one::<u64>("u64", w, h, n, n, out); }
        if want(5) { xpose_one::<i64>("other", w, h, n, n, out); }
        if want(6) { xpose_one::<u8>("other", w, h, n, n, out); }
        if want(7) { xpose_one::<u16>("other", w, h, n, n, out); }
    }
    // mismatching lengths must panic, whatever the shape
    for &(w, h) in &[(0usize, 0usize), (0, 5), (3, 3), (8, 8), (16, 16), (17, 9), (1, 7)] {
        let n = w * h;
        for &(dl, rl) in &[(n + 1, n + 1), (n + 1, n), (n, n + 1), (n.saturating_sub(1), n.saturating_sub(1)), (n, n.saturating_sub(1))] {
            if dl == n && rl == n {
                continue;
            }
            xpose_one::<f32>("f32", w, h, dl, rl, out);
            xpose_one::<f64>("f64", w, h, dl, rl, out);
            xpose_one::<u16>("other", w, h, dl, rl, out);
        }
    }
    // products that overflow usize must panic (empty buffers)
    for &(w, h) in &[(usize::MAX, 2usize), (1usize << 62, 4), ((1usize << 62) + 1, 4), (1usize << 32, 1usize << 32)] {
        xpose_one::<f32>("f32", w, h, 0, 0, out);
        xpose_one::<u8>("other", w, h, 4, 4, out);
    }
}

pub fn main_emit(args: &[String]) -> i32 {
    let mut level = String::new();
    let mut seed = 1u64;
    let mut cases = 8usize;
    let mut outp = String::new();
    let mut i = 0;
    while i < args.len() {
        match args[i].as_str() {
            "--seed" => {
                seed = args.get(i + 1).and_then(|s| s.parse().ok()).unwrap_or(1);
                i += 2;
            },
            "--cases" => {
                cases = args.get(i + 1).and_then(|s| s.parse().ok()).unwrap_or(8);
                i += 2;
            },
            "--out" => {
                outp = args.get(i + 1).cloned().unwrap_or_default();
                i += 2;
            },
            other => {
                if level.is_empty() {
                    level = other.to_string();
                }
                i += 1;
            },
        }
    }
    if level.is_empty() || outp.is_empty() {
        eprintln!("usage: cfavml-harness emit <reg|math|kern> --seed N --cases K --out FILE");
        return 2;
    }
    quiet_panics();
    let mut rng = Rng::new(seed);
    let mut out: Vec<String> = vec![];
    let nightly = cfg!(feature = "nightly");
    let dbg = cfg!(debug_assertions);
    // overflow-checks follow the profile in harness/Cargo.toml: on in dev, off in release
    out.push(format!("env {} {} {} 1\tok", dbg as u8, dbg as u8, nightly as u8));
    match level.as_str() {
        "reg" => unsafe {
            reg_fallback(&mut rng, cases, &mut out);
            if std::arch::is_x86_feature_detected!("avx2") {
                reg_avx2(&mut rng, cases, &mut out);
            }
            if std::arch::is_x86_feature_detected!("avx2") && std::arch::is_x86_feature_detected!("fma") {
                reg_avx2fma(&mut rng, cases, &mut out);
            }
            #[cfg(feature = "nightly")]
            if std::arch::is_x86_feature_detected!("avx512f") && std::arch::is_x86_feature_detected!("avx512bw") {
                reg_avx512(&mut rng, cases, &mut out);
            }
        },
        "math" => {
            math_all!(StdMath, "StdMath", &mut rng, cases, &mut out);
            math_all!(AutoMath, "AutoMath", &mut rng, cases, &mut out);
            #[cfg(feature = "nightly")]
            {
                math_all!(cfavml::math::FastMath, "FastMath", &mut rng, cases, &mut out);
            }
        },
        "kern" => {
            kern_for_type!(f32, F32_REDUCE1_XANY, F32_REDUCE2_XANY, F32_MAP2_XANY, F32_MAP1V_XANY, &mut rng, cases, out);
            kern_for_type!(f64, F64_REDUCE1_XANY, F64_REDUCE2_XANY, F64_MAP2_XANY, F64_MAP1V_XANY, &mut rng, cases, out);
            kern_for_type!(i8, I8_REDUCE1_XANY, I8_REDUCE2_XANY, I8_MAP2_XANY, I8_MAP1V_XANY, &mut rng, cases, out);
            kern_for_type!(i16, I16_REDUCE1_XANY, I16_REDUCE2_XANY, I16_MAP2_XANY, I16_MAP1V_XANY, &mut rng, cases, out);
            kern_for_type!(i32, I32_REDUCE1_XANY, I32_REDUCE2_XANY, I32_MAP2_XANY, I32_MAP1V_XANY, &mut rng, cases, out);
            kern_for_type!(i64, I64_REDUCE1_XANY, I64_REDUCE2_XANY, I64_MAP2_XANY, I64_MAP1V_XANY, &mut rng, cases, out);
            kern_for_type!(u8, U8_REDUCE1_XANY, U8_REDUCE2_XANY, U8_MAP2_XANY, U8_MAP1V_XANY, &mut rng, cases, out);
            kern_for_type!(u16, U16_REDUCE1_XANY, U16_REDUCE2_XANY, U16_MAP2_XANY, U16_MAP1V_XANY, &mut rng, cases, out);
            kern_for_type!(u32, U32_REDUCE1_XANY, U32_REDUCE2_XANY, U32_MAP2_XANY, U32_MAP1V_XANY, &mut rng, cases, out);
            kern_for_type!(u64, U64_REDUCE1_XANY, U64_REDUCE2_XANY, U64_MAP2_XANY, U64_MAP1V_XANY, &mut rng, cases, out);
        },
        "xpose" => xpose_cases(&mut rng, cases, &mut out),
        "safe" => crate::emit_safe::safe_cases(seed, cases, &mut out),
        "abuf" => crate::emit_abuf::abuf_cases(&mut crate::prng::Rng::new(seed ^ 0xab0f), cases, &mut out),
        other => {
            eprintln!("unknown level {other}");
            return 2;
        },
    }
    match std::fs::File::create(&outp) {
        Ok(mut fh) => {
            for l in &out {
                let _ = writeln!(fh, "{l}");
            }
            0
        },
        Err(e) => {
            eprintln!("cannot write {outp}: {e}");
            2
        },
    }
}
