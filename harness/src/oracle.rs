//! Independent oracles for the vector kernels: plain scalar Rust over i128 / f64 /
//! double-double arithmetic.  Nothing here calls into the library.

use crate::elem::{hexs, Elem, Kind, Op};
use crate::kern::{Arenas, Exec, Out, VecCall};
use crate::mem::{Fail, Verdict};

// ------------------------------------------------------------------------------------------
// double-double arithmetic (≈106 bits)
// ------------------------------------------------------------------------------------------

#[derive(Clone, Copy, Debug)]
pub struct DD {
    pub hi: f64,
    pub lo: f64,
}

#[inline]
fn two_sum(a: f64, b: f64) -> (f64, f64) {
    let s = a + b;
    let bb = s - a;
    let e = (a - (s - bb)) + (b - bb);
    (s, e)
}

#[inline]
fn quick_two_sum(a: f64, b: f64) -> (f64, f64) {
    let s = a + b;
    (s, b - (s - a))
}

#[inline]
fn two_prod(a: f64, b: f64) -> (f64, f64) {
    let p = a * b;
    (p, a.mul_add(b, -p))
}

impl DD {
    pub const ZERO: DD = DD { hi: 0.0, lo: 0.0 };
    pub fn from(x: f64) -> DD {
        DD { hi: x, lo: 0.0 }
    }
    pub fn add(self, o: DD) -> DD {
        let (s, e) = two_sum(self.hi, o.hi);
        let (t, f) = two_sum(self.lo, o.lo);
        let (s, e) = quick_two_sum(s, e + t);
        let (hi, lo) = quick_two_sum(s, e + f);
        DD { hi, lo }
    }
    pub fn neg(self) -> DD {
        DD {
            hi: -self.hi,
            lo: -self.lo,
        }
    }
    pub fn sub(self, o: DD) -> DD {
        self.add(o.neg())
    }
    /// Exact product of two f64 as a DD.
    pub fn prod(a: f64, b: f64) -> DD {
        let (hi, lo) = two_prod(a, b);
        DD { hi, lo }
    }
    pub fn mul(self, o: DD) -> DD {
        let (p, e) = two_prod(self.hi, o.hi);
        let e = e + (self.hi * o.lo + self.lo * o.hi);
        let (hi, lo) = quick_two_sum(p, e);
        DD { hi, lo }
    }
    pub fn div(self, o: DD) -> DD {
        let q1 = self.hi / o.hi;
        let r = self.sub(o.mul(DD::from(q1)));
        let q2 = r.hi / o.hi;
        let r = r.sub(o.mul(DD::from(q2)));
        let q3 = r.hi / o.hi;
        let (hi, lo) = quick_two_sum(q1, q2);
        DD { hi, lo }.add(DD::from(q3))
    }
    pub fn sqrt(self) -> DD {
        if self.hi <= 0.0 {
            return DD::ZERO;
        }
        // Newton step on x = sqrt(a): x' = x + (a - x^2) / (2x)
        let x = self.hi.sqrt();
        let xx = DD::prod(x, x);
        let r = self.sub(xx);
        let corr = r.hi / (2.0 * x);
        let (hi, lo) = quick_two_sum(x, corr);
        let x1 = DD { hi, lo };
        // second refinement in DD
        let r = self.sub(x1.mul(x1));
        let corr = r.hi / (2.0 * x1.hi);
        x1.add(DD::from(corr))
    }
    pub fn abs(self) -> DD {
        if self.hi < 0.0 || (self.hi == 0.0 && self.lo < 0.0) {
            self.neg()
        } else {
            self
        }
    }
    pub fn to_f64(self) -> f64 {
        self.hi + self.lo
    }
}

// ------------------------------------------------------------------------------------------
// Expectations
// ------------------------------------------------------------------------------------------

#[derive(Clone, Debug)]
pub enum Expect<T> {
    /// Bit-exact scalar (integers).
    Scalar(T),
    /// Numerically equal scalar (float max/min: either zero is accepted).
    ScalarNumeric(T),
    /// Float reduction: `|result - exact| <= bound`; if `exactly` is set the result must be
    /// numerically equal to it.
    ScalarTol {
        exact: DD,
        bound: f64,
        exactly: Option<T>,
        why: String,
    },
    /// Element-wise; comparison policy follows from the op.
    Vector(Vec<T>),
    /// The call must panic.
    Panic,
    /// Either a panic or the given outcome is fine.
    PanicOr(Box<Expect<T>>),
    /// Must return normally; value not checked.
    Unchecked,
}

/// Unit roundoff of the element type.
pub fn unit_roundoff<T: Elem>() -> f64 {
    if T::BITS == 32 {
        2f64.powi(-24)
    } else {
        2f64.powi(-53)
    }
}

pub fn gamma(k: usize, u: f64) -> f64 {
    let ku = k as f64 * u;
    ku / (1.0 - ku)
}

fn int_reduce<T: Elem>(op: Op, a: &[T], b: &[T]) -> T {
    let mut acc: i128 = 0;
    match op {
        Op::Sum => {
            for x in a {
                acc = acc.wrapping_add(x.to_i128());
            }
        }
        Op::SquaredNorm => {
            for x in a {
                let v = x.to_i128();
                acc = acc.wrapping_add(v.wrapping_mul(v));
            }
        }
        Op::Dot => {
            for (x, y) in a.iter().zip(b) {
                acc = acc.wrapping_add(x.to_i128().wrapping_mul(y.to_i128()));
            }
        }
        Op::SquaredEuclidean => {
            for (x, y) in a.iter().zip(b) {
                let d = x.to_i128() - y.to_i128();
                acc = acc.wrapping_add(d.wrapping_mul(d));
            }
        }
        _ => unreachable!(),
    }
    T::from_i128(acc)
}

/// Exact value (as DD), Σ|terms|, number of non-zero terms of a float reduction.
fn float_reduce_ref<T: Elem>(op: Op, a: &[T], b: &[T]) -> (DD, f64, usize) {
    let mut acc = DD::ZERO;
    let mut abs = DD::ZERO;
    let mut nonzero = 0;
    let n = a.len();
    for i in 0..n {
        let t = match op {
            Op::Sum => DD::from(a[i].to_f64()),
            Op::SquaredNorm => DD::prod(a[i].to_f64(), a[i].to_f64()),
            Op::Dot => DD::prod(a[i].to_f64(), b[i].to_f64()),
            Op::SquaredEuclidean => {
                // the subtraction is rounded once in the element type; that is the datum
                let d = a[i].w_sub(b[i]).to_f64();
                DD::prod(d, d)
            }
            _ => unreachable!(),
        };
        if t.hi != 0.0 {
            nonzero += 1;
        }
        acc = acc.add(t);
        abs = abs.add(t.abs());
    }
    (acc, abs.to_f64(), nonzero)
}

fn all_small_integers<T: Elem>(v: &[T]) -> bool {
    v.iter().all(|x| {
        let f = x.to_f64();
        f == f.trunc() && f.abs() <= 1048576.0
    })
}

/// every value is a small integer multiple of the power of two `s`
fn scaled_small_integers<T: Elem>(v: &[T], s: f64) -> bool {
    v.iter().all(|x| {
        let f = x.to_f64() / s;
        f == f.trunc() && f.abs() <= 1048576.0
    })
}

/// the scale at which integer data make every term of `op` a small multiple of the smallest subnormal: the smallest
/// subnormal itself for a sum; 2^-74 (f32: terms are multiples of 2^-148) / 2^-537 (f64: of 2^-1074) for the products
pub fn subnormal_scale<T: Elem>(op: Op) -> f64 {
    match (op, T::BITS) {
        (Op::Sum, 32) => 2f64.powi(-149),
        (Op::Sum, _) => f64::from_bits(1),
        (_, 32) => 2f64.powi(-74),
        _ => 2f64.powi(-537),
    }
}

fn float_reduce_expect<T: Elem>(op: Op, a: &[T], b: &[T]) -> Expect<T> {
    let n = a.len();
    let u = unit_roundoff::<T>();
    let (exact, sum_abs, nonzero) = float_reduce_ref(op, a, b);
    let bound = gamma(n + 3, u) * sum_abs;
    // slack for the reference's own (double-double) error and for the f64 comparison
    let bound = bound * (1.0 + 1e-9) + sum_abs * 2f64.powi(-95);
    let limit = if T::BITS == 32 {
        16777216.0
    } else {
        9007199254740992.0
    };
    let uses_b = matches!(op, Op::Dot | Op::SquaredEuclidean);
    let mut exactly = None;
    let mut why = format!("gamma(n+3)*sum|terms| with n={n}");
    if all_small_integers(a) && (!uses_b || all_small_integers(b)) && sum_abs <= limit {
        exactly = Some(T::from_f64(exact.hi));
        why = "all products and partial sums are exactly representable integers".into();
    } else if {
        let s = subnormal_scale::<T>(op);
        let st = if op == Op::Sum { s } else { s * s };
        scaled_small_integers(a, s) && (!uses_b || scaled_small_integers(b, s)) && sum_abs / st <= limit
    } {
        // the same exact-integer arithmetic, in units of (a small multiple of) the smallest subnormal: gradual
        // underflow makes every product and partial sum exactly representable
        exactly = Some(T::from_f64(exact.hi));
        why = "all products and partial sums are exactly representable multiples of the smallest subnormal".into();
    } else if nonzero <= 1 {
        // one term: every backend computes fl(term) and adds exact zeros
        exactly = Some(T::from_f64(exact.to_f64_rounded_to::<T>()));
        why = "at most one non-zero term: the result is that term rounded once".into();
    }
    Expect::ScalarTol {
        exact,
        bound,
        exactly,
        why,
    }
}

impl DD {
    /// Rounds hi+lo to the element type's precision (via f64; exact for the single-term case
    /// where lo only matters for the f64 type and hi is already the rounded product).
    fn to_f64_rounded_to<T: Elem>(self) -> f64 {
        if T::BITS == 32 {
            // hi+lo fits a double exactly for f32 inputs (48-bit product): round once to f32
            T::from_f64(self.hi + self.lo).to_f64()
        } else {
            // fl(a*b) is exactly `hi` of the two_prod
            self.hi
        }
    }
}

fn extreme<T: Elem>(is_max: bool, x: T, y: T) -> T {
    if is_max {
        if y > x {
            y
        } else {
            x
        }
    } else if y < x {
        y
    } else {
        x
    }
}

/// Integer cosine by the stated formula; `None` = division by zero (must panic).
fn cosine_int<T: Elem>(a: &[T], b: &[T]) -> Option<T> {
    let na = int_reduce(Op::SquaredNorm, a, &[]);
    let nb = int_reduce(Op::SquaredNorm, b, &[]);
    let dot = int_reduce(Op::Dot, a, b);
    let z = T::zero();
    if na == z && nb == z {
        return Some(z);
    }
    if na == z || nb == z {
        return Some(T::one());
    }
    let p = T::from_i128(na.to_i128().wrapping_mul(nb.to_i128()));
    let s = p.sqrt_via_f64();
    let q = dot.w_div(s)?;
    Some(T::one().w_sub(q))
}

fn cosine_float_expect<T: Elem>(a: &[T], b: &[T]) -> Expect<T> {
    let n = a.len();
    let (na, _, nza) = float_reduce_ref::<T>(Op::SquaredNorm, a, &[]);
    let (nb, _, nzb) = float_reduce_ref::<T>(Op::SquaredNorm, b, &[]);
    let (dot, _, _) = float_reduce_ref::<T>(Op::Dot, a, b);
    let u = unit_roundoff::<T>();
    if nza == 0 && nzb == 0 {
        return Expect::ScalarTol {
            exact: DD::ZERO,
            bound: 0.0,
            exactly: Some(T::zero()),
            why: "both norms are zero".into(),
        };
    }
    if nza == 0 || nzb == 0 {
        return Expect::ScalarTol {
            exact: DD::from(1.0),
            bound: 0.0,
            exactly: Some(T::one()),
            why: "exactly one norm is zero".into(),
        };
    }
    let denom = na.mul(nb).sqrt();
    let exact = DD::from(1.0).sub(dot.div(denom));
    let bound = 4.0 * (n as f64 + 8.0) * u * (1.0 + 1e-9);
    Expect::ScalarTol {
        exact,
        bound,
        exactly: None,
        why: format!("4(n+8)u with n={n}"),
    }
}

/// What a call with agreeing lengths must produce.
pub fn expected<T: Elem>(c: &VecCall<T>) -> Expect<T> {
    let op = c.r.op;
    let (a, b) = (&c.a[..], &c.b[..]);
    match op {
        Op::Sum | Op::SquaredNorm | Op::Dot | Op::SquaredEuclidean => {
            if T::FLOAT {
                float_reduce_expect(op, a, b)
            } else {
                Expect::Scalar(int_reduce(op, a, b))
            }
        }
        Op::Cosine => {
            if T::FLOAT {
                cosine_float_expect(a, b)
            } else {
                match cosine_int(a, b) {
                    Some(v) => Expect::Scalar(v),
                    None => Expect::Panic,
                }
            }
        }
        Op::MaxHorizontal | Op::MinHorizontal => {
            let is_max = op == Op::MaxHorizontal;
            let mut acc = if is_max { T::lowest() } else { T::highest() };
            for &x in a {
                acc = extreme(is_max, acc, x);
            }
            if T::FLOAT {
                Expect::ScalarNumeric(acc)
            } else {
                Expect::Scalar(acc)
            }
        }
        Op::MaxVertical | Op::MinVertical => {
            let is_max = op == Op::MaxVertical;
            Expect::Vector(a.iter().zip(b).map(|(&x, &y)| extreme(is_max, x, y)).collect())
        }
        Op::MaxValue | Op::MinValue => {
            let is_max = op == Op::MaxValue;
            Expect::Vector(a.iter().map(|&x| extreme(is_max, x, c.value)).collect())
        }
        Op::AddVector | Op::SubVector | Op::MulVector | Op::DivVector => {
            let mut out = Vec::with_capacity(a.len());
            for (&x, &y) in a.iter().zip(b) {
                let v = match op {
                    Op::AddVector => Some(x.w_add(y)),
                    Op::SubVector => Some(x.w_sub(y)),
                    Op::MulVector => Some(x.w_mul(y)),
                    _ => x.w_div(y),
                };
                match v {
                    Some(v) => out.push(v),
                    None => return Expect::Panic,
                }
            }
            Expect::Vector(out)
        }
        Op::AddValue | Op::SubValue | Op::MulValue | Op::DivValue => {
            let v = c.value;
            if op == Op::DivValue && !T::FLOAT && v == T::zero() {
                // no divisor is processed by a zero-length call: a panic is not required
                return if a.is_empty() {
                    Expect::PanicOr(Box::new(Expect::Vector(Vec::new())))
                } else {
                    Expect::Panic
                };
            }
            Expect::Vector(
                a.iter()
                    .map(|&x| match op {
                        Op::AddValue => x.w_add(v),
                        Op::SubValue => x.w_sub(v),
                        Op::MulValue => x.w_mul(v),
                        _ => x.w_div(v).unwrap(),
                    })
                    .collect(),
            )
        }
    }
}

fn fail(kind: &'static str, class: &'static str, expected: String, actual: String, note: String) -> Verdict {
    Some(Fail {
        kind,
        class,
        expected,
        actual,
        note,
    })
}

/// Element comparison policy for map kernels.
fn elem_ok<T: Elem>(op: Op, want: T, got: T) -> bool {
    if !T::FLOAT {
        return want == got;
    }
    if op.is_minmax() {
        return !got.is_nan() && want == got; // numeric: +0 == -0
    }
    if want.is_nan() {
        return got.is_nan();
    }
    if want.to_bits() == got.to_bits() {
        return true;
    }
    if op.is_div() && cfg!(feature = "nightly") {
        return !got.is_nan() && (want.ulp_key() - got.ulp_key()).abs() <= 2;
    }
    false
}

pub fn show_out<T: Elem>(o: &Out<T>) -> String {
    match o {
        Out::Scalar(v) => format!("{} ({})", v.show(), hexs(*v)),
        Out::Vector(v) if v.len() <= 8 => {
            format!(
                "[{}]",
                v.iter()
                    .map(|x| format!("{} ({})", x.show(), hexs(*x)))
                    .collect::<Vec<_>>()
                    .join(", ")
            )
        }
        Out::Vector(v) => format!("vector of {} elements", v.len()),
        Out::Panic(m) => format!("panic: {m}"),
    }
}

/// Compares an outcome with the expectation.
pub fn judge<T: Elem>(c: &VecCall<T>, out: &Out<T>, exp: &Expect<T>) -> Verdict {
    match (exp, out) {
        (Expect::PanicOr(_), Out::Panic(_)) => None,
        (Expect::PanicOr(inner), o) => judge(c, o, inner),
        (Expect::Panic, Out::Panic(_)) => None,
        (Expect::Panic, o) => fail(
            "missing_panic",
            "missing_panic",
            "the call panics (integer division by zero)".into(),
            format!("returned normally: {}", show_out(o)),
            "division by zero must be reported by a panic".into(),
        ),
        (_, Out::Panic(m)) => fail(
            "unexpected_panic",
            "unexpected_panic",
            "returns normally".into(),
            format!("panic: {m}"),
            String::new(),
        ),
        (Expect::Unchecked, _) => None,
        (Expect::Scalar(w), Out::Scalar(g)) => {
            if w.to_bits() == g.to_bits() {
                None
            } else {
                fail(
                    "impl_vs_oracle",
                    "value",
                    format!("{} ({})", w.show(), hexs(*w)),
                    format!("{} ({})", g.show(), hexs(*g)),
                    "exact value required".into(),
                )
            }
        }
        (Expect::ScalarNumeric(w), Out::Scalar(g)) => {
            if !g.is_nan() && w == g {
                None
            } else {
                fail(
                    "impl_vs_oracle",
                    "value",
                    format!("{} ({})", w.show(), hexs(*w)),
                    format!("{} ({})", g.show(), hexs(*g)),
                    "numerically equal extreme required (either zero accepted)".into(),
                )
            }
        }
        (
            Expect::ScalarTol {
                exact,
                bound,
                exactly,
                why,
            },
            Out::Scalar(g),
        ) => {
            let gf = g.to_f64();
            if let Some(e) = exactly {
                if !g.is_nan() && *e == *g {
                    return None;
                }
                return fail(
                    "impl_vs_oracle",
                    "value",
                    format!("{} ({}) exactly", e.show(), hexs(*e)),
                    format!("{} ({})", g.show(), hexs(*g)),
                    why.clone(),
                );
            }
            let diff = ((gf - exact.hi) - exact.lo).abs();
            if gf.is_finite() && diff <= *bound {
                None
            } else {
                fail(
                    "impl_vs_oracle",
                    "value",
                    format!("{:e} (+{:e}) within {:e}", exact.hi, exact.lo, bound),
                    format!("{} ({}), off by {:e}", g.show(), hexs(*g), diff),
                    format!("error bound {why}"),
                )
            }
        }
        (Expect::Vector(w), Out::Vector(g)) => {
            if w.len() != g.len() {
                return fail(
                    "impl_vs_oracle",
                    "value",
                    format!("{} elements", w.len()),
                    format!("{} elements", g.len()),
                    "result length".into(),
                );
            }
            for i in 0..w.len() {
                if !elem_ok(c.r.op, w[i], g[i]) {
                    let untouched = g[i].to_bits() == T::from_bits(c.prefill).to_bits();
                    return fail(
                        "impl_vs_oracle",
                        "value",
                        format!("result[{i}] = {} ({})", w[i].show(), hexs(w[i])),
                        format!("result[{i}] = {} ({})", g[i].show(), hexs(g[i])),
                        if untouched {
                            "element still holds the pre-fill pattern (not written)".into()
                        } else if T::FLOAT && c.r.op.is_div() && cfg!(feature = "nightly") {
                            "nightly build: float division may deviate by at most 2 ulp (FastMath \
                             fdiv_algebraic lets the compiler multiply by a hoisted reciprocal of the \
                             divisor, which overflows/underflows for extreme divisors)"
                                .into()
                        } else {
                            String::new()
                        },
                    );
                }
            }
            None
        }
        (e, o) => fail(
            "impl_vs_oracle",
            "shape",
            format!("{e:?}"),
            show_out(o),
            "outcome shape mismatch (harness)".into(),
        ),
    }
}

#[derive(Clone, Copy)]
pub struct CheckOpts {
    /// Compare the returned value(s) with the oracle (otherwise only panics/faults/canaries).
    pub values: bool,
    /// Skip the value check of float reductions (C01).
    pub skip_float_reductions: bool,
    /// A panic is acceptable whatever the oracle says (C07: only bounds and termination).
    pub panics_ok: bool,
}

impl CheckOpts {
    pub const FULL: CheckOpts = CheckOpts {
        values: true,
        skip_float_reductions: false,
        panics_ok: false,
    };
}

/// Executes the call and checks memory safety plus (optionally) the value against the oracle.
/// Calls whose lengths/DIMS disagree must panic.
pub fn check_call<T: Elem>(c: &VecCall<T>, ar: &mut Arenas, o: CheckOpts) -> Verdict {
    let ex: Exec<T> = c.exec(ar);
    if let Some(d) = &ex.canary {
        return fail(
            "canary",
            "canary",
            "no byte outside the slices is written".into(),
            d.clone(),
            "out-of-bounds write detected by canary bytes".into(),
        );
    }
    if let Some(d) = &ex.input_changed {
        return fail(
            "input_modified",
            "input_modified",
            "input slices are unchanged".into(),
            d.clone(),
            String::new(),
        );
    }
    if !c.lengths_agree() {
        return match &ex.out {
            Out::Panic(_) => None,
            other => fail(
                "missing_panic",
                "silent_mismatch",
                "panic: slice lengths / DIMS do not agree".into(),
                format!("returned normally: {}", show_out(other)),
                "silent computation over a different number of elements".into(),
            ),
        };
    }
    if o.panics_ok && (!o.values || matches!(ex.out, Out::Panic(_))) {
        // only bounds and termination matter to the caller
        return None;
    }
    let exp = if !o.values {
        no_value_expect(c)
    } else if o.skip_float_reductions
        && T::FLOAT
        && matches!(c.r.kind(), Kind::Reduce1 | Kind::Reduce2)
        && !c.r.op.is_minmax()
    {
        Expect::Unchecked
    } else {
        expected(c)
    };
    judge(c, &ex.out, &exp)
}

/// Expectation that only fixes panic behaviour.
fn no_value_expect<T: Elem>(c: &VecCall<T>) -> Expect<T> {
    match expected(c) {
        Expect::Panic => Expect::Panic,
        Expect::PanicOr(_) => Expect::PanicOr(Box::new(Expect::Unchecked)),
        _ => Expect::Unchecked,
    }
}
