//! C18 — the scalar math layer `cfavml::math::{Math, StdMath, AutoMath}` (and `FastMath`).

use std::fmt::Write as _;

use cfavml::math::{AutoMath, Math, StdMath};

use crate::elem::{hexs, Elem};
use crate::kern::{hash_str, mix};
use crate::mem::{self, Case, Ctx, Fail, Job, Tier, Verdict};
use crate::prng::Rng;
use crate::vals;

pub const RULE: &str = "case = a batch of operand pairs (a,b) of one element type pushed through every method of one \
Math<T> provider (StdMath, AutoMath; FastMath on nightly builds): zero()/one() values and identities, min()/max() \
bound every value (MIN/MAX, -inf/+inf), integer add/sub/mul/div = wrapping primitives (division by zero must \
panic), float add/sub/mul bit-exact IEEE (NaN matches NaN), float div bit-exact (within 2 ulp for FastMath), \
cmp_min/cmp_max = smaller/larger for NaN-free pairs (either zero accepted), cmp_eq = primitive ==, sqrt: floats \
correctly rounded (std build), integers floor(sqrt(a)) for 0 <= a < 2^52 checked as r*r <= a < (r+1)^2 in exact \
integer arithmetic. Pairs: exhaustive for 8-bit types (16-bit too in the thorough tier), boundary x boundary + \
random otherwise (floats: +-0, subnormals, +-inf, NaN, +-max, powers of two, random bit patterns). distinct = \
hash set over (provider, T, pairs); non-trivial = always.";

#[derive(Clone)]
pub struct MCase<T: Elem> {
    provider: &'static str,
    fast: bool,
    pairs: Vec<(T, T)>,
    run: fn(&MCase<T>) -> Verdict,
}

impl<T: Elem> Case for MCase<T> {
    fn routine(&self) -> String {
        format!("<{} as Math<{}>>", self.provider, T::NAME)
    }
    fn inflight(&self, w: &mut dyn std::fmt::Write) {
        let _ = write!(
            w,
            "<{} as Math<{}>> on {} operand pairs",
            self.provider,
            T::NAME,
            self.pairs.len()
        );
        if let Some((a, b)) = self.pairs.first() {
            let _ = write!(w, " starting at ({}, {})", hexs(*a), hexs(*b));
        }
    }
    fn call(&self) -> String {
        let mut s = format!(
            "every Math<{}> method of {} on {} operand pair(s)",
            T::NAME,
            self.provider,
            self.pairs.len()
        );
        if self.pairs.len() <= 4 {
            let _ = write!(s, ": {:?}", self.pairs);
        }
        s
    }
    fn input_json(&self) -> String {
        let items: Vec<String> = self
            .pairs
            .iter()
            .take(2048)
            .map(|(a, b)| format!("[\"{}\",\"{}\"]", hexs(*a), hexs(*b)))
            .collect();
        crate::report::json_obj(&[
            ("provider", crate::report::json_str(self.provider)),
            ("type", crate::report::json_str(T::NAME)),
            ("pairs", format!("[{}]", items.join(","))),
        ])
    }
    fn hash(&self) -> u64 {
        let mut h = 0xC18u64;
        hash_str(&mut h, self.provider);
        hash_str(&mut h, T::NAME);
        for (a, b) in &self.pairs {
            mix(&mut h, a.to_bits());
            mix(&mut h, b.to_bits());
        }
        h
    }
    fn calls(&self) -> u64 {
        // per pair: add(a,0), mul(a,1), add, sub, mul, div, cmp_eq, cmp_min, cmp_max, sqrt(a), sqrt(b)
        4 + self.pairs.len() as u64 * 11
    }
    fn shrink(&self) -> Vec<Self> {
        let mut out = Vec::new();
        let n = self.pairs.len();
        let sub = |r: std::ops::Range<usize>| {
            let mut c = self.clone();
            c.pairs = self.pairs[r].to_vec();
            c
        };
        if n > 1 {
            out.push(sub(0..n / 2));
            out.push(sub(n / 2..n));
            out.push(sub(0..n - 1));
            out.push(sub(1..n));
        } else if n == 1 {
            let (a, b) = self.pairs[0];
            for s in [T::zero(), T::one()] {
                if a.to_bits() != s.to_bits() && a.to_bits() != T::zero().to_bits() {
                    let mut c = self.clone();
                    c.pairs[0] = (s, b);
                    out.push(c);
                }
                if b.to_bits() != s.to_bits()
                    && b.to_bits() != T::zero().to_bits()
                    && s.to_bits() != T::zero().to_bits()
                {
                    let mut c = self.clone();
                    c.pairs[0] = (a, s);
                    out.push(c);
                }
            }
        }
        out
    }
}

fn bad<T: Elem>(method: &str, a: T, b: Option<T>, want: String, got: String, note: &str) -> Verdict {
    let args = match b {
        Some(b) => format!(
            "{}({} [{}], {} [{}])",
            method,
            a.show(),
            hexs(a),
            b.show(),
            hexs(b)
        ),
        None => format!("{}({} [{}])", method, a.show(), hexs(a)),
    };
    Some(Fail {
        kind: "impl_vs_oracle",
        class: "value",
        expected: format!("{args} = {want}"),
        actual: got,
        note: note.to_string(),
    })
}

fn sh<T: Elem>(v: T) -> String {
    format!("{} ({})", v.show(), hexs(v))
}

fn float_ok<T: Elem>(want: T, got: T, ulps: i128) -> bool {
    if want.is_nan() {
        return got.is_nan();
    }
    if want.to_bits() == got.to_bits() {
        return true;
    }
    ulps > 0 && !got.is_nan() && (want.ulp_key() - got.ulp_key()).abs() <= ulps
}

fn run<T: Elem, M: Math<T>>(c: &MCase<T>) -> Verdict {
    // constants
    let (zero, one, lo, hi) = (M::zero(), M::one(), M::min(), M::max());
    if zero.to_bits() != T::zero().to_bits() {
        return bad("zero", zero, None, sh(T::zero()), sh(zero), "");
    }
    if one.to_bits() != T::one().to_bits() {
        return bad("one", one, None, sh(T::one()), sh(one), "");
    }
    if lo.to_bits() != T::lowest().to_bits() {
        return bad(
            "min",
            lo,
            None,
            sh(T::lowest()),
            sh(lo),
            "min() must be the smallest value of the type",
        );
    }
    if hi.to_bits() != T::highest().to_bits() {
        return bad(
            "max",
            hi,
            None,
            sh(T::highest()),
            sh(hi),
            "max() must be the largest value of the type",
        );
    }
    for &(a, b) in &c.pairs {
        // bounds and identities
        if !a.is_nan() {
            if !(lo <= a && a <= hi) {
                return bad(
                    "min/max",
                    a,
                    None,
                    "min() <= a <= max()".into(),
                    format!("min()={} max()={}", sh(lo), sh(hi)),
                    "",
                );
            }
            let az = M::add(a, zero);
            if !(az == a) {
                return bad("add", a, Some(zero), sh(a), sh(az), "zero identity");
            }
        }
        let a1 = M::mul(a, one);
        if !(a1.to_bits() == a.to_bits() || (a.is_nan() && a1.is_nan())) {
            return bad("mul", a, Some(one), sh(a), sh(a1), "one identity");
        }
        // add / sub / mul
        // a panic (e.g. an overflow check that replaced a wrapping operation) is an outcome, not a harness failure
        let checks: [(&str, T, Result<T, String>); 3] = [
            ("add", a.w_add(b), mem::catch(|| M::add(a, b))),
            ("sub", a.w_sub(b), mem::catch(|| M::sub(a, b))),
            ("mul", a.w_mul(b), mem::catch(|| M::mul(a, b))),
        ];
        for (name, want, got) in checks {
            let got = match got {
                Ok(v) => v,
                Err(m) => {
                    return bad(name, a, Some(b), sh(want), format!("panic: {m}"), "the scalar layer must not panic here");
                }
            };
            let ok = if T::FLOAT {
                float_ok(want, got, 0)
            } else {
                want == got
            };
            if !ok {
                return bad(
                    name,
                    a,
                    Some(b),
                    sh(want),
                    sh(got),
                    if T::FLOAT {
                        "IEEE result bit for bit"
                    } else {
                        "wrapping primitive"
                    },
                );
            }
        }
        // div
        match a.w_div(b) {
            None => {
                if let Ok(v) = mem::catch(|| M::div(a, b)) {
                    return Some(Fail {
                        kind: "missing_panic",
                        class: "missing_panic",
                        expected: format!("div({}, 0) panics", a.show()),
                        actual: format!("returned {}", sh(v)),
                        note: "integer division by zero must panic".into(),
                    });
                }
            }
            Some(want) => {
                let got = match mem::catch(|| M::div(a, b)) {
                    Ok(v) => v,
                    Err(m) => {
                        return Some(Fail {
                            kind: "unexpected_panic",
                            class: "unexpected_panic",
                            expected: format!("div({}, {}) = {}", a.show(), b.show(), sh(want)),
                            actual: format!("panic: {m}"),
                            note: String::new(),
                        })
                    }
                };
                let ok = if T::FLOAT {
                    float_ok(want, got, if c.fast { 2 } else { 0 })
                } else {
                    want == got
                };
                if !ok {
                    return bad(
                        "div",
                        a,
                        Some(b),
                        sh(want),
                        sh(got),
                        if c.fast { "within 2 ulp" } else { "exact" },
                    );
                }
            }
        }
        // comparisons
        let eq = M::cmp_eq(a, b);
        if eq != (a == b) {
            return bad(
                "cmp_eq",
                a,
                Some(b),
                format!("{}", a == b),
                format!("{eq}"),
                "primitive ==",
            );
        }
        if !a.is_nan() && !b.is_nan() {
            let (mn, mx) = (M::cmp_min(a, b), M::cmp_max(a, b));
            let wmn = if b < a { b } else { a };
            let wmx = if b > a { b } else { a };
            if mn.is_nan() || !(mn == wmn) {
                return bad(
                    "cmp_min",
                    a,
                    Some(b),
                    sh(wmn),
                    sh(mn),
                    "smaller operand (either zero accepted)",
                );
            }
            if mx.is_nan() || !(mx == wmx) {
                return bad(
                    "cmp_max",
                    a,
                    Some(b),
                    sh(wmx),
                    sh(mx),
                    "larger operand (either zero accepted)",
                );
            }
        }
        // sqrt (of both operands)
        for v in [a, b] {
            if T::FLOAT {
                let want = v.sqrt_via_f64();
                let got = M::sqrt(v);
                if !float_ok(want, got, 0) {
                    return bad(
                        "sqrt",
                        v,
                        None,
                        sh(want),
                        sh(got),
                        "correctly rounded square root",
                    );
                }
            } else {
                let x = v.to_i128();
                if x >= 0 && x < (1i128 << 52) {
                    let got = M::sqrt(v);
                    let r = got.to_i128();
                    if !(r >= 0 && r * r <= x && x < (r + 1) * (r + 1)) {
                        return bad(
                            "sqrt",
                            v,
                            None,
                            "r with r*r <= a < (r+1)^2".into(),
                            sh(got),
                            "floor of the square root",
                        );
                    }
                }
            }
        }
    }
    None
}

fn job<T: Elem>(
    ctx: &mut Ctx,
    provider: &'static str,
    fast: bool,
    runf: fn(&MCase<T>) -> Verdict,
    part: u64,
    parts: u64,
) {
    let tier = ctx.tier;
    let mut rng = ctx.rng.split();
    let bounds: Vec<T> = vals::boundaries::<T>(true);
    let batch = 2048usize;
    let mut n = 0u64;
    let mut go = |ctx: &mut Ctx, pairs: Vec<(T, T)>| {
        let c = MCase {
            provider,
            fast,
            pairs,
            run: runf,
        };
        ctx.run_case(&c, true, &mut |c| (c.run)(c));
        n += 1;
        if ctx.p.samples.is_empty() {
            let mut s = c.clone();
            s.pairs.truncate(3);
            ctx.p.add_sample(crate::report::json_obj(&[
                ("call", crate::report::json_str(&s.call())),
                ("input", s.input_json()),
            ]));
        }
    };
    let exhaustive = T::BITS == 8 || (T::BITS == 16 && tier == Tier::Thorough);
    if exhaustive {
        let vb = T::BITS as u64;
        let total = 1u64 << (2 * vb);
        let (from, to) = (
            total / parts * part,
            if part + 1 == parts {
                total
            } else {
                total / parts * (part + 1)
            },
        );
        let mut p = from;
        while p < to {
            if ctx.out_of_time() {
                break;
            }
            let end = (p + batch as u64).min(to);
            let pairs: Vec<(T, T)> = (p..end)
                .map(|i| (T::from_bits(i >> vb), T::from_bits(i & ((1 << vb) - 1))))
                .collect();
            go(ctx, pairs);
            p = end;
        }
        ctx.p.bump("class:exhaustive_pairs", 1);
    } else if part == 0 {
        let mut pairs: Vec<(T, T)> = Vec::new();
        for &a in &bounds {
            for &b in &bounds {
                pairs.push((a, b));
            }
        }
        for chunk in pairs.chunks(batch) {
            go(ctx, chunk.to_vec());
        }
        ctx.p.bump("class:boundary_cross_product", 1);
    }
    if !exhaustive {
        // random pairs; integer sqrt range 0..2^52 gets its own share
        let nbatches = tier.pick(40u64, 3000) / parts.max(1) + 1;
        for i in 0..nbatches {
            if i % 16 == 0 && ctx.out_of_time() {
                break;
            }
            let pairs: Vec<(T, T)> = (0..batch)
                .map(|k| {
                    if !T::FLOAT && k % 4 == 0 {
                        // squares and their neighbours: the hard cases of floor(sqrt)
                        let r = rng.below(1u64 << (T::BITS.min(52) / 2).min(26)) as i128;
                        let d = rng.range_i64(-1, 1) as i128;
                        let m = (1i128 << T::BITS.min(52)) - 1;
                        let cap = if T::SIGNED { m >> 1 } else { m };
                        (
                            (T::from_i128((r * r + d).clamp(0, cap))),
                            vals::mixed(&mut rng, &bounds, true),
                        )
                    } else {
                        (
                            vals::mixed(&mut rng, &bounds, true),
                            vals::mixed(&mut rng, &bounds, true),
                        )
                    }
                })
                .collect();
            go(ctx, pairs);
        }
        ctx.p.bump("class:random_pairs", 1);
    }
    ctx.p.bump(&format!("ty:{}", T::NAME), n);
    ctx.p.bump(&format!("provider:{provider}"), n);
}

macro_rules! add_jobs {
    ($jobs:ident, $rng:ident, $tier:ident, $prov:ty, $pname:expr, $fast:expr, [$($t:ty),*]) => {$(
        let parts: u64 = if <$t as Elem>::BITS == 16 && $tier == Tier::Thorough { 16 } else if <$t as Elem>::BITS == 8 { 2 } else { 2 };
        for part in 0..parts {
            let name = format!("C18 {}<{}> part {}", $pname, <$t as Elem>::NAME, part);
            $jobs.push(Job::new(name, $rng, move |ctx| {
                job::<$t>(ctx, $pname, $fast && <$t as Elem>::FLOAT, run::<$t, $prov>, part, parts)
            }));
        }
    )*};
}

pub fn jobs(tier: Tier, rng: &mut Rng) -> (String, Vec<Job>) {
    let mut jobs: Vec<Job> = Vec::new();
    add_jobs!(
        jobs,
        rng,
        tier,
        StdMath,
        "StdMath",
        false,
        [f32, f64, i8, i16, i32, i64, u8, u16, u32, u64]
    );
    add_jobs!(
        jobs,
        rng,
        tier,
        AutoMath,
        "AutoMath",
        cfg!(feature = "nightly"),
        [f32, f64, i8, i16, i32, i64, u8, u16, u32, u64]
    );
    #[cfg(feature = "nightly")]
    {
        add_jobs!(
            jobs,
            rng,
            tier,
            cfavml::math::FastMath,
            "FastMath",
            true,
            [f32, f64, i8, i16, i32, i64, u8, u16, u32, u64]
        );
    }
    (RULE.to_string(), jobs)
}
