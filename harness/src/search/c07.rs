//! C07 — per-backend kernels stay in bounds and terminate for every length and alignment.

use crate::all_elems;
use crate::elem::Elem;
use crate::kern::{place_salt, VecCall};
use crate::mem::{Ctx, Job, Place, Tier};
use crate::oracle::{check_call, CheckOpts};
use crate::prng::Rng;
use crate::search::common::*;
use crate::vals;

pub const RULE: &str = "case = one call of a per-backend xany export (all backends in the build) with every slice \
exactly len long, for every len in 0..=2*dense+7*lane+tail and byte alignments of each slice start drawn from \
0..63 in steps of align_of::<T>() (every alignment of slice a for every len; b and result at other alignments \
that rotate with len; the thorough tier adds equal-alignment, mixed and permuted placements), \
placed as close to the trailing PROT_NONE page as the alignment allows (hi), right after the leading one (lo), \
plus the exact end-flush and start-flush placements; also 15..33 dense blocks with every kind of remainder and the lengths \
2047, 2049, 4099 at the two flush placements; canary bytes wherever a guard page is not adjacent. \
Expected: no fault, canaries intact, inputs unchanged, returns within the watchdog (values arbitrary, for floats \
including NaN, infinities and -0.0 at random positions; non-zero \
integer divisors; a panic from integer arithmetic is not a C07 matter). distinct = hash set over (routine, len, \
placement of a/b/result, values); non-trivial = len > 0.";

fn one_target<T: Elem>(ctx: &mut Ctx, t: Target<T>) {
    let tier = ctx.tier;
    let top = vals::max_len(t.lane);
    let align = std::mem::align_of::<T>();
    let nk = 64 / align;
    let mut rng = ctx.rng.split();
    let int_div = !T::FLOAT && t.r.op.is_div();
    let gen = |rng: &mut Rng| -> T {
        if int_div {
            vals::nonzero(rng, |r| vals::random_bits::<T>(r, false))
        } else if T::FLOAT {
            // values are arbitrary for this property: NaNs, infinities and signed zeros included (a loop whose progress
            // depends on a comparison must still terminate)
            match rng.below(12) {
                0 => T::from_f64(f64::NAN),
                1 => T::highest(),
                2 => T::lowest(),
                3 => T::from_f64(-0.0),
                _ => vals::random_bits::<T>(rng, true),
            }
        } else if t.r.op != crate::elem::Op::Cosine {
            vals::random_bits::<T>(rng, false)
        } else {
            // small values keep integer cosine away from its (legitimate) division by zero
            vals::nonzero(rng, |r| vals::small_int::<T>(r, 3))
        }
    };
    let rounds = tier.pick(1, 3);
    let mut pool_a: Vec<T> = (0..top).map(|_| gen(&mut rng)).collect();
    let mut pool_b: Vec<T> = (0..top).map(|_| gen(&mut rng)).collect();
    let mut value = gen(&mut rng);
    let mut run = Run::new(ctx, t, top);
    run.opts = CheckOpts {
        values: false,
        skip_float_reductions: false,
        panics_ok: true,
    };
    let two = kind_uses_b(t.r.kind());
    for round in 0..rounds {
        if round > 0 {
            pool_a = (0..top).map(|_| gen(&mut rng)).collect();
            pool_b = (0..top).map(|_| gen(&mut rng)).collect();
            value = gen(&mut rng);
        }
        for len in 0..=top {
            if len % 16 == 0 && run.ctx.out_of_time() {
                break;
            }
            let mut places: Vec<[Place; 3]> = vec![[Place::End; 3], [Place::Start; 3]];
            for k in 0..nk {
                let ka = (k * align) as u8;
                let kb = (((k * 7 + 3 + len) % nk) * align) as u8;
                let kr = (((k * 11 + 5 + 2 * len) % nk) * align) as u8;
                places.push([Place::AlignHi(ka), Place::AlignHi(kb), Place::AlignHi(kr)]);
                places.push([Place::AlignLo(ka), Place::AlignLo(kb), Place::AlignLo(kr)]);
                if tier == Tier::Thorough {
                    // same alignment on all three, mixed hi/lo, and every slice at alignment k in turn
                    places.push([Place::AlignHi(ka), Place::AlignHi(ka), Place::AlignHi(ka)]);
                    places.push([Place::AlignLo(ka), Place::AlignLo(ka), Place::AlignLo(ka)]);
                    places.push([Place::AlignLo(ka), Place::AlignHi(kb), Place::AlignLo(kr)]);
                    places.push([Place::AlignHi(kb), Place::AlignHi(ka), Place::AlignHi(kr)]);
                    places.push([Place::AlignHi(kr), Place::AlignHi(kb), Place::AlignHi(ka)]);
                    places.push([Place::End, Place::AlignHi(ka), Place::Start]);
                }
            }
            for place in places {
                let mut c: VecCall<T> = t.call().with_data(
                    value,
                    pool_a[..len].to_vec(),
                    if two { pool_b[..len].to_vec() } else { Vec::new() },
                );
                c.place = place;
                c.salt = place_salt(&place);
                run.tally.note_len(len);
                let (ar, opts) = (&mut run.ar, run.opts);
                run.ctx.run_case(&c, len > 0, &mut |c| check_call(c, ar, opts));
            }
        }
    }
    // many dense blocks (loops that take several blocks per step, periodic folds): fifteen to thirty-three blocks with every
    // kind of remainder, plus three lengths beyond any block-size threshold, flush against both guard pages
    if t.r.dims.is_none() {
        let dense = 8 * t.lane;
        let mut longs: Vec<usize> = vec![2047, 2049, 4099];
        for blocks in [15usize, 16, 17, 18, 19, 32, 33] {
            for rem in [0usize, 1, t.lane, t.lane + 1, dense - 1] {
                longs.push(blocks * dense + rem);
            }
        }
        longs.sort_unstable();
        longs.dedup();
        let big = *longs.last().unwrap();
        let long_a: Vec<T> = (0..big).map(|_| gen(&mut rng)).collect();
        let long_b: Vec<T> = (0..big).map(|_| gen(&mut rng)).collect();
        for &len in &longs {
            if run.ctx.out_of_time() {
                break;
            }
            for place in [[Place::End; 3], [Place::Start; 3]] {
                let mut c: VecCall<T> =
                    t.call().with_data(value, long_a[..len].to_vec(), if two { long_b[..len].to_vec() } else { Vec::new() });
                c.place = place;
                c.salt = place_salt(&place);
                run.tally.note_len(len);
                let (ar, opts) = (&mut run.ar, run.opts);
                run.ctx.run_case(&c, true, &mut |c| check_call(c, ar, opts));
            }
        }
    }
    if run.ctx.p.samples.is_empty() {
        let mut c: VecCall<T> = t.call().with_data(
            value,
            pool_a[..3.min(top)].to_vec(),
            if two {
                pool_b[..3.min(top)].to_vec()
            } else {
                Vec::new()
            },
        );
        c.place = [Place::AlignHi(align as u8), Place::AlignLo(0), Place::End];
        sample(run.ctx, &c);
    }
    run.tally.add(&format!("align_step:{align}"), 1);
    run.finish();
}

pub fn jobs(_tier: Tier, rng: &mut Rng) -> (String, Vec<Job>) {
    let mut jobs = Vec::new();
    all_elems!(T => {
        let ts = targets::<T>(Forms::Exports, |r| r.dims.is_none());
        for t in ts {
            let name = format!("C07 {}", t.label());
            jobs.push(Job::new(name, rng, move |ctx| one_target::<T>(ctx, t)));
        }
    });
    (RULE.to_string(), jobs)
}
