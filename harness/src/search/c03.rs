//! C03 — integer sum / dot / squared_norm / squared_euclidean equal the exact value mod 2^bits.

use crate::elem::{Elem, Kind};
use crate::int_elems;
use crate::mem::{Ctx, Job, Tier};
use crate::prng::Rng;
use crate::search::common::*;
use crate::vals;

pub const RULE: &str = "case = one call of an integer sum/dot/squared_norm/squared_euclidean routine (every \
per-backend export, xconst forms, safe functions under each forced dispatcher mask) checked against an i128 \
accumulation truncated to the element width; inputs: every length 0..=2*dense+7*lane+tail with mixed boundary/random values, constant vectors of every boundary value pair, one-hot / \
position-marker vectors (boundary value at index k, zero elsewhere, for every k of the longest length), random \
volume. distinct = hash set over (routine, DIMS, mask, a, b); non-trivial = length > 0 and some element non-zero.";

fn one_target<T: Elem>(ctx: &mut Ctx, t: Target<T>) {
    let tier = ctx.tier;
    let two = t.r.kind() == Kind::Reduce2;
    let bounds: Vec<T> = vals::boundaries::<T>(false);
    let pack = pack_len(&t);
    let lens: Vec<usize> = match (t.r.dims, tier) {
        (Some(d), _) => vec![d],
        (None, _) => (0..=vals::max_len(t.lane)).collect(),
    };
    let mut rng = ctx.rng.split();
    let mut run = Run::new(ctx, t, pack);
    let bvec = |run: &Run<T>, b: Vec<T>| {
        if two {
            b
        } else {
            let _ = run;
            Vec::new()
        }
    };

    // every length, mixed values
    let reps = tier.pick(2, 20);
    for &len in &lens {
        for _ in 0..reps {
            let a: Vec<T> = (0..len).map(|_| vals::mixed(&mut rng, &bounds, false)).collect();
            let b: Vec<T> = (0..len).map(|_| vals::mixed(&mut rng, &bounds, false)).collect();
            let b = bvec(&run, b);
            run.go(T::zero(), a, b);
        }
    }
    // lengths far beyond the register geometry (thresholds of blocked code paths)
    if t.r.dims.is_none() {
        for &len in vals::LARGE_LENGTHS.iter() {
            if run.ctx.out_of_time() {
                break;
            }
            for rep in 0..2 {
                let a: Vec<T> = (0..len).map(|i| if rep == 0 { vals::mixed(&mut rng, &bounds, false) } else { T::from_i128((i as i128 % 11) + 1) }).collect();
                let b: Vec<T> = (0..len).map(|i| if rep == 0 { vals::mixed(&mut rng, &bounds, false) } else { T::from_i128((i as i128 % 5) + 2) }).collect();
                let b = bvec(&run, b);
                run.go(T::zero(), a, b);
            }
        }
        run.tally.add("class:large_lengths", 1);
    }
    // constant vectors: every boundary pair at a few lengths
    let mut clens: Vec<usize> = match t.r.dims {
        Some(d) => vec![d],
        None => vec![1, t.lane, 8 * t.lane, 8 * t.lane + t.lane + 1, pack],
    };
    clens.dedup();
    for &len in &clens {
        if len == 0 {
            continue;
        }
        for (i, &x) in bounds.iter().enumerate() {
            let ys: Vec<T> = if two {
                if tier == Tier::Thorough {
                    bounds.clone()
                } else {
                    vec![bounds[(i * 7 + 3) % bounds.len()], x]
                }
            } else {
                vec![T::zero()]
            };
            for y in ys {
                let b = bvec(&run, vec![y; len]);
                run.go(T::zero(), vec![x; len], b);
            }
        }
        run.tally.add("class:constant_boundary_vectors", 1);
    }
    // one-hot / position markers at the longest length
    if pack > 0 {
        let nvals = tier.pick(2, 12);
        for k in 0..pack {
            if k % 64 == 0 && run.ctx.out_of_time() {
                break;
            }
            for j in 0..nvals {
                let v = bounds[(k + j * 5 + 1) % bounds.len()];
                let w = bounds[(k * 3 + j + 2) % bounds.len()];
                let mut a = vec![T::zero(); pack];
                a[k] = v;
                // b: marker at the same index, or a dense vector (so a misplaced lane shows)
                let b = if two {
                    if j % 2 == 0 {
                        let mut b = vec![T::zero(); pack];
                        b[k] = w;
                        b
                    } else {
                        (0..pack).map(|i| T::from_i128((i as i128 % 7) + 1)).collect()
                    }
                } else {
                    Vec::new()
                };
                run.go(T::zero(), a, b);
            }
        }
        run.tally.add("class:one_hot_sweeps", 1);
        // random volume
        let n = match (tier, t.r.safe) {
            (Tier::Quick, _) => 200,
            (Tier::Thorough, true) => 5000,
            (Tier::Thorough, false) => 50000,
        };
        for i in 0..n {
            if i % 64 == 0 && run.ctx.out_of_time() {
                break;
            }
            let a: Vec<T> = (0..pack).map(|_| vals::random_bits(&mut rng, false)).collect();
            let b: Vec<T> = (0..pack).map(|_| vals::random_bits(&mut rng, false)).collect();
            let b = bvec(&run, b);
            run.go(T::zero(), a, b);
        }
    }
    run.finish();
}

pub fn jobs(_tier: Tier, rng: &mut Rng) -> (String, Vec<Job>) {
    let mut jobs = Vec::new();
    int_elems!(T => {
        let ts = targets::<T>(Forms::All, |r| r.op.is_sum_like());
        for g in group_by_name(ts) {
            let name = format!("C03 {}", g[0].label());
            jobs.push(Job::new(name, rng, move |ctx| {
                for t in &g {
                    if ctx.out_of_time() {
                        break;
                    }
                    one_target::<T>(ctx, *t);
                }
            }));
        }
    });
    (RULE.to_string(), jobs)
}
