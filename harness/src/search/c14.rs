//! C14 — the library performs no heap allocation (runtime side of the property: a counting global allocator).

use crate::all_elems;
use crate::elem::Elem;
use crate::kern::{Arenas, VecCall};
use crate::mem::{Ctx, Fail, Job, Tier, Verdict};
use crate::prng::Rng;
use crate::search::common::*;
use crate::vals;

pub const RULE: &str = "case = one call of a routine (every per-backend export of the build and every safe function \
under each dispatcher mask, xany and xconst forms) on slices of one length from 0..=2*dense+7*lane+tail (every fourth \
length in the quick tier), NaN-free values, non-zero integer divisors; the harness's global allocator counts calls to \
alloc / alloc_zeroed / realloc made while the routine runs (nothing else runs in between; a panicking call is not \
counted because its payload is boxed). Expected: 0. distinct = hash set over (routine, DIMS, mask, len); non-trivial \
= len > 0.";

fn check<T: Elem>(c: &VecCall<T>, ar: &mut Arenas) -> Verdict {
    let e = c.exec(ar);
    if e.allocs != 0 {
        return Some(Fail {
            kind: "allocation",
            class: "allocation",
            expected: "no heap allocation while the routine runs".into(),
            actual: format!("{} allocator call(s)", e.allocs),
            note: "counted by the harness's global allocator around the library call".into(),
        });
    }
    None
}

fn one_target<T: Elem>(ctx: &mut Ctx, t: Target<T>) {
    let tier = ctx.tier;
    let bounds: Vec<T> = vals::boundaries::<T>(false);
    let all = target_lengths(&t);
    let mut rng = ctx.rng.split();
    let step = tier.pick(4, 1);
    let int_div = !T::FLOAT && t.r.op.is_div();
    let small = !T::FLOAT && t.r.op == crate::elem::Op::Cosine;
    let pack = pack_len(&t);
    let mut run = Run::new(ctx, t, pack.max(128));
    for (k, &len) in all.iter().enumerate() {
        if k % step != 0 && len != *all.last().unwrap() {
            continue;
        }
        if run.ctx.out_of_time() {
            break;
        }
        let gen = |rng: &mut Rng, divisor: bool| -> T {
            let v = if small { vals::small_int::<T>(rng, 4) } else { vals::mixed(rng, &bounds, false) };
            if divisor && int_div && v == T::zero() {
                T::one()
            } else {
                v
            }
        };
        let a: Vec<T> = (0..len).map(|_| gen(&mut rng, false)).collect();
        let b: Vec<T> = if kind_uses_b(t.r.kind()) { (0..len).map(|_| gen(&mut rng, true)).collect() } else { Vec::new() };
        let v = gen(&mut rng, true);
        let c: VecCall<T> = t.call().with_data(v, a, b);
        run.tally.note_len(len);
        let ar = &mut run.ar;
        run.ctx.run_case(&c, len > 0, &mut |c| check(c, ar));
        if run.ctx.p.samples.is_empty() && len > 0 && len <= 8 {
            sample(run.ctx, &c);
        }
    }
    run.finish();
}

pub fn jobs(_tier: Tier, rng: &mut Rng) -> (String, Vec<Job>) {
    let mut jobs = Vec::new();
    all_elems!(T => {
        let ts = targets::<T>(Forms::All, |_| true);
        for t in ts {
            let name = format!("C14 {}", t.label());
            jobs.push(Job::new(name, rng, move |ctx| one_target::<T>(ctx, t)));
        }
    });
    (RULE.to_string(), jobs)
}
