//! C05 — vertical / by-value / horizontal max and min are the exact mathematical extreme.

use crate::all_elems;
use crate::elem::{Elem, Kind, Op};
use crate::mem::{Ctx, Job, Tier};
use crate::prng::Rng;
use crate::search::common::*;
use crate::vals;

pub const RULE: &str = "case = one call of a max/min routine (horizontal, vertical, by-value; every per-backend \
export, xconst forms, safe functions under each dispatcher mask) on NaN-free inputs, checked against a scalar \
comparison fold (floats: numerically equal, either zero accepted; empty horizontal = type MIN/MAX or -inf/+inf). \
Horizontal: for every length 0..=2*dense+7*lane+tail and every index k of the longest length the unique extreme is \
placed at index k over a background drawn from five classes (random bits, all-negative, high-half values >= \
2^(bits-1), boundary values incl. +-inf / MIN / MAX, near-equal values); vertical / by-value: the operand-pair \
sweep of C02 without NaN (exhaustive pairs for 8-bit, boundary x boundary + random otherwise) at every length. \
distinct = hash set over (routine, DIMS, mask, value, a, b); non-trivial = length > 0.";

/// A background value of the given class.
fn background<T: Elem>(rng: &mut Rng, class: u64, bounds: &[T]) -> T {
    match class {
        0 => vals::random_bits::<T>(rng, false),
        // all negative (signed) / all in the upper half (unsigned: >= 2^(bits-1))
        1 => {
            if T::FLOAT {
                let v: T = vals::scaled_float(rng, -20, 20);
                T::from_f64(-v.to_f64().abs())
            } else {
                let top = 1u64 << (T::BITS - 1);
                T::from_bits(top | (rng.next_u64() & (top - 1)))
            }
        }
        // all positive, small
        2 => {
            if T::FLOAT {
                let v: T = vals::scaled_float(rng, -20, 20);
                T::from_f64(v.to_f64().abs())
            } else {
                T::from_bits(rng.below(100))
            }
        }
        3 => *rng.pick(bounds),
        // near-equal cluster
        _ => {
            if T::FLOAT {
                T::from_f64(
                    1.0 + rng.below(8) as f64
                        * if T::BITS == 32 {
                            1.1920929e-7
                        } else {
                            2.220446049250313e-16
                        },
                )
            } else {
                let base = T::from_bits((T::highest().to_bits() / 2).wrapping_sub(4));
                base.w_add(T::from_bits(rng.below(8)))
            }
        }
    }
}

const CLASSES: [&str; 5] = [
    "class:random_bits",
    "class:negative_or_high_half",
    "class:small_positive",
    "class:boundaries",
    "class:near_equal",
];

fn horizontal<T: Elem>(ctx: &mut Ctx, t: Target<T>) {
    let tier = ctx.tier;
    let is_max = t.r.op == Op::MaxHorizontal;
    let bounds: Vec<T> = vals::boundaries::<T>(false);
    let pack = pack_len(&t);
    let lens = match (t.r.dims, tier) {
        (Some(d), _) => vec![d],
        (None, _) => (0..=vals::max_len(t.lane)).collect(),
    };
    let mut rng = ctx.rng.split();
    let mut run = Run::new(ctx, t, pack);
    // Builds a vector whose unique extreme sits at index k.
    let build = |rng: &mut Rng, len: usize, k: usize, class: u64| -> Vec<T> {
        let mut a: Vec<T> = (0..len).map(|_| background(rng, class, &bounds)).collect();
        if len == 0 {
            return a;
        }
        // current extreme of the background
        let mut e = a[0];
        for &x in &a {
            if (is_max && x > e) || (!is_max && x < e) {
                e = x;
            }
        }
        // a value beyond it if one exists, else push the others inwards
        let limit = if is_max { T::highest() } else { T::lowest() };
        if e == limit {
            // pull every copy of the limit back by one step, then the extreme is the limit itself
            let second = if T::FLOAT {
                if is_max {
                    T::from_f64(if T::BITS == 32 { f32::MAX as f64 } else { f64::MAX })
                } else {
                    T::from_f64(if T::BITS == 32 { f32::MIN as f64 } else { f64::MIN })
                }
            } else if is_max {
                limit.w_sub(T::one())
            } else {
                limit.w_add(T::one())
            };
            for x in a.iter_mut() {
                if *x == limit {
                    *x = second;
                }
            }
            a[k] = limit;
        } else if T::FLOAT {
            // next representable step towards the limit (or the limit itself)
            let f = e.to_f64();
            let step = if rng.chance(1, 4) {
                limit
            } else {
                T::from_f64(if is_max {
                    f + f.abs() * 0.5 + 1.0
                } else {
                    f - f.abs() * 0.5 - 1.0
                })
            };
            a[k] = step;
        } else {
            a[k] = if rng.chance(1, 4) {
                limit
            } else if is_max {
                e.w_add(T::one())
            } else {
                e.w_sub(T::one())
            };
        }
        a
    };
    for &len in &lens {
        for class in 0..5u64 {
            let ks: Vec<usize> = if len == 0 {
                vec![0]
            } else {
                vec![0, len / 2, len - 1]
            };
            for k in ks {
                let a = build(&mut rng, len, k, class);
                run.go(T::zero(), a, Vec::new());
                run.tally.add(CLASSES[class as usize], 1);
            }
        }
    }
    if pack > 0 {
        let reps = tier.pick(1, 3);
        for k in 0..pack {
            if k % 64 == 0 && run.ctx.out_of_time() {
                break;
            }
            for r in 0..reps {
                let class = (k as u64 + r) % 5;
                let a = build(&mut rng, pack, k, class);
                run.go(T::zero(), a, Vec::new());
                run.tally.add(CLASSES[class as usize], 1);
            }
        }
        run.tally.add("class:extreme_at_every_index_sweeps", 1);
        // signed zeros: either zero is accepted
        if T::FLOAT {
            for k in [0, pack / 2, pack - 1] {
                let mut a = vec![T::from_f64(-0.0); pack];
                a[k] = T::zero();
                run.go(T::zero(), a, Vec::new());
                let mut a = vec![T::zero(); pack];
                a[k] = T::from_f64(-0.0);
                run.go(T::zero(), a, Vec::new());
            }
        }
    }
    run.finish();
}

fn one_target<T: Elem>(ctx: &mut Ctx, t: Target<T>) {
    match t.r.kind() {
        Kind::Reduce1 => horizontal(ctx, t),
        _ => map_sweep(ctx, t, false),
    }
}

pub fn jobs(_tier: Tier, rng: &mut Rng) -> (String, Vec<Job>) {
    let mut jobs = Vec::new();
    all_elems!(T => {
        let ts = targets::<T>(Forms::All, |r| r.op.is_minmax());
        for g in group_by_name(ts) {
            let name = format!("C05 {}", g[0].label());
            jobs.push(Job::new(name, rng, move |ctx| {
                for t in &g {
                    if ctx.out_of_time() {
                        break;
                    }
                    one_target::<T>(ctx, *t);
                }
            }));
        }
    });
    (RULE.to_string(), jobs)
}
