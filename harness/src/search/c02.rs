//! C02 — element-wise add/sub/mul/div (vector×vector and vector×scalar) equal the scalar op.

use crate::all_elems;
use crate::elem::Elem;
use crate::mem::{Ctx, Job, Tier};
use crate::prng::Rng;
use crate::search::common::*;

pub const RULE: &str = "case = one call of an add/sub/mul/div routine (per-backend xany export, xconst export \
when built with feature xconst, safe xany/xconst function under each forced dispatcher mask) with concrete \
inputs; inputs come from (a) every length of a smart subset of 0..=2*dense+7*lane+tail with mixed \
boundary/random values, (b) zero divisors at chosen positions (integer division must panic), (c) operand-pair \
streams packed into vectors long enough to run the dense loop, the register loop and the scalar tail, shifted \
so pairs land on different lane positions: exhaustive pairs for 8-bit types (16-bit too on exports in the \
thorough tier), boundary x boundary plus random pairs otherwise; floats include +-0, subnormals, +-inf, NaN, \
+-max, powers of two and random bit patterns. distinct = hash set over (routine, DIMS, mask, value, a, b); \
non-trivial = length > 0.";

fn job<T: Elem>(ctx: &mut Ctx, group: &[Target<T>]) {
    for t in group {
        if ctx.out_of_time() {
            break;
        }
        map_sweep(ctx, *t, true);
    }
}

pub fn jobs(_tier: Tier, rng: &mut Rng) -> (String, Vec<Job>) {
    let mut jobs = Vec::new();
    all_elems!(T => {
        let ts = targets::<T>(Forms::All, |r| r.op.is_arith());
        for g in group_by_name(ts) {
            let name = format!("C02 {}", g[0].label());
            jobs.push(Job::new(name, rng, move |ctx| job::<T>(ctx, &g)));
        }
    });
    (RULE.to_string(), jobs)
}
