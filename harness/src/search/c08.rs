//! C08 — results depend only on the logical inputs.

use crate::all_elems;
use crate::elem::{hexs, Elem};
use crate::kern::{Arenas, Out, VecCall};
use crate::mem::{Case, Ctx, Fail, Job, Place, Tier, Verdict};
use crate::prng::Rng;
use crate::search::common::*;
use crate::vals;

pub const RULE: &str = "case = one logical input (routine, DIMS, mask, value, a, b) executed twice: run 1 with \
guard-flush placement, poison byte 0xA5 around the slices and result pre-filled with 0xC3..; then an unrelated \
call of the same routine on other data (every fourth time: all zeros) in the same arenas (interleaving; for const-dimension entry points the call goes \
to the same entry point instantiated at another DIMS); run 2 with different byte alignments \
of every slice (derived from the case hash), poison byte 0x3C and result pre-filled with 0x5A.. (a share of the \
two-input cases has equal contents in `a` and `b`; run 2 then passes one slice for both). The two outcomes \
(value / whole result vector / panic) must be bit-identical (floats included; same backend), which also proves \
every result element is overwritten; inputs must be unchanged bit for bit; canaries intact; every call must return \
with the floating-point control word (x86-64 MXCSR rounding / flush-to-zero / denormals-are-zero / mask bits) it was \
entered with - if not, the routine is re-run on rounding- and subnormal-sensitive data under both control words to show \
the dependence of a later result on the earlier call. Every routine (all \
per-backend exports, xconst forms, safe functions under each dispatcher mask), lengths from the smart subset, \
NaN-free values (mixed boundary/random), non-zero integer divisors. distinct = hash set over (routine, DIMS, \
mask, value, a, b); non-trivial = length > 0.";

fn out_bits_equal<T: Elem>(x: &Out<T>, y: &Out<T>) -> Option<String> {
    match (x, y) {
        (Out::Scalar(a), Out::Scalar(b)) => {
            if a.to_bits() == b.to_bits() {
                None
            } else {
                Some(format!(
                    "value {} ({}) vs {} ({})",
                    a.show(),
                    hexs(*a),
                    b.show(),
                    hexs(*b)
                ))
            }
        }
        (Out::Vector(a), Out::Vector(b)) => {
            if a.len() != b.len() {
                return Some("result lengths differ".into());
            }
            (0..a.len()).find(|&i| a[i].to_bits() != b[i].to_bits()).map(|i| {
                format!(
                    "result[{i}] = {} ({}) vs {} ({})",
                    a[i].show(),
                    hexs(a[i]),
                    b[i].show(),
                    hexs(b[i])
                )
            })
        }
        (Out::Panic(_), Out::Panic(_)) => None,
        (a, b) => Some(format!(
            "{} vs {}",
            crate::oracle::show_out(a),
            crate::oracle::show_out(b)
        )),
    }
}

/// A call came back with other floating-point control bits than it was entered with. That is state which outlives the
/// call; show that it reaches a result: the same routine on data that is sensitive to the rounding mode and to the
/// treatment of subnormals, once under the control word of a fresh thread and once under the one the call left behind.
fn leaked_fp_env<T: Elem>(c: &VecCall<T>, ar: &mut Arenas, which: &str, before: u32, after: u32) -> Verdict {
    let n = match c.r.dims {
        Some(d) => d,
        None => c.a.len().max(8),
    };
    let mut probe = c.clone();
    // the routine may set the mode itself on entry (then it is blind to what an earlier call left behind): prefer the
    // plain sum of the same element type
    if let Some(r) = T::all_routines()
        .into_iter()
        .find(|r| r.op == crate::elem::Op::Sum && r.dims.is_none() && !r.safe)
    {
        probe.r = r;
    }
    let n = match probe.r.dims {
        Some(d) => d,
        None => n,
    };
    let tiny = if T::BITS == 32 { 2f64.powi(-30) } else { 2f64.powi(-60) };
    // two data sets: all subnormal (flush-to-zero / denormals-are-zero), and 1, 2^-k, 1/3 (rounding direction)
    let mut differs: Option<String> = None;
    for set in 0..2 {
        probe.a = (0..n)
            .map(|i| match (set, i % 3) {
                (0, _) => T::from_bits(3 + i as u64), // subnormal
                (_, 0) => T::one(),
                (_, 1) => T::from_f64(tiny),
                _ => T::from_f64(1.0 / 3.0),
            })
            .collect();
        probe.b = if probe.uses_b() {
            (0..n).map(|i| if set == 0 { T::one() } else { T::from_f64(3.0 + i as f64) }).collect()
        } else {
            Vec::new()
        };
        probe.value = T::from_f64(3.0);
        probe.res_len = if probe.uses_result() { n } else { 0 };
        let o1 = probe.exec(ar);
        crate::kern::set_fp_control(after);
        let o2 = probe.exec(ar);
        crate::kern::set_fp_control(before);
        if let Some(d) = out_bits_equal(&o1.out, &o2.out) {
            differs = Some(format!("{} on {} gives {d}", probe.r.name, if set == 0 { "subnormal data" } else { "(1, 2^-k, 1/3, ...)" }));
            break;
        }
    }
    let dep = if T::FLOAT {
        match differs {
            Some(d) => format!("; a later call then returns other bits than before it: {d}"),
            None => "; (the sensitivity probe returned the same bits under both control words)".into(),
        }
    } else {
        String::new()
    };
    Some(Fail {
        kind: "hidden_state",
        class: "fp_env",
        expected: format!(
            "the call leaves the floating-point control word as it found it: {}",
            crate::kern::show_fp_control(before)
        ),
        actual: format!("after {which}: {}{dep}", crate::kern::show_fp_control(after)),
        note: "processor state that outlives the call: every later floating-point result of the thread is computed under it, \
               so results depend on earlier calls"
            .into(),
    })
}

fn check<T: Elem>(c: &VecCall<T>, ar: &mut Arenas, sib: &Option<crate::elem::Routine<T>>) -> Verdict {
    let h = c.hash();
    let align = std::mem::align_of::<T>() as u64;
    let nk = 64 / align;
    let k = |s: u32| (((h >> s) % nk) * align) as u8;
    // run 1
    let mut c1 = c.clone();
    c1.place = [Place::End, Place::End, Place::End];
    c1.poison = 0xA5;
    c1.prefill = if (h >> 36) % 4 == 1 { 0 } else { 0xC3C3_C3C3_C3C3_C3C3 };
    let e1 = c1.exec(ar);
    if let Some((b, a)) = e1.fp_env {
        return leaked_fp_env(c, ar, "this call", b, a);
    }
    // interleaved unrelated call (same routine, other data, other length)
    let mut noise = c.clone();
    // const-dimension forms: the interleaved call goes to the *same entry point at another DIMS* when the harness has
    // one (a selection cached per function instead of per instantiation, or any other state shared between the
    // instantiations, then shows in run 2); otherwise the same DIMS
    if let (Some(_), Some(s)) = (c.r.dims, sib) {
        noise.r = *s;
    }
    let nl = match noise.r.dims {
        Some(d) => d,
        None => (c.a.len() * 2 + 3) % 97,
    };
    noise.a = (0..nl)
        .map(|i| T::from_bits(h.rotate_left(i as u32 % 64) | 1))
        .map(|x: T| if x.is_nan() { T::one() } else { x })
        .collect();
    // every fourth interleaved call runs on all-zero data (zero norms, zero sums: the early-exit paths of a routine)
    if (h >> 40) % 4 == 0 {
        noise.a = vec![T::zero(); nl];
    }
    noise.b = if c.uses_b() {
        noise.a.iter().rev().cloned().collect()
    } else {
        Vec::new()
    };
    noise.res_len = if c.uses_result() { nl } else { 0 };
    noise.place = [Place::Start, Place::AlignHi(k(3)), Place::AlignLo(k(9))];
    let en = noise.exec(ar);
    if let Some((b, a)) = en.fp_env {
        return leaked_fp_env(
            c,
            ar,
            &format!("the interleaved call {} on data derived from the case hash", noise.call()),
            b,
            a,
        );
    }
    // run 2
    let mut c2 = c.clone();
    c2.place = [Place::AlignHi(k(7)), Place::AlignLo(k(17)), Place::AlignHi(k(27))];
    if h & 1 == 1 {
        c2.place = [Place::AlignLo(k(7)), Place::AlignHi(k(17)), Place::Start];
    }
    // every fourth case: all slices cache-line (in fact page) aligned in run 2 — the one placement a kernel selection keyed
    // on alignment would treat differently from the unaligned end-flush placement of run 1
    if (h >> 33) % 4 == 0 {
        c2.place = [Place::AlignLo(0), Place::AlignLo(0), Place::AlignLo(0)];
    }
    c2.poison = 0x3C;
    c2.prefill = 0x5A5A_5A5A_5A5A_5A5A;
    // every fourth case: the result is pre-filled with +0.0 in run 1 and -0.0 in run 2 (integers: 0 and the sign bit) — a store
    // that is skipped because the old element "equals" the new one would leave the other zero behind
    if (h >> 36) % 4 == 1 {
        c2.prefill = if T::FLOAT { T::from_f64(-0.0).to_bits() } else { 1u64 << (T::BITS - 1) };
    }
    // when the two inputs have the same contents, the second run hands the routine one slice for both
    let same_contents = c.uses_b() && c.a.len() == c.b.len() && (0..c.a.len()).all(|i| c.a[i].to_bits() == c.b[i].to_bits());
    c2.alias_b = same_contents;
    let e2 = c2.exec(ar);
    if let Some((b, a)) = e2.fp_env {
        return leaked_fp_env(c, ar, "this call", b, a);
    }
    for e in [&e1, &e2] {
        if let Some(d) = &e.canary {
            return Some(Fail {
                kind: "canary",
                class: "canary",
                expected: "no byte outside the slices is written".into(),
                actual: d.clone(),
                note: "out-of-bounds write detected by canary bytes".into(),
            });
        }
        if let Some(d) = &e.input_changed {
            return Some(Fail {
                kind: "input_modified",
                class: "input_modified",
                expected: "inputs unchanged bit for bit".into(),
                actual: d.clone(),
                note: String::new(),
            });
        }
    }
    if let Some(d) = out_bits_equal(&e1.out, &e2.out) {
        let fills = [
            T::from_bits(c1.prefill).to_bits(),
            T::from_bits(c2.prefill).to_bits(),
        ];
        let unwritten = match (&e1.out, &e2.out) {
            (Out::Vector(a), Out::Vector(b)) => {
                (0..a.len().min(b.len())).any(|i| a[i].to_bits() == fills[0] && b[i].to_bits() == fills[1])
            }
            _ => false,
        };
        return Some(Fail {
            kind: "nondeterminism",
            class: "differs",
            expected: "bit-identical outcomes for identical logical inputs".into(),
            actual: d,
            note: if unwritten {
                "a result element kept its pre-fill pattern in both runs: not every element is overwritten"
                    .into()
            } else {
                format!(
                    "run 1: placement {:?}, poison 0xA5; run 2: placement {:?}, poison 0x3C{}",
                    c1.place,
                    c2.place,
                    if c2.alias_b { "; in run 2 `a` and `b` are the same slice (run 1: two copies of the same contents)" } else { "" }
                )
            },
        });
    }
    None
}

fn one_target<T: Elem>(ctx: &mut Ctx, t: Target<T>) {
    let tier = ctx.tier;
    let bounds: Vec<T> = vals::boundaries::<T>(false);
    let all = target_lengths(&t);
    let mut rng = ctx.rng.split();
    let lens: Vec<usize> = if tier == Tier::Thorough || all.len() <= 400 {
        all
    } else {
        // quick: every third length of the smart subset (phase chosen by the job seed) + the ends
        let ph = rng.usize_below(3);
        let mut v: Vec<usize> = all
            .iter()
            .cloned()
            .enumerate()
            .filter(|(i, _)| i % 3 == ph)
            .map(|(_, l)| l)
            .collect();
        v.push(*all.last().unwrap());
        v.push(0);
        v.sort_unstable();
        v.dedup();
        v
    };
    let int_div = !T::FLOAT && t.r.op.is_div();
    let small = !T::FLOAT && t.r.op == crate::elem::Op::Cosine;
    let pack = pack_len(&t);
    // another instantiation of the same const-dimension entry point (same name, other DIMS), if any
    let sib: Option<crate::elem::Routine<T>> = if t.r.dims.is_some() {
        T::all_routines()
            .into_iter()
            .filter(|r| r.name == t.r.name && r.safe == t.r.safe && r.dims.is_some() && r.dims != t.r.dims)
            .max_by_key(|r| r.dims.unwrap_or(0))
    } else {
        None
    };
    let mut run = Run::new(ctx, t, pack.max(128));
    let reps = tier.pick(2, 40);
    for &len in &lens {
        if run.ctx.out_of_time() {
            break;
        }
        for rep in 0..reps {
            let gen = |rng: &mut Rng, divisor: bool| -> T {
                let v = if small && rep % 2 == 0 {
                    vals::small_int::<T>(rng, 4)
                } else if T::FLOAT && rep % 2 == 1 {
                    // moderate magnitudes of mixed sign: every re-association of a sum changes the low bits, so a
                    // result that depends on placement (e.g. an alignment-dependent peeling of the loop) shows
                    vals::scaled_float::<T>(rng, -4, 4)
                } else {
                    vals::mixed(rng, &bounds, false)
                };
                if divisor && int_div && v == T::zero() {
                    T::one()
                } else {
                    v
                }
            };
            let a: Vec<T> = (0..len).map(|_| gen(&mut rng, false)).collect();
            let b: Vec<T> = if kind_uses_b(t.r.kind()) {
                if rep % 4 == 2 || (reps == 2 && len % 3 == 1 && rep == 1) {
                    // same contents in both inputs (then also passed as one shared slice, see `check`)
                    a.iter().map(|x| if int_div && *x == T::zero() { T::one() } else { *x }).collect()
                } else {
                    (0..len).map(|_| gen(&mut rng, true)).collect()
                }
            } else {
                Vec::new()
            };
            let v = gen(&mut rng, true);
            let mut c: VecCall<T> = t.call().with_data(v, a, b);
            c.weight = 3;
            run.tally.note_len(len);
            let ar = &mut run.ar;
            run.ctx.run_case(&c, len > 0, &mut |c| check(c, ar, &sib));
            if run.ctx.p.samples.is_empty() && len > 0 && len <= 8 {
                sample(run.ctx, &c);
            }
        }
    }
    run.finish();
}

pub fn jobs(_tier: Tier, rng: &mut Rng) -> (String, Vec<Job>) {
    let mut jobs = Vec::new();
    all_elems!(T => {
        let ts = targets::<T>(Forms::All, |_| true);
        for g in group_by_name(ts) {
            let name = format!("C08 {}", g[0].label());
            jobs.push(Job::new(name, rng, move |ctx| {
                for t in &g {
                    if ctx.out_of_time() {
                        break;
                    }
                    one_target::<T>(ctx, *t);
                }
            }));
        }
    });
    (RULE.to_string(), jobs)
}
