//! One module per property.  Each exposes `jobs(tier, rng) -> (rule, Vec<Job>)`.

pub mod common;

pub mod c01;
pub mod c02;
pub mod c03;
pub mod c04;
pub mod c05;
pub mod c06;
pub mod c07;
pub mod c08;
pub mod c12;
pub mod c13;
pub mod c14;
pub mod c15;
pub mod c16;
pub mod c18;

use crate::mem::{run_jobs, Job, RunCfg, Tier};
use crate::prng::Rng;
use crate::report::Partial;

pub const PROPERTIES: [&str; 14] =
    ["C01", "C02", "C03", "C04", "C05", "C06", "C07", "C08", "C12", "C13", "C14", "C15", "C16", "C18"];

pub fn run(prop: &str, cfg: &RunCfg, rng: &mut Rng) -> Option<(String, Partial)> {
    let tier: Tier = cfg.tier;
    let (rule, jobs): (String, Vec<Job>) = match prop {
        "C01" => c01::jobs(tier, rng),
        "C02" => c02::jobs(tier, rng),
        "C03" => c03::jobs(tier, rng),
        "C04" => c04::jobs(tier, rng),
        "C05" => c05::jobs(tier, rng),
        "C06" => c06::jobs(tier, rng),
        "C07" => c07::jobs(tier, rng),
        "C08" => c08::jobs(tier, rng),
        "C12" => c12::jobs(tier, rng),
        "C13" => c13::jobs(tier, rng),
        "C14" => c14::jobs(tier, rng),
        "C15" => c15::jobs(tier, rng),
        "C16" => c16::jobs(tier, rng),
        "C18" => c18::jobs(tier, rng),
        _ => return None,
    };
    let body = run_jobs(jobs, cfg);
    Some((rule, body))
}
