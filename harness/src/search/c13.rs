//! C13 — the register abstraction (`SimdRegister<T>` for Fallback / Avx2 / Avx2Fma / Avx512) is
//! lane-wise faithful.  Trait methods are called directly inside `#[target_feature]` wrappers;
//! registers are built from / read back into lanes by raw memory copies (not by the trait's own
//! load/write, which are under test themselves).

use std::fmt::Write as _;

use cfavml::danger::{DenseLane, SimdRegister};

use crate::elem::{hexs, Elem};
use crate::kern::{hash_str, mix, Arenas};
use crate::mem::{self, Case, Ctx, Fail, Job, Place, Tier, Verdict};
use crate::oracle::{gamma, unit_roundoff, DD};
use crate::prng::Rng;
use crate::vals;

pub const RULE: &str = "case = one SimdRegister<T> trait method of one register type R (Fallback, Avx2, Avx2Fma for \
f32/f64, Avx512 on nightly builds) applied to a batch of registers whose lanes are given explicitly; methods: \
load/write round trip (against guard pages, unaligned), filled, zeroed, add, sub, mul, div, min, max, fmadd, \
sum/max/min_to_value, every *_dense form (8 fields), load_dense/write_dense, sum/max/min_to_register. Oracle: \
wrapping integer / IEEE lane ops of the Rust primitives (fmadd unfused for Fallback and Avx2, fused mul_add for \
Avx2Fma and Avx512 floats; either on nightly Fallback), folds of the lanes (float sums within gamma(L)*sum|x|, \
float max/min exact on NaN-free data, either zero accepted), integer division by zero must panic. Operands: \
exhaustive 8-bit pairs with every pair visiting every lane position (16-bit exhaustive in the thorough tier), \
boundary x boundary plus random otherwise; floats include +-0, subnormals, +-inf, NaN (not for min/max/folds). \
distinct = hash set over (R, T, method, lanes of all operands); non-trivial = always (every case has lanes).";

#[derive(Clone, Copy, PartialEq, Eq, Debug, Hash)]
pub enum Base {
    LoadWrite,
    Filled,
    Zeroed,
    Add,
    Sub,
    Mul,
    Div,
    Min,
    Max,
    Fmadd,
    /// sum_to_value (single) / sum_to_register (dense)
    SumFold,
    MaxFold,
    MinFold,
}

const BASES: [Base; 13] = [
    Base::LoadWrite,
    Base::Filled,
    Base::Zeroed,
    Base::Add,
    Base::Sub,
    Base::Mul,
    Base::Div,
    Base::Min,
    Base::Max,
    Base::Fmadd,
    Base::SumFold,
    Base::MaxFold,
    Base::MinFold,
];

#[derive(Clone, Copy, PartialEq, Eq, Debug, Hash)]
pub struct RegOp {
    pub base: Base,
    pub dense: bool,
}

impl RegOp {
    fn name(self) -> &'static str {
        match (self.base, self.dense) {
            (Base::LoadWrite, false) => "load+write",
            (Base::LoadWrite, true) => "load_dense+write_dense",
            (Base::Filled, false) => "filled",
            (Base::Filled, true) => "filled_dense",
            (Base::Zeroed, false) => "zeroed",
            (Base::Zeroed, true) => "zeroed_dense",
            (Base::Add, false) => "add",
            (Base::Add, true) => "add_dense",
            (Base::Sub, false) => "sub",
            (Base::Sub, true) => "sub_dense",
            (Base::Mul, false) => "mul",
            (Base::Mul, true) => "mul_dense",
            (Base::Div, false) => "div",
            (Base::Div, true) => "div_dense",
            (Base::Min, false) => "min",
            (Base::Min, true) => "min_dense",
            (Base::Max, false) => "max",
            (Base::Max, true) => "max_dense",
            (Base::Fmadd, false) => "fmadd",
            (Base::Fmadd, true) => "fmadd_dense",
            (Base::SumFold, false) => "sum_to_value",
            (Base::SumFold, true) => "sum_to_register",
            (Base::MaxFold, false) => "max_to_value",
            (Base::MaxFold, true) => "max_to_register",
            (Base::MinFold, false) => "min_to_value",
            (Base::MinFold, true) => "min_to_register",
        }
    }
    fn arity(self) -> usize {
        match self.base {
            Base::Zeroed => 0,
            Base::LoadWrite | Base::Filled | Base::SumFold | Base::MaxFold | Base::MinFold => 1,
            Base::Fmadd => 3,
            _ => 2,
        }
    }
}

#[derive(Clone, Copy, PartialEq, Eq, Debug)]
pub enum Fused {
    No,
    Yes,
    Either,
}

#[derive(Clone)]
pub struct RegCase<T: Elem> {
    pub reg: &'static str,
    pub lanes: usize,
    pub fused: Fused,
    /// float division may be off by 2 ulp (nightly Fallback = FastMath)
    pub div_tol: bool,
    pub op: RegOp,
    /// Operand lanes; each a multiple of `unit()` long (x always present except for zeroed).
    pub x: Vec<T>,
    pub y: Vec<T>,
    pub z: Vec<T>,
}

impl<T: Elem> RegCase<T> {
    fn unit(&self) -> usize {
        if self.op.dense {
            8 * self.lanes
        } else {
            self.lanes
        }
    }
    fn batches(&self) -> usize {
        if self.op.base == Base::Zeroed {
            1
        } else {
            self.x.len() / self.unit()
        }
    }
}

impl<T: Elem> Case for RegCase<T> {
    fn routine(&self) -> String {
        format!("<{} as SimdRegister<{}>>::{}", self.reg, T::NAME, self.op.name())
    }
    fn inflight(&self, w: &mut dyn std::fmt::Write) {
        let _ = write!(
            w,
            "<{} as SimdRegister<{}>>::{} on {} register batch(es)",
            self.reg,
            T::NAME,
            self.op.name(),
            self.batches()
        );
    }
    fn call(&self) -> String {
        let mut s = format!(
            "{} x {} batch(es) of {} lanes",
            self.routine(),
            self.batches(),
            self.unit()
        );
        if self.x.len() <= 8 {
            let _ = write!(s, "; x={:?}", self.x);
            if self.op.arity() >= 2 {
                let _ = write!(s, " y={:?}", self.y);
            }
            if self.op.arity() >= 3 {
                let _ = write!(s, " z={:?}", self.z);
            }
        }
        s
    }
    fn input_json(&self) -> String {
        let list = |v: &[T]| -> String {
            let items: Vec<String> = v.iter().take(4096).map(|x| format!("\"{}\"", hexs(*x))).collect();
            format!("[{}]", items.join(","))
        };
        let mut f: Vec<(&str, String)> = vec![
            ("register", format!("\"{}\"", self.reg)),
            ("type", format!("\"{}\"", T::NAME)),
            ("method", format!("\"{}\"", self.op.name())),
            ("lanes_per_register", self.lanes.to_string()),
            ("x", list(&self.x)),
        ];
        if self.op.arity() >= 2 {
            f.push(("y", list(&self.y)));
        }
        if self.op.arity() >= 3 {
            f.push(("z", list(&self.z)));
        }
        crate::report::json_obj(&f)
    }
    fn hash(&self) -> u64 {
        let mut h = 0x0C13_0C13_0C13_0C13u64;
        hash_str(&mut h, self.reg);
        hash_str(&mut h, self.op.name());
        for v in [&self.x, &self.y, &self.z] {
            mix(&mut h, v.len() as u64);
            for x in v.iter() {
                mix(&mut h, x.to_bits());
            }
        }
        h
    }
    fn calls(&self) -> u64 {
        let per = if self.op.base == Base::LoadWrite { 2 } else { 1 };
        self.batches() as u64 * per
    }
    fn shrink(&self) -> Vec<Self> {
        let mut out = Vec::new();
        let u = self.unit();
        let m = self.batches();
        let ar = self.op.arity();
        let cut = |r: std::ops::Range<usize>| -> RegCase<T> {
            let mut c = self.clone();
            c.x = self.x[r.start * u..r.end * u].to_vec();
            if ar >= 2 {
                c.y = self.y[r.start * u..r.end * u].to_vec();
            }
            if ar >= 3 {
                c.z = self.z[r.start * u..r.end * u].to_vec();
            }
            c
        };
        if m > 1 && self.op.base != Base::Zeroed {
            out.push(cut(0..m / 2));
            out.push(cut(m / 2..m));
            out.push(cut(0..m - 1));
            out.push(cut(1..m));
        }
        // values -> 0 / 1, lane by lane (only once a single batch is left)
        if m == 1 {
            let zero = T::zero().to_bits();
            let one = T::one().to_bits();
            for (which, v) in [&self.x, &self.y, &self.z].iter().enumerate() {
                if which >= ar.max(1) {
                    break;
                }
                for i in 0..v.len() {
                    let b = v[i].to_bits();
                    for s in [T::zero(), T::one()] {
                        if b == zero || (b == one && s.to_bits() == one) || s.to_bits() == b {
                            continue;
                        }
                        // never turn a non-zero divisor into zero: that changes the kind of case
                        if self.op.base == Base::Div && which == 1 && s.to_bits() == zero {
                            continue;
                        }
                        let mut c = self.clone();
                        match which {
                            0 => c.x[i] = s,
                            1 => c.y[i] = s,
                            _ => c.z[i] = s,
                        }
                        out.push(c);
                    }
                }
            }
        }
        out
    }
}

pub enum RegOut<T> {
    Lanes(Vec<T>),
    Panic(String),
    Canary(String),
}

// ------------------------------------------------------------------------------------------
// evaluation through the trait
// ------------------------------------------------------------------------------------------

#[inline(always)]
unsafe fn reg_of<T: Elem, R: SimdRegister<T>>(p: *const T) -> R::Register {
    std::ptr::read_unaligned(p as *const R::Register)
}

#[inline(always)]
unsafe fn push_reg<T: Elem, R: SimdRegister<T>>(reg: R::Register, out: &mut Vec<T>) {
    let l = R::elements_per_lane();
    let old = out.len();
    out.reserve(l);
    std::ptr::write_unaligned(out.as_mut_ptr().add(old) as *mut R::Register, reg);
    out.set_len(old + l);
}

#[inline(always)]
unsafe fn dense_of<T: Elem, R: SimdRegister<T>>(p: *const T) -> DenseLane<R::Register> {
    let l = R::elements_per_lane();
    DenseLane {
        a: reg_of::<T, R>(p),
        b: reg_of::<T, R>(p.add(l)),
        c: reg_of::<T, R>(p.add(2 * l)),
        d: reg_of::<T, R>(p.add(3 * l)),
        e: reg_of::<T, R>(p.add(4 * l)),
        f: reg_of::<T, R>(p.add(5 * l)),
        g: reg_of::<T, R>(p.add(6 * l)),
        h: reg_of::<T, R>(p.add(7 * l)),
    }
}

#[inline(always)]
unsafe fn push_dense<T: Elem, R: SimdRegister<T>>(d: DenseLane<R::Register>, out: &mut Vec<T>) {
    push_reg::<T, R>(d.a, out);
    push_reg::<T, R>(d.b, out);
    push_reg::<T, R>(d.c, out);
    push_reg::<T, R>(d.d, out);
    push_reg::<T, R>(d.e, out);
    push_reg::<T, R>(d.f, out);
    push_reg::<T, R>(d.g, out);
    push_reg::<T, R>(d.h, out);
}

/// Applies the method to every batch; the output is the concatenation of the produced lanes.
#[inline(always)]
unsafe fn eval<T: Elem, R: SimdRegister<T>>(c: &RegCase<T>, ar: &mut Arenas) -> RegOut<T> {
    let l = R::elements_per_lane();
    assert_eq!(l, c.lanes, "lane count mismatch");
    assert_eq!(std::mem::size_of::<R::Register>(), l * std::mem::size_of::<T>());
    let u = c.unit();
    let m = c.batches();
    let mut out: Vec<T> = Vec::with_capacity(2 * u * m + 8);
    let align = std::mem::align_of::<T>();
    for i in 0..m {
        let x = c.x.as_ptr().add(i * u);
        let y = c.y.as_ptr().add(if c.y.is_empty() { 0 } else { i * u });
        let z = c.z.as_ptr().add(if c.z.is_empty() { 0 } else { i * u });
        match (c.op.base, c.op.dense) {
            (Base::LoadWrite, dense) => {
                // source end-flush against a guard page (over-reads fault), odd alignments
                let k = ((i * align) % 64) as u8;
                let places = [Place::End, Place::AlignHi(k), Place::Start];
                let pl = places[i % 3];
                let src: *mut T = mem::place_elems(&mut ar.a, u, pl);
                std::ptr::copy_nonoverlapping(x, src, u);
                let dst: *mut T = mem::place_elems(&mut ar.r, u, places[(i + 1) % 3]);
                if dense {
                    let d = R::load_dense(src);
                    push_dense::<T, R>(d, &mut out);
                    R::write_dense(dst, dense_of::<T, R>(x));
                } else {
                    let r = R::load(src);
                    push_reg::<T, R>(r, &mut out);
                    R::write(dst, reg_of::<T, R>(x));
                }
                out.extend_from_slice(std::slice::from_raw_parts(dst, u));
                if let Some(d) = ar.r.check(ar.window).or_else(|| ar.a.check(ar.window)) {
                    return RegOut::Canary(d);
                }
            }
            (Base::Filled, false) => push_reg::<T, R>(R::filled(*x), &mut out),
            (Base::Filled, true) => push_dense::<T, R>(R::filled_dense(*x), &mut out),
            (Base::Zeroed, false) => push_reg::<T, R>(R::zeroed(), &mut out),
            (Base::Zeroed, true) => push_dense::<T, R>(R::zeroed_dense(), &mut out),
            (Base::Add, false) => push_reg::<T, R>(R::add(reg_of::<T, R>(x), reg_of::<T, R>(y)), &mut out),
            (Base::Sub, false) => push_reg::<T, R>(R::sub(reg_of::<T, R>(x), reg_of::<T, R>(y)), &mut out),
            (Base::Mul, false) => push_reg::<T, R>(R::mul(reg_of::<T, R>(x), reg_of::<T, R>(y)), &mut out),
            (Base::Div, false) => push_reg::<T, R>(R::div(reg_of::<T, R>(x), reg_of::<T, R>(y)), &mut out),
            (Base::Min, false) => push_reg::<T, R>(R::min(reg_of::<T, R>(x), reg_of::<T, R>(y)), &mut out),
            (Base::Max, false) => push_reg::<T, R>(R::max(reg_of::<T, R>(x), reg_of::<T, R>(y)), &mut out),
            (Base::Fmadd, false) => push_reg::<T, R>(
                R::fmadd(reg_of::<T, R>(x), reg_of::<T, R>(y), reg_of::<T, R>(z)),
                &mut out,
            ),
            (Base::Add, true) => {
                push_dense::<T, R>(R::add_dense(dense_of::<T, R>(x), dense_of::<T, R>(y)), &mut out)
            }
            (Base::Sub, true) => {
                push_dense::<T, R>(R::sub_dense(dense_of::<T, R>(x), dense_of::<T, R>(y)), &mut out)
            }
            (Base::Mul, true) => {
                push_dense::<T, R>(R::mul_dense(dense_of::<T, R>(x), dense_of::<T, R>(y)), &mut out)
            }
            (Base::Div, true) => {
                push_dense::<T, R>(R::div_dense(dense_of::<T, R>(x), dense_of::<T, R>(y)), &mut out)
            }
            (Base::Min, true) => {
                push_dense::<T, R>(R::min_dense(dense_of::<T, R>(x), dense_of::<T, R>(y)), &mut out)
            }
            (Base::Max, true) => {
                push_dense::<T, R>(R::max_dense(dense_of::<T, R>(x), dense_of::<T, R>(y)), &mut out)
            }
            (Base::Fmadd, true) => push_dense::<T, R>(
                R::fmadd_dense(dense_of::<T, R>(x), dense_of::<T, R>(y), dense_of::<T, R>(z)),
                &mut out,
            ),
            (Base::SumFold, false) => out.push(R::sum_to_value(reg_of::<T, R>(x))),
            (Base::MaxFold, false) => out.push(R::max_to_value(reg_of::<T, R>(x))),
            (Base::MinFold, false) => out.push(R::min_to_value(reg_of::<T, R>(x))),
            (Base::SumFold, true) => push_reg::<T, R>(R::sum_to_register(dense_of::<T, R>(x)), &mut out),
            (Base::MaxFold, true) => push_reg::<T, R>(R::max_to_register(dense_of::<T, R>(x)), &mut out),
            (Base::MinFold, true) => push_reg::<T, R>(R::min_to_register(dense_of::<T, R>(x)), &mut out),
        }
    }
    RegOut::Lanes(out)
}

type EvalFn<T> = unsafe fn(&RegCase<T>, &mut Arenas) -> RegOut<T>;

unsafe fn eval_fallback<T: Elem>(c: &RegCase<T>, ar: &mut Arenas) -> RegOut<T>
where
    cfavml::danger::Fallback: SimdRegister<T>,
{
    eval::<T, cfavml::danger::Fallback>(c, ar)
}

#[target_feature(enable = "avx2")]
unsafe fn eval_avx2<T: Elem>(c: &RegCase<T>, ar: &mut Arenas) -> RegOut<T>
where
    cfavml::danger::Avx2: SimdRegister<T>,
{
    eval::<T, cfavml::danger::Avx2>(c, ar)
}

#[target_feature(enable = "avx2,fma")]
unsafe fn eval_avx2fma<T: Elem>(c: &RegCase<T>, ar: &mut Arenas) -> RegOut<T>
where
    cfavml::danger::Avx2Fma: SimdRegister<T>,
{
    eval::<T, cfavml::danger::Avx2Fma>(c, ar)
}

#[cfg(feature = "nightly")]
#[target_feature(enable = "avx512f,avx512bw")]
unsafe fn eval_avx512<T: Elem>(c: &RegCase<T>, ar: &mut Arenas) -> RegOut<T>
where
    cfavml::danger::Avx512: SimdRegister<T>,
{
    eval::<T, cfavml::danger::Avx512>(c, ar)
}

// ------------------------------------------------------------------------------------------
// oracle
// ------------------------------------------------------------------------------------------

fn lane_ok<T: Elem>(c: &RegCase<T>, want: T, got: T, alt: Option<T>) -> bool {
    if !T::FLOAT {
        return want == got;
    }
    match c.op.base {
        Base::Min | Base::Max | Base::MinFold | Base::MaxFold => !got.is_nan() && want == got,
        _ => {
            let one = |w: T| {
                if w.is_nan() {
                    got.is_nan()
                } else if w.to_bits() == got.to_bits() {
                    true
                } else {
                    c.op.base == Base::Div
                        && c.div_tol
                        && !got.is_nan()
                        && (w.ulp_key() - got.ulp_key()).abs() <= 2
                }
            };
            one(want) || alt.map(one).unwrap_or(false)
        }
    }
}

fn fail(c_kind: &'static str, class: &'static str, e: String, a: String, n: String) -> Verdict {
    Some(Fail {
        kind: c_kind,
        class,
        expected: e,
        actual: a,
        note: n,
    })
}

fn judge<T: Elem>(c: &RegCase<T>, out: Result<RegOut<T>, String>) -> Verdict {
    let u = c.unit();
    let l = c.lanes;
    let m = c.batches();
    let int_div_zero = !T::FLOAT && c.op.base == Base::Div && c.y.iter().any(|v| *v == T::zero());
    let got = match out {
        Err(msg) | Ok(RegOut::Panic(msg)) => {
            return if int_div_zero {
                None
            } else {
                fail(
                    "unexpected_panic",
                    "unexpected_panic",
                    "returns normally".into(),
                    format!("panic: {msg}"),
                    String::new(),
                )
            };
        }
        Ok(RegOut::Canary(d)) => {
            return fail(
                "canary",
                "canary",
                "write/write_dense touch exactly one register / dense lane of memory".into(),
                d,
                "out-of-bounds write detected by canary bytes".into(),
            )
        }
        Ok(RegOut::Lanes(v)) => v,
    };
    if int_div_zero {
        return fail(
            "missing_panic",
            "missing_panic",
            "integer division by a zero lane panics".into(),
            "returned normally".into(),
            String::new(),
        );
    }
    let bad = |i: usize, want: T, got: T, note: String| -> Verdict {
        fail(
            "impl_vs_oracle",
            "value",
            format!("output lane {i} = {} ({})", want.show(), hexs(want)),
            format!("output lane {i} = {} ({})", got.show(), hexs(got)),
            note,
        )
    };
    let expect_len = |n: usize| -> Verdict {
        if got.len() != n {
            fail(
                "impl_vs_oracle",
                "shape",
                format!("{n} lanes"),
                format!("{} lanes", got.len()),
                "harness".into(),
            )
        } else {
            None
        }
    };
    match c.op.base {
        Base::LoadWrite => {
            if let Some(f) = expect_len(2 * u * m) {
                return Some(f);
            }
            for b in 0..m {
                for j in 0..u {
                    let w = c.x[b * u + j];
                    let g1 = got[b * 2 * u + j];
                    let g2 = got[b * 2 * u + u + j];
                    if w.to_bits() != g1.to_bits() {
                        return bad(b * 2 * u + j, w, g1, "lane read back from load".into());
                    }
                    if w.to_bits() != g2.to_bits() {
                        return bad(b * 2 * u + u + j, w, g2, "memory after write".into());
                    }
                }
            }
            None
        }
        Base::Filled | Base::Zeroed => {
            if let Some(f) = expect_len(u * m) {
                return Some(f);
            }
            for b in 0..m {
                let w = if c.op.base == Base::Zeroed {
                    T::from_bits(0)
                } else {
                    c.x[b * u]
                };
                for j in 0..u {
                    let g = got[b * u + j];
                    if w.to_bits() != g.to_bits() {
                        return bad(b * u + j, w, g, "every lane must hold the value".into());
                    }
                }
            }
            None
        }
        Base::Add | Base::Sub | Base::Mul | Base::Div | Base::Min | Base::Max | Base::Fmadd => {
            if let Some(f) = expect_len(u * m) {
                return Some(f);
            }
            for i in 0..u * m {
                let (x, y) = (c.x[i], c.y[i]);
                let mut alt = None;
                let w = match c.op.base {
                    Base::Add => x.w_add(y),
                    Base::Sub => x.w_sub(y),
                    Base::Mul => x.w_mul(y),
                    Base::Div => x.w_div(y).unwrap(),
                    Base::Min => {
                        if y < x {
                            y
                        } else {
                            x
                        }
                    }
                    Base::Max => {
                        if y > x {
                            y
                        } else {
                            x
                        }
                    }
                    _ => {
                        let z = c.z[i];
                        let unf = x.w_mul(y).w_add(z);
                        let fus = x.fused(y, z);
                        match c.fused {
                            Fused::No => unf,
                            Fused::Yes => fus,
                            Fused::Either => {
                                alt = Some(fus);
                                unf
                            }
                        }
                    }
                };
                if !lane_ok(c, w, got[i], alt) {
                    return bad(i, w, got[i], format!("operands x={} y={}", hexs(x), hexs(y)));
                }
            }
            None
        }
        Base::SumFold | Base::MaxFold | Base::MinFold => {
            // single: fold the L lanes of each register into one value;
            // dense: fold the 8 registers lane-wise into one register
            let (groups, stride, count, outs) = if c.op.dense { (m, l, 8, l) } else { (m, 1, l, 1) };
            if let Some(f) = expect_len(groups * outs) {
                return Some(f);
            }
            for g in 0..groups {
                for o in 0..outs {
                    let items: Vec<T> = (0..count)
                        .map(|k| {
                            if c.op.dense {
                                c.x[g * u + k * stride + o]
                            } else {
                                c.x[g * u + k]
                            }
                        })
                        .collect();
                    let r = got[g * outs + o];
                    match c.op.base {
                        Base::SumFold => {
                            if T::FLOAT {
                                let mut acc = DD::ZERO;
                                let mut abs = 0.0f64;
                                for v in &items {
                                    acc = acc.add(DD::from(v.to_f64()));
                                    abs += v.to_f64().abs();
                                }
                                let bound = gamma(count, unit_roundoff::<T>()) * abs * (1.0 + 1e-9);
                                let diff = ((r.to_f64() - acc.hi) - acc.lo).abs();
                                if !(r.to_f64().is_finite() && diff <= bound) {
                                    return fail(
                                        "impl_vs_oracle",
                                        "value",
                                        format!("output {} = {:e} within {:e}", g * outs + o, acc.hi, bound),
                                        format!("{} ({}), off by {:e}", r.show(), hexs(r), diff),
                                        format!("fold of {count} lanes: gamma({count})*sum|x|"),
                                    );
                                }
                            } else {
                                let mut acc = T::zero();
                                for v in &items {
                                    acc = acc.w_add(*v);
                                }
                                if acc != r {
                                    return bad(
                                        g * outs + o,
                                        acc,
                                        r,
                                        format!("wrapping sum of {count} lanes"),
                                    );
                                }
                            }
                        }
                        _ => {
                            let is_max = c.op.base == Base::MaxFold;
                            let mut acc = items[0];
                            for v in &items {
                                if (is_max && *v > acc) || (!is_max && *v < acc) {
                                    acc = *v;
                                }
                            }
                            if !lane_ok(c, acc, r, None) {
                                return bad(g * outs + o, acc, r, format!("extreme of {count} lanes"));
                            }
                        }
                    }
                }
            }
            None
        }
    }
}

// ------------------------------------------------------------------------------------------
// case generation
// ------------------------------------------------------------------------------------------

struct Driver<'a, T: Elem> {
    ctx: &'a mut Ctx,
    ar: Arenas,
    eval: EvalFn<T>,
    reg: &'static str,
    lanes: usize,
    fused: Fused,
    div_tol: bool,
    calls: u64,
}

impl<T: Elem> Driver<'_, T> {
    fn go(&mut self, op: RegOp, x: Vec<T>, y: Vec<T>, z: Vec<T>) {
        let c = RegCase {
            reg: self.reg,
            lanes: self.lanes,
            fused: self.fused,
            div_tol: self.div_tol,
            op,
            x,
            y,
            z,
        };
        debug_assert!(op.base == Base::Zeroed || (c.x.len() % c.unit() == 0 && !c.x.is_empty()));
        let (ar, eval) = (&mut self.ar, self.eval);
        self.calls += 1;
        self.ctx.run_case(&c, true, &mut |c| {
            let r = mem::catch(|| unsafe { eval(c, ar) });
            judge(c, r)
        });
        if self.ctx.p.samples.is_empty() && c.x.len() <= 8 && c.x.len() > 0 && op.arity() >= 2 {
            let s = crate::report::json_obj(&[
                ("call", crate::report::json_str(&c.call())),
                ("input", c.input_json()),
            ]);
            self.ctx.p.add_sample(s);
        }
    }
}

/// Pads a lane stream to a multiple of `unit` with ones.
fn pad<T: Elem>(v: &mut Vec<T>, unit: usize) {
    while v.len() % unit != 0 || v.is_empty() {
        v.push(T::one());
    }
}

fn drive<T: Elem>(
    ctx: &mut Ctx,
    reg: &'static str,
    lanes: usize,
    eval: EvalFn<T>,
    fused: Fused,
    div_tol: bool,
    base: Base,
) {
    let tier = ctx.tier;
    let mut rng = ctx.rng.split();
    let bounds_nan: Vec<T> = vals::boundaries::<T>(true);
    let bounds: Vec<T> = vals::boundaries::<T>(false);
    let mut d = Driver {
        ctx,
        ar: Arenas::new(8 * 64 + 256),
        eval,
        reg,
        lanes,
        fused,
        div_tol,
        calls: 0,
    };
    let l = lanes;
    let batch_lanes = 4096usize; // lanes per case in bulk sweeps
    for dense in [false, true] {
        let op = RegOp { base, dense };
        let u = if dense { 8 * l } else { l };
        match base {
            Base::Zeroed => d.go(op, Vec::new(), Vec::new(), Vec::new()),
            Base::Filled => {
                let mut x: Vec<T> = Vec::new();
                // one value per batch: first lane of each unit is the value used
                let nv = tier.pick(256usize, 4096);
                for i in 0..nv {
                    let v = if T::BITS == 8 {
                        T::from_bits(i as u64)
                    } else if i < bounds_nan.len() {
                        bounds_nan[i]
                    } else {
                        vals::random_bits::<T>(&mut rng, true)
                    };
                    x.push(v);
                    for _ in 1..u {
                        x.push(T::one());
                    }
                    if x.len() >= batch_lanes {
                        d.go(op, std::mem::take(&mut x), Vec::new(), Vec::new());
                    }
                }
                if !x.is_empty() {
                    d.go(op, x, Vec::new(), Vec::new());
                }
            }
            Base::LoadWrite => {
                let n = tier.pick(40, 400);
                for _ in 0..n {
                    let k = 1 + rng.usize_below(6);
                    let x: Vec<T> = (0..k * u)
                        .map(|_| vals::mixed(&mut rng, &bounds_nan, true))
                        .collect();
                    d.go(op, x, Vec::new(), Vec::new());
                }
                // position markers: lane i holds i+1
                let x: Vec<T> = (0..u).map(|i| T::from_bits(i as u64 + 1)).collect();
                d.go(op, x, Vec::new(), Vec::new());
            }
            Base::SumFold | Base::MaxFold | Base::MinFold => {
                let n = tier.pick(300, 6000);
                for i in 0..n {
                    if i % 64 == 0 && d.ctx.out_of_time() {
                        break;
                    }
                    let k = 1 + rng.usize_below(4);
                    let class = i % 4;
                    let mut x: Vec<T> = (0..k * u)
                        .map(|_| {
                            if T::FLOAT {
                                match (base, class) {
                                    (Base::SumFold, 0) => vals::small_int::<T>(&mut rng, 50),
                                    (Base::SumFold, _) => vals::scaled_float(&mut rng, -20, 20),
                                    (_, 0) => *rng.pick(&bounds),
                                    (_, 1) => vals::random_bits::<T>(&mut rng, false),
                                    (_, 2) => T::from_f64(
                                        -(vals::scaled_float::<T>(&mut rng, -8, 8).to_f64().abs()),
                                    ),
                                    _ => vals::scaled_float(&mut rng, -8, 8),
                                }
                            } else {
                                match class {
                                    0 => *rng.pick(&bounds),
                                    1 => vals::random_bits::<T>(&mut rng, false),
                                    // all negative / upper half: catches folds seeded with 0
                                    2 => T::from_bits((1u64 << (T::BITS - 1)) | rng.next_u64()),
                                    _ => vals::small_int::<T>(&mut rng, 100),
                                }
                            }
                        })
                        .collect();
                    // unique extreme at a rotating lane position
                    if base != Base::SumFold && class == 3 {
                        let pos = i % (k * u);
                        x[pos] = if base == Base::MaxFold {
                            T::highest()
                        } else {
                            T::lowest()
                        };
                    }
                    d.go(op, x, Vec::new(), Vec::new());
                }
                // extreme / marker at every lane position of one batch
                for pos in 0..u {
                    let fill = if base == Base::MaxFold {
                        T::lowest()
                    } else if base == Base::MinFold {
                        T::highest()
                    } else {
                        T::zero()
                    };
                    let mut x = vec![fill; u];
                    x[pos] = if T::FLOAT {
                        T::from_f64(3.0)
                    } else {
                        T::from_bits(3)
                    };
                    d.go(op, x, Vec::new(), Vec::new());
                }
            }
            Base::Add | Base::Sub | Base::Mul | Base::Div | Base::Min | Base::Max | Base::Fmadd => {
                let nan_ok = !matches!(base, Base::Min | Base::Max);
                let bset: &Vec<T> = if nan_ok { &bounds_nan } else { &bounds };
                let int_div = !T::FLOAT && base == Base::Div;
                let fixy = |y: T| if int_div && y == T::zero() { T::one() } else { y };
                let exhaustive = T::BITS == 8 || (T::BITS == 16 && tier == Tier::Thorough && dense);
                if exhaustive {
                    // pair index p -> (p >> BITS, p & mask); lane j of register r holds pair
                    // (r + j * stride) mod N, so every pair visits every lane position
                    let vb = T::BITS as u64;
                    let npairs = 1u64 << (2 * vb);
                    let stride = if T::BITS == 8 { 2053u64 } else { 0 };
                    let full_rot = T::BITS == 8 && (!dense || tier == Tier::Thorough);
                    // registers to run: every pair at every lane (8-bit), or every pair once
                    let total_regs: u64 = if full_rot { npairs } else { npairs / l as u64 };
                    let (mut x, mut y, mut z) = (Vec::new(), Vec::new(), Vec::new());
                    let mut r = 0u64;
                    while r < total_regs {
                        if r % 4096 == 0 && d.ctx.out_of_time() {
                            break;
                        }
                        for j in 0..l as u64 {
                            let p = if full_rot {
                                (r + j * stride) % npairs
                            } else {
                                (r * l as u64 + j) % npairs
                            };
                            x.push(T::from_bits(p >> vb));
                            y.push(fixy(T::from_bits(p & ((1 << vb) - 1))));
                            if base == Base::Fmadd {
                                z.push(T::from_bits((p >> 3) ^ (p >> vb) ^ r));
                            }
                        }
                        r += 1;
                        if x.len() >= batch_lanes && x.len() % u == 0 {
                            d.go(
                                op,
                                std::mem::take(&mut x),
                                std::mem::take(&mut y),
                                std::mem::take(&mut z),
                            );
                        }
                    }
                    if !x.is_empty() {
                        pad(&mut x, u);
                        pad(&mut y, u);
                        if base == Base::Fmadd {
                            pad(&mut z, u);
                        }
                        d.go(op, x, y, z);
                    }
                } else {
                    // boundary x boundary (x boundary for fmadd: sampled), rotated over lanes
                    let nb = bset.len();
                    let (mut x, mut y, mut z) = (Vec::new(), Vec::new(), Vec::new());
                    let rots = if dense { 1 } else { l.min(tier.pick(4, 64)) };
                    for rot in 0..rots {
                        for _ in 0..rot {
                            x.push(T::one());
                            y.push(T::one());
                            if base == Base::Fmadd {
                                z.push(T::one());
                            }
                        }
                        for i in 0..nb * nb {
                            x.push(bset[i / nb]);
                            y.push(fixy(bset[i % nb]));
                            if base == Base::Fmadd {
                                z.push(bset[(i * 7 + i / nb + rot) % nb]);
                            }
                        }
                        pad(&mut x, u);
                        pad(&mut y, u);
                        if base == Base::Fmadd {
                            pad(&mut z, u);
                        }
                        d.go(
                            op,
                            std::mem::take(&mut x),
                            std::mem::take(&mut y),
                            std::mem::take(&mut z),
                        );
                    }
                    let nrand = tier.pick(40usize, 1500);
                    for i in 0..nrand {
                        if i % 64 == 0 && d.ctx.out_of_time() {
                            break;
                        }
                        let n = batch_lanes / u * u;
                        let n = n.max(u);
                        let x: Vec<T> = (0..n).map(|_| vals::mixed(&mut rng, bset, nan_ok)).collect();
                        let y: Vec<T> = (0..n)
                            .map(|_| fixy(vals::mixed(&mut rng, bset, nan_ok)))
                            .collect();
                        let z: Vec<T> = if base == Base::Fmadd {
                            (0..n).map(|_| vals::mixed(&mut rng, bset, nan_ok)).collect()
                        } else {
                            Vec::new()
                        };
                        d.go(op, x, y, z);
                    }
                    // fmadd: products that need the extra precision (fused vs unfused differ)
                    if base == Base::Fmadd && T::FLOAT {
                        let eps = if T::BITS == 32 {
                            2f64.powi(-12)
                        } else {
                            2f64.powi(-27)
                        };
                        let n = (256 / u).max(1) * u;
                        let x: Vec<T> = (0..n)
                            .map(|i| T::from_f64(1.0 + eps * (1 + i % 7) as f64))
                            .collect();
                        let y: Vec<T> = (0..n)
                            .map(|i| T::from_f64(1.0 - eps * (1 + i % 5) as f64))
                            .collect();
                        let z: Vec<T> = (0..n).map(|_| T::from_f64(-1.0)).collect();
                        d.go(op, x, y, z);
                    }
                }
                // integer division: a zero divisor in any lane must panic
                if int_div {
                    for pos in 0..u {
                        let x: Vec<T> = (0..u).map(|i| T::from_bits(i as u64 + 7)).collect();
                        let mut y: Vec<T> = vec![T::from_bits(3); u];
                        y[pos] = T::zero();
                        d.go(op, x, y, Vec::new());
                    }
                }
            }
        }
    }
    let calls = d.calls;
    let ctx = d.ctx;
    ctx.p.bump(&format!("reg:{reg}"), calls);
    ctx.p.bump(&format!("ty:{}", T::NAME), calls);
    ctx.p.bump(&format!("method:{:?}", base), calls);
}

macro_rules! add_jobs {
    ($jobs:ident, $rng:ident, $reg:expr, $evalfn:ident, $bytes:expr, $fused_float:expr, $div_tol:expr, [$($t:ty),*]) => {
        $(
            for base in BASES {
                let lanes = match $bytes { Some(b) => b / std::mem::size_of::<$t>(), None => 1usize };
                let fused = if <$t as Elem>::FLOAT { $fused_float } else { Fused::No };
                let div_tol: bool = $div_tol && <$t as Elem>::FLOAT;
                let name = format!("C13 {}<{}> {:?}", $reg, <$t as Elem>::NAME, base);
                $jobs.push(Job::new(name, $rng, move |ctx| {
                    drive::<$t>(ctx, $reg, lanes, $evalfn::<$t> as EvalFn<$t>, fused, div_tol, base)
                }));
            }
        )*
    };
}

pub fn jobs(_tier: Tier, rng: &mut Rng) -> (String, Vec<Job>) {
    let mut jobs: Vec<Job> = Vec::new();
    let nightly = cfg!(feature = "nightly");
    let none: Option<usize> = None;
    add_jobs!(
        jobs,
        rng,
        "Fallback",
        eval_fallback,
        none,
        if nightly { Fused::Either } else { Fused::No },
        nightly,
        [f32, f64, i8, i16, i32, i64, u8, u16, u32, u64]
    );
    if std::arch::is_x86_feature_detected!("avx2") {
        add_jobs!(
            jobs,
            rng,
            "Avx2",
            eval_avx2,
            Some(32usize),
            Fused::No,
            false,
            [f32, f64, i8, i16, i32, i64, u8, u16, u32, u64]
        );
        if std::arch::is_x86_feature_detected!("fma") {
            add_jobs!(
                jobs,
                rng,
                "Avx2Fma",
                eval_avx2fma,
                Some(32usize),
                Fused::Yes,
                false,
                [f32, f64]
            );
        }
    }
    #[cfg(feature = "nightly")]
    {
        if crate::elem::Backend::Avx512.host_supports() {
            add_jobs!(
                jobs,
                rng,
                "Avx512",
                eval_avx512,
                Some(64usize),
                Fused::Yes,
                false,
                [f32, f64, i8, i16, i32, i64, u8, u16, u32, u64]
            );
        }
    }
    (RULE.to_string(), jobs)
}
