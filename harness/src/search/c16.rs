//! C16 — `cfavml_utils::aligned_buffer::AlignedBuffer`.

use cfavml_utils::aligned_buffer::AlignedBuffer;

use crate::kern::{hash_str, mix};
use crate::mem::{self, Case, Ctx, Fail, Job, Tier, Verdict};
use crate::prng::Rng;

pub const RULE: &str = "case = AlignedBuffer::<T>::zeroed(len) for T of size 1,2,4,8,16,32,64 bytes (u8, u16, u32, \
u64, u128, [u64;4], [u64;8]) and every len in 0..=4096 plus a few large ones, followed by the full protocol: \
len()/as_slice().len() == len, as_slice().as_ptr() % 64 == 0, every byte zero, allocated_size() >= len and \
allocated_size()*size_of::<T>() a multiple of 64, a position pattern written through as_mut_slice is read back \
through as_slice and Deref, copy_from_slice round trip, as_mut_ptr == as_slice().as_ptr(), clone is deep (same \
len/contents/alignment, distinct storage, mutating either side — through as_mut_slice and through as_mut_ptr — leaves the other unchanged), and so is \
Clone::clone_from into targets of length 0, len/2, len, len+1, 2*len+65; the allocator block the storage lies in (harness allocator registry) \
covers allocated_size()*size_of::<T>() bytes from the view's start; a buffer filled up to its capacity through as_mut_ptr and dropped \
leaves nothing behind in the next buffer of the same chunk count. Plus, per type, lengths of 2^63 bytes and \
more (usize::MAX, usize::MAX/size_of T + k, ...): zeroed must panic or report allocated_size() >= len (no view is formed). distinct = hash set \
over (T, len); non-trivial = len > 0.";

pub trait BElem: Copy + PartialEq + std::fmt::Debug + 'static {
    const NAME: &'static str;
    fn pat(i: usize, salt: u64) -> Self;
}

macro_rules! belem_int {
    ($($t:ty),*) => {$(
        impl BElem for $t {
            const NAME: &'static str = stringify!($t);
            fn pat(i: usize, salt: u64) -> Self {
                ((i as u128 + 1).wrapping_mul(0x9E37_79B9_7F4A_7C15_0000_0001_0000_0001u128 | 1) ^ ((salt as u128) << 3)) as $t | 1
            }
        }
    )*};
}
belem_int!(u8, u16, u32, u64, u128);

impl BElem for [u64; 4] {
    const NAME: &'static str = "[u64;4]";
    fn pat(i: usize, salt: u64) -> Self {
        let b = u64::pat(i, salt);
        [b, !b, b.rotate_left(17), i as u64 + 1]
    }
}
impl BElem for [u64; 8] {
    const NAME: &'static str = "[u64;8]";
    fn pat(i: usize, salt: u64) -> Self {
        let b = u64::pat(i, salt);
        [
            b,
            !b,
            b.rotate_left(17),
            i as u64 + 1,
            b ^ 0x55,
            b.rotate_left(31),
            !b.rotate_left(3),
            7,
        ]
    }
}

#[derive(Clone)]
pub struct BCase {
    ty: &'static str,
    size: usize,
    len: usize,
    run: fn(usize) -> Verdict,
}

impl Case for BCase {
    fn routine(&self) -> String {
        format!(
            "cfavml_utils::aligned_buffer::AlignedBuffer::<{}>::zeroed",
            self.ty
        )
    }
    fn inflight(&self, w: &mut dyn std::fmt::Write) {
        let _ = write!(w, "AlignedBuffer::<{}>::zeroed({}) + protocol", self.ty, self.len);
    }
    fn call(&self) -> String {
        format!("AlignedBuffer::<{}>::zeroed({})", self.ty, self.len)
    }
    fn input_json(&self) -> String {
        crate::report::json_obj(&[
            ("type", crate::report::json_str(self.ty)),
            ("size_of", self.size.to_string()),
            ("len", self.len.to_string()),
        ])
    }
    fn hash(&self) -> u64 {
        let mut h = 0xC16u64;
        hash_str(&mut h, self.ty);
        mix(&mut h, self.len as u64);
        h
    }
    fn calls(&self) -> u64 {
        13 // zeroed, clone, 5 x (zeroed, clone_from), zeroed (plus the accessor calls on them)
    }
    fn shrink(&self) -> Vec<Self> {
        let mut v = Vec::new();
        if self.len > (1 << 40) {
            // a huge request is not shrunk: a smaller one may be big enough to exhaust memory instead of being refused
            return v;
        }
        for l in [0, self.len / 2, self.len.saturating_sub(1)] {
            if l < self.len {
                let mut c = self.clone();
                c.len = l;
                v.push(c);
            }
        }
        v.dedup_by_key(|c| c.len);
        v
    }
}

fn bad(class: &'static str, e: String, a: String) -> Verdict {
    Some(Fail {
        kind: "impl_vs_oracle",
        class,
        expected: e,
        actual: a,
        note: String::new(),
    })
}

/// which allocator block is the buffer's storage in, and does that block cover the reported capacity? (asked of the harness'
/// own allocator registry, not of the library; storage that does not come from the allocator is not judged)
fn storage_covers_capacity<X: BElem>(b: &AlignedBuffer<X>, what: &str) -> Verdict {
    let size = std::mem::size_of::<X>();
    let p0 = b.as_slice().as_ptr() as usize;
    if let Some((base, bsize)) = crate::block_containing(p0) {
        let need = (b.allocated_size() as u128) * (size as u128);
        if (p0 - base) as u128 + need > bsize as u128 {
            return bad(
                "alloc",
                format!(
                    "the allocator block behind {what} covers the reported capacity: {} * {size} = {need} bytes from the view's start",
                    b.allocated_size()
                ),
                format!("the block is {bsize} bytes long and the view starts {} bytes into it", p0 - base),
            );
        }
    }
    None
}

fn protocol<X: BElem>(len: usize) -> Verdict {
    let r = mem::catch(|| -> Verdict {
        let size = std::mem::size_of::<X>();
        let mut buf: AlignedBuffer<X> = unsafe { AlignedBuffer::<X>::zeroed(len) };
        if let Some(f) = storage_covers_capacity(&buf, "the buffer") {
            return Some(f);
        }
        if buf.len() != len {
            return bad("len", format!("len() == {len}"), format!("{}", buf.len()));
        }
        if buf.as_slice().len() != len {
            return bad(
                "len",
                format!("as_slice().len() == {len}"),
                format!("{}", buf.as_slice().len()),
            );
        }
        let p = buf.as_slice().as_ptr() as usize;
        if p % 64 != 0 {
            return bad(
                "align",
                "as_slice().as_ptr() % 64 == 0".into(),
                format!("address {p:#x} (mod 64 = {})", p % 64),
            );
        }
        let bytes = unsafe { std::slice::from_raw_parts(p as *const u8, len * size) };
        if let Some(i) = bytes.iter().position(|b| *b != 0) {
            return bad(
                "zero",
                "all bytes zero".into(),
                format!("byte {i} = {:#04x}", bytes[i]),
            );
        }
        let alloc = buf.allocated_size();
        if alloc < len {
            return bad("alloc", format!("allocated_size() >= {len}"), format!("{alloc}"));
        }
        if (alloc * size) % 64 != 0 {
            return bad(
                "alloc",
                "allocated_size()*size_of::<T>() % 64 == 0".into(),
                format!("{alloc} * {size}"),
            );
        }
        if buf.as_mut_ptr() as usize != p {
            return bad(
                "ptr",
                "as_mut_ptr() == as_slice().as_ptr()".into(),
                "different pointers".into(),
            );
        }
        // write via as_mut_slice, read via as_slice and Deref
        {
            let s = buf.as_mut_slice();
            if s.len() != len {
                return bad(
                    "len",
                    format!("as_mut_slice().len() == {len}"),
                    format!("{}", s.len()),
                );
            }
            for (i, x) in s.iter_mut().enumerate() {
                *x = X::pat(i, 1);
            }
        }
        if let Some(i) = (0..len).find(|&i| buf.as_slice()[i] != X::pat(i, 1)) {
            return bad(
                "readback",
                format!("as_slice()[{i}] == written value"),
                format!("{:?}", buf.as_slice()[i]),
            );
        }
        {
            let d: &[X] = &buf;
            if d.len() != len || (0..len).any(|i| d[i] != X::pat(i, 1)) {
                return bad(
                    "readback",
                    "Deref view equals written values".into(),
                    "differs".into(),
                );
            }
        }
        // clone is deep
        let mut cl = buf.clone();
        if let Some(f) = storage_covers_capacity(&cl, "the clone") {
            return Some(f);
        }
        let cp = cl.as_slice().as_ptr() as usize;
        if cl.len() != len || cl.allocated_size() != alloc {
            return bad(
                "clone",
                format!("clone len {len}, allocated {alloc}"),
                format!("{} / {}", cl.len(), cl.allocated_size()),
            );
        }
        if cp % 64 != 0 {
            return bad(
                "clone",
                "clone storage 64-byte aligned".into(),
                format!("address {cp:#x}"),
            );
        }
        if cp == p {
            return bad("clone", "clone has its own storage".into(), "same pointer".into());
        }
        if let Some(i) = (0..len).find(|&i| cl.as_slice()[i] != X::pat(i, 1)) {
            return bad(
                "clone",
                format!("clone[{i}] == original"),
                format!("{:?}", cl.as_slice()[i]),
            );
        }
        for (i, x) in cl.as_mut_slice().iter_mut().enumerate() {
            *x = X::pat(i, 2);
        }
        if let Some(i) = (0..len).find(|&i| buf.as_slice()[i] != X::pat(i, 1)) {
            return bad(
                "clone",
                format!("original[{i}] unchanged after mutating the clone"),
                format!("{:?}", buf.as_slice()[i]),
            );
        }
        // the same two directions through the raw pointer (`as_mut_ptr`), the write path that bypasses the slice views
        if len > 0 {
            let pc = cl.as_mut_ptr();
            for i in 0..len {
                unsafe { pc.add(i).write(X::pat(i, 7)) };
            }
            if let Some(i) = (0..len).find(|&i| buf.as_slice()[i] != X::pat(i, 1)) {
                return bad(
                    "clone",
                    format!("original[{i}] unchanged after writing the clone through as_mut_ptr()"),
                    format!("{:?}", buf.as_slice()[i]),
                );
            }
            let pb = buf.as_mut_ptr();
            for i in 0..len {
                unsafe { pb.add(i).write(X::pat(i, 8)) };
            }
            if let Some(i) = (0..len).find(|&i| cl.as_slice()[i] != X::pat(i, 7)) {
                return bad(
                    "clone",
                    format!("clone[{i}] unchanged after writing the original through as_mut_ptr()"),
                    format!("{:?}", cl.as_slice()[i]),
                );
            }
            if let Some(i) = (0..len).find(|&i| buf.as_slice()[i] != X::pat(i, 8)) {
                return bad(
                    "readback",
                    format!("as_slice()[{i}] reads what was written through as_mut_ptr()"),
                    format!("{:?}", buf.as_slice()[i]),
                );
            }
            // restore what the rest of the protocol expects
            for (i, x) in cl.as_mut_slice().iter_mut().enumerate() {
                *x = X::pat(i, 2);
            }
            for (i, x) in buf.as_mut_slice().iter_mut().enumerate() {
                *x = X::pat(i, 1);
            }
        }
        // copy_from_slice on the original, clone unchanged
        let fresh: Vec<X> = (0..len).map(|i| X::pat(i, 3)).collect();
        buf.copy_from_slice(&fresh);
        if let Some(i) = (0..len).find(|&i| buf.as_slice()[i] != X::pat(i, 3)) {
            return bad(
                "readback",
                format!("copy_from_slice then as_slice()[{i}]"),
                format!("{:?}", buf.as_slice()[i]),
            );
        }
        if let Some(i) = (0..len).find(|&i| cl.as_slice()[i] != X::pat(i, 2)) {
            return bad(
                "clone",
                format!("clone[{i}] unchanged after mutating the original"),
                format!("{:?}", cl.as_slice()[i]),
            );
        }
        // `Clone::clone_from` is the other way to obtain a clone: into targets shorter than, as long as and longer than
        // the source, the target must become an independent deep copy of the source
        let src_now: Vec<X> = buf.as_slice().to_vec();
        for tlen in [0usize, len / 2, len, len + 1, 2 * len + 65] {
            let mut t: AlignedBuffer<X> = unsafe { AlignedBuffer::<X>::zeroed(tlen) };
            for (i, x) in t.as_mut_slice().iter_mut().enumerate() {
                *x = X::pat(i, 4);
            }
            t.clone_from(&buf);
            if let Some(f) = storage_covers_capacity(&t, "the clone_from target") {
                return Some(f);
            }
            let tp = t.as_slice().as_ptr() as usize;
            if t.len() != len || t.as_slice().len() != len {
                return bad(
                    "clone",
                    format!("after zeroed({tlen}).clone_from(&source): len() == {len}"),
                    format!("len() = {}, as_slice().len() = {}", t.len(), t.as_slice().len()),
                );
            }
            if t.allocated_size() < len || (t.allocated_size() * size) % 64 != 0 {
                return bad(
                    "clone",
                    format!("after zeroed({tlen}).clone_from(&source): allocated_size() >= {len} and a whole number of chunks"),
                    format!("{}", t.allocated_size()),
                );
            }
            if tp % 64 != 0 || (len > 0 && tp == buf.as_slice().as_ptr() as usize) {
                return bad(
                    "clone",
                    format!("after zeroed({tlen}).clone_from(&source): own 64-byte aligned storage"),
                    format!("address {tp:#x}"),
                );
            }
            if let Some(i) = (0..len).find(|&i| t.as_slice()[i] != src_now[i]) {
                return bad(
                    "clone",
                    format!("after zeroed({tlen}).clone_from(&source): element {i} == source"),
                    format!("{:?}", t.as_slice()[i]),
                );
            }
            for (i, x) in t.as_mut_slice().iter_mut().enumerate() {
                *x = X::pat(i, 5);
            }
            if let Some(i) = (0..len).find(|&i| buf.as_slice()[i] != src_now[i]) {
                return bad(
                    "clone",
                    format!("source[{i}] unchanged after mutating the clone_from target"),
                    format!("{:?}", buf.as_slice()[i]),
                );
            }
        }
        // the slack between len and allocated_size() is storage of the buffer: fill it through the raw pointer, drop the buffer,
        // and a new buffer of the same chunk count but greater length must still read as zeros (no recycled contents)
        {
            let mut s1: AlignedBuffer<X> = unsafe { AlignedBuffer::<X>::zeroed(len) };
            let cap = s1.allocated_size();
            let p1 = s1.as_mut_ptr();
            for i in 0..cap {
                unsafe { p1.add(i).write(X::pat(i, 6)) };
            }
            drop(s1);
            if cap > 0 {
                let s2: AlignedBuffer<X> = unsafe { AlignedBuffer::<X>::zeroed(cap - 1) };
                let b2 = unsafe { std::slice::from_raw_parts(s2.as_slice().as_ptr() as *const u8, (cap - 1) * size) };
                if let Some(i) = b2.iter().position(|b| *b != 0) {
                    return bad(
                        "zero",
                        format!("zeroed({}) after a buffer of the same chunk count (zeroed({len}), filled up to its capacity, dropped) is all zero", cap - 1),
                        format!("byte {i} = {:#04x}", b2[i]),
                    );
                }
            }
        }
        // the slack up to allocated_size must be addressable storage owned by the buffer:
        // a second zeroed buffer must still be all zero (no aliasing with the first)
        let other: AlignedBuffer<X> = unsafe { AlignedBuffer::<X>::zeroed(len) };
        let ob = unsafe { std::slice::from_raw_parts(other.as_slice().as_ptr() as *const u8, len * size) };
        if ob.iter().any(|b| *b != 0) {
            return bad(
                "zero",
                "a fresh buffer is zeroed while others are live".into(),
                "non-zero byte".into(),
            );
        }
        None
    });
    match r {
        Ok(v) => v,
        Err(m) => Some(Fail {
            kind: "unexpected_panic",
            class: "unexpected_panic",
            expected: "no panic".into(),
            actual: format!("panic: {m}"),
            note: String::new(),
        }),
    }
}

/// lengths whose byte size cannot be allocated (>= 2^63 bytes): construction must refuse (panic) — or, if it returns,
/// the storage must still cover the length. Only `allocated_size()` is consulted: no view of such a buffer is formed.
fn huge<X: BElem>(len: usize) -> Verdict {
    let r = mem::catch(|| {
        let b: AlignedBuffer<X> = unsafe { AlignedBuffer::<X>::zeroed(len) };
        b.allocated_size()
    });
    match r {
        Err(_) => None,
        Ok(alloc) if alloc >= len => None,
        Ok(alloc) => bad(
            "alloc",
            format!("zeroed({len}) panics (the request cannot be allocated) or allocated_size() >= {len}"),
            format!("a buffer of len {len} with allocated_size() = {alloc}"),
        ),
    }
}

fn job_huge<X: BElem>(ctx: &mut Ctx) {
    let size = std::mem::size_of::<X>();
    let top = usize::MAX;
    let mut lens = vec![top, top - 1, top - 63, top / 2 + 1, (top / 2 + 1) + 5, top - top / 64];
    if size > 1 {
        // the first lengths whose byte size wraps around
        let w = top / size + 1;
        lens.extend_from_slice(&[w, w + 1, w + 64 / size, w + 64 / size + 1, 2 * w, 2 * w + 3]);
    }
    for len in lens {
        let c = BCase {
            ty: X::NAME,
            size,
            len,
            run: huge::<X>,
        };
        ctx.run_case(&c, true, &mut |c| (c.run)(c.len));
    }
    ctx.p.bump(&format!("huge:{}(size {})", X::NAME, size), 1);
}

fn job<X: BElem>(ctx: &mut Ctx, part: usize, parts: usize) {
    let size = std::mem::size_of::<X>();
    let mut lens: Vec<usize> = (0..=4096).collect();
    let mut large = vec![4097, 5000, 8191, 8192, 8193, 65_535, 65_536, 65_537, 100_003];
    if ctx.tier == Tier::Thorough {
        large.extend_from_slice(&[262_144, 1_000_003, 4_194_304]);
    }
    large.retain(|l| l * size <= (64 << 20));
    lens.extend(large);
    let mut n = 0;
    for (i, &len) in lens.iter().enumerate() {
        if i % parts != part {
            continue;
        }
        if i % 128 == 0 && ctx.out_of_time() {
            break;
        }
        let c = BCase {
            ty: X::NAME,
            size,
            len,
            run: protocol::<X>,
        };
        ctx.run_case(&c, len > 0, &mut |c| (c.run)(c.len));
        n += 1;
        if ctx.p.samples.is_empty() && len == 5 {
            ctx.p.add_sample(crate::report::json_obj(&[
                ("call", crate::report::json_str(&c.call())),
                ("input", c.input_json()),
            ]));
        }
    }
    ctx.p.bump(&format!("ty:{}(size {})", X::NAME, size), n);
}

macro_rules! add_types {
    ($jobs:ident, $rng:ident, [$($t:ty),*]) => {$(
        let parts = 3usize;
        for part in 0..parts {
            let name = format!("C16 {} part {}", <$t as BElem>::NAME, part);
            $jobs.push(Job::new(name, $rng, move |ctx| job::<$t>(ctx, part, parts)));
        }
        let name = format!("C16 {} huge lengths", <$t as BElem>::NAME);
        $jobs.push(Job::new(name, $rng, move |ctx| job_huge::<$t>(ctx)));
    )*};
}

pub fn jobs(_tier: Tier, rng: &mut Rng) -> (String, Vec<Job>) {
    let mut jobs: Vec<Job> = Vec::new();
    add_types!(jobs, rng, [u8, u16, u32, u64, u128, [u64; 4], [u64; 8]]);
    (RULE.to_string(), jobs)
}
