//! C15 — `cfavml_gemm::transpose::transpose_matrix`.

use std::fmt::Debug;

use cfavml_gemm::transpose::transpose_matrix;

use crate::kern::{hash_str, mix};
use crate::mem::{self, Arena, Case, Ctx, Fail, Job, Place, Tier, Verdict};
use crate::prng::Rng;

pub const RULE: &str = "case = transpose_matrix::<T>(width, height, data[dl], result[rl]) for T in f32, u32, i32, \
f64, u64, i64, u8, u16, u128 and a 3-byte Copy struct; data is a position-dependent pattern (unique per index \
where the type is wide enough), both buffers end-flush against a PROT_NONE page (second placement: start-flush) \
with canaries on the other side. Shapes: all of [0,40]^2 (thorough: [0,80]^2) plus skewed/large shapes (1x1000, 1000x1, 257x3, 3x257, \
64x64, 100x37, 128x128, ...). Expected when dl = rl = width*height: no panic/fault, result[i*height+j] == \
data[j*width+i], data unchanged, canaries intact, and transposing the result back with swapped dimensions \
restores data. Expected panic when dl or rl differs from width*height (each +-1 and a few other lengths) and when \
width*height overflows usize (e.g. (2^62+1) x 4 with 4-element buffers, usize::MAX x 2, 2^63 x 2 with empty \
buffers), run under a 3 s watchdog. distinct = hash set over (T, width, height, dl, rl, placement); non-trivial \
= width*height > 1 or a mismatch/overflow case.";

pub trait TElem: Copy + PartialEq + Debug + 'static {
    const NAME: &'static str;
    fn make(i: usize) -> Self;
}

macro_rules! telem_int {
    ($($t:ty),*) => {$(
        impl TElem for $t {
            const NAME: &'static str = stringify!($t);
            fn make(i: usize) -> Self {
                // unique per index up to the width of the type, never 0
                (i as u128).wrapping_mul(0x9E37_79B9_7F4A_7C15_F39C_C060_5CED_C835u128 | 1).wrapping_add(1) as $t
            }
        }
    )*};
}
telem_int!(u32, i32, u64, i64, u128);

impl TElem for u8 {
    const NAME: &'static str = "u8";
    fn make(i: usize) -> Self {
        (i % 251) as u8 + 1
    }
}
impl TElem for u16 {
    const NAME: &'static str = "u16";
    fn make(i: usize) -> Self {
        (i % 65521) as u16 + 1
    }
}
impl TElem for f32 {
    const NAME: &'static str = "f32";
    fn make(i: usize) -> Self {
        (i + 1) as f32 // exact up to 2^24
    }
}
impl TElem for f64 {
    const NAME: &'static str = "f64";
    fn make(i: usize) -> Self {
        (i + 1) as f64 + 0.5
    }
}

#[derive(Copy, Clone, PartialEq, Debug)]
pub struct P3(pub [u8; 3]);
impl TElem for P3 {
    const NAME: &'static str = "P3(3-byte struct)";
    fn make(i: usize) -> Self {
        let v = i + 1;
        P3([v as u8, (v >> 8) as u8, (v >> 16) as u8 ^ 0x5A])
    }
}

#[derive(Clone)]
pub struct TCase {
    ty: &'static str,
    w: usize,
    h: usize,
    dl: usize,
    rl: usize,
    start_flush: bool,
    run: fn(&TCase, &mut Arena, &mut Arena) -> Verdict,
}

impl TCase {
    fn product(&self) -> Option<usize> {
        self.w.checked_mul(self.h)
    }
    fn agrees(&self) -> bool {
        self.product() == Some(self.dl) && self.dl == self.rl
    }
}

impl Case for TCase {
    fn routine(&self) -> String {
        format!("cfavml_gemm::transpose::transpose_matrix::<{}>", self.ty)
    }
    fn inflight(&self, w: &mut dyn std::fmt::Write) {
        let _ = write!(
            w,
            "transpose_matrix::<{}>(width={}, height={}, data[{}], result[{}])",
            self.ty, self.w, self.h, self.dl, self.rl
        );
    }
    fn call(&self) -> String {
        let mut s = String::new();
        self.inflight(&mut s);
        s
    }
    fn input_json(&self) -> String {
        crate::report::json_obj(&[
            ("type", crate::report::json_str(self.ty)),
            ("width", format!("\"{:#x}\"", self.w)),
            ("height", format!("\"{:#x}\"", self.h)),
            ("data_len", self.dl.to_string()),
            ("result_len", self.rl.to_string()),
            (
                "data",
                "\"data[i] = T::make(i) (position pattern, see harness c15.rs)\"".to_string(),
            ),
            (
                "placement",
                format!(
                    "\"{}\"",
                    if self.start_flush {
                        "start-flush"
                    } else {
                        "end-flush"
                    }
                ),
            ),
        ])
    }
    fn hash(&self) -> u64 {
        let mut h = 0xC15u64;
        hash_str(&mut h, self.ty);
        for v in [self.w, self.h, self.dl, self.rl, self.start_flush as usize] {
            mix(&mut h, v as u64);
        }
        h
    }
    fn calls(&self) -> u64 {
        if self.agrees() {
            2
        } else {
            1
        }
    }
    fn shrink(&self) -> Vec<Self> {
        let mut out = Vec::new();
        if self.product().is_none() || self.w > 100_000 || self.h > 100_000 {
            return out; // overflow cases are already minimal (and may hang: do not multiply probes)
        }
        let agree = self.agrees();
        let mut push = |w: usize, h: usize| {
            let mut c = self.clone();
            c.w = w;
            c.h = h;
            if agree {
                c.dl = w * h;
                c.rl = w * h;
            } else {
                // keep the same offsets from the product
                let p = (self.w * self.h) as i64;
                c.dl = ((w * h) as i64 + (self.dl as i64 - p)).max(0) as usize;
                c.rl = ((w * h) as i64 + (self.rl as i64 - p)).max(0) as usize;
            }
            out.push(c);
        };
        if self.w > 1 {
            push(self.w / 2, self.h);
            push(self.w - 1, self.h);
        }
        if self.h > 1 {
            push(self.w, self.h / 2);
            push(self.w, self.h - 1);
        }
        if self.start_flush {
            let mut c = self.clone();
            c.start_flush = false;
            out.push(c);
        }
        out
    }
}

fn fail(kind: &'static str, class: &'static str, e: String, a: String, n: String) -> Verdict {
    Some(Fail {
        kind,
        class,
        expected: e,
        actual: a,
        note: n,
    })
}

fn run_case<X: TElem>(c: &TCase, ad: &mut Arena, ar: &mut Arena) -> Verdict {
    let place = if c.start_flush { Place::Start } else { Place::End };
    unsafe {
        let pd: *mut X = mem::place_elems(ad, c.dl, place);
        let pr: *mut X = mem::place_elems(ar, c.rl, place);
        for i in 0..c.dl {
            pd.add(i).write(X::make(i));
        }
        // result pre-filled with a pattern that is not a valid datum at that position
        for i in 0..c.rl {
            pr.add(i).write(X::make(i + 7919));
        }
        let data: &[X] = std::slice::from_raw_parts(pd, c.dl);
        let result: &mut [X] = std::slice::from_raw_parts_mut(pr, c.rl);
        let (w, h) = (c.w, c.h);
        let res = mem::catch(|| transpose_matrix::<X>(w, h, data, result));
        if let Some(d) = ad.check(4096).or_else(|| ar.check(4096)) {
            return fail(
                "canary",
                "canary",
                "no byte outside the buffers is written".into(),
                d,
                "out-of-bounds write detected by canary bytes".into(),
            );
        }
        let data: &[X] = std::slice::from_raw_parts(pd, c.dl);
        if let Some(i) = (0..c.dl).find(|&i| data[i] != X::make(i)) {
            return fail(
                "input_modified",
                "input_modified",
                "data unchanged".into(),
                format!("data[{i}] changed to {:?}", data[i]),
                String::new(),
            );
        }
        if !c.agrees() {
            return match res {
                Err(_) => None,
                Ok(()) => fail(
                    "missing_panic",
                    "missing_panic",
                    if c.product().is_none() {
                        "panic: width*height overflows usize".into()
                    } else {
                        "panic: a buffer length differs from width*height".into()
                    },
                    "returned normally".into(),
                    "silent computation over a different number of elements".into(),
                ),
            };
        }
        if let Err(m) = res {
            return fail(
                "unexpected_panic",
                "unexpected_panic",
                "returns normally".into(),
                format!("panic: {m}"),
                String::new(),
            );
        }
        let result: &[X] = std::slice::from_raw_parts(pr, c.rl);
        for j in 0..h {
            for i in 0..w {
                let want = X::make(j * w + i);
                let got = result[i * h + j];
                if want != got {
                    return fail(
                        "impl_vs_oracle",
                        "value",
                        format!("result[{}] == data[{}] = {:?}", i * h + j, j * w + i, want),
                        format!("result[{}] = {:?}", i * h + j, got),
                        format!("column i={i}, row j={j}"),
                    );
                }
            }
        }
        // transposing twice restores the input
        let once: Vec<X> = result.to_vec();
        let mut back: Vec<X> = vec![X::make(1); c.dl];
        let res2 = mem::catch(|| transpose_matrix::<X>(h, w, &once, &mut back));
        if let Err(m) = res2 {
            return fail(
                "unexpected_panic",
                "unexpected_panic",
                "transposing back returns normally".into(),
                format!("panic: {m}"),
                String::new(),
            );
        }
        if let Some(i) = (0..c.dl).find(|&i| back[i] != X::make(i)) {
            return fail(
                "impl_vs_oracle",
                "roundtrip",
                format!(
                    "transpose(height x width) of the result restores data[{i}] = {:?}",
                    X::make(i)
                ),
                format!("{:?}", back[i]),
                "transposing twice must restore the input".into(),
            );
        }
    }
    None
}

fn shapes(tier: Tier) -> Vec<(usize, usize)> {
    let mut v = Vec::new();
    for w in 0..=40 {
        for h in 0..=40 {
            v.push((w, h));
        }
    }
    v.extend_from_slice(&[
        (1, 1000),
        (1000, 1),
        (257, 3),
        (3, 257),
        (64, 64),
        (100, 37),
        (37, 100),
        (128, 128),
        (17, 255),
        (255, 17),
        (2, 1024),
        (1024, 2),
        (63, 65),
        (65, 63),
        (48, 80),
        (96, 41),
    ]);
    if tier == Tier::Thorough {
        for w in 0..=80 {
            for h in 0..=80 {
                if w > 40 || h > 40 {
                    v.push((w, h));
                }
            }
        }
        v.extend_from_slice(&[(256, 256), (300, 200), (1, 100_000), (100_000, 1), (513, 127)]);
    }
    v
}

fn shape_job<X: TElem>(ctx: &mut Ctx, part: usize, parts: usize) {
    let tier = ctx.tier;
    let all = shapes(tier);
    let max_elems = all.iter().map(|(w, h)| w * h).max().unwrap() + 4;
    let mut ad = Arena::new(max_elems * std::mem::size_of::<X>());
    let mut ar = Arena::new(max_elems * std::mem::size_of::<X>());
    let mut n = 0u64;
    for (idx, &(w, h)) in all.iter().enumerate() {
        if idx % parts != part {
            continue;
        }
        if idx % 64 == 0 && ctx.out_of_time() {
            break;
        }
        let p = w * h;
        let mut lens: Vec<(usize, usize)> = vec![(p, p)];
        // every kind of mismatch
        lens.push((p + 1, p));
        lens.push((p, p + 1));
        lens.push((p + 1, p + 1));
        if p > 0 {
            lens.push((p - 1, p));
            lens.push((p, p - 1));
            lens.push((p - 1, p - 1));
            lens.push((0, p));
            lens.push((p, 0));
        }
        if w != h && w > 0 && h > 0 {
            lens.push((w * w, w * w));
            lens.push((w + h, w + h));
        }
        lens.retain(|&(a, b)| a.max(b) <= max_elems);
        for (k, &(dl, rl)) in lens.iter().enumerate() {
            for start_flush in [false, true] {
                if start_flush && k > 0 && k % 3 != 0 {
                    continue;
                }
                let c = TCase {
                    ty: X::NAME,
                    w,
                    h,
                    dl,
                    rl,
                    start_flush,
                    run: run_case::<X>,
                };
                // (w+h, w+h) and (w*w, w*w) can coincide with the product: the case decides
                let nontrivial = p > 1 || !c.agrees();
                let (a1, a2) = (&mut ad, &mut ar);
                ctx.run_case(&c, nontrivial, &mut |c| (c.run)(c, a1, a2));
                n += 1;
                if ctx.p.samples.is_empty() && w == 3 && h == 2 && k == 0 {
                    ctx.p.add_sample(crate::report::json_obj(&[
                        ("call", crate::report::json_str(&c.call())),
                        ("input", c.input_json()),
                    ]));
                }
            }
        }
    }
    ctx.p.bump(&format!("ty:{}", X::NAME), n);
    ctx.p.bump("class:shape_grid_and_mismatches", n);
}

fn overflow_job<X: TElem>(ctx: &mut Ctx) {
    let mut ad = Arena::new(4096);
    let mut ar = Arena::new(4096);
    // (width, height, buffer length): the wrapped product equals the buffer length where possible
    let third = usize::MAX / 3 + 1; // 3 * third wraps to 2
    let cases: Vec<(usize, usize, usize)> = vec![
        ((1usize << 62) + 1, 4, 4),
        (4, (1usize << 62) + 1, 4),
        (usize::MAX, 2, 2),
        (2, usize::MAX, 2),
        (usize::MAX, 2, 0),
        (1usize << 63, 2, 0),
        (2, 1usize << 63, 0),
        (1usize << 32, 1usize << 32, 0),
        (third, 3, 2),
        (3, third, 2),
        ((1usize << 63) + 8, 2, 16),
        (usize::MAX, usize::MAX, 1),
    ];
    let mut n = 0;
    for (w, h, len) in cases {
        let c = TCase {
            ty: X::NAME,
            w,
            h,
            dl: len,
            rl: len,
            start_flush: false,
            run: run_case::<X>,
        };
        // a buggy release build may hang or crash here: short watchdog
        ctx.arm_watchdog(3);
        let (a1, a2) = (&mut ad, &mut ar);
        ctx.run_case(&c, true, &mut |c| (c.run)(c, a1, a2));
        ctx.arm_default_watchdog();
        n += 1;
    }
    ctx.p.bump("class:dimension_overflow", n);
    ctx.p.bump(&format!("ty:{}", X::NAME), n);
}

macro_rules! add_types {
    ($jobs:ident, $rng:ident, [$($t:ty),*]) => {$(
        let parts = 4usize;
        for part in 0..parts {
            let name = format!("C15 shapes {} part {}", <$t as TElem>::NAME, part);
            $jobs.push(Job::new(name, $rng, move |ctx| shape_job::<$t>(ctx, part, parts)));
        }
        let name = format!("C15 overflow {}", <$t as TElem>::NAME);
        $jobs.push(Job::new(name, $rng, move |ctx| overflow_job::<$t>(ctx)));
    )*};
}

pub fn jobs(_tier: Tier, rng: &mut Rng) -> (String, Vec<Job>) {
    let mut jobs: Vec<Job> = Vec::new();
    add_types!(jobs, rng, [f32, u32, i32, f64, u64, i64, u8, u16, u128, P3]);
    (RULE.to_string(), jobs)
}
