//! C06 — cosine distance.

use crate::all_elems;
use crate::elem::{hexs, Elem, Op};
use crate::kern::{Out, VecCall};
use crate::mem::{Ctx, Fail, Job, Tier, Verdict};
use crate::oracle::{check_call, CheckOpts};
use crate::prng::Rng;
use crate::search::common::*;
use crate::vals;

pub const RULE: &str = "case = cosine(a,b) through one routine (every per-backend export, xconst forms, safe \
functions under each dispatcher mask), always evaluated together with the swapped call cosine(b,a). Floats \
(finite, scaled so squared norms and their product neither overflow nor go subnormal): 0 if both norms are 0, 1 \
if exactly one is, else within 4(n+8)u of 1-dot/sqrt(|a|^2|b|^2) computed in double-double; cosine(a,b) and \
cosine(b,a) must be bit-identical. Integers: the stated wrapping formula with (x as f64).sqrt() as T, computed in \
i128 and truncated, bit-exact; the call must panic exactly when that root is 0 while neither norm is 0. Value \
classes: random, parallel / anti-parallel / orthogonal, one or both vectors zero, small integers, full-range \
(wrapping) integers, boundary values; every length 0..=2*dense+7*lane+tail. distinct = hash set over (routine, DIMS, \
mask, a, b); non-trivial = length > 0 and not both vectors zero.";

fn gen_pair<T: Elem>(rng: &mut Rng, n: usize, class: u64, bounds: &[T]) -> (Vec<T>, Vec<T>) {
    let (elo, ehi): (i32, i32) = if T::BITS == 32 { (-20, 20) } else { (-200, 200) };
    let ea = rng.range_i64(elo as i64 + 3, ehi as i64 - 3) as i32;
    let eb = rng.range_i64(elo as i64 + 3, ehi as i64 - 3) as i32;
    let mut a: Vec<T> = Vec::with_capacity(n);
    let mut b: Vec<T> = Vec::with_capacity(n);
    for i in 0..n {
        let (x, y): (T, T) = if T::FLOAT {
            match class {
                0 => (
                    vals::scaled_float(rng, ea - 2, ea + 2),
                    vals::scaled_float(rng, eb - 2, eb + 2),
                ),
                1 => (
                    vals::scaled_float(rng, elo, ehi),
                    vals::scaled_float(rng, elo, ehi),
                ),
                // parallel / anti-parallel: b = +-2^k a (exact)
                2 | 3 => {
                    let x: T = vals::scaled_float(rng, ea - 2, ea + 2);
                    let s = if class == 2 { 1.0 } else { -1.0 };
                    (x, T::from_f64(s * x.to_f64() * 2f64.powi(eb - ea)))
                }
                // orthogonal-ish: disjoint supports
                4 => {
                    if i % 2 == 0 {
                        (vals::scaled_float(rng, ea - 2, ea + 2), T::zero())
                    } else {
                        (T::zero(), vals::scaled_float(rng, eb - 2, eb + 2))
                    }
                }
                5 => (T::zero(), vals::scaled_float(rng, eb - 2, eb + 2)),
                6 => (vals::scaled_float(rng, ea - 2, ea + 2), T::from_f64(-0.0)),
                7 => (T::zero(), T::from_f64(-0.0)),
                _ => (vals::small_int::<T>(rng, 9), vals::small_int::<T>(rng, 9)),
            }
        } else {
            match class {
                0 => (vals::small_int::<T>(rng, 3), vals::small_int::<T>(rng, 3)),
                1 => (
                    vals::random_bits::<T>(rng, false),
                    vals::random_bits::<T>(rng, false),
                ),
                2 | 3 => {
                    let x = vals::small_int::<T>(rng, 5);
                    (
                        x,
                        if class == 2 || !T::SIGNED {
                            x
                        } else {
                            T::zero().w_sub(x)
                        },
                    )
                }
                4 => {
                    if i % 2 == 0 {
                        (vals::small_int::<T>(rng, 9), T::zero())
                    } else {
                        (T::zero(), vals::small_int::<T>(rng, 9))
                    }
                }
                5 => (T::zero(), vals::small_int::<T>(rng, 9)),
                6 => (vals::small_int::<T>(rng, 9), T::zero()),
                7 => (T::zero(), T::zero()),
                // sparse boundary values: norms wrap, roots may be zero
                _ => {
                    let z = |rng: &mut Rng| {
                        if rng.chance(1, 3) {
                            *rng.pick(bounds)
                        } else {
                            T::zero()
                        }
                    };
                    (z(rng), z(rng))
                }
            }
        };
        a.push(x);
        b.push(y);
    }
    (a, b)
}

const CLASSES: [&str; 9] = [
    "class:random_or_small",
    "class:wide_or_full_range",
    "class:parallel",
    "class:anti_parallel",
    "class:orthogonal",
    "class:a_zero",
    "class:b_zero",
    "class:both_zero",
    "class:small_int_or_sparse_boundary",
];

/// cosine(a,b) against the oracle, and cosine(b,a) bit-identical to it.
fn check_sym<T: Elem>(c: &VecCall<T>, run_ar: &mut crate::kern::Arenas) -> Verdict {
    if let Some(f) = check_call(c, run_ar, CheckOpts::FULL) {
        return Some(f);
    }
    let first = c.exec(run_ar).out;
    let mut sw = c.clone();
    std::mem::swap(&mut sw.a, &mut sw.b);
    let second = sw.exec(run_ar).out;
    let same = match (&first, &second) {
        (Out::Scalar(x), Out::Scalar(y)) => x.to_bits() == y.to_bits() || (x.is_nan() && y.is_nan()),
        (Out::Panic(_), Out::Panic(_)) => true,
        _ => false,
    };
    if same {
        None
    } else {
        let show = |o: &Out<T>| match o {
            Out::Scalar(v) => format!("{} ({})", v.show(), hexs(*v)),
            Out::Panic(m) => format!("panic: {m}"),
            _ => "?".into(),
        };
        Some(Fail {
            kind: "impl_vs_oracle",
            class: "asymmetric",
            expected: format!("cosine(b,a) == cosine(a,b) = {}", show(&first)),
            actual: format!("cosine(b,a) = {}", show(&second)),
            note: "cosine distance must be symmetric in its arguments bit for bit".into(),
        })
    }
}

fn one_target<T: Elem>(ctx: &mut Ctx, t: Target<T>) {
    let tier = ctx.tier;
    let bounds: Vec<T> = vals::boundaries::<T>(false);
    let pack = pack_len(&t);
    let lens: Vec<usize> = match (t.r.dims, tier) {
        (Some(d), _) => vec![d],
        (None, _) => (0..=vals::max_len(t.lane)).collect(),
    };
    let mut rng = ctx.rng.split();
    let mut run = Run::new(ctx, t, pack);
    let go = |run: &mut Run<T>, a: Vec<T>, b: Vec<T>| {
        let nontrivial =
            !a.is_empty() && (a.iter().any(|x| *x != T::zero()) || b.iter().any(|x| *x != T::zero()));
        let mut c: VecCall<T> = run.t.call().with_data(T::zero(), a, b);
        c.place = rotate_place(run.n);
        c.weight = 3;
        run.n += 1;
        run.tally.note_len(c.a.len());
        let ar = &mut run.ar;
        run.ctx.run_case(&c, nontrivial, &mut |c| check_sym(c, ar));
        if run.ctx.p.samples.is_empty() && !c.a.is_empty() && c.a.len() <= 12 {
            sample(run.ctx, &c);
        }
    };
    let reps = tier.pick(1, 12);
    for &len in &lens {
        for class in 0..9u64 {
            for _ in 0..reps {
                let (a, b) = gen_pair::<T>(&mut rng, len, class, &bounds);
                go(&mut run, a, b);
                run.tally.add(CLASSES[class as usize], 1);
            }
        }
    }
    if pack > 0 {
        let n = match (tier, t.r.safe) {
            (Tier::Quick, _) => 270,
            (Tier::Thorough, true) => 9000,
            (Tier::Thorough, false) => 63000,
        };
        for i in 0..n {
            if i % 64 == 0 && run.ctx.out_of_time() {
                break;
            }
            let class = i as u64 % 9;
            let len = if i % 3 == 0 {
                pack
            } else {
                1 + rng.usize_below(pack)
            };
            let len = t.r.dims.unwrap_or(len);
            let (a, b) = gen_pair::<T>(&mut rng, len, class, &bounds);
            go(&mut run, a, b);
            run.tally.add(CLASSES[class as usize], 1);
        }
        // integers: single-element vectors over boundary pairs (root 0 / wrap corner cases)
        if !T::FLOAT && t.r.dims.map(|d| d == 1).unwrap_or(true) {
            for &x in &bounds {
                for &y in &bounds {
                    go(&mut run, vec![x], vec![y]);
                }
            }
            run.tally.add("class:single_element_boundary_pairs", 1);
        }
    }
    run.finish();
}

pub fn jobs(_tier: Tier, rng: &mut Rng) -> (String, Vec<Job>) {
    let mut jobs = Vec::new();
    all_elems!(T => {
        let ts = targets::<T>(Forms::All, |r| r.op == Op::Cosine);
        for g in group_by_name(ts) {
            let name = format!("C06 {}", g[0].label());
            jobs.push(Job::new(name, rng, move |ctx| {
                for t in &g {
                    if ctx.out_of_time() {
                        break;
                    }
                    one_target::<T>(ctx, *t);
                }
            }));
        }
    });
    (RULE.to_string(), jobs)
}
