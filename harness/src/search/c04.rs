//! C04 — f32/f64 sum / dot / squared_norm / squared_euclidean within the gamma(n+3) bound.

use crate::elem::{Elem, Kind, Op};
use crate::float_elems;
use crate::mem::{Ctx, Job, Tier};
use crate::prng::Rng;
use crate::search::common::*;
use crate::vals;

pub const RULE: &str = "case = one call of an f32/f64 sum/dot/squared_norm/squared_euclidean routine (every \
per-backend export, xconst forms, safe functions under each dispatcher mask) on finite inputs scaled so that no \
partial sum overflows and no product underflows (|x| = 0 or in [2^-30,2^30] for f32, [2^-200,2^200] for f64); \
reference = double-double accumulation of exact products (for squared_euclidean of the once-rounded differences); \
check |result-exact| <= gamma(n+3)*sum|terms|; when all data are small integers (every product and partial sum \
exactly representable), small integer multiples of a subnormal unit (2^-149 / 2^-1074 for sums, 2^-74 / 2^-537 \
for the product operations: every term and partial sum is an exactly representable subnormal-range value) or at most one \
term is non-zero (one-hot vectors at every index) the result must equal \
the exact value. Value classes: uniform-exponent random, wide-exponent random, same-sign, cancelling, small \
integers, subnormal integers, one-hot, sparse; plus nineteen lengths between 128 and 10007 (the usual embedding sizes, neighbours of powers of two) (exact data, uniform data, one-hot first/middle/last). distinct = hash set over (routine, DIMS, mask, a, b); non-trivial = length > 0 and \
some term non-zero.";

fn erange<T: Elem>() -> (i32, i32) {
    if T::BITS == 32 {
        (-30, 30)
    } else {
        (-200, 200)
    }
}

fn gen_vec<T: Elem>(rng: &mut Rng, n: usize, class: u64, op: Op) -> (Vec<T>, Vec<T>) {
    let (lo, hi) = erange::<T>();
    let mut a = Vec::with_capacity(n);
    let mut b = Vec::with_capacity(n);
    // integer magnitude such that n * max|term| stays exactly representable
    let limit: f64 = if T::BITS == 32 {
        16777216.0
    } else {
        9007199254740992.0
    };
    let mut m: i64 = 64;
    let term = |m: i64| -> f64 {
        match op {
            Op::Sum => m as f64,
            Op::SquaredEuclidean => (2 * m * 2 * m) as f64,
            _ => (m * m) as f64,
        }
    };
    while m > 1 && term(m) * n.max(1) as f64 > limit {
        m /= 2;
    }
    let e0 = rng.range_i64(lo as i64 + 4, hi as i64 - 4) as i32;
    for _ in 0..n {
        let (x, y): (T, T) = match class {
            // uniform exponent
            0 => (
                vals::scaled_float(rng, e0 - 2, e0 + 2),
                vals::scaled_float(rng, e0 - 2, e0 + 2),
            ),
            // wide exponent range
            1 => (vals::scaled_float(rng, lo, hi), vals::scaled_float(rng, lo, hi)),
            // same sign (no cancellation)
            2 => {
                let x: T = vals::scaled_float(rng, -8, 8);
                let y: T = vals::scaled_float(rng, -8, 8);
                (T::from_f64(x.to_f64().abs()), T::from_f64(y.to_f64().abs()))
            }
            // heavy cancellation: values near +-2^k
            3 => {
                let s = if rng.chance(1, 2) { 1.0 } else { -1.0 };
                let x = T::from_f64(s * (1024.0 + rng.below(64) as f64 / 64.0));
                let y = T::from_f64(1.0 + rng.below(16) as f64 / 1024.0);
                (x, y)
            }
            // small integers: exact arithmetic
            4 => (vals::small_int::<T>(rng, m), vals::small_int::<T>(rng, m)),
            // small integers in units of the smallest subnormal (terms: k * 2^-149 / k * 2^-1074 and their small
            // multiples): exact arithmetic in the gradual-underflow range
            6 => {
                let sc = crate::oracle::subnormal_scale::<T>(op);
                let k = |rng: &mut Rng| -> T { T::from_f64(vals::small_int::<T>(rng, m).to_f64() * sc) };
                (k(rng), k(rng))
            }
            // sparse: mostly zeros (both signs of zero)
            _ => {
                let z = |rng: &mut Rng| -> T {
                    if rng.chance(1, 8) {
                        vals::scaled_float(rng, -10, 10)
                    } else if rng.chance(1, 2) {
                        T::zero()
                    } else {
                        T::from_f64(-0.0)
                    }
                };
                (z(rng), z(rng))
            }
        };
        a.push(x);
        b.push(y);
    }
    (a, b)
}

const CLASSES: [&str; 7] = [
    "class:uniform_exponent",
    "class:wide_exponent",
    "class:same_sign",
    "class:cancelling",
    "class:small_integers_exact",
    "class:sparse_signed_zeros",
    "class:subnormal_integers_exact",
];

fn one_target<T: Elem>(ctx: &mut Ctx, t: Target<T>) {
    let tier = ctx.tier;
    let two = t.r.kind() == Kind::Reduce2;
    let pack = pack_len(&t);
    let lens: Vec<usize> = match (t.r.dims, tier) {
        (Some(d), _) => vec![d],
        (None, _) => (0..=vals::max_len(t.lane)).collect(),
    };
    let mut rng = ctx.rng.split();
    let mut run = Run::new(ctx, t, pack);
    let op = t.r.op;

    let reps = tier.pick(1, 16);
    for &len in &lens {
        for class in 0..7u64 {
            for _ in 0..reps {
                let (a, b) = gen_vec::<T>(&mut rng, len, class, op);
                run.go(T::zero(), a, if two { b } else { Vec::new() });
                run.tally.add(CLASSES[class as usize], 1);
            }
        }
    }
    // lengths far beyond the register geometry (thresholds of blocked code paths): exact small-integer data, uniform data,
    // and one-hot vectors marking the first, a middle and the last element
    if t.r.dims.is_none() {
        for &len in vals::LARGE_LENGTHS.iter() {
            if run.ctx.out_of_time() {
                break;
            }
            for class in [4u64, 0, 2] {
                let (a, b) = gen_vec::<T>(&mut rng, len, class, op);
                run.go(T::zero(), a, if two { b } else { Vec::new() });
            }
            for k in [0, len / 2, len - 1] {
                let mut a = vec![T::zero(); len];
                a[k] = T::from_f64(3.0);
                let b = if two {
                    // dense second operand whose marked element differs from the first operand's
                    (0..len).map(|i| T::from_f64(if i == k { 5.0 } else { 2.0 })).collect()
                } else {
                    Vec::new()
                };
                run.go(T::zero(), a, b);
            }
        }
        run.tally.add("class:large_lengths", 1);
    }
    if pack > 0 {
        // one-hot at every index: the result is that single term rounded once
        let nvals = tier.pick(1, 8);
        let (lo, hi) = erange::<T>();
        for k in 0..pack {
            if k % 64 == 0 && run.ctx.out_of_time() {
                break;
            }
            for _ in 0..nvals {
                let mut a = vec![T::zero(); pack];
                a[k] = vals::scaled_float(&mut rng, lo, hi);
                let b = if two {
                    if op == Op::Dot {
                        // dense second operand: only the marked product is non-zero
                        (0..pack).map(|_| vals::scaled_float(&mut rng, -8, 8)).collect()
                    } else {
                        let mut b = vec![T::zero(); pack];
                        if rng.chance(1, 2) {
                            b[k] = vals::scaled_float(&mut rng, lo, hi);
                        }
                        b
                    }
                } else {
                    Vec::new()
                };
                run.go(T::zero(), a, b);
            }
        }
        run.tally.add("class:one_hot_sweeps", 1);
        let n = match (tier, t.r.safe) {
            (Tier::Quick, _) => 240,
            (Tier::Thorough, true) => 6000,
            (Tier::Thorough, false) => 42000,
        };
        for i in 0..n {
            if i % 64 == 0 && run.ctx.out_of_time() {
                break;
            }
            let class = i as u64 % 7;
            let (a, b) = gen_vec::<T>(&mut rng, pack, class, op);
            run.go(T::zero(), a, if two { b } else { Vec::new() });
            run.tally.add(CLASSES[class as usize], 1);
        }
    }
    run.finish();
}

pub fn jobs(_tier: Tier, rng: &mut Rng) -> (String, Vec<Job>) {
    let mut jobs = Vec::new();
    float_elems!(T => {
        let ts = targets::<T>(Forms::All, |r| r.op.is_sum_like());
        for g in group_by_name(ts) {
            let name = format!("C04 {}", g[0].label());
            jobs.push(Job::new(name, rng, move |ctx| {
                for t in &g {
                    if ctx.out_of_time() {
                        break;
                    }
                    one_target::<T>(ctx, *t);
                }
            }));
        }
    });
    (RULE.to_string(), jobs)
}
