//! Shared scaffolding of the kernel searches: target enumeration (routine × dispatcher mask),
//! histogram tallies, and call helpers.

use crate::elem::{dispatch_masks, mask_name, mask_register_bytes, Backend, Elem, Kind, Routine};
use crate::kern::{Arenas, VecCall};
use crate::mem::{Ctx, Place, Tier};
use crate::oracle::{check_call, CheckOpts};
use crate::vals;

/// A routine together with the dispatcher state it is exercised under.
#[derive(Clone, Copy)]
pub struct Target<T: Elem> {
    pub r: Routine<T>,
    pub mask: Option<u8>,
    /// Elements per register of the backend that ends up running.
    pub lane: usize,
}

impl<T: Elem> Target<T> {
    pub fn label(&self) -> String {
        if self.r.safe {
            format!("{}@{}", self.r.display(), mask_name(self.mask))
        } else {
            self.r.display()
        }
    }
    pub fn backend_label(&self) -> String {
        if self.r.safe {
            format!("backend:safe@{}", mask_name(self.mask))
        } else {
            format!("backend:{}", self.r.backend.name())
        }
    }
    pub fn call(&self) -> VecCall<T> {
        VecCall::new(self.r, self.mask)
    }
}

#[derive(Clone, Copy, PartialEq, Eq)]
pub enum Forms {
    /// Per-backend exports only.
    Exports,
    /// Safe public functions only.
    Safe,
    All,
}

/// Every routine of `T` accepted by `filter`, safe ones once per dispatcher mask.
pub fn targets<T: Elem>(forms: Forms, filter: impl Fn(&Routine<T>) -> bool) -> Vec<Target<T>> {
    let mut out = Vec::new();
    let masks = dispatch_masks();
    for r in T::all_routines() {
        if !filter(&r) {
            continue;
        }
        if r.safe {
            if forms == Forms::Exports {
                continue;
            }
            for (m, _) in &masks {
                let lane = vals::lanes::<T>(mask_register_bytes(*m));
                out.push(Target {
                    r,
                    mask: Some(*m),
                    lane,
                });
            }
        } else {
            if forms == Forms::Safe {
                continue;
            }
            debug_assert!(r.backend != Backend::Dispatch);
            let lane = vals::lanes::<T>(r.backend.register_bytes());
            out.push(Target { r, mask: None, lane });
        }
    }
    out
}

/// Groups targets that differ only in DIMS (same name, same mask) so that one job covers them.
pub fn group_by_name<T: Elem>(ts: Vec<Target<T>>) -> Vec<Vec<Target<T>>> {
    let mut groups: Vec<Vec<Target<T>>> = Vec::new();
    for t in ts {
        if let Some(g) = groups
            .iter_mut()
            .find(|g| g[0].r.name == t.r.name && g[0].mask == t.mask)
        {
            g.push(t);
        } else {
            groups.push(vec![t]);
        }
    }
    groups
}

/// Cheap per-job counters, flushed into the histogram at the end of the job.
pub struct Tally {
    calls: u64,
    len_buckets: [u64; 6],
    extra: Vec<(String, u64)>,
}

impl Tally {
    pub fn new() -> Tally {
        Tally {
            calls: 0,
            len_buckets: [0; 6],
            extra: Vec::new(),
        }
    }
    #[inline]
    pub fn note_len(&mut self, n: usize) {
        self.calls += 1;
        let b = match n {
            0 => 0,
            1..=7 => 1,
            8..=63 => 2,
            64..=511 => 3,
            512..=4095 => 4,
            _ => 5,
        };
        self.len_buckets[b] += 1;
    }
    pub fn add(&mut self, key: &str, n: u64) {
        if let Some(e) = self.extra.iter_mut().find(|e| e.0 == key) {
            e.1 += n;
        } else {
            self.extra.push((key.to_string(), n));
        }
    }
    pub fn flush<T: Elem>(&mut self, ctx: &mut Ctx, t: &Target<T>) {
        const NAMES: [&str; 6] = [
            "len:0",
            "len:1-7",
            "len:8-63",
            "len:64-511",
            "len:512-4095",
            "len:4096+",
        ];
        for (i, n) in self.len_buckets.iter().enumerate() {
            if *n > 0 {
                ctx.p.bump(NAMES[i], *n);
            }
        }
        if self.calls > 0 {
            ctx.p.bump(&format!("ty:{}", T::NAME), self.calls);
            ctx.p.bump(&format!("op:{}", t.r.op.name()), self.calls);
            ctx.p.bump(&t.backend_label(), self.calls);
            let form = match (t.r.safe, t.r.dims.is_some()) {
                (false, false) => "form:export_xany",
                (false, true) => "form:export_xconst",
                (true, false) => "form:safe_xany",
                (true, true) => "form:safe_xconst",
            };
            ctx.p.bump(form, self.calls);
        }
        for (k, n) in self.extra.drain(..) {
            ctx.p.bump(&k, n);
        }
        *self = Tally::new();
    }
}

/// Runs one vector-kernel case through the oracle check.
pub fn run_vec<T: Elem>(
    ctx: &mut Ctx,
    ar: &mut Arenas,
    tally: &mut Tally,
    call: &VecCall<T>,
    opts: CheckOpts,
) {
    tally.note_len(call.a.len());
    let nontrivial = !call.a.is_empty();
    ctx.run_case(call, nontrivial, &mut |c| check_call(c, ar, opts));
    if ctx.p.samples.is_empty() && !call.a.is_empty() && call.a.len() <= 12 {
        sample(ctx, call);
    }
}

pub fn sample<T: Elem>(ctx: &mut Ctx, call: &VecCall<T>) {
    use crate::mem::Case;
    let s = crate::report::json_obj(&[
        ("call", crate::report::json_str(&call.call())),
        ("input", call.input_json()),
    ]);
    ctx.p.add_sample(s);
}

/// The lengths a target is exercised at: `[DIMS]` for const forms, otherwise a smart subset
/// of `0..=2 dense + 7 lanes + tail`.
pub fn target_lengths<T: Elem>(t: &Target<T>) -> Vec<usize> {
    match t.r.dims {
        Some(d) => vec![d],
        // plus three lengths beyond any block-size threshold a kernel might switch on
        None => vals::smart_lengths(t.lane, &[2047, 2049, 4099]),
    }
}

/// Length used to pack value streams into calls: covers the dense loop twice, the register
/// loop and the scalar tail.
pub fn pack_len<T: Elem>(t: &Target<T>) -> usize {
    t.r.dims.unwrap_or_else(|| vals::max_len(t.lane))
}

/// Placements rotated through by the value-oriented searches (all flush against a guard page).
pub fn rotate_place(i: u64) -> [Place; 3] {
    match i % 3 {
        0 => [Place::End; 3],
        1 => [Place::Start, Place::End, Place::Start],
        _ => [Place::End, Place::Start, Place::End],
    }
}

pub fn kind_uses_b(k: Kind) -> bool {
    matches!(k, Kind::Reduce2 | Kind::Map2)
}

// ------------------------------------------------------------------------------------------
// Value sweep shared by C02 (arithmetic) and C05 (vertical / by-value max and min)
// ------------------------------------------------------------------------------------------

fn divisor_fix<T: Elem>(t: &Target<T>, y: T) -> T {
    if !T::FLOAT && t.r.op.is_div() && y == T::zero() {
        T::one()
    } else {
        y
    }
}

pub struct Run<'a, T: Elem> {
    pub ctx: &'a mut Ctx,
    pub ar: Arenas,
    pub tally: Tally,
    pub t: Target<T>,
    pub n: u64,
    pub opts: CheckOpts,
}

impl<'a, T: Elem> Run<'a, T> {
    pub fn new(ctx: &'a mut Ctx, t: Target<T>, max_elems: usize) -> Run<'a, T> {
        Run {
            ctx,
            ar: Arenas::new(max_elems.max(1024) * std::mem::size_of::<T>()),
            tally: Tally::new(),
            t,
            n: 0,
            opts: CheckOpts::FULL,
        }
    }

    /// One call with all lengths equal to `a.len()`, placement rotating over the guard-flush
    /// variants.
    pub fn go(&mut self, value: T, a: Vec<T>, b: Vec<T>) {
        let mut c: VecCall<T> = self.t.call().with_data(value, a, b);
        c.place = rotate_place(self.n);
        self.n += 1;
        run_vec(self.ctx, &mut self.ar, &mut self.tally, &c, self.opts);
    }

    pub fn finish(self) {
        let Run {
            ctx, mut tally, t, ..
        } = self;
        tally.flush(ctx, &t);
    }
}

/// Value sweep for a map kernel (Map2 / Map1V): lengths, zero divisors, operand-pair streams.
pub fn map_sweep<T: Elem>(ctx: &mut Ctx, t: Target<T>, nan: bool) {
    let tier = ctx.tier;
    let is_vec = t.r.kind() == Kind::Map2;
    let int_div = !T::FLOAT && t.r.op.is_div();
    let bounds: Vec<T> = vals::boundaries::<T>(nan);
    let lens = target_lengths(&t);
    let pack = pack_len(&t);
    let mut rng = ctx.rng.split();
    let mut run = Run::new(ctx, t, pack.max(4096));

    // (a) every interesting length, mixed values
    let reps = tier.pick(2, 6);
    for &len in &lens {
        for _ in 0..reps {
            let a: Vec<T> = (0..len).map(|_| vals::mixed(&mut rng, &bounds, nan)).collect();
            let b: Vec<T> = if is_vec {
                (0..len)
                    .map(|_| divisor_fix(&t, vals::mixed(&mut rng, &bounds, nan)))
                    .collect()
            } else {
                Vec::new()
            };
            let v = divisor_fix(&t, vals::mixed(&mut rng, &bounds, nan));
            run.go(v, a, b);
        }
    }

    // (b) integer division by zero: the call must panic iff a processed divisor is zero
    if int_div {
        let mut zl: Vec<usize> = match t.r.dims {
            Some(d) => vec![d],
            None => vec![
                0,
                1,
                2,
                t.lane,
                t.lane + 1,
                8 * t.lane,
                8 * t.lane + t.lane + 1,
                pack,
            ],
        };
        zl.sort_unstable();
        zl.dedup();
        for &len in &zl {
            let a: Vec<T> = (0..len).map(|_| vals::mixed(&mut rng, &bounds, false)).collect();
            if is_vec {
                let mut poss = vec![0, len / 2, len.saturating_sub(1)];
                poss.dedup();
                for pos in poss {
                    if pos >= len {
                        continue;
                    }
                    let mut b: Vec<T> = (0..len)
                        .map(|_| divisor_fix(&t, vals::mixed(&mut rng, &bounds, false)))
                        .collect();
                    b[pos] = T::zero();
                    run.go(T::one(), a.clone(), b);
                    run.tally.add("class:zero_divisor", 1);
                }
            } else {
                run.go(T::zero(), a.clone(), Vec::new());
                run.tally.add("class:zero_divisor", 1);
            }
        }
    }

    // (c) operand-pair streams
    let exhaustive = T::BITS == 8 || (T::BITS == 16 && tier == Tier::Thorough && !t.r.safe && pack >= 32);
    if pack > 0 {
        if exhaustive {
            let vb = T::BITS as u64;
            let nvals = 1u64 << vb;
            let shifts: Vec<usize> = if T::BITS == 8 {
                (0..tier.pick(2, t.lane.clamp(2, 64))).collect()
            } else {
                vec![0]
            };
            if is_vec {
                let chunk = if T::BITS == 8 { pack } else { pack.max(4096) };
                for &shift in &shifts {
                    let total = nvals * nvals;
                    let mut i = 0u64;
                    let mut first = true;
                    while i < total {
                        if run.ctx.out_of_time() {
                            break;
                        }
                        let mut a = Vec::with_capacity(chunk);
                        let mut b = Vec::with_capacity(chunk);
                        if first {
                            for _ in 0..shift.min(chunk.saturating_sub(1)) {
                                a.push(T::one());
                                b.push(T::one());
                            }
                            first = false;
                        }
                        while a.len() < chunk && i < total {
                            a.push(T::from_bits(i >> vb));
                            b.push(divisor_fix(&t, T::from_bits(i & (nvals - 1))));
                            i += 1;
                        }
                        // const forms need exactly DIMS elements: pad the last chunk
                        if t.r.dims.is_some() {
                            while a.len() < chunk {
                                a.push(T::one());
                                b.push(T::one());
                            }
                        }
                        run.go(T::one(), a, b);
                    }
                    run.tally.add("class:exhaustive_pair_sweeps", 1);
                }
            } else {
                // scalar operand v against every x, at shifted positions
                for &shift in &shifts {
                    for vi in 0..nvals {
                        if vi % 256 == 0 && run.ctx.out_of_time() {
                            break;
                        }
                        let v = T::from_bits(vi);
                        if int_div && v == T::zero() {
                            continue;
                        }
                        let chunk = match t.r.dims {
                            Some(d) => d,
                            None if T::BITS == 8 => pack.max(256 + shift),
                            None => pack.max(4096),
                        };
                        let lead = shift.min(chunk - 1);
                        let fresh = (chunk - lead) as u64;
                        let mut x = 0u64;
                        while x < nvals {
                            let mut a = Vec::with_capacity(chunk);
                            for _ in 0..lead {
                                a.push(T::one());
                            }
                            for k in 0..fresh {
                                a.push(T::from_bits((x + k) % nvals));
                            }
                            x += fresh;
                            run.go(v, a, Vec::new());
                        }
                    }
                    run.tally.add("class:exhaustive_pair_sweeps", 1);
                }
            }
        } else {
            // boundary x boundary, then random pairs
            let nb = bounds.len();
            let nrandom: u64 = match (tier, t.r.safe) {
                (Tier::Quick, _) => 60_000,
                (Tier::Thorough, true) => 200_000,
                (Tier::Thorough, false) => 1_500_000,
            };
            if is_vec {
                let mut a = Vec::with_capacity(pack);
                let mut b = Vec::with_capacity(pack);
                let total = (nb * nb) as u64 + nrandom;
                let mut i = 0u64;
                while i < total {
                    if run.ctx.out_of_time() {
                        break;
                    }
                    let (x, y) = if (i as usize) < nb * nb {
                        (bounds[i as usize / nb], bounds[i as usize % nb])
                    } else {
                        (
                            vals::mixed(&mut rng, &bounds, nan),
                            vals::mixed(&mut rng, &bounds, nan),
                        )
                    };
                    a.push(x);
                    b.push(divisor_fix(&t, y));
                    i += 1;
                    if a.len() == pack || i == total {
                        while t.r.dims.is_some() && a.len() < pack {
                            a.push(T::one());
                            b.push(T::one());
                        }
                        run.go(T::one(), std::mem::take(&mut a), std::mem::take(&mut b));
                    }
                }
                run.tally.add("class:boundary_cross_product", 1);
            } else {
                let nv = nb as u64 + nrandom / pack.max(16) as u64;
                for vi in 0..nv {
                    if run.ctx.out_of_time() {
                        break;
                    }
                    let v = if (vi as usize) < nb {
                        bounds[vi as usize]
                    } else {
                        vals::mixed(&mut rng, &bounds, nan)
                    };
                    if int_div && v == T::zero() {
                        continue;
                    }
                    // every boundary value first (rotated so positions vary), then random fill
                    let mut a: Vec<T> = Vec::with_capacity(pack);
                    let rot = vi as usize % nb;
                    for k in 0..pack {
                        if k < nb {
                            a.push(bounds[(k + rot) % nb]);
                        } else {
                            a.push(vals::mixed(&mut rng, &bounds, nan));
                        }
                    }
                    run.go(v, a, Vec::new());
                }
                run.tally.add("class:boundary_cross_product", 1);
            }
        }
    }
    run.finish();
}
