//! C12 — xconst forms agree with the xany routine of the same name.

use crate::all_elems;
use crate::elem::{hexs, Elem, Kind, Op, Routine};
use crate::kern::{Arenas, Out, VecCall};
use crate::mem::{Ctx, Fail, Job, Tier, Verdict};
use crate::oracle::{expected, unit_roundoff, Expect};
use crate::prng::Rng;
use crate::search::common::*;
use crate::vals;

pub const RULE: &str = "case = one xconst routine (safe functions under each dispatcher mask always; per-backend \
exports when built with feature xconst) at one DIMS of XCONST_DIMS, called with slices of exactly DIMS elements, \
together with the xany routine of the same name (xconst -> xany) on the same inputs. Outcomes must be \
bit-identical (floats included; NaN matches NaN; for max/min either zero is accepted as in C05) with identical \
panic behaviour; on nightly builds float \
reductions / cosine / float division may differ by twice the C04 / C06 / C02 tolerance and are then fed \
well-scaled finite data. Value classes: mixed boundary/random without NaN, the same with NaNs (floats, default math), small integers, scaled finite floats, \
integer division with a zero divisor at a chosen index (both must panic), full-range integers for cosine. \
distinct = hash set over (routine, DIMS, mask, value, a, b); non-trivial = DIMS > 0.";

fn show<T: Elem>(o: &Out<T>) -> String {
    crate::oracle::show_out(o)
}

fn check<T: Elem>(c: &VecCall<T>, partner: &Routine<T>, ar: &mut Arenas) -> Verdict {
    let e1 = c.exec(ar);
    let mut c2 = c.clone();
    c2.r = *partner;
    let e2 = c2.exec(ar);
    for e in [&e1, &e2] {
        if let Some(d) = e.canary.as_ref().or(e.input_changed.as_ref()) {
            return Some(Fail {
                kind: "canary",
                class: "canary",
                expected: "no out-of-bounds write, inputs unchanged".into(),
                actual: d.clone(),
                note: String::new(),
            });
        }
    }
    let nightly = cfg!(feature = "nightly");
    let op = c.r.op;
    let n = c.a.len();
    let mismatch: Option<String> = match (&e1.out, &e2.out) {
        (Out::Panic(_), Out::Panic(_)) => None,
        (Out::Scalar(x), Out::Scalar(y)) => {
            // max/min: +0 and -0 compare equal, either zero is a correct extreme (C05)
            let zeros = T::FLOAT && op.is_minmax() && x == y;
            if x.to_bits() == y.to_bits() || (x.is_nan() && y.is_nan()) || zeros {
                None
            } else if nightly && T::FLOAT && (op.is_sum_like() || op == Op::Cosine) {
                let tol = match expected(c) {
                    Expect::ScalarTol { bound, .. } => 2.0 * bound,
                    _ => 0.0,
                };
                let tol = if op == Op::Cosine {
                    tol.max(8.0 * (n as f64 + 8.0) * unit_roundoff::<T>())
                } else {
                    tol
                };
                if (x.to_f64() - y.to_f64()).abs() <= tol {
                    None
                } else {
                    Some(format!(
                        "{} vs {} (tolerance {:e})",
                        show(&e1.out),
                        show(&e2.out),
                        tol
                    ))
                }
            } else {
                Some(format!("{} vs {}", show(&e1.out), show(&e2.out)))
            }
        }
        (Out::Vector(x), Out::Vector(y)) => {
            if x.len() != y.len() {
                Some("result lengths differ".into())
            } else {
                (0..x.len())
                    .find(|&i| {
                        let (p, q) = (x[i], y[i]);
                        let same = p.to_bits() == q.to_bits()
                            || (p.is_nan() && q.is_nan())
                            || (T::FLOAT && op.is_minmax() && p == q);
                        let close = nightly
                            && T::FLOAT
                            && op.is_div()
                            && !p.is_nan()
                            && !q.is_nan()
                            && (p.ulp_key() - q.ulp_key()).abs() <= 4;
                        !(same || close)
                    })
                    .map(|i| {
                        format!(
                            "result[{i}] = {} ({}) vs {} ({})",
                            x[i].show(),
                            hexs(x[i]),
                            y[i].show(),
                            hexs(y[i])
                        )
                    })
            }
        }
        (a, b) => Some(format!("{} vs {}", show(a), show(b))),
    };
    mismatch.map(|d| Fail {
        kind: "xconst_vs_xany",
        class: "differs",
        expected: format!(
            "{} and {} agree bit for bit (same panic behaviour)",
            c.r.display(),
            partner.name
        ),
        actual: d,
        note: "first outcome is the xconst form, second the xany form".into(),
    })
}

fn one_target<T: Elem>(ctx: &mut Ctx, t: Target<T>, partner: Routine<T>) {
    let tier = ctx.tier;
    let dims = t.r.dims.unwrap();
    let bounds: Vec<T> = vals::boundaries::<T>(false);
    let mut rng = ctx.rng.split();
    let mut run = Run::new(ctx, t, dims.max(64));
    let op = t.r.op;
    let int_div = !T::FLOAT && op.is_div();
    let two = kind_uses_b(t.r.kind());
    let nightly_float_red =
        cfg!(feature = "nightly") && T::FLOAT && (op.is_sum_like() || op == Op::Cosine || op.is_div());
    let reps = if dims == 0 { 1 } else { tier.pick(100, 6000) };
    for rep in 0..reps {
        if rep % 32 == 0 && run.ctx.out_of_time() {
            break;
        }
        // floats (outside the nightly tolerance cases) get a fifth class with NaNs: the two forms must agree on where a NaN
        // comes out (e.g. x86 `maxps` returns its second operand when either is NaN, so the operand order shows)
        let class = if T::FLOAT && !nightly_float_red { rep % 5 } else { rep % 4 };
        let gen = |rng: &mut Rng, divisor: bool| -> T {
            let v: T = if nightly_float_red {
                if class == 1 {
                    vals::small_int::<T>(rng, 9)
                } else {
                    vals::scaled_float(rng, -12, 12)
                }
            } else {
                match class {
                    0 | 3 => vals::mixed(rng, &bounds, false),
                    4 => vals::mixed(rng, &bounds, true),
                    1 => vals::small_int::<T>(rng, 9),
                    _ => {
                        if T::FLOAT {
                            vals::scaled_float(rng, -12, 12)
                        } else {
                            vals::random_bits::<T>(rng, false)
                        }
                    }
                }
            };
            if divisor && int_div && v == T::zero() {
                T::one()
            } else {
                v
            }
        };
        let a: Vec<T> = (0..dims).map(|_| gen(&mut rng, false)).collect();
        let mut b: Vec<T> = if two {
            (0..dims).map(|_| gen(&mut rng, true)).collect()
        } else {
            Vec::new()
        };
        let mut v = gen(&mut rng, true);
        // the NaN class really contains NaNs: about one element in eight, and the scalar operand in a third of its cases
        let mut a = a;
        if T::FLOAT && !nightly_float_red && class == 4 {
            for x in a.iter_mut() {
                if rng.chance(1, 8) {
                    *x = T::from_f64(f64::NAN);
                }
            }
            if (rep / 5) % 3 == 1 {
                v = T::from_f64(f64::NAN);
            }
        }
        // panic behaviour: integer division by zero somewhere
        if int_div && class == 3 && dims > 0 {
            if t.r.kind() == Kind::Map2 {
                let k = rng.usize_below(dims);
                b[k] = T::zero();
            } else {
                v = T::zero();
            }
            run.tally.add("class:zero_divisor", 1);
        }
        let mut c: VecCall<T> = t.call().with_data(v, a, b);
        c.weight = 2;
        run.tally.note_len(dims);
        let ar = &mut run.ar;
        run.ctx.run_case(&c, dims > 0, &mut |c| check(c, &partner, ar));
        if run.ctx.p.samples.is_empty() && dims > 0 && dims <= 8 {
            sample(run.ctx, &c);
        }
    }
    run.finish();
}

pub fn jobs(_tier: Tier, rng: &mut Rng) -> (String, Vec<Job>) {
    let mut jobs = Vec::new();
    all_elems!(T => {
        let all = T::all_routines();
        let ts = targets::<T>(Forms::All, |r| r.dims.is_some());
        for g in group_by_name(ts) {
            let want = g[0].r.xany_name();
            let partner = all.iter().find(|r| r.name == want && r.safe == g[0].r.safe && r.dims.is_none()).cloned();
            let name = format!("C12 {}", g[0].label());
            jobs.push(Job::new(name, rng, move |ctx| {
                let Some(partner) = partner else {
                    ctx.p.internal_errors.push(format!("no xany partner for {}", g[0].r.name));
                    return;
                };
                for t in &g {
                    if ctx.out_of_time() {
                        break;
                    }
                    one_target::<T>(ctx, *t, partner);
                }
            }));
        }
    });
    (RULE.to_string(), jobs)
}
