//! C01 — the safe API never reads/writes outside its slices; mismatching lengths / DIMS panic.

use crate::all_elems;
use crate::elem::{Elem, Kind};
use crate::kern::{place_salt, VecCall};
use crate::mem::{Ctx, Job, Place, Tier};
use crate::oracle::{check_call, CheckOpts};
use crate::prng::Rng;
use crate::search::common::*;
use crate::tables::XCONST_DIMS;
use crate::vals;

pub const RULE: &str = "case = one call of a safe function (every *_SAFE_XANY and *_SAFE_XCONST entry, each DIMS \
of XCONST_DIMS) under one forced dispatcher mask, with slice lengths (a, b, result) drawn from the full grid over \
{0,1,7,8,9,16,31,33,64,131} (plus DIMS for const forms; the thorough tier adds {2,15,17,32,63,65,128,300}), \
every slice end-flush against a PROT_NONE page and, in a second placement, start-flush after one, canaries on the \
other side. Expected: all lengths (and DIMS) agree -> no panic, no fault, canaries intact, inputs unchanged, \
result equals the oracle (float reductions: value not checked here); any disagreement -> the call panics (a \
normal return is a silent computation). distinct = hash set over (routine, DIMS, mask, lengths, placement, \
values); non-trivial = not all lengths zero.";

const GRID: [usize; 10] = [0, 1, 7, 8, 9, 16, 31, 33, 64, 131];
const GRID_EXTRA: [usize; 8] = [2, 15, 17, 32, 63, 65, 128, 300];

fn one_target<T: Elem>(ctx: &mut Ctx, t: Target<T>) {
    let tier = ctx.tier;
    let mut grid: Vec<usize> = GRID.to_vec();
    if tier == Tier::Thorough {
        grid.extend_from_slice(&GRID_EXTRA);
    }
    if let Some(d) = t.r.dims {
        grid.push(d);
        // neighbours of DIMS catch off-by-one acceptance
        grid.push(d + 1);
        if d > 0 {
            grid.push(d - 1);
        }
    }
    grid.sort_unstable();
    grid.dedup();
    let maxlen = *grid.last().unwrap();
    let mut rng = ctx.rng.split();
    // data pools (values: small non-zero for integers so division is defined)
    let gen = |rng: &mut Rng| -> T {
        if T::FLOAT {
            vals::scaled_float(rng, -4, 4)
        } else {
            vals::nonzero(rng, |r| vals::small_int::<T>(r, 5))
        }
    };
    let pool_a: Vec<T> = (0..maxlen).map(|_| gen(&mut rng)).collect();
    let pool_b: Vec<T> = (0..maxlen).map(|_| gen(&mut rng)).collect();
    let value = gen(&mut rng);
    let mut run = Run::new(ctx, t, maxlen);
    run.opts = CheckOpts {
        values: true,
        skip_float_reductions: true,
        panics_ok: false,
    };
    let kind = t.r.kind();
    let one = [0usize];
    let lb_grid: &[usize] = if kind_uses_b(kind) { &grid } else { &one };
    let lr_grid: &[usize] = if matches!(kind, Kind::Map2 | Kind::Map1V) {
        &grid
    } else {
        &one
    };
    let places = [[Place::End; 3], [Place::Start; 3]];
    let mut n = 0u64;
    for &la in &grid {
        for &lb in lb_grid {
            if run.ctx.out_of_time() {
                break;
            }
            for &lr in lr_grid {
                for place in places {
                    let mut c: VecCall<T> = t.call();
                    c.value = value;
                    c.a = pool_a[..la].to_vec();
                    c.b = pool_b[..lb].to_vec();
                    c.res_len = lr;
                    c.place = place;
                    c.salt = place_salt(&place);
                    let agree = c.lengths_agree();
                    run.tally.note_len(la);
                    run.tally.add(
                        if agree {
                            "class:lengths_agree"
                        } else {
                            "class:mismatch"
                        },
                        1,
                    );
                    let nontrivial = la + lb + lr > 0;
                    let (ar, opts) = (&mut run.ar, run.opts);
                    run.ctx.run_case(&c, nontrivial, &mut |c| check_call(c, ar, opts));
                    n += 1;
                    if n == 7 && !agree {
                        sample(run.ctx, &c);
                    }
                }
            }
        }
    }
    let _ = XCONST_DIMS;
    run.finish();
}

pub fn jobs(_tier: Tier, rng: &mut Rng) -> (String, Vec<Job>) {
    let mut jobs = Vec::new();
    all_elems!(T => {
        let ts = targets::<T>(Forms::Safe, |_| true);
        for g in group_by_name(ts) {
            let name = format!("C01 {}", g[0].label());
            jobs.push(Job::new(name, rng, move |ctx| {
                for t in &g {
                    if ctx.out_of_time() {
                        break;
                    }
                    one_target::<T>(ctx, *t);
                }
            }));
        }
    });
    (RULE.to_string(), jobs)
}
