//! cfavml-harness: differential-testing ("oracle search") harness for CFAVML.
//!
//! `cfavml-harness search <PROP> --tier quick|thorough --seed <u64> --out <path.json>`
//! `cfavml-harness emit ...` (filled in elsewhere)

#![allow(clippy::all)]
#![allow(dead_code)]

#[path = "gen/tables.rs"]
pub mod tables;

pub mod elem;
pub mod emit;
mod emit_safe;
mod emit_abuf;
pub mod kern;
pub mod mem;
pub mod oracle;
pub mod pool;
pub mod prng;
pub mod report;
pub mod search;
pub mod vals;

pub use emit::main_emit;

use std::time::Instant;

fn usage() -> i32 {
    eprintln!(
        "usage:\n  cfavml-harness search <PROP> --tier quick|thorough --seed <u64> --out <path.json>\n  \
         cfavml-harness list\n  cfavml-harness emit ...\n\nPROP: {}",
        search::PROPERTIES.join(" ")
    );
    2
}

fn main_search(args: &[String]) -> i32 {
    let mut prop: Option<String> = None;
    let mut tier = mem::Tier::Quick;
    let mut seed: u64 = 1;
    let mut out: Option<String> = None;
    let mut workers: Option<usize> = None;
    let mut budget: Option<u64> = None;
    let mut i = 0;
    while i < args.len() {
        let a = args[i].as_str();
        let mut val = || -> Option<&String> {
            i += 1;
            args.get(i)
        };
        match a {
            "--tier" => match val().map(|s| s.as_str()) {
                Some("quick") => tier = mem::Tier::Quick,
                Some("thorough") => tier = mem::Tier::Thorough,
                _ => return usage(),
            },
            "--seed" => match val().and_then(|s| s.parse::<u64>().ok()) {
                Some(s) => seed = s,
                None => return usage(),
            },
            "--out" => match val() {
                Some(s) => out = Some(s.clone()),
                None => return usage(),
            },
            "--workers" => match val().and_then(|s| s.parse::<usize>().ok()) {
                Some(s) if s > 0 => workers = Some(s),
                _ => return usage(),
            },
            "--budget-secs" => match val().and_then(|s| s.parse::<u64>().ok()) {
                Some(s) if s > 0 => budget = Some(s),
                _ => return usage(),
            },
            s if s.starts_with("--") => return usage(),
            s => {
                if prop.is_some() {
                    return usage();
                }
                prop = Some(s.to_uppercase());
            },
        }
        i += 1;
    }
    let (Some(prop), Some(out)) = (prop, out) else { return usage() };
    if !search::PROPERTIES.contains(&prop.as_str()) {
        eprintln!("unknown property {prop}");
        return usage();
    }
    let mut cfg = mem::RunCfg::for_tier(tier);
    if let Some(w) = workers {
        cfg.workers = w;
    }
    if let Some(b) = budget {
        cfg.budget = std::time::Duration::from_secs(b);
    }
    let start = Instant::now();
    let mut rng = prng::Rng::new(seed);
    let Some((rule, body)) = search::run(&prop, &cfg, &mut rng) else {
        return usage();
    };
    let rep = report::Report {
        property: prop.clone(),
        tier: tier.name().to_string(),
        seed,
        rule,
        elapsed_ms: start.elapsed().as_millis() as u64,
        body,
    };
    let json = rep.to_json();
    if let Err(e) = std::fs::write(&out, &json) {
        eprintln!("cannot write {out}: {e}");
        return 2;
    }
    eprintln!(
        "{} {} seed={} evaluations={} distinct_nontrivial={} violations={} elapsed={:.1}s -> {}",
        prop,
        tier.name(),
        seed,
        rep.body.evaluations,
        rep.body.distinct,
        rep.body.violations.len(),
        start.elapsed().as_secs_f64(),
        out
    );
    if !rep.body.internal_errors.is_empty() {
        for e in &rep.body.internal_errors {
            eprintln!("internal error: {e}");
        }
        return 2;
    }
    0
}

/// Counting allocator: lets a search see whether a library call allocated (property C14).
pub struct Counting;
pub static ALLOC_CALLS: std::sync::atomic::AtomicU64 = std::sync::atomic::AtomicU64::new(0);
unsafe impl std::alloc::GlobalAlloc for Counting {
    unsafe fn alloc(&self, l: std::alloc::Layout) -> *mut u8 {
        ALLOC_CALLS.fetch_add(1, std::sync::atomic::Ordering::Relaxed);
        std::alloc::System.alloc(l)
    }
    unsafe fn dealloc(&self, p: *mut u8, l: std::alloc::Layout) {
        std::alloc::System.dealloc(p, l)
    }
    unsafe fn alloc_zeroed(&self, l: std::alloc::Layout) -> *mut u8 {
        ALLOC_CALLS.fetch_add(1, std::sync::atomic::Ordering::Relaxed);
        std::alloc::System.alloc_zeroed(l)
    }
    unsafe fn realloc(&self, p: *mut u8, l: std::alloc::Layout, n: usize) -> *mut u8 {
        ALLOC_CALLS.fetch_add(1, std::sync::atomic::Ordering::Relaxed);
        std::alloc::System.realloc(p, l, n)
    }
}
#[global_allocator]
static GLOBAL: Counting = Counting;
pub fn alloc_calls() -> u64 {
    ALLOC_CALLS.load(std::sync::atomic::Ordering::Relaxed)
}

fn main() {
    let args: Vec<String> = std::env::args().skip(1).collect();
    let code = match args.first().map(|s| s.as_str()) {
        Some("search") => main_search(&args[1..]),
        Some("emit") => main_emit(&args[1..]),
        Some("abufs") => emit_abuf::main_abufs(&args[1..]),
        Some("pool") => pool::main_pool(&args[1..]),
        Some("list") => {
            println!("{}", search::PROPERTIES.join(" "));
            println!("exports in tables: {}", tables::EXPORT_META.len());
            0
        },
        _ => usage(),
    };
    std::process::exit(code);
}
