#[path = "gen/tables.rs"]
pub mod tables;
fn main() {
    println!("{} exports", tables::EXPORT_META.len());
}
