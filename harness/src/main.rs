//! cfavml-harness: differential-testing ("oracle search") harness for CFAVML.
//!
//! `cfavml-harness search <PROP> --tier quick|thorough --seed <u64> --out <path.json>`
//! `cfavml-harness emit ...` (filled in elsewhere)

#![allow(clippy::all)]
#![allow(dead_code)]

#[path = "gen/tables.rs"]
pub mod tables;

pub mod elem;
pub mod emit;
mod emit_safe;
mod emit_abuf;
pub mod kern;
pub mod mem;
pub mod oracle;
pub mod pool;
pub mod prng;
pub mod report;
pub mod search;
pub mod vals;

pub use emit::main_emit;

use std::time::Instant;

fn usage() -> i32 {
    eprintln!(
        "usage:\n  cfavml-harness search <PROP> --tier quick|thorough --seed <u64> --out <path.json>\n  \
         cfavml-harness list\n  cfavml-harness emit ...\n\nPROP: {}",
        search::PROPERTIES.join(" ")
    );
    2
}

fn main_search(args: &[String]) -> i32 {
    let mut prop: Option<String> = None;
    let mut tier = mem::Tier::Quick;
    let mut seed: u64 = 1;
    let mut out: Option<String> = None;
    let mut workers: Option<usize> = None;
    let mut budget: Option<u64> = None;
    let mut i = 0;
    while i < args.len() {
        let a = args[i].as_str();
        let mut val = || -> Option<&String> {
            i += 1;
            args.get(i)
        };
        match a {
            "--tier" => match val().map(|s| s.as_str()) {
                Some("quick") => tier = mem::Tier::Quick,
                Some("thorough") => tier = mem::Tier::Thorough,
                _ => return usage(),
            },
            "--seed" => match val().and_then(|s| s.parse::<u64>().ok()) {
                Some(s) => seed = s,
                None => return usage(),
            },
            "--out" => match val() {
                Some(s) => out = Some(s.clone()),
                None => return usage(),
            },
            "--workers" => match val().and_then(|s| s.parse::<usize>().ok()) {
                Some(s) if s > 0 => workers = Some(s),
                _ => return usage(),
            },
            "--budget-secs" => match val().and_then(|s| s.parse::<u64>().ok()) {
                Some(s) if s > 0 => budget = Some(s),
                _ => return usage(),
            },
            s if s.starts_with("--") => return usage(),
            s => {
                if prop.is_some() {
                    return usage();
                }
                prop = Some(s.to_uppercase());
            },
        }
        i += 1;
    }
    let (Some(prop), Some(out)) = (prop, out) else { return usage() };
    if !search::PROPERTIES.contains(&prop.as_str()) {
        eprintln!("unknown property {prop}");
        return usage();
    }
    let mut cfg = mem::RunCfg::for_tier(tier);
    if let Some(w) = workers {
        cfg.workers = w;
    }
    if let Some(b) = budget {
        cfg.budget = std::time::Duration::from_secs(b);
    }
    let start = Instant::now();
    let mut rng = prng::Rng::new(seed);
    let Some((rule, body)) = search::run(&prop, &cfg, &mut rng) else {
        return usage();
    };
    let rep = report::Report {
        property: prop.clone(),
        tier: tier.name().to_string(),
        seed,
        rule,
        elapsed_ms: start.elapsed().as_millis() as u64,
        body,
    };
    let json = rep.to_json();
    if let Err(e) = std::fs::write(&out, &json) {
        eprintln!("cannot write {out}: {e}");
        return 2;
    }
    eprintln!(
        "{} {} seed={} evaluations={} distinct_nontrivial={} violations={} elapsed={:.1}s -> {}",
        prop,
        tier.name(),
        seed,
        rep.body.evaluations,
        rep.body.distinct,
        rep.body.violations.len(),
        start.elapsed().as_secs_f64(),
        out
    );
    if !rep.body.internal_errors.is_empty() {
        for e in &rep.body.internal_errors {
            eprintln!("internal error: {e}");
        }
        return 2;
    }
    0
}

/// Counting allocator: lets a search see whether a library call allocated (property C14).
pub struct Counting;
pub static ALLOC_CALLS: std::sync::atomic::AtomicU64 = std::sync::atomic::AtomicU64::new(0);
thread_local! {
    /// bytes requested from the allocator by this thread (sum of the layout sizes of `alloc` / `alloc_zeroed` / growth by `realloc`)
    static ALLOC_BYTES: std::cell::Cell<u64> = const { std::cell::Cell::new(0) };
}
/// live allocator blocks of alignment >= 64 (the aligned buffers' storage): (address, size) pairs in a fixed table, so that a
/// probe can ask which block a pointer lies in without trusting the library's own bookkeeping
const BLOCK_SLOTS: usize = 4096;
static BLOCK_ADDR: [std::sync::atomic::AtomicUsize; BLOCK_SLOTS] = [const { std::sync::atomic::AtomicUsize::new(0) }; BLOCK_SLOTS];
static BLOCK_SIZE: [std::sync::atomic::AtomicUsize; BLOCK_SLOTS] = [const { std::sync::atomic::AtomicUsize::new(0) }; BLOCK_SLOTS];
fn block_insert(p: *mut u8, l: std::alloc::Layout) {
    if p.is_null() || l.align() < 64 {
        return;
    }
    use std::sync::atomic::Ordering::SeqCst;
    let start = (p as usize >> 6) % BLOCK_SLOTS;
    for k in 0..BLOCK_SLOTS {
        let i = (start + k) % BLOCK_SLOTS;
        if BLOCK_ADDR[i].compare_exchange(0, p as usize, SeqCst, SeqCst).is_ok() {
            BLOCK_SIZE[i].store(l.size(), SeqCst);
            return;
        }
    }
}
fn block_remove(p: *mut u8, l: std::alloc::Layout) {
    if p.is_null() || l.align() < 64 {
        return;
    }
    use std::sync::atomic::Ordering::SeqCst;
    let start = (p as usize >> 6) % BLOCK_SLOTS;
    for k in 0..BLOCK_SLOTS {
        let i = (start + k) % BLOCK_SLOTS;
        if BLOCK_ADDR[i].load(SeqCst) == p as usize {
            BLOCK_SIZE[i].store(0, SeqCst);
            BLOCK_ADDR[i].store(0, SeqCst);
            return;
        }
    }
}
/// the live allocator block (alignment >= 64) that contains address `p`: `(base, size)`
pub fn block_containing(p: usize) -> Option<(usize, usize)> {
    use std::sync::atomic::Ordering::SeqCst;
    for i in 0..BLOCK_SLOTS {
        let b = BLOCK_ADDR[i].load(SeqCst);
        let s = BLOCK_SIZE[i].load(SeqCst);
        if b != 0 && b <= p && p < b + s.max(1) {
            return Some((b, s));
        }
    }
    None
}
fn note_bytes(n: usize) {
    let _ = ALLOC_BYTES.try_with(|c| c.set(c.get().wrapping_add(n as u64)));
}
/// bytes this thread has requested from the allocator so far
pub fn alloc_bytes() -> u64 {
    ALLOC_BYTES.try_with(|c| c.get()).unwrap_or(0)
}
unsafe impl std::alloc::GlobalAlloc for Counting {
    unsafe fn alloc(&self, l: std::alloc::Layout) -> *mut u8 {
        ALLOC_CALLS.fetch_add(1, std::sync::atomic::Ordering::Relaxed);
        note_bytes(l.size());
        let p = std::alloc::System.alloc(l);
        block_insert(p, l);
        p
    }
    unsafe fn dealloc(&self, p: *mut u8, l: std::alloc::Layout) {
        block_remove(p, l);
        std::alloc::System.dealloc(p, l)
    }
    unsafe fn alloc_zeroed(&self, l: std::alloc::Layout) -> *mut u8 {
        ALLOC_CALLS.fetch_add(1, std::sync::atomic::Ordering::Relaxed);
        note_bytes(l.size());
        let p = std::alloc::System.alloc_zeroed(l);
        block_insert(p, l);
        p
    }
    unsafe fn realloc(&self, p: *mut u8, l: std::alloc::Layout, n: usize) -> *mut u8 {
        ALLOC_CALLS.fetch_add(1, std::sync::atomic::Ordering::Relaxed);
        block_remove(p, l);
        let q = std::alloc::System.realloc(p, l, n);
        if q.is_null() {
            block_insert(p, l);
        } else {
            block_insert(q, std::alloc::Layout::from_size_align_unchecked(n, l.align()));
        }
        q
    }
}
#[global_allocator]
static GLOBAL: Counting = Counting;
pub fn alloc_calls() -> u64 {
    ALLOC_CALLS.load(std::sync::atomic::Ordering::Relaxed)
}

fn main() {
    let args: Vec<String> = std::env::args().skip(1).collect();
    let code = match args.first().map(|s| s.as_str()) {
        Some("search") => main_search(&args[1..]),
        Some("emit") => main_emit(&args[1..]),
        Some("abufs") => emit_abuf::main_abufs(&args[1..]),
        Some("pool") => pool::main_pool(&args[1..]),
        Some("list") => {
            println!("{}", search::PROPERTIES.join(" "));
            println!("exports in tables: {}", tables::EXPORT_META.len());
            0
        },
        _ => usage(),
    };
    std::process::exit(code);
}
