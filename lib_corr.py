"""Correspondence: run the Lean driver on the requests the harness emitted and diff the answers."""
import re, subprocess, json, os

FLOAT_W = {"f32": 32, "f64": 64}

def is_nan(bits, w):
    if w == 32:
        return (bits & 0x7f800000) == 0x7f800000 and (bits & 0x007fffff) != 0
    return (bits & 0x7ff0000000000000) == 0x7ff0000000000000 and (bits & 0x000fffffffffffff) != 0

def canon(answer, ty, method):
    """canonicalise an answer line: NaNs -> 'nan'; for max/min-like methods the sign of zero is unspecified"""
    if not answer.startswith("ok ") or ty not in FLOAT_W:
        return answer
    w = FLOAT_W[ty]
    body = answer[3:]
    if body in ("true", "false", "-"):
        return answer
    zero_sign_free = ("max" in method) or ("min" in method)
    out = []
    for t in body.split(","):
        try:
            v = int(t, 16)
        except ValueError:
            return answer
        if is_nan(v, w):
            out.append("nan")
        elif zero_sign_free and v == (1 << (w - 1)):
            out.append("0")
        else:
            out.append("%x" % v)
    return "ok " + ",".join(out)

def ordered(v, w):
    """map float bits to a monotone integer line"""
    sign = v >> (w - 1)
    mag = v & ((1 << (w - 1)) - 1)
    return -mag if sign else mag

def within_ulps(a, b, ty, ulps):
    """both canonical answers; every element within `ulps` units in the last place (NaN must match NaN)"""
    if not (a.startswith("ok ") and b.startswith("ok ")):
        return a == b
    xs, ys = a[3:].split(","), b[3:].split(",")
    if len(xs) != len(ys):
        return False
    w = FLOAT_W[ty]
    for x, y in zip(xs, ys):
        if x == y:
            continue
        if x == "nan" or y == "nan" or x == "-" or y == "-":
            return False
        if abs(ordered(int(x, 16), w) - ordered(int(y, 16), w)) > ulps:
            return False
    return True

def shrink_abufs(driver, exe, request):
    """delta-debug an `abufs` operation sequence on which model and implementation disagree: drop operations while
    they still disagree (every sequence is a valid input of both)"""
    toks = request.split(" ")
    if len(toks) != 3 or not exe:
        return None
    size, ops = toks[1], toks[2].split(";")

    def differ(ops):
        if not ops:
            return None
        req = "abufs %s %s" % (size, ";".join(ops))
        try:
            m = subprocess.run([driver], input=req + "\n", stdout=subprocess.PIPE, text=True, timeout=60).stdout.strip()
            i = subprocess.run([exe, "abufs", size, ";".join(ops)], stdout=subprocess.PIPE, stderr=subprocess.DEVNULL, text=True, timeout=60).stdout.strip()
        except Exception:
            return None
        return (req, i, m) if (m != i and m.startswith("ok") and i.startswith("ok")) else None

    best = differ(ops)
    if not best:
        return None
    n = 2
    steps = 0
    while len(ops) >= 2 and steps < 400:
        chunk = max(1, len(ops) // n)
        reduced = False
        for start in range(0, len(ops), chunk):
            cand = ops[:start] + ops[start + chunk:]
            steps += 1
            d = differ(cand)
            if d:
                ops, best, reduced = cand, d, True
                n = max(n - 1, 2)
                break
        if not reduced:
            if chunk == 1:
                break
            n = min(len(ops), n * 2)
    return {"request": best[0], "implementation": best[1], "model": best[2], "shrink_steps": steps}


def run(driver, case_file, max_report=10, exe=None):
    reqs, exps = [], []
    for line in open(case_file):
        line = line.rstrip("\n")
        if not line:
            continue
        r, _, e = line.partition("\t")
        reqs.append(r)
        exps.append(e)
    p = subprocess.run([driver], input="\n".join(reqs) + "\n", stdout=subprocess.PIPE, stderr=subprocess.PIPE, text=True, timeout=3000)
    outs = p.stdout.split("\n")
    disagreements = []
    hist = {}
    n = 0
    nightly = False
    for k, (r, e) in enumerate(zip(reqs, exps)):
        got = outs[k] if k < len(outs) else "<no answer>"
        toks = r.split(" ")
        if toks[0] == "env":
            nightly = len(toks) > 3 and toks[3] == "1"
            continue
        n += 1
        ty = toks[2] if len(toks) > 2 else ""
        method = toks[3] if len(toks) > 3 else ""
        if toks[0] == "safe" and len(toks) > 1:
            # safe <ty>_xany_<op…> <c|a> <DIMS> <mask> …
            ty = toks[1].split("_")[0]
            method = toks[1].split("_xany_")[-1]
        key = "%s/%s/%s" % (toks[0], toks[1] if len(toks) > 1 else "", method)
        if toks[0] == "safe" and len(toks) > 4:
            key = "safe/%s/%s/mask%s" % (method, "xconst" if toks[2] == "c" else "xany", toks[4])
        hist[key] = hist.get(key, 0) + 1
        cg, ce = canon(got, ty, method), canon(e, ty, method)
        same = cg == ce
        # nightly fast-math: `fdiv_algebraic` may deviate by at most 2 ulp (property C02 / C18)
        if not same and nightly and ty in FLOAT_W and "div" in method:
            same = within_ulps(cg, ce, ty, 2)
        if not same:
            if len(disagreements) < max_report:
                disagreements.append({"request": r[:2000], "implementation": e[:1000], "model": got[:1000]})
            else:
                disagreements.append(None)
    for d in disagreements[:2]:
        if d and d["request"].startswith("abufs "):
            # the stored request may be truncated: shrink from the full line
            full = next((r for r in reqs if r.startswith(d["request"][:1990])), d["request"])
            sm = shrink_abufs(driver, exe, full)
            if sm:
                d["minimised"] = sm
    return {"cases": n, "disagreements": [d for d in disagreements if d], "n_disagreements": len(disagreements),
            "histogram": hist, "driver_rc": p.returncode, "driver_stderr": p.stderr[-300:],
            "samples": [{"request": reqs[i][:300], "answer": exps[i][:200]} for i in range(1, min(len(reqs), 400), 97)][:4]}
