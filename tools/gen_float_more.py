#!/usr/bin/env python3
"""Writes lean/CfavmlModel/Thm/FloatMore.lean: the remaining C04 instances for the eight real float backends
(6 x86 + 2 NEON): squared-norm and squared-Euclidean bounds, and the exactness clause (integer-valued data within 2^p,
e.g. one-hot vectors: every element counted exactly once). Proof text only."""
import os
OUT = os.path.join(os.path.dirname(__file__), "..", "lean", "CfavmlModel", "Thm", "FloatMore.lean")
NS = [
    # ns, T, bits, unfused, L, hd, tree, perm, sumBackend
    ("Avx2_f32","F32",32,True,8,3,"t8","t8_perm","X86Float.Avx2_f32.sumBackend"),
    ("Avx2Fma_f32","F32",32,False,8,3,"t8","t8_perm","X86Float.Avx2Fma_f32.sumBackend"),
    ("Avx512_f32","F32",32,False,16,4,"(halvingTree 4 4 0)","h16_perm","X86Float.Avx512_f32.sumBackend"),
    ("Avx2_f64","F64",64,True,4,2,"t4","t4_perm","X86Float.Avx2_f64.sumBackend"),
    ("Avx2Fma_f64","F64",64,False,4,2,"t4","t4_perm","X86Float.Avx2Fma_f64.sumBackend"),
    ("Avx512_f64","F64",64,False,8,3,"(halvingTree 3 3 0)","h8_perm","X86Float.Avx512_f64.sumBackend"),
    ("Neon_f32","F32",32,False,4,2,"C13Neon.tN4","C13Neon.tN4_perm","C13Neon.Neon_f32.sumBackend"),
    ("Neon_f64","F64",64,False,2,1,"C13Neon.tN2","C13Neon.tN2_perm","C13Neon.Neon_f64.sumBackend"),
]
o = '''/-
GENERATED TEXT (/verif/tools/gen_float_more.py). C04 on the eight real float backends, remaining instances:
squared norm and squared Euclidean distance within `γ(n+3)·Σ|terms|`, and exactness — for finite integer-valued data with
`Σ|aᵢbᵢ| ≤ P` the dot product is finite and exactly `Σ aᵢbᵢ` (so a one-hot marker at any index of any length is counted
exactly once), fused or not, whatever the fold tree.
-/
import CfavmlModel.Thm.X86Float
import CfavmlModel.Thm.NeonFloat

namespace Cfavml.Thm.FloatMore
open Cfavml.Thm KernelModel FloatReduce Rounding

'''
for ns,T,bits,unfused,L,hd,tree,perm,sb in NS:
    t=T.lower(); spec=f"({t}Spec E false)"
    fm = f"(fun x y acc => {spec}.add ({spec}.mul x y) acc)" if unfused else f"E.F.fma{bits}"
    loc = f"(fun f g h => FTree.eval_congr _ f g _ (fun k hk => h k (by have := ({perm}.mem_iff).mp hk; simpa using this)))"
    o += f'''/-- **C04 on `{ns}`: squared norm and squared Euclidean distance** -/
theorem {ns}_norm_euclid_bounds (E : Env) (hn : E.feat_nightly = false) (F : FloatSem {spec} {fm})
    (a b : Slice {T}) (hb : b.size = a.size) (hfuel : a.size < E.fuel) (hk : ((a.size + 3 : ℕ) : ℝ) * F.u < 1)
    (hnua : ∀ i, F.NoUf (a.get i) (a.get i))
    (hnud : ∀ i, F.NoUf ({spec}.sub (a.get i) (b.get i)) ({spec}.sub (a.get i) (b.get i))) :
    (∃ v, generic_squared_norm E ({ns}.inst E) (AutoMath_{t} E) a.size a = pure v ∧
      (F.Fin v → |F.val v - ((List.range a.size).map (fun i => F.val (a.get i) * F.val (a.get i))).sum|
        ≤ gamma F.u (a.size + 3) * ((List.range a.size).map (fun i => |F.val (a.get i) * F.val (a.get i)|)).sum))
    ∧ (∃ v, generic_euclidean E ({ns}.inst E) (AutoMath_{t} E) a.size a b = pure v ∧
      (F.Fin v → |F.val v - ((List.range a.size).map (fun i =>
            F.val ({spec}.sub (a.get i) (b.get i)) * F.val ({spec}.sub (a.get i) (b.get i)))).sum|
        ≤ gamma F.u (a.size + 3) * ((List.range a.size).map (fun i =>
            |F.val ({spec}.sub (a.get i) (b.get i)) * F.val ({spec}.sub (a.get i) (b.get i))|)).sum)) := by
  have SM : SumMath (AutoMath_{t} E) {spec} := by
    have := C18.auto_{t} E
    rw [hn] at this
    exact SumMath.of this
  have hloc : FoldLocal {L} (fun f => {tree}.eval E.F.add{bits} f) := {loc}
  have HF := ftree_sem F {tree} {L} {hd} {perm} (by decide)
  exact ⟨C04.squared_norm_bound ({sb} E) SM F HF hloc (by decide) (by decide) a.size hfuel hk a rfl hnua,
    C04.euclidean_bound ({sb} E) SM F HF hloc (by decide) (by decide) a.size hfuel hk a b rfl hb hnud⟩

/-- **C04 on `{ns}`: exactness** -/
theorem {ns}_dot_exact (E : Env) (hn : E.feat_nightly = false) (X : ExactSem {spec} {fm})
    (a b : Slice {T}) (hb : b.size = a.size) (hfuel : a.size < E.fuel)
    (hin : ∀ i, X.Fin (a.get i) ∧ X.Fin (b.get i) ∧ IsInt (X.val (a.get i)) ∧ IsInt (X.val (b.get i)))
    (hP : ((List.range a.size).map (fun i => |X.val (a.get i) * X.val (b.get i)|)).sum ≤ X.P) :
    ∃ v, generic_dot_product E ({ns}.inst E) (AutoMath_{t} E) a.size a b = pure v ∧ X.Fin v
      ∧ X.val v = ((List.range a.size).map (fun i => X.val (a.get i) * X.val (b.get i))).sum := by
  have SM : SumMath (AutoMath_{t} E) {spec} := by
    have := C18.auto_{t} E
    rw [hn] at this
    exact SumMath.of this
  have hloc : FoldLocal {L} (fun f => {tree}.eval E.F.add{bits} f) := {loc}
  exact C04.dot_product_exact' ({sb} E) SM X (ftree_shape {tree} {L} {hd} {perm} (by decide)) hloc (by decide) a.size hfuel a b rfl hb hin
    (fun f g h => ftree_relX X a.get b.get hin {tree} f g (fun k hk => h k (by have := ({perm}.mem_iff).mp hk; simpa using this))) hP

'''
o += "end Cfavml.Thm.FloatMore\n"
open(OUT,"w").write(o)
print("wrote", os.path.normpath(OUT))
