#!/usr/bin/env python3
"""Writes lean/CfavmlModel/Thm/C01Float.lean: C01 end to end for the eight real float backends (6 x86 + 2 NEON), whose
register max/min are not the scalar ones (so `ArithFaithful` does not hold and `Thm/C01Total`'s generic instances do not
apply): every wrapper macro × kernel, arbitrary lengths and DIMS → panic or value. Proof text only."""
import os
OUT = os.path.join(os.path.dirname(__file__), "..", "lean", "CfavmlModel", "Thm", "C01Float.lean")
NS = [
    ("Avx2_f32","F32","f32",8,"X86FloatMap","X86FloatExt","X86Float.Avx2_f32.sumBackend","t8","t8_perm"),
    ("Avx2Fma_f32","F32","f32",8,"X86FloatMap","X86FloatExt","X86Float.Avx2Fma_f32.sumBackend","t8","t8_perm"),
    ("Avx512_f32","F32","f32",16,"X86FloatMap","X86FloatExt","X86Float.Avx512_f32.sumBackend","(halvingTree 4 4 0)","h16_perm"),
    ("Avx2_f64","F64","f64",4,"X86FloatMap","X86FloatExt","X86Float.Avx2_f64.sumBackend","t4","t4_perm"),
    ("Avx2Fma_f64","F64","f64",4,"X86FloatMap","X86FloatExt","X86Float.Avx2Fma_f64.sumBackend","t4","t4_perm"),
    ("Avx512_f64","F64","f64",8,"X86FloatMap","X86FloatExt","X86Float.Avx512_f64.sumBackend","(halvingTree 3 3 0)","h8_perm"),
    ("Neon_f32","F32","f32",4,"NeonFloat","NeonFloat","C13Neon.Neon_f32.sumBackend","C13Neon.tN4","C13Neon.tN4_perm"),
    ("Neon_f64","F64","f64",2,"NeonFloat","NeonFloat","C13Neon.Neon_f64.sumBackend","C13Neon.tN2","C13Neon.tN2_perm"),
]
o = '''/-
GENERATED TEXT (/verif/tools/gen_c01float.py). C01 end to end on the eight real float backends: for each safe wrapper macro
and each routine it may select on that backend, arbitrary slice lengths and `DIMS` give a panic or a value — never an
out-of-bounds access or a divergence (`Thm/C01Total.runArm_safe` composed with the kernel theorems of `X86FloatMap`,
`X86FloatExt`, `NeonFloat` and `KernelModel.*'`).
-/
import CfavmlModel.Thm.C01Total
import CfavmlModel.Thm.X86FloatMap
import CfavmlModel.Thm.NeonFloat

namespace Cfavml.Thm.C01Float
open Cfavml.Thm Tables Spec KernelModel C01 C05Float FloatReduce

theorem safe_of_mixed {T : Type} {P : Nat → T → Prop} {dims : Nat} {result : Slice T} {out : Exec (Slice T)}
    (h : MixedMap2 P dims result out) : SafeOutcome out := by
  obtain ⟨r, e, _⟩ := h
  exact Or.inr ⟨r, e⟩

'''
for ns,T,t,L,MAP,EXT,sb,tree,perm in NS:
    inst=f"({ns}.inst E)"; M=f"(AutoMath_{t} E)"
    mapq = f"{MAP}.{ns}_" 
    extq = f"{EXT}.{ns}" if EXT=="X86FloatExt" else f"C13Neon.{ns}"
    memx = f"({extq}.ext_max E).mem"
    lwmax = f"({extq}.ext_max E).op"; lwmin = f"({extq}.ext_min E).op"; bc = f"({extq}.ext_max E).bcast"
    loc = f"(fun f g h => FTree.eval_congr _ f g _ (fun k hk => h k (by have := ({perm}.mem_iff).mp hk; simpa using this)))"
    bits = 32 if t=="f32" else 64
    o += f'''/-- **C01 on `{ns}`**: element-wise wrappers (vector×vector, vertical max/min, vector×scalar, by-value max/min) -/
theorem {ns}_elementwise (E : Env) (f : Form) (D : Nat) (value : {T}) (a b result : Slice {T})
    (hfuel : ∀ n, n ≤ max D a.size → n < E.fuel) :
    SafeOutcome (runArm (safeArmOf .export_safe_arithmetic_vector_x_vector_op f) (lens3 a b result) D (fun d => generic_add_vector E {inst} {M} d a b result))
    ∧ SafeOutcome (runArm (safeArmOf .export_safe_arithmetic_vector_x_vector_op f) (lens3 a b result) D (fun d => generic_sub_vector E {inst} {M} d a b result))
    ∧ SafeOutcome (runArm (safeArmOf .export_safe_arithmetic_vector_x_vector_op f) (lens3 a b result) D (fun d => generic_mul_vector E {inst} {M} d a b result))
    ∧ SafeOutcome (runArm (safeArmOf .export_safe_arithmetic_vector_x_vector_op f) (lens3 a b result) D (fun d => generic_div_vector E {inst} {M} d a b result))
    ∧ SafeOutcome (runArm (safeArmOf .export_safe_vertical_op f) (lens3 a b result) D (fun d => generic_max_vertical E {inst} {M} d a b result))
    ∧ SafeOutcome (runArm (safeArmOf .export_safe_vertical_op f) (lens3 a b result) D (fun d => generic_min_vertical E {inst} {M} d a b result))
    ∧ SafeOutcome (runArm (safeArmOf .export_safe_arithmetic_vector_x_value_op f) (lens3 a a result) D (fun d => generic_add_value E {inst} {M} d value a result))
    ∧ SafeOutcome (runArm (safeArmOf .export_safe_arithmetic_vector_x_value_op f) (lens3 a a result) D (fun d => generic_div_value E {inst} {M} d value a result))
    ∧ SafeOutcome (runArm (safeArmOf .export_safe_value_op f) (lens3 a a result) D (fun d => generic_max_value E {inst} {M} d value a result))
    ∧ SafeOutcome (runArm (safeArmOf .export_safe_value_op f) (lens3 a a result) D (fun d => generic_min_value E {inst} {M} d value a result)) := by
  have MFa := C18.auto_{t} E
  refine ⟨?_, ?_, ?_, ?_, ?_, ?_, ?_, ?_, ?_, ?_⟩
  · exact safe_three_slices _ f D a b result (params_vxv f) (form_of _ f) hfuel _ (fun d hd ha hb hr => by
      subst ha; exact safe_of_mixed ({mapq}add_vector E a b result hb hr hd))
  · exact safe_three_slices _ f D a b result (params_vxv f) (form_of _ f) hfuel _ (fun d hd ha hb hr => by
      subst ha; exact safe_of_mixed ({mapq}sub_vector E a b result hb hr hd))
  · exact safe_three_slices _ f D a b result (params_vxv f) (form_of _ f) hfuel _ (fun d hd ha hb hr => by
      subst ha; exact safe_of_mixed ({mapq}mul_vector E a b result hb hr hd))
  · exact safe_three_slices _ f D a b result (params_vxv f) (form_of _ f) hfuel _ (fun d hd ha hb hr => by
      subst ha; exact safe_of_mixed ({mapq}div_vector E a b result hb hr hd))
  · exact safe_three_slices _ f D a b result (params_vertical f) (form_of _ f) hfuel _ (fun d hd ha hb hr => by
      subst ha; exact safe_of_mixed (max_vertical_mixed (top := E.F.rmax{bits}) {memx} a.size hd {lwmax} MFa.cmp_max a b result rfl hb hr))
  · exact safe_three_slices _ f D a b result (params_vertical f) (form_of _ f) hfuel _ (fun d hd ha hb hr => by
      subst ha; exact safe_of_mixed (min_vertical_mixed (top := E.F.rmin{bits}) {memx} a.size hd {lwmin} MFa.cmp_min a b result rfl hb hr))
  · exact safe_two_slices _ f D a result (params_vxval f) (form_of _ f) hfuel _ (fun d hd ha hr => by
      subst ha; exact safe_of_mixed ({mapq}add_value E value a result hr hd))
  · exact safe_two_slices _ f D a result (params_vxval f) (form_of _ f) hfuel _ (fun d hd ha hr => by
      subst ha; exact safe_of_mixed ({mapq}div_value E value a result hr hd))
  · exact safe_two_slices _ f D a result (params_value f) (form_of _ f) hfuel _ (fun d hd ha hr => by
      subst ha; exact safe_of_mixed (max_value_mixed (top := E.F.rmax{bits}) {memx} a.size hd {bc} {lwmax} MFa.cmp_max value a result rfl hr))
  · exact safe_two_slices _ f D a result (params_value f) (form_of _ f) hfuel _ (fun d hd ha hr => by
      subst ha; exact safe_of_mixed (min_value_mixed (top := E.F.rmin{bits}) {memx} a.size hd {bc} {lwmin} MFa.cmp_min value a result rfl hr))

/-- **C01 on `{ns}`**: reductions and distances (sum, squared norm, dot product, squared Euclidean, cosine) -/
theorem {ns}_reductions (E : Env) (hn : E.feat_nightly = false) (f : Form) (D : Nat) (a b : Slice {T}) (hfuel : ∀ n, n ≤ max D a.size → n < E.fuel)
    (sq : {T} → {T}) (hsqrt : ∀ x, {M}.sqrt x = pure (sq x)) :
    SafeOutcome (runArm (safeArmOf .export_safe_horizontal_op f) (lens3 a a a) D (fun d => generic_sum E {inst} {M} d a))
    ∧ SafeOutcome (runArm (safeArmOf .export_safe_nofma_norm_op f) (lens3 a a a) D (fun d => generic_squared_norm E {inst} {M} d a))
    ∧ SafeOutcome (runArm (safeArmOf .export_safe_distance_op f) (lens3 a b a) D (fun d => generic_dot_product E {inst} {M} d a b))
    ∧ SafeOutcome (runArm (safeArmOf .export_safe_distance_op f) (lens3 a b a) D (fun d => generic_euclidean E {inst} {M} d a b))
    ∧ SafeOutcome (runArm (safeArmOf .export_safe_distance_op f) (lens3 a b a) D (fun d => generic_cosine E {inst} {M} d a b)) := by
  have MFa : MathFaithful {M} ({t}Spec E false) := by
    have := C18.auto_{t} E
    rw [hn] at this
    exact this
  have SM := SumMath.of MFa
  have hloc : FoldLocal {L} (fun f => {tree}.eval E.F.add{bits} f) := {loc}
  refine ⟨?_, ?_, ?_, ?_, ?_⟩
  · exact safe_one_slice _ f D a (params_horizontal f) (form_of _ f) hfuel _ (fun d hd ha =>
      Or.inr ⟨_, KernelModel.sum' ({sb} E) SM d hd hloc a ha⟩)
  · exact safe_one_slice _ f D a (params_nofma_norm f) (form_of _ f) hfuel _ (fun d hd ha =>
      Or.inr ⟨_, KernelModel.squared_norm' ({sb} E) SM d hd hloc a ha⟩)
  · exact safe_ab_slices _ f D a b (params_distance f) (form_of _ f) hfuel _ (fun d hd ha hb =>
      Or.inr ⟨_, KernelModel.dot_product' ({sb} E) SM d hd hloc a b ha hb⟩)
  · exact safe_ab_slices _ f D a b (params_distance f) (form_of _ f) hfuel _ (fun d hd ha hb =>
      Or.inr ⟨_, KernelModel.euclidean' ({sb} E) SM d hd hloc a b ha hb⟩)
  · exact safe_ab_slices _ f D a b (params_distance f) (form_of _ f) hfuel _ (fun d hd ha hb => by
      rw [generic_cosine_model' ({sb} E) MFa sq hsqrt hloc d hd a b ha hb]
      unfold cosineVal
      split
      · exact Or.inr ⟨_, rfl⟩
      · split
        · exact Or.inr ⟨_, rfl⟩
        · split
          · exact Or.inr ⟨_, rfl⟩
          · exact Or.inl rfl)

'''
o += "end Cfavml.Thm.C01Float\n"
open(OUT,"w").write(o)
print("wrote")
