#!/usr/bin/env python3
"""Cross-reading of Prim/Neon.lean against stdarch (the nightly rust-src in this sandbox): for every NEON intrinsic that
impl_neon.rs uses, the body of its stdarch definition and the right-hand side of its Lean definition must both belong to the
same semantic class (lane-wise add, fused multiply-add with operands (b, c, a), ordered reduction from 0, ...).
No aarch64 hardware is available here, so this is the only validation of that file besides the proofs built on it; it guards
against a slip of the pen in ~100 hand-specified definitions (wrong operator, operand order, lane count, signedness).
Exit 0 iff every used intrinsic is found on both sides and both sides match their class."""
import re, subprocess, sys, os

def sh(cmd):
    return subprocess.run(cmd, shell=True, stdout=subprocess.PIPE, stderr=subprocess.DEVNULL, text=True).stdout.strip()

root = sh("rustc +nightly --print sysroot") + "/lib/rustlib/src/rust/library/stdarch/crates/core_arch/src"
files = [root + "/aarch64/neon/generated.rs", root + "/arm_shared/neon/generated.rs", root + "/aarch64/neon/mod.rs", root + "/arm_shared/neon/mod.rs"]
if not all(os.path.exists(f) for f in files[:2]):
    print("stdarch source not found under", root)
    sys.exit(1)
src = "\n".join(open(f).read() for f in files if os.path.exists(f))
lean = open("/verif/lean/CfavmlModel/Prim/Neon.lean").read()
used = sorted(set(re.findall(r"\bv[a-z0-9]+q_(?:n_)?[fsu][0-9]+\b", open("/repo/cfavml/src/danger/impl_neon.rs").read())))

LANES = {"8": 16, "16": 8, "32": 4, "64": 2}

def rust_body(name):
    m = re.search(r"pub (?:unsafe )?fn " + name + r"\b[^{]*\{", src)
    if not m:
        return None
    i = m.end(); depth = 1; j = i
    while depth and j < len(src):
        depth += {"{": 1, "}": -1}.get(src[j], 0); j += 1
    return " ".join(src[i:j - 1].split())

def lean_rhs(name):
    m = re.search(r"^def " + name + r"\b[^\n]*:=\s*(.*)$", lean, re.M)
    return " ".join(m.group(1).split()) if m else None

def classify(name):
    """(regex the stdarch body must match, regex the Lean right-hand side must match)"""
    m = re.match(r"v([a-z0-9]+)q_(n_)?([fsu])(\d+)$", name)
    core, n, kind, w = m.group(1), m.group(2), m.group(3), m.group(4)
    across = core in ("addv", "maxv", "minv")
    op = core[:-1] if across else core
    L = LANES[w]
    fl = kind == "f"
    if op == "ld1":
        return r"read_unaligned\(ptr\.cast\(\)\)", rf"loadu {L} mem off"
    if op == "st1":
        return r"write_unaligned\(ptr\.cast\(\), a\)", rf"storeu {L} mem off r"
    if op == "dup":
        return r"splat\(value\)", rf"bcast {w} {L} v"
    if op in ("add", "sub", "mul", "div") and not across:
        sym = {"add": r"\(· \+ ·\)", "sub": r"\(· - ·\)", "mul": r"\(· \* ·\)"}.get(op, "")
        lean_re = rf"map2 {w} {L} E\.F\.{op}{w} a b" if fl else rf"map2 {w} {L} {sym} a b"
        return rf"simd_{op}\(a, b\)", lean_re
    if op == "fma":
        return r"simd_fma\(b, c, a\)", rf"map3 {w} {L} \(fun acc x y => E\.F\.fma{w} x y acc\) a b c"
    if op in ("max", "min") and not across:
        if fl:
            return rf"llvm\.aarch64\.neon\.f{op}\.v{L}f{w}", rf"map2 {w} {L} \(f{op}{w} E\) a b"
        cmp = "simd_ge" if op == "max" else "simd_le"
        prim = ("s" if kind == "s" else "u") + op
        return rf"{cmp}\(a, b\); simd_select\(mask, a, b\)", rf"map2 {w} {L} IntPrim\.{prim} a b"
    if op == "add" and across:
        if fl:
            pr = "pair4" if L == 4 else "pair2"
            return rf"llvm\.aarch64\.neon\.faddv\.f{w}\.v{L}f{w}", rf"{pr} E\.F\.add{w} \(fun k => lane {w} k a\)"
        return r"simd_reduce_add_ordered\(a, 0\)", rf"reduceOrdered \(· \+ ·\) 0 {L} \(fun k => lane {w} k a\)"
    if op in ("max", "min") and across:
        if fl:
            pr = "pair4" if L == 4 else "pair2"
            return rf"llvm\.aarch64\.neon\.f{op}v\.f{w}\.v{L}f{w}", rf"{pr} \(f{op}{w} E\) \(fun k => lane {w} k a\)"
        prim = ("s" if kind == "s" else "u") + op
        init = {"smax": rf"\(BitVec\.intMin {w}\)", "smin": rf"\(BitVec\.intMax {w}\)", "umax": "0", "umin": rf"\(BitVec\.allOnes {w}\)"}[prim]
        return rf"simd_reduce_{op}\(a\)", rf"reduceOrdered IntPrim\.{prim} {init} {L} \(fun k => lane {w} k a\)"
    return None, None

bad = []
for n in used:
    rb, lr = rust_body(n), lean_rhs(n)
    rre, lre = classify(n)
    if rb is None:
        bad.append(f"{n}: no stdarch definition found"); continue
    if lr is None:
        bad.append(f"{n}: no definition in Prim/Neon.lean"); continue
    if rre is None:
        bad.append(f"{n}: no semantic class"); continue
    if not re.search(rre, rb):
        bad.append(f"{n}: stdarch body `{rb[:160]}` is not of the expected class /{rre}/")
    if not re.search(lre, lr):
        bad.append(f"{n}: Lean definition `{lr[:160]}` is not of the expected class /{lre}/")
print(f"{len(used)} NEON intrinsics used by impl_neon.rs; {len(bad)} problems")
for b in bad[:20]:
    print("  " + b)
sys.exit(1 if bad else 0)
