#!/bin/sh
# usage: tools/try_mutation.sh <patch.diff> <PROP>...   — applies the patch to /repo, runs the given checks, reverts.
P="$1"; shift
cd /repo || exit 2
if ! git diff --quiet; then echo "/repo has uncommitted changes; refusing"; exit 2; fi
git apply "$P" || { echo "patch does not apply"; exit 2; }
for id in "$@"; do
  (cd /verif && ./check "$id" 2>&1 | grep -E "VIOLATION|KNOWN-FINDING|obligations" | cut -c1-220)
done
git -C /repo checkout -- .
git -C /repo status --short | head -3
