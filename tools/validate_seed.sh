#!/bin/bash
# usage: tools/validate_seed.sh <candidate dir with patch.diff + demo/run.sh> <tag> <PROP>...
# 1. confirms the candidate in a scratch worktree of /repo (outside /repo and /verif): demo passes on the pristine
#    tree, the patch applies, stable (+nightly) builds, the pinned test suite passes, demo fails with the patch;
# 2. runs the given checks against the mutated tree inside a private mount namespace, in which a scratch copy of
#    /repo with the patch applied is bind-mounted over /repo and a copy of /verif over /verif, so neither the real
#    /repo nor the real /verif is touched and development can go on meanwhile.
# Writes <outdir>/<tag>.json and prints a one-line summary per step.  Scratch dirs are removed at the end.
set -u
CAND="$(readlink -f "$1")"; TAG="$2"; shift 2
PROPS="$*"
OUT=/tmp/val; mkdir -p $OUT
WT=$OUT/wt-$TAG
LOG=$OUT/$TAG.log
: > $LOG
export CARGO_NET_OFFLINE=true
res() { echo "$TAG: $1" | tee -a $LOG; }
J() { python3 - "$@" <<'E'
import json,sys
p=sys.argv[1]; k=sys.argv[2]; v=sys.argv[3]
try: d=json.load(open(p))
except Exception: d={}
try: v=json.loads(v)
except Exception: pass
d[k]=v
json.dump(d,open(p,'w'),indent=1)
E
}
JS=$OUT/$TAG.json; rm -f $JS
J $JS candidate "$CAND"
rm -rf $WT; git -C /repo worktree prune; git -C /repo worktree add -q --detach $WT HEAD || { res "worktree failed"; exit 2; }
cp /repo/Cargo.lock $WT/Cargo.lock 2>/dev/null
cleanup() { git -C /repo worktree remove --force $WT 2>/dev/null; rm -rf $WT; }
trap cleanup EXIT
# demo on pristine
DEMO="$CAND/demo"
rm -rf $OUT/demo-$TAG; cp -r "$DEMO" $OUT/demo-$TAG; rm -rf $OUT/demo-$TAG/target
( cd $OUT/demo-$TAG && timeout 900 bash ./run.sh $WT ) >> $LOG 2>&1; rc0=$?
res "demo on pristine tree: rc=$rc0 (want 0)"; J $JS demo_pristine_rc $rc0
# apply
if ! git -C $WT apply "$CAND/patch.diff" >> $LOG 2>&1; then res "patch does not apply"; J $JS applies false; exit 1; fi
J $JS applies true
( cd $WT && CARGO_TARGET_DIR=$OUT/target timeout 1200 cargo build --workspace --offline ) >> $LOG 2>&1; rcb=$?
res "stable build: rc=$rcb"; J $JS build_rc $rcb
( cd $WT && CARGO_TARGET_DIR=$OUT/target-nightly timeout 1200 cargo +nightly build -p cfavml --features nightly --offline ) >> $LOG 2>&1; rcn=$?
res "nightly build: rc=$rcn"; J $JS nightly_build_rc $rcn
( cd $WT && CARGO_TARGET_DIR=$OUT/target timeout 1800 cargo test --workspace --no-fail-fast --offline ) > $OUT/$TAG.test.log 2>&1; rct=$?
passed=$(grep -E "^test result:" $OUT/$TAG.test.log | awk '{s+=$4} END{print s+0}')
failed=$(grep -E "^test result:" $OUT/$TAG.test.log | awk '{s+=$6} END{print s+0}')
res "test suite with the patch: rc=$rct passed=$passed failed=$failed"; J $JS tests "{\"rc\":$rct,\"passed\":$passed,\"failed\":$failed}"
rm -rf $OUT/demo-$TAG/target
( cd $OUT/demo-$TAG && timeout 900 bash ./run.sh $WT ) >> $LOG 2>&1; rc1=$?
res "demo with the patch: rc=$rc1 (want != 0)"; J $JS demo_mutated_rc $rc1
rm -rf $OUT/demo-$TAG
cleanup; trap - EXIT
# checks inside a private mount namespace
if [ -n "$PROPS" ]; then
  MR=$OUT/repo-$TAG; MV=$OUT/verif-$TAG
  rm -rf $MR $MV; mkdir -p $MR $MV
  git -C /repo archive HEAD | tar -x -C $MR
  cp /repo/Cargo.lock $MR/Cargo.lock 2>/dev/null
  ( cd $MR && patch -p1 -s < "$CAND/patch.diff" ) >> $LOG 2>&1
  rsync -a --exclude .git --exclude replays /verif/ $MV/
  mkdir -p $MV/replays
  for id in $PROPS; do
    unshare -m bash -c "mount --bind $MR /repo && mount --bind $MV /verif && cd /verif && timeout 3000 ./check $id --tier quick" > $OUT/$TAG.check.$id.log 2>&1; rcc=$?
    line=$(grep -E "^VIOLATION" $OUT/$TAG.check.$id.log | head -1 | cut -c1-200)
    summ=$(grep -E "obligations discharged" $OUT/$TAG.check.$id.log | tail -1)
    res "check $id on the mutated tree: rc=$rcc  $line | $summ"
    rp=$(echo "$line" | sed -n 's/.*replay=\([^ ]*\).*/\1/p')
    kinds=""
    if [ -n "$rp" ]; then
      f=$MV/replays/$(basename $rp)
      kinds=$(python3 -c "
import json,sys
d=json.load(open('$f'))
print(json.dumps({'kinds':sorted(set(v['kind'] for v in d['violations'])),'first':[str(v.get('what'))[:160] for v in d['violations'][:3]],'broken':[o['name'][:120] for o in d['broken_obligations'][:6]]}))" 2>/dev/null)
    fi
    J $JS check_$id "{\"rc\":$rcc,\"line\":$(python3 -c "import json,sys;print(json.dumps(sys.argv[1]))" "$line"),\"detail\":${kinds:-null}}"
  done
  rm -rf $MR $MV
fi
res "done"
