#!/usr/bin/env python3
"""Collect the validated seeded defects from /tmp/mut/out (sub-agent deliverables) and /tmp/val (validation results)
into /verif/seeded/<id>/ : patch.diff, demo/, NOTES.md, meta.json.  Only candidates that were confirmed
(demo passes on the pristine tree, patch applies, builds, pinned suite passes, demo fails with the patch) are kept."""
import json, os, re, shutil, sys, glob

OUT = "/verif/seeded"
rows = []
for vj in sorted(glob.glob("/tmp/val/C*-m*.json")) + sorted(glob.glob("/tmp/val/R2C*-m*.json")) + sorted(glob.glob("/tmp/val/R3C*-m*.json")) + sorted(glob.glob("/tmp/val/R4C*-m*.json")) + sorted(glob.glob("/tmp/val/R5C*-m*.json")) + sorted(glob.glob("/tmp/val/R6C*-m*.json")) + sorted(glob.glob("/tmp/val/R7C*-m*.json")) + sorted(glob.glob("/tmp/val/R8C*-m*.json")):
    tag = os.path.basename(vj)[:-5]
    d = json.load(open(vj))
    cand = d["candidate"]
    round2 = tag.startswith("R2")
    round3 = tag.startswith("R3")
    round4 = tag.startswith("R4")
    round5 = tag.startswith("R5")
    round6 = tag.startswith("R6")
    round7 = tag.startswith("R7")
    round8 = tag.startswith("R8")
    prop, m = (tag[2:] if (round2 or round3 or round4 or round5 or round6 or round7 or round8) else tag).split("-")
    ok = (d.get("demo_pristine_rc") == 0 and d.get("applies") and d.get("build_rc") == 0
          and d.get("tests", {}).get("failed") == 0 and d.get("tests", {}).get("rc") == 0 and (d.get("demo_mutated_rc") or 0) != 0)
    if not ok:
        print("NOT CONFIRMED", tag, {k: d.get(k) for k in ("demo_pristine_rc", "applies", "build_rc", "tests", "demo_mutated_rc")})
        continue
    idx = {"m1": 1, "m2": 2, "m1b": 1}.get(m, 9)
    if round2:
        idx += 2
    if round3:
        idx += 4
    if round4:
        idx += 6
    if round5:
        idx += 8
    if round6:
        # round 6 covered C15 and C18 (which had no round 5) and seven round-5 properties: ids continue per property
        idx += 10 if prop not in ("C15", "C18") else 8
    if round7:
        # round 7: C04 and C07 had no round 6
        idx += 12 if prop not in ("C04", "C07") else 10
    if round8:
        idx += 14
    sid = "%s-%d" % (prop, idx) if not (prop == "C09" and idx == 1) else "C09-2"
    if prop == "C09" and idx >= 2:
        sid = "C09-%d" % (idx + 1)
    dst = os.path.join(OUT, sid)
    if os.path.exists(dst):
        shutil.rmtree(dst)
    os.makedirs(dst)
    shutil.copy(os.path.join(cand, "patch.diff"), dst)
    if os.path.exists(os.path.join(cand, "patch.orig.diff")):
        # the change as its author wrote it, when patch.diff had to be re-based onto a later fix: commit in /repo
        shutil.copy(os.path.join(cand, "patch.orig.diff"), dst)
    shutil.copytree(os.path.join(cand, "demo"), os.path.join(dst, "demo"), ignore=shutil.ignore_patterns("target", "Cargo.lock"))
    notes = os.path.join(cand, "NOTES.md")
    needs = ""
    if os.path.exists(notes):
        shutil.copy(notes, dst)
        txt = open(notes).read()
        mm = re.search(r"(?is)(needed to manifest|needs to manifest|what is needed|what it needs|to manifest)[^\n]*\n(.{0,900})", txt)
        if mm:
            needs = " ".join(mm.group(2).split())[:600]
    checks = {}
    for k, v in d.items():
        if k.startswith("check_"):
            line = v.get("line") or ""
            det = v.get("detail") or {}
            checks[k[6:]] = {
                "result": "VIOLATION" if v["rc"] == 1 else ("passed (not detected by this check)" if v["rc"] == 0 else "rc=%s" % v["rc"]),
                "concrete_failing_input": (v["rc"] == 1 and "no-failing-input-found" not in line),
                "violation_kinds": det.get("kinds"),
                "first": det.get("first"),
                "broken_obligations": det.get("broken"),
            }
    meta = {
        "property": prop,
        "source": "independent sub-agent given only the property text and a scratch worktree of /repo (nothing from /verif)" + ("; round 2: asked for less direct mechanisms than a swapped intrinsic, a dropped assert or a re-bound table row" if round2 else "") + ("; round 3: asked to avoid every mechanism of rounds 1 and 2 (edges, NaN/zero handling, casts, offsets, build profiles, environment, two-call interactions, ...)" if round3 else "") + ("; round 4: asked to avoid every mechanism of rounds 1 to 3" if round4 else "") + ("; round 5 (nine properties): asked to avoid every mechanism of rounds 1 to 4" if round5 else "") + ("; round 6 (nine properties): asked to avoid every mechanism of rounds 1 to 5" if round6 else "") + ("; round 7 (nine properties): asked to avoid every mechanism of rounds 1 to 6" if round7 else "") + ("; round 8 (six properties, short time limit): asked to avoid every mechanism of rounds 1 to 7" if round8 else ""),
        "needs_to_manifest": needs,
        "what_i_ran": [
            "tools/validate_seed.sh: fresh scratch worktree of /repo; demo/run.sh on the pristine tree: exit %s" % d.get("demo_pristine_rc"),
            "git apply patch.diff; cargo build --workspace --offline: rc=%s; cargo +nightly build -p cfavml --features nightly: rc=%s" % (d.get("build_rc"), d.get("nightly_build_rc")),
            "cargo test --workspace --no-fail-fast --offline with the patch: %s passed, %s failed" % (d.get("tests", {}).get("passed"), d.get("tests", {}).get("failed")),
            "demo/run.sh with the patch: exit %s" % d.get("demo_mutated_rc"),
            "./check <id> --tier quick against a scratch copy of /repo with the patch applied, bind-mounted over /repo in a private mount namespace (copy of /verif likewise); worktree and copies removed afterwards",
        ],
        "detected_by": checks,
    }
    json.dump(meta, open(os.path.join(dst, "meta.json"), "w"), indent=1)
    rows = [r for r in rows if r[0] != sid]  # a later validation of the same seeded change replaces the earlier one
    rows.append((sid, prop, checks))
# the table is rebuilt from every seeded/<id>/meta.json (scratch results of earlier rounds may be gone)
allrows = []
for d in sorted(glob.glob(os.path.join(OUT, "C*-*"))):
    try:
        m = json.load(open(os.path.join(d, "meta.json")))
    except Exception:
        continue
    det = m.get("detected_by")
    if not isinstance(det, dict) or not all(isinstance(v, dict) for v in det.values()):
        continue
    allrows.append((os.path.basename(d), m.get("property", "?"), det))
with open(os.path.join(OUT, "README.md"), "w") as fh:
    fh.write("# Seeded defects and which checks catch them\n\nEach directory: `patch.diff` (applies to /repo HEAD at the time of validation), `demo/` (fails with the patch, "
             "passes without), `NOTES.md` (the author's description), `meta.json` (what was run, what each check reported).\n\n"
             "| seeded | property | check results (V = VIOLATION whose replay is a concrete failing input of the real code or a concrete failing state of the model — register, table row, feature combination —, V* = VIOLATION no-failing-input-found, - = not detected by that check; the validation of an entry reflects the checks as they were when it was last run, see meta.json) |\n|---|---|---|\n")
    def key(r):
        p, k = r[0].split("-")
        return (p, int(k))
    for sid, prop, checks in sorted(allrows, key=key):
        cells = []
        for k, v in sorted(checks.items()):
            c = "V" if v.get("concrete_failing_input") else ("V*" if v.get("result") == "VIOLATION" else "-")
            cells.append("%s:%s" % (k, c))
        fh.write("| %s | %s | %s |\n" % (sid, prop, ", ".join(cells)))
print(len(rows), "seeded defects collected in this run;", len(allrows), "in the table")
