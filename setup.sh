#!/bin/sh
# Builds the framework from files on disk only (offline): translator, generated Lean model, Lean library, harness.
set -e
cd "$(dirname "$0")"
export CARGO_NET_OFFLINE=true
mkdir -p .cache evidence replays lean/CfavmlModel/Gen harness/src/gen
(cd translator && cargo build --offline)
./.cache/translator-target/debug/cfavml-translator /repo lean/CfavmlModel/Gen harness/src/gen || true
(cd lean && lake build)
(cd harness && cargo build --offline && cargo build --offline --release) || true
(cd harness && cargo +nightly build --offline --features nightly --target-dir /verif/.cache/harness-target-nightly) || true
