import CfavmlModel.Prim.Exec
import CfavmlModel.Prim.Traits
import CfavmlModel.Prim.Scalar
import CfavmlModel.Gen.Kernels
import CfavmlModel.Gen.Defaults
import CfavmlModel.Gen.Math
import CfavmlModel.Gen.ImplFallback
