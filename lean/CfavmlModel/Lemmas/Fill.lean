/-
Element-wise ("map") phases: a loop whose step overwrites `[i, i+W)` of the result with `g (i+k)` fills
the result from left to right.
-/
import CfavmlModel.Lemmas.Loop

namespace Cfavml

theorem Slice.setRange_congr {α : Type} (s : Slice α) (i n : Nat) (f g : Nat → α)
    (h : ∀ k, k < n → f k = g k) : s.setRange i n f = s.setRange i n g := by
  unfold Slice.setRange
  congr 1
  funext j
  by_cases hj : i ≤ j ∧ j < i + n
  · simp only [hj, and_self, if_true]
    exact h (j - i) (by omega)
  · simp only [hj, if_false]

/-- `res` has the right size, holds `g` on `[0, i)` and still holds `orig` from `i` on -/
def Filled {α : Type} (dims : Nat) (g : Nat → α) (orig : Slice α) (i : Nat) (res : Slice α) : Prop :=
  res.size = dims ∧ ∀ j, res.get j = if j < i then g j else orig.get j

theorem Filled.setRange {α : Type} {dims : Nat} {g : Nat → α} {orig : Slice α} {i : Nat} {res : Slice α}
    (h : Filled dims g orig i res) (W : Nat) :
    Filled dims g orig (i + W) (res.setRange i W (fun k => g (i + k))) := by
  obtain ⟨hs, hg⟩ := h
  refine ⟨hs, ?_⟩
  intro j
  unfold Slice.setRange
  simp only
  by_cases h1 : i ≤ j ∧ j < i + W
  · have h2 : j < i + W := h1.2
    have h3 : i + (j - i) = j := by omega
    simp [h1, h2, h3]
  · rw [if_neg h1, hg j]
    by_cases h4 : j < i
    · have : j < i + W := by omega
      simp [h4, this]
    · have : ¬ (j < i + W) := by omega
      simp [h4, this]

theorem Filled.set {α : Type} {dims : Nat} {g : Nat → α} {orig : Slice α} {i : Nat} {res : Slice α}
    (h : Filled dims g orig i res) :
    Filled dims g orig (i + 1) (res.set i (g i)) := by
  obtain ⟨hs, hg⟩ := h
  refine ⟨hs, ?_⟩
  intro j
  unfold Slice.set
  simp only
  by_cases h1 : j = i
  · subst h1; simp
  · rw [if_neg h1, hg j]
    by_cases h4 : j < i
    · have : j < i + 1 := by omega
      simp [h4, this]
    · have : ¬ (j < i + 1) := by omega
      simp [h4, this]

/-- a phase of `n` steps of width `W` starting at `i0` -/
theorem iter_fill {α : Type} (dims W : Nat) (g : Nat → α) (orig : Slice α) (step : Nat → Slice α → Exec (Slice α))
    (hstep : ∀ i res, Filled dims g orig i res → i + W ≤ dims →
      ∃ res', step i res = pure res' ∧ Filled dims g orig (i + W) res') :
    ∀ n i0 res0, Filled dims g orig i0 res0 → i0 + n * W ≤ dims →
      ∃ res', iter step W n i0 res0 = pure res' ∧ Filled dims g orig (i0 + n * W) res' := by
  intro n i0 res0 h0 hle
  have := iter_inv step W i0 (fun m res => Filled dims g orig (i0 + m * W) res) n res0 (by simpa using h0)
    (by
      intro m hm s hs
      have hb : i0 + m * W + W ≤ dims := by
        have : (m + 1) * W ≤ n * W := Nat.mul_le_mul_right W (by omega)
        rw [Nat.succ_mul] at this
        omega
      obtain ⟨res', e, hf⟩ := hstep (i0 + m * W) s hs hb
      refine ⟨res', e, ?_⟩
      rw [Nat.succ_mul]
      have : i0 + (m * W + W) = i0 + m * W + W := by omega
      rw [this]
      exact hf)
  exact this

/-- a phase of `n` steps of width `W` starting at `i0`, where the step is only known to work inside `[lo, hi]` -/
theorem iter_fill_range {α : Type} (dims W lo hi : Nat) (g : Nat → α) (orig : Slice α)
    (step : Nat → Slice α → Exec (Slice α))
    (hstep : ∀ i res, Filled dims g orig i res → lo ≤ i → i + W ≤ hi →
      ∃ res', step i res = pure res' ∧ Filled dims g orig (i + W) res') :
    ∀ n i0 res0, Filled dims g orig i0 res0 → lo ≤ i0 → i0 + n * W ≤ hi →
      ∃ res', iter step W n i0 res0 = pure res' ∧ Filled dims g orig (i0 + n * W) res' := by
  intro n i0 res0 h0 hlo hle
  have := iter_inv step W i0 (fun m res => Filled dims g orig (i0 + m * W) res) n res0 (by simpa using h0)
    (by
      intro m hm s hs
      have hb : i0 + m * W + W ≤ hi := by
        have : (m + 1) * W ≤ n * W := Nat.mul_le_mul_right W (by omega)
        rw [Nat.succ_mul] at this
        omega
      obtain ⟨res', e, hf⟩ := hstep (i0 + m * W) s hs (by omega) hb
      refine ⟨res', e, ?_⟩
      rw [Nat.succ_mul]
      have : i0 + (m * W + W) = i0 + m * W + W := by omega
      rw [this]
      exact hf)
  exact this

end Cfavml
