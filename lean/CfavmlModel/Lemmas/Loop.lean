/-
Loops: a counted `while i < bound { s = step(i, s); i += K }` is `n` iterations of `step`, for the `n`
determined by the bound, provided the fuel suffices. No hypothesis about `step` is needed: if an
iteration faults, both sides fault the same way.
-/
import CfavmlModel.Prim.Exec

namespace Cfavml

/-- `n` iterations of `step` at indices `i, i+K, i+2K, ..` -/
def iter {S : Type} (step : Nat → S → Exec S) (K : Nat) : Nat → Nat → S → Exec S
  | 0, _, s => pure s
  | n + 1, i, s => do
    let s' ← step i s
    iter step K n (i + K) s'

@[simp] theorem iter_zero {S : Type} (step : Nat → S → Exec S) (K i : Nat) (s : S) :
    iter step K 0 i s = pure s := rfl

theorem iter_succ {S : Type} (step : Nat → S → Exec S) (K n i : Nat) (s : S) :
    iter step K (n + 1) i s = (step i s >>= fun s' => iter step K n (i + K) s') := rfl

/-- number of iterations of `while i < B { i += K }` started at `i0` -/
def iterCount (i0 B K : Nat) : Nat := (B - i0 + K - 1) / K

theorem loopM_counted {S : Type} (fuel : Nat) (cond : Nat × S → Exec Bool) (body : Nat × S → Exec (Nat × S))
    (step : Nat → S → Exec S) (B K : Nat) (hK : 0 < K)
    (hcond : ∀ st, cond st = pure (decide (st.1 < B)))
    (hbody : ∀ st, body st = (step st.1 st.2 >>= fun s' => pure (st.1 + K, s'))) :
    ∀ (n i0 : Nat) (s0 : S), n < fuel → B ≤ i0 + n * K → (∀ m, m < n → i0 + m * K < B) →
      loopM fuel (i0, s0) cond body = (iter step K n i0 s0 >>= fun s => pure (i0 + n * K, s)) := by
  induction fuel with
  | zero => intro n i0 s0 h; omega
  | succ fuel ih =>
    intro n i0 s0 hn hB hlt
    cases n with
    | zero =>
      have : ¬ (i0 < B) := by omega
      simp [loopM, hcond, this]
    | succ n =>
      have h0 : i0 < B := by have := hlt 0 (by omega); omega
      rw [loopM, hcond]
      simp only [pure_bind, h0, decide_true, if_true]
      rw [hbody, iter_succ]
      simp only [bind_assoc]
      congr 1
      funext s'
      simp only [pure_bind]
      rw [ih n (i0 + K) s' (by omega) (by rw [Nat.succ_mul] at hB; omega)
        (by intro m hm; have := hlt (m + 1) (by omega); rw [Nat.succ_mul] at this; omega)]
      congr 1
      funext s
      rw [Nat.succ_mul]
      congr 2
      omega

/-- `iter` over a step that always succeeds with a pure function -/
theorem iter_pure {S : Type} (f : Nat → S → S) (step : Nat → S → Exec S) (K : Nat)
    (P : Nat → S → Prop)
    (hstep : ∀ i s, P i s → step i s = pure (f i s))
    (hP : ∀ i s, P i s → P (i + K) (f i s)) :
    ∀ n i s, P i s → ∃ s', iter step K n i s = pure s' ∧ P (i + n * K) s' := by
  intro n
  induction n with
  | zero => intro i s h; exact ⟨s, rfl, by simpa using h⟩
  | succ n ih =>
    intro i s h
    rw [iter_succ, hstep i s h]
    simp only [pure_bind]
    obtain ⟨s', h1, h2⟩ := ih (i + K) (f i s) (hP i s h)
    refine ⟨s', h1, ?_⟩
    rw [Nat.succ_mul]
    have : i + K + n * K = i + (n * K + K) := by omega
    rw [← this]
    exact h2

end Cfavml

namespace Cfavml

/-- invariant rule for `iter`, indexed by the iteration number -/
theorem iter_inv {S : Type} (step : Nat → S → Exec S) (K i0 : Nat) (Inv : Nat → S → Prop) :
    ∀ (n : Nat) (s0 : S), Inv 0 s0 →
      (∀ m, m < n → ∀ s, Inv m s → ∃ s', step (i0 + m * K) s = pure s' ∧ Inv (m + 1) s') →
      ∃ s', iter step K n i0 s0 = pure s' ∧ Inv n s' := by
  intro n
  induction n generalizing i0 Inv with
  | zero => intro s0 h _; exact ⟨s0, rfl, h⟩
  | succ n ih =>
    intro s0 h0 hstep
    obtain ⟨s1, e1, h1⟩ := hstep 0 (by omega) s0 h0
    simp only [Nat.zero_mul, Nat.add_zero] at e1
    rw [iter_succ, e1]
    simp only [pure_bind]
    have := ih (i0 + K) (fun m s => Inv (m + 1) s) s1 h1 (by
      intro m hm s hs
      obtain ⟨s', e, h'⟩ := hstep (m + 1) (by omega) s hs
      refine ⟨s', ?_, h'⟩
      rw [← e]
      congr 1
      rw [Nat.succ_mul]
      omega)
    exact this

end Cfavml
