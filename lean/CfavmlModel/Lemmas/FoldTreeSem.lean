/-
Any fold tree over the `L` lanes of a register — every lane exactly once, depth `hd` — is an admissible horizontal
fold for the rounding analysis (`HFoldSem`): it transports the backward-error relation, merges the index lists and adds
at most `hd` roundings. Instantiated for the four x86 float folds of `Lemmas/FoldTree.lean`.
-/
import CfavmlModel.Lemmas.FloatReduce
import CfavmlModel.Lemmas.FoldTree

namespace Cfavml.FloatReduce
open Rounding

section
variable {T : Type} {S : ScalarSpec T} {fm : T → T → T → T}

theorem ftree_rel (F : FloatSem S fm) (term : ℕ → ℝ) (t : FTree) (f : ℕ → T) (g : ℕ → Ab)
    (h : ∀ k ∈ t.leaves, RelE F term (f k) (g k)) : RelE F term (t.eval S.add f) (t.eval addA g) := by
  induction t with
  | leaf k => exact h k (by simp [FTree.leaves])
  | node l r ihl ihr =>
    exact relE_add F term _ _ _ _ (ihl (fun k hk => h k (by simp [FTree.leaves, hk])))
      (ihr (fun k hk => h k (by simp [FTree.leaves, hk])))

theorem ftree_relX (X : ExactSem S fm) (a b : ℕ → T)
    (hin : ∀ i, X.Fin (a i) ∧ X.Fin (b i) ∧ IsInt (X.val (a i)) ∧ IsInt (X.val (b i)))
    (t : FTree) (f : ℕ → T) (g : ℕ → Ab) (h : ∀ k ∈ t.leaves, RelX X a b (f k) (g k)) :
    RelX X a b (t.eval S.add f) (t.eval addA g) := by
  induction t with
  | leaf k => exact h k (by simp [FTree.leaves])
  | node l r ihl ihr =>
    exact relX_add X a b hin _ _ _ _ (ihl (fun k hk => h k (by simp [FTree.leaves, hk])))
      (ihr (fun k hk => h k (by simp [FTree.leaves, hk])))

end

theorem ftree_list (t : FTree) (g : ℕ → Ab) :
    ((t.eval addA g).1 : Multiset ℕ) = (t.leaves.map (fun k => ((g k).1 : Multiset ℕ))).sum := by
  induction t with
  | leaf k => simp [FTree.eval, FTree.leaves]
  | node l r ihl ihr =>
    simp only [FTree.eval, FTree.leaves, List.map_append, List.sum_append]
    rw [addA_list, ← ihl, ← ihr]; rfl

theorem ftree_depth (t : FTree) (g : ℕ → Ab) (d : ℕ) (h : ∀ k ∈ t.leaves, (g k).2 ≤ d) :
    (t.eval addA g).2 ≤ d + t.depth := by
  induction t with
  | leaf k => simpa [FTree.eval, FTree.depth] using h k (by simp [FTree.leaves])
  | node l r ihl ihr =>
    simp only [FTree.eval, FTree.depth]
    have h1 := ihl (fun k hk => h k (by simp [FTree.leaves, hk]))
    have h2 := ihr (fun k hk => h k (by simp [FTree.leaves, hk]))
    have := addA_depth' (l.eval addA g) (r.eval addA g) (d + max l.depth r.depth) (by omega) (by omega)
    omega

theorem ftree_empty (t : FTree) (g : ℕ → Ab) (h : ∀ k ∈ t.leaves, g k = ([], 0)) : t.eval addA g = ([], 0) := by
  induction t with
  | leaf k => exact h k (by simp [FTree.leaves])
  | node l r ihl ihr =>
    simp only [FTree.eval]
    rw [ihl (fun k hk => h k (by simp [FTree.leaves, hk])), ihr (fun k hk => h k (by simp [FTree.leaves, hk]))]
    simp [addA]

theorem sumR_eq_list_sum (h : ℕ → Multiset ℕ) (L : ℕ) : sumR (· + ·) 0 h L = ((List.range L).map h).sum := by
  induction L with
  | zero => rfl
  | succ n ih => rw [sumR_succ, ih, List.range_succ, List.map_append, List.sum_append]; simp

/-- **every lane once, depth `hd`** ⇒ admissible fold shape -/
theorem ftree_shape (t : FTree) (L hd : ℕ) (hperm : t.leaves.Perm (List.range L)) (hdep : t.depth ≤ hd) :
    HFoldShape L hd (fun g => t.eval addA g) where
  cover := fun g => by
    show ((t.eval addA g).1 : Multiset ℕ) = _
    rw [ftree_list, sumR_eq_list_sum]
    exact (hperm.map _).sum_eq
  depth := fun g d h => by
    have := ftree_depth t g d (fun k hk => h k (by have := (hperm.mem_iff).mp hk; simpa using this))
    show (t.eval addA g).2 ≤ d + hd
    omega
  empty := fun g h => ftree_empty t g (fun k hk => h k (by have := (hperm.mem_iff).mp hk; simpa using this))

theorem ftree_sem {T : Type} {S : ScalarSpec T} {fm : T → T → T → T} (F : FloatSem S fm) (t : FTree) (L hd : ℕ)
    (hperm : t.leaves.Perm (List.range L)) (hdep : t.depth ≤ hd) :
    HFoldSem F L hd (fun f => t.eval S.add f) (fun g => t.eval addA g) where
  shape := ftree_shape t L hd hperm hdep
  rel := fun term f g h => ftree_rel F term t f g (fun k hk => h k (by have := (hperm.mem_iff).mp hk; simpa using this))

/-- the four x86 float fold trees visit every lane exactly once -/
theorem t8_perm : t8.leaves.Perm (List.range 8) := by decide
theorem t4_perm : t4.leaves.Perm (List.range 4) := by decide
theorem h16_perm : (halvingTree 4 4 0).leaves.Perm (List.range 16) := by decide
theorem h8_perm : (halvingTree 3 3 0).leaves.Perm (List.range 8) := by decide

end Cfavml.FloatReduce
