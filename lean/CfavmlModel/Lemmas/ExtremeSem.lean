/-
Order semantics of the horizontal max / min kernels on floats.

A float type is read through `val : T → V` into a linear order with a bottom (`V = EReal`, or its order dual for `min`),
on the values for which `Num` holds (the non-NaN bit patterns; `+0` and `−0` have the same `val`). An operation is a
*max on numbers* (`IsMaxOn`) when on numbers it returns a number whose value is the larger of the two values — true of
x86 `maxps`/`maxpd` lanes, of Rust's `f32::max`, and of the model's integer `max`, whichever operand they return on ties.

`ext_true_extreme`: in the layout of the reduction kernels (any lane count, any mixture of two such operations in lanes,
roll-up, horizontal fold and tail), the result on NaN-free data is a number whose value is the maximum of the values of
the first `dims` elements — `⊥` for the empty vector. Proof: `reduceModel_rel` to the same layout over `(V, max, ⊥)`,
then the commutative-monoid theorem `reduceModel_sum_monoid`.
-/
import Mathlib.Order.BoundedOrder.Basic
import Mathlib.Order.Lattice
import Mathlib.Order.OrderDual
import CfavmlModel.Lemmas.ReduceRel
import CfavmlModel.Lemmas.FloatReduce
import CfavmlModel.Lemmas.FoldTree

namespace Cfavml.ExtremeSem
open KernelModel FloatReduce

section
variable {T V : Type} [LinearOrder V] [OrderBot V]

/-- `op` computes the maximum on numbers -/
def IsMaxOn (Num : T → Prop) (val : T → V) (op : T → T → T) : Prop :=
  ∀ x y, Num x → Num y → Num (op x y) ∧ val (op x y) = max (val x) (val y)

theorem maxMonoid : CommMonoidOn (max : V → V → V) ⊥ :=
  ⟨fun x y z => max_assoc x y z, fun x y => max_comm x y, fun x => by simp⟩

/-- the horizontal fold of a backend computes the maximum of the `L` lanes on numbers -/
def FoldIsMax (Num : T → Prop) (val : T → V) (L : ℕ) (hfold : (ℕ → T) → T) : Prop :=
  ∀ f, (∀ k, k < L → Num (f k)) → Num (hfold f) ∧ val (hfold f) = sumR max ⊥ (fun k => val (f k)) L

/-- **the kernel layout returns the true extreme** -/
theorem ext_true_extreme (E : Env) (Num : T → Prop) (val : T → V) (e : T) (vop top : T → T → T) (hfold : (ℕ → T) → T)
    (L dims : ℕ) (hL : 0 < L) (hsmall : L * 8 < usizeMod)
    (he : Num e ∧ val e = ⊥) (hv : IsMaxOn Num val vop) (ht : IsMaxOn Num val top) (hf : FoldIsMax Num val L hfold)
    (a : ℕ → T) (hnum : ∀ i, i < dims → Num (a i)) :
    Num (reduceModel (extOps e vop top hfold a) L dims)
      ∧ val (reduceModel (extOps e vop top hfold a) L dims) = sumR max ⊥ (fun i => val (a i)) dims := by
  have key := reduceModel_rel (fun x y => Num x ∧ val x = y) (fun x y => Num x ∧ val x = y)
    (extOps e vop top hfold a)
    (sumOps (specOf (max : V → V → V) ⊥) (fun f => sumR max ⊥ f L) (fun i => val (a i))) L dims hL he
    (fun x y i hi h => by
      obtain ⟨h1, h2⟩ := hv x (a i) h.1 (hnum i hi)
      exact ⟨h1, by show val (vop x (a i)) = max y (val (a i)); rw [h2, h.2]⟩)
    (fun x y x' y' h1 h2 => by
      obtain ⟨a1, a2⟩ := hv x y h1.1 h2.1
      exact ⟨a1, by show val (vop x y) = max x' y'; rw [a2, h1.2, h2.2]⟩)
    (fun f f' h => by
      obtain ⟨a1, a2⟩ := hf f (fun k hk => (h k hk).1)
      refine ⟨a1, ?_⟩
      show val (hfold f) = sumR max ⊥ f' L
      rw [a2]
      exact sumR_congr _ _ _ (fun k hk => (h k hk).2))
    (fun x y i hi h => by
      obtain ⟨h1, h2⟩ := ht x (a i) h.1 (hnum i hi)
      exact ⟨h1, by show val (top x (a i)) = max y (val (a i)); rw [h2, h.2]⟩)
  rw [reduceModel_sum_monoid maxMonoid E L dims hL hsmall] at key
  exact key

/-- the maximum as a fold is an upper bound of every element and is attained (or is `⊥` for the empty vector) -/
theorem sumR_max_ge (g : ℕ → V) (n : ℕ) : ∀ i, i < n → g i ≤ sumR max ⊥ g n := by
  induction n with
  | zero => intro i hi; omega
  | succ n ih =>
    intro i hi
    rw [sumR_succ]
    by_cases h : i < n
    · exact le_trans (ih i h) (le_max_left _ _)
    · have : i = n := by omega
      subst this; exact le_max_right _ _

theorem sumR_max_attained (g : ℕ → V) (n : ℕ) : sumR max ⊥ g n = ⊥ ∨ ∃ i, i < n ∧ sumR max ⊥ g n = g i := by
  induction n with
  | zero => left; rfl
  | succ n ih =>
    rw [sumR_succ]
    rcases max_choice (sumR max ⊥ g n) (g n) with h | h
    · rw [h]
      rcases ih with h0 | ⟨i, hi, e⟩
      · left; exact h0
      · right; exact ⟨i, by omega, e⟩
    · right; exact ⟨n, by omega, h⟩

/-- a fold tree over one max-operation whose leaves are the `L` lanes is a `FoldIsMax` -/
theorem ftree_isMax (Num : T → Prop) (val : T → V) (op : T → T → T) (hop : IsMaxOn Num val op) (t : FTree) :
    ∀ f : ℕ → T, (∀ k ∈ t.leaves, Num (f k)) →
      Num (t.eval op f) ∧ val (t.eval op f) = (t.leaves.map (fun k => val (f k))).foldr max ⊥ := by
  induction t with
  | leaf k => intro f h; exact ⟨h k (by simp [FTree.leaves]), by simp [FTree.eval, FTree.leaves]⟩
  | node l r ihl ihr =>
    intro f h
    obtain ⟨a1, a2⟩ := ihl f (fun k hk => h k (by simp [FTree.leaves, hk]))
    obtain ⟨b1, b2⟩ := ihr f (fun k hk => h k (by simp [FTree.leaves, hk]))
    obtain ⟨c1, c2⟩ := hop _ _ a1 b1
    refine ⟨c1, ?_⟩
    simp only [FTree.eval, FTree.leaves, List.map_append, List.foldr_append]
    rw [c2, a2, b2]
    generalize (List.map (fun k => val (f k)) r.leaves).foldr max ⊥ = z
    induction (List.map (fun k => val (f k)) l.leaves) with
    | nil => simp
    | cons x xs ih => simp only [List.foldr_cons]; rw [← ih, max_assoc]

theorem foldr_max_perm (l l' : List V) (h : l.Perm l') : l.foldr max ⊥ = l'.foldr max ⊥ := by
  induction h with
  | nil => rfl
  | cons x _ ih => simp only [List.foldr_cons, ih]
  | swap x y l => simp only [List.foldr_cons]; rw [← max_assoc, ← max_assoc, max_comm y x]
  | trans _ _ ih1 ih2 => exact ih1.trans ih2

theorem sumR_max_eq_foldr (g : ℕ → V) (n : ℕ) : sumR max ⊥ g n = ((List.range n).map g).foldr max ⊥ := by
  induction n with
  | zero => rfl
  | succ n ih =>
    rw [sumR_succ, ih, List.range_succ, List.map_append, List.foldr_append]
    simp only [List.map_cons, List.map_nil, List.foldr_cons, List.foldr_nil]
    generalize (List.map g (List.range n)) = l
    induction l with
    | nil => simp [max_comm]
    | cons x xs ih' => simp only [List.foldr_cons]; rw [← ih', max_assoc]

theorem ftree_foldIsMax (Num : T → Prop) (val : T → V) (op : T → T → T) (hop : IsMaxOn Num val op) (t : FTree) (L : ℕ)
    (hperm : t.leaves.Perm (List.range L)) : FoldIsMax Num val L (fun f => t.eval op f) := by
  intro f hnum
  obtain ⟨a1, a2⟩ := ftree_isMax Num val op hop t f (fun k hk => hnum k (by simpa using (hperm.mem_iff.mp hk)))
  refine ⟨a1, ?_⟩
  rw [a2, sumR_max_eq_foldr]
  exact foldr_max_perm _ _ (hperm.map _)

end

/-! ### operations given by a comparison, the two fold shapes of the AVX2 float backends, and the dual (min) form -/

section
variable {T V : Type} [LinearOrder V] [OrderBot V]

omit [OrderBot V] in
/-- `maxps` lane: `if y < x then x else y` is a max on numbers as soon as `lt` reflects the order on numbers -/
theorem isMaxOn_of_lt (Num : T → Prop) (val : T → V) (lt : T → T → Bool)
    (hlt : ∀ x y, Num x → Num y → (lt x y = true ↔ val x < val y)) :
    IsMaxOn Num val (fun x y => if lt y x then x else y) := by
  intro x y hx hy
  by_cases h : lt y x = true
  · simp only [h, if_true]
    exact ⟨hx, (max_eq_left (le_of_lt ((hlt y x hy hx).mp h))).symm⟩
  · simp only [h]
    have : ¬ val y < val x := fun c => h ((hlt y x hy hx).mpr c)
    exact ⟨hy, (max_eq_right (not_lt.mp this)).symm⟩

/-- AVX2 `f32` horizontal fold: four lane-wise extremes of the two halves, then a scalar tree -/
def shape8 {T : Type} (vop top : T → T → T) (f : ℕ → T) : T :=
  top (top (vop (f 0) (f 4)) (vop (f 1) (f 5))) (top (vop (f 2) (f 6)) (vop (f 3) (f 7)))
/-- AVX2 `f64` horizontal fold: two lane-wise extremes of the halves, then one scalar operation -/
def shape4 {T : Type} (vop top : T → T → T) (f : ℕ → T) : T := top (vop (f 0) (f 2)) (vop (f 1) (f 3))

theorem shape8_local {T : Type} (vop top : T → T → T) : FoldLocal 8 (shape8 vop top) := by
  intro f g h
  unfold shape8
  rw [h 0 (by omega), h 1 (by omega), h 2 (by omega), h 3 (by omega), h 4 (by omega), h 5 (by omega), h 6 (by omega), h 7 (by omega)]
theorem shape4_local {T : Type} (vop top : T → T → T) : FoldLocal 4 (shape4 vop top) := by
  intro f g h
  unfold shape4
  rw [h 0 (by omega), h 1 (by omega), h 2 (by omega), h 3 (by omega)]

/-- a one-lane backend (Fallback): the fold returns the lane -/
theorem fold1_isMax (Num : T → Prop) (val : T → V) : FoldIsMax Num val 1 (fun f => f 0) := by
  intro f h
  exact ⟨h 0 (by omega), by simp [sumR]⟩

theorem shape8_isMax (Num : T → Prop) (val : T → V) (vop top : T → T → T) (hv : IsMaxOn Num val vop)
    (ht : IsMaxOn Num val top) :
    FoldIsMax Num val 8 (shape8 vop top) := by
  intro f h
  unfold shape8
  obtain ⟨a0, b0⟩ := hv (f 0) (f 4) (h 0 (by omega)) (h 4 (by omega))
  obtain ⟨a1, b1⟩ := hv (f 1) (f 5) (h 1 (by omega)) (h 5 (by omega))
  obtain ⟨a2, b2⟩ := hv (f 2) (f 6) (h 2 (by omega)) (h 6 (by omega))
  obtain ⟨a3, b3⟩ := hv (f 3) (f 7) (h 3 (by omega)) (h 7 (by omega))
  obtain ⟨c0, d0⟩ := ht _ _ a0 a1
  obtain ⟨c1, d1⟩ := ht _ _ a2 a3
  obtain ⟨c2, d2⟩ := ht _ _ c0 c1
  refine ⟨c2, ?_⟩
  rw [d2, d0, d1, b0, b1, b2, b3]
  simp only [sumR]
  simp only [max_assoc, max_comm, max_left_comm, bot_le, max_eq_left, max_eq_right]

/-- AVX2 `f64`: two lane-wise maxima of the halves, then one scalar max -/
theorem shape4_isMax (Num : T → Prop) (val : T → V) (vop top : T → T → T) (hv : IsMaxOn Num val vop)
    (ht : IsMaxOn Num val top) :
    FoldIsMax Num val 4 (shape4 vop top) := by
  intro f h
  unfold shape4
  obtain ⟨a0, b0⟩ := hv (f 0) (f 2) (h 0 (by omega)) (h 2 (by omega))
  obtain ⟨a1, b1⟩ := hv (f 1) (f 3) (h 1 (by omega)) (h 3 (by omega))
  obtain ⟨c0, d0⟩ := ht _ _ a0 a1
  refine ⟨c0, ?_⟩
  rw [d0, b0, b1]
  simp only [sumR]
  simp only [max_assoc, max_comm, max_left_comm, bot_le, max_eq_left, max_eq_right]

end

section
variable {T W : Type} [LinearOrder W] [OrderTop W]

/-- `op` computes the minimum on numbers -/
def IsMinOn (Num : T → Prop) (val : T → W) (op : T → T → T) : Prop :=
  ∀ x y, Num x → Num y → Num (op x y) ∧ val (op x y) = min (val x) (val y)

theorem IsMinOn.dual {Num : T → Prop} {val : T → W} {op : T → T → T} (h : IsMinOn Num val op) :
    IsMaxOn (V := Wᵒᵈ) Num (fun x => OrderDual.toDual (val x)) op := by
  intro x y hx hy
  obtain ⟨a, b⟩ := h x y hx hy
  exact ⟨a, congrArg OrderDual.toDual b⟩

omit [OrderTop W] in
theorem isMinOn_of_lt (Num : T → Prop) (val : T → W) (lt : T → T → Bool)
    (hlt : ∀ x y, Num x → Num y → (lt x y = true ↔ val x < val y)) :
    IsMinOn Num val (fun x y => if lt x y then x else y) := by
  intro x y hx hy
  by_cases h : lt x y = true
  · simp only [h, if_true]
    exact ⟨hx, (min_eq_left (le_of_lt ((hlt x y hx hy).mp h))).symm⟩
  · simp only [h]
    have : ¬ val x < val y := fun c => h ((hlt x y hx hy).mpr c)
    exact ⟨hy, (min_eq_right (not_lt.mp this)).symm⟩

theorem sumR_dual (g : ℕ → W) (n : ℕ) :
    sumR (max : Wᵒᵈ → Wᵒᵈ → Wᵒᵈ) ⊥ (fun i => OrderDual.toDual (g i)) n = OrderDual.toDual (sumR min ⊤ g n) := by
  induction n with
  | zero => rfl
  | succ n ih => rw [sumR_succ, sumR_succ, ih]; rfl

/-- the horizontal fold computes the minimum of the lanes -/
def FoldIsMin (Num : T → Prop) (val : T → W) (L : ℕ) (hfold : (ℕ → T) → T) : Prop :=
  FoldIsMax (V := Wᵒᵈ) Num (fun x => OrderDual.toDual (val x)) L hfold

/-- **the kernel layout returns the true minimum** (`⊤` for the empty vector) -/
theorem ext_true_min (E : Env) (Num : T → Prop) (val : T → W) (e : T) (vop top : T → T → T) (hfold : (ℕ → T) → T)
    (L dims : ℕ) (hL : 0 < L) (hsmall : L * 8 < usizeMod)
    (he : Num e ∧ val e = ⊤) (hv : IsMinOn Num val vop) (ht : IsMinOn Num val top) (hf : FoldIsMin Num val L hfold)
    (a : ℕ → T) (hnum : ∀ i, i < dims → Num (a i)) :
    Num (reduceModel (extOps e vop top hfold a) L dims)
      ∧ val (reduceModel (extOps e vop top hfold a) L dims) = sumR min ⊤ (fun i => val (a i)) dims := by
  obtain ⟨h1, h2⟩ := ext_true_extreme (V := Wᵒᵈ) E Num (fun x => OrderDual.toDual (val x)) e vop top hfold L dims hL hsmall
    ⟨he.1, congrArg OrderDual.toDual he.2⟩ hv.dual ht.dual hf a hnum
  refine ⟨h1, ?_⟩
  rw [sumR_dual] at h2
  exact OrderDual.toDual.injective h2

theorem sumR_min_le (g : ℕ → W) (n : ℕ) : ∀ i, i < n → sumR min ⊤ g n ≤ g i := by
  induction n with
  | zero => intro i hi; omega
  | succ n ih =>
    intro i hi
    rw [sumR_succ]
    by_cases h : i < n
    · exact le_trans (min_le_left _ _) (ih i h)
    · have : i = n := by omega
      subst this; exact min_le_right _ _

theorem sumR_min_attained (g : ℕ → W) (n : ℕ) : sumR min ⊤ g n = ⊤ ∨ ∃ i, i < n ∧ sumR min ⊤ g n = g i := by
  induction n with
  | zero => left; rfl
  | succ n ih =>
    rw [sumR_succ]
    rcases min_choice (sumR min ⊤ g n) (g n) with h | h
    · rw [h]
      rcases ih with h0 | ⟨i, hi, e⟩
      · left; exact h0
      · right; exact ⟨i, by omega, e⟩
    · right; exact ⟨n, by omega, h⟩

end

/-! ### three-way comparison lanes (NEON FMAX / FMIN on numbers): larger / smaller operand, `tie x y` when equal -/
section
variable {T V : Type} [LinearOrder V]

theorem cmp3_isMax (Num : T → Prop) (val : T → V) (lt : T → T → Bool) (tie : T → T → T)
    (hlt : ∀ x y, Num x → Num y → (lt x y = true ↔ val x < val y))
    (htie : ∀ x y, Num x → Num y → val x = val y → Num (tie x y) ∧ val (tie x y) = val x) :
    IsMaxOn Num val (fun x y => if lt y x then x else if lt x y then y else tie x y) := by
  intro x y hx hy
  by_cases h1 : lt y x = true
  · simp only [h1, if_true]
    exact ⟨hx, (max_eq_left (le_of_lt ((hlt y x hy hx).mp h1))).symm⟩
  · by_cases h2 : lt x y = true
    · simp only [h1, h2, if_true]
      exact ⟨hy, (max_eq_right (le_of_lt ((hlt x y hx hy).mp h2))).symm⟩
    · simp only [h1, h2, Bool.false_eq_true, if_false]
      have e : val x = val y := le_antisymm
        (not_lt.mp (fun c => h1 ((hlt y x hy hx).mpr c))) (not_lt.mp (fun c => h2 ((hlt x y hx hy).mpr c)))
      obtain ⟨a, b⟩ := htie x y hx hy e
      exact ⟨a, by rw [b, e, max_self]⟩

theorem cmp3_isMin (Num : T → Prop) (val : T → V) (lt : T → T → Bool) (tie : T → T → T)
    (hlt : ∀ x y, Num x → Num y → (lt x y = true ↔ val x < val y))
    (htie : ∀ x y, Num x → Num y → val x = val y → Num (tie x y) ∧ val (tie x y) = val x) :
    IsMinOn Num val (fun x y => if lt x y then x else if lt y x then y else tie x y) := by
  intro x y hx hy
  by_cases h1 : lt x y = true
  · simp only [h1, if_true]
    exact ⟨hx, (min_eq_left (le_of_lt ((hlt x y hx hy).mp h1))).symm⟩
  · by_cases h2 : lt y x = true
    · simp only [h1, h2, if_true]
      exact ⟨hy, (min_eq_right (le_of_lt ((hlt y x hy hx).mp h2))).symm⟩
    · simp only [h1, h2, Bool.false_eq_true, if_false]
      have e : val x = val y := le_antisymm
        (not_lt.mp (fun c => h2 ((hlt y x hy hx).mpr c))) (not_lt.mp (fun c => h1 ((hlt x y hx hy).mpr c)))
      obtain ⟨a, b⟩ := htie x y hx hy e
      exact ⟨a, by rw [b, e, min_self]⟩

end

end Cfavml.ExtremeSem
