/-
Horizontal float folds of the x86 backends as explicit *fold trees* over the lane indices:
  AVX2 f32   ((x4+x0)+(x6+x2)) + ((x5+x1)+(x7+x3))        depth 3
  AVX2 f64   (x2+x0) + (x3+x1)                             depth 2   (independent of the `_mm_undefined_ps` operand)
  AVX-512    the halving tree of stdarch's `_mm512_reduce_add_ps/pd`   depth 4 / 3
`FTree.eval op lanes` is what `sum_to_value` returns, bit for bit.
-/
import CfavmlModel.Lemmas.X86Hard
import CfavmlModel.Thm.C13X86
import CfavmlModel.Gen.ImplAvx2Fma

namespace Cfavml
open X86

inductive FTree where
  | leaf (k : Nat)
  | node (l r : FTree)

def FTree.eval {A : Type} (op : A → A → A) (f : Nat → A) : FTree → A
  | .leaf k => f k
  | .node l r => op (l.eval op f) (r.eval op f)

def t8 : FTree := .node (.node (.node (.leaf 4) (.leaf 0)) (.node (.leaf 6) (.leaf 2))) (.node (.node (.leaf 5) (.leaf 1)) (.node (.leaf 7) (.leaf 3)))
def t4 : FTree := .node (.node (.leaf 2) (.leaf 0)) (.node (.leaf 3) (.leaf 1))

theorem lane32_hi (E : Env) (r : BitVec 256) (k : Nat) (hk : k < 4) :
    lane 32 k (X86._mm256_extractf128_ps E 1 r) = lane 32 (4 + k) r := by
  unfold X86._mm256_extractf128_ps
  rw [lane_setWidth 32 k _ (by omega)]
  exact lane_ushiftRight 32 4 k r
theorem lane32_lo (E : Env) (r : BitVec 256) (k : Nat) (hk : k < 4) :
    lane 32 k (X86._mm256_castps256_ps128 E r) = lane 32 k r := by
  unfold X86._mm256_castps256_ps128
  exact lane_setWidth 32 k _ (by omega)
theorem lane64_hi (E : Env) (r : BitVec 256) (k : Nat) (hk : k < 2) :
    lane 64 k (X86._mm256_extractf128_pd E 1 r) = lane 64 (2 + k) r := by
  unfold X86._mm256_extractf128_pd
  rw [lane_setWidth 64 k _ (by omega)]
  exact lane_ushiftRight 64 2 k r
theorem lane64_lo (E : Env) (r : BitVec 256) (k : Nat) (hk : k < 2) :
    lane 64 k (X86._mm256_castpd256_pd128 E r) = lane 64 k r := by
  unfold X86._mm256_castpd256_pd128
  exact lane_setWidth 64 k _ (by omega)

theorem avx2_f32_sum (E : Env) (r : BitVec 256) :
    (Avx2_f32.inst E).sum_to_value r = pure (t8.eval E.F.add32 (xlanes 32 r)) := by
  show Avx2_f32.sum_to_value E r = _
  unfold Avx2_f32.sum_to_value
  simp only []
  congr 1
  simp only [X86._mm_cvtss_f32, X86._mm_add_ss, X86._mm_shuffle_ps, X86._mm_movehl_ps, X86._mm_add_ps, FTree.eval, t8, xlanes]
  simp (config := {decide := true}) [lane_fromLanes, X86.map2, X86.bits2, lane32_hi, lane32_lo]

/-- the low 64-bit lane of a register assembled from 32-bit lanes, when its two halves are the halves of a 64-bit lane -/
theorem lane64_of_lanes32 (g : Nat → BitVec 32) (Y : BitVec 128) (q : Nat)
    (h0 : g 0 = lane 32 (2 * q) Y) (h1 : g 1 = lane 32 (2 * q + 1) Y) :
    lane 64 0 (fromLanes (n := 128) 32 4 g) = lane 64 q Y := by
  apply BitVec.eq_of_getLsbD_eq
  intro j hj
  rw [getLsbD_lane, getLsbD_lane, getLsbD_fromLanes 32 (by decide)]
  by_cases hlt : j < 32
  · have e1 : (64 * 0 + j) / 32 = 0 := by omega
    have e2 : (64 * 0 + j) % 32 = j := by omega
    rw [e1, e2, h0, getLsbD_lane]
    have : 32 * (2 * q) + j = 64 * q + j := by omega
    simp [hj, hlt, this]; omega
  · have e1 : (64 * 0 + j) / 32 = 1 := by omega
    have e2 : (64 * 0 + j) % 32 = j - 32 := by omega
    rw [e1, e2, h1, getLsbD_lane]
    have : 32 * (2 * q + 1) + (j - 32) = 64 * q + j := by omega
    have h3 : j - 32 < 32 := by omega
    simp [hj, h3, this]; omega

theorem avx2_f64_sum (E : Env) (r : BitVec 256) :
    (Avx2_f64.inst E).sum_to_value r = pure (t4.eval E.F.add64 (xlanes 64 r)) := by
  show Avx2_f64.sum_to_value E r = _
  unfold Avx2_f64.sum_to_value
  simp only []
  congr 1
  simp only [X86._mm_cvtsd_f64, X86._mm_add_sd, X86._mm_castps_pd, X86._mm_castpd_ps, X86._mm_movehl_ps, X86._mm_add_pd, FTree.eval, t4, xlanes]
  simp (config := {decide := true}) only [lane_fromLanes, X86.map2, lane64_hi, lane64_lo]
  rw [lane64_of_lanes32 _ (X86.map2 64 2 E.F.add64 (X86._mm256_extractf128_pd E 1 r) (X86._mm256_castpd256_pd128 E r)) 1 (by simp [X86.map2]) (by simp [X86.map2])]
  rw [if_pos trivial, lane_map2 (by decide) (by decide) _ _ _ 1 (by decide), lane64_hi E r 1 (by decide), lane64_lo E r 1 (by decide)]

/-- leaves of a fold tree, left to right -/
def FTree.leaves : FTree → List Nat
  | .leaf k => [k]
  | .node l r => l.leaves ++ r.leaves

def FTree.depth : FTree → Nat
  | .leaf _ => 0
  | .node l r => max l.depth r.depth + 1

/-- the halving tree of `X86.reduceHalving` with `s` steps: `j` levels remaining, starting at `off` -/
def halvingTree (s : Nat) : Nat → Nat → FTree
  | 0, off => .leaf off
  | j + 1, off => .node (halvingTree s j off) (halvingTree s j (off + 2 ^ (s - 1 - j)))

theorem avx512_f32_sum (E : Env) (r : BitVec 512) :
    (Avx512_f32.inst E).sum_to_value r = pure ((halvingTree 4 4 0).eval E.F.add32 (xlanes 32 r)) := rfl
theorem avx512_f64_sum (E : Env) (r : BitVec 512) :
    (Avx512_f64.inst E).sum_to_value r = pure ((halvingTree 3 3 0).eval E.F.add64 (xlanes 64 r)) := rfl
theorem avx2fma_f32_sum (E : Env) (r : BitVec 256) :
    (Avx2Fma_f32.inst E).sum_to_value r = pure (t8.eval E.F.add32 (xlanes 32 r)) := by
  show Avx2Fma_f32.sum_to_value E r = _
  unfold Avx2Fma_f32.sum_to_value
  rw [show Avx2_f32.sum_to_value E r = (Avx2_f32.inst E).sum_to_value r from rfl, avx2_f32_sum]
theorem avx2fma_f64_sum (E : Env) (r : BitVec 256) :
    (Avx2Fma_f64.inst E).sum_to_value r = pure (t4.eval E.F.add64 (xlanes 64 r)) := by
  show Avx2Fma_f64.sum_to_value E r = _
  unfold Avx2Fma_f64.sum_to_value
  rw [show Avx2_f64.sum_to_value E r = (Avx2_f64.inst E).sum_to_value r from rfl, avx2_f64_sum]

/-- a fold tree looks at its leaves only -/
theorem FTree.eval_congr {A : Type} (op : A → A → A) (f g : Nat → A) (t : FTree) (h : ∀ k ∈ t.leaves, f k = g k) :
    t.eval op f = t.eval op g := by
  induction t with
  | leaf k => exact h k (by simp [FTree.leaves])
  | node l r ihl ihr =>
    simp only [FTree.eval]
    rw [ihl (fun k hk => h k (by simp [FTree.leaves, hk])), ihr (fun k hk => h k (by simp [FTree.leaves, hk]))]

end Cfavml
