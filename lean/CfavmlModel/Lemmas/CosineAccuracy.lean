/-
Real-analysis core of the cosine accuracy bound (C06).

`ĉ = fl(1 − fl(d̂ / fl(√ fl(n̂x · n̂y))))` with `d̂, n̂x, n̂y` the computed dot product and squared norms
(`|d̂ − d| ≤ g·A`, `A = Σ|aᵢbᵢ| ≤ √(nx·ny)` by Cauchy–Schwarz, `|n̂x − nx| ≤ g·nx`, `|n̂y − ny| ≤ g·ny`, `g = γ(n+3)`)
and four more roundings `|δᵢ| ≤ u`. Then `|ĉ − (1 − d/√(nx·ny))| ≤ 3g + 8u` whenever `g ≤ 1/8`, `u ≤ 1/64`, and hence
`≤ 4(n+8)u` whenever `(n+8)u ≤ 1/16`.
-/
import Mathlib.Analysis.Real.Sqrt
import Mathlib.Tactic.GCongr
import Mathlib.Tactic.Linarith
import Mathlib.Tactic.Positivity
import Mathlib.Tactic.Ring
import Mathlib.Tactic.FieldSimp
import CfavmlModel.Lemmas.Rounding

namespace Cfavml.Rounding
open Real

/-- the square-root stage: `r = √((1+α)(1+β)(1+δ₁)) · (1+δ₂)` stays within `g + 3u` of 1 -/
theorem sqrt_stage {g u α β δ₁ δ₂ : ℝ} (hg0 : 0 ≤ g) (hu0 : 0 ≤ u) (hg : g ≤ 1 / 8) (hu : u ≤ 1 / 64)
    (hα : |α| ≤ g) (hβ : |β| ≤ g) (h1 : |δ₁| ≤ u) (h2 : |δ₂| ≤ u) :
    |Real.sqrt ((1 + α) * (1 + β) * (1 + δ₁)) * (1 + δ₂) - 1| ≤ g + 3 * u := by
  have a1 := abs_le.mp hα; have b1 := abs_le.mp hβ; have d1 := abs_le.mp h1; have d2 := abs_le.mp h2
  set w := (1 + α) * (1 + β) * (1 + δ₁) with hw
  -- (1 - g)^2 (1 - u) ≤ w ≤ (1 + g)^2 (1 + u)
  have hlo : (1 - g) * (1 - g) * (1 - u) ≤ w := by
    have p1 : (1 - g) * (1 - g) ≤ (1 + α) * (1 + β) := by nlinarith
    have p2 : 0 ≤ (1 + α) * (1 + β) := by nlinarith
    nlinarith
  have hhi : w ≤ (1 + g) * (1 + g) * (1 + u) := by
    have p1 : (1 + α) * (1 + β) ≤ (1 + g) * (1 + g) := by nlinarith
    have p2 : 0 ≤ (1 + α) * (1 + β) := by nlinarith
    nlinarith
  have hw0 : 0 ≤ w := le_trans (by nlinarith) hlo
  -- 1 - g - u ≤ √w ≤ 1 + g + u
  have slo : 1 - g - u ≤ Real.sqrt w := by
    apply Real.le_sqrt_of_sq_le
    have : (1 - g - u) ^ 2 ≤ (1 - g) * (1 - g) * (1 - u) := by
      nlinarith [mul_nonneg hu0 (show (0 : ℝ) ≤ 1 - g * g - u by nlinarith)]
    linarith
  have shi : Real.sqrt w ≤ 1 + g + u := by
    rw [Real.sqrt_le_left (by linarith)]
    have : (1 + g) * (1 + g) * (1 + u) ≤ (1 + g + u) ^ 2 := by
      nlinarith [mul_nonneg hu0 (show (0 : ℝ) ≤ 1 - g * g + u by nlinarith)]
    linarith
  have hs0 : 0 ≤ Real.sqrt w := Real.sqrt_nonneg w
  rw [abs_le]
  constructor <;> nlinarith

/-- the division and final subtraction -/
theorem div_sub_stage {g u η q e' ρ δ₃ δ₄ : ℝ} (hg0 : 0 ≤ g) (hu0 : 0 ≤ u) (hg : g ≤ 1 / 8) (hu : u ≤ 1 / 64)
    (hη : η = g + 3 * u) (hq : |q| ≤ 1) (he : |e'| ≤ g) (hρ : |ρ| ≤ η) (h3 : |δ₃| ≤ u) (h4 : |δ₄| ≤ u) :
    |(1 - (q + e') * (1 + δ₃) / (1 + ρ)) * (1 + δ₄) - (1 - q)| ≤ 3 * g + 8 * u := by
  have q1 := abs_le.mp hq; have e1 := abs_le.mp he; have r1 := abs_le.mp hρ
  have d3 := abs_le.mp h3; have d4 := abs_le.mp h4
  have hη4 : η ≤ 1 / 4 := by rw [hη]; linarith
  have hpos : 0 < 1 + ρ := by linarith
  -- κ = (1+δ₃)/(1+ρ)
  set κ := (1 + δ₃) / (1 + ρ) with hκ
  have hκ1 : |κ - 1| ≤ 4 / 3 * (g + 4 * u) := by
    have e : κ - 1 = (δ₃ - ρ) / (1 + ρ) := by rw [hκ]; field_simp; ring
    rw [e, abs_div, abs_of_pos hpos, div_le_iff₀ hpos]
    have : |δ₃ - ρ| ≤ u + η := by
      rw [abs_le]; constructor <;> linarith
    have hb : 0 ≤ g + 4 * u := by linarith
    nlinarith
  have k1 := abs_le.mp hκ1
  have hQ : (q + e') * (1 + δ₃) / (1 + ρ) = (q + e') * κ := by rw [hκ]; ring
  rw [hQ]
  -- Q̂ - q = q(κ-1) + e' κ
  have hκb : |κ| ≤ 5 / 4 := by
    rw [abs_le]; constructor <;> nlinarith
  have kb := abs_le.mp hκb
  have hdiff : |(q + e') * κ - q| ≤ 31 / 12 * g + 16 / 3 * u := by
    have e : (q + e') * κ - q = q * (κ - 1) + e' * κ := by ring
    rw [e]
    have t1 : |q * (κ - 1)| ≤ 4 / 3 * (g + 4 * u) := by
      rw [abs_mul]
      calc |q| * |κ - 1| ≤ 1 * |κ - 1| := by gcongr
        _ ≤ 4 / 3 * (g + 4 * u) := by linarith
    have t2 : |e' * κ| ≤ g * (5 / 4) := by
      rw [abs_mul]; gcongr
    calc |q * (κ - 1) + e' * κ| ≤ |q * (κ - 1)| + |e' * κ| := abs_add_le _ _
      _ ≤ 4 / 3 * (g + 4 * u) + g * (5 / 4) := add_le_add t1 t2
      _ = 31 / 12 * g + 16 / 3 * u := by ring
  have dd := abs_le.mp hdiff
  have hQb : |(q + e') * κ| ≤ 3 / 2 := by
    rw [abs_le]; constructor <;> nlinarith
  have qb := abs_le.mp hQb
  have e : (1 - (q + e') * κ) * (1 + δ₄) - (1 - q) = -((q + e') * κ - q) + δ₄ * (1 - (q + e') * κ) := by ring
  rw [e]
  have t3 : |δ₄ * (1 - (q + e') * κ)| ≤ u * (5 / 2) := by
    rw [abs_mul]
    have : |1 - (q + e') * κ| ≤ 5 / 2 := by rw [abs_le]; constructor <;> linarith
    gcongr
  calc |-((q + e') * κ - q) + δ₄ * (1 - (q + e') * κ)|
      ≤ |-((q + e') * κ - q)| + |δ₄ * (1 - (q + e') * κ)| := abs_add_le _ _
    _ ≤ (31 / 12 * g + 16 / 3 * u) + u * (5 / 2) := by rw [abs_neg]; exact add_le_add hdiff t3
    _ ≤ 3 * g + 8 * u := by nlinarith

/-- **cosine accuracy, real-number form.** -/
theorem cosine_real_bound {g u : ℝ} (hg0 : 0 ≤ g) (hu0 : 0 ≤ u) (hg : g ≤ 1 / 8) (hu : u ≤ 1 / 64)
    {d nx ny dh nxh nyh A δ₁ δ₂ δ₃ δ₄ : ℝ} (hnx : 0 < nx) (hny : 0 < ny)
    (hA : A ≤ Real.sqrt (nx * ny)) (hdA : |d| ≤ A)
    (hd : |dh - d| ≤ g * A) (hx : |nxh - nx| ≤ g * nx) (hy : |nyh - ny| ≤ g * ny)
    (h1 : |δ₁| ≤ u) (h2 : |δ₂| ≤ u) (h3 : |δ₃| ≤ u) (h4 : |δ₄| ≤ u) :
    |(1 - dh / (Real.sqrt (nxh * nyh * (1 + δ₁)) * (1 + δ₂)) * (1 + δ₃)) * (1 + δ₄) - (1 - d / Real.sqrt (nx * ny))|
      ≤ 3 * g + 8 * u := by
  set s := Real.sqrt (nx * ny) with hs
  have hs0 : 0 < s := Real.sqrt_pos.mpr (mul_pos hnx hny)
  -- relative perturbations of the norms
  obtain ⟨α, hα, eα⟩ : ∃ α, |α| ≤ g ∧ nxh = nx * (1 + α) := by
    refine ⟨(nxh - nx) / nx, ?_, by field_simp; ring⟩
    rw [abs_div, abs_of_pos hnx, div_le_iff₀ hnx]; linarith
  obtain ⟨β, hβ, eβ⟩ : ∃ β, |β| ≤ g ∧ nyh = ny * (1 + β) := by
    refine ⟨(nyh - ny) / ny, ?_, by field_simp; ring⟩
    rw [abs_div, abs_of_pos hny, div_le_iff₀ hny]; linarith
  have a1 := abs_le.mp hα; have b1 := abs_le.mp hβ; have dd1 := abs_le.mp h1
  -- the computed root is s * r
  have hprod : nxh * nyh * (1 + δ₁) = (nx * ny) * ((1 + α) * (1 + β) * (1 + δ₁)) := by rw [eα, eβ]; ring
  have hw0 : 0 ≤ (1 + α) * (1 + β) * (1 + δ₁) := by
    have : 0 ≤ (1 + α) * (1 + β) := by nlinarith
    nlinarith
  rw [hprod, Real.sqrt_mul (mul_pos hnx hny).le]
  set r := Real.sqrt ((1 + α) * (1 + β) * (1 + δ₁)) * (1 + δ₂) with hr
  have hr1 := sqrt_stage hg0 hu0 hg hu hα hβ h1 h2
  rw [← hr] at hr1
  have rr := abs_le.mp hr1
  have hrpos : 0 < r := by linarith
  -- rewrite the computed quotient as (q + e')·(1+δ₃)/(1+ρ)
  have hq : |d / s| ≤ 1 := by
    rw [abs_div, abs_of_pos hs0, div_le_one hs0]; linarith
  have he : |(dh - d) / s| ≤ g := by
    rw [abs_div, abs_of_pos hs0, div_le_iff₀ hs0]
    calc |dh - d| ≤ g * A := hd
      _ ≤ g * s := by gcongr
  have key := div_sub_stage (q := d / s) (e' := (dh - d) / s) (ρ := r - 1) (δ₃ := δ₃) (δ₄ := δ₄)
    hg0 hu0 hg hu rfl hq he hr1 h3 h4
  have e : dh / (s * Real.sqrt ((1 + α) * (1 + β) * (1 + δ₁)) * (1 + δ₂)) * (1 + δ₃)
      = (d / s + (dh - d) / s) * (1 + δ₃) / (1 + (r - 1)) := by
    have : s * Real.sqrt ((1 + α) * (1 + β) * (1 + δ₁)) * (1 + δ₂) = s * r := by rw [hr]; ring
    have e1 : 1 + (r - 1) = r := by ring
    have hs' : s ≠ 0 := hs0.ne'
    have hr' : r ≠ 0 := hrpos.ne'
    rw [this, e1]
    field_simp
    ring
  rw [e]
  exact key

/-- in the `4(n+8)u` form of the property, for `(n+8)·u ≤ 1/16` -/
theorem cosine_bound_of_gamma (u : ℝ) (hu0 : 0 ≤ u) (n : ℕ) (hx : ((n : ℝ) + 8) * u ≤ 1 / 16) :
    3 * gamma u (n + 3) + 8 * u ≤ 4 * ((n : ℝ) + 8) * u ∧ gamma u (n + 3) ≤ 1 / 8 ∧ u ≤ 1 / 64 ∧ 0 ≤ gamma u (n + 3) := by
  have hn : (0 : ℝ) ≤ n := Nat.cast_nonneg n
  have hk : ((n + 3 : ℕ) : ℝ) * u ≤ 1 / 16 := by push_cast; nlinarith
  have hk0 : 0 ≤ ((n + 3 : ℕ) : ℝ) * u := by positivity
  have hden : 0 < 1 - ((n + 3 : ℕ) : ℝ) * u := by linarith
  have hγ : gamma u (n + 3) ≤ 16 / 15 * (((n + 3 : ℕ) : ℝ) * u) := by
    unfold gamma
    rw [div_le_iff₀ hden]
    nlinarith
  have hγ0 : 0 ≤ gamma u (n + 3) := gamma_nonneg u hu0 _ (by linarith)
  have hu64 : u ≤ 1 / 64 := by nlinarith
  refine ⟨?_, by nlinarith, hu64, hγ0⟩
  push_cast at hγ hk ⊢
  nlinarith

end Cfavml.Rounding
