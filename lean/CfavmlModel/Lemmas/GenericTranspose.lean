/-
`generic_transpose_spec`: the generated `generic_transpose` (cfavml-gemm/src/transpose/mod.rs) returns the exact
transpose for every shape, over any register transposer meeting `TransposeFaithful`.
-/
import CfavmlModel.Lemmas.TransposeBlocks

namespace Cfavml
section
variable {T Reg RM : Type} {E : Env} {R : SimdRegister T Reg} {RT : TransposeMatrix T RM} {N : Nat}
variable {mget : RM → Nat → Nat → T}

/-- the scalar inner loop of both tail phases, as generated: `while i < width { copy(j, i); i += 1 }` from `i0` -/
def tailRow (E : Env) (w h : Nat) (data : Slice T) (j i0 : Nat) (res : Slice T) : Exec (Slice T) := do
  let st2 ← loopM E.fuel (i0, res)
    (fun st2 => do
      let i := st2.1
      let result := st2.2
      pure (decide (i < w)))
    (fun st2 => do
      let i := st2.1
      let result := st2.2
      let t27 ← umul E j w
      let t28 ← Slice.read data (t27 + i)
      let t29 ← umul E i h
      let result ← Slice.write result (t29 + j) t28
      let i := (i + 1)
      pure (i, result))
  pure st2.2

theorem tailRow_ok {w h : Nat} (data res0 : Slice T) (hwh : w * h < usizeMod) (hd : data.size = w * h)
    (hn : res0.size = w * h) (hfuel : w < E.fuel) (j : Nat) (hj : j < h) (i0 : Nat) (hi0 : i0 ≤ w)
    (D : Nat → Nat → Prop) (res : Slice T) (hA : Agrees w h data res0 D res) :
    ∃ res', tailRow E w h data j i0 res = pure res'
      ∧ Agrees w h data res0 (fun a b => D a b ∨ (b = j ∧ i0 ≤ a ∧ a < w)) res' := by
  obtain ⟨res', e, h'⟩ := rowScan E data res0 hwh hd hn hfuel
    (fun st2 => do
      let i := st2.1
      let result := st2.2
      pure (decide (i < w)))
    (fun st2 => do
      let i := st2.1
      let result := st2.2
      let t27 ← umul E j w
      let t28 ← Slice.read data (t27 + i)
      let t29 ← umul E i h
      let result ← Slice.write result (t29 + j) t28
      let i := (i + 1)
      pure (i, result))
    j hj (fun _ => rfl)
    (by intro st; simp only [copyStep, bind_assoc]) i0 hi0 D res hA
  exact ⟨res', by unfold tailRow; rw [e]; rfl, h'⟩

/-- one row of `2N×2N` blocks, as generated -/
def blockRow (E : Env) (RT : TransposeMatrix T RM) (w h N : Nat) (data : Slice T) (j : Nat) (res : Slice T) : Exec (Slice T) := do
  let st2 ← loopM E.fuel ((0 : Nat), res)
    (fun st2 => do
      let i := st2.1
      let result := st2.2
      let t8 ← usub E w (w % (N * 2))
      pure (decide (i < t8)))
    (fun st2 => do
      let result ← block4 E RT w h N data j st2.1 st2.2
      pure (st2.1 + N * 2, result))
  pure st2.2

theorem blockRow_ok (TF : TransposeFaithful R RT N mget) {w h : Nat} (data res0 : Slice T) (hwh : w * h < usizeMod)
    (hd : data.size = w * h) (hn : res0.size = w * h) (hfuel : w < E.fuel) (j : Nat) (hj : j + 2 * N ≤ h)
    (D : Nat → Nat → Prop) (res : Slice T) (hA : Agrees w h data res0 D res) :
    ∃ res', blockRow E RT w h N data j res = pure res'
      ∧ Agrees w h data res0 (fun a b => D a b ∨ (a < w - w % (N * 2) ∧ j ≤ b ∧ b < j + 2 * N)) res' := by
  have hB : 0 < N * 2 := by have := TF.N_pos; omega
  have hdm := Nat.div_add_mod w (N * 2)
  rw [Nat.mul_comm] at hdm
  unfold blockRow
  rw [loopM_counted E.fuel _ _ (block4 E RT w h N data j) (w - w % (N * 2)) (N * 2) hB
    (by intro st; rw [usub_le E _ _ (Nat.mod_le _ _)]; simp)
    (by intro st; rfl)
    (w / (N * 2)) 0 res (by have : w / (N * 2) ≤ w := Nat.div_le_self _ _; omega) (by omega)
    (by intro m hm
        have : (m + 1) * (N * 2) ≤ w / (N * 2) * (N * 2) := Nat.mul_le_mul_right _ (by omega)
        rw [Nat.succ_mul] at this; omega)]
  obtain ⟨res', e, h'⟩ := stridedIter data res0 (block4 E RT w h N data j) (N * 2) (w / (N * 2)) 0
    (fun i a b => i ≤ a ∧ a < i + 2 * N ∧ j ≤ b ∧ b < j + 2 * N)
    (by
      intro m hm r D' hr
      have : (m + 1) * (N * 2) ≤ w / (N * 2) * (N * 2) := Nat.mul_le_mul_right _ (by omega)
      rw [Nat.succ_mul] at this
      exact block4_ok (E := E) TF data res0 r hwh hd hn (by omega) hj D' hr)
    D res hA
  refine ⟨res', by rw [e]; rfl, h'.congr ?_⟩
  intro a b _ _
  constructor
  · rintro (x | ⟨m, hm, x1, x2, x3, x4⟩)
    · exact Or.inl x
    · refine Or.inr ⟨?_, x3, x4⟩
      have : (m + 1) * (N * 2) ≤ w / (N * 2) * (N * 2) := Nat.mul_le_mul_right _ (by omega)
      rw [Nat.succ_mul] at this
      omega
  · rintro (x | ⟨x1, x2, x3⟩)
    · exact Or.inl x
    · refine Or.inr ⟨a / (N * 2), ?_, ?_, ?_, x2, x3⟩
      · rw [Nat.div_lt_iff_lt_mul hB]; omega
      · have := Nat.div_add_mod a (N * 2); rw [Nat.mul_comm] at this; omega
      · have := Nat.div_add_mod a (N * 2); rw [Nat.mul_comm] at this
        have := Nat.mod_lt a hB
        omega

end
end Cfavml

namespace Cfavml
section
variable {T Reg RM : Type} {E : Env} {R : SimdRegister T Reg} {RT : TransposeMatrix T RM} {N : Nat}
variable {mget : RM → Nat → Nat → T}

/-- **`generic_transpose` is an exact, in-bounds, terminating transposition** for every shape, over any register
transposer meeting `TransposeFaithful` (any block size `N ≥ 1`) -/
theorem generic_transpose_spec (TF : TransposeFaithful R RT N mget) (w h : Nat) (data result : Slice T)
    (hfw : w < E.fuel) (hfh : h < E.fuel)
    (hwh : w * h < usizeMod) (hd : data.size = w * h) (hr : result.size = data.size) :
    ∃ res', generic_transpose E R RT w h data result = pure res' ∧ IsTranspose w h data res' := by
  have hn : result.size = w * h := by rw [hr, hd]
  have hNp := TF.N_pos
  have hB : 0 < N * 2 := by omega
  have hdw := Nat.div_add_mod w (N * 2)
  have hdh := Nat.div_add_mod h (N * 2)
  rw [Nat.mul_comm] at hdw hdh
  have hmw := Nat.mod_lt w hB
  have hmh := Nat.mod_lt h hB
  unfold generic_transpose
  rw [checkedMulExpect_ok w h hwh]
  simp only [pure_bind, assertEq, hd, hr, if_true, TF.epl]
  rw [umul_ok E N 2 TF.N_small]
  simp only [pure_bind, umod_pos _ _ hB]
  -- phase 1: rows of 2N×2N blocks
  rw [loopM_counted E.fuel _ _ (blockRow E RT w h N data) (h - h % (N * 2)) (N * 2) hB
    (by intro st; rw [usub_le E _ _ (Nat.mod_le _ _)]; simp)
    (by intro st; simp only [blockRow, block4, oneBlock, bind_assoc, pure_bind])
    (h / (N * 2)) 0 result (by have : h / (N * 2) ≤ h := Nat.div_le_self _ _; omega) (by omega)
    (by intro m hm
        have : (m + 1) * (N * 2) ≤ h / (N * 2) * (N * 2) := Nat.mul_le_mul_right _ (by omega)
        rw [Nat.succ_mul] at this; omega)]
  obtain ⟨r1, e1, a1⟩ := stridedIter data result (blockRow E RT w h N data) (N * 2) (h / (N * 2)) 0
    (fun j a b => a < w - w % (N * 2) ∧ j ≤ b ∧ b < j + 2 * N)
    (by
      intro m hm r D' hr'
      have : (m + 1) * (N * 2) ≤ h / (N * 2) * (N * 2) := Nat.mul_le_mul_right _ (by omega)
      rw [Nat.succ_mul] at this
      exact blockRow_ok (E := E) TF data result hwh hd hn hfw _ (by omega) D' r hr')
    _ result (Agrees.init w h data result)
  rw [e1]
  simp only [pure_bind]
  -- phase 2: the tails of the rows covered by blocks
  rw [loopM_counted E.fuel _ _ (fun jr res => tailRow E w h data jr (w - w % (N * 2)) res) (h - h % (N * 2)) 1 (by omega)
    (by intro st; rw [usub_le E _ _ (Nat.mod_le _ _)]; simp)
    (by intro st; rw [usub_le E _ _ (Nat.mod_le _ _)]; simp only [tailRow, bind_assoc, pure_bind])
    (h - h % (N * 2)) 0 r1 (by omega) (by omega) (by intro m hm; omega)]
  obtain ⟨r2, e2, a2⟩ := stridedIter data result (fun jr res => tailRow E w h data jr (w - w % (N * 2)) res) 1
    (h - h % (N * 2)) 0 (fun jr a b => b = jr ∧ w - w % (N * 2) ≤ a ∧ a < w)
    (by
      intro m hm r D' hr'
      exact tailRow_ok (E := E) data result hwh hd hn hfw _ (by omega) _ (by omega) D' r hr')
    _ r1 a1
  rw [e2]
  simp only [pure_bind]
  -- phase 3: the remaining rows in full
  rw [loopM_counted E.fuel _ _ (fun j res => tailRow E w h data j 0 res) h 1 (by omega)
    (by intro st; rfl)
    (by intro st; simp only [tailRow, bind_assoc, pure_bind])
    (h % (N * 2)) (0 + h / (N * 2) * (N * 2)) r2 (by omega) (by omega) (by intro m hm; omega)]
  obtain ⟨r3, e3, a3⟩ := stridedIter data result (fun j res => tailRow E w h data j 0 res) 1
    (h % (N * 2)) (0 + h / (N * 2) * (N * 2)) (fun j a b => b = j ∧ 0 ≤ a ∧ a < w)
    (by
      intro m hm r D' hr'
      exact tailRow_ok (E := E) data result hwh hd hn hfw _ (by omega) 0 (by omega) D' r hr')
    _ r2 a2
  rw [e3]
  refine ⟨r3, by simp, a3.finish hn ?_⟩
  -- every cell is covered
  intro a b ha hb
  by_cases hb1 : b < h - h % (N * 2)
  · by_cases ha1 : a < w - w % (N * 2)
    · refine Or.inl (Or.inl (Or.inr ⟨b / (N * 2), ?_, ha1, ?_, ?_⟩))
      · rw [Nat.div_lt_iff_lt_mul hB]; omega
      · have := Nat.div_add_mod b (N * 2); rw [Nat.mul_comm] at this; omega
      · have := Nat.div_add_mod b (N * 2); rw [Nat.mul_comm] at this
        have := Nat.mod_lt b hB
        omega
    · exact Or.inl (Or.inr ⟨b, hb1, by omega, by omega, ha⟩)
  · exact Or.inr ⟨b - (h - h % (N * 2)), by omega, by omega, by omega, ha⟩

end
end Cfavml
