/-
`generic_cosine` refines a pure model: the two squared norms are computed by one `reduceCoreG` run over a *pair* of
accumulators, each component being exactly the `reduceModel` of `generic_squared_norm`; the dot product is
`generic_dot_product`; the final combination is the scalar `cosine` helper.
-/
import CfavmlModel.Lemmas.ReduceKernelsModel

namespace Cfavml

namespace Thm.Shapes
variable {T Reg : Type} (E : Env) (R : SimdRegister T Reg) (M : Math T)

/-- **shape of the generated `generic_cosine`** -/
theorem cosine_shape (dims : Nat) (a b : Slice T) : generic_cosine E R M dims a b = (do
    debugAssertEq E a.size dims
    debugAssertEq E b.size dims
    let norms ← reduceCoreG E R.elements_per_dense R.elements_per_lane
      (do let na ← R.zeroed_dense; let nb ← R.zeroed_dense; pure (na, nb))
      (fun i acc => do
        let l1 ← R.load_dense a i; let l2 ← R.load_dense b i
        let na ← R.fmadd_dense l1 l1 acc.1; let nb ← R.fmadd_dense l2 l2 acc.2; pure (na, nb))
      (fun acc => do let na ← R.sum_to_register acc.1; let nb ← R.sum_to_register acc.2; pure (na, nb))
      (fun i acc => do
        let l1 ← R.load a i; let l2 ← R.load b i
        let na ← R.fmadd l1 l1 acc.1; let nb ← R.fmadd l2 l2 acc.2; pure (na, nb))
      (fun acc => do let na ← R.sum_to_value acc.1; let nb ← R.sum_to_value acc.2; pure (na, nb))
      (fun i v => do
        let x ← Slice.read a i; let y ← Slice.read b i
        let t ← M.mul x x; let na ← M.add v.1 t
        let t' ← M.mul y y; let nb ← M.add v.2 t'; pure (na, nb))
      dims
    let dot ← generic_dot_product E R M dims a b
    cosine E M dot norms.1 norms.2) := by
  simp only [generic_cosine, reduceCoreG, bind_assoc, pure_bind]

end Thm.Shapes

section
variable {T : Type}

/-- what the scalar helper `cosine` computes, in the operations of the scalar specification; `sq` is the square
root of the math layer. Integer division by a zero root panics. -/
def cosineVal (S : ScalarSpec T) (sq : T → T) (dot nx ny : T) : Exec T :=
  if (S.eq nx S.zero && S.eq ny S.zero) then pure S.zero
  else if (S.eq nx S.zero || S.eq ny S.zero) then pure S.one
  else if S.divOk (sq (S.mul nx ny)) then pure (S.sub S.one (S.div dot (sq (S.mul nx ny))))
  else throw Fault.panic

theorem cosine_eq {E : Env} {M : Math T} {S : ScalarSpec T} (MFa : MathFaithful M S) (sq : T → T)
    (hsqrt : ∀ x, M.sqrt x = pure (sq x)) (dot nx ny : T) :
    cosine E M dot nx ny = cosineVal S sq dot nx ny := by
  unfold cosine cosineVal
  simp only [MFa.zero, MFa.one, MFa.cmp_eq, MFa.mul, MFa.sub, hsqrt, pure_bind]
  cases h1 : S.eq nx S.zero <;> cases h2 : S.eq ny S.zero <;> simp
  cases h3 : S.divOk (sq (S.mul nx ny))
  · simp [MFa.div_panic _ _ h3]; rfl
  · simp [MFa.div_ok _ _ h3]

variable {Reg : Type} {E : Env} {R : SimdRegister T Reg} {M : Math T} {L : Nat} {lanes : Reg → Nat → T}
variable {S : ScalarSpec T} {fm : T → T → T → T} {hsum hmax hmin : (Nat → T) → T}

open KernelModel in
/-- **`generic_cosine` = its pure model**, for every backend meeting the lane-wise contracts and every element type -/
theorem generic_cosine_model' (SB : SumBackend R L lanes S fm hsum)
    (MFa : MathFaithful M S) (sq : T → T) (hsqrt : ∀ x, M.sqrt x = pure (sq x)) (hloc : FoldLocal L hsum)
    (dims : Nat) (hfuel : dims < E.fuel) (a b : Slice T) (ha : a.size = dims) (hb : b.size = dims) :
    generic_cosine E R M dims a b
      = cosineVal S sq (reduceModel (dotOps S fm hsum a.get b.get) L dims)
          (reduceModel (normOps S fm hsum a.get) L dims) (reduceModel (normOps S fm hsum b.get) L dims) := by
  rw [Thm.Shapes.cosine_shape, ha, hb, debugAssertEq_self]
  simp only [pure_bind]
  have hL := SB.mem.L_pos
  let Oa := normOps S fm hsum a.get
  let Ob := normOps S fm hsum b.get
  -- the paired run
  obtain ⟨res, e, h⟩ := reduceCoreG_inv (E := E) hL SB.mem.epd SB.mem.epl dims
    (init := (do let na ← R.zeroed_dense; let nb ← R.zeroed_dense; pure (na, nb)))
    (stepD := (fun i (acc : DenseLane Reg × DenseLane Reg) => do
        let l1 ← R.load_dense a i; let l2 ← R.load_dense b i
        let na ← R.fmadd_dense l1 l1 acc.1; let nb ← R.fmadd_dense l2 l2 acc.2; pure (na, nb)))
    (rollup := (fun (acc : DenseLane Reg × DenseLane Reg) => do
        let na ← R.sum_to_register acc.1; let nb ← R.sum_to_register acc.2; pure (na, nb)))
    (stepR := (fun i (acc : Reg × Reg) => do
        let l1 ← R.load a i; let l2 ← R.load b i
        let na ← R.fmadd l1 l1 acc.1; let nb ← R.fmadd l2 l2 acc.2; pure (na, nb)))
    (toValue := (fun (acc : Reg × Reg) => do
        let na ← R.sum_to_value acc.1; let nb ← R.sum_to_value acc.2; pure (na, nb)))
    (stepT := (fun i (v : T × T) => do
        let x ← Slice.read a i; let y ← Slice.read b i
        let t ← M.mul x x; let na ← M.add v.1 t
        let t' ← M.mul y y; let nb ← M.add v.2 t'; pure (na, nb)))
    (fun m d => (∀ k, k < L * 8 → dlanes L lanes d.1 k = accum Oa.lane (L * 8) m k Oa.e)
      ∧ (∀ k, k < L * 8 → dlanes L lanes d.2 k = accum Ob.lane (L * 8) m k Ob.e))
    (fun m x => (∀ k, k < L → lanes x.1 k = accum Oa.lane L m (dims / (L * 8) * (L * 8) + k)
        (tree8 Oa.roll (fun qq => accum Oa.lane (L * 8) (dims / (L * 8)) (qq * L + k) Oa.e)))
      ∧ (∀ k, k < L → lanes x.2 k = accum Ob.lane L m (dims / (L * 8) * (L * 8) + k)
        (tree8 Ob.roll (fun qq => accum Ob.lane (L * 8) (dims / (L * 8)) (qq * L + k) Ob.e))))
    (fun m v => v.1 = accum Oa.tail 1 m (dims / (L * 8) * (L * 8) + dims % (L * 8) / L * L)
        (Oa.hfold (fun k => accum Oa.lane L (dims % (L * 8) / L) (dims / (L * 8) * (L * 8) + k)
          (tree8 Oa.roll (fun qq => accum Oa.lane (L * 8) (dims / (L * 8)) (qq * L + k) Oa.e))))
      ∧ v.2 = accum Ob.tail 1 m (dims / (L * 8) * (L * 8) + dims % (L * 8) / L * L)
        (Ob.hfold (fun k => accum Ob.lane L (dims % (L * 8) / L) (dims / (L * 8) * (L * 8) + k)
          (tree8 Ob.roll (fun qq => accum Ob.lane (L * 8) (dims / (L * 8)) (qq * L + k) Ob.e)))))
    (by
      obtain ⟨d0, e0, h0⟩ := SB.zeroed_dense_ok
      exact ⟨(d0, d0), by rw [e0]; rfl, fun k hk => by rw [h0 k hk]; rfl, fun k hk => by rw [h0 k hk]; rfl⟩)
    (by
      intro m acc hm ⟨hIa, hIb⟩
      have hb' : m * (L * 8) + L * 8 ≤ dims := by rw [Nat.succ_mul] at hm; exact hm
      obtain ⟨l1, e1, h1⟩ := SB.mem.load_dense_ok a (m * (L * 8)) (by omega)
      obtain ⟨l2, e2, h2⟩ := SB.mem.load_dense_ok b (m * (L * 8)) (by omega)
      obtain ⟨da, ea, hda⟩ := SB.fmadd.dense l1 l1 acc.1
      obtain ⟨db, eb, hdb⟩ := SB.fmadd.dense l2 l2 acc.2
      refine ⟨(da, db), by simp only [e1, e2, ea, eb, pure_bind], ?_, ?_⟩
      · intro k hk
        rw [hda k hk, h1 k hk, hIa k hk, accum_succ_right, Nat.add_comm (m * (L * 8)) k]
        rfl
      · intro k hk
        rw [hdb k hk, h2 k hk, hIb k hk, accum_succ_right, Nat.add_comm (m * (L * 8)) k]
        rfl)
    (by
      intro d ⟨hIa, hIb⟩
      obtain ⟨xa, ea, hxa⟩ := ReduceKernels.roll_tree SB.sum d.1
      obtain ⟨xb, eb, hxb⟩ := ReduceKernels.roll_tree SB.sum d.2
      refine ⟨(xa, xb), by simp only [ea, eb, pure_bind], ?_, ?_⟩
      · intro k hk
        rw [hxa k hk]
        have key : ∀ qq, qq < 8 → lanes (d.1.nth qq) k = accum Oa.lane (L * 8) (dims / (L * 8)) (qq * L + k) Oa.e := by
          intro qq hq
          have := hIa (qq * L + k) (by
            have : (qq + 1) * L ≤ 8 * L := Nat.mul_le_mul_right L (by omega)
            rw [Nat.succ_mul] at this; omega)
          rw [← this, dlanes_block d.1 qq hq k hk]
        simp only [tree8, accum_zero]
        rw [key 0 (by omega), key 1 (by omega), key 2 (by omega), key 3 (by omega), key 4 (by omega),
          key 5 (by omega), key 6 (by omega), key 7 (by omega)]
        rfl
      · intro k hk
        rw [hxb k hk]
        have key : ∀ qq, qq < 8 → lanes (d.2.nth qq) k = accum Ob.lane (L * 8) (dims / (L * 8)) (qq * L + k) Ob.e := by
          intro qq hq
          have := hIb (qq * L + k) (by
            have : (qq + 1) * L ≤ 8 * L := Nat.mul_le_mul_right L (by omega)
            rw [Nat.succ_mul] at this; omega)
          rw [← this, dlanes_block d.2 qq hq k hk]
        simp only [tree8, accum_zero]
        rw [key 0 (by omega), key 1 (by omega), key 2 (by omega), key 3 (by omega), key 4 (by omega),
          key 5 (by omega), key 6 (by omega), key 7 (by omega)]
        rfl)
    (by
      intro m acc hm ⟨hIa, hIb⟩
      have hi : dims / (L * 8) * (L * 8) + m * L + L ≤ dims := by rw [Nat.succ_mul] at hm; omega
      obtain ⟨l1, e1, h1⟩ := SB.mem.load_ok a (dims / (L * 8) * (L * 8) + m * L) (by omega)
      obtain ⟨l2, e2, h2⟩ := SB.mem.load_ok b (dims / (L * 8) * (L * 8) + m * L) (by omega)
      obtain ⟨da, ea, hda⟩ := SB.fmadd.single l1 l1 acc.1
      obtain ⟨db, eb, hdb⟩ := SB.fmadd.single l2 l2 acc.2
      refine ⟨(da, db), by simp only [e1, e2, ea, eb, pure_bind], ?_, ?_⟩
      · intro k hk
        have hx : dims / (L * 8) * (L * 8) + m * L + k = dims / (L * 8) * (L * 8) + k + m * L := by omega
        rw [hda k hk, h1 k hk, hIa k hk, accum_succ_right, hx]
        rfl
      · intro k hk
        have hx : dims / (L * 8) * (L * 8) + m * L + k = dims / (L * 8) * (L * 8) + k + m * L := by omega
        rw [hdb k hk, h2 k hk, hIb k hk, accum_succ_right, hx]
        rfl)
    (by
      intro x ⟨hIa, hIb⟩
      refine ⟨(hsum (lanes x.1), hsum (lanes x.2)), by simp only [SB.sum.to_value, pure_bind], ?_, ?_⟩
      · simp only [accum_zero]; exact hloc _ _ (fun k hk => hIa k hk)
      · simp only [accum_zero]; exact hloc _ _ (fun k hk => hIb k hk))
    (by
      intro m v hm ⟨hIa, hIb⟩
      have hdims := Nat.div_add_mod dims (L * 8)
      have hr := Nat.div_add_mod (dims % (L * 8)) L
      rw [Nat.mul_comm] at hdims hr
      have h1 : dims / (L * 8) * (L * 8) + dims % (L * 8) / L * L + m < a.size := by omega
      have h2 : dims / (L * 8) * (L * 8) + dims % (L * 8) / L * L + m < b.size := by omega
      refine ⟨_, (by simp only [Slice.read, h1, h2, if_true, pure_bind, MFa.mul, MFa.add]; rfl), ?_, ?_⟩
      · show S.add v.1 _ = _
        rw [hIa, accum_succ_right, Nat.mul_one]
        rfl
      · show S.add v.2 _ = _
        rw [hIb, accum_succ_right, Nat.mul_one]
        rfl)
    hfuel
  rw [e]
  simp only [pure_bind]
  rw [KernelModel.dot_product' SB (SumMath.of MFa) dims hfuel hloc a b ha hb]
  simp only [pure_bind]
  rw [cosine_eq MFa sq hsqrt, h.1, h.2]
  rfl

open KernelModel in
theorem generic_cosine_model (AF : ArithFaithful R L lanes S) (RF : ReduceFaithful R L lanes S fm hsum hmax hmin)
    (MFa : MathFaithful M S) (sq : T → T) (hsqrt : ∀ x, M.sqrt x = pure (sq x)) (hloc : FoldLocal L hsum)
    (dims : Nat) (hfuel : dims < E.fuel) (a b : Slice T) (ha : a.size = dims) (hb : b.size = dims) :
    generic_cosine E R M dims a b
      = cosineVal S sq (reduceModel (dotOps S fm hsum a.get b.get) L dims)
          (reduceModel (normOps S fm hsum a.get) L dims) (reduceModel (normOps S fm hsum b.get) L dims) :=
  generic_cosine_model' (SumBackend.of AF RF) MFa sq hsqrt hloc dims hfuel a b ha hb

end
end Cfavml
