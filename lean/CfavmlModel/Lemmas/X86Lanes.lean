/-
Bit-level facts about the register model: a register built from lanes has exactly those lanes.
-/
import CfavmlModel.Prim.X86

namespace Cfavml

/-- complete description of the bits of `fromLanes` -/
theorem getLsbD_fromLanes {n : Nat} (w : Nat) (hw : 0 < w) (cnt : Nat) (f : Nat → BitVec w) (j : Nat) :
    (fromLanes (n := n) w cnt f).getLsbD j
      = (decide (j < n) && decide (j < w * cnt) && (f (j / w)).getLsbD (j % w)) := by
  induction cnt with
  | zero => simp [fromLanes]
  | succ cnt ih =>
    rw [fromLanes, BitVec.getLsbD_or, ih, BitVec.getLsbD_shiftLeft, BitVec.getLsbD_setWidth]
    by_cases hn : j < n
    · by_cases h1 : j < w * cnt
      · have h2 : j < w * (cnt + 1) := by rw [Nat.mul_succ]; omega
        simp [hn, h1, h2]
      · by_cases h3 : j < w * (cnt + 1)
        · have hge : w * cnt ≤ j := by omega
          have hlt : j - w * cnt < w := by rw [Nat.mul_succ] at h3; omega
          have hdiv : j / w = cnt := by
            have : j = w * cnt + (j - w * cnt) := by omega
            rw [this, Nat.mul_add_div hw, Nat.div_eq_of_lt hlt]; simp
          have hmod : j % w = j - w * cnt := by
            have : j = w * cnt + (j - w * cnt) := by omega
            rw [this, Nat.mul_add_mod, Nat.mod_eq_of_lt hlt]
            omega
          have hjn : j - w * cnt < n := by omega
          simp [hn, h1, h3, hdiv, hmod, hjn]
        · have hge : ¬ (j - w * cnt < w) := by rw [Nat.mul_succ] at h3; omega
          have : (f cnt).getLsbD (j - w * cnt) = false := by
            apply BitVec.getLsbD_of_ge; omega
          simp [hn, h1, h3, this]
    · simp [hn]

/-- **lane k of a register built from lanes is the k-th lane** -/
theorem lane_fromLanes {n : Nat} (w : Nat) (hw : 0 < w) (cnt : Nat) (f : Nat → BitVec w) (k : Nat)
    (hk : k < cnt) (hfit : w * cnt ≤ n) : lane w k (fromLanes (n := n) w cnt f) = f k := by
  apply BitVec.eq_of_getLsbD_eq
  intro i hi
  unfold lane
  rw [BitVec.getLsbD_setWidth, BitVec.getLsbD_ushiftRight, getLsbD_fromLanes w hw]
  have h1 : w * k + i < w * cnt := by
    have : w * (k + 1) ≤ w * cnt := Nat.mul_le_mul_left w (by omega)
    rw [Nat.mul_succ] at this; omega
  have h2 : w * k + i < n := by omega
  have hdiv : (w * k + i) / w = k := by rw [Nat.mul_add_div hw, Nat.div_eq_of_lt hi]; simp
  have hmod : (w * k + i) % w = i := by rw [Nat.mul_add_mod, Nat.mod_eq_of_lt hi]
  simp [hi, h1, h2, hdiv, hmod]

/-- bits of a lane -/
theorem getLsbD_lane {n : Nat} (w k : Nat) (r : BitVec n) (i : Nat) :
    (lane w k r).getLsbD i = (decide (i < w) && r.getLsbD (w * k + i)) := by
  unfold lane
  rw [BitVec.getLsbD_setWidth, BitVec.getLsbD_ushiftRight]

/-- a register is determined by its lanes -/
theorem fromLanes_lane {n : Nat} (w : Nat) (hw : 0 < w) (cnt : Nat) (hn : n = w * cnt) (r : BitVec n) :
    fromLanes w cnt (fun k => lane w k r) = r := by
  apply BitVec.eq_of_getLsbD_eq
  intro j hj
  rw [getLsbD_fromLanes w hw, getLsbD_lane]
  have h1 : j < w * cnt := by omega
  have hm : j % w < w := Nat.mod_lt _ hw
  have : w * (j / w) + j % w = j := Nat.div_add_mod j w
  simp [hj, h1, hm, this]

end Cfavml
