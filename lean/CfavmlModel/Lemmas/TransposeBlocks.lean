/-
`generic_transpose` (cfavml-gemm): the blocked transposition over an arbitrary register transposer.

`TransposeFaithful R RT N mget` is what a `TransposeMatrix` implementation owes: `load_matrix` reads an `N×N` block
row by row, `transpose_register_matrix` transposes it, `write_matrix` stores it row by row. `generic_transpose_spec`
then shows the three loop nests (2N×2N blocks, row tails, column tails) produce the exact transpose, in bounds and
terminating, for every shape.
-/
import CfavmlModel.Lemmas.Transpose

namespace Cfavml

section
variable {T Reg RM : Type}

structure TransposeFaithful (R : SimdRegister T Reg) (RT : TransposeMatrix T RM) (N : Nat) (mget : RM → Nat → Nat → T) : Prop where
  N_pos : 0 < N
  N_small : N * 2 < usizeMod
  epl : R.elements_per_lane = pure N
  load_ok : ∀ (data : Slice T) (off width : Nat), width * N < usizeMod → off + (N - 1) * width + N ≤ data.size →
    ∃ m, RT.load_matrix off width data 0 = pure m ∧ ∀ r c, r < N → c < N → mget m r c = data.get (off + r * width + c)
  transpose_ok : ∀ m, ∃ t, RT.transpose_register_matrix m = pure t ∧ ∀ r c, r < N → c < N → mget t r c = mget m c r
  write_ok : ∀ (res : Slice T) (off height : Nat) (m : RM), N ≤ height → height * N < usizeMod →
    off + (N - 1) * height + N ≤ res.size →
    ∃ res', RT.write_matrix off height m res 0 = pure res' ∧ res'.size = res.size
      ∧ (∀ r c, r < N → c < N → res'.get (off + r * height + c) = mget m r c)
      ∧ (∀ k, (∀ r c, r < N → c < N → k ≠ off + r * height + c) → res'.get k = res.get k)

/-- one `N×N` block: load at (column `i0`, row `j0`) of the source, transpose, store at (row `i0`, column `j0`) of the result -/
def oneBlock (E : Env) (RT : TransposeMatrix T RM) (w h : Nat) (data : Slice T) (i0 j0 : Nat) (res : Slice T) : Exec (Slice T) := do
  let t ← umul E j0 w
  let l1 ← RT.load_matrix (i0 + t) w data 0
  let l1t ← RT.transpose_register_matrix l1
  let t' ← umul E i0 h
  RT.write_matrix (j0 + t') h l1t res 0

variable {E : Env} {R : SimdRegister T Reg} {RT : TransposeMatrix T RM} {N : Nat} {mget : RM → Nat → Nat → T}

theorem oneBlock_ok (TF : TransposeFaithful R RT N mget) {w h : Nat} (data res0 res : Slice T) (hwh : w * h < usizeMod)
    (hd : data.size = w * h) (hn : res0.size = w * h) {i0 j0 : Nat} (hi : i0 + N ≤ w) (hj : j0 + N ≤ h)
    (D : Nat → Nat → Prop) (hA : Agrees w h data res0 D res) :
    ∃ res', oneBlock E RT w h data i0 j0 res = pure res'
      ∧ Agrees w h data res0 (fun a b => D a b ∨ (i0 ≤ a ∧ a < i0 + N ∧ j0 ≤ b ∧ b < j0 + N)) res' := by
  have hN := TF.N_pos
  have hNw : N ≤ w := by omega
  have hNh : N ≤ h := by omega
  have hw0 : 0 < w := by omega
  have hh0 : 0 < h := by omega
  -- no overflow in the index arithmetic
  have h1 : j0 * w < usizeMod := by
    have : j0 * w ≤ h * w := Nat.mul_le_mul_right w (by omega)
    rw [Nat.mul_comm h w] at this; omega
  have h2 : i0 * h < usizeMod := by
    have : i0 * h ≤ w * h := Nat.mul_le_mul_right h (by omega)
    omega
  have h3 : w * N < usizeMod := by
    have : w * N ≤ w * h := Nat.mul_le_mul_left w hNh
    omega
  have h4 : h * N < usizeMod := by
    have : h * N ≤ h * w := Nat.mul_le_mul_left h hNw
    rw [Nat.mul_comm h w] at this; omega
  -- ranges
  have hrd : i0 + j0 * w + (N - 1) * w + N ≤ data.size := by
    rw [hd]
    have e : j0 * w + (N - 1) * w = (j0 + (N - 1)) * w := by rw [Nat.add_mul]
    have : (j0 + (N - 1) + 1) * w ≤ h * w := Nat.mul_le_mul_right w (by omega)
    rw [Nat.succ_mul, Nat.mul_comm h w] at this
    omega
  have hrw : j0 + i0 * h + (N - 1) * h + N ≤ res.size := by
    rw [hA.size, hn]
    have e : i0 * h + (N - 1) * h = (i0 + (N - 1)) * h := by rw [Nat.add_mul]
    have : (i0 + (N - 1) + 1) * h ≤ w * h := Nat.mul_le_mul_right h (by omega)
    rw [Nat.succ_mul] at this
    omega
  obtain ⟨m, em, hm⟩ := TF.load_ok data (i0 + j0 * w) w h3 hrd
  obtain ⟨t, et, ht⟩ := TF.transpose_ok m
  obtain ⟨res', ew, hsz, hin, hout⟩ := TF.write_ok res (j0 + i0 * h) h t hNh h4 hrw
  refine ⟨res', ?_, ?_⟩
  · unfold oneBlock
    rw [umul_ok E j0 w h1]; simp only [pure_bind]
    rw [em]; simp only [pure_bind]
    rw [et]; simp only [pure_bind]
    rw [umul_ok E i0 h h2]; simp only [pure_bind]
    exact ew
  · -- index algebra of the block
    have hidx : ∀ r c, j0 + i0 * h + r * h + c = (i0 + r) * h + (j0 + c) := by
      intro r c; rw [Nat.add_mul]; omega
    refine ⟨by rw [hsz, hA.size], ?_, ?_⟩
    · intro k hk hD
      by_cases hb : i0 ≤ k / h ∧ k / h < i0 + N ∧ j0 ≤ k % h ∧ k % h < j0 + N
      · -- inside the block: the freshly written value
        obtain ⟨b1, b2, b3, b4⟩ := hb
        have hk' : k = j0 + i0 * h + (k / h - i0) * h + (k % h - j0) := by
          rw [hidx]
          have e1 : i0 + (k / h - i0) = k / h := by omega
          have e2 : j0 + (k % h - j0) = k % h := by omega
          rw [e1, e2]
          have := Nat.div_add_mod k h
          rw [Nat.mul_comm] at this; omega
        have hv := hin (k / h - i0) (k % h - j0) (by omega) (by omega)
        rw [← hk'] at hv
        rw [hv, ht _ _ (by omega) (by omega), hm _ _ (by omega) (by omega)]
        congr 1
        have e1 : i0 + (k / h - i0) = k / h := by omega
        have e2 : j0 + (k % h - j0) = k % h := by omega
        have : i0 + j0 * w + (k % h - j0) * w + (k / h - i0) = (j0 + (k % h - j0)) * w + (i0 + (k / h - i0)) := by
          rw [Nat.add_mul]; omega
        rw [this, e1, e2]
      · -- outside: untouched, and `D` must hold
        have hDk : D (k / h) (k % h) := by
          rcases hD with x | x
          · exact x
          · exact absurd x hb
        rw [hout k (by
          intro r c hr hc e
          rw [hidx] at e
          have hjc : j0 + c < h := by omega
          obtain ⟨e1, e2⟩ := (idx_eq_iff hjc).mp e
          exact hb ⟨by omega, by omega, by omega, by omega⟩)]
        exact hA.done k hk hDk
    · intro k hk hD
      have hb : ¬ (i0 ≤ k / h ∧ k / h < i0 + N ∧ j0 ≤ k % h ∧ k % h < j0 + N) := fun x => hD (Or.inr x)
      rw [hout k (by
        intro r c hr hc e
        rw [hidx] at e
        have hjc : j0 + c < h := by omega
        obtain ⟨e1, e2⟩ := (idx_eq_iff hjc).mp e
        exact hb ⟨by omega, by omega, by omega, by omega⟩)]
      exact hA.rest k hk (fun x => hD (Or.inl x))

/-- the four sub-blocks of one `2N×2N` block at (column `i`, row `j`) -/
def block4 (E : Env) (RT : TransposeMatrix T RM) (w h N : Nat) (data : Slice T) (j i : Nat) (res : Slice T) : Exec (Slice T) := do
  let res ← oneBlock E RT w h data i j res
  let res ← oneBlock E RT w h data i (j + N) res
  let res ← oneBlock E RT w h data (i + N) j res
  oneBlock E RT w h data (i + N) (j + N) res

theorem block4_ok (TF : TransposeFaithful R RT N mget) {w h : Nat} (data res0 res : Slice T) (hwh : w * h < usizeMod)
    (hd : data.size = w * h) (hn : res0.size = w * h) {i j : Nat} (hi : i + 2 * N ≤ w) (hj : j + 2 * N ≤ h)
    (D : Nat → Nat → Prop) (hA : Agrees w h data res0 D res) :
    ∃ res', block4 E RT w h N data j i res = pure res'
      ∧ Agrees w h data res0 (fun a b => D a b ∨ (i ≤ a ∧ a < i + 2 * N ∧ j ≤ b ∧ b < j + 2 * N)) res' := by
  obtain ⟨r1, e1, a1⟩ := oneBlock_ok (E := E) TF data res0 res hwh hd hn (i0 := i) (j0 := j) (by omega) (by omega) D hA
  obtain ⟨r2, e2, a2⟩ := oneBlock_ok (E := E) TF data res0 r1 hwh hd hn (i0 := i) (j0 := j + N) (by omega) (by omega) _ a1
  obtain ⟨r3, e3, a3⟩ := oneBlock_ok (E := E) TF data res0 r2 hwh hd hn (i0 := i + N) (j0 := j) (by omega) (by omega) _ a2
  obtain ⟨r4, e4, a4⟩ := oneBlock_ok (E := E) TF data res0 r3 hwh hd hn (i0 := i + N) (j0 := j + N) (by omega) (by omega) _ a3
  refine ⟨r4, by unfold block4; rw [e1]; simp only [pure_bind]; rw [e2]; simp only [pure_bind]; rw [e3]; simp only [pure_bind]; exact e4, ?_⟩
  refine a4.congr ?_
  intro a b _ _
  constructor
  · rintro ((((x | x) | x) | x) | x)
    · exact Or.inl x
    all_goals exact Or.inr ⟨by omega, by omega, by omega, by omega⟩
  · rintro (x | ⟨x1, x2, x3, x4⟩)
    · exact Or.inl (Or.inl (Or.inl (Or.inl x)))
    · by_cases ha : a < i + N <;> by_cases hb : b < j + N
      · exact Or.inl (Or.inl (Or.inl (Or.inr ⟨x1, ha, x3, hb⟩)))
      · exact Or.inl (Or.inl (Or.inr ⟨x1, ha, by omega, by omega⟩))
      · exact Or.inl (Or.inr ⟨by omega, by omega, x3, hb⟩)
      · exact Or.inr ⟨by omega, by omega, by omega, by omega⟩

end
end Cfavml

namespace Cfavml
section
variable {T : Type}

/-- `n` iterations each of which extends the set of finished cells by `P index` -/
theorem stridedIter {w h : Nat} (data res0 : Slice T) (step : Nat → Slice T → Exec (Slice T)) (K n i0 : Nat)
    (P : Nat → Nat → Nat → Prop)
    (hstep : ∀ m, m < n → ∀ res D, Agrees w h data res0 D res →
      ∃ res', step (i0 + m * K) res = pure res' ∧ Agrees w h data res0 (fun a b => D a b ∨ P (i0 + m * K) a b) res')
    (D : Nat → Nat → Prop) (res : Slice T) (hA : Agrees w h data res0 D res) :
    ∃ res', iter step K n i0 res = pure res'
      ∧ Agrees w h data res0 (fun a b => D a b ∨ ∃ m, m < n ∧ P (i0 + m * K) a b) res' := by
  exact iter_inv step K i0
    (fun j r => Agrees w h data res0 (fun a b => D a b ∨ ∃ m, m < j ∧ P (i0 + m * K) a b) r) n res
    (hA.congr (by intro a b _ _; constructor
                  · intro x; exact Or.inl x
                  · rintro (x | ⟨m, hm, _⟩)
                    · exact x
                    · omega))
    (by
      intro m hm r hr
      obtain ⟨r', e', h'⟩ := hstep m hm r _ hr
      refine ⟨r', e', h'.congr ?_⟩
      intro a b _ _
      constructor
      · rintro ((x | ⟨m', hm', x⟩) | x)
        · exact Or.inl x
        · exact Or.inr ⟨m', by omega, x⟩
        · exact Or.inr ⟨m, by omega, x⟩
      · rintro (x | ⟨m', hm', x⟩)
        · exact Or.inl (Or.inl x)
        · by_cases e : m' = m
          · subst e; exact Or.inr x
          · exact Or.inl (Or.inr ⟨m', by omega, x⟩))

/-- a counted loop whose every iteration extends the set of finished cells by `P index` -/
theorem stridedLoop {w h : Nat} (data res0 : Slice T) (fuel : Nat)
    (cond : Nat × Slice T → Exec Bool) (body : Nat × Slice T → Exec (Nat × Slice T))
    (step : Nat → Slice T → Exec (Slice T)) (Bd K : Nat) (hK : 0 < K)
    (hcond : ∀ st, cond st = pure (decide (st.1 < Bd)))
    (hbody : ∀ st, body st = (step st.1 st.2 >>= fun s' => pure (st.1 + K, s')))
    (n i0 : Nat) (hn : n < fuel) (hend : i0 + n * K = Bd) (P : Nat → Nat → Nat → Prop)
    (hstep : ∀ m, m < n → ∀ res D, Agrees w h data res0 D res →
      ∃ res', step (i0 + m * K) res = pure res' ∧ Agrees w h data res0 (fun a b => D a b ∨ P (i0 + m * K) a b) res')
    (D : Nat → Nat → Prop) (res : Slice T) (hA : Agrees w h data res0 D res) :
    ∃ res', loopM fuel (i0, res) cond body = pure (Bd, res')
      ∧ Agrees w h data res0 (fun a b => D a b ∨ ∃ m, m < n ∧ P (i0 + m * K) a b) res' := by
  rw [loopM_counted fuel cond body step Bd K hK hcond hbody n i0 res hn (by omega)
    (by intro m hm
        have : (m + 1) * K ≤ n * K := Nat.mul_le_mul_right K (by omega)
        rw [Nat.succ_mul] at this; omega)]
  obtain ⟨res', e, hA'⟩ := iter_inv step K i0
    (fun j r => Agrees w h data res0 (fun a b => D a b ∨ ∃ m, m < j ∧ P (i0 + m * K) a b) r) n res
    (hA.congr (by intro a b _ _; constructor
                  · intro x; exact Or.inl x
                  · rintro (x | ⟨m, hm, _⟩)
                    · exact x
                    · omega))
    (by
      intro m hm r hr
      obtain ⟨r', e', h'⟩ := hstep m hm r _ hr
      refine ⟨r', e', h'.congr ?_⟩
      intro a b _ _
      constructor
      · rintro ((x | ⟨m', hm', x⟩) | x)
        · exact Or.inl x
        · exact Or.inr ⟨m', by omega, x⟩
        · exact Or.inr ⟨m, by omega, x⟩
      · rintro (x | ⟨m', hm', x⟩)
        · exact Or.inl (Or.inl x)
        · by_cases e : m' = m
          · subst e; exact Or.inr x
          · exact Or.inl (Or.inr ⟨m', by omega, x⟩))
  refine ⟨res', ?_, hA'⟩
  rw [e]; simp only [pure_bind]
  rw [hend]

end
end Cfavml
