/-
Rounding analysis of the reduction model (C04).

The float run of `reduceModel` is related, operation by operation (`reduceModel_rel`), to an abstract run that records
for every partial result (i) the list of element indices it has absorbed and (ii) an upper bound on the number of
roundings any of them has gone through. Three facts are then combined:

* *error transport*: if the float result is finite, its real value is `Σ term l[j]·(1+θ_j)` with `|θ_j| ≤ (1+u)^k − 1`
  for the recorded `(l, k)` (`ApproxL`);
* *cover*: the recorded list is a permutation of `0, …, n−1` — every element is counted exactly once — obtained from
  the commutative-monoid theorem instantiated at multisets of indices;
* *depth*: the recorded `k` is at most `n + 3`, for every lane count `L ≥ 1`, every length `n`, any horizontal fold of
  depth `≤ L − 1`, fused or unfused multiply-add.
-/
import Mathlib.Data.Multiset.Range
import Mathlib.Algebra.BigOperators.Group.Multiset.Basic
import Mathlib.Tactic.Linarith
import Mathlib.Tactic.Ring
import CfavmlModel.Lemmas.ApproxList
import CfavmlModel.Lemmas.ReduceRel
import CfavmlModel.Lemmas.ReduceKernelsModel
import CfavmlModel.Lemmas.ReduceKernels
import CfavmlModel.Spec.ModelReg

namespace Cfavml.FloatReduce
open Rounding KernelModel

/-! ### the commutative-monoid theorem, as a pure statement about `reduceModel` -/

/-- a scalar specification whose addition is `op` with unit `e` (the other operations are irrelevant) -/
def specOf {A : Type} (op : A → A → A) (e : A) : ScalarSpec A where
  zero := e
  one := e
  minVal := e
  maxVal := e
  add := op
  sub := op
  mul := op
  div := op
  divOk := fun _ => true
  cmpMax := op
  cmpMin := op
  eq := fun _ _ => false

/-- **pure monoid theorem**: accumulating `term` with a commutative monoid operation, in the layout of the reduction
kernels with any lane count, gives the monoid sum of the first `dims` terms -/
theorem reduceModel_sum_monoid {A : Type} {op : A → A → A} {e : A} (hm : CommMonoidOn op e) (E : Env)
    (L dims : Nat) (hL : 0 < L) (hsmall : L * 8 < usizeMod) (term : Nat → A) :
    reduceModel (sumOps (specOf op e) (fun f => sumR op e f L) term) L dims = sumR op e term dims := by
  let S := specOf op e
  let E' := ModelReg.withFuel E dims
  let hsum : (Nat → A) → A := fun f => sumR op e f L
  let R := ModelReg.inst E' S L (fun x y acc => op (op x y) acc) hsum hsum hsum
  have AF := ModelReg.arith E' S L (fun x y acc => op (op x y) acc) hsum hsum hsum hL hsmall
  have RF := ModelReg.reduce E' S L (fun x y acc => op (op x y) acc) hsum hsum hsum hL
  have MF := ModelReg.math_faithful S (fun x => x)
  have hfuel : dims < E'.fuel := by simp [E', ModelReg.withFuel]
  have hloc : FoldLocal L hsum := fun f g hfg => sumR_congr _ _ _ hfg
  let a : Slice A := ⟨dims, term⟩
  have h1 := KernelModel.sum (E := E') AF RF MF dims hfuel hloc a rfl
  have h2 := ReduceKernels.sum (E := E') (R := R) (S := S) hm AF RF MF (fun _ => rfl) dims hfuel a rfl
  exact Except.ok.inj (h1.symm.trans h2)

/-! ### the abstract domain: (indices absorbed, bound on roundings) -/

abbrev Ab := List ℕ × ℕ

/-- accumulate element `i` into a lane / the scalar: one product rounding and one addition rounding at most -/
def laneA (x : Ab) (i : ℕ) : Ab := (x.1 ++ [i], max x.2 1 + 1)

/-- a rounded addition of two partial results (adding two empty parts is exactly zero) -/
def addA (x y : Ab) : Ab := if x.1 = [] ∧ y.1 = [] then ([], 0) else (x.1 ++ y.1, max x.2 y.2 + 1)

def opsA (hfoldA : (ℕ → Ab) → Ab) : ReduceOps Ab where
  e := ([], 0)
  lane := laneA
  roll := addA
  hfold := hfoldA
  tail := laneA

/-! ### floating-point semantics -/

/-- What is assumed of the arithmetic (true of IEEE-754 binary formats with round-to-nearest, `u` = unit roundoff):
a *finite* result of `+` comes from finite operands and obeys the standard model; a finite product that does not
underflow obeys it; the lane multiply-add `fm x y acc` is `(x·y·(1+δ₁) + acc)·(1+δ₂)` — `δ₁ = 0` when it is fused,
so the analysis covers both. `Fin` = "not ±∞ / NaN", `NoUf x y` = "x·y does not underflow". -/
structure FloatSem {T : Type} (S : ScalarSpec T) (fm : T → T → T → T) where
  val : T → ℝ
  u : ℝ
  hu : 0 ≤ u
  Fin : T → Prop
  NoUf : T → T → Prop
  zero_val : val S.zero = 0
  add_std : ∀ x y, Fin (S.add x y) → Fin x ∧ Fin y ∧ ∃ δ, |δ| ≤ u ∧ val (S.add x y) = (val x + val y) * (1 + δ)
  mul_std : ∀ x y, Fin (S.mul x y) → NoUf x y → ∃ δ, |δ| ≤ u ∧ val (S.mul x y) = val x * val y * (1 + δ)
  fm_std : ∀ x y acc, Fin (fm x y acc) → NoUf x y →
    Fin acc ∧ ∃ δ₁ δ₂, |δ₁| ≤ u ∧ |δ₂| ≤ u ∧ val (fm x y acc) = (val x * val y * (1 + δ₁) + val acc) * (1 + δ₂)

section
variable {T : Type} {S : ScalarSpec T} {fm : T → T → T → T} (F : FloatSem S fm) (a b : ℕ → T)

/-- the exact real terms being accumulated -/
def termR (i : ℕ) : ℝ := F.val (a i) * F.val (b i)

/-- the float value `x` is described by the abstract value `(l, k)` over the real terms `term` — provided it is finite -/
def RelE (term : ℕ → ℝ) (x : T) (y : Ab) : Prop := F.Fin x → ApproxL F.u term (F.val x) y.1 y.2

theorem relE_zero (term : ℕ → ℝ) : RelE F term S.zero ([], 0) := by
  intro _; rw [F.zero_val]; exact ApproxL.nil 0

/-- the common shape of a lane update and of a tail update -/
theorem relE_step (term : ℕ → ℝ) {x : T} {y : Ab} {z : T} (i : ℕ) (h : RelE F term x y)
    (hz : F.Fin z → F.Fin x ∧ ∃ δ₁ δ₂, |δ₁| ≤ F.u ∧ |δ₂| ≤ F.u ∧
      F.val z = (term i * (1 + δ₁) + F.val x) * (1 + δ₂)) :
    RelE F term z (laneA y i) := by
  intro hfz
  obtain ⟨hfx, δ₁, δ₂, h1, h2, e⟩ := hz hfz
  have hx := h hfx
  have ht : ApproxL F.u term (term i * (1 + δ₁)) [i] 1 := by
    have := (ApproxL.single (term := term) F.hu i 0).round F.hu h1
    simpa using this
  have := (hx.add_round F.hu ht h2)
  rw [e, add_comm (term i * (1 + δ₁))]
  exact this

theorem relE_lane (hnu : ∀ i, F.NoUf (a i) (b i)) (x : T) (y : Ab) (i : ℕ) (h : RelE F (termR F a b) x y) :
    RelE F (termR F a b) (fm (a i) (b i) x) (laneA y i) :=
  relE_step F (termR F a b) i h (fun hf => F.fm_std _ _ _ hf (hnu i))

theorem relE_tail (hnu : ∀ i, F.NoUf (a i) (b i)) (x : T) (y : Ab) (i : ℕ) (h : RelE F (termR F a b) x y) :
    RelE F (termR F a b) (S.add x (S.mul (a i) (b i))) (laneA y i) := by
  apply relE_step F (termR F a b) i h
  intro hf
  obtain ⟨hfx, hfm, δ₂, h2, e⟩ := F.add_std _ _ hf
  obtain ⟨δ₁, h1, e1⟩ := F.mul_std _ _ hfm (hnu i)
  refine ⟨hfx, δ₁, δ₂, h1, h2, ?_⟩
  rw [e, e1]; unfold termR; ring

/-- plain summation: `acc + a[i]`, one rounding -/
theorem relE_sum_step (x : T) (y : Ab) (i : ℕ) (h : RelE F (fun i => F.val (a i)) x y) :
    RelE F (fun i => F.val (a i)) (S.add x (a i)) (laneA y i) := by
  apply relE_step F (fun i => F.val (a i)) i h
  intro hf
  obtain ⟨hfx, _, δ₂, h2, e⟩ := F.add_std _ _ hf
  refine ⟨hfx, 0, δ₂, by simpa using F.hu, h2, ?_⟩
  rw [e]; ring

theorem relE_add (term : ℕ → ℝ) (x x' : T) (y y' : Ab) (h1 : RelE F term x y) (h2 : RelE F term x' y') :
    RelE F term (S.add x x') (addA y y') := by
  intro hf
  obtain ⟨hfx, hfx', δ, hδ, e⟩ := F.add_std _ _ hf
  have a1 := h1 hfx
  have a2 := h2 hfx'
  unfold addA
  by_cases hemp : y.1 = [] ∧ y'.1 = []
  · rw [if_pos hemp]
    rw [hemp.1] at a1; rw [hemp.2] at a2
    rw [e, a1.of_nil, a2.of_nil]
    simpa using ApproxL.nil (u := F.u) (term := term) 0
  · rw [if_neg hemp, e]
    exact a1.add_round F.hu a2 hδ

end

/-! ### horizontal folds -/

/-- what is needed of the abstract counterpart `hfoldA` of a horizontal fold over `L` lanes: it merges the index lists
of the lanes, adds at most `hd` roundings, and none when every lane is still empty -/
structure HFoldShape (L hd : ℕ) (hfoldA : (ℕ → Ab) → Ab) : Prop where
  cover : ∀ g : ℕ → Ab, ((hfoldA g).1 : Multiset ℕ) = sumR (· + ·) 0 (fun k => ((g k).1 : Multiset ℕ)) L
  depth : ∀ (g : ℕ → Ab) (d : ℕ), (∀ k, k < L → (g k).2 ≤ d) → (hfoldA g).2 ≤ d + hd
  empty : ∀ g : ℕ → Ab, (∀ k, k < L → g k = ([], 0)) → hfoldA g = ([], 0)

/-- … and of the float fold `hsum` itself: it transports the relation -/
structure HFoldSem {T : Type} {S : ScalarSpec T} {fm : T → T → T → T} (F : FloatSem S fm) (L hd : ℕ)
    (hsum : (ℕ → T) → T) (hfoldA : (ℕ → Ab) → Ab) : Prop where
  shape : HFoldShape L hd hfoldA
  rel : ∀ (term : ℕ → ℝ) (f : ℕ → T) (g : ℕ → Ab), (∀ k, k < L → RelE F term (f k) (g k)) → RelE F term (hsum f) (hfoldA g)

theorem hfold1_shape : HFoldShape 1 0 (fun g => g 0) where
  cover := fun g => by simp [sumR]
  depth := fun g d h => by simpa using h 0 (by omega)
  empty := fun g h => h 0 (by omega)

/-- the one-lane fold of the Fallback backend -/
theorem hfold1_sem {T : Type} {S : ScalarSpec T} {fm : T → T → T → T} (F : FloatSem S fm) :
    HFoldSem F 1 0 (fun f => f 0) (fun g => g 0) where
  shape := hfold1_shape
  rel := fun _ _ _ h => h 0 (by omega)

/-- sequential fold `((f 0 ⊕ f 1) ⊕ …) ⊕ f (L−1)` (no initial element): depth `L − 1` -/
def seqFold {A : Type} (op : A → A → A) (f : ℕ → A) : ℕ → A
  | 0 => f 0
  | 1 => f 0
  | n + 2 => op (seqFold op f (n + 1)) (f (n + 1))

theorem addA_list (x y : Ab) : (addA x y).1 = x.1 ++ y.1 := by
  unfold addA; split
  · rename_i h; rw [h.1, h.2]; rfl
  · rfl

theorem addA_depth' (x y : Ab) (d : ℕ) (hx : x.2 ≤ d) (hy : y.2 ≤ d) : (addA x y).2 ≤ d + 1 := by
  unfold addA; split <;> simp <;> omega

theorem seqFold_shape (L : ℕ) (hL : 0 < L) : HFoldShape L (L - 1) (fun g => seqFold addA g L) where
  cover := by
    intro g
    obtain ⟨n, rfl⟩ : ∃ n, L = n + 1 := ⟨L - 1, by omega⟩
    induction n with
    | zero => simp [seqFold, sumR]
    | succ n ih =>
      show ((seqFold addA g (n + 2)).1 : Multiset ℕ) = _
      rw [seqFold, addA_list, sumR_succ, ← ih (by omega)]; rfl
  depth := by
    intro g d h
    obtain ⟨n, rfl⟩ : ∃ n, L = n + 1 := ⟨L - 1, by omega⟩
    show (seqFold addA g (n + 1)).2 ≤ d + n
    clear hL
    induction n with
    | zero => simpa [seqFold] using h 0 (by omega)
    | succ n ih =>
      rw [seqFold]
      have h1 := ih (fun k hk => h k (by omega))
      have h2 := h (n + 1) (by omega)
      have := addA_depth' (seqFold addA g (n + 1)) (g (n + 1)) (d + n) h1 (by omega)
      omega
  empty := by
    intro g h
    obtain ⟨n, rfl⟩ : ∃ n, L = n + 1 := ⟨L - 1, by omega⟩
    clear hL
    induction n with
    | zero => simpa [seqFold] using h 0 (by omega)
    | succ n ih =>
      rw [seqFold, ih (fun k hk => h k (by omega)), h (n + 1) (by omega)]
      simp [addA]

/-! ### cover: every index exactly once -/

theorem sumR_singletons (n : ℕ) : sumR (· + ·) (0 : Multiset ℕ) (fun i => {i}) n = Multiset.range n := by
  induction n with
  | zero => rfl
  | succ n ih => rw [sumR_succ, ih, Multiset.range_succ, add_comm]; rfl

theorem multiset_monoid : CommMonoidOn (· + · : Multiset ℕ → Multiset ℕ → Multiset ℕ) 0 :=
  ⟨fun x y z => add_assoc x y z, fun x y => add_comm x y, fun x => zero_add x⟩

theorem cover (E : Env) (L hd dims : ℕ)
    (hL : 0 < L) (hsmall : L * 8 < usizeMod) (hfoldA : (ℕ → Ab) → Ab)
    (HF : HFoldShape L hd hfoldA) :
    ((reduceModel (opsA hfoldA) L dims).1 : Multiset ℕ) = Multiset.range dims := by
  have key := reduceModel_rel (fun (x : Ab) (m : Multiset ℕ) => (x.1 : Multiset ℕ) = m)
    (fun (x : Ab) (m : Multiset ℕ) => (x.1 : Multiset ℕ) = m)
    (opsA hfoldA) (sumOps (specOf (· + ·) (0 : Multiset ℕ)) (fun f => sumR (· + ·) 0 f L) (fun i => {i})) L dims hL
    rfl
    (by intro x m i _ h
        show ((x.1 ++ [i] : List ℕ) : Multiset ℕ) = m + {i}
        rw [← h]; rfl)
    (by intro x y m m' h1 h2
        show ((addA x y).1 : Multiset ℕ) = m + m'
        unfold addA
        by_cases hemp : x.1 = [] ∧ y.1 = []
        · rw [if_pos hemp, ← h1, ← h2, hemp.1, hemp.2]; rfl
        · rw [if_neg hemp, ← h1, ← h2]; rfl)
    (by intro f f' h
        show ((hfoldA f).1 : Multiset ℕ) = sumR (· + ·) 0 f' L
        rw [HF.cover]
        exact sumR_congr _ _ _ (fun k hk => h k hk))
    (by intro x m i _ h
        show ((x.1 ++ [i] : List ℕ) : Multiset ℕ) = m + {i}
        rw [← h]; rfl)
  rw [key, reduceModel_sum_monoid multiset_monoid E L dims hL hsmall, sumR_singletons]

/-! ### depth: at most `n + 3` roundings -/

/-- `m` lane updates starting from `(l₀, k₀)`: afterwards the list is non-empty and the depth is `max k₀ 1 + m` -/
theorem accumA_spec (K : ℕ) (m i : ℕ) (x : Ab) :
    (m = 0 → accum laneA K m i x = x) ∧ (0 < m → (accum laneA K m i x).1 ≠ [] ∧ (accum laneA K m i x).2 = max x.2 1 + m) := by
  have := accum_inv (fun j (y : Ab) => (j = 0 → y = x) ∧ (0 < j → y.1 ≠ [] ∧ y.2 = max x.2 1 + j)) laneA K m i x
    ⟨fun _ => rfl, fun h => absurd h (by omega)⟩
    (by
      intro y j _ hy
      refine ⟨fun h => absurd h (by omega), fun _ => ?_⟩
      unfold laneA
      refine ⟨by simp, ?_⟩
      rcases Nat.eq_zero_or_pos j with h0 | h0
      · subst h0; rw [hy.1 rfl]
      · rw [(hy.2 h0).2]
        have : max (max x.2 1 + j) 1 = max x.2 1 + j := by omega
        rw [this]; omega)
  exact this

theorem addA_depth (x y : Ab) (d : ℕ) (hx : x.2 ≤ d) (hy : y.2 ≤ d) : (addA x y).2 ≤ d + 1 := by
  unfold addA; split <;> simp <;> omega

theorem addA_empty (x y : Ab) (hx : x = ([], 0)) (hy : y = ([], 0)) : addA x y = ([], 0) := by
  subst hx hy; simp [addA]

theorem depth_bound (hfoldA : (ℕ → Ab) → Ab) (L hd dims : ℕ) (hL : 0 < L) (hhd : hd + 1 ≤ L)
    (hdepth : ∀ (g : ℕ → Ab) (d : ℕ), (∀ k, k < L → (g k).2 ≤ d) → (hfoldA g).2 ≤ d + hd)
    (hempty : ∀ g : ℕ → Ab, (∀ k, k < L → g k = ([], 0)) → hfoldA g = ([], 0)) :
    (reduceModel (opsA hfoldA) L dims).2 ≤ dims + 3 := by
  have hdims := Nat.div_add_mod dims (L * 8)
  have hr := Nat.div_add_mod (dims % (L * 8)) L
  rw [Nat.mul_comm] at hdims hr
  unfold reduceModel
  simp only [opsA]
  generalize hq : dims / (L * 8) = q at *
  generalize hrr : dims % (L * 8) = r at *
  generalize hn2 : r / L = n2 at *
  generalize hr2 : r % L = r2 at *
  -- dense lanes
  have hdense : ∀ kk, (q = 0 → accum laneA (L * 8) q kk ([], 0) = ([], 0))
      ∧ (0 < q → (accum laneA (L * 8) q kk ([], 0)).2 = q + 1) := by
    intro kk
    have := accumA_spec (L * 8) q kk ([], 0)
    exact ⟨this.1, fun h => by rw [(this.2 h).2]; simp; omega⟩
  -- rolled-up lanes
  have hrolled : ∀ k, (q = 0 → tree8 addA (fun qq => accum laneA (L * 8) q (qq * L + k) ([], 0)) = ([], 0))
      ∧ ((tree8 addA (fun qq => accum laneA (L * 8) q (qq * L + k) ([], 0))).2 ≤ q + 4) := by
    intro k
    constructor
    · intro h0
      simp only [tree8]
      simp only [(hdense _).1 h0, addA_empty]
    · rcases Nat.eq_zero_or_pos q with h0 | h0
      · simp only [tree8]
        simp only [(hdense _).1 h0, addA_empty]
        simp
      · simp only [tree8]
        have hd' : ∀ kk, (accum laneA (L * 8) q kk ([], 0)).2 ≤ q + 1 := fun kk => by rw [(hdense kk).2 h0]
        exact addA_depth _ _ (q + 3)
          (addA_depth _ _ (q + 2) (addA_depth _ _ (q + 1) (hd' _) (hd' _)) (addA_depth _ _ (q + 1) (hd' _) (hd' _)))
          (addA_depth _ _ (q + 2) (addA_depth _ _ (q + 1) (hd' _) (hd' _)) (addA_depth _ _ (q + 1) (hd' _) (hd' _)))
  -- register phase
  have hreg : ∀ k, ((q = 0 ∧ n2 = 0) → accum laneA L n2 (q * (L * 8) + k)
        (tree8 addA (fun qq => accum laneA (L * 8) q (qq * L + k) ([], 0))) = ([], 0))
      ∧ ((accum laneA L n2 (q * (L * 8) + k)
        (tree8 addA (fun qq => accum laneA (L * 8) q (qq * L + k) ([], 0)))).2 ≤ (if q = 0 then 1 else q + 4) + n2) := by
    intro k
    have sp := accumA_spec L n2 (q * (L * 8) + k) (tree8 addA (fun qq => accum laneA (L * 8) q (qq * L + k) ([], 0)))
    constructor
    · rintro ⟨h0, h2⟩
      rw [sp.1 h2, (hrolled k).1 h0]
    · rcases Nat.eq_zero_or_pos n2 with h2 | h2
      · rw [sp.1 h2]
        have := (hrolled k).2
        rcases Nat.eq_zero_or_pos q with h0 | h0
        · rw [(hrolled k).1 h0]; simp
        · have : q ≠ 0 := by omega
          simp only [this, if_false]; omega
      · rw [(sp.2 h2).2]
        rcases Nat.eq_zero_or_pos q with h0 | h0
        · rw [(hrolled k).1 h0]; simp [h0]
        · have hq0 : q ≠ 0 := by omega
          have := (hrolled k).2
          simp only [hq0, if_false]; omega
  -- horizontal fold
  have hfold : ((q = 0 ∧ n2 = 0) → hfoldA (fun k => accum laneA L n2 (q * (L * 8) + k)
        (tree8 addA (fun qq => accum laneA (L * 8) q (qq * L + k) ([], 0)))) = ([], 0))
      ∧ (hfoldA (fun k => accum laneA L n2 (q * (L * 8) + k)
        (tree8 addA (fun qq => accum laneA (L * 8) q (qq * L + k) ([], 0))))).2 ≤ (if q = 0 then 1 else q + 4) + n2 + hd :=
    ⟨fun h => hempty _ (fun k _ => (hreg k).1 h), hdepth _ _ (fun k _ => (hreg k).2)⟩
  -- scalar tail
  have sp := accumA_spec 1 r2 (q * (L * 8) + n2 * L) (hfoldA (fun k => accum laneA L n2 (q * (L * 8) + k)
        (tree8 addA (fun qq => accum laneA (L * 8) q (qq * L + k) ([], 0)))))
  have hq8 : q ≤ q * (L * 8) := Nat.le_mul_of_pos_right q (by omega)
  have hn2L : n2 ≤ n2 * L := Nat.le_mul_of_pos_right n2 hL
  rcases Nat.eq_zero_or_pos r2 with h2 | h2
  · rw [sp.1 h2]
    rcases Nat.eq_zero_or_pos q with h0 | h0
    · rcases Nat.eq_zero_or_pos n2 with hn | hn
      · rw [hfold.1 ⟨h0, hn⟩]; simp
      · have := hfold.2
        rw [if_pos h0] at this
        have hz : q * (L * 8) = 0 := by rw [h0, Nat.zero_mul]
        -- 1 + n2 + hd ≤ n2 * L + 3
        have h3 : n2 + L ≤ n2 * L + 1 + n2 := by
          have : L ≤ n2 * L := Nat.le_mul_of_pos_left L hn
          omega
        have h4 : n2 + L ≤ n2 * L + 2 := by
          -- (n2 - 1)(L - 1) ≥ 0
          obtain ⟨n', rfl⟩ : ∃ n', n2 = n' + 1 := ⟨n2 - 1, by omega⟩
          obtain ⟨L', rfl⟩ : ∃ L', L = L' + 1 := ⟨L - 1, by omega⟩
          have : (n' + 1) * (L' + 1) = n' * L' + n' + L' + 1 := by ring
          omega
        omega
    · have hq0 : q ≠ 0 := by omega
      have := hfold.2
      rw [if_neg hq0] at this
      -- q + 4 + n2 + hd ≤ q*8L + n2*L + 3
      have h8 : q + L ≤ q * (L * 8) := by
        obtain ⟨q', rfl⟩ : ∃ q', q = q' + 1 := ⟨q - 1, by omega⟩
        have : (q' + 1) * (L * 8) = q' * (L * 8) + L * 8 := by ring
        have h9 : q' ≤ q' * (L * 8) := Nat.le_mul_of_pos_right q' (by omega)
        omega
      omega
  · rw [(sp.2 h2).2]
    rcases Nat.eq_zero_or_pos q with h0 | h0
    · rcases Nat.eq_zero_or_pos n2 with hn | hn
      · rw [hfold.1 ⟨h0, hn⟩]; simp; omega
      · have := hfold.2
        rw [if_pos h0] at this
        have hz : q * (L * 8) = 0 := by rw [h0, Nat.zero_mul]
        have h4 : n2 + L ≤ n2 * L + 2 := by
          obtain ⟨n', rfl⟩ : ∃ n', n2 = n' + 1 := ⟨n2 - 1, by omega⟩
          obtain ⟨L', rfl⟩ : ∃ L', L = L' + 1 := ⟨L - 1, by omega⟩
          have : (n' + 1) * (L' + 1) = n' * L' + n' + L' + 1 := by ring
          omega
        omega
    · have hq0 : q ≠ 0 := by omega
      have := hfold.2
      rw [if_neg hq0] at this
      have h8 : q + L ≤ q * (L * 8) := by
        obtain ⟨q', rfl⟩ : ∃ q', q = q' + 1 := ⟨q - 1, by omega⟩
        have : (q' + 1) * (L * 8) = q' * (L * 8) + L * 8 := by ring
        have h9 : q' ≤ q' * (L * 8) := Nat.le_mul_of_pos_right q' (by omega)
        omega
      omega

/-! ### the bound -/

section
variable {T : Type} {S : ScalarSpec T} {fm : T → T → T → T} (F : FloatSem S fm)

/-- from a step-by-step relation between a float run and the abstract run to the `γ(n+3)` bound -/
theorem bound_of_rel (E : Env) (L hd dims : ℕ) (hL : 0 < L) (hsmall : L * 8 < usizeMod) (hhd : hd + 1 ≤ L)
    (hsum : (ℕ → T) → T) (hfoldA : (ℕ → Ab) → Ab) (HF : HFoldSem F L hd hsum hfoldA) (term : ℕ → ℝ) (v : T)
    (hrel : RelE F term v (reduceModel (opsA hfoldA) L dims))
    (hfin : F.Fin v) (hk : ((dims + 3 : ℕ) : ℝ) * F.u < 1) :
    |F.val v - ((List.range dims).map term).sum|
      ≤ gamma F.u (dims + 3) * ((List.range dims).map (fun i => |term i|)).sum := by
  have happ := (hrel hfin).mono F.hu (depth_bound hfoldA L hd dims hL hhd HF.shape.depth HF.shape.empty)
  have herr := happ.error
  have hcov := cover E L hd dims hL hsmall hfoldA HF.shape
  have hperm : (reduceModel (opsA hfoldA) L dims).1.Perm (List.range dims) := by
    have : ((reduceModel (opsA hfoldA) L dims).1 : Multiset ℕ) = ((List.range dims : List ℕ) : Multiset ℕ) := by
      rw [hcov]; rfl
    exact Quotient.exact this
  rw [(hperm.map _).sum_eq, (hperm.map _).sum_eq] at herr
  refine herr.trans (mul_le_mul_of_nonneg_right (pow_sub_one_le_gamma F.u F.hu _ hk) ?_)
  exact List.sum_nonneg (by intro x hx; obtain ⟨i, _, rfl⟩ := List.mem_map.mp hx; exact abs_nonneg _)

/-- **C04 on the model (sum).** -/
theorem sum_bound (E : Env) (L hd dims : ℕ) (hL : 0 < L) (hsmall : L * 8 < usizeMod) (hhd : hd + 1 ≤ L)
    (hsum : (ℕ → T) → T) (hfoldA : (ℕ → Ab) → Ab) (HF : HFoldSem F L hd hsum hfoldA) (a : ℕ → T)
    (hfin : F.Fin (reduceModel (sumOps S hsum a) L dims)) (hk : ((dims + 3 : ℕ) : ℝ) * F.u < 1) :
    |F.val (reduceModel (sumOps S hsum a) L dims) - ((List.range dims).map (fun i => F.val (a i))).sum|
      ≤ gamma F.u (dims + 3) * ((List.range dims).map (fun i => |F.val (a i)|)).sum := by
  refine bound_of_rel F E L hd dims hL hsmall hhd hsum hfoldA HF (fun i => F.val (a i)) _ ?_ hfin hk
  exact reduceModel_rel (RelE F (fun i => F.val (a i))) (RelE F (fun i => F.val (a i))) (sumOps S hsum a) (opsA hfoldA)
    L dims hL (relE_zero F _)
    (fun x y i _ h => relE_sum_step F a x y i h)
    (fun x y x' y' h1 h2 => relE_add F _ x y x' y' h1 h2)
    (fun f f' h => HF.rel _ f f' h)
    (fun x y i _ h => relE_sum_step F a x y i h)

/-- **C04 on the model (dot product).** If the result is finite and no product of inputs underflows, the float dot
product computed in the kernels' layout — any lane count `L`, any horizontal fold of depth `≤ L − 1`, fused or not —
differs from the exact real dot product by at most `γ(n+3) · Σ |aᵢ bᵢ|`. -/
theorem dot_bound (E : Env) (L hd dims : ℕ) (hL : 0 < L) (hsmall : L * 8 < usizeMod) (hhd : hd + 1 ≤ L)
    (hsum : (ℕ → T) → T) (hfoldA : (ℕ → Ab) → Ab) (HF : HFoldSem F L hd hsum hfoldA)
    (a b : ℕ → T) (hnu : ∀ i, F.NoUf (a i) (b i))
    (hfin : F.Fin (reduceModel (dotOps S fm hsum a b) L dims)) (hk : ((dims + 3 : ℕ) : ℝ) * F.u < 1) :
    |F.val (reduceModel (dotOps S fm hsum a b) L dims) - ((List.range dims).map (termR F a b)).sum|
      ≤ gamma F.u (dims + 3) * ((List.range dims).map (fun i => |termR F a b i|)).sum := by
  refine bound_of_rel F E L hd dims hL hsmall hhd hsum hfoldA HF (termR F a b) _ ?_ hfin hk
  exact reduceModel_rel (RelE F (termR F a b)) (RelE F (termR F a b)) (dotOps S fm hsum a b) (opsA hfoldA) L dims hL
    (relE_zero F _)
    (fun x y i _ h => relE_lane F a b hnu x y i h)
    (fun x y x' y' h1 h2 => relE_add F _ x y x' y' h1 h2)
    (fun f f' h => HF.rel _ f f' h)
    (fun x y i _ h => relE_tail F a b hnu x y i h)

end

/-! ### the sequential fold transports the relation; building `FloatSem` from the primitive assumptions -/

section
variable {T : Type} {S : ScalarSpec T} {fm : T → T → T → T}

theorem seqFold_sem (F : FloatSem S fm) (L : ℕ) (hL : 0 < L) :
    HFoldSem F L (L - 1) (fun f => seqFold S.add f L) (fun g => seqFold addA g L) where
  shape := seqFold_shape L hL
  rel := by
    intro term f g h
    obtain ⟨n, rfl⟩ : ∃ n, L = n + 1 := ⟨L - 1, by omega⟩
    clear hL
    induction n with
    | zero => simpa [seqFold] using h 0 (by omega)
    | succ n ih =>
      show RelE F term (seqFold S.add f (n + 2)) (seqFold addA g (n + 2))
      rw [seqFold, seqFold]
      exact relE_add F term _ _ _ _ (ih (fun k hk => h k (by omega))) (h (n + 1) (by omega))

/-- unfused multiply-add (`Fallback`, `Avx2`): `fm x y acc = (x * y) + acc`, two roundings -/
def FloatSem.ofUnfused (val : T → ℝ) (u : ℝ) (hu : 0 ≤ u) (Fin : T → Prop) (NoUf : T → T → Prop)
    (zero_val : val S.zero = 0)
    (add_std : ∀ x y, Fin (S.add x y) → Fin x ∧ Fin y ∧ ∃ δ, |δ| ≤ u ∧ val (S.add x y) = (val x + val y) * (1 + δ))
    (mul_std : ∀ x y, Fin (S.mul x y) → NoUf x y → ∃ δ, |δ| ≤ u ∧ val (S.mul x y) = val x * val y * (1 + δ)) :
    FloatSem S (fun x y acc => S.add (S.mul x y) acc) where
  val := val
  u := u
  hu := hu
  Fin := Fin
  NoUf := NoUf
  zero_val := zero_val
  add_std := add_std
  mul_std := mul_std
  fm_std := by
    intro x y acc hf hnu
    obtain ⟨hm, ha, δ₂, h2, e⟩ := add_std _ _ hf
    obtain ⟨δ₁, h1, e1⟩ := mul_std _ _ hm hnu
    exact ⟨ha, δ₁, δ₂, h1, h2, by rw [e, e1]⟩

/-- fused multiply-add (`Avx2Fma`, `Avx512`, NEON): one rounding of `x·y + acc` -/
def FloatSem.ofFused (val : T → ℝ) (u : ℝ) (hu : 0 ≤ u) (Fin : T → Prop) (NoUf : T → T → Prop)
    (zero_val : val S.zero = 0)
    (add_std : ∀ x y, Fin (S.add x y) → Fin x ∧ Fin y ∧ ∃ δ, |δ| ≤ u ∧ val (S.add x y) = (val x + val y) * (1 + δ))
    (mul_std : ∀ x y, Fin (S.mul x y) → NoUf x y → ∃ δ, |δ| ≤ u ∧ val (S.mul x y) = val x * val y * (1 + δ))
    (fma_std : ∀ x y acc, Fin (fm x y acc) → NoUf x y →
      Fin acc ∧ ∃ δ, |δ| ≤ u ∧ val (fm x y acc) = (val x * val y + val acc) * (1 + δ)) :
    FloatSem S fm where
  val := val
  u := u
  hu := hu
  Fin := Fin
  NoUf := NoUf
  zero_val := zero_val
  add_std := add_std
  mul_std := mul_std
  fm_std := by
    intro x y acc hf hnu
    obtain ⟨ha, δ, h, e⟩ := fma_std x y acc hf hnu
    exact ⟨ha, 0, δ, by simpa using hu, h, by rw [e]; ring⟩

end

/-! ### exactness: integer-valued data whose absolute sum fits the significand -/

def IsInt (r : ℝ) : Prop := ∃ z : ℤ, r = z

theorem IsInt.add {r s : ℝ} (h1 : IsInt r) (h2 : IsInt s) : IsInt (r + s) := by
  obtain ⟨a, rfl⟩ := h1; obtain ⟨b, rfl⟩ := h2; exact ⟨a + b, by push_cast; ring⟩
theorem IsInt.mul {r s : ℝ} (h1 : IsInt r) (h2 : IsInt s) : IsInt (r * s) := by
  obtain ⟨a, rfl⟩ := h1; obtain ⟨b, rfl⟩ := h2; exact ⟨a * b, by push_cast; ring⟩
theorem IsInt.zero : IsInt 0 := ⟨0, by simp⟩
theorem IsInt.list_sum (term : ℕ → ℝ) (h : ∀ i, IsInt (term i)) (l : List ℕ) : IsInt (l.map term).sum := by
  induction l with
  | nil => simpa using IsInt.zero
  | cons i l ih => simpa using (h i).add ih

/-- What is assumed of the arithmetic for the exactness claim (true of IEEE formats with `P = 2^p`): operations on
finite integer-valued operands whose exact result is at most `P` in magnitude are exact (and finite). -/
structure ExactSem {T : Type} (S : ScalarSpec T) (fm : T → T → T → T) where
  val : T → ℝ
  Fin : T → Prop
  P : ℝ
  zero_val : val S.zero = 0
  zero_fin : Fin S.zero
  add_exact : ∀ x y, Fin x → Fin y → IsInt (val x) → IsInt (val y) → |val x + val y| ≤ P →
    Fin (S.add x y) ∧ val (S.add x y) = val x + val y
  mul_exact : ∀ x y, Fin x → Fin y → IsInt (val x) → IsInt (val y) → |val x * val y| ≤ P →
    Fin (S.mul x y) ∧ val (S.mul x y) = val x * val y
  fm_exact : ∀ x y acc, Fin x → Fin y → Fin acc → IsInt (val x) → IsInt (val y) → IsInt (val acc) →
    |val x * val y| ≤ P → |val x * val y + val acc| ≤ P →
    Fin (fm x y acc) ∧ val (fm x y acc) = val x * val y + val acc

section
variable {T : Type} {S : ScalarSpec T} {fm : T → T → T → T} (X : ExactSem S fm) (a b : ℕ → T)

def termX (i : ℕ) : ℝ := X.val (a i) * X.val (b i)

/-- as long as the absolute values of the absorbed terms sum to at most `P`, the partial result is finite and
*exactly* the sum of those terms -/
def RelX (x : T) (y : Ab) : Prop :=
  (y.1.map (fun i => |termX X a b i|)).sum ≤ X.P → X.Fin x ∧ X.val x = (y.1.map (termX X a b)).sum

theorem abs_list_sum_le (term : ℕ → ℝ) (l : List ℕ) : |(l.map term).sum| ≤ (l.map (fun i => |term i|)).sum := by
  induction l with
  | nil => simp
  | cons i l ih => simp only [List.map_cons, List.sum_cons]; exact (abs_add_le _ _).trans (by linarith)

theorem abs_sum_nonneg (term : ℕ → ℝ) (l : List ℕ) : 0 ≤ (l.map (fun i => |term i|)).sum :=
  List.sum_nonneg (by intro x hx; obtain ⟨i, _, rfl⟩ := List.mem_map.mp hx; exact abs_nonneg _)

variable (hin : ∀ i, X.Fin (a i) ∧ X.Fin (b i) ∧ IsInt (X.val (a i)) ∧ IsInt (X.val (b i)))
include hin

theorem termX_int (i : ℕ) : IsInt (termX X a b i) := (hin i).2.2.1.mul (hin i).2.2.2

theorem relX_step {x : T} {y : Ab} {z : T} (i : ℕ) (h : RelX X a b x y)
    (hz : X.Fin x → IsInt (X.val x) → |termX X a b i| ≤ X.P → |termX X a b i + X.val x| ≤ X.P →
      X.Fin z ∧ X.val z = termX X a b i + X.val x) :
    RelX X a b z (laneA y i) := by
  intro hP
  have hP' : (y.1.map (fun i => |termX X a b i|)).sum + |termX X a b i| ≤ X.P := by
    simpa [laneA, List.map_append, List.sum_append] using hP
  have h0 := abs_sum_nonneg (termX X a b) y.1
  obtain ⟨hfx, ex⟩ := h (by linarith [abs_nonneg (termX X a b i)])
  have hint : IsInt (X.val x) := by rw [ex]; exact IsInt.list_sum _ (termX_int X a b hin) _
  have hb : |termX X a b i + X.val x| ≤ X.P := by
    rw [ex]
    exact (abs_add_le _ _).trans (by linarith [abs_list_sum_le (termX X a b) y.1])
  obtain ⟨hfz, ez⟩ := hz hfx hint (by linarith) hb
  refine ⟨hfz, ?_⟩
  simp only [laneA, List.map_append, List.sum_append, List.map_cons, List.map_nil, List.sum_cons, List.sum_nil]
  rw [ez, ex]; ring

theorem relX_lane (x : T) (y : Ab) (i : ℕ) (h : RelX X a b x y) : RelX X a b (fm (a i) (b i) x) (laneA y i) :=
  relX_step X a b hin i h (fun hfx hint h1 h2 =>
    X.fm_exact _ _ _ (hin i).1 (hin i).2.1 hfx (hin i).2.2.1 (hin i).2.2.2 hint h1 h2)

theorem relX_tail (x : T) (y : Ab) (i : ℕ) (h : RelX X a b x y) :
    RelX X a b (S.add x (S.mul (a i) (b i))) (laneA y i) := by
  apply relX_step X a b hin i h
  intro hfx hint h1 h2
  obtain ⟨hfm, em⟩ := X.mul_exact _ _ (hin i).1 (hin i).2.1 (hin i).2.2.1 (hin i).2.2.2 h1
  have himul : IsInt (X.val (S.mul (a i) (b i))) := by rw [em]; exact termX_int X a b hin i
  obtain ⟨hfa, ea⟩ := X.add_exact _ _ hfx hfm hint himul (by rw [em, add_comm]; exact h2)
  exact ⟨hfa, by rw [ea, em]; unfold termX; ring⟩

theorem relX_add (x x' : T) (y y' : Ab) (h1 : RelX X a b x y) (h2 : RelX X a b x' y') :
    RelX X a b (S.add x x') (addA y y') := by
  intro hP
  rw [addA_list, List.map_append, List.sum_append] at hP
  have n1 := abs_sum_nonneg (termX X a b) y.1
  have n2 := abs_sum_nonneg (termX X a b) y'.1
  obtain ⟨f1, e1⟩ := h1 (by linarith)
  obtain ⟨f2, e2⟩ := h2 (by linarith)
  have i1 : IsInt (X.val x) := by rw [e1]; exact IsInt.list_sum _ (termX_int X a b hin) _
  have i2 : IsInt (X.val x') := by rw [e2]; exact IsInt.list_sum _ (termX_int X a b hin) _
  have hb : |X.val x + X.val x'| ≤ X.P := by
    rw [e1, e2]
    exact (abs_add_le _ _).trans (by linarith [abs_list_sum_le (termX X a b) y.1, abs_list_sum_le (termX X a b) y'.1])
  obtain ⟨f, e⟩ := X.add_exact _ _ f1 f2 i1 i2 hb
  exact ⟨f, by rw [addA_list, List.map_append, List.sum_append, e, e1, e2]⟩

theorem relX_zero : RelX X a b S.zero ([], 0) := fun _ => ⟨X.zero_fin, by simp [X.zero_val]⟩

omit hin in
/-- the sequential fold (and the one-lane fold) transport exactness -/
theorem seqFold_relX (hin' : ∀ i, X.Fin (a i) ∧ X.Fin (b i) ∧ IsInt (X.val (a i)) ∧ IsInt (X.val (b i)))
    (L : ℕ) (hL : 0 < L) (f : ℕ → T) (g : ℕ → Ab) (h : ∀ k, k < L → RelX X a b (f k) (g k)) :
    RelX X a b (seqFold S.add f L) (seqFold addA g L) := by
  obtain ⟨n, rfl⟩ : ∃ n, L = n + 1 := ⟨L - 1, by omega⟩
  clear hL
  induction n with
  | zero => simpa [seqFold] using h 0 (by omega)
  | succ n ih =>
    rw [seqFold, seqFold]
    exact relX_add X a b hin' _ _ _ _ (ih (fun k hk => h k (by omega))) (h (n + 1) (by omega))

/-- **C04 on the model (exactness, dot product).** integer-valued inputs with `Σ |aᵢ bᵢ| ≤ P`: the result is finite and
exactly `Σ aᵢ bᵢ` — every element counted exactly once, whatever the lane count, fold and fusion -/
theorem dot_exact (E : Env) (L hd dims : ℕ) (hL : 0 < L) (hsmall : L * 8 < usizeMod)
    (hsum : (ℕ → T) → T) (hfoldA : (ℕ → Ab) → Ab) (HS : HFoldShape L hd hfoldA)
    (hrelf : ∀ (f : ℕ → T) (g : ℕ → Ab), (∀ k, k < L → RelX X a b (f k) (g k)) → RelX X a b (hsum f) (hfoldA g))
    (hP : ((List.range dims).map (fun i => |termX X a b i|)).sum ≤ X.P) :
    X.Fin (reduceModel (dotOps S fm hsum a b) L dims)
      ∧ X.val (reduceModel (dotOps S fm hsum a b) L dims) = ((List.range dims).map (termX X a b)).sum := by
  have hrel := reduceModel_rel (RelX X a b) (RelX X a b) (dotOps S fm hsum a b) (opsA hfoldA) L dims hL
    (relX_zero X a b hin)
    (fun x y i _ h => relX_lane X a b hin x y i h)
    (fun x y x' y' h1 h2 => relX_add X a b hin x y x' y' h1 h2)
    hrelf
    (fun x y i _ h => relX_tail X a b hin x y i h)
  have hcov := cover E L hd dims hL hsmall hfoldA HS
  have hperm : (reduceModel (opsA hfoldA) L dims).1.Perm (List.range dims) := by
    have : ((reduceModel (opsA hfoldA) L dims).1 : Multiset ℕ) = ((List.range dims : List ℕ) : Multiset ℕ) := by
      rw [hcov]; rfl
    exact Quotient.exact this
  have := hrel (by rw [(hperm.map _).sum_eq]; exact hP)
  rw [(hperm.map _).sum_eq] at this
  exact this

end

end Cfavml.FloatReduce
