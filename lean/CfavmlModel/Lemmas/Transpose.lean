/-
cfavml-gemm transposition: lane lemmas for the AVX2 register networks, the index algebra of
`result[i*height + j] = data[j*width + i]`, the "agrees on the cells done so far" invariant and the scalar row scan
that the naive loop and both tail loops of `generic_transpose` share.
-/
import CfavmlModel.Lemmas.X86Lanes
import CfavmlModel.Lemmas.Loop
import CfavmlModel.Lemmas.Map2
import CfavmlModel.Hand.TransposeGlue

namespace Cfavml
open X86

/-! ### narrow lanes of wide lanes -/

/-- a narrow lane of a wide lane -/
theorem lane_lane_sub {n : Nat} (w c q k : Nat) (hk : k < c) (r : BitVec n) :
    lane w k (lane (w * c) q r) = lane w (c * q + k) r := by
  apply BitVec.eq_of_getLsbD_eq
  intro i hi
  rw [getLsbD_lane, getLsbD_lane, getLsbD_lane]
  have h1 : w * k + i < w * c := by
    have : w * (k + 1) ≤ w * c := Nat.mul_le_mul_left w (by omega)
    rw [Nat.mul_succ] at this; omega
  have h2 : w * c * q + (w * k + i) = w * (c * q + k) + i := by
    rw [Nat.mul_add, Nat.mul_assoc]; omega
  simp [hi, h1, h2]

/-- a narrow lane of a register assembled from wide lanes -/
theorem lane_sub_fromLanes {n : Nat} (w c : Nat) (hw : 0 < w) (hc : 0 < c) (cnt : Nat) (g : Nat → BitVec (w * c)) (k : Nat)
    (hk : k < c * cnt) (hfit : w * c * cnt ≤ n) :
    lane w k (fromLanes (n := n) (w * c) cnt g) = lane w (k % c) (g (k / c)) := by
  have hq : k / c < cnt := by
    rw [Nat.div_lt_iff_lt_mul hc]; rw [Nat.mul_comm]; exact hk
  have h0 := lane_fromLanes (n := n) (w * c) (Nat.mul_pos hw hc) cnt g (k / c) hq hfit
  rw [← h0, lane_lane_sub w c (k / c) (k % c) (Nat.mod_lt _ hc)]
  congr 1
  exact (Nat.div_add_mod k c).symm

theorem lane32_of_lanes128 (g : Nat → BitVec 128) (k : Nat) (hk : k < 8) :
    lane 32 k (fromLanes (n := 256) 128 2 g) = lane 32 (k % 4) (g (k / 4)) :=
  lane_sub_fromLanes (n := 256) 32 4 (by omega) (by omega) 2 g k (by omega) (by omega)

theorem lane32_lane128 (q k : Nat) (hk : k < 4) (r : BitVec 256) :
    lane 32 k (lane 128 q r) = lane 32 (4 * q + k) r :=
  lane_lane_sub 32 4 q k hk r

theorem lane32_fromLanes8 (f : Nat → BitVec 32) (k : Nat) (hk : k < 8) :
    lane 32 k (fromLanes (n := 256) 32 8 f) = f k :=
  lane_fromLanes 32 (by omega) 8 f k hk (by omega)

theorem lane64_of_lanes128 (g : Nat → BitVec 128) (k : Nat) (hk : k < 4) :
    lane 64 k (fromLanes (n := 256) 128 2 g) = lane 64 (k % 2) (g (k / 2)) :=
  lane_sub_fromLanes (n := 256) 64 2 (by omega) (by omega) 2 g k (by omega) (by omega)

theorem lane64_lane128 (q k : Nat) (hk : k < 2) (r : BitVec 256) :
    lane 64 k (lane 128 q r) = lane 64 (2 * q + k) r :=
  lane_lane_sub 64 2 q k hk r

theorem lane64_fromLanes4 (f : Nat → BitVec 64) (k : Nat) (hk : k < 4) :
    lane 64 k (fromLanes (n := 256) 64 4 f) = f k :=
  lane_fromLanes 64 (by omega) 4 f k hk (by omega)

def Dense4x4Lane.nth {α} (l : Dense4x4Lane α) : Nat → α
  | 0 => l.a | 1 => l.b | 2 => l.c | _ => l.d

/-- `_MM_SHUFFLE(0, 0, 0, 2)` of cfavml-gemm -/
theorem gemm_shuffle_0002 (E : Env) :
    I32.toNat (Gemm._MM_SHUFFLE E (U32.lit 0) (U32.lit 0) (U32.lit 0) (U32.lit 2)) = 2 := by simp [Gemm._MM_SHUFFLE]
/-- `_MM_SHUFFLE(0, 3, 0, 1)` of cfavml-gemm -/
theorem gemm_shuffle_0301 (E : Env) :
    I32.toNat (Gemm._MM_SHUFFLE E (U32.lit 0) (U32.lit 3) (U32.lit 0) (U32.lit 1)) = 49 := by simp [Gemm._MM_SHUFFLE]

/-! ### index algebra -/

theorem idx_lt {w h i j : Nat} (hi : i < w) (hj : j < h) : i * h + j < w * h := by
  have : (i + 1) * h ≤ w * h := Nat.mul_le_mul_right h (by omega)
  rw [Nat.succ_mul] at this
  omega

theorem idx_div {h i j : Nat} (hj : j < h) : (i * h + j) / h = i := by
  have hh : 0 < h := by omega
  rw [Nat.mul_comm, Nat.mul_add_div hh, Nat.div_eq_of_lt hj]; simp

theorem idx_mod {h i j : Nat} (hj : j < h) : (i * h + j) % h = j := by
  rw [Nat.mul_comm, Nat.mul_add_mod, Nat.mod_eq_of_lt hj]

theorem idx_eq_iff {h i j k : Nat} (hj : j < h) : k = i * h + j ↔ (k / h = i ∧ k % h = j) := by
  constructor
  · intro e; subst e; exact ⟨idx_div hj, idx_mod hj⟩
  · rintro ⟨e1, e2⟩
    have := Nat.div_add_mod k h
    rw [e1, e2, Nat.mul_comm] at this
    omega

theorem umul_ok (E : Env) (x y : Nat) (h : x * y < usizeMod) : umul E x y = pure (x * y) := by
  unfold umul; simp [h]

theorem checkedMulExpect_ok (x y : Nat) (h : x * y < usizeMod) : checkedMulExpect x y = pure (x * y) := by
  unfold checkedMulExpect; simp [h]

theorem checkedMulExpect_overflow (x y : Nat) (h : ¬ x * y < usizeMod) : checkedMulExpect x y = throw Fault.panic := by
  unfold checkedMulExpect; simp [h]

/-! ### the invariant: `res` holds the transposed value on the cells done so far and the old value elsewhere -/

section
variable {T : Type}

/-- the specification of a finished transposition -/
def IsTranspose (w h : Nat) (data res : Slice T) : Prop :=
  res.size = w * h ∧ ∀ i j, i < w → j < h → res.get (i * h + j) = data.get (j * w + i)

/-- `D a b` = "the cell of result row `a` (source column), result column `b` (source row) is done" -/
structure Agrees (w h : Nat) (data res0 : Slice T) (D : Nat → Nat → Prop) (res : Slice T) : Prop where
  size : res.size = res0.size
  done : ∀ k, k < w * h → D (k / h) (k % h) → res.get k = data.get ((k % h) * w + k / h)
  rest : ∀ k, k < w * h → ¬ D (k / h) (k % h) → res.get k = res0.get k

theorem Agrees.init (w h : Nat) (data res0 : Slice T) : Agrees w h data res0 (fun _ _ => False) res0 :=
  ⟨rfl, fun _ _ hD => hD.elim, fun _ _ _ => rfl⟩

theorem Agrees.congr {w h : Nat} {data res0 res : Slice T} {D D' : Nat → Nat → Prop}
    (hA : Agrees w h data res0 D res) (hD : ∀ a b, a < w → b < h → (D a b ↔ D' a b)) : Agrees w h data res0 D' res := by
  have hlt : ∀ k, k < w * h → k / h < w ∧ k % h < h := by
    intro k hk
    have hh : 0 < h := by
      rcases Nat.eq_zero_or_pos h with e | e
      · subst e; simp at hk
      · exact e
    exact ⟨by rw [Nat.div_lt_iff_lt_mul hh]; exact hk, Nat.mod_lt _ hh⟩
  refine ⟨hA.size, ?_, ?_⟩
  · intro k hk hd
    exact hA.done k hk ((hD _ _ (hlt k hk).1 (hlt k hk).2).mpr hd)
  · intro k hk hd
    exact hA.rest k hk (fun x => hd ((hD _ _ (hlt k hk).1 (hlt k hk).2).mp x))

/-- writing the transposed value of one cell -/
theorem Agrees.write {w h : Nat} {data res0 res : Slice T} {D : Nat → Nat → Prop}
    (hA : Agrees w h data res0 D res) (i j : Nat) (hj : j < h) :
    Agrees w h data res0 (fun a b => D a b ∨ (a = i ∧ b = j)) (res.set (i * h + j) (data.get (j * w + i))) := by
  refine ⟨hA.size, ?_, ?_⟩
  · intro k hk hd
    show (if k = i * h + j then _ else _) = _
    by_cases e : k = i * h + j
    · rw [if_pos e]
      obtain ⟨e1, e2⟩ := (idx_eq_iff hj).mp e
      rw [e1, e2]
    · rw [if_neg e]
      rcases hd with hd | ⟨e1, e2⟩
      · exact hA.done k hk hd
      · exact (e ((idx_eq_iff hj).mpr ⟨e1, e2⟩)).elim
  · intro k hk hd
    show (if k = i * h + j then _ else _) = _
    have e : ¬ k = i * h + j := fun e => hd (Or.inr ((idx_eq_iff hj).mp e))
    rw [if_neg e]
    exact hA.rest k hk (fun x => hd (Or.inl x))

/-- when every cell is done the result is the transpose -/
theorem Agrees.finish {w h : Nat} {data res0 res : Slice T} {D : Nat → Nat → Prop}
    (hA : Agrees w h data res0 D res) (hn : res0.size = w * h) (hD : ∀ a b, a < w → b < h → D a b) :
    IsTranspose w h data res := by
  refine ⟨by rw [hA.size, hn], ?_⟩
  intro i j hi hj
  have := hA.done (i * h + j) (idx_lt hi hj) (by rw [idx_div hj, idx_mod hj]; exact hD i j hi hj)
  rw [this, idx_div hj, idx_mod hj]

/-- `*result.get_unchecked_mut(i * height + j) = *data.get_unchecked(j * width + i)` -/
def copyStep (E : Env) (w h : Nat) (data : Slice T) (j i : Nat) (res : Slice T) : Exec (Slice T) := do
  let t ← umul E j w
  let v ← Slice.read data (t + i)
  let t' ← umul E i h
  Slice.write res (t' + j) v

theorem copyStep_ok (E : Env) {w h : Nat} (data res : Slice T) (hwh : w * h < usizeMod)
    (hd : data.size = w * h) (hr : res.size = w * h) {i j : Nat} (hi : i < w) (hj : j < h) :
    copyStep E w h data j i res = pure (res.set (i * h + j) (data.get (j * w + i))) := by
  have h1 : j * w + i < w * h := by rw [Nat.mul_comm w h]; exact idx_lt hj hi
  have h2 : i * h + j < w * h := idx_lt hi hj
  have h3 : j * w < usizeMod := by omega
  have h4 : i * h < usizeMod := by omega
  unfold copyStep
  rw [umul_ok E j w h3]; simp only [pure_bind]
  rw [umul_ok E i h h4]
  simp [Slice.read, Slice.write, hd, hr, h1, h2]

/-- **the scalar row scan** `while i < width { copy (j, i); i += 1 }` started at `i0` -/
theorem rowScan (E : Env) {w h : Nat} (data res0 : Slice T) (hwh : w * h < usizeMod)
    (hd : data.size = w * h) (hn : res0.size = w * h) (hfuel : w < E.fuel)
    (cond : Nat × Slice T → Exec Bool) (body : Nat × Slice T → Exec (Nat × Slice T)) (j : Nat) (hj : j < h)
    (hcond : ∀ st, cond st = pure (decide (st.1 < w)))
    (hbody : ∀ st, body st = (copyStep E w h data j st.1 st.2 >>= fun s' => pure (st.1 + 1, s')))
    (i0 : Nat) (hi0 : i0 ≤ w) (D : Nat → Nat → Prop) (res : Slice T) (hA : Agrees w h data res0 D res) :
    ∃ res', loopM E.fuel (i0, res) cond body = pure (w, res')
      ∧ Agrees w h data res0 (fun a b => D a b ∨ (b = j ∧ i0 ≤ a ∧ a < w)) res' := by
  rw [loopM_counted E.fuel cond body (copyStep E w h data j) w 1 (by omega) hcond hbody (w - i0) i0 res
    (by omega) (by omega) (by intro m hm; omega)]
  obtain ⟨res', e, hA'⟩ := iter_inv (copyStep E w h data j) 1 i0
    (fun m r => Agrees w h data res0 (fun a b => D a b ∨ (b = j ∧ i0 ≤ a ∧ a < i0 + m)) r) (w - i0) res
    (hA.congr (by intro a b _ _; constructor
                  · intro x; exact Or.inl x
                  · rintro (x | ⟨_, _, _⟩)
                    · exact x
                    · omega))
    (by
      intro m hm r hr
      have hi : i0 + m * 1 < w := by omega
      refine ⟨_, copyStep_ok E data r hwh hd (by rw [hr.size, hn]) hi hj, ?_⟩
      refine (hr.write (i0 + m * 1) j hj).congr ?_
      intro a b _ _
      constructor
      · rintro ((x | ⟨x1, x2, x3⟩) | ⟨x1, x2⟩)
        · exact Or.inl x
        · exact Or.inr ⟨x1, x2, by omega⟩
        · exact Or.inr ⟨x2, by omega, by omega⟩
      · rintro (x | ⟨x1, x2, x3⟩)
        · exact Or.inl (Or.inl x)
        · by_cases e : a = i0 + m * 1
          · exact Or.inr ⟨e, x1⟩
          · exact Or.inl (Or.inr ⟨x1, x2, by omega⟩))
  refine ⟨res', ?_, ?_⟩
  · rw [e]; simp only [pure_bind]
    congr 2
    omega
  · refine hA'.congr ?_
    intro a b _ _
    have : i0 + (w - i0) = w := by omega
    rw [this]

end
end Cfavml
