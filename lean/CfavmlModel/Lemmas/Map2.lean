/-
The element-wise vector×vector template (`generic_{add,sub,mul,div}_vector`, `generic_{max,min}_vertical`
are `rfl`-instances of it, see `Thm/KernelShapes.lean`) and its correctness theorem for an arbitrary
lane-wise faithful backend.
-/
import CfavmlModel.Spec.Lanes
import CfavmlModel.Lemmas.Fill

namespace Cfavml

/-- the common shape of the six vector×vector kernels: dense blocks, single registers, scalar tail -/
def map2T {T Reg : Type} (E : Env) (R : SimdRegister T Reg) (checkResult : Bool)
    (opDense : DenseLane Reg → DenseLane Reg → Exec (DenseLane Reg)) (opReg : Reg → Reg → Exec Reg)
    (opTail : T → T → Exec T) (dims : Nat) (a b result : Slice T) : Exec (Slice T) := do
  debugAssertEq E a.size dims
  debugAssertEq E b.size dims
  if checkResult then debugAssertEq E result.size dims else pure ()
  let t1 ← R.elements_per_dense
  let offset_from ← umod dims t1
  let i := 0
  let st1 ← loopM E.fuel (i, result)
    (fun st1 => do
      let i := st1.1
      let result := st1.2
      let t3 ← usub E dims offset_from
      pure (decide (i < t3)))
    (fun st1 => do
      let i := st1.1
      let result := st1.2
      let l1 ← R.load_dense a i
      let l2 ← R.load_dense b i
      let res ← opDense l1 l2
      let result ← R.write_dense result i res
      let t7 ← R.elements_per_dense
      let i := (i + t7)
      pure (i, result))
  let i := st1.1
  let result := st1.2
  let t8 ← R.elements_per_lane
  let offset_from ← umod offset_from t8
  let st1 ← loopM E.fuel (i, result)
    (fun st1 => do
      let i := st1.1
      let result := st1.2
      let t10 ← usub E dims offset_from
      pure (decide (i < t10)))
    (fun st1 => do
      let i := st1.1
      let result := st1.2
      let l1 ← R.load a i
      let l2 ← R.load b i
      let res ← opReg l1 l2
      let result ← R.write result i res
      let t14 ← R.elements_per_lane
      let i := (i + t14)
      pure (i, result))
  let i := st1.1
  let result := st1.2
  let st1 ← loopM E.fuel (i, result)
    (fun st1 => do
      let i := st1.1
      let result := st1.2
      pure (decide (i < dims)))
    (fun st1 => do
      let i := st1.1
      let result := st1.2
      let a ← Slice.read a i
      let b ← Slice.read b i
      let t17 ← opTail a b
      let result ← Slice.write result i t17
      let i := (i + 1)
      pure (i, result))
  let i := st1.1
  let result := st1.2
  pure result

theorem debugAssertEq_self (E : Env) (n : Nat) : debugAssertEq E n n = pure () := by
  unfold debugAssertEq assertEq
  cases E.debugAssertions <;> simp

theorem umod_pos (x y : Nat) (h : 0 < y) : umod x y = pure (x % y) := by
  unfold umod
  have : y ≠ 0 := by omega
  simp [this]

theorem usub_le (E : Env) (x y : Nat) (h : y ≤ x) : usub E x y = pure (x - y) := by
  unfold usub
  simp [h]

section
variable {T Reg : Type} {E : Env} {R : SimdRegister T Reg} {L : Nat} {lanes : Reg → Nat → T}
variable {f ft : T → T → T} {ok : T → Prop}

/-- the content a vector×vector kernel writes when its registers compute `f` and its scalar tail `ft`:
elements below `cut` (the part covered by whole registers) are `f a[j] b[j]`, the rest `ft a[j] b[j]` -/
def mixG (cut : Nat) (f ft : T → T → T) (a b : Slice T) : Nat → T :=
  fun j => if j < cut then f (a.get j) (b.get j) else ft (a.get j) (b.get j)
variable {opDense : DenseLane Reg → DenseLane Reg → Exec (DenseLane Reg)} {opReg : Reg → Reg → Exec Reg}
variable {opTail : T → T → Exec T}

/-- one dense step fills `L·8` elements -/
theorem map2_dense_step (MF : MemFaithful R L lanes) (LW : Lanewise2 L lanes f ok opReg opDense)
    (dims : Nat) (a b orig : Slice T) (ha : a.size = dims) (hb : b.size = dims)
    (hok : ∀ j, j < dims → ok (b.get j)) (i : Nat) (res : Slice T)
    (cut : Nat) (hf : Filled dims (mixG cut f ft a b) orig i res) (hi : i + L * 8 ≤ dims) (hc : i + L * 8 ≤ cut) :
    ∃ res', (do
        let l1 ← R.load_dense a i
        let l2 ← R.load_dense b i
        let r ← opDense l1 l2
        R.write_dense res i r) = pure res'
      ∧ Filled dims (mixG cut f ft a b) orig (i + L * 8) res' := by
  obtain ⟨d1, e1, h1⟩ := MF.load_dense_ok a i (by omega)
  obtain ⟨d2, e2, h2⟩ := MF.load_dense_ok b i (by omega)
  obtain ⟨d3, e3, h3⟩ := LW.dense d1 d2 (by
    intro k hk
    rw [h2 k hk]
    exact hok _ (by omega))
  refine ⟨_, ?_, hf.setRange (L * 8)⟩
  rw [e1]; simp only [pure_bind]
  rw [e2]; simp only [pure_bind]
  rw [e3]; simp only [pure_bind]
  rw [MF.write_dense_ok res i d3 (by rw [hf.1]; exact hi)]
  congr 1
  apply Slice.setRange_congr
  intro k hk
  rw [h3 k hk, h1 k hk, h2 k hk]
  show _ = mixG cut f ft a b (i + k)
  unfold mixG
  rw [if_pos (by omega)]

/-- one register step fills `L` elements -/
theorem map2_reg_step (MF : MemFaithful R L lanes) (LW : Lanewise2 L lanes f ok opReg opDense)
    (dims : Nat) (a b orig : Slice T) (ha : a.size = dims) (hb : b.size = dims)
    (hok : ∀ j, j < dims → ok (b.get j)) (i : Nat) (res : Slice T)
    (cut : Nat) (hf : Filled dims (mixG cut f ft a b) orig i res) (hi : i + L ≤ dims) (hc : i + L ≤ cut) :
    ∃ res', (do
        let l1 ← R.load a i
        let l2 ← R.load b i
        let r ← opReg l1 l2
        R.write res i r) = pure res'
      ∧ Filled dims (mixG cut f ft a b) orig (i + L) res' := by
  obtain ⟨d1, e1, h1⟩ := MF.load_ok a i (by omega)
  obtain ⟨d2, e2, h2⟩ := MF.load_ok b i (by omega)
  obtain ⟨d3, e3, h3⟩ := LW.single d1 d2 (by
    intro k hk
    rw [h2 k hk]
    exact hok _ (by omega))
  refine ⟨_, ?_, hf.setRange L⟩
  rw [e1]; simp only [pure_bind]
  rw [e2]; simp only [pure_bind]
  rw [e3]; simp only [pure_bind]
  rw [MF.write_ok res i d3 (by rw [hf.1]; exact hi)]
  congr 1
  apply Slice.setRange_congr
  intro k hk
  rw [h3 k hk, h1 k hk, h2 k hk]
  show _ = mixG cut f ft a b (i + k)
  unfold mixG
  rw [if_pos (by omega)]

/-- one scalar tail step fills one element -/
theorem map2_tail_step (SC : Scalar2 ft ok opTail)
    (dims : Nat) (a b orig : Slice T) (ha : a.size = dims) (hb : b.size = dims)
    (hok : ∀ j, j < dims → ok (b.get j)) (i : Nat) (res : Slice T)
    (cut : Nat) (hf : Filled dims (mixG cut f ft a b) orig i res) (hi : i + 1 ≤ dims) (hc : cut ≤ i) :
    ∃ res', (do
        let x ← Slice.read a i
        let y ← Slice.read b i
        let t ← opTail x y
        Slice.write res i t) = pure res'
      ∧ Filled dims (mixG cut f ft a b) orig (i + 1) res' := by
  refine ⟨_, ?_, hf.set⟩
  have h1 : i < a.size := by omega
  have h2 : i < b.size := by omega
  have h3 : i < res.size := by rw [hf.1]; omega
  simp only [Slice.read, Slice.write, h1, h2, h3, if_true, pure_bind]
  rw [SC _ _ (hok i (by omega))]
  simp [mixG, show ¬ i < cut by omega]

/-- **map2 template theorem.** With a lane-wise faithful backend of any lane count `L ≥ 1`, slices of
exactly `dims` elements, enough fuel, and every element of `b` acceptable to the operation (always true
for total operations), the kernel terminates without any fault, the result has `dims` elements, element
`j` of it is `f a[j] b[j]` for every `j` covered by a whole register (`j < dims − dims % L`) and `ft a[j] b[j]` for the
scalar tail, and nothing else of the result slice is changed. (`f` and `ft` differ for the x86 float `max`/`min`
kernels: `maxps` in the registers, Rust's `max` in the tail.) -/
theorem map2T_spec2 (MF : MemFaithful R L lanes) (LW : Lanewise2 L lanes f ok opReg opDense)
    (SC : Scalar2 ft ok opTail) (checkResult : Bool)
    (dims : Nat) (a b result : Slice T) (ha : a.size = dims) (hb : b.size = dims) (hr : result.size = dims)
    (hok : ∀ j, j < dims → ok (b.get j)) (hfuel : dims < E.fuel) :
    ∃ res', map2T E R checkResult opDense opReg opTail dims a b result = pure res'
      ∧ res'.size = dims ∧ (∀ j, j < dims → res'.get j = mixG (dims - dims % L) f ft a b j)
      ∧ (∀ j, dims ≤ j → res'.get j = result.get j) := by
  have hL := MF.L_pos
  have hK : 0 < L * 8 := by omega
  -- iteration counts
  let q := dims / (L * 8)
  let r := dims % (L * 8)
  have hdims : dims = q * (L * 8) + r := by
    have := Nat.div_add_mod dims (L * 8)
    simp only [q, r]; rw [Nat.mul_comm]; omega
  have hr_lt : r < L * 8 := Nat.mod_lt _ hK
  let n2 := r / L
  let r2 := r % L
  have hr2 : r = n2 * L + r2 := by
    have := Nat.div_add_mod r L
    simp only [n2, r2]; rw [Nat.mul_comm]; omega
  have hr2_lt : r2 < L := Nat.mod_lt _ hL
  let cut := q * (L * 8) + n2 * L
  have hcut : dims - dims % L = cut := by
    have h8 : dims % L = r2 := by
      show dims % L = dims % (L * 8) % L
      rw [Nat.mod_mul_right_mod]
    rw [h8]; omega
  rw [hcut]
  let g : Nat → T := mixG cut f ft a b
  have hF0 : Filled dims g result 0 result := ⟨hr, by intro j; simp⟩
  -- phase 1
  obtain ⟨res1, e1, hF1⟩ := iter_fill_range dims (L * 8) 0 (q * (L * 8)) g result
    (fun i res => do
      let l1 ← R.load_dense a i
      let l2 ← R.load_dense b i
      let r ← opDense l1 l2
      R.write_dense res i r)
    (fun i res hf _ hi => map2_dense_step MF LW dims a b result ha hb hok i res cut hf (by omega) (by omega))
    q 0 result hF0 (by omega) (by omega)
  -- phase 2
  obtain ⟨res2, e2, hF2⟩ := iter_fill_range dims L 0 cut g result
    (fun i res => do
      let l1 ← R.load a i
      let l2 ← R.load b i
      let r ← opReg l1 l2
      R.write res i r)
    (fun i res hf _ hi => map2_reg_step MF LW dims a b result ha hb hok i res cut hf (by omega) hi)
    n2 (0 + q * (L * 8)) res1 hF1 (by omega) (by omega)
  -- phase 3
  obtain ⟨res3, e3, hF3⟩ := iter_fill_range dims 1 cut dims g result
    (fun i res => do
      let x ← Slice.read a i
      let y ← Slice.read b i
      let t ← opTail x y
      Slice.write res i t)
    (fun i res hf hlo hi => map2_tail_step SC dims a b result ha hb hok i res cut hf hi hlo)
    r2 (0 + q * (L * 8) + n2 * L) res2 hF2 (by omega) (by omega)
  have hend : 0 + q * (L * 8) + n2 * L + r2 * 1 = dims := by omega
  rw [hend] at hF3
  refine ⟨res3, ?_, hF3.1, ?_, ?_⟩
  · unfold map2T
    rw [ha, hb, hr]
    have hcr : (if checkResult = true then debugAssertEq E dims dims else pure ()) = pure () := by
      cases checkResult <;> simp [debugAssertEq_self]
    simp only [debugAssertEq_self, pure_bind, MF.epd, MF.epl, umod_pos _ _ hK, umod_pos _ _ hL]
    -- loop 1
    rw [loopM_counted E.fuel _ _
      (fun i res => do
        let l1 ← R.load_dense a i
        let l2 ← R.load_dense b i
        let r ← opDense l1 l2
        R.write_dense res i r) (dims - dims % (L * 8)) (L * 8) hK
      (by intro st; rw [usub_le E _ _ (Nat.mod_le _ _)]; simp)
      (by intro st; simp only [bind_assoc, pure_bind])
      q 0 result (by have : q ≤ dims := Nat.div_le_self _ _; omega) (by omega)
      (by intro m hm
          have : (m + 1) * (L * 8) ≤ q * (L * 8) := Nat.mul_le_mul_right _ (by omega)
          rw [Nat.succ_mul] at this
          omega)]
    rw [e1]
    simp only [pure_bind]
    -- loop 2
    have hmod2 : dims % (L * 8) % L = r2 := rfl
    rw [hmod2]
    rw [loopM_counted E.fuel _ _
      (fun i res => do
        let l1 ← R.load a i
        let l2 ← R.load b i
        let r ← opReg l1 l2
        R.write res i r) (dims - r2) L hL
      (by intro st; rw [usub_le E _ _ (by omega)]; simp)
      (by intro st; simp only [bind_assoc, pure_bind])
      n2 (0 + q * (L * 8)) res1 (by have : n2 ≤ r := Nat.div_le_self _ _; omega) (by omega)
      (by intro m hm
          have : (m + 1) * L ≤ n2 * L := Nat.mul_le_mul_right _ (by omega)
          rw [Nat.succ_mul] at this
          omega)]
    rw [e2]
    simp only [pure_bind]
    -- loop 3
    rw [loopM_counted E.fuel _ _
      (fun i res => do
        let x ← Slice.read a i
        let y ← Slice.read b i
        let t ← opTail x y
        Slice.write res i t) dims 1 (by omega)
      (by intro st; rfl)
      (by intro st; simp only [bind_assoc, pure_bind])
      r2 (0 + q * (L * 8) + n2 * L) res2 (by omega) (by omega)
      (by intro m hm; omega)]
    rw [e3]
    simp only [pure_bind]
    split <;> rfl
  · intro j hj
    rw [hF3.2 j]
    simp [hj, g]
  · intro j hj
    rw [hF3.2 j]
    have : ¬ (j < dims) := by omega
    simp [this]

/-- the single-function form: registers and tail compute the same `f` -/
theorem map2T_spec (MF : MemFaithful R L lanes) (LW : Lanewise2 L lanes f ok opReg opDense)
    (SC : Scalar2 f ok opTail) (checkResult : Bool)
    (dims : Nat) (a b result : Slice T) (ha : a.size = dims) (hb : b.size = dims) (hr : result.size = dims)
    (hok : ∀ j, j < dims → ok (b.get j)) (hfuel : dims < E.fuel) :
    ∃ res', map2T E R checkResult opDense opReg opTail dims a b result = pure res'
      ∧ res'.size = dims ∧ (∀ j, j < dims → res'.get j = f (a.get j) (b.get j))
      ∧ (∀ j, dims ≤ j → res'.get j = result.get j) := by
  obtain ⟨res', e, h1, h2, h3⟩ := map2T_spec2 (ft := f) MF LW SC checkResult dims a b result ha hb hr hok hfuel
  refine ⟨res', e, h1, ?_, h3⟩
  intro j hj
  rw [h2 j hj]
  simp [mixG]

end

end Cfavml
