/-
From the intrinsic schemas of Prim/X86.lean to the lane-wise contracts of Spec/Lanes.lean, generically in
the lane width `w`, the lane count `L` and the register width `n = w·L`.
-/
import CfavmlModel.Lemmas.X86Lanes
import CfavmlModel.Lemmas.Defaults

namespace Cfavml

/-- the lanes of an x86 register at element width `w` -/
def xlanes (w : Nat) {n : Nat} (r : BitVec n) (k : Nat) : BitVec w := lane w k r

section
variable {w n L : Nat}

theorem xlanes_map2 (hw : 0 < w) (hn : w * L ≤ n) (f : BitVec w → BitVec w → BitVec w) (x y : BitVec n)
    (k : Nat) (hk : k < L) :
    xlanes w (X86.map2 w L f x y) k = f (xlanes w x k) (xlanes w y k) := by
  unfold xlanes X86.map2
  rw [lane_fromLanes w hw L _ k hk hn]

theorem xlanes_map3 (hw : 0 < w) (hn : w * L ≤ n) (f : BitVec w → BitVec w → BitVec w → BitVec w)
    (x y z : BitVec n) (k : Nat) (hk : k < L) :
    xlanes w (X86.map3 w L f x y z) k = f (xlanes w x k) (xlanes w y k) (xlanes w z k) := by
  unfold xlanes X86.map3
  rw [lane_fromLanes w hw L _ k hk hn]

theorem xlanes_bcast (hw : 0 < w) (hn : w * L ≤ n) (v : BitVec w) (k : Nat) (hk : k < L) :
    xlanes w (X86.bcast (n := n) w L v) k = v := by
  unfold xlanes X86.bcast
  rw [lane_fromLanes w hw L _ k hk hn]

theorem xlanes_zero (k : Nat) : xlanes w (0 : BitVec n) k = 0 := by
  unfold xlanes lane
  simp

/-- a register operation that is one lane-wise intrinsic -/
theorem single_of_map2 (hw : 0 < w) (hn : w * L ≤ n) (f : BitVec w → BitVec w → BitVec w)
    (op : BitVec n → BitVec n → Exec (BitVec n)) (hop : ∀ x y, op x y = pure (X86.map2 w L f x y)) :
    ∀ x y, ∃ r, op x y = pure r ∧ ∀ k, k < L → xlanes w r k = f (xlanes w x k) (xlanes w y k) :=
  fun x y => ⟨_, hop x y, fun k hk => xlanes_map2 hw hn f x y k hk⟩

/-- … and with its default dense form -/
theorem lanewise2_of_map2 (hw : 0 < w) (hL : 0 < L) (hn : w * L ≤ n) (f : BitVec w → BitVec w → BitVec w)
    (op : BitVec n → BitVec n → Exec (BitVec n)) (hop : ∀ x y, op x y = pure (X86.map2 w L f x y))
    (opD : DenseLane (BitVec n) → DenseLane (BitVec n) → Exec (DenseLane (BitVec n)))
    (hD : opD = applyDense2 op) :
    Lanewise2 L (xlanes w) f (fun _ => True) op opD := by
  rw [hD]
  exact lanewise2_of_applyDense hL (fun x y _ => single_of_map2 hw hn f op hop x y)

/-- the memory side of every x86 backend: `loadu` / `storeu` of `L` lanes -/
theorem core_of_x86 (hw : 0 < w) (hL : 0 < L) (hn : w * L ≤ n) (hsm : L * 8 < usizeMod)
    (R : SimdRegister (BitVec w) (BitVec n))
    (hepl : R.elements_per_lane = pure L)
    (hload : ∀ s i, R.load s i = (do let t ← X86.loadu (n := n) L s i; pure t))
    (hwrite : ∀ s i r, R.write s i r = (do let m ← X86.storeu L s i r; pure m)) :
    CoreFaithful R L (xlanes w) := by
  refine ⟨hL, hsm, hepl, ?_, ?_, ?_, ?_⟩
  · intro s i hi
    refine ⟨fromLanes w L (fun k => s.get (i + k)), ?_, ?_⟩
    · rw [hload]; unfold X86.loadu Slice.readRange; simp [hi]
    · intro k hk
      unfold xlanes
      rw [lane_fromLanes w hw L _ k hk hn]
  · intro s i hi
    rw [hload]; unfold X86.loadu Slice.readRange; simp [hi]; rfl
  · intro s i r hi
    rw [hwrite]; unfold X86.storeu Slice.writeRange; simp [hi]; rfl
  · intro s i r hi
    rw [hwrite]; unfold X86.storeu Slice.writeRange; simp [hi]

/-- broadcast -/
theorem bcast_of_x86 {E : Env} (hw : 0 < w) (hL : 0 < L) (hn : w * L ≤ n)
    (R : SimdRegister (BitVec w) (BitVec n))
    (hf : ∀ v, R.filled v = pure (X86.bcast w L v))
    (hd : R.filled_dense = SimdRegisterDefault.filled_dense (T := BitVec w) E R.filled) :
    BroadcastFaithful R L (xlanes w) :=
  broadcastFaithful_of_default (E := E) hL (fun v => ⟨_, hf v, fun k hk => xlanes_bcast hw hn v k hk⟩) hd

end

/-! ### the scalar division loop the integer `div` methods use -/

section divloop
variable {w : Nat}

/-- `for (idx, (x, y)) in zip(a, b).enumerate() { result[idx] = x.wrapping_div(y) }` with no zero divisor
computes the quotients of the first `cnt` positions and leaves the rest alone -/
theorem forZipEnumFrom_div (dv : BitVec w → BitVec w → Exec (BitVec w)) (q : BitVec w → BitVec w → BitVec w)
    (a b : Slice (BitVec w)) (hdv : ∀ x y, y ≠ 0 → dv x y = pure (q x y)) :
    ∀ (cnt i : Nat) (res : Slice (BitVec w)), i + cnt ≤ res.size → (∀ k, i ≤ k → k < i + cnt → b.get k ≠ 0) →
      ∃ res', forZipEnumFrom a b (fun idx x y st => do
          let t ← dv x y
          let r ← arrSet st idx t
          pure r) cnt i res = pure res'
        ∧ res'.size = res.size
        ∧ ∀ k, res'.get k = if i ≤ k ∧ k < i + cnt then q (a.get k) (b.get k) else res.get k := by
  intro cnt
  induction cnt with
  | zero =>
    intro i res _ _
    refine ⟨res, rfl, rfl, ?_⟩
    intro k
    have : ¬ (i ≤ k ∧ k < i + 0) := by omega
    rw [if_neg this]
  | succ cnt ih =>
    intro i res hsz hnz
    have hi : i < res.size := by omega
    unfold forZipEnumFrom
    rw [hdv _ _ (hnz i (by omega) (by omega))]
    simp only [pure_bind, arrSet, hi, if_true]
    obtain ⟨res', e, hs, hg⟩ := ih (i + 1) (res.set i (q (a.get i) (b.get i))) (by show i + 1 + cnt ≤ res.size; omega)
      (fun k h1 h2 => hnz k (by omega) (by omega))
    refine ⟨res', e, by rw [hs]; rfl, ?_⟩
    intro k
    rw [hg k]
    by_cases h1 : i + 1 ≤ k ∧ k < i + 1 + cnt
    · have h2 : i ≤ k ∧ k < i + (cnt + 1) := by omega
      simp [h1, h2]
    · by_cases h3 : k = i
      · subst h3
        have h2 : k ≤ k ∧ k < k + (cnt + 1) := by omega
        simp [h1, h2, Slice.set]
      · have h2 : ¬ (i ≤ k ∧ k < i + (cnt + 1)) := by omega
        simp [h1, h2, Slice.set, h3]

/-- the same for any lane operation that is defined on second operands satisfying `P` (`P := True` for the total
`AutoMath::mul`, `core::cmp::max/min` loops of the NEON 64-bit integer impls) -/
theorem forZipEnumFrom_op (dv : BitVec w → BitVec w → Exec (BitVec w)) (q : BitVec w → BitVec w → BitVec w)
    (P : BitVec w → Prop) (a b : Slice (BitVec w)) (hdv : ∀ x y, P y → dv x y = pure (q x y)) :
    ∀ (cnt i : Nat) (res : Slice (BitVec w)), i + cnt ≤ res.size → (∀ k, i ≤ k → k < i + cnt → P (b.get k)) →
      ∃ res', forZipEnumFrom a b (fun idx x y st => do
          let t ← dv x y
          let r ← arrSet st idx t
          pure r) cnt i res = pure res'
        ∧ res'.size = res.size
        ∧ ∀ k, res'.get k = if i ≤ k ∧ k < i + cnt then q (a.get k) (b.get k) else res.get k := by
  intro cnt
  induction cnt with
  | zero =>
    intro i res _ _
    refine ⟨res, rfl, rfl, ?_⟩
    intro k
    have : ¬ (i ≤ k ∧ k < i + 0) := by omega
    rw [if_neg this]
  | succ cnt ih =>
    intro i res hsz hnz
    have hi : i < res.size := by omega
    unfold forZipEnumFrom
    rw [hdv _ _ (hnz i (by omega) (by omega))]
    simp only [pure_bind, arrSet, hi, if_true]
    obtain ⟨res', e, hs, hg⟩ := ih (i + 1) (res.set i (q (a.get i) (b.get i))) (by show i + 1 + cnt ≤ res.size; omega)
      (fun k h1 h2 => hnz k (by omega) (by omega))
    refine ⟨res', e, by rw [hs]; rfl, ?_⟩
    intro k
    rw [hg k]
    by_cases h1 : i + 1 ≤ k ∧ k < i + 1 + cnt
    · have h2 : i ≤ k ∧ k < i + (cnt + 1) := by omega
      simp [h1, h2]
    · by_cases h3 : k = i
      · subst h3
        have h2 : k ≤ k ∧ k < k + (cnt + 1) := by omega
        simp [h1, h2, Slice.set]
      · have h2 : ¬ (i ≤ k ∧ k < i + (cnt + 1)) := by omega
        simp [h1, h2, Slice.set, h3]

end divloop

end Cfavml

namespace Cfavml

/-- the integer `div` methods: unpack both registers, divide lane by lane with the scalar
`wrapping_div`, pack the result -/
def divLoop {w n : Nat} (L : Nat) (z : BitVec w) (dv : BitVec w → BitVec w → Exec (BitVec w))
    (l1 l2 : BitVec n) : Exec (BitVec n) := do
  let st1 ← forZipEnum (unpackLanes w L l1) (unpackLanes w L l2) (Slice.replicate L z)
    (fun idx x y st1 => do
      let t1 ← dv x y
      let result ← arrSet st1 idx t1
      pure result)
  pure (packLanes w L n st1)

theorem divLoop_lanewise {w n L : Nat} (hw : 0 < w) (hn : w * L ≤ n) (z : BitVec w)
    (dv : BitVec w → BitVec w → Exec (BitVec w)) (q : BitVec w → BitVec w → BitVec w)
    (hdv : ∀ x y, y ≠ 0 → dv x y = pure (q x y)) (x y : BitVec n)
    (hnz : ∀ k, k < L → xlanes w y k ≠ 0) :
    ∃ r, divLoop L z dv x y = pure r ∧ ∀ k, k < L → xlanes w r k = q (xlanes w x k) (xlanes w y k) := by
  obtain ⟨res', e, hs, hg⟩ := forZipEnumFrom_div dv q (unpackLanes w L x) (unpackLanes w L y) hdv L 0
    (Slice.replicate L z) (by simp [Slice.replicate]) (fun k _ hk => hnz k (by omega))
  refine ⟨packLanes w L n res', ?_, ?_⟩
  · unfold divLoop forZipEnum
    have : min (unpackLanes w L x).size (unpackLanes w L y).size = L := by simp [unpackLanes]
    rw [this, e]
    rfl
  · intro k hk
    unfold xlanes packLanes
    rw [lane_fromLanes w hw L _ k hk hn, hg k]
    have : 0 ≤ k ∧ k < 0 + L := by omega
    rw [if_pos this]
    rfl

/-- the `Lanewise2` record of an integer `div` written as `divLoop` with the default dense form -/
theorem lanewise2_of_divLoop {w n L : Nat} (hw : 0 < w) (hL : 0 < L) (hn : w * L ≤ n) (z : BitVec w)
    (dv : BitVec w → BitVec w → Exec (BitVec w)) (q : BitVec w → BitVec w → BitVec w) (okb : BitVec w → Bool)
    (hok : ∀ y, okb y = true → y ≠ 0)
    (hdv : ∀ x y, y ≠ 0 → dv x y = pure (q x y))
    (op : BitVec n → BitVec n → Exec (BitVec n)) (hop : ∀ x y, op x y = divLoop L z dv x y)
    (opD : DenseLane (BitVec n) → DenseLane (BitVec n) → Exec (DenseLane (BitVec n))) (hD : opD = applyDense2 op) :
    Lanewise2 L (xlanes w) q (fun y => okb y = true) op opD := by
  rw [hD]
  apply lanewise2_of_applyDense hL
  intro x y hy
  rw [hop]
  exact divLoop_lanewise hw hn z dv q hdv x y (fun k hk => hok _ (hy k hk))

theorem opLoop_lanewise {w n L : Nat} (hw : 0 < w) (hn : w * L ≤ n) (z : BitVec w)
    (dv : BitVec w → BitVec w → Exec (BitVec w)) (q : BitVec w → BitVec w → BitVec w) (P : BitVec w → Prop)
    (hdv : ∀ x y, P y → dv x y = pure (q x y)) (x y : BitVec n)
    (hnz : ∀ k, k < L → P (xlanes w y k)) :
    ∃ r, divLoop L z dv x y = pure r ∧ ∀ k, k < L → xlanes w r k = q (xlanes w x k) (xlanes w y k) := by
  obtain ⟨res', e, hs, hg⟩ := forZipEnumFrom_op dv q P (unpackLanes w L x) (unpackLanes w L y) hdv L 0
    (Slice.replicate L z) (by simp [Slice.replicate]) (fun k _ hk => hnz k (by omega))
  refine ⟨packLanes w L n res', ?_, ?_⟩
  · unfold divLoop forZipEnum
    have : min (unpackLanes w L x).size (unpackLanes w L y).size = L := by simp [unpackLanes]
    rw [this, e]
    rfl
  · intro k hk
    unfold xlanes packLanes
    rw [lane_fromLanes w hw L _ k hk hn, hg k]
    have : 0 ≤ k ∧ k < 0 + L := by omega
    rw [if_pos this]
    rfl

/-- the `Lanewise2` record of any operation written as the unpack / scalar loop / pack pattern -/
theorem lanewise2_of_opLoop {w n L : Nat} (hw : 0 < w) (hL : 0 < L) (hn : w * L ≤ n) (z : BitVec w)
    (dv : BitVec w → BitVec w → Exec (BitVec w)) (q : BitVec w → BitVec w → BitVec w) (P : BitVec w → Prop)
    (hdv : ∀ x y, P y → dv x y = pure (q x y))
    (op : BitVec n → BitVec n → Exec (BitVec n)) (hop : ∀ x y, op x y = divLoop L z dv x y)
    (opD : DenseLane (BitVec n) → DenseLane (BitVec n) → Exec (DenseLane (BitVec n))) (hD : opD = applyDense2 op) :
    Lanewise2 L (xlanes w) q P op opD := by
  rw [hD]
  apply lanewise2_of_applyDense hL
  intro x y hy
  rw [hop]
  exact opLoop_lanewise hw hn z dv q P hdv x y (fun k hk => hy k hk)

end Cfavml
