/-
Integer square root through binary64: `((a as f64).sqrt()) as i64 = ⌊√a⌋` for `0 ≤ a < 2^52`.

The Rust code converts the integer `a` to binary64 (exact below 2^53), takes the correctly rounded
IEEE-754 square root and truncates toward zero.  Here the statement is proved over `ℝ`, for ANY
round-to-nearest result on ANY set `F` of representable numbers that contains the multiples of
`2^-27` in `[0, 2^26]` (binary64 contains all of those: a multiple of `2^-27` below `2^26` needs at
most 53 significant bits).  No tie-breaking rule is assumed.
-/
import Mathlib.Analysis.Real.Sqrt
import Mathlib.Data.Nat.Sqrt
import Mathlib.Algebra.Order.Floor.Semiring
import Mathlib.Algebra.Order.Round
import Mathlib.Tactic.Linarith
import Mathlib.Tactic.LinearCombination
import Mathlib.Tactic.Positivity
import Mathlib.Tactic.NormNum

namespace Cfavml.Sqrt

/-- The binary64 values near the square roots in question: for results in `[1, 2^26)` all doubles are
multiples of `2^-27` (coarser grids for larger values are subsets), so it suffices to model the
grid as `G = { m * 2^-27 | m : ℤ }`; every integer is in `G`. -/
def grid (x : ℝ) : Prop := ∃ m : ℤ, x = m * (2:ℝ)^(-(27:ℤ))

/-- `r` is a round-to-nearest result of the real `y` on the set `F` of representable numbers:
`r` is representable and no representable number is strictly closer to `y`.  (Any tie-breaking rule
satisfies this.) -/
structure IsNearest (F : ℝ → Prop) (y r : ℝ) : Prop where
  mem : F r
  nearest : ∀ z, F z → |r - y| ≤ |z - y|

/-- `2^-27 * 2^27 = 1`. -/
theorem eps_mul : (2:ℝ)^(-(27:ℤ)) * 2^27 = 1 := by
  rw [zpow_neg]
  norm_num

theorem eps_pos : (0:ℝ) < (2:ℝ)^(-(27:ℤ)) := by positivity

/-- The distance from `√a` up to the next integer `Nat.sqrt a + 1` exceeds the grid spacing `2^-27`
whenever `a < 2^52`:  `(s+1) - √a = ((s+1)^2 - a) / ((s+1) + √a) ≥ 1 / (2 (s+1)) > 2^-27`. -/
theorem gap_above (a : ℕ) (ha : a < 2^52) :
    (2:ℝ)^(-(27:ℤ)) < (Nat.sqrt a : ℝ) + 1 - Real.sqrt a := by
  have he : (2:ℝ)^(-(27:ℤ)) * 2^27 = 1 := eps_mul
  generalize (2:ℝ)^(-(27:ℤ)) = e at he ⊢
  have hsy : (Nat.sqrt a : ℝ) ≤ Real.sqrt a := Real.nat_sqrt_le_real_sqrt
  have hys : Real.sqrt a < (Nat.sqrt a : ℝ) + 1 := Real.real_sqrt_lt_nat_sqrt_succ
  have hyy : Real.sqrt a * Real.sqrt a = a := Real.mul_self_sqrt (Nat.cast_nonneg a)
  have hs26 : Nat.sqrt a < 2^26 := by
    rw [Nat.sqrt_lt']
    calc a < 2^52 := ha
      _ = (2^26)^2 := by norm_num
  have hs26R : (Nat.sqrt a : ℝ) + 1 ≤ 2^26 := by exact_mod_cast hs26
  have hlt : a < (Nat.sqrt a + 1) * (Nat.sqrt a + 1) := Nat.lt_succ_sqrt a
  have hltR : (a:ℝ) + 1 ≤ ((Nat.sqrt a : ℝ) + 1) * ((Nat.sqrt a : ℝ) + 1) := by exact_mod_cast hlt
  generalize (Nat.sqrt a : ℝ) = s at *
  generalize Real.sqrt (a:ℝ) = y at *
  have h1 : 1 ≤ (s + 1 - y) * (s + 1 + y) := by nlinarith
  have h2 : s + 1 + y < 2^27 := by norm_num at hs26R ⊢; linarith
  have h3 : 0 < s + 1 - y := by linarith
  have h4 : e * 2^27 < (s + 1 - y) * 2^27 := by nlinarith
  exact lt_of_mul_lt_mul_right h4 (by positivity)

/-- Main theorem.  If `F` is any set of reals (the doubles) that contains every multiple of `2^-27`
in `[0, 2^26]`, and `r` is a nearest element of `F` to `√a` with `a < 2^52` a natural number, then
truncating `r` gives `⌊√a⌋`: `Nat.sqrt a ≤ r < Nat.sqrt a + 1`.

(The hypothesis "F contains the integers up to 2^26" alone is NOT sufficient for the upper bound:
if `F` had no element in `(√a, s+1)` and `√a ≥ s + 1/2`, rounding up to `s+1` would be allowed.  It
is implied by `hG`, hence dropped.) -/
theorem trunc_nearest_sqrt (F : ℝ → Prop)
    (hG : ∀ m : ℕ, (m : ℝ) * (2:ℝ)^(-27:ℤ) ≤ 2^26 → F ((m : ℝ) * (2:ℝ)^(-27:ℤ)))
    (a : ℕ) (ha : a < 2^52) (r : ℝ) (hr : IsNearest F (Real.sqrt a) r) :
    (Nat.sqrt a : ℝ) ≤ r ∧ r < (Nat.sqrt a : ℝ) + 1 := by
  have hgap := gap_above a ha
  have he : (2:ℝ)^(-(27:ℤ)) * 2^27 = 1 := eps_mul
  have he0 : (0:ℝ) < (2:ℝ)^(-(27:ℤ)) := eps_pos
  generalize (2:ℝ)^(-(27:ℤ)) = e at *
  have hsy : (Nat.sqrt a : ℝ) ≤ Real.sqrt a := Real.nat_sqrt_le_real_sqrt
  have hys : Real.sqrt a < (Nat.sqrt a : ℝ) + 1 := Real.real_sqrt_lt_nat_sqrt_succ
  have hy0 : 0 ≤ Real.sqrt a := Real.sqrt_nonneg _
  have hs26 : Nat.sqrt a < 2^26 := by
    rw [Nat.sqrt_lt']
    calc a < 2^52 := ha
      _ = (2^26)^2 := by norm_num
  have hs26R : (Nat.sqrt a : ℝ) + 1 ≤ 2^26 := by exact_mod_cast hs26
  -- the integer `s = Nat.sqrt a` is representable
  have hFs : F (Nat.sqrt a : ℝ) := by
    have hcast : ((Nat.sqrt a * 2^27 : ℕ) : ℝ) * e = (Nat.sqrt a : ℝ) := by
      push_cast
      linear_combination (Nat.sqrt a : ℝ) * he
    have h := hG (Nat.sqrt a * 2^27) (by rw [hcast]; linarith)
    rwa [hcast] at h
  generalize (Nat.sqrt a : ℝ) = s at *
  generalize Real.sqrt (a:ℝ) = y at *
  refine ⟨?_, ?_⟩
  · -- lower bound: otherwise `s` is strictly closer to `y` than `r`
    by_contra h
    have h := not_le.mp h
    have hn := hr.nearest s hFs
    rw [abs_of_neg (by linarith), abs_of_nonpos (by linarith)] at hn
    linarith
  · -- upper bound: otherwise the grid point just above `y` is strictly closer to `y` than `r`
    by_contra h
    have h := not_lt.mp h
    have hx0 : 0 ≤ y * 2^27 := by positivity
    have hM1 : y * 2^27 ≤ (⌈y * 2^27⌉₊ : ℝ) := Nat.le_ceil _
    have hM2 : (⌈y * 2^27⌉₊ : ℝ) < y * 2^27 + 1 := Nat.ceil_lt_add_one hx0
    generalize ⌈y * 2^27⌉₊ = M at hM1 hM2
    have hye : y * 2^27 * e = y := by rw [mul_assoc, mul_comm _ e, he, mul_one]
    have hg1 : y ≤ (M:ℝ) * e := by
      have := mul_le_mul_of_nonneg_right hM1 he0.le
      linarith
    have hg2 : (M:ℝ) * e < y + e := by
      have := mul_lt_mul_of_pos_right hM2 he0
      linarith
    have hFg : F ((M:ℝ) * e) := hG M (by linarith)
    have hn := hr.nearest _ hFg
    rw [abs_of_nonneg (by linarith), abs_of_nonneg (by linarith)] at hn
    linarith

/-- Corollary: truncation toward zero (`as i64` on a nonnegative double) of any nearest-rounded
square root is the integer square root. -/
theorem floor_nearest_sqrt (F : ℝ → Prop)
    (hG : ∀ m : ℕ, (m : ℝ) * (2:ℝ)^(-27:ℤ) ≤ 2^26 → F ((m : ℝ) * (2:ℝ)^(-27:ℤ)))
    (a : ℕ) (ha : a < 2^52) (r : ℝ) (hr : IsNearest F (Real.sqrt a) r) :
    ⌊r⌋₊ = Nat.sqrt a := by
  obtain ⟨h1, h2⟩ := trunc_nearest_sqrt F hG a ha r hr
  have h0 : 0 ≤ r := le_trans (Nat.cast_nonneg _) h1
  exact (Nat.floor_eq_iff h0).2 ⟨h1, h2⟩

/-- Same with the integer floor. -/
theorem int_floor_nearest_sqrt (F : ℝ → Prop)
    (hG : ∀ m : ℕ, (m : ℝ) * (2:ℝ)^(-27:ℤ) ≤ 2^26 → F ((m : ℝ) * (2:ℝ)^(-27:ℤ)))
    (a : ℕ) (ha : a < 2^52) (r : ℝ) (hr : IsNearest F (Real.sqrt a) r) :
    ⌊r⌋ = (Nat.sqrt a : ℤ) := by
  obtain ⟨h1, h2⟩ := trunc_nearest_sqrt F hG a ha r hr
  rw [Int.floor_eq_iff]
  exact ⟨by exact_mod_cast h1, by exact_mod_cast h2⟩

/-! ### Non-vacuity -/

/-- The grid satisfies the representability hypothesis `hG` of the theorems. -/
theorem grid_hG : ∀ m : ℕ, (m : ℝ) * (2:ℝ)^(-27:ℤ) ≤ 2^26 → grid ((m : ℝ) * (2:ℝ)^(-27:ℤ)) :=
  fun m _ => ⟨(m : ℤ), by push_cast; rfl⟩

/-- Every real has a nearest grid point (`round (y * 2^27) * 2^-27`), so `IsNearest grid y ·` is
inhabited for every `y`: the hypotheses of the theorems are jointly satisfiable for every `a`. -/
theorem exists_nearest_grid (y : ℝ) : ∃ r, IsNearest grid y r := by
  have he : (2:ℝ)^(-(27:ℤ)) * 2^27 = 1 := eps_mul
  have he0 : (0:ℝ) < (2:ℝ)^(-(27:ℤ)) := eps_pos
  refine ⟨(round (y * 2^27) : ℤ) * (2:ℝ)^(-(27:ℤ)), ⟨_, rfl⟩, ?_⟩
  rintro z ⟨m, rfl⟩
  generalize (2:ℝ)^(-(27:ℤ)) = e at *
  have hye : y = y * 2^27 * e := by rw [mul_assoc, mul_comm _ e, he, mul_one]
  have hr := round_le (y * 2^27) m
  rw [abs_sub_comm, abs_sub_comm _ (m:ℝ)] at hr
  have h1 : (round (y * 2^27) : ℝ) * e - y = ((round (y * 2^27) : ℝ) - y * 2^27) * e := by
    rw [sub_mul, ← hye]
  have h2 : (m:ℝ) * e - y = ((m:ℝ) - y * 2^27) * e := by
    rw [sub_mul, ← hye]
  rw [h1, h2, abs_mul, abs_mul, abs_of_pos he0]
  exact mul_le_mul_of_nonneg_right hr he0.le

/-- The hypotheses are satisfiable with `F := fun x => ∃ m : ℕ, x = m * 2^-27` (nonnegative
multiples of `2^-27` only). -/
example : ∀ m : ℕ, (m : ℝ) * (2:ℝ)^(-27:ℤ) ≤ 2^26 →
    (fun x : ℝ => ∃ k : ℕ, x = k * (2:ℝ)^(-27:ℤ)) ((m : ℝ) * (2:ℝ)^(-27:ℤ)) :=
  fun m _ => ⟨m, rfl⟩

/-- Full instantiation at `a = 10`: a nearest grid value of `√10` exists, and truncating any such
value gives `3 = Nat.sqrt 10`. -/
example : (∃ r, IsNearest grid (Real.sqrt (10 : ℕ)) r) ∧
    ∀ r, IsNearest grid (Real.sqrt (10 : ℕ)) r → ⌊r⌋₊ = 3 := by
  refine ⟨exists_nearest_grid _, fun r hr => ?_⟩
  have h := floor_nearest_sqrt grid grid_hG 10 (by norm_num) r hr
  rw [h]
  exact Nat.sqrt_add_eq 3 (a := 1) (by norm_num)

/-- Exact (perfect-square) case: `√(n^2) = n` is itself representable, so the only nearest value is
`n`; e.g. `a = 2^52 - 2^27 + 1 = (2^26 - 1)^2`, the largest square in range. -/
example (r : ℝ) (hr : IsNearest grid (Real.sqrt ((2^26 - 1)^2 : ℕ)) r) : ⌊r⌋₊ = 2^26 - 1 := by
  have h := floor_nearest_sqrt grid grid_hG ((2^26 - 1)^2) (by norm_num) r hr
  rw [h, Nat.sqrt_eq']

end Cfavml.Sqrt
