/-
Relational parametricity of the pure reduction model: if two sets of lane-level operations are related step by
step, the two `reduceModel` values are related. Used to transport the float run to abstract interpretations
(index multisets, rounding depth, exact real sums).
-/
import CfavmlModel.Lemmas.ReduceModel

namespace Cfavml

section
variable {A B : Type}

/-- related accumulators stay related under related steps (only the indices actually visited matter) -/
theorem accum_rel (Rel : A → B → Prop) (s : A → Nat → A) (s' : B → Nat → B) (K : Nat) :
    ∀ (n i : Nat) (a : A) (b : B), Rel a b →
      (∀ x y m, m < n → Rel x y → Rel (s x (i + m * K)) (s' y (i + m * K))) →
      Rel (accum s K n i a) (accum s' K n i b) := by
  intro n
  induction n with
  | zero => intro i a b h _; exact h
  | succ n ih =>
    intro i a b h hs
    rw [accum, accum]
    apply ih
    · have := hs a b 0 (by omega) h
      simpa using this
    · intro x y m hm hxy
      have := hs x y (m + 1) (by omega) hxy
      rw [Nat.succ_mul] at this
      have e : i + K + m * K = i + (m * K + K) := by omega
      rw [e]; exact this

/-- iteration-indexed invariant for `accum` -/
theorem accum_inv (Inv : Nat → A → Prop) (s : A → Nat → A) (K : Nat) :
    ∀ (n i : Nat) (a : A), Inv 0 a → (∀ x m, m < n → Inv m x → Inv (m + 1) (s x (i + m * K))) →
      Inv n (accum s K n i a) := by
  intro n
  induction n generalizing Inv with
  | zero => intro i a h _; exact h
  | succ n ih =>
    intro i a h hs
    rw [accum]
    apply ih (fun m x => Inv (m + 1) x)
    · have := hs a 0 (by omega) h
      simpa using this
    · intro x m hm hx
      have := hs x (m + 1) (by omega) hx
      rw [Nat.succ_mul] at this
      have e : i + K + m * K = i + (m * K + K) := by omega
      rw [e]; exact this

end

section
variable {T T' : Type}

/-- **parametricity of `reduceModel`**: `RelL` relates accumulator lanes, `RelV` the scalar after the horizontal fold -/
theorem reduceModel_rel (RelL RelV : T → T' → Prop) (O : ReduceOps T) (O' : ReduceOps T') (L dims : Nat) (hL : 0 < L)
    (he : RelL O.e O'.e)
    (hlane : ∀ x y i, i < dims → RelL x y → RelL (O.lane x i) (O'.lane y i))
    (hroll : ∀ x y x' y', RelL x x' → RelL y y' → RelL (O.roll x y) (O'.roll x' y'))
    (hfold : ∀ f f', (∀ k, k < L → RelL (f k) (f' k)) → RelV (O.hfold f) (O'.hfold f'))
    (htail : ∀ x y i, i < dims → RelV x y → RelV (O.tail x i) (O'.tail y i)) :
    RelV (reduceModel O L dims) (reduceModel O' L dims) := by
  have hK : 0 < L * 8 := by omega
  have hdims := Nat.div_add_mod dims (L * 8)
  have hr := Nat.div_add_mod (dims % (L * 8)) L
  rw [Nat.mul_comm] at hdims hr
  have hrlt : dims % (L * 8) % L < L := Nat.mod_lt _ hL
  unfold reduceModel
  simp only
  apply accum_rel RelV
  · apply hfold
    intro k hk
    apply accum_rel RelL
    · -- the rolled-up lane
      have hd : ∀ qq, qq < 8 → RelL (accum O.lane (L * 8) (dims / (L * 8)) (qq * L + k) O.e)
          (accum O'.lane (L * 8) (dims / (L * 8)) (qq * L + k) O'.e) := by
        intro qq hq
        apply accum_rel RelL _ _ _ _ _ _ _ he
        intro x y m hm hxy
        apply hlane _ _ _ _ hxy
        have h1 : (m + 1) * (L * 8) ≤ dims / (L * 8) * (L * 8) := Nat.mul_le_mul_right _ (by omega)
        have h2 : (qq + 1) * L ≤ 8 * L := Nat.mul_le_mul_right _ (by omega)
        rw [Nat.succ_mul] at h1 h2
        omega
      simp only [tree8]
      exact hroll _ _ _ _ (hroll _ _ _ _ (hroll _ _ _ _ (hd 0 (by omega)) (hd 1 (by omega)))
        (hroll _ _ _ _ (hd 2 (by omega)) (hd 3 (by omega))))
        (hroll _ _ _ _ (hroll _ _ _ _ (hd 4 (by omega)) (hd 5 (by omega)))
        (hroll _ _ _ _ (hd 6 (by omega)) (hd 7 (by omega))))
    · intro x y m hm hxy
      apply hlane _ _ _ _ hxy
      have h1 : (m + 1) * L ≤ dims % (L * 8) / L * L := Nat.mul_le_mul_right _ (by omega)
      rw [Nat.succ_mul] at h1
      omega
  · intro x y m hm hxy
    apply htail _ _ _ _ hxy
    omega

end
end Cfavml

namespace Cfavml
/-- the model only looks at the lane / tail functions at indices below `dims` (and the fold at the `L` lanes) -/
theorem reduceModel_congr {T : Type} (O O' : ReduceOps T) (L dims : Nat) (hL : 0 < L)
    (he : O.e = O'.e) (hroll : O.roll = O'.roll) (hfold : O.hfold = O'.hfold)
    (hloc : ∀ f g : Nat → T, (∀ k, k < L → f k = g k) → O'.hfold f = O'.hfold g)
    (hlane : ∀ x i, i < dims → O.lane x i = O'.lane x i) (htail : ∀ x i, i < dims → O.tail x i = O'.tail x i) :
    reduceModel O L dims = reduceModel O' L dims :=
  reduceModel_rel (fun x y => x = y) (fun x y => x = y) O O' L dims hL he
    (fun x y i hi h => by rw [h]; exact hlane y i hi)
    (fun x y x' y' h1 h2 => by rw [h1, h2, hroll])
    (fun f f' h => by rw [hfold]; exact hloc f f' h)
    (fun x y i hi h => by rw [h]; exact htail y i hi)
end Cfavml
