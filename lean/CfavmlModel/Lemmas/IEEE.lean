/-
Correct rounding ⇒ the standard model of floating-point arithmetic.

`IsFloat p emin x`: `x = m·2^e` with `|m| < 2^p`, `e ≥ emin` (binary32: `p = 24`, `emin = −149`; binary64: `p = 53`,
`emin = −1074`; no upper exponent bound — overflow is excluded by the finiteness hypotheses of the users).
`IsNearest p emin x r`: `r` is a float at least as close to `x` as every other float (any tie rule).
`nearest_delta`: in the normal range `r = x(1+δ)`, `|δ| ≤ u = 2^{-p}`. `nearest_delta_grid`: the same for *every* `x` on the
grid `2^emin·ℤ` (sums of floats, products that do not underflow): below the normal range such an `x` is itself a float, so
rounding is exact. These turn the `FloatSem` hypothesis of C04 / C06 ("standard model") into the IEEE-754 statement that
each operation returns a correctly rounded result (`Lemmas/FloatIEEE.lean`).
-/
import Mathlib.Analysis.SpecialFunctions.Pow.Real
import Mathlib.Data.Int.Log
import Mathlib.Tactic.Linarith
import Mathlib.Tactic.Positivity
import Mathlib.Tactic.Ring
import Mathlib.Tactic.FieldSimp
import Mathlib.Algebra.Order.Floor.Ring

namespace Cfavml.IEEE

/-- floating-point numbers with a `p`-bit significand and least exponent `emin` (subnormals included, no upper bound:
overflow is excluded separately by finiteness of the result) -/
def IsFloat (p : ℕ) (emin : ℤ) (x : ℝ) : Prop := ∃ m e : ℤ, |m| < 2 ^ p ∧ emin ≤ e ∧ x = m * (2 : ℝ) ^ e

/-- `r` is a float nearest to `x` (any tie-breaking rule) -/
def IsNearest (p : ℕ) (emin : ℤ) (x r : ℝ) : Prop := IsFloat p emin r ∧ ∀ f, IsFloat p emin f → |r - x| ≤ |f - x|

theorem IsFloat.neg {p emin x} (h : IsFloat p emin x) : IsFloat p emin (-x) := by
  obtain ⟨m, e, h1, h2, h3⟩ := h
  exact ⟨-m, e, by simpa using h1, h2, by rw [h3]; push_cast; ring⟩

theorem IsNearest.neg {p emin x r} (h : IsNearest p emin x r) : IsNearest p emin (-x) (-r) := by
  refine ⟨h.1.neg, fun f hf => ?_⟩
  have := h.2 (-f) hf.neg
  calc |(-r) - (-x)| = |r - x| := by rw [← abs_neg]; ring_nf
    _ ≤ |-f - x| := this
    _ = |f - -x| := by rw [← abs_neg]; ring_nf

/-- positive case of the standard model -/
theorem nearest_rel_pos {p : ℕ} {emin : ℤ} (hp : 1 ≤ p) {x r : ℝ} (hn : IsNearest p emin x r) (hx0 : 0 < x)
    (hx : (2 : ℝ) ^ (emin + p - 1) ≤ x) : |r - x| ≤ (2 : ℝ) ^ (-(p : ℤ)) * x := by
  set k := Int.log 2 x with hk
  have h2 : (1 : ℕ) < 2 := by norm_num
  have hlo : (2 : ℝ) ^ k ≤ x := by have := Int.zpow_log_le_self h2 hx0; simpa using this
  have hhi : x < (2 : ℝ) ^ (k + 1) := by have := Int.lt_zpow_succ_log_self h2 x; simpa using this
  set e := k - p + 1 with he
  have hemin : emin ≤ e := by
    have : (2 : ℝ) ^ (emin + p - 1) < (2 : ℝ) ^ (k + 1) := lt_of_le_of_lt hx hhi
    have := (zpow_lt_zpow_iff_right₀ (by norm_num : (1 : ℝ) < 2)).mp this
    omega
  have h2e : (0 : ℝ) < (2 : ℝ) ^ e := by positivity
  set t := x / (2 : ℝ) ^ e with ht
  have hxt : x = t * (2 : ℝ) ^ e := by rw [ht]; field_simp
  have ht_lo : (2 : ℝ) ^ ((p : ℤ) - 1) ≤ t := by
    rw [ht, le_div_iff₀ h2e, ← zpow_add₀ (by norm_num : (2 : ℝ) ≠ 0)]
    have : (p : ℤ) - 1 + e = k := by omega
    rw [this]; exact hlo
  have ht_hi : t < (2 : ℝ) ^ (p : ℤ) := by
    rw [ht, div_lt_iff₀ h2e, ← zpow_add₀ (by norm_num : (2 : ℝ) ≠ 0)]
    have : (p : ℤ) + e = k + 1 := by omega
    rw [this]; exact hhi
  set m0 := ⌊t⌋ with hm0
  clear_value m0 t e k
  have hm_le : (m0 : ℝ) ≤ t := by rw [hm0]; exact Int.floor_le t
  have hm_lt : t < (m0 : ℝ) + 1 := by rw [hm0]; exact Int.lt_floor_add_one t
  have hp1 : (2 : ℝ) ^ ((p : ℤ) - 1) = ((2 ^ (p - 1) : ℤ) : ℝ) := by
    have : (p : ℤ) - 1 = ((p - 1 : ℕ) : ℤ) := by omega
    rw [this, zpow_natCast]; push_cast; rfl
  have hpp : (2 : ℝ) ^ (p : ℤ) = ((2 ^ p : ℤ) : ℝ) := by rw [zpow_natCast]; push_cast; rfl
  have hm_lo : (2 : ℤ) ^ (p - 1) ≤ m0 := by
    rw [hm0]
    apply Int.le_floor.mpr
    rw [← hp1]; exact ht_lo
  have hm_hi : m0 < 2 ^ p := by
    have : (m0 : ℝ) < ((2 ^ p : ℤ) : ℝ) := by rw [← hpp]; exact lt_of_le_of_lt hm_le ht_hi
    exact_mod_cast this
  have hm0pos : 0 ≤ m0 := le_trans (by positivity) hm_lo
  -- the two neighbours
  have f1 : IsFloat p emin ((m0 : ℝ) * (2 : ℝ) ^ e) := ⟨m0, e, by rw [abs_of_nonneg hm0pos]; exact hm_hi, hemin, rfl⟩
  have f2 : IsFloat p emin (((m0 : ℝ) + 1) * (2 : ℝ) ^ e) := by
    by_cases h : m0 + 1 < 2 ^ p
    · exact ⟨m0 + 1, e, by rw [abs_of_nonneg (by omega)]; exact h, hemin, by push_cast; ring⟩
    · have heq : m0 + 1 = 2 ^ p := by omega
      refine ⟨2 ^ (p - 1), e + 1, ?_, by omega, ?_⟩
      · rw [abs_of_nonneg (by positivity)]
        exact pow_lt_pow_right₀ (by norm_num) (by omega)
      · have : ((m0 : ℝ) + 1) = ((2 ^ p : ℤ) : ℝ) := by exact_mod_cast congrArg (Int.cast (R := ℝ)) heq
        have h21 : (2 : ℝ) ^ (e + 1) = (2 : ℝ) ^ e * 2 := by rw [zpow_add₀ (by norm_num : (2 : ℝ) ≠ 0), zpow_one]
        rw [this, h21]
        have hpe : ((2 ^ p : ℤ) : ℝ) = ((2 ^ (p - 1) : ℤ) : ℝ) * 2 := by
          have : p = (p - 1) + 1 := by omega
          conv_lhs => rw [this, pow_succ]
          push_cast; ring
        rw [hpe]; ring
  have b1 := hn.2 _ f1
  have b2 := hn.2 _ f2
  have g1 : |(m0 : ℝ) * (2 : ℝ) ^ e - x| = (t - m0) * (2 : ℝ) ^ e := by
    rw [hxt, ← sub_mul, abs_mul, abs_of_pos h2e, abs_of_nonpos (by linarith)]; ring
  have g2 : |((m0 : ℝ) + 1) * (2 : ℝ) ^ e - x| = (m0 + 1 - t) * (2 : ℝ) ^ e := by
    rw [hxt, ← sub_mul, abs_mul, abs_of_pos h2e, abs_of_nonneg (by linarith)]
  rw [g1] at b1; rw [g2] at b2
  -- half an ulp
  have half : |r - x| ≤ (2 : ℝ) ^ e / 2 := by
    by_cases h : t - m0 ≤ 1 / 2
    · calc |r - x| ≤ (t - m0) * (2 : ℝ) ^ e := b1
        _ ≤ 1 / 2 * (2 : ℝ) ^ e := by apply mul_le_mul_of_nonneg_right h h2e.le
        _ = (2 : ℝ) ^ e / 2 := by ring
    · have h' : (m0 : ℝ) + 1 - t ≤ 1 / 2 := by linarith
      calc |r - x| ≤ (m0 + 1 - t) * (2 : ℝ) ^ e := b2
        _ ≤ 1 / 2 * (2 : ℝ) ^ e := by apply mul_le_mul_of_nonneg_right h' h2e.le
        _ = (2 : ℝ) ^ e / 2 := by ring
  -- 2^e / 2 ≤ 2^-p * 2^k ≤ 2^-p * x
  have : (2 : ℝ) ^ e / 2 = (2 : ℝ) ^ (-(p : ℤ)) * (2 : ℝ) ^ k := by
    rw [← zpow_add₀ (by norm_num : (2 : ℝ) ≠ 0)]
    have : -(p : ℤ) + k = e - 1 := by omega
    rw [this, zpow_sub₀ (by norm_num : (2 : ℝ) ≠ 0), zpow_one]
  calc |r - x| ≤ (2 : ℝ) ^ e / 2 := half
    _ = (2 : ℝ) ^ (-(p : ℤ)) * (2 : ℝ) ^ k := this
    _ ≤ (2 : ℝ) ^ (-(p : ℤ)) * x := by apply mul_le_mul_of_nonneg_left hlo; positivity

/-- **standard model from correct rounding**: a float nearest to a real `x` in the normal range is `x(1+δ)` with
`|δ| ≤ u = 2^{-p}` -/
theorem nearest_rel {p : ℕ} {emin : ℤ} (hp : 1 ≤ p) {x r : ℝ} (hn : IsNearest p emin x r)
    (hx : (2 : ℝ) ^ (emin + p - 1) ≤ |x|) : |r - x| ≤ (2 : ℝ) ^ (-(p : ℤ)) * |x| := by
  rcases lt_trichotomy x 0 with h | h | h
  · have := nearest_rel_pos hp hn.neg (by linarith) (by rwa [abs_of_neg h] at hx)
    rw [abs_of_neg h]
    calc |r - x| = |(-r) - (-x)| := by rw [← abs_neg]; ring_nf
      _ ≤ _ := this
  · subst h
    have : (0 : ℝ) < (2 : ℝ) ^ (emin + p - 1) := by positivity
    simp at hx; linarith
  · have := nearest_rel_pos hp hn h (by rwa [abs_of_pos h] at hx)
    rwa [abs_of_pos h]

theorem nearest_delta {p : ℕ} {emin : ℤ} (hp : 1 ≤ p) {x r : ℝ} (hn : IsNearest p emin x r)
    (hx : (2 : ℝ) ^ (emin + p - 1) ≤ |x|) : ∃ δ : ℝ, |δ| ≤ (2 : ℝ) ^ (-(p : ℤ)) ∧ r = x * (1 + δ) := by
  have hx0 : x ≠ 0 := by
    intro h; subst h
    have : (0 : ℝ) < (2 : ℝ) ^ (emin + p - 1) := by positivity
    simp at hx; linarith
  refine ⟨(r - x) / x, ?_, by field_simp; ring⟩
  rw [abs_div, div_le_iff₀ (abs_pos.mpr hx0)]
  exact nearest_rel hp hn hx

/-! ### the subnormal range: values on the grid `2^emin·ℤ` that are small are floats, so rounding them is exact -/

/-- integer multiples of the least positive subnormal -/
def OnGrid (emin : ℤ) (z : ℝ) : Prop := ∃ n : ℤ, z = n * (2 : ℝ) ^ emin

theorem IsFloat.onGrid {p emin x} (h : IsFloat p emin x) : OnGrid emin x := by
  obtain ⟨m, e, _, he, rfl⟩ := h
  obtain ⟨d, hd⟩ : ∃ d : ℕ, e = emin + d := ⟨(e - emin).toNat, by omega⟩
  refine ⟨m * 2 ^ d, ?_⟩
  rw [hd, zpow_add₀ (by norm_num : (2 : ℝ) ≠ 0), zpow_natCast]
  push_cast; ring

theorem OnGrid.add {emin x y} (hx : OnGrid emin x) (hy : OnGrid emin y) : OnGrid emin (x + y) := by
  obtain ⟨a, rfl⟩ := hx; obtain ⟨b, rfl⟩ := hy
  exact ⟨a + b, by push_cast; ring⟩

theorem OnGrid.isFloat_of_small {p : ℕ} {emin : ℤ} {z : ℝ} (h : OnGrid emin z) (hz : |z| < (2 : ℝ) ^ (emin + (p : ℤ))) :
    IsFloat p emin z := by
  obtain ⟨n, rfl⟩ := h
  refine ⟨n, emin, ?_, le_refl _, rfl⟩
  have h2 : (0 : ℝ) < (2 : ℝ) ^ emin := by positivity
  rw [abs_mul, abs_of_pos h2, zpow_add₀ (by norm_num : (2 : ℝ) ≠ 0), mul_comm ((2 : ℝ) ^ emin) ((2 : ℝ) ^ (p : ℤ))] at hz
  have : |(n : ℝ)| < (2 : ℝ) ^ (p : ℤ) := lt_of_mul_lt_mul_right hz h2.le
  rw [zpow_natCast] at this
  have h3 : ((|n| : ℤ) : ℝ) < ((2 ^ p : ℤ) : ℝ) := by push_cast; exact this
  exact_mod_cast h3

theorem IsNearest.eq_of_isFloat {p emin x r} (hn : IsNearest p emin x r) (hx : IsFloat p emin x) : r = x := by
  have := hn.2 x hx
  simp only [sub_self, abs_zero] at this
  have := abs_nonpos_iff.mp this
  linarith

/-- **standard model for every grid value** (normal range: half an ulp; below it: exact) -/
theorem nearest_delta_grid {p : ℕ} {emin : ℤ} (hp : 1 ≤ p) {x r : ℝ} (hn : IsNearest p emin x r) (hg : OnGrid emin x) :
    ∃ δ : ℝ, |δ| ≤ (2 : ℝ) ^ (-(p : ℤ)) ∧ r = x * (1 + δ) := by
  by_cases hx : (2 : ℝ) ^ (emin + p - 1) ≤ |x|
  · exact nearest_delta hp hn hx
  · have hlt : |x| < (2 : ℝ) ^ (emin + p) := by
      have : (2 : ℝ) ^ (emin + p - 1) ≤ (2 : ℝ) ^ (emin + (p : ℤ)) :=
        zpow_le_zpow_right₀ (by norm_num) (by omega)
      linarith [not_le.mp hx]
    have := hn.eq_of_isFloat (hg.isFloat_of_small hlt)
    exact ⟨0, by simp, by rw [this]; ring⟩

end Cfavml.IEEE
