/-
The trait-default dense methods (generated into `SimdRegisterDefault.*` from core_simd_api.rs) behave as
"the single-register method applied to the eight fields": from facts about a backend's single-register
methods we derive the `MemFaithful` / `Lanewise2` records the kernel theorems need.
-/
import CfavmlModel.Spec.Lanes
import CfavmlModel.Gen.Defaults
import CfavmlModel.Lemmas.Fill

namespace Cfavml

theorem forall_lt_8 (P : Nat → Prop) (h0 : P 0) (h1 : P 1) (h2 : P 2) (h3 : P 3) (h4 : P 4) (h5 : P 5)
    (h6 : P 6) (h7 : P 7) : ∀ q, q < 8 → P q := by
  intro q hq
  match q, hq with
  | 0, _ => exact h0
  | 1, _ => exact h1
  | 2, _ => exact h2
  | 3, _ => exact h3
  | 4, _ => exact h4
  | 5, _ => exact h5
  | 6, _ => exact h6
  | 7, _ => exact h7

theorem umul_small (E : Env) (x y : Nat) (h : x * y < usizeMod) : umul E x y = pure (x * y) := by
  unfold umul
  simp [h]

theorem div_lt_8 {L k : Nat} (hL : 0 < L) (hk : k < L * 8) : k / L < 8 := by
  rw [Nat.div_lt_iff_lt_mul hL]
  rw [Nat.mul_comm]; exact hk

/-- what the kernels need to know about a backend's single-register methods -/
structure CoreFaithful {T Reg : Type} (R : SimdRegister T Reg) (L : Nat) (lanes : Reg → Nat → T) : Prop where
  L_pos : 0 < L
  L_small : L * 8 < usizeMod
  epl : R.elements_per_lane = pure L
  load_ok : ∀ (s : Slice T) i, i + L ≤ s.size → ∃ r, R.load s i = pure r ∧ ∀ k, k < L → lanes r k = s.get (i + k)
  load_oob : ∀ (s : Slice T) i, ¬ (i + L ≤ s.size) → R.load s i = throw Fault.oobRead
  write_ok : ∀ (s : Slice T) i r, i + L ≤ s.size → R.write s i r = pure (s.setRange i L (lanes r))
  write_oob : ∀ (s : Slice T) i r, ¬ (i + L ≤ s.size) → R.write s i r = throw Fault.oobWrite

/-- the backend does not override the dense memory methods -/
structure UsesDefaultMem {T Reg : Type} (E : Env) (R : SimdRegister T Reg) : Prop where
  epd : R.elements_per_dense = SimdRegisterDefault.elements_per_dense (T := T) (Reg := Reg) E R.elements_per_lane
  load_dense : R.load_dense = SimdRegisterDefault.load_dense E R.elements_per_lane R.load
  write_dense : R.write_dense = SimdRegisterDefault.write_dense E R.elements_per_lane R.write

theorem Slice.setRange_setRange {α : Type} (s : Slice α) (i n m : Nat) (f g : Nat → α) :
    (s.setRange i n f).setRange (i + n) m g
      = s.setRange i (n + m) (fun k => if k < n then f k else g (k - n)) := by
  unfold Slice.setRange
  congr 1
  funext j
  simp only
  by_cases h1 : i + n ≤ j ∧ j < i + n + m
  · have h2 : i ≤ j ∧ j < i + (n + m) := by omega
    have h3 : ¬ (j - i < n) := by omega
    have h4 : j - (i + n) = j - i - n := by omega
    simp [h1, h2, h3, h4]
  · by_cases h5 : i ≤ j ∧ j < i + n
    · have h2 : i ≤ j ∧ j < i + (n + m) := by omega
      have h3 : j - i < n := by omega
      simp [h1, h5, h2, h3]
    · have h2 : ¬ (i ≤ j ∧ j < i + (n + m)) := by omega
      simp [h1, h5, h2]

section
variable {T Reg : Type} {E : Env} {R : SimdRegister T Reg} {L : Nat} {lanes : Reg → Nat → T}

theorem dlanes_eq (d : DenseLane Reg) (q : Nat) (hq : q < 8) (k : Nat) (hk : k < L) :
    dlanes L lanes d (q * L + k) = lanes (d.nth q) k := by
  unfold dlanes
  have hL : 0 < L := by omega
  have h1 : (q * L + k) / L = q := by
    rw [Nat.mul_comm, Nat.mul_add_div hL, Nat.div_eq_of_lt hk]; simp
  have h2 : (q * L + k) % L = k := by
    rw [Nat.mul_comm, Nat.mul_add_mod, Nat.mod_eq_of_lt hk]
  rw [h1, h2]

theorem memFaithful_of_defaults (CF : CoreFaithful R L lanes) (UD : UsesDefaultMem E R) :
    MemFaithful R L lanes := by
  have hL := CF.L_pos
  have hsm := CF.L_small
  have hmul : ∀ c, c ≤ 8 → umul E L c = pure (L * c) := by
    intro c hc
    apply umul_small
    have : L * c ≤ L * 8 := Nat.mul_le_mul_left L hc
    omega
  refine
    { L_pos := hL, epl := CF.epl, epd := ?_, load_ok := CF.load_ok, load_oob := CF.load_oob,
      write_ok := CF.write_ok, write_oob := CF.write_oob, load_dense_ok := ?_, write_dense_ok := ?_ }
  · rw [UD.epd]
    unfold SimdRegisterDefault.elements_per_dense
    simp only [CF.epl, pure_bind, DenseLane.NUM_LANES, hmul 8 (by omega)]
  · intro s i hi
    rw [UD.load_dense]
    unfold SimdRegisterDefault.load_dense
    simp only [CF.epl, pure_bind, hmul 0 (by omega), hmul 1 (by omega), hmul 2 (by omega), hmul 3 (by omega),
      hmul 4 (by omega), hmul 5 (by omega), hmul 6 (by omega), hmul 7 (by omega)]
    obtain ⟨r0, e0, h0⟩ := CF.load_ok s (i + L * 0) (by omega)
    obtain ⟨r1, e1, h1⟩ := CF.load_ok s (i + L * 1) (by omega)
    obtain ⟨r2, e2, h2⟩ := CF.load_ok s (i + L * 2) (by omega)
    obtain ⟨r3, e3, h3⟩ := CF.load_ok s (i + L * 3) (by omega)
    obtain ⟨r4, e4, h4⟩ := CF.load_ok s (i + L * 4) (by omega)
    obtain ⟨r5, e5, h5⟩ := CF.load_ok s (i + L * 5) (by omega)
    obtain ⟨r6, e6, h6⟩ := CF.load_ok s (i + L * 6) (by omega)
    obtain ⟨r7, e7, h7⟩ := CF.load_ok s (i + L * 7) (by omega)
    rw [e0]; simp only [pure_bind]
    rw [e1]; simp only [pure_bind]
    rw [e2]; simp only [pure_bind]
    rw [e3]; simp only [pure_bind]
    rw [e4]; simp only [pure_bind]
    rw [e5]; simp only [pure_bind]
    rw [e6]; simp only [pure_bind]
    rw [e7]; simp only [pure_bind]
    refine ⟨_, rfl, ?_⟩
    intro k hk
    have hq := div_lt_8 hL hk
    have hkm : k % L < L := Nat.mod_lt _ hL
    have hdm : L * (k / L) + k % L = k := Nat.div_add_mod k L
    unfold dlanes
    revert hdm
    refine forall_lt_8 (fun q => L * q + k % L = k → lanes (DenseLane.nth _ q) (k % L) = s.get (i + k))
      ?_ ?_ ?_ ?_ ?_ ?_ ?_ ?_ (k / L) hq
    all_goals (intro hdm; simp only [DenseLane.nth])
    · rw [h0 _ hkm]; congr 1; omega
    · rw [h1 _ hkm]; congr 1; omega
    · rw [h2 _ hkm]; congr 1; omega
    · rw [h3 _ hkm]; congr 1; omega
    · rw [h4 _ hkm]; congr 1; omega
    · rw [h5 _ hkm]; congr 1; omega
    · rw [h6 _ hkm]; congr 1; omega
    · rw [h7 _ hkm]; congr 1; omega
  · intro s i d hi
    rw [UD.write_dense]
    unfold SimdRegisterDefault.write_dense
    simp only [CF.epl, pure_bind, hmul 0 (by omega), hmul 1 (by omega), hmul 2 (by omega), hmul 3 (by omega),
      hmul 4 (by omega), hmul 5 (by omega), hmul 6 (by omega), hmul 7 (by omega)]
    have hsz : ∀ (s' : Slice T) j n g, (s'.setRange j n g).size = s'.size := fun _ _ _ _ => rfl
    rw [CF.write_ok s (i + L * 0) d.a (by omega)]; simp only [pure_bind]
    rw [CF.write_ok _ (i + L * 1) d.b (by simp only [hsz]; omega)]; simp only [pure_bind]
    rw [CF.write_ok _ (i + L * 2) d.c (by simp only [hsz]; omega)]; simp only [pure_bind]
    rw [CF.write_ok _ (i + L * 3) d.d (by simp only [hsz]; omega)]; simp only [pure_bind]
    rw [CF.write_ok _ (i + L * 4) d.e (by simp only [hsz]; omega)]; simp only [pure_bind]
    rw [CF.write_ok _ (i + L * 5) d.f (by simp only [hsz]; omega)]; simp only [pure_bind]
    rw [CF.write_ok _ (i + L * 6) d.g (by simp only [hsz]; omega)]; simp only [pure_bind]
    rw [CF.write_ok _ (i + L * 7) d.h (by simp only [hsz]; omega)]
    congr 1
    -- both sides are slices of the same size; compare element-wise
    unfold Slice.setRange
    congr 1
    funext j
    simp only
    by_cases hj : i ≤ j ∧ j < i + L * 8
    · rw [if_pos hj]
      have hk : j - i < L * 8 := by omega
      have hq := div_lt_8 hL hk
      have hkm : (j - i) % L < L := Nat.mod_lt _ hL
      have hdm : L * ((j - i) / L) + (j - i) % L = j - i := Nat.div_add_mod (j - i) L
      unfold dlanes
      revert hdm
      refine forall_lt_8 (fun q => L * q + (j - i) % L = j - i → _ = lanes (DenseLane.nth d q) ((j - i) % L))
        ?_ ?_ ?_ ?_ ?_ ?_ ?_ ?_ ((j - i) / L) hq
      all_goals (intro hdm; simp only [DenseLane.nth])
      · have c7 : ¬ (i + L * 7 ≤ j ∧ j < i + L * 7 + L) := by omega
        have c6 : ¬ (i + L * 6 ≤ j ∧ j < i + L * 6 + L) := by omega
        have c5 : ¬ (i + L * 5 ≤ j ∧ j < i + L * 5 + L) := by omega
        have c4 : ¬ (i + L * 4 ≤ j ∧ j < i + L * 4 + L) := by omega
        have c3 : ¬ (i + L * 3 ≤ j ∧ j < i + L * 3 + L) := by omega
        have c2 : ¬ (i + L * 2 ≤ j ∧ j < i + L * 2 + L) := by omega
        have c1 : ¬ (i + L * 1 ≤ j ∧ j < i + L * 1 + L) := by omega
        have c0 : i + L * 0 ≤ j ∧ j < i + L * 0 + L := by omega
        rw [if_neg c7, if_neg c6, if_neg c5, if_neg c4, if_neg c3, if_neg c2, if_neg c1, if_pos c0]
        congr 1; omega
      · have c7 : ¬ (i + L * 7 ≤ j ∧ j < i + L * 7 + L) := by omega
        have c6 : ¬ (i + L * 6 ≤ j ∧ j < i + L * 6 + L) := by omega
        have c5 : ¬ (i + L * 5 ≤ j ∧ j < i + L * 5 + L) := by omega
        have c4 : ¬ (i + L * 4 ≤ j ∧ j < i + L * 4 + L) := by omega
        have c3 : ¬ (i + L * 3 ≤ j ∧ j < i + L * 3 + L) := by omega
        have c2 : ¬ (i + L * 2 ≤ j ∧ j < i + L * 2 + L) := by omega
        have c1 : i + L * 1 ≤ j ∧ j < i + L * 1 + L := by omega
        rw [if_neg c7, if_neg c6, if_neg c5, if_neg c4, if_neg c3, if_neg c2, if_pos c1]
        congr 1; omega
      · have c7 : ¬ (i + L * 7 ≤ j ∧ j < i + L * 7 + L) := by omega
        have c6 : ¬ (i + L * 6 ≤ j ∧ j < i + L * 6 + L) := by omega
        have c5 : ¬ (i + L * 5 ≤ j ∧ j < i + L * 5 + L) := by omega
        have c4 : ¬ (i + L * 4 ≤ j ∧ j < i + L * 4 + L) := by omega
        have c3 : ¬ (i + L * 3 ≤ j ∧ j < i + L * 3 + L) := by omega
        have c2 : i + L * 2 ≤ j ∧ j < i + L * 2 + L := by omega
        rw [if_neg c7, if_neg c6, if_neg c5, if_neg c4, if_neg c3, if_pos c2]
        congr 1; omega
      · have c7 : ¬ (i + L * 7 ≤ j ∧ j < i + L * 7 + L) := by omega
        have c6 : ¬ (i + L * 6 ≤ j ∧ j < i + L * 6 + L) := by omega
        have c5 : ¬ (i + L * 5 ≤ j ∧ j < i + L * 5 + L) := by omega
        have c4 : ¬ (i + L * 4 ≤ j ∧ j < i + L * 4 + L) := by omega
        have c3 : i + L * 3 ≤ j ∧ j < i + L * 3 + L := by omega
        rw [if_neg c7, if_neg c6, if_neg c5, if_neg c4, if_pos c3]
        congr 1; omega
      · have c7 : ¬ (i + L * 7 ≤ j ∧ j < i + L * 7 + L) := by omega
        have c6 : ¬ (i + L * 6 ≤ j ∧ j < i + L * 6 + L) := by omega
        have c5 : ¬ (i + L * 5 ≤ j ∧ j < i + L * 5 + L) := by omega
        have c4 : i + L * 4 ≤ j ∧ j < i + L * 4 + L := by omega
        rw [if_neg c7, if_neg c6, if_neg c5, if_pos c4]
        congr 1; omega
      · have c7 : ¬ (i + L * 7 ≤ j ∧ j < i + L * 7 + L) := by omega
        have c6 : ¬ (i + L * 6 ≤ j ∧ j < i + L * 6 + L) := by omega
        have c5 : i + L * 5 ≤ j ∧ j < i + L * 5 + L := by omega
        rw [if_neg c7, if_neg c6, if_pos c5]
        congr 1; omega
      · have c7 : ¬ (i + L * 7 ≤ j ∧ j < i + L * 7 + L) := by omega
        have c6 : i + L * 6 ≤ j ∧ j < i + L * 6 + L := by omega
        rw [if_neg c7, if_pos c6]
        congr 1; omega
      · have c7 : i + L * 7 ≤ j ∧ j < i + L * 7 + L := by omega
        rw [if_pos c7]
        congr 1; omega
    · rw [if_neg hj]
      have c7 : ¬ (i + L * 7 ≤ j ∧ j < i + L * 7 + L) := by omega
      have c6 : ¬ (i + L * 6 ≤ j ∧ j < i + L * 6 + L) := by omega
      have c5 : ¬ (i + L * 5 ≤ j ∧ j < i + L * 5 + L) := by omega
      have c4 : ¬ (i + L * 4 ≤ j ∧ j < i + L * 4 + L) := by omega
      have c3 : ¬ (i + L * 3 ≤ j ∧ j < i + L * 3 + L) := by omega
      have c2 : ¬ (i + L * 2 ≤ j ∧ j < i + L * 2 + L) := by omega
      have c1 : ¬ (i + L * 1 ≤ j ∧ j < i + L * 1 + L) := by omega
      have c0 : ¬ (i + L * 0 ≤ j ∧ j < i + L * 0 + L) := by omega
      rw [if_neg c7, if_neg c6, if_neg c5, if_neg c4, if_neg c3, if_neg c2, if_neg c1, if_neg c0]

end

end Cfavml

namespace Cfavml

/-- `apply_dense!(op, l1, l2)` -/
def applyDense2 {Reg : Type} (op : Reg → Reg → Exec Reg) (l1 l2 : DenseLane Reg) : Exec (DenseLane Reg) := do
  let t1 ← op l1.a l2.a
  let t2 ← op l1.b l2.b
  let t3 ← op l1.c l2.c
  let t4 ← op l1.d l2.d
  let t5 ← op l1.e l2.e
  let t6 ← op l1.f l2.f
  let t7 ← op l1.g l2.g
  let t8 ← op l1.h l2.h
  pure ({ a := t1, b := t2, c := t3, d := t4, e := t5, f := t6, g := t7, h := t8 } : DenseLane _)

section
variable {T Reg : Type} (E : Env) (op : Reg → Reg → Exec Reg)
theorem add_dense_default : SimdRegisterDefault.add_dense (T := T) E op = applyDense2 op := rfl
theorem sub_dense_default : SimdRegisterDefault.sub_dense (T := T) E op = applyDense2 op := rfl
theorem mul_dense_default : SimdRegisterDefault.mul_dense (T := T) E op = applyDense2 op := rfl
theorem div_dense_default : SimdRegisterDefault.div_dense (T := T) E op = applyDense2 op := rfl
theorem max_dense_default : SimdRegisterDefault.max_dense (T := T) E op = applyDense2 op := rfl
theorem min_dense_default : SimdRegisterDefault.min_dense (T := T) E op = applyDense2 op := rfl
end

theorem dlanes_nth {T Reg : Type} {L : Nat} {lanes : Reg → Nat → T} (d : DenseLane Reg) (k : Nat) :
    dlanes L lanes d k = lanes (d.nth (k / L)) (k % L) := rfl

/-- a lane-wise single-register operation applied to the eight fields is lane-wise on the dense lane -/
theorem lanewise2_of_applyDense {T Reg : Type} {L : Nat} {lanes : Reg → Nat → T} {f : T → T → T} {ok : T → Prop}
    {op : Reg → Reg → Exec Reg} (hL : 0 < L)
    (hs : ∀ x y, (∀ k, k < L → ok (lanes y k)) → ∃ r, op x y = pure r ∧ ∀ k, k < L → lanes r k = f (lanes x k) (lanes y k)) :
    Lanewise2 L lanes f ok op (applyDense2 op) := by
  refine ⟨hs, ?_⟩
  intro x y hok
  have hokq : ∀ q, q < 8 → ∀ k, k < L → ok (lanes (y.nth q) k) := by
    intro q hq k hk
    have := hok (q * L + k) (by
      have : q * L + k < q * L + L := by omega
      have h2 : (q + 1) * L ≤ 8 * L := Nat.mul_le_mul_right L (by omega)
      rw [Nat.succ_mul] at h2
      rw [Nat.mul_comm L 8]; omega)
    rw [dlanes_eq y q hq k hk] at this
    exact this
  obtain ⟨r0, e0, h0⟩ := hs x.a y.a (hokq 0 (by omega))
  obtain ⟨r1, e1, h1⟩ := hs x.b y.b (hokq 1 (by omega))
  obtain ⟨r2, e2, h2⟩ := hs x.c y.c (hokq 2 (by omega))
  obtain ⟨r3, e3, h3⟩ := hs x.d y.d (hokq 3 (by omega))
  obtain ⟨r4, e4, h4⟩ := hs x.e y.e (hokq 4 (by omega))
  obtain ⟨r5, e5, h5⟩ := hs x.f y.f (hokq 5 (by omega))
  obtain ⟨r6, e6, h6⟩ := hs x.g y.g (hokq 6 (by omega))
  obtain ⟨r7, e7, h7⟩ := hs x.h y.h (hokq 7 (by omega))
  refine ⟨⟨r0, r1, r2, r3, r4, r5, r6, r7⟩, ?_, ?_⟩
  · unfold applyDense2
    rw [e0]; simp only [pure_bind]
    rw [e1]; simp only [pure_bind]
    rw [e2]; simp only [pure_bind]
    rw [e3]; simp only [pure_bind]
    rw [e4]; simp only [pure_bind]
    rw [e5]; simp only [pure_bind]
    rw [e6]; simp only [pure_bind]
    rw [e7]; simp only [pure_bind]
  · intro k hk
    have hq := div_lt_8 hL hk
    have hkm : k % L < L := Nat.mod_lt _ hL
    simp only [dlanes_nth]
    refine forall_lt_8 (fun q => lanes (DenseLane.nth _ q) (k % L)
        = f (lanes (DenseLane.nth x q) (k % L)) (lanes (DenseLane.nth y q) (k % L)))
      ?_ ?_ ?_ ?_ ?_ ?_ ?_ ?_ (k / L) hq
    all_goals simp only [DenseLane.nth]
    · exact h0 _ hkm
    · exact h1 _ hkm
    · exact h2 _ hkm
    · exact h3 _ hkm
    · exact h4 _ hkm
    · exact h5 _ hkm
    · exact h6 _ hkm
    · exact h7 _ hkm

end Cfavml

namespace Cfavml

theorem dlanes_copy {T Reg : Type} {L : Nat} {lanes : Reg → Nat → T} (hL : 0 < L) (r : Reg) (k : Nat)
    (hk : k < L * 8) : dlanes L lanes (DenseLane.copy r) k = lanes r (k % L) := by
  rw [dlanes_nth]
  have hq := div_lt_8 hL hk
  refine forall_lt_8 (fun q => lanes (DenseLane.nth (DenseLane.copy r) q) (k % L) = lanes r (k % L))
    rfl rfl rfl rfl rfl rfl rfl rfl (k / L) hq

/-- a faithful `filled` plus the default `filled_dense` give the broadcast contract -/
theorem broadcastFaithful_of_default {T Reg : Type} {E : Env} {R : SimdRegister T Reg} {L : Nat}
    {lanes : Reg → Nat → T} (hL : 0 < L)
    (hf : ∀ v, ∃ r, R.filled v = pure r ∧ ∀ k, k < L → lanes r k = v)
    (hd : R.filled_dense = SimdRegisterDefault.filled_dense (T := T) E R.filled) :
    BroadcastFaithful R L lanes := by
  refine ⟨hf, ?_⟩
  intro v
  obtain ⟨r, e, h⟩ := hf v
  refine ⟨DenseLane.copy r, ?_, ?_, ?_⟩
  · rw [hd]
    unfold SimdRegisterDefault.filled_dense
    rw [e]; rfl
  · intro k hk
    rw [dlanes_copy hL r k hk]
    exact h _ (Nat.mod_lt _ hL)
  · intro k hk
    exact h k hk

end Cfavml

namespace Cfavml

/-- the roll-up tree the three `*_to_register` defaults share -/
def rollup8 {Reg : Type} (op : Reg → Reg → Exec Reg) (lane : DenseLane Reg) : Exec Reg := do
  let acc1 ← op lane.a lane.b
  let acc2 ← op lane.c lane.d
  let acc3 ← op lane.e lane.f
  let acc4 ← op lane.g lane.h
  let acc1 ← op acc1 acc2
  let acc3 ← op acc3 acc4
  let t7 ← op acc1 acc3
  pure t7

section
variable {T Reg : Type} (E : Env) (op : Reg → Reg → Exec Reg)
theorem sum_to_register_default : SimdRegisterDefault.sum_to_register (T := T) E op = rollup8 op := rfl
theorem max_to_register_default : SimdRegisterDefault.max_to_register (T := T) E op = rollup8 op := rfl
theorem min_to_register_default : SimdRegisterDefault.min_to_register (T := T) E op = rollup8 op := rfl
end

/-- the default roll-up of a lane-wise total operation is lane-wise the `tree8` of the eight registers -/
theorem rollup8_lanewise {T Reg : Type} {L : Nat} {lanes : Reg → Nat → T} {f : T → T → T}
    {op : Reg → Reg → Exec Reg}
    (hs : ∀ x y, ∃ r, op x y = pure r ∧ ∀ k, k < L → lanes r k = f (lanes x k) (lanes y k)) (d : DenseLane Reg) :
    ∃ r, rollup8 op d = pure r ∧
      ∀ k, k < L → lanes r k = f (f (f (lanes d.a k) (lanes d.b k)) (f (lanes d.c k) (lanes d.d k)))
        (f (f (lanes d.e k) (lanes d.f k)) (f (lanes d.g k) (lanes d.h k))) := by
  obtain ⟨r1, e1, h1⟩ := hs d.a d.b
  obtain ⟨r2, e2, h2⟩ := hs d.c d.d
  obtain ⟨r3, e3, h3⟩ := hs d.e d.f
  obtain ⟨r4, e4, h4⟩ := hs d.g d.h
  obtain ⟨r5, e5, h5⟩ := hs r1 r2
  obtain ⟨r6, e6, h6⟩ := hs r3 r4
  obtain ⟨r7, e7, h7⟩ := hs r5 r6
  refine ⟨r7, ?_, ?_⟩
  · unfold rollup8
    rw [e1]; simp only [pure_bind]
    rw [e2]; simp only [pure_bind]
    rw [e3]; simp only [pure_bind]
    rw [e4]; simp only [pure_bind]
    rw [e5]; simp only [pure_bind]
    rw [e6]; simp only [pure_bind]
    rw [e7]
  · intro k hk
    rw [h7 k hk, h5 k hk, h6 k hk, h1 k hk, h2 k hk, h3 k hk, h4 k hk]

/-- `fmadd_dense` written as `mul_dense` followed by `add_dense` (Fallback, AVX2 without FMA) -/
theorem lanewise3_of_mul_add {T Reg : Type} {L : Nat} {lanes : Reg → Nat → T} {fmul fadd : T → T → T}
    {mul add : Reg → Reg → Exec Reg} {mulD addD : DenseLane Reg → DenseLane Reg → Exec (DenseLane Reg)}
    (LM : Lanewise2 L lanes fmul (fun _ => True) mul mulD) (LA : Lanewise2 L lanes fadd (fun _ => True) add addD)
    {fm : Reg → Reg → Reg → Exec Reg} {fmD : DenseLane Reg → DenseLane Reg → DenseLane Reg → Exec (DenseLane Reg)}
    (hfm : ∀ x y z, fm x y z = (do let res ← mul x y; add res z))
    (hfmD : ∀ x y z, fmD x y z = (do let res ← mulD x y; addD res z)) :
    Lanewise3 L lanes (fun x y acc => fadd (fmul x y) acc) fm fmD := by
  constructor
  · intro x y z
    obtain ⟨r1, e1, h1⟩ := LM.single x y (fun _ _ => trivial)
    obtain ⟨r2, e2, h2⟩ := LA.single r1 z (fun _ _ => trivial)
    refine ⟨r2, by rw [hfm, e1]; simp only [pure_bind]; exact e2, ?_⟩
    intro k hk
    rw [h2 k hk, h1 k hk]
  · intro x y z
    obtain ⟨r1, e1, h1⟩ := LM.dense x y (fun _ _ => trivial)
    obtain ⟨r2, e2, h2⟩ := LA.dense r1 z (fun _ _ => trivial)
    refine ⟨r2, by rw [hfmD, e1]; simp only [pure_bind]; exact e2, ?_⟩
    intro k hk
    rw [h2 k hk, h1 k hk]

end Cfavml
