/-
Backward-error bookkeeping for floating-point accumulation (Higham, ch. 3–4), over ℝ:

  `Approx u term v I k`  ⇔  v = Σ_{i ∈ I} term i · (1 + θ i)  with  |θ i| ≤ (1+u)^k − 1  for every i ∈ I

"the real number `v` is the sum of the terms indexed by `I`, each perturbed by at most `k` roundings".
Closed under one more rounding (`round`), exact addition of disjoint parts (`add`), and it yields the forward bound
`|v − Σ term| ≤ ((1+u)^k − 1) Σ |term| ≤ γ_k Σ |term|`. Every index in `I` occurs exactly once — that is the
"each element is counted exactly once" half of property C04.
-/
import Mathlib.Algebra.BigOperators.Group.Finset.Basic
import Mathlib.Algebra.Order.BigOperators.Group.Finset
import Mathlib.Algebra.BigOperators.Ring.Finset
import Mathlib.Algebra.Order.AbsoluteValue.Basic
import CfavmlModel.Lemmas.Rounding

namespace Cfavml.Rounding
open Finset

def Approx (u : ℝ) (term : ℕ → ℝ) (v : ℝ) (I : Finset ℕ) (k : ℕ) : Prop :=
  ∃ θ : ℕ → ℝ, v = ∑ i ∈ I, term i * (1 + θ i) ∧ ∀ i ∈ I, |θ i| ≤ (1 + u) ^ k - 1

variable {u : ℝ} {term : ℕ → ℝ}

theorem Approx.empty (k : ℕ) : Approx u term 0 ∅ k := ⟨fun _ => 0, by simp, by simp⟩

theorem Approx.of_empty {v : ℝ} {k : ℕ} (h : Approx u term v ∅ k) : v = 0 := by
  obtain ⟨θ, e, _⟩ := h; simpa using e

theorem Approx.singleton (i : ℕ) (hu : 0 ≤ u) (k : ℕ) : Approx u term (term i) {i} k := by
  refine ⟨fun _ => 0, by simp, ?_⟩
  intro j _
  have : (1 : ℝ) ≤ (1 + u) ^ k := one_le_pow₀ (by linarith)
  simp only [abs_zero]; linarith

theorem Approx.mono (hu : 0 ≤ u) {v : ℝ} {I : Finset ℕ} {k k' : ℕ} (hk : k ≤ k') (h : Approx u term v I k) :
    Approx u term v I k' := by
  obtain ⟨θ, e, hθ⟩ := h
  refine ⟨θ, e, fun i hi => (hθ i hi).trans ?_⟩
  have : (1 + u) ^ k ≤ (1 + u) ^ k' := pow_le_pow_right₀ (by linarith) hk
  linarith

/-- one more rounding: `v' = v (1 + δ)`, `|δ| ≤ u` -/
theorem Approx.round (hu : 0 ≤ u) {v : ℝ} {I : Finset ℕ} {k : ℕ} (h : Approx u term v I k) {δ : ℝ} (hδ : |δ| ≤ u) :
    Approx u term (v * (1 + δ)) I (k + 1) := by
  obtain ⟨θ, e, hθ⟩ := h
  refine ⟨fun i => (1 + θ i) * (1 + δ) - 1, ?_, ?_⟩
  · rw [e, Finset.sum_mul]
    apply Finset.sum_congr rfl
    intro i _; ring
  · intro i hi
    have h1 := hθ i hi
    have hE : (1 : ℝ) ≤ (1 + u) ^ k := one_le_pow₀ (by linarith)
    have : (1 + θ i) * (1 + δ) - 1 = θ i + δ + θ i * δ := by ring
    show |(1 + θ i) * (1 + δ) - 1| ≤ _
    rw [this, pow_succ]
    have h2 : |θ i * δ| ≤ ((1 + u) ^ k - 1) * u := by
      rw [abs_mul]; exact mul_le_mul h1 hδ (abs_nonneg _) (by linarith)
    calc |θ i + δ + θ i * δ| ≤ |θ i + δ| + |θ i * δ| := abs_add_le _ _
      _ ≤ |θ i| + |δ| + |θ i * δ| := by linarith [abs_add_le (θ i) δ]
      _ ≤ ((1 + u) ^ k - 1) + u + ((1 + u) ^ k - 1) * u := by linarith
      _ = (1 + u) ^ k * (1 + u) - 1 := by ring

/-- exact addition of two parts with disjoint index sets -/
theorem Approx.add {v w : ℝ} {I J : Finset ℕ} {k : ℕ} (h1 : Approx u term v I k) (h2 : Approx u term w J k)
    (hd : Disjoint I J) : Approx u term (v + w) (I ∪ J) k := by
  classical
  obtain ⟨θ, e1, hθ⟩ := h1
  obtain ⟨φ, e2, hφ⟩ := h2
  refine ⟨fun i => if i ∈ I then θ i else φ i, ?_, ?_⟩
  · rw [Finset.sum_union hd, e1, e2]
    congr 1
    · apply Finset.sum_congr rfl; intro i hi; simp [hi]
    · apply Finset.sum_congr rfl; intro i hi
      have : i ∉ I := fun h => (Finset.disjoint_left.mp hd h) hi
      simp [this]
  · intro i hi
    by_cases h : i ∈ I
    · simp only [h, if_true]; exact hθ i h
    · simp only [h, if_false]
      exact hφ i (by rcases Finset.mem_union.mp hi with h' | h'; exact absurd h' h; exact h')

/-- a rounded addition: `(v + w)(1 + δ)` -/
theorem Approx.add_round (hu : 0 ≤ u) {v w : ℝ} {I J : Finset ℕ} {k₁ k₂ : ℕ}
    (h1 : Approx u term v I k₁) (h2 : Approx u term w J k₂) (hd : Disjoint I J) {δ : ℝ} (hδ : |δ| ≤ u) :
    Approx u term ((v + w) * (1 + δ)) (I ∪ J) (max k₁ k₂ + 1) :=
  ((h1.mono hu (le_max_left _ _)).add (h2.mono hu (le_max_right _ _)) hd).round hu hδ

/-- **forward error bound** -/
theorem Approx.error {v : ℝ} {I : Finset ℕ} {k : ℕ} (h : Approx u term v I k) :
    |v - ∑ i ∈ I, term i| ≤ ((1 + u) ^ k - 1) * ∑ i ∈ I, |term i| := by
  obtain ⟨θ, e, hθ⟩ := h
  have : v - ∑ i ∈ I, term i = ∑ i ∈ I, term i * θ i := by
    rw [e, ← Finset.sum_sub_distrib]
    apply Finset.sum_congr rfl; intro i _; ring
  rw [this, Finset.mul_sum]
  refine (Finset.abs_sum_le_sum_abs _ _).trans (Finset.sum_le_sum ?_)
  intro i hi
  rw [abs_mul, mul_comm]
  exact mul_le_mul_of_nonneg_right (hθ i hi) (abs_nonneg _)

/-- the bound in the `γ` form of the property: `k·u < 1 ⇒ |v − Σ| ≤ γ_k · Σ|term|` -/
theorem Approx.error_gamma (hu : 0 ≤ u) {v : ℝ} {I : Finset ℕ} {k : ℕ} (h : Approx u term v I k)
    (hk : (k : ℝ) * u < 1) : |v - ∑ i ∈ I, term i| ≤ gamma u k * ∑ i ∈ I, |term i| :=
  h.error.trans (mul_le_mul_of_nonneg_right (pow_sub_one_le_gamma u hu k hk)
    (Finset.sum_nonneg (fun _ _ => abs_nonneg _)))

/-- **exactness**: with no rounding error at all (`u = 0`) the value is exactly the sum -/
theorem Approx.exact {v : ℝ} {I : Finset ℕ} {k : ℕ} (h : Approx 0 term v I k) : v = ∑ i ∈ I, term i := by
  have := h.error
  simp at this
  linarith

end Cfavml.Rounding
