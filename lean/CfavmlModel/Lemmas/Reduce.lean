/-
The horizontal reductions (`generic_sum`, `generic_squared_norm`, `generic_{max,min}_horizontal`,
`generic_dot_product`, `generic_euclidean`, and the two norms inside `generic_cosine`) all run `reduceCore`:
dense accumulation, roll-up to one register, single-register accumulation, horizontal fold, scalar tail.
-/
import CfavmlModel.Spec.Lanes
import CfavmlModel.Lemmas.Map2
import CfavmlModel.Lemmas.Monoid

namespace Cfavml

def reduceCore {T Reg : Type} (E : Env) (R : SimdRegister T Reg)
    (init : Exec (DenseLane Reg))
    (stepD : Nat → DenseLane Reg → Exec (DenseLane Reg))
    (rollup : DenseLane Reg → Exec Reg)
    (stepR : Nat → Reg → Exec Reg)
    (toValue : Reg → Exec T)
    (stepT : Nat → T → Exec T)
    (dims : Nat) : Exec T := do
  let t1 ← R.elements_per_dense
  let offset_from ← umod dims t1
  let acc ← init
  let st1 ← loopM E.fuel (0, acc)
    (fun st1 => do
      let t ← usub E dims offset_from
      pure (decide (st1.1 < t)))
    (fun st1 => do
      let acc ← stepD st1.1 st1.2
      let t ← R.elements_per_dense
      pure (st1.1 + t, acc))
  let acc ← rollup st1.2
  let t ← R.elements_per_lane
  let offset_from ← umod offset_from t
  let st2 ← loopM E.fuel (st1.1, acc)
    (fun st2 => do
      let t ← usub E dims offset_from
      pure (decide (st2.1 < t)))
    (fun st2 => do
      let acc ← stepR st2.1 st2.2
      let t ← R.elements_per_lane
      pure (st2.1 + t, acc))
  let v ← toValue st2.2
  let st3 ← loopM E.fuel (st2.1, v)
    (fun st3 => pure (decide (st3.1 < dims)))
    (fun st3 => do
      let v ← stepT st3.1 st3.2
      pure (st3.1 + 1, v))
  pure st3.2

end Cfavml

namespace Cfavml

section
variable {T : Type} {op : T → T → T} {e : T}

/-- a phase whose every step adds the next `K` terms to the measure of the accumulator -/
theorem iter_measure {S : Type} (hm : CommMonoidOn op e) (term : Nat → T) (dims K : Nat)
    (step : Nat → S → Exec S) (m : S → T)
    (hstep : ∀ i s, i + K ≤ dims →
      ∃ s', step i s = pure s' ∧ m s' = op (m s) (sumR op e (fun k => term (i + k)) K)) :
    ∀ n i0 s0, i0 + n * K ≤ dims → m s0 = sumR op e term i0 →
      ∃ s', iter step K n i0 s0 = pure s' ∧ m s' = sumR op e term (i0 + n * K) := by
  intro n i0 s0 hle h0
  have := iter_inv step K i0 (fun j s => m s = sumR op e term (i0 + j * K)) n s0 (by simpa using h0)
    (by
      intro j hj s hs
      have hb : i0 + j * K + K ≤ dims := by
        have : (j + 1) * K ≤ n * K := Nat.mul_le_mul_right K (by omega)
        rw [Nat.succ_mul] at this
        omega
      obtain ⟨s', e1, h1⟩ := hstep (i0 + j * K) s hb
      refine ⟨s', e1, ?_⟩
      have hs2 := sumR_append hm term (i0 + j * K) K
      have : i0 + (j + 1) * K = i0 + j * K + K := by rw [Nat.succ_mul]; omega
      rw [h1, hs, this, hs2])
  exact this

variable {Reg : Type} {E : Env} {R : SimdRegister T Reg} {L : Nat}

/-- **reduction core theorem** (commutative monoid form): if every dense step adds the next `8·L` terms to
the measure of the dense accumulator, the roll-up and the horizontal fold preserve the measure, every
register step adds the next `L` terms and every tail step the next term, then the kernel terminates
without fault and returns the sum of all `dims` terms — each index counted exactly once. -/
theorem reduceCore_spec (hm : CommMonoidOn op e) (hL : 0 < L)
    (hepd : R.elements_per_dense = pure (L * 8)) (hepl : R.elements_per_lane = pure L)
    (term : Nat → T) (dims : Nat)
    {init : Exec (DenseLane Reg)} {stepD : Nat → DenseLane Reg → Exec (DenseLane Reg)}
    {rollup : DenseLane Reg → Exec Reg} {stepR : Nat → Reg → Exec Reg} {toValue : Reg → Exec T}
    {stepT : Nat → T → Exec T}
    (mD : DenseLane Reg → T) (mR : Reg → T)
    (hinit : ∃ d0, init = pure d0 ∧ mD d0 = e)
    (hstepD : ∀ i acc, i + L * 8 ≤ dims →
      ∃ acc', stepD i acc = pure acc' ∧ mD acc' = op (mD acc) (sumR op e (fun k => term (i + k)) (L * 8)))
    (hroll : ∀ d, ∃ r, rollup d = pure r ∧ mR r = mD d)
    (hstepR : ∀ i acc, i + L ≤ dims →
      ∃ acc', stepR i acc = pure acc' ∧ mR acc' = op (mR acc) (sumR op e (fun k => term (i + k)) L))
    (htoV : ∀ r, toValue r = pure (mR r))
    (hstepT : ∀ i v, i + 1 ≤ dims → stepT i v = pure (op v (term i)))
    (hfuel : dims < E.fuel) :
    reduceCore E R init stepD rollup stepR toValue stepT dims = pure (sumR op e term dims) := by
  have hK : 0 < L * 8 := by omega
  let q := dims / (L * 8)
  let r := dims % (L * 8)
  have hdims : dims = q * (L * 8) + r := by
    have := Nat.div_add_mod dims (L * 8)
    simp only [q, r]; rw [Nat.mul_comm]; omega
  have hr_lt : r < L * 8 := Nat.mod_lt _ hK
  let n2 := r / L
  let r2 := r % L
  have hr2 : r = n2 * L + r2 := by
    have := Nat.div_add_mod r L
    simp only [n2, r2]; rw [Nat.mul_comm]; omega
  have hr2_lt : r2 < L := Nat.mod_lt _ hL
  obtain ⟨d0, ei, hi0⟩ := hinit
  obtain ⟨d1, e1, h1⟩ := iter_measure hm term dims (L * 8) stepD mD hstepD q 0 d0 (by omega) (by simpa using hi0)
  obtain ⟨r1, er, hr1⟩ := hroll d1
  obtain ⟨r2', e2, h2⟩ := iter_measure hm term dims L stepR mR hstepR n2 (0 + q * (L * 8)) r1 (by omega)
    (by rw [hr1, h1])
  obtain ⟨v3, e3, h3⟩ := iter_measure hm term dims 1 stepT (fun v => v)
    (fun i v hi => ⟨_, hstepT i v hi, by rw [sumR_one hm]; simp⟩)
    r2 (0 + q * (L * 8) + n2 * L) (mR r2') (by omega) h2
  have hend : 0 + q * (L * 8) + n2 * L + r2 * 1 = dims := by omega
  rw [hend] at h3
  unfold reduceCore
  simp only [hepd, hepl, pure_bind, umod_pos _ _ hK, umod_pos _ _ hL, ei]
  rw [loopM_counted E.fuel _ _ stepD (dims - dims % (L * 8)) (L * 8) hK
    (by intro st; rw [usub_le E _ _ (Nat.mod_le _ _)]; simp)
    (by intro st; rfl)
    q 0 d0 (by have : q ≤ dims := Nat.div_le_self _ _; omega) (by omega)
    (by intro m hm'
        have : (m + 1) * (L * 8) ≤ q * (L * 8) := Nat.mul_le_mul_right _ (by omega)
        rw [Nat.succ_mul] at this
        omega)]
  rw [e1]
  simp only [pure_bind, er]
  have hmod2 : dims % (L * 8) % L = r2 := rfl
  rw [hmod2]
  rw [loopM_counted E.fuel _ _ stepR (dims - r2) L hL
    (by intro st; rw [usub_le E _ _ (by omega)]; simp)
    (by intro st; rfl)
    n2 (0 + q * (L * 8)) r1 (by have : n2 ≤ r := Nat.div_le_self _ _; omega) (by omega)
    (by intro m hm'
        have : (m + 1) * L ≤ n2 * L := Nat.mul_le_mul_right _ (by omega)
        rw [Nat.succ_mul] at this
        omega)]
  rw [e2]
  simp only [pure_bind, htoV]
  rw [loopM_counted E.fuel _ _ stepT dims 1 (by omega)
    (by intro st; rfl)
    (by intro st; rfl)
    r2 (0 + q * (L * 8) + n2 * L) (mR r2') (by omega) (by omega)
    (by intro m hm'; omega)]
  rw [e3]
  simp only [pure_bind]
  rw [h3]

end

end Cfavml

namespace Cfavml
section
variable {T Reg : Type} {op : T → T → T} {e : T} {E : Env} {R : SimdRegister T Reg} {L : Nat}
variable {lanes : Reg → Nat → T}

theorem dlanes_block (d : DenseLane Reg) (q : Nat) (hq : q < 8) (k : Nat) (hk : k < L) :
    dlanes L lanes d (q * L + k) = lanes (d.nth q) k := by
  unfold dlanes
  have hL : 0 < L := by omega
  have h1 : (q * L + k) / L = q := by
    rw [Nat.mul_comm, Nat.mul_add_div hL, Nat.div_eq_of_lt hk]; simp
  have h2 : (q * L + k) % L = k := by
    rw [Nat.mul_comm, Nat.mul_add_mod, Nat.mod_eq_of_lt hk]
  rw [h1, h2]

/-- **reduction theorem, lane-wise form.** If each dense / register step combines every lane of the
accumulator with the term of the element that lane covers, the roll-up is the `tree8` of the eight
registers lane by lane, the horizontal fold is the monoid sum of the lanes and the tail combines one
term at a time, then the kernel returns the monoid sum of all `dims` terms. -/
theorem reduce_lanewise_spec (hm : CommMonoidOn op e) (hL : 0 < L)
    (hepd : R.elements_per_dense = pure (L * 8)) (hepl : R.elements_per_lane = pure L)
    (term : Nat → T) (dims : Nat)
    {init : Exec (DenseLane Reg)} {stepD : Nat → DenseLane Reg → Exec (DenseLane Reg)}
    {rollup : DenseLane Reg → Exec Reg} {stepR : Nat → Reg → Exec Reg} {toValue : Reg → Exec T}
    {stepT : Nat → T → Exec T} (hfold : (Nat → T) → T)
    (hinit : ∃ d0, init = pure d0 ∧ ∀ k, k < L * 8 → dlanes L lanes d0 k = e)
    (hD : ∀ i acc, i + L * 8 ≤ dims → ∃ acc', stepD i acc = pure acc'
      ∧ ∀ k, k < L * 8 → dlanes L lanes acc' k = op (dlanes L lanes acc k) (term (i + k)))
    (hroll : ∀ d, ∃ r, rollup d = pure r ∧ ∀ k, k < L → lanes r k = tree8 op (fun q => lanes (d.nth q) k))
    (hR : ∀ i acc, i + L ≤ dims → ∃ acc', stepR i acc = pure acc'
      ∧ ∀ k, k < L → lanes acc' k = op (lanes acc k) (term (i + k)))
    (htoV : ∀ r, toValue r = pure (hfold (lanes r)))
    (hh : ∀ f, hfold f = sumR op e f L)
    (hT : ∀ i v, i + 1 ≤ dims → stepT i v = pure (op v (term i)))
    (hfuel : dims < E.fuel) :
    reduceCore E R init stepD rollup stepR toValue stepT dims = pure (sumR op e term dims) := by
  apply reduceCore_spec hm hL hepd hepl term dims
    (fun d => sumR op e (dlanes L lanes d) (L * 8)) (fun r => sumR op e (lanes r) L)
  · obtain ⟨d0, e0, h0⟩ := hinit
    refine ⟨d0, e0, ?_⟩
    rw [sumR_congr _ (fun _ => e) _ h0, sumR_const_e hm]
  · intro i acc hi
    obtain ⟨acc', e1, h1⟩ := hD i acc hi
    refine ⟨acc', e1, ?_⟩
    rw [sumR_congr _ _ _ h1, sumR_distrib hm]
  · intro d
    obtain ⟨r, e1, h1⟩ := hroll d
    refine ⟨r, e1, ?_⟩
    rw [sumR_congr _ _ _ h1]
    have h2 : (fun k => tree8 op (fun q => lanes (d.nth q) k)) = (fun k => sumR op e (fun q => lanes (d.nth q) k) 8) := by
      funext k; exact tree8_eq_sumR hm _
    rw [h2, sumR_swap hm (fun q k => lanes (d.nth q) k) 8 L]
    rw [Nat.mul_comm L 8, sumR_blocks hm]
    apply sumR_congr
    intro q hq
    apply sumR_congr
    intro k hk
    exact (dlanes_block d q hq k hk).symm
  · intro i acc hi
    obtain ⟨acc', e1, h1⟩ := hR i acc hi
    refine ⟨acc', e1, ?_⟩
    rw [sumR_congr _ _ _ h1, sumR_distrib hm]
  · intro r
    rw [htoV, hh]
  · exact hT
  · exact hfuel

end
end Cfavml
