/-
The six reduction kernels equal their pure models (`reduceModel`), for an arbitrary backend meeting the lane-wise
contracts and an arbitrary scalar specification — no algebraic law assumed, so this is the form used for floats.
-/
import CfavmlModel.Lemmas.ReduceModel
import CfavmlModel.Lemmas.ReduceKernels

namespace Cfavml
namespace KernelModel

variable {T : Type}

/-- `generic_sum`: accumulate `acc + a[i]` -/
def sumOps (S : ScalarSpec T) (hsum : (Nat → T) → T) (a : Nat → T) : ReduceOps T where
  e := S.zero
  lane := fun acc i => S.add acc (a i)
  roll := S.add
  hfold := hsum
  tail := fun v i => S.add v (a i)

/-- `generic_dot_product`: lanes accumulate `fm a[i] b[i] acc`, the tail `v + a[i]*b[i]` -/
def dotOps (S : ScalarSpec T) (fm : T → T → T → T) (hsum : (Nat → T) → T) (a b : Nat → T) : ReduceOps T where
  e := S.zero
  lane := fun acc i => fm (a i) (b i) acc
  roll := S.add
  hfold := hsum
  tail := fun v i => S.add v (S.mul (a i) (b i))

/-- `generic_squared_norm` -/
def normOps (S : ScalarSpec T) (fm : T → T → T → T) (hsum : (Nat → T) → T) (a : Nat → T) : ReduceOps T :=
  dotOps S fm hsum a a

/-- `generic_euclidean`: the products are of the differences `a[i] - b[i]` -/
def euclidOps (S : ScalarSpec T) (fm : T → T → T → T) (hsum : (Nat → T) → T) (a b : Nat → T) : ReduceOps T :=
  dotOps S fm hsum (fun i => S.sub (a i) (b i)) (fun i => S.sub (a i) (b i))

/-- `generic_max_horizontal` -/
def maxOps (S : ScalarSpec T) (hmax : (Nat → T) → T) (a : Nat → T) : ReduceOps T where
  e := S.minVal
  lane := fun acc i => S.cmpMax acc (a i)
  roll := S.cmpMax
  hfold := hmax
  tail := fun v i => S.cmpMax v (a i)

/-- `generic_min_horizontal` -/
def minOps (S : ScalarSpec T) (hmin : (Nat → T) → T) (a : Nat → T) : ReduceOps T where
  e := S.maxVal
  lane := fun acc i => S.cmpMin acc (a i)
  roll := S.cmpMin
  hfold := hmin
  tail := fun v i => S.cmpMin v (a i)

variable {Reg : Type} {E : Env} {R : SimdRegister T Reg} {M : Math T} {L : Nat} {lanes : Reg → Nat → T}
variable {S : ScalarSpec T} {fm : T → T → T → T} {hsum hmax hmin : (Nat → T) → T}

/-- a horizontal fold looks at the `L` lanes of the register only -/
def FoldLocal (L : Nat) (hf : (Nat → T) → T) : Prop := ∀ f g : Nat → T, (∀ k, k < L → f k = g k) → hf f = hf g

/-- the part of the backend contract the four *sum-like* kernels use (no max/min: this is what the float register
types satisfy against the Rust-level scalar specification) -/
structure SumBackend (R : SimdRegister T Reg) (L : Nat) (lanes : Reg → Nat → T) (S : ScalarSpec T)
    (fm : T → T → T → T) (hsum : (Nat → T) → T) : Prop where
  mem : MemFaithful R L lanes
  zeroed_dense_ok : ∃ d, R.zeroed_dense = pure d ∧ ∀ k, k < L * 8 → dlanes L lanes d k = S.zero
  add : Lanewise2 L lanes S.add (fun _ => True) R.add R.add_dense
  sub : Lanewise2 L lanes S.sub (fun _ => True) R.sub R.sub_dense
  fmadd : Lanewise3 L lanes fm R.fmadd R.fmadd_dense
  sum : FoldFaithful L lanes S.add hsum R.sum_to_register R.sum_to_value

theorem SumBackend.of (AF : ArithFaithful R L lanes S) (RF : ReduceFaithful R L lanes S fm hsum hmax hmin) :
    SumBackend R L lanes S fm hsum :=
  ⟨AF.mem, RF.zeroed_dense_ok, AF.add, AF.sub, RF.fmadd, RF.sum⟩

/-- the scalar operations the sum-like kernels use in their tails -/
structure SumMath (M : Math T) (S : ScalarSpec T) : Prop where
  add : ∀ x y, M.add x y = pure (S.add x y)
  sub : ∀ x y, M.sub x y = pure (S.sub x y)
  mul : ∀ x y, M.mul x y = pure (S.mul x y)

theorem SumMath.of (MFa : MathFaithful M S) : SumMath M S := ⟨MFa.add, MFa.sub, MFa.mul⟩

section
variable (SB : SumBackend R L lanes S fm hsum) (SM : SumMath M S)
variable (dims : Nat) (hfuel : dims < E.fuel)
include SB SM hfuel

theorem sum' (hloc : FoldLocal L hsum) (a : Slice T) (ha : a.size = dims) :
    generic_sum E R M dims a = pure (reduceModel (sumOps S hsum a.get) L dims) := by
  rw [Thm.Shapes.sum, ha, debugAssertEq_self]
  simp only [pure_bind]
  apply reduce_lanewise_model (sumOps S hsum a.get) SB.mem.L_pos SB.mem.epd SB.mem.epl dims
    SB.zeroed_dense_ok ?_ (ReduceKernels.roll_tree SB.sum) ?_ SB.sum.to_value hloc ?_ hfuel
  · intro i acc hi
    obtain ⟨l1, e1, h1⟩ := SB.mem.load_dense_ok a i (by omega)
    obtain ⟨d, e2, h2⟩ := SB.add.dense acc l1 (fun _ _ => trivial)
    refine ⟨d, by rw [e1]; simp only [pure_bind]; exact e2, ?_⟩
    intro k hk
    rw [h2 k hk, h1 k hk]; rfl
  · intro i acc hi
    obtain ⟨l1, e1, h1⟩ := SB.mem.load_ok a i (by omega)
    obtain ⟨d, e2, h2⟩ := SB.add.single acc l1 (fun _ _ => trivial)
    refine ⟨d, by rw [e1]; simp only [pure_bind]; exact e2, ?_⟩
    intro k hk
    rw [h2 k hk, h1 k hk]; rfl
  · intro i v hi
    have : i < a.size := by omega
    simp only [Slice.read, this, if_true, pure_bind]
    exact SM.add _ _

theorem dot_product' (hloc : FoldLocal L hsum) (a b : Slice T) (ha : a.size = dims) (hb : b.size = dims) :
    generic_dot_product E R M dims a b = pure (reduceModel (dotOps S fm hsum a.get b.get) L dims) := by
  rw [Thm.Shapes.dot_product, ha, hb, debugAssertEq_self]
  simp only [pure_bind]
  apply reduce_lanewise_model (dotOps S fm hsum a.get b.get) SB.mem.L_pos SB.mem.epd SB.mem.epl dims
    SB.zeroed_dense_ok ?_ (ReduceKernels.roll_tree SB.sum) ?_ SB.sum.to_value hloc ?_ hfuel
  · intro i acc hi
    obtain ⟨l1, e1, h1⟩ := SB.mem.load_dense_ok a i (by omega)
    obtain ⟨l2, e1', h1'⟩ := SB.mem.load_dense_ok b i (by omega)
    obtain ⟨d, e2, h2⟩ := SB.fmadd.dense l1 l2 acc
    refine ⟨d, by rw [e1]; simp only [pure_bind]; rw [e1']; simp only [pure_bind]; exact e2, ?_⟩
    intro k hk
    rw [h2 k hk, h1 k hk, h1' k hk]; rfl
  · intro i acc hi
    obtain ⟨l1, e1, h1⟩ := SB.mem.load_ok a i (by omega)
    obtain ⟨l2, e1', h1'⟩ := SB.mem.load_ok b i (by omega)
    obtain ⟨d, e2, h2⟩ := SB.fmadd.single l1 l2 acc
    refine ⟨d, by rw [e1]; simp only [pure_bind]; rw [e1']; simp only [pure_bind]; exact e2, ?_⟩
    intro k hk
    rw [h2 k hk, h1 k hk, h1' k hk]; rfl
  · intro i v hi
    have h1 : i < a.size := by omega
    have h2 : i < b.size := by omega
    simp only [Slice.read, h1, h2, if_true, pure_bind]
    rw [SM.mul]; simp only [pure_bind]
    exact SM.add _ _

theorem squared_norm' (hloc : FoldLocal L hsum) (a : Slice T) (ha : a.size = dims) :
    generic_squared_norm E R M dims a = pure (reduceModel (normOps S fm hsum a.get) L dims) := by
  rw [Thm.Shapes.squared_norm, ha, debugAssertEq_self]
  simp only [pure_bind]
  apply reduce_lanewise_model (normOps S fm hsum a.get) SB.mem.L_pos SB.mem.epd SB.mem.epl dims
    SB.zeroed_dense_ok ?_ (ReduceKernels.roll_tree SB.sum) ?_ SB.sum.to_value hloc ?_ hfuel
  · intro i acc hi
    obtain ⟨l1, e1, h1⟩ := SB.mem.load_dense_ok a i (by omega)
    obtain ⟨d, e2, h2⟩ := SB.fmadd.dense l1 l1 acc
    refine ⟨d, by rw [e1]; simp only [pure_bind]; exact e2, ?_⟩
    intro k hk
    rw [h2 k hk, h1 k hk]; rfl
  · intro i acc hi
    obtain ⟨l1, e1, h1⟩ := SB.mem.load_ok a i (by omega)
    obtain ⟨d, e2, h2⟩ := SB.fmadd.single l1 l1 acc
    refine ⟨d, by rw [e1]; simp only [pure_bind]; exact e2, ?_⟩
    intro k hk
    rw [h2 k hk, h1 k hk]; rfl
  · intro i v hi
    have : i < a.size := by omega
    simp only [Slice.read, this, if_true, pure_bind]
    rw [SM.mul]; simp only [pure_bind]
    exact SM.add _ _

theorem euclidean' (hloc : FoldLocal L hsum) (a b : Slice T) (ha : a.size = dims) (hb : b.size = dims) :
    generic_euclidean E R M dims a b = pure (reduceModel (euclidOps S fm hsum a.get b.get) L dims) := by
  rw [Thm.Shapes.euclidean, ha, hb, debugAssertEq_self]
  simp only [pure_bind]
  apply reduce_lanewise_model (euclidOps S fm hsum a.get b.get) SB.mem.L_pos SB.mem.epd SB.mem.epl dims
    SB.zeroed_dense_ok ?_ (ReduceKernels.roll_tree SB.sum) ?_ SB.sum.to_value hloc ?_ hfuel
  · intro i acc hi
    obtain ⟨l1, e1, h1⟩ := SB.mem.load_dense_ok a i (by omega)
    obtain ⟨l2, e1', h1'⟩ := SB.mem.load_dense_ok b i (by omega)
    obtain ⟨df, e3, h3⟩ := SB.sub.dense l1 l2 (fun _ _ => trivial)
    obtain ⟨d, e2, h2⟩ := SB.fmadd.dense df df acc
    refine ⟨d, by
      rw [e1]; simp only [pure_bind]; rw [e1']; simp only [pure_bind]
      rw [e3]; simp only [pure_bind]; exact e2, ?_⟩
    intro k hk
    rw [h2 k hk, h3 k hk, h1 k hk, h1' k hk]; rfl
  · intro i acc hi
    obtain ⟨l1, e1, h1⟩ := SB.mem.load_ok a i (by omega)
    obtain ⟨l2, e1', h1'⟩ := SB.mem.load_ok b i (by omega)
    obtain ⟨df, e3, h3⟩ := SB.sub.single l1 l2 (fun _ _ => trivial)
    obtain ⟨d, e2, h2⟩ := SB.fmadd.single df df acc
    refine ⟨d, by
      rw [e1]; simp only [pure_bind]; rw [e1']; simp only [pure_bind]
      rw [e3]; simp only [pure_bind]; exact e2, ?_⟩
    intro k hk
    rw [h2 k hk, h3 k hk, h1 k hk, h1' k hk]; rfl
  · intro i v hi
    have h1 : i < a.size := by omega
    have h2 : i < b.size := by omega
    simp only [Slice.read, h1, h2, if_true, pure_bind]
    rw [SM.sub]; simp only [pure_bind]
    rw [SM.mul]; simp only [pure_bind]
    exact SM.add _ _

end

section
variable (AF : ArithFaithful R L lanes S) (RF : ReduceFaithful R L lanes S fm hsum hmax hmin) (MFa : MathFaithful M S)
variable (dims : Nat) (hfuel : dims < E.fuel)
include AF RF MFa hfuel

theorem sum (hloc : FoldLocal L hsum) (a : Slice T) (ha : a.size = dims) :
    generic_sum E R M dims a = pure (reduceModel (sumOps S hsum a.get) L dims) :=
  sum' (SumBackend.of AF RF) (SumMath.of MFa) dims hfuel hloc a ha
theorem dot_product (hloc : FoldLocal L hsum) (a b : Slice T) (ha : a.size = dims) (hb : b.size = dims) :
    generic_dot_product E R M dims a b = pure (reduceModel (dotOps S fm hsum a.get b.get) L dims) :=
  dot_product' (SumBackend.of AF RF) (SumMath.of MFa) dims hfuel hloc a b ha hb
theorem squared_norm (hloc : FoldLocal L hsum) (a : Slice T) (ha : a.size = dims) :
    generic_squared_norm E R M dims a = pure (reduceModel (normOps S fm hsum a.get) L dims) :=
  squared_norm' (SumBackend.of AF RF) (SumMath.of MFa) dims hfuel hloc a ha
theorem euclidean (hloc : FoldLocal L hsum) (a b : Slice T) (ha : a.size = dims) (hb : b.size = dims) :
    generic_euclidean E R M dims a b = pure (reduceModel (euclidOps S fm hsum a.get b.get) L dims) :=
  euclidean' (SumBackend.of AF RF) (SumMath.of MFa) dims hfuel hloc a b ha hb

theorem max_horizontal (hloc : FoldLocal L hmax) (a : Slice T) (ha : a.size = dims) :
    generic_max_horizontal E R M dims a = pure (reduceModel (maxOps S hmax a.get) L dims) := by
  rw [Thm.Shapes.max_horizontal, ha, debugAssertEq_self]
  simp only [pure_bind]
  apply reduce_lanewise_model (maxOps S hmax a.get) AF.mem.L_pos AF.mem.epd AF.mem.epl dims
    ?_ ?_ (ReduceKernels.roll_tree RF.max) ?_ RF.max.to_value hloc ?_ hfuel
  · obtain ⟨d, e, h, _⟩ := AF.bcast.filled_dense_ok S.minVal
    exact ⟨d, by rw [MFa.min]; simp only [pure_bind]; exact e, h⟩
  · intro i acc hi
    obtain ⟨l1, e1, h1⟩ := AF.mem.load_dense_ok a i (by omega)
    obtain ⟨d, e2, h2⟩ := AF.max.dense acc l1 (fun _ _ => trivial)
    refine ⟨d, by rw [e1]; simp only [pure_bind]; exact e2, ?_⟩
    intro k hk
    rw [h2 k hk, h1 k hk]; rfl
  · intro i acc hi
    obtain ⟨l1, e1, h1⟩ := AF.mem.load_ok a i (by omega)
    obtain ⟨d, e2, h2⟩ := AF.max.single acc l1 (fun _ _ => trivial)
    refine ⟨d, by rw [e1]; simp only [pure_bind]; exact e2, ?_⟩
    intro k hk
    rw [h2 k hk, h1 k hk]; rfl
  · intro i v hi
    have : i < a.size := by omega
    simp only [Slice.read, this, if_true, pure_bind]
    exact MFa.cmp_max _ _

theorem min_horizontal (hloc : FoldLocal L hmin) (a : Slice T) (ha : a.size = dims) :
    generic_min_horizontal E R M dims a = pure (reduceModel (minOps S hmin a.get) L dims) := by
  rw [Thm.Shapes.min_horizontal, ha, debugAssertEq_self]
  simp only [pure_bind]
  apply reduce_lanewise_model (minOps S hmin a.get) AF.mem.L_pos AF.mem.epd AF.mem.epl dims
    ?_ ?_ (ReduceKernels.roll_tree RF.min) ?_ RF.min.to_value hloc ?_ hfuel
  · obtain ⟨d, e, h, _⟩ := AF.bcast.filled_dense_ok S.maxVal
    exact ⟨d, by rw [MFa.max]; simp only [pure_bind]; exact e, h⟩
  · intro i acc hi
    obtain ⟨l1, e1, h1⟩ := AF.mem.load_dense_ok a i (by omega)
    obtain ⟨d, e2, h2⟩ := AF.min.dense acc l1 (fun _ _ => trivial)
    refine ⟨d, by rw [e1]; simp only [pure_bind]; exact e2, ?_⟩
    intro k hk
    rw [h2 k hk, h1 k hk]; rfl
  · intro i acc hi
    obtain ⟨l1, e1, h1⟩ := AF.mem.load_ok a i (by omega)
    obtain ⟨d, e2, h2⟩ := AF.min.single acc l1 (fun _ _ => trivial)
    refine ⟨d, by rw [e1]; simp only [pure_bind]; exact e2, ?_⟩
    intro k hk
    rw [h2 k hk, h1 k hk]; rfl
  · intro i v hi
    have : i < a.size := by omega
    simp only [Slice.read, this, if_true, pure_bind]
    exact MFa.cmp_min _ _

end

/-! ### horizontal max / min with distinct lane and tail operations (x86 floats: `maxps` in the lanes, Rust `max` in the
tail and in part of the horizontal fold) -/

/-- `generic_max_horizontal` / `generic_min_horizontal` with lane operation `vop`, tail operation `top`, seed `e` -/
def extOps (e : T) (vop top : T → T → T) (hfold : (Nat → T) → T) (a : Nat → T) : ReduceOps T where
  e := e
  lane := fun acc i => vop acc (a i)
  roll := vop
  hfold := hfold
  tail := fun v i => top v (a i)

/-- what the horizontal-extreme kernels need from a backend -/
structure ExtBackend (R : SimdRegister T Reg) (L : Nat) (lanes : Reg → Nat → T) (vop : T → T → T)
    (hfold : (Nat → T) → T) (opR : Reg → Reg → Exec Reg) (opD : DenseLane Reg → DenseLane Reg → Exec (DenseLane Reg))
    (toReg : DenseLane Reg → Exec Reg) (toValue : Reg → Exec T) : Prop where
  mem : MemFaithful R L lanes
  bcast : BroadcastFaithful R L lanes
  op : Lanewise2 L lanes vop (fun _ => True) opR opD
  fold : FoldFaithful L lanes vop hfold toReg toValue

section
variable {vop top : T → T → T} {e : T} {hext : (Nat → T) → T}
variable (dims : Nat) (hfuel : dims < E.fuel)
include hfuel

theorem max_horizontal' (EB : ExtBackend R L lanes vop hext R.max R.max_dense R.max_to_register R.max_to_value)
    (hseed : M.min = pure e) (hcmp : ∀ x y, M.cmp_max x y = pure (top x y))
    (hloc : FoldLocal L hext) (a : Slice T) (ha : a.size = dims) :
    generic_max_horizontal E R M dims a = pure (reduceModel (extOps e vop top hext a.get) L dims) := by
  rw [Thm.Shapes.max_horizontal, ha, debugAssertEq_self]
  simp only [pure_bind]
  apply reduce_lanewise_model (extOps e vop top hext a.get) EB.mem.L_pos EB.mem.epd EB.mem.epl dims
    ?_ ?_ (ReduceKernels.roll_tree EB.fold) ?_ EB.fold.to_value hloc ?_ hfuel
  · obtain ⟨d, e', h, _⟩ := EB.bcast.filled_dense_ok e
    exact ⟨d, by rw [hseed]; simp only [pure_bind]; exact e', h⟩
  · intro i acc hi
    obtain ⟨l1, e1, h1⟩ := EB.mem.load_dense_ok a i (by omega)
    obtain ⟨d, e2, h2⟩ := EB.op.dense acc l1 (fun _ _ => trivial)
    refine ⟨d, by rw [e1]; simp only [pure_bind]; exact e2, ?_⟩
    intro k hk
    rw [h2 k hk, h1 k hk]; rfl
  · intro i acc hi
    obtain ⟨l1, e1, h1⟩ := EB.mem.load_ok a i (by omega)
    obtain ⟨d, e2, h2⟩ := EB.op.single acc l1 (fun _ _ => trivial)
    refine ⟨d, by rw [e1]; simp only [pure_bind]; exact e2, ?_⟩
    intro k hk
    rw [h2 k hk, h1 k hk]; rfl
  · intro i v hi
    have : i < a.size := by omega
    simp only [Slice.read, this, if_true, pure_bind]
    exact hcmp _ _

theorem min_horizontal' (EB : ExtBackend R L lanes vop hext R.min R.min_dense R.min_to_register R.min_to_value)
    (hseed : M.max = pure e) (hcmp : ∀ x y, M.cmp_min x y = pure (top x y))
    (hloc : FoldLocal L hext) (a : Slice T) (ha : a.size = dims) :
    generic_min_horizontal E R M dims a = pure (reduceModel (extOps e vop top hext a.get) L dims) := by
  rw [Thm.Shapes.min_horizontal, ha, debugAssertEq_self]
  simp only [pure_bind]
  apply reduce_lanewise_model (extOps e vop top hext a.get) EB.mem.L_pos EB.mem.epd EB.mem.epl dims
    ?_ ?_ (ReduceKernels.roll_tree EB.fold) ?_ EB.fold.to_value hloc ?_ hfuel
  · obtain ⟨d, e', h, _⟩ := EB.bcast.filled_dense_ok e
    exact ⟨d, by rw [hseed]; simp only [pure_bind]; exact e', h⟩
  · intro i acc hi
    obtain ⟨l1, e1, h1⟩ := EB.mem.load_dense_ok a i (by omega)
    obtain ⟨d, e2, h2⟩ := EB.op.dense acc l1 (fun _ _ => trivial)
    refine ⟨d, by rw [e1]; simp only [pure_bind]; exact e2, ?_⟩
    intro k hk
    rw [h2 k hk, h1 k hk]; rfl
  · intro i acc hi
    obtain ⟨l1, e1, h1⟩ := EB.mem.load_ok a i (by omega)
    obtain ⟨d, e2, h2⟩ := EB.op.single acc l1 (fun _ _ => trivial)
    refine ⟨d, by rw [e1]; simp only [pure_bind]; exact e2, ?_⟩
    intro k hk
    rw [h2 k hk, h1 k hk]; rfl
  · intro i v hi
    have : i < a.size := by omega
    simp only [Slice.read, this, if_true, pure_bind]
    exact hcmp _ _

end

end KernelModel
end Cfavml
