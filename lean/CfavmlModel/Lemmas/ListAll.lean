/-! Lifting Boolean checks over chunked tables to `∀ row ∈ table` statements. -/
namespace Cfavml

theorem all_flatten_of_all_chunks {α : Type} (p : α → Bool) (chunks : List (List α))
    (h : chunks.all (fun c => c.all p) = true) : ∀ r ∈ chunks.flatten, p r = true := by
  intro r hr
  rw [List.mem_flatten] at hr
  obtain ⟨c, hc, hrc⟩ := hr
  have h1 := List.all_eq_true.mp h c hc
  exact List.all_eq_true.mp h1 r hrc

theorem forall_mem_of_all {α : Type} (p : α → Bool) (l : List α) (h : l.all p = true) :
    ∀ r ∈ l, p r = true := fun r hr => List.all_eq_true.mp h r hr

end Cfavml
