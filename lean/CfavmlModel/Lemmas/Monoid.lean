/-
Finite sums in a commutative monoid given by an operation and a unit (no type classes, no Mathlib):
`sumR op e f n = f 0 ⊕ f 1 ⊕ … ⊕ f (n-1)`.
Instantiated with wrapping `+` on `BitVec w` (C03) and with signed/unsigned `max`/`min` (C05).
-/
namespace Cfavml

structure CommMonoidOn {T : Type} (op : T → T → T) (e : T) : Prop where
  assoc : ∀ x y z, op (op x y) z = op x (op y z)
  comm : ∀ x y, op x y = op y x
  id_left : ∀ x, op e x = x

namespace CommMonoidOn
variable {T : Type} {op : T → T → T} {e : T}

theorem id_right (h : CommMonoidOn op e) (x : T) : op x e = x := by rw [h.comm, h.id_left]

/-- `(a ⊕ b) ⊕ (c ⊕ d) = (a ⊕ c) ⊕ (b ⊕ d)` -/
theorem swap4 (h : CommMonoidOn op e) (a b c d : T) : op (op a b) (op c d) = op (op a c) (op b d) := by
  rw [h.assoc, h.assoc, ← h.assoc b c d, h.comm b c, h.assoc c b d]

end CommMonoidOn

/-- `f 0 ⊕ … ⊕ f (n-1)` -/
def sumR {T : Type} (op : T → T → T) (e : T) (f : Nat → T) : Nat → T
  | 0 => e
  | n + 1 => op (sumR op e f n) (f n)

section
variable {T : Type} {op : T → T → T} {e : T}

@[simp] theorem sumR_zero (f : Nat → T) : sumR op e f 0 = e := rfl
theorem sumR_succ (f : Nat → T) (n : Nat) : sumR op e f (n + 1) = op (sumR op e f n) (f n) := rfl

theorem sumR_congr (f g : Nat → T) (n : Nat) (h : ∀ k, k < n → f k = g k) : sumR op e f n = sumR op e g n := by
  induction n with
  | zero => rfl
  | succ n ih =>
    rw [sumR_succ, sumR_succ, ih (fun k hk => h k (by omega)), h n (by omega)]

theorem sumR_const_e (hm : CommMonoidOn op e) (n : Nat) : sumR op e (fun _ => e) n = e := by
  induction n with
  | zero => rfl
  | succ n ih => rw [sumR_succ, ih, hm.id_left]

/-- `Σ (f k ⊕ g k) = Σ f k ⊕ Σ g k` -/
theorem sumR_distrib (hm : CommMonoidOn op e) (f g : Nat → T) (n : Nat) :
    sumR op e (fun k => op (f k) (g k)) n = op (sumR op e f n) (sumR op e g n) := by
  induction n with
  | zero => simp [hm.id_left]
  | succ n ih => rw [sumR_succ, sumR_succ, sumR_succ, ih, hm.swap4]

/-- `Σ_{k<n+m} f k = Σ_{k<n} f k ⊕ Σ_{k<m} f (n+k)` -/
theorem sumR_append (hm : CommMonoidOn op e) (f : Nat → T) (n m : Nat) :
    sumR op e f (n + m) = op (sumR op e f n) (sumR op e (fun k => f (n + k)) m) := by
  induction m with
  | zero => simp [hm.id_right]
  | succ m ih =>
    rw [← Nat.add_assoc, sumR_succ, sumR_succ, ih, hm.assoc]

theorem sumR_one (hm : CommMonoidOn op e) (f : Nat → T) : sumR op e f 1 = f 0 := by
  rw [sumR_succ, sumR_zero, hm.id_left]

/-- sum over `q` blocks of `L`: `Σ_{k<q·L} f k = Σ_{j<q} Σ_{k<L} f (j·L+k)` -/
theorem sumR_blocks (hm : CommMonoidOn op e) (f : Nat → T) (L q : Nat) :
    sumR op e f (q * L) = sumR op e (fun j => sumR op e (fun k => f (j * L + k)) L) q := by
  induction q with
  | zero => simp
  | succ q ih =>
    rw [Nat.succ_mul, sumR_append hm, ih, sumR_succ]

end
end Cfavml

namespace Cfavml
section
variable {T : Type} {op : T → T → T} {e : T}

/-- exchange the order of a double sum -/
theorem sumR_swap (hm : CommMonoidOn op e) (f : Nat → Nat → T) (n m : Nat) :
    sumR op e (fun k => sumR op e (fun q => f q k) n) m = sumR op e (fun q => sumR op e (fun k => f q k) m) n := by
  induction n with
  | zero => simp [sumR_const_e hm]
  | succ n ih =>
    have h1 : (fun k => sumR op e (fun q => f q k) (n + 1))
        = (fun k => op (sumR op e (fun q => f q k) n) (f n k)) := by
      funext k; rfl
    rw [h1, sumR_distrib hm, ih, sumR_succ]

/-- the roll-up tree of `sum_to_register` / `max_to_register` / `min_to_register` -/
def tree8 (op : T → T → T) (g : Nat → T) : T :=
  op (op (op (g 0) (g 1)) (op (g 2) (g 3))) (op (op (g 4) (g 5)) (op (g 6) (g 7)))

theorem tree8_eq_sumR (hm : CommMonoidOn op e) (g : Nat → T) : tree8 op g = sumR op e g 8 := by
  simp only [tree8, sumR, hm.id_left, hm.assoc]

end
end Cfavml
