/-
The commutative monoids on `BitVec w` the reductions run in: wrapping addition, and signed / unsigned
max / min with the type minimum / maximum as unit; and what their finite sums mean.
-/
import CfavmlModel.Lemmas.Monoid
import CfavmlModel.Prim.Scalar

namespace Cfavml
open IntPrim

theorem add_monoid (w : Nat) : CommMonoidOn (fun (x y : BitVec w) => x + y) 0 :=
  ⟨BitVec.add_assoc, BitVec.add_comm, BitVec.zero_add⟩

theorem smax_eq {w : Nat} (a b : BitVec w) : smax a b = if a.toInt < b.toInt then b else a := by
  simp [smax, BitVec.slt]
theorem smin_eq {w : Nat} (a b : BitVec w) : smin a b = if b.toInt < a.toInt then b else a := by
  simp [smin, BitVec.slt]
theorem umax_eq {w : Nat} (a b : BitVec w) : umax a b = if a.toNat < b.toNat then b else a := by
  simp [umax, BitVec.ult]
theorem umin_eq {w : Nat} (a b : BitVec w) : umin a b = if b.toNat < a.toNat then b else a := by
  simp [umin, BitVec.ult]

theorem toInt_intMin' {w : Nat} (hw : 0 < w) : (BitVec.intMin w).toInt = -((2 ^ (w - 1) : Nat) : Int) := by
  have hlt : 2 ^ (w - 1) < 2 ^ w := Nat.pow_lt_pow_right (by decide) (by omega)
  rw [BitVec.toInt_intMin, Nat.mod_eq_of_lt hlt]

theorem smax_monoid {w : Nat} (hw : 0 < w) : CommMonoidOn (smax : BitVec w → _) (BitVec.intMin w) := by
  refine ⟨?_, ?_, ?_⟩
  · intro x y z
    simp only [smax_eq]
    by_cases h1 : x.toInt < y.toInt <;> by_cases h2 : y.toInt < z.toInt <;> by_cases h3 : x.toInt < z.toInt <;>
      simp [h1, h2, h3] <;> omega
  · intro x y
    simp only [smax_eq]
    by_cases h1 : x.toInt < y.toInt <;> by_cases h2 : y.toInt < x.toInt <;> simp [h1, h2]
    · omega
    · exact BitVec.eq_of_toInt_eq (by omega)
  · intro x
    simp only [smax_eq]
    have h1 := toInt_intMin' hw
    have h3 := @BitVec.le_toInt w x
    by_cases h : (BitVec.intMin w).toInt < x.toInt
    · rw [if_pos h]
    · rw [if_neg h]
      apply BitVec.eq_of_toInt_eq
      rw [h1] at h ⊢
      push_cast at h ⊢
      omega

theorem smin_monoid {w : Nat} (hw : 0 < w) : CommMonoidOn (smin : BitVec w → _) (BitVec.intMax w) := by
  refine ⟨?_, ?_, ?_⟩
  · intro x y z
    simp only [smin_eq]
    by_cases h1 : y.toInt < x.toInt <;> by_cases h2 : z.toInt < y.toInt <;> by_cases h3 : z.toInt < x.toInt <;>
      simp [h1, h2, h3] <;> omega
  · intro x y
    simp only [smin_eq]
    by_cases h1 : x.toInt < y.toInt <;> by_cases h2 : y.toInt < x.toInt <;> simp [h1, h2]
    · omega
    · exact BitVec.eq_of_toInt_eq (by omega)
  · intro x
    simp only [smin_eq]
    have h2 := @BitVec.toInt_intMax w
    have h4 := @BitVec.toInt_lt w x
    by_cases h : x.toInt < (BitVec.intMax w).toInt
    · rw [if_pos h]
    · rw [if_neg h]
      apply BitVec.eq_of_toInt_eq
      omega

theorem umax_monoid (w : Nat) : CommMonoidOn (umax : BitVec w → _) 0 := by
  refine ⟨?_, ?_, ?_⟩
  · intro x y z
    simp only [umax_eq]
    by_cases h1 : x.toNat < y.toNat <;> by_cases h2 : y.toNat < z.toNat <;> by_cases h3 : x.toNat < z.toNat <;>
      simp [h1, h2, h3] <;> omega
  · intro x y
    simp only [umax_eq]
    by_cases h1 : x.toNat < y.toNat <;> by_cases h2 : y.toNat < x.toNat <;> simp [h1, h2]
    · omega
    · exact BitVec.eq_of_toNat_eq (by omega)
  · intro x
    simp only [umax_eq]
    by_cases h : (0 : BitVec w).toNat < x.toNat
    · rw [if_pos h]
    · rw [if_neg h]
      apply BitVec.eq_of_toNat_eq
      have h0 : (0 : BitVec w).toNat = 0 := by simp
      omega

theorem umin_monoid (w : Nat) : CommMonoidOn (umin : BitVec w → _) (BitVec.allOnes w) := by
  refine ⟨?_, ?_, ?_⟩
  · intro x y z
    simp only [umin_eq]
    by_cases h1 : y.toNat < x.toNat <;> by_cases h2 : z.toNat < y.toNat <;> by_cases h3 : z.toNat < x.toNat <;>
      simp [h1, h2, h3] <;> omega
  · intro x y
    simp only [umin_eq]
    by_cases h1 : x.toNat < y.toNat <;> by_cases h2 : y.toNat < x.toNat <;> simp [h1, h2]
    · omega
    · exact BitVec.eq_of_toNat_eq (by omega)
  · intro x
    simp only [umin_eq]
    have hx := x.isLt
    by_cases h : x.toNat < (BitVec.allOnes w).toNat
    · rw [if_pos h]
    · rw [if_neg h]
      apply BitVec.eq_of_toNat_eq
      rw [BitVec.toNat_allOnes] at h ⊢
      omega

theorem ofInt_sub' {w : Nat} (x y : Int) : BitVec.ofInt w (x - y) = BitVec.ofInt w x - BitVec.ofInt w y := by
  rw [Int.sub_eq_add_neg, BitVec.ofInt_add, BitVec.ofInt_neg, BitVec.sub_eq_add_neg]

/-! ### what the sums are -/

/-- integer sum `g 0 + … + g (n-1)` -/
def isum (g : Nat → Int) : Nat → Int
  | 0 => 0
  | n + 1 => isum g n + g n

/-- the wrapping sum is the exact integer sum reduced modulo `2^w` -/
theorem sumR_add_exact {w : Nat} (f : Nat → BitVec w) (g : Nat → Int) (hg : ∀ k, f k = BitVec.ofInt w (g k))
    (n : Nat) : sumR (fun (x y : BitVec w) => x + y) 0 f n = BitVec.ofInt w (isum g n) := by
  induction n with
  | zero => simp [isum]
  | succ n ih => rw [sumR_succ, ih, hg n, isum, BitVec.ofInt_add]

/-- a fold with an operation that returns one of its arguments returns the unit on the empty range and
one of the elements otherwise -/
theorem sumR_select {T : Type} {op : T → T → T} {e : T} (hsel : ∀ x y, op x y = x ∨ op x y = y)
    (f : Nat → T) (n : Nat) : sumR op e f n = e ∨ ∃ k, k < n ∧ sumR op e f n = f k := by
  induction n with
  | zero => left; rfl
  | succ n ih =>
    rw [sumR_succ]
    rcases hsel (sumR op e f n) (f n) with h | h
    · rw [h]
      rcases ih with h1 | ⟨k, hk, h1⟩
      · left; exact h1
      · right; exact ⟨k, by omega, h1⟩
    · right; exact ⟨n, by omega, h⟩

/-- a fold with an upper-bound operation bounds every element -/
theorem sumR_upper {T : Type} {op : T → T → T} {e : T} (le : T → T → Prop)
    (hrefl : ∀ x, le x x) (htrans : ∀ x y z, le x y → le y z → le x z)
    (hl : ∀ x y, le x (op x y)) (hr : ∀ x y, le y (op x y))
    (f : Nat → T) (n : Nat) : le e (sumR op e f n) ∧ ∀ k, k < n → le (f k) (sumR op e f n) := by
  induction n with
  | zero => exact ⟨hrefl _, fun k hk => by omega⟩
  | succ n ih =>
    rw [sumR_succ]
    refine ⟨htrans _ _ _ ih.1 (hl _ _), ?_⟩
    intro k hk
    by_cases h : k = n
    · subst h; exact hr _ _
    · exact htrans _ _ _ (ih.2 k (by omega)) (hl _ _)

end Cfavml
