/-
The six reduction kernels, for an arbitrary backend meeting the lane-wise contracts, over a commutative
monoid: wrapping `+` (C03) and `max` / `min` (C05).
-/
import CfavmlModel.Thm.KernelShapes
import CfavmlModel.Spec.Backend

namespace Cfavml
namespace ReduceKernels

variable {T Reg : Type} {E : Env} {R : SimdRegister T Reg} {M : Math T} {L : Nat} {lanes : Reg → Nat → T}
variable {S : ScalarSpec T} {fm : T → T → T → T} {hsum hmax hmin : (Nat → T) → T}

theorem roll_tree {op : T → T → T} {hf : (Nat → T) → T} {toReg : DenseLane Reg → Exec Reg} {toValue : Reg → Exec T}
    (FF : FoldFaithful L lanes op hf toReg toValue) :
    ∀ d, ∃ r, toReg d = pure r ∧ ∀ k, k < L → lanes r k = tree8 op (fun q => lanes (d.nth q) k) := by
  intro d
  obtain ⟨r, e, h⟩ := FF.to_register d
  exact ⟨r, e, fun k hk => by rw [h k hk]; rfl⟩

section sums
variable (hm : CommMonoidOn S.add S.zero) (AF : ArithFaithful R L lanes S)
variable (RF : ReduceFaithful R L lanes S fm hsum hmax hmin) (MFa : MathFaithful M S)
variable (hh : ∀ f, hsum f = sumR S.add S.zero f L)
variable (dims : Nat) (hfuel : dims < E.fuel)
include hm AF RF MFa hh hfuel

/-- horizontal sum -/
theorem sum (a : Slice T) (ha : a.size = dims) :
    generic_sum E R M dims a = pure (sumR S.add S.zero a.get dims) := by
  rw [Thm.Shapes.sum, ha, debugAssertEq_self]
  simp only [pure_bind]
  apply reduce_lanewise_spec hm AF.mem.L_pos AF.mem.epd AF.mem.epl a.get dims hsum
    RF.zeroed_dense_ok ?_ (roll_tree RF.sum) ?_ RF.sum.to_value hh ?_ hfuel
  · intro i acc hi
    obtain ⟨l1, e1, h1⟩ := AF.mem.load_dense_ok a i (by omega)
    obtain ⟨d, e2, h2⟩ := AF.add.dense acc l1 (fun _ _ => trivial)
    refine ⟨d, by rw [e1]; simp only [pure_bind]; exact e2, ?_⟩
    intro k hk
    rw [h2 k hk, h1 k hk]
  · intro i acc hi
    obtain ⟨l1, e1, h1⟩ := AF.mem.load_ok a i (by omega)
    obtain ⟨d, e2, h2⟩ := AF.add.single acc l1 (fun _ _ => trivial)
    refine ⟨d, by rw [e1]; simp only [pure_bind]; exact e2, ?_⟩
    intro k hk
    rw [h2 k hk, h1 k hk]
  · intro i v hi
    have : i < a.size := by omega
    simp only [Slice.read, this, if_true, pure_bind]
    exact MFa.add _ _

variable (hfm : ∀ x y acc, fm x y acc = S.add (S.mul x y) acc)
include hfm

/-- squared L2 norm -/
theorem squared_norm (a : Slice T) (ha : a.size = dims) :
    generic_squared_norm E R M dims a = pure (sumR S.add S.zero (fun j => S.mul (a.get j) (a.get j)) dims) := by
  rw [Thm.Shapes.squared_norm, ha, debugAssertEq_self]
  simp only [pure_bind]
  apply reduce_lanewise_spec hm AF.mem.L_pos AF.mem.epd AF.mem.epl (fun j => S.mul (a.get j) (a.get j)) dims hsum
    RF.zeroed_dense_ok ?_ (roll_tree RF.sum) ?_ RF.sum.to_value hh ?_ hfuel
  · intro i acc hi
    obtain ⟨l1, e1, h1⟩ := AF.mem.load_dense_ok a i (by omega)
    obtain ⟨d, e2, h2⟩ := RF.fmadd.dense l1 l1 acc
    refine ⟨d, by rw [e1]; simp only [pure_bind]; exact e2, ?_⟩
    intro k hk
    rw [h2 k hk, h1 k hk, hfm, hm.comm]
  · intro i acc hi
    obtain ⟨l1, e1, h1⟩ := AF.mem.load_ok a i (by omega)
    obtain ⟨d, e2, h2⟩ := RF.fmadd.single l1 l1 acc
    refine ⟨d, by rw [e1]; simp only [pure_bind]; exact e2, ?_⟩
    intro k hk
    rw [h2 k hk, h1 k hk, hfm, hm.comm]
  · intro i v hi
    have : i < a.size := by omega
    simp only [Slice.read, this, if_true, pure_bind]
    rw [MFa.mul]; simp only [pure_bind]
    exact MFa.add _ _

/-- dot product -/
theorem dot_product (a b : Slice T) (ha : a.size = dims) (hb : b.size = dims) :
    generic_dot_product E R M dims a b = pure (sumR S.add S.zero (fun j => S.mul (a.get j) (b.get j)) dims) := by
  rw [Thm.Shapes.dot_product, ha, hb, debugAssertEq_self]
  simp only [pure_bind]
  apply reduce_lanewise_spec hm AF.mem.L_pos AF.mem.epd AF.mem.epl (fun j => S.mul (a.get j) (b.get j)) dims hsum
    RF.zeroed_dense_ok ?_ (roll_tree RF.sum) ?_ RF.sum.to_value hh ?_ hfuel
  · intro i acc hi
    obtain ⟨l1, e1, h1⟩ := AF.mem.load_dense_ok a i (by omega)
    obtain ⟨l2, e1', h1'⟩ := AF.mem.load_dense_ok b i (by omega)
    obtain ⟨d, e2, h2⟩ := RF.fmadd.dense l1 l2 acc
    refine ⟨d, by rw [e1]; simp only [pure_bind]; rw [e1']; simp only [pure_bind]; exact e2, ?_⟩
    intro k hk
    rw [h2 k hk, h1 k hk, h1' k hk, hfm, hm.comm]
  · intro i acc hi
    obtain ⟨l1, e1, h1⟩ := AF.mem.load_ok a i (by omega)
    obtain ⟨l2, e1', h1'⟩ := AF.mem.load_ok b i (by omega)
    obtain ⟨d, e2, h2⟩ := RF.fmadd.single l1 l2 acc
    refine ⟨d, by rw [e1]; simp only [pure_bind]; rw [e1']; simp only [pure_bind]; exact e2, ?_⟩
    intro k hk
    rw [h2 k hk, h1 k hk, h1' k hk, hfm, hm.comm]
  · intro i v hi
    have h1 : i < a.size := by omega
    have h2 : i < b.size := by omega
    simp only [Slice.read, h1, h2, if_true, pure_bind]
    rw [MFa.mul]; simp only [pure_bind]
    exact MFa.add _ _

/-- squared Euclidean distance -/
theorem euclidean (a b : Slice T) (ha : a.size = dims) (hb : b.size = dims) :
    generic_euclidean E R M dims a b
      = pure (sumR S.add S.zero (fun j => S.mul (S.sub (a.get j) (b.get j)) (S.sub (a.get j) (b.get j))) dims) := by
  rw [Thm.Shapes.euclidean, ha, hb, debugAssertEq_self]
  simp only [pure_bind]
  apply reduce_lanewise_spec hm AF.mem.L_pos AF.mem.epd AF.mem.epl
    (fun j => S.mul (S.sub (a.get j) (b.get j)) (S.sub (a.get j) (b.get j))) dims hsum
    RF.zeroed_dense_ok ?_ (roll_tree RF.sum) ?_ RF.sum.to_value hh ?_ hfuel
  · intro i acc hi
    obtain ⟨l1, e1, h1⟩ := AF.mem.load_dense_ok a i (by omega)
    obtain ⟨l2, e1', h1'⟩ := AF.mem.load_dense_ok b i (by omega)
    obtain ⟨df, e3, h3⟩ := AF.sub.dense l1 l2 (fun _ _ => trivial)
    obtain ⟨d, e2, h2⟩ := RF.fmadd.dense df df acc
    refine ⟨d, by
      rw [e1]; simp only [pure_bind]; rw [e1']; simp only [pure_bind]
      rw [e3]; simp only [pure_bind]; exact e2, ?_⟩
    intro k hk
    rw [h2 k hk, h3 k hk, h1 k hk, h1' k hk, hfm, hm.comm]
  · intro i acc hi
    obtain ⟨l1, e1, h1⟩ := AF.mem.load_ok a i (by omega)
    obtain ⟨l2, e1', h1'⟩ := AF.mem.load_ok b i (by omega)
    obtain ⟨df, e3, h3⟩ := AF.sub.single l1 l2 (fun _ _ => trivial)
    obtain ⟨d, e2, h2⟩ := RF.fmadd.single df df acc
    refine ⟨d, by
      rw [e1]; simp only [pure_bind]; rw [e1']; simp only [pure_bind]
      rw [e3]; simp only [pure_bind]; exact e2, ?_⟩
    intro k hk
    rw [h2 k hk, h3 k hk, h1 k hk, h1' k hk, hfm, hm.comm]
  · intro i v hi
    have h1 : i < a.size := by omega
    have h2 : i < b.size := by omega
    simp only [Slice.read, h1, h2, if_true, pure_bind]
    rw [MFa.sub]; simp only [pure_bind]
    rw [MFa.mul]; simp only [pure_bind]
    exact MFa.add _ _

end sums

section extremes
variable (AF : ArithFaithful R L lanes S)
variable (RF : ReduceFaithful R L lanes S fm hsum hmax hmin) (MFa : MathFaithful M S)
variable (dims : Nat) (hfuel : dims < E.fuel)
include AF RF MFa hfuel

/-- horizontal max: the `max`-fold of all elements starting from the type minimum -/
theorem max_horizontal (hm : CommMonoidOn S.cmpMax S.minVal) (hh : ∀ f, hmax f = sumR S.cmpMax S.minVal f L)
    (a : Slice T) (ha : a.size = dims) :
    generic_max_horizontal E R M dims a = pure (sumR S.cmpMax S.minVal a.get dims) := by
  rw [Thm.Shapes.max_horizontal, ha, debugAssertEq_self]
  simp only [pure_bind]
  apply reduce_lanewise_spec hm AF.mem.L_pos AF.mem.epd AF.mem.epl a.get dims hmax
    ?_ ?_ (roll_tree RF.max) ?_ RF.max.to_value hh ?_ hfuel
  · obtain ⟨d, e, h, _⟩ := AF.bcast.filled_dense_ok S.minVal
    exact ⟨d, by rw [MFa.min]; simp only [pure_bind]; exact e, h⟩
  · intro i acc hi
    obtain ⟨l1, e1, h1⟩ := AF.mem.load_dense_ok a i (by omega)
    obtain ⟨d, e2, h2⟩ := AF.max.dense acc l1 (fun _ _ => trivial)
    refine ⟨d, by rw [e1]; simp only [pure_bind]; exact e2, ?_⟩
    intro k hk
    rw [h2 k hk, h1 k hk]
  · intro i acc hi
    obtain ⟨l1, e1, h1⟩ := AF.mem.load_ok a i (by omega)
    obtain ⟨d, e2, h2⟩ := AF.max.single acc l1 (fun _ _ => trivial)
    refine ⟨d, by rw [e1]; simp only [pure_bind]; exact e2, ?_⟩
    intro k hk
    rw [h2 k hk, h1 k hk]
  · intro i v hi
    have : i < a.size := by omega
    simp only [Slice.read, this, if_true, pure_bind]
    exact MFa.cmp_max _ _

/-- horizontal min: the `min`-fold of all elements starting from the type maximum -/
theorem min_horizontal (hm : CommMonoidOn S.cmpMin S.maxVal) (hh : ∀ f, hmin f = sumR S.cmpMin S.maxVal f L)
    (a : Slice T) (ha : a.size = dims) :
    generic_min_horizontal E R M dims a = pure (sumR S.cmpMin S.maxVal a.get dims) := by
  rw [Thm.Shapes.min_horizontal, ha, debugAssertEq_self]
  simp only [pure_bind]
  apply reduce_lanewise_spec hm AF.mem.L_pos AF.mem.epd AF.mem.epl a.get dims hmin
    ?_ ?_ (roll_tree RF.min) ?_ RF.min.to_value hh ?_ hfuel
  · obtain ⟨d, e, h, _⟩ := AF.bcast.filled_dense_ok S.maxVal
    exact ⟨d, by rw [MFa.max]; simp only [pure_bind]; exact e, h⟩
  · intro i acc hi
    obtain ⟨l1, e1, h1⟩ := AF.mem.load_dense_ok a i (by omega)
    obtain ⟨d, e2, h2⟩ := AF.min.dense acc l1 (fun _ _ => trivial)
    refine ⟨d, by rw [e1]; simp only [pure_bind]; exact e2, ?_⟩
    intro k hk
    rw [h2 k hk, h1 k hk]
  · intro i acc hi
    obtain ⟨l1, e1, h1⟩ := AF.mem.load_ok a i (by omega)
    obtain ⟨d, e2, h2⟩ := AF.min.single acc l1 (fun _ _ => trivial)
    refine ⟨d, by rw [e1]; simp only [pure_bind]; exact e2, ?_⟩
    intro k hk
    rw [h2 k hk, h1 k hk]
  · intro i v hi
    have : i < a.size := by omega
    simp only [Slice.read, this, if_true, pure_bind]
    exact MFa.cmp_min _ _

end extremes

end ReduceKernels
end Cfavml
