/-
List-indexed backward-error bookkeeping (the form used with the reduction model, where index *lists* are what the
abstract run produces; that every index of `0..n` occurs exactly once is proved separately as a multiset equality).

  `ApproxL u term v l k`  ⇔  v = Σ_{j} term l[j] · (1 + θ_j)   with   |θ_j| ≤ (1+u)^k − 1
-/
import Mathlib.Algebra.BigOperators.Group.List.Basic
import Mathlib.Algebra.Order.BigOperators.Group.List
import Mathlib.Algebra.BigOperators.Ring.List
import Mathlib.Algebra.Order.AbsoluteValue.Basic
import CfavmlModel.Lemmas.Rounding

namespace Cfavml.Rounding

def ApproxL (u : ℝ) (term : ℕ → ℝ) (v : ℝ) (l : List ℕ) (k : ℕ) : Prop :=
  ∃ ps : List (ℕ × ℝ), ps.map Prod.fst = l ∧ v = (ps.map (fun p => term p.1 * (1 + p.2))).sum
    ∧ ∀ p ∈ ps, |p.2| ≤ (1 + u) ^ k - 1

variable {u : ℝ} {term : ℕ → ℝ}

theorem ApproxL.nil (k : ℕ) : ApproxL u term 0 [] k := ⟨[], rfl, by simp, by simp⟩

theorem ApproxL.of_nil {v : ℝ} {k : ℕ} (h : ApproxL u term v [] k) : v = 0 := by
  obtain ⟨ps, e1, e2, _⟩ := h
  have : ps = [] := by simpa using e1
  subst this; simpa using e2

theorem ApproxL.single (hu : 0 ≤ u) (i : ℕ) (k : ℕ) : ApproxL u term (term i) [i] k := by
  refine ⟨[(i, 0)], rfl, by simp, ?_⟩
  intro p hp
  have : (1 : ℝ) ≤ (1 + u) ^ k := one_le_pow₀ (by linarith)
  simp at hp; subst hp; simp; linarith

theorem ApproxL.mono (hu : 0 ≤ u) {v : ℝ} {l : List ℕ} {k k' : ℕ} (hk : k ≤ k') (h : ApproxL u term v l k) :
    ApproxL u term v l k' := by
  obtain ⟨ps, e1, e2, hθ⟩ := h
  refine ⟨ps, e1, e2, fun p hp => (hθ p hp).trans ?_⟩
  have : (1 + u) ^ k ≤ (1 + u) ^ k' := pow_le_pow_right₀ (by linarith) hk
  linarith

theorem ApproxL.round (hu : 0 ≤ u) {v : ℝ} {l : List ℕ} {k : ℕ} (h : ApproxL u term v l k) {δ : ℝ} (hδ : |δ| ≤ u) :
    ApproxL u term (v * (1 + δ)) l (k + 1) := by
  obtain ⟨ps, e1, e2, hθ⟩ := h
  refine ⟨ps.map (fun p => (p.1, (1 + p.2) * (1 + δ) - 1)), ?_, ?_, ?_⟩
  · rw [List.map_map, ← e1]; rfl
  · rw [e2, ← List.sum_map_mul_right, List.map_map]
    congr 1
    apply List.map_congr_left
    intro p _; simp only [Function.comp]; ring
  · intro p hp
    obtain ⟨p0, hp0, rfl⟩ := List.mem_map.mp hp
    have h1 := hθ p0 hp0
    have hE : (1 : ℝ) ≤ (1 + u) ^ k := one_le_pow₀ (by linarith)
    have : (1 + p0.2) * (1 + δ) - 1 = p0.2 + δ + p0.2 * δ := by ring
    show |(1 + p0.2) * (1 + δ) - 1| ≤ _
    rw [this, pow_succ]
    have h2 : |p0.2 * δ| ≤ ((1 + u) ^ k - 1) * u := by
      rw [abs_mul]; exact mul_le_mul h1 hδ (abs_nonneg _) (by linarith)
    calc |p0.2 + δ + p0.2 * δ| ≤ |p0.2 + δ| + |p0.2 * δ| := abs_add_le _ _
      _ ≤ |p0.2| + |δ| + |p0.2 * δ| := by linarith [abs_add_le p0.2 δ]
      _ ≤ ((1 + u) ^ k - 1) + u + ((1 + u) ^ k - 1) * u := by linarith
      _ = (1 + u) ^ k * (1 + u) - 1 := by ring

theorem ApproxL.append {v w : ℝ} {l₁ l₂ : List ℕ} {k : ℕ} (h1 : ApproxL u term v l₁ k) (h2 : ApproxL u term w l₂ k) :
    ApproxL u term (v + w) (l₁ ++ l₂) k := by
  obtain ⟨ps, e1, e2, hθ⟩ := h1
  obtain ⟨qs, f1, f2, hφ⟩ := h2
  refine ⟨ps ++ qs, by rw [List.map_append, e1, f1], by rw [List.map_append, List.sum_append, e2, f2], ?_⟩
  intro p hp
  rcases List.mem_append.mp hp with h | h
  · exact hθ p h
  · exact hφ p h

/-- a rounded addition of two approximated parts -/
theorem ApproxL.add_round (hu : 0 ≤ u) {v w : ℝ} {l₁ l₂ : List ℕ} {k₁ k₂ : ℕ}
    (h1 : ApproxL u term v l₁ k₁) (h2 : ApproxL u term w l₂ k₂) {δ : ℝ} (hδ : |δ| ≤ u) :
    ApproxL u term ((v + w) * (1 + δ)) (l₁ ++ l₂) (max k₁ k₂ + 1) :=
  ((h1.mono hu (le_max_left _ _)).append (h2.mono hu (le_max_right _ _))).round hu hδ

/-- **forward error bound** -/
theorem ApproxL.error {v : ℝ} {l : List ℕ} {k : ℕ} (h : ApproxL u term v l k) :
    |v - (l.map term).sum| ≤ ((1 + u) ^ k - 1) * (l.map (fun i => |term i|)).sum := by
  obtain ⟨ps, e1, e2, hθ⟩ := h
  subst e1
  rw [e2, List.map_map, List.map_map]
  clear e2
  induction ps with
  | nil => simp
  | cons p ps ih =>
    simp only [List.map_cons, List.sum_cons, Function.comp]
    have hp := hθ p (List.mem_cons_self)
    have ih' := ih (fun q hq => hθ q (List.mem_cons_of_mem _ hq))
    have e : term p.1 * (1 + p.2) + (ps.map (fun p => term p.1 * (1 + p.2))).sum
        - (term p.1 + (ps.map (term ∘ Prod.fst)).sum)
        = term p.1 * p.2 + ((ps.map (fun p => term p.1 * (1 + p.2))).sum - (ps.map (term ∘ Prod.fst)).sum) := by ring
    rw [e, mul_add]
    refine (abs_add_le _ _).trans (add_le_add ?_ ih')
    rw [abs_mul, mul_comm]
    exact mul_le_mul_of_nonneg_right hp (abs_nonneg _)

end Cfavml.Rounding
