/-
A-priori rounding error bound for summation in any order
(Higham, "Accuracy and Stability of Numerical Algorithms", 2nd ed., §4.2 and Lemma 3.1),
stated over ℝ with an abstract (relational) standard model of rounding.

The bound covers any binary tree of rounded additions whose leaves may carry extra rounded
operations (`wrap`): the rounding of a product leaf, the single rounding of a fused multiply-add,
or the addition of an exact zero.
-/
import Mathlib.Data.Real.Basic
import Mathlib.Algebra.Order.Ring.Abs
import Mathlib.Tactic.Ring
import Mathlib.Tactic.Linarith
import Mathlib.Tactic.Positivity
import Mathlib.Tactic.NormNum
import Mathlib.Tactic.GCongr

namespace Cfavml.Rounding

/-- γ k = k·u / (1 − k·u), for unit roundoff `u` (`0 ≤ u`). -/
noncomputable def gamma (u : ℝ) (k : ℕ) : ℝ := (k * u) / (1 - k * u)

/-- an expression tree whose leaves are exact real data; `node` is one rounded addition; `wrap` is one
extra rounded operation applied to a subtree's value (models the rounding of a product leaf, a fused
multiply-add's single rounding, or an addition of an exact zero) -/
inductive STree where
  | leaf (x : ℝ)
  | node (l r : STree)
  | wrap (t : STree)

/-- exact value: sum of the leaves -/
def STree.exact : STree → ℝ
  | .leaf x => x
  | .node l r => l.exact + r.exact
  | .wrap t => t.exact

/-- sum of absolute values of the leaves -/
def STree.absSum : STree → ℝ
  | .leaf x => |x|
  | .node l r => l.absSum + r.absSum
  | .wrap t => t.absSum

/-- number of rounded operations on the longest path from the root to a leaf
(node and wrap each count 1) -/
def STree.depth : STree → ℕ
  | .leaf _ => 0
  | .node l r => max l.depth r.depth + 1
  | .wrap t => t.depth + 1

/-- `v` is a possible computed value of the tree under the standard model with unit roundoff `u`: every
`node` computes `(a + b)(1 + δ)` and every `wrap` computes `a (1 + δ)` for some `|δ| ≤ u` (a relation, so
that any actual rounding function satisfying the standard model is covered) -/
inductive STree.Computes (u : ℝ) : STree → ℝ → Prop
  | leaf (x) : Computes u (.leaf x) x
  | node {l r a b} (δ : ℝ) (hδ : |δ| ≤ u) :
      Computes u l a → Computes u r b → Computes u (.node l r) ((a + b) * (1 + δ))
  | wrap {t a} (δ : ℝ) (hδ : |δ| ≤ u) : Computes u t a → Computes u (.wrap t) (a * (1 + δ))

/-! ### Elementary facts about the tree measures -/

theorem STree.absSum_nonneg (t : STree) : 0 ≤ t.absSum := by
  induction t with
  | leaf x => exact abs_nonneg x
  | node l r ihl ihr => exact add_nonneg ihl ihr
  | wrap t ih => exact ih

theorem STree.abs_exact_le_absSum (t : STree) : |t.exact| ≤ t.absSum := by
  induction t with
  | leaf x => exact le_refl _
  | node l r ihl ihr =>
      exact (abs_add_le _ _).trans (add_le_add ihl ihr)
  | wrap t ih => exact ih

/-! ### One rounded operation -/

/-- One rounded operation applied to a value `a` approximating `ea`: the relative error bound
`E - 1` becomes `E (1 + u) - 1`. -/
theorem round_step {a ea S E u δ : ℝ} (h1 : |a - ea| ≤ (E - 1) * S) (h2 : |ea| ≤ S)
    (hδ : |δ| ≤ u) (hE : 1 ≤ E) :
    |a * (1 + δ) - ea| ≤ (E * (1 + u) - 1) * S := by
  have hS : 0 ≤ S := (abs_nonneg _).trans h2
  have hu : 0 ≤ u := (abs_nonneg _).trans hδ
  have ha : |a| ≤ E * S := by
    have h : |a| ≤ |ea| + |a - ea| := by
      have := abs_add_le ea (a - ea)
      simpa using this
    nlinarith
  have hES : 0 ≤ E * S := by positivity
  have hda : |δ * a| ≤ u * (E * S) := by
    rw [abs_mul]
    exact mul_le_mul hδ ha (abs_nonneg _) hu
  have heq : a * (1 + δ) - ea = (a - ea) + δ * a := by ring
  rw [heq]
  calc |a - ea + δ * a| ≤ |a - ea| + |δ * a| := abs_add_le _ _
    _ ≤ (E - 1) * S + u * (E * S) := add_le_add h1 hda
    _ = (E * (1 + u) - 1) * S := by ring

/-! ### The `(1+u)^k - 1` form of the bound -/

/-- Strong form: for every `k ≥ depth`, the error is at most `((1+u)^k - 1) · Σ|xᵢ|`. -/
theorem tree_sum_error_pow (u : ℝ) (hu : 0 ≤ u) (t : STree) (v : ℝ) (h : t.Computes u v) :
    ∀ k : ℕ, t.depth ≤ k → |v - t.exact| ≤ ((1 + u) ^ k - 1) * t.absSum := by
  have h1u : (1 : ℝ) ≤ 1 + u := by linarith
  induction h with
  | leaf x =>
      intro k _
      have hE : (1 : ℝ) ≤ (1 + u) ^ k := one_le_pow₀ h1u
      simp only [STree.exact, STree.absSum, sub_self, abs_zero]
      exact mul_nonneg (by linarith) (abs_nonneg x)
  | @node l r a b δ hδ _ _ ihl ihr =>
      intro k hk
      simp only [STree.depth] at hk
      obtain ⟨k', rfl⟩ : ∃ k', k = k' + 1 := ⟨k - 1, by omega⟩
      have hl : l.depth ≤ k' := by omega
      have hr : r.depth ≤ k' := by omega
      have hE : (1 : ℝ) ≤ (1 + u) ^ k' := one_le_pow₀ h1u
      have h1 : |(a + b) - (l.exact + r.exact)| ≤ ((1 + u) ^ k' - 1) * (l.absSum + r.absSum) := by
        have heq : (a + b) - (l.exact + r.exact) = (a - l.exact) + (b - r.exact) := by ring
        rw [heq, mul_add]
        exact (abs_add_le _ _).trans (add_le_add (ihl k' hl) (ihr k' hr))
      have h2 : |l.exact + r.exact| ≤ l.absSum + r.absSum :=
        (STree.node l r).abs_exact_le_absSum
      have := round_step h1 h2 hδ hE
      simpa only [STree.exact, STree.absSum, pow_succ] using this
  | @wrap t a δ hδ _ ih =>
      intro k hk
      simp only [STree.depth] at hk
      obtain ⟨k', rfl⟩ : ∃ k', k = k' + 1 := ⟨k - 1, by omega⟩
      have ht : t.depth ≤ k' := by omega
      have hE : (1 : ℝ) ≤ (1 + u) ^ k' := one_le_pow₀ h1u
      have := round_step (ih k' ht) t.abs_exact_le_absSum hδ hE
      simpa only [STree.exact, STree.absSum, pow_succ] using this

/-- Auxiliary magnitude bound: `|v| ≤ (1+u)^k · Σ|xᵢ|` for `k ≥ depth`. -/
theorem tree_sum_abs_le (u : ℝ) (hu : 0 ≤ u) (t : STree) (v : ℝ) (h : t.Computes u v)
    (k : ℕ) (hk : t.depth ≤ k) : |v| ≤ (1 + u) ^ k * t.absSum := by
  have h1 := tree_sum_error_pow u hu t v h k hk
  have h2 := t.abs_exact_le_absSum
  have h3 : |v| ≤ |t.exact| + |v - t.exact| := by
    have := abs_add_le t.exact (v - t.exact)
    simpa using this
  linarith

/-! ### Higham Lemma 3.1: `(1+u)^k - 1 ≤ γ k` -/

theorem one_add_pow_mul_le_one (u : ℝ) (hu : 0 ≤ u) (k : ℕ) :
    (1 + u) ^ k * (1 - k * u) ≤ 1 := by
  induction k with
  | zero => simp
  | succ k ih =>
      have hp : (0 : ℝ) ≤ (1 + u) ^ k := by positivity
      have hk : (0 : ℝ) ≤ (k : ℝ) := Nat.cast_nonneg k
      have heq : (1 + u) ^ (k + 1) * (1 - ((k + 1 : ℕ) : ℝ) * u)
          = (1 + u) ^ k * (1 - k * u) - (1 + u) ^ k * ((k + 1) * (u * u)) := by
        push_cast
        ring
      rw [heq]
      have hnn : 0 ≤ (1 + u) ^ k * (((k : ℝ) + 1) * (u * u)) := by positivity
      linarith

theorem pow_sub_one_le_gamma (u : ℝ) (hu : 0 ≤ u) (k : ℕ) (hk : (k : ℝ) * u < 1) :
    (1 + u) ^ k - 1 ≤ gamma u k := by
  have hpos : 0 < 1 - (k : ℝ) * u := by linarith
  unfold gamma
  rw [le_div_iff₀ hpos]
  have := one_add_pow_mul_le_one u hu k
  nlinarith

theorem gamma_nonneg (u : ℝ) (hu : 0 ≤ u) (k : ℕ) (hk : (k : ℝ) * u < 1) : 0 ≤ gamma u k := by
  have hpos : 0 < 1 - (k : ℝ) * u := by linarith
  unfold gamma
  exact div_nonneg (mul_nonneg (Nat.cast_nonneg k) hu) hpos.le

/-! ### Main theorems -/

/-- the bound the property states: depth ≤ n ⇒ error ≤ γ(n)·Σ|terms| -/
theorem tree_sum_error_le (u : ℝ) (hu : 0 ≤ u) (t : STree) (v : ℝ) (h : t.Computes u v) (n : ℕ)
    (hdepth : t.depth ≤ n) (hd : (n : ℝ) * u < 1) : |v - t.exact| ≤ gamma u n * t.absSum :=
  (tree_sum_error_pow u hu t v h n hdepth).trans
    (mul_le_mul_of_nonneg_right (pow_sub_one_le_gamma u hu n hd) t.absSum_nonneg)

/-- Higham §4.2: a-priori error bound for summation in any order. -/
theorem tree_sum_error (u : ℝ) (hu : 0 ≤ u) (t : STree) (v : ℝ) (h : t.Computes u v)
    (hd : (t.depth : ℝ) * u < 1) :
    |v - t.exact| ≤ gamma u t.depth * t.absSum :=
  tree_sum_error_le u hu t v h t.depth le_rfl hd

/-- gamma is monotone in k on its domain -/
theorem gamma_mono (u : ℝ) (hu : 0 ≤ u) {j k : ℕ} (hjk : j ≤ k) (hk : (k : ℝ) * u < 1) :
    gamma u j ≤ gamma u k := by
  have hjk' : (j : ℝ) * u ≤ (k : ℝ) * u :=
    mul_le_mul_of_nonneg_right (Nat.cast_le.mpr hjk) hu
  have hkpos : 0 < 1 - (k : ℝ) * u := by linarith
  have hjpos : 0 < 1 - (j : ℝ) * u := by linarith
  have hj0 : 0 ≤ (j : ℝ) * u := mul_nonneg (Nat.cast_nonneg j) hu
  unfold gamma
  rw [div_le_div_iff₀ hjpos hkpos]
  nlinarith

/-- exactness: if every rounding error in the computation is zero the result is exact -/
theorem computes_zero_exact (t : STree) (v : ℝ) (h : t.Computes 0 v) : v = t.exact := by
  have hb := tree_sum_error 0 le_rfl t v h (by simp)
  have hg : gamma 0 t.depth = 0 := by simp [gamma]
  rw [hg, zero_mul] at hb
  have : |v - t.exact| = 0 := le_antisymm hb (abs_nonneg _)
  exact sub_eq_zero.mp (abs_eq_zero.mp this)

/-! ### The hypotheses are satisfiable: a concrete derivation -/

/-- `fl(fl(fl(1 + 2)) + 3)` with unit roundoff `1/4`: a three-leaf tree with an extra rounding
(`wrap`) on the inner sum, rounding errors `1/8`, `-1/8`, `0`. -/
example :
    (STree.node (.wrap (.node (.leaf 1) (.leaf 2))) (.leaf 3)).Computes (1 / 4)
      ((((1 + 2) * (1 + 1 / 8)) * (1 + (-1 / 8)) + 3) * (1 + 0)) :=
  .node 0 (by norm_num)
    (.wrap (-1 / 8) (by rw [abs_le]; constructor <;> norm_num)
      (.node (1 / 8) (by rw [abs_le]; constructor <;> norm_num) (.leaf 1) (.leaf 2)))
    (.leaf 3)

/-- and the main theorem applies to it (depth 3, `3 · (1/4) < 1`). -/
example (v : ℝ)
    (h : (STree.node (.wrap (.node (.leaf 1) (.leaf 2))) (.leaf 3)).Computes (1 / 4) v) :
    |v - (1 + 2 + 3)| ≤ gamma (1 / 4) 3 * (|1| + |2| + |3|) := by
  have := tree_sum_error (1 / 4) (by norm_num) _ v h (by simp [STree.depth]; norm_num)
  simpa [STree.exact, STree.absSum, STree.depth] using this

end Cfavml.Rounding
