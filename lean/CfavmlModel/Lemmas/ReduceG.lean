/-
`reduceCore` with arbitrary accumulator types (used for `generic_cosine`, whose accumulator is the *pair*
of the two squared norms): the same three-phase skeleton and the same measure theorem, the measure now
taking values in any commutative monoid `V` (for the pair: the product monoid).
-/
import CfavmlModel.Lemmas.Reduce

namespace Cfavml

def reduceCoreG {S1 S2 S3 : Type} (E : Env) (epd epl : Exec Nat)
    (init : Exec S1) (stepD : Nat → S1 → Exec S1) (rollup : S1 → Exec S2)
    (stepR : Nat → S2 → Exec S2) (toValue : S2 → Exec S3) (stepT : Nat → S3 → Exec S3)
    (dims : Nat) : Exec S3 := do
  let t1 ← epd
  let offset_from ← umod dims t1
  let acc ← init
  let st1 ← loopM E.fuel (0, acc)
    (fun st1 => do
      let t ← usub E dims offset_from
      pure (decide (st1.1 < t)))
    (fun st1 => do
      let acc ← stepD st1.1 st1.2
      let t ← epd
      pure (st1.1 + t, acc))
  let acc ← rollup st1.2
  let t ← epl
  let offset_from ← umod offset_from t
  let st2 ← loopM E.fuel (st1.1, acc)
    (fun st2 => do
      let t ← usub E dims offset_from
      pure (decide (st2.1 < t)))
    (fun st2 => do
      let acc ← stepR st2.1 st2.2
      let t ← epl
      pure (st2.1 + t, acc))
  let v ← toValue st2.2
  let st3 ← loopM E.fuel (st2.1, v)
    (fun st3 => pure (decide (st3.1 < dims)))
    (fun st3 => do
      let v ← stepT st3.1 st3.2
      pure (st3.1 + 1, v))
  pure st3.2

section
variable {V S1 S2 S3 : Type} {op : V → V → V} {e : V} {E : Env} {L : Nat}

theorem reduceCoreG_spec (hm : CommMonoidOn op e) (hL : 0 < L)
    {epd epl : Exec Nat} (hepd : epd = pure (L * 8)) (hepl : epl = pure L)
    (term : Nat → V) (dims : Nat)
    {init : Exec S1} {stepD : Nat → S1 → Exec S1} {rollup : S1 → Exec S2} {stepR : Nat → S2 → Exec S2}
    {toValue : S2 → Exec S3} {stepT : Nat → S3 → Exec S3}
    (mD : S1 → V) (mR : S2 → V) (mT : S3 → V)
    (hinit : ∃ d0, init = pure d0 ∧ mD d0 = e)
    (hstepD : ∀ i acc, i + L * 8 ≤ dims →
      ∃ acc', stepD i acc = pure acc' ∧ mD acc' = op (mD acc) (sumR op e (fun k => term (i + k)) (L * 8)))
    (hroll : ∀ d, ∃ r, rollup d = pure r ∧ mR r = mD d)
    (hstepR : ∀ i acc, i + L ≤ dims →
      ∃ acc', stepR i acc = pure acc' ∧ mR acc' = op (mR acc) (sumR op e (fun k => term (i + k)) L))
    (htoV : ∀ r, ∃ v, toValue r = pure v ∧ mT v = mR r)
    (hstepT : ∀ i v, i + 1 ≤ dims → ∃ v', stepT i v = pure v' ∧ mT v' = op (mT v) (term i))
    (hfuel : dims < E.fuel) :
    ∃ res, reduceCoreG E epd epl init stepD rollup stepR toValue stepT dims = pure res
      ∧ mT res = sumR op e term dims := by
  have hK : 0 < L * 8 := by omega
  let q := dims / (L * 8)
  let r := dims % (L * 8)
  have hdims : dims = q * (L * 8) + r := by
    have := Nat.div_add_mod dims (L * 8)
    simp only [q, r]; rw [Nat.mul_comm]; omega
  have hr_lt : r < L * 8 := Nat.mod_lt _ hK
  let n2 := r / L
  let r2 := r % L
  have hr2 : r = n2 * L + r2 := by
    have := Nat.div_add_mod r L
    simp only [n2, r2]; rw [Nat.mul_comm]; omega
  have hr2_lt : r2 < L := Nat.mod_lt _ hL
  obtain ⟨d0, ei, hi0⟩ := hinit
  obtain ⟨d1, e1, h1⟩ := iter_measure hm term dims (L * 8) stepD mD hstepD q 0 d0 (by omega) (by simpa using hi0)
  obtain ⟨r1, er, hr1⟩ := hroll d1
  obtain ⟨r2', e2, h2⟩ := iter_measure hm term dims L stepR mR hstepR n2 (0 + q * (L * 8)) r1 (by omega)
    (by rw [hr1, h1])
  obtain ⟨v0, ev, hv0⟩ := htoV r2'
  obtain ⟨v3, e3, h3⟩ := iter_measure hm term dims 1 stepT mT
    (fun i v hi => by
      obtain ⟨v', e', h'⟩ := hstepT i v hi
      exact ⟨v', e', by rw [h', sumR_one hm]; simp⟩)
    r2 (0 + q * (L * 8) + n2 * L) v0 (by omega) (by rw [hv0, h2])
  have hend : 0 + q * (L * 8) + n2 * L + r2 * 1 = dims := by omega
  rw [hend] at h3
  refine ⟨v3, ?_, h3⟩
  unfold reduceCoreG
  simp only [hepd, hepl, pure_bind, umod_pos _ _ hK, umod_pos _ _ hL, ei]
  rw [loopM_counted E.fuel _ _ stepD (dims - dims % (L * 8)) (L * 8) hK
    (by intro st; rw [usub_le E _ _ (Nat.mod_le _ _)]; simp)
    (by intro st; rfl)
    q 0 d0 (by have : q ≤ dims := Nat.div_le_self _ _; omega) (by omega)
    (by intro m hm'
        have : (m + 1) * (L * 8) ≤ q * (L * 8) := Nat.mul_le_mul_right _ (by omega)
        rw [Nat.succ_mul] at this
        omega)]
  rw [e1]
  simp only [pure_bind, er]
  have hmod2 : dims % (L * 8) % L = r2 := rfl
  rw [hmod2]
  rw [loopM_counted E.fuel _ _ stepR (dims - r2) L hL
    (by intro st; rw [usub_le E _ _ (by omega)]; simp)
    (by intro st; rfl)
    n2 (0 + q * (L * 8)) r1 (by have : n2 ≤ r := Nat.div_le_self _ _; omega) (by omega)
    (by intro m hm'
        have : (m + 1) * L ≤ n2 * L := Nat.mul_le_mul_right _ (by omega)
        rw [Nat.succ_mul] at this
        omega)]
  rw [e2]
  simp only [pure_bind, ev]
  rw [loopM_counted E.fuel _ _ stepT dims 1 (by omega)
    (by intro st; rfl)
    (by intro st; rfl)
    r2 (0 + q * (L * 8) + n2 * L) v0 (by omega) (by omega)
    (by intro m hm'; omega)]
  rw [e3]
  simp only [pure_bind]

end

/-- the product of two commutative monoids -/
theorem prod_monoid {A B : Type} {opA : A → A → A} {eA : A} {opB : B → B → B} {eB : B}
    (hA : CommMonoidOn opA eA) (hB : CommMonoidOn opB eB) :
    CommMonoidOn (fun (x y : A × B) => (opA x.1 y.1, opB x.2 y.2)) (eA, eB) :=
  ⟨fun x y z => by simp [hA.assoc, hB.assoc], fun x y => by rw [hA.comm x.1, hB.comm x.2],
   fun x => by simp [hA.id_left, hB.id_left]⟩

theorem sumR_prod {A B : Type} {opA : A → A → A} {eA : A} {opB : B → B → B} {eB : B}
    (f : Nat → A) (g : Nat → B) (n : Nat) :
    sumR (fun (x y : A × B) => (opA x.1 y.1, opB x.2 y.2)) (eA, eB) (fun k => (f k, g k)) n
      = (sumR opA eA f n, sumR opB eB g n) := by
  induction n with
  | zero => rfl
  | succ n ih => simp [sumR_succ, ih]

end Cfavml
