/-
The reduction kernels refine a *pure functional model*, bit for bit and for every element type (no algebraic law
is used, so the statement holds for floating point as it stands):

  dense phase     lane `k < 8·L` accumulates the elements `k, k + 8L, k + 16L, …`
  roll-up         lane `k < L` of the rolled-up register is the `tree8` of lanes `k, L + k, …, 7L + k`
  register phase  lane `k` goes on accumulating `q·8L + k, q·8L + L + k, …`
  horizontal fold `hfold` of the `L` lanes
  scalar tail     the remaining `< L` elements, one at a time

`reduceModel` is that function; `reduce_lanewise_model` says a kernel built on `reduceCore` over a lane-wise faithful
backend returns exactly `reduceModel`. Exactness for integers (C03), the rounding analysis (C04), extremes (C05),
cosine (C06) and backend/placement independence (C08, C11, C12) are then statements about `reduceModel`.
-/
import CfavmlModel.Lemmas.ReduceG

namespace Cfavml

/-- `n` accumulation steps at the indices `i, i + K, i + 2K, …` -/
def accum {A : Type} (step : A → Nat → A) (K : Nat) : Nat → Nat → A → A
  | 0, _, a => a
  | n + 1, i, a => accum step K n (i + K) (step a i)

@[simp] theorem accum_zero {A : Type} (step : A → Nat → A) (K i : Nat) (a : A) : accum step K 0 i a = a := rfl

theorem accum_succ_right {A : Type} (step : A → Nat → A) (K : Nat) (n i : Nat) (a : A) :
    accum step K (n + 1) i a = step (accum step K n i a) (i + n * K) := by
  induction n generalizing i a with
  | zero => simp [accum]
  | succ n ih =>
    rw [accum, ih, accum]
    congr 1
    rw [Nat.succ_mul]; omega

theorem accum_congr {A : Type} (s1 s2 : A → Nat → A) (K n i : Nat) (a : A)
    (h : ∀ b m, m < n → s1 b (i + m * K) = s2 b (i + m * K)) : accum s1 K n i a = accum s2 K n i a := by
  induction n generalizing i a with
  | zero => rfl
  | succ n ih =>
    rw [accum, accum]
    have h0 := h a 0 (by omega)
    simp only [Nat.zero_mul, Nat.add_zero] at h0
    rw [h0]
    apply ih
    intro b m hm
    have := h b (m + 1) (by omega)
    rw [Nat.succ_mul] at this
    have e : i + K + m * K = i + (m * K + K) := by omega
    rw [e]; exact this

/-- the lane-level operations of one reduction kernel -/
structure ReduceOps (T : Type) where
  /-- initial value of every accumulator lane -/
  e : T
  /-- accumulator lane update with the element at the given index (dense and register phases) -/
  lane : T → Nat → T
  /-- the binary operation of the 8 → 1 roll-up -/
  roll : T → T → T
  /-- horizontal fold of the lanes of a register -/
  hfold : (Nat → T) → T
  /-- scalar tail update with the element at the given index -/
  tail : T → Nat → T

/-- **the pure model of a reduction kernel** over `dims` elements with `L` lanes per register -/
def reduceModel {T : Type} (O : ReduceOps T) (L dims : Nat) : T :=
  let q := dims / (L * 8)
  let r := dims % (L * 8)
  let n2 := r / L
  let r2 := r % L
  let dense : Nat → T := fun k => accum O.lane (L * 8) q k O.e
  let rolled : Nat → T := fun k => tree8 O.roll (fun qq => dense (qq * L + k))
  let reg : Nat → T := fun k => accum O.lane L n2 (q * (L * 8) + k) (rolled k)
  accum O.tail 1 r2 (q * (L * 8) + n2 * L) (O.hfold reg)

section
variable {S1 S2 S3 : Type} {E : Env} {L : Nat}

/-- **invariant form of the reduction core**: invariants indexed by the iteration count of each phase -/
theorem reduceCoreG_inv (hL : 0 < L)
    {epd epl : Exec Nat} (hepd : epd = pure (L * 8)) (hepl : epl = pure L) (dims : Nat)
    {init : Exec S1} {stepD : Nat → S1 → Exec S1} {rollup : S1 → Exec S2} {stepR : Nat → S2 → Exec S2}
    {toValue : S2 → Exec S3} {stepT : Nat → S3 → Exec S3}
    (ID : Nat → S1 → Prop) (IR : Nat → S2 → Prop) (IT : Nat → S3 → Prop)
    (hinit : ∃ d0, init = pure d0 ∧ ID 0 d0)
    (hstepD : ∀ m acc, (m + 1) * (L * 8) ≤ dims → ID m acc →
      ∃ acc', stepD (m * (L * 8)) acc = pure acc' ∧ ID (m + 1) acc')
    (hroll : ∀ d, ID (dims / (L * 8)) d → ∃ r, rollup d = pure r ∧ IR 0 r)
    (hstepR : ∀ m acc, dims / (L * 8) * (L * 8) + (m + 1) * L ≤ dims → IR m acc →
      ∃ acc', stepR (dims / (L * 8) * (L * 8) + m * L) acc = pure acc' ∧ IR (m + 1) acc')
    (htoV : ∀ r, IR (dims % (L * 8) / L) r → ∃ v, toValue r = pure v ∧ IT 0 v)
    (hstepT : ∀ m v, m < dims % (L * 8) % L → IT m v →
      ∃ v', stepT (dims / (L * 8) * (L * 8) + dims % (L * 8) / L * L + m) v = pure v' ∧ IT (m + 1) v')
    (hfuel : dims < E.fuel) :
    ∃ res, reduceCoreG E epd epl init stepD rollup stepR toValue stepT dims = pure res
      ∧ IT (dims % (L * 8) % L) res := by
  have hK : 0 < L * 8 := by omega
  let q := dims / (L * 8)
  let r := dims % (L * 8)
  have hdims : dims = q * (L * 8) + r := by
    have := Nat.div_add_mod dims (L * 8)
    simp only [q, r]; rw [Nat.mul_comm]; omega
  have hr_lt : r < L * 8 := Nat.mod_lt _ hK
  let n2 := r / L
  let r2 := r % L
  have hr2 : r = n2 * L + r2 := by
    have := Nat.div_add_mod r L
    simp only [n2, r2]; rw [Nat.mul_comm]; omega
  have hr2_lt : r2 < L := Nat.mod_lt _ hL
  obtain ⟨d0, ei, hi0⟩ := hinit
  obtain ⟨d1, e1, h1⟩ := iter_inv stepD (L * 8) 0 ID q d0 hi0 (by
    intro m hm s hs
    have hb : (m + 1) * (L * 8) ≤ dims := by
      have : (m + 1) * (L * 8) ≤ q * (L * 8) := Nat.mul_le_mul_right _ (by omega)
      omega
    obtain ⟨s', e', h'⟩ := hstepD m s hb hs
    exact ⟨s', by simpa using e', h'⟩)
  obtain ⟨r1, er, hr1⟩ := hroll d1 h1
  obtain ⟨r2', e2, h2⟩ := iter_inv stepR L (0 + q * (L * 8)) IR n2 r1 hr1 (by
    intro m hm s hs
    have hb : q * (L * 8) + (m + 1) * L ≤ dims := by
      have : (m + 1) * L ≤ n2 * L := Nat.mul_le_mul_right _ (by omega)
      omega
    obtain ⟨s', e', h'⟩ := hstepR m s hb hs
    exact ⟨s', by simpa using e', h'⟩)
  obtain ⟨v0, ev, hv0⟩ := htoV r2' h2
  obtain ⟨v3, e3, h3⟩ := iter_inv stepT 1 (0 + q * (L * 8) + n2 * L) IT r2 v0 hv0 (by
    intro m hm s hs
    obtain ⟨s', e', h'⟩ := hstepT m s hm hs
    exact ⟨s', by simpa using e', h'⟩)
  refine ⟨v3, ?_, h3⟩
  unfold reduceCoreG
  simp only [hepd, hepl, pure_bind, umod_pos _ _ hK, umod_pos _ _ hL, ei]
  rw [loopM_counted E.fuel _ _ stepD (dims - dims % (L * 8)) (L * 8) hK
    (by intro st; rw [usub_le E _ _ (Nat.mod_le _ _)]; simp)
    (by intro st; rfl)
    q 0 d0 (by have : q ≤ dims := Nat.div_le_self _ _; omega) (by omega)
    (by intro m hm'
        have : (m + 1) * (L * 8) ≤ q * (L * 8) := Nat.mul_le_mul_right _ (by omega)
        rw [Nat.succ_mul] at this
        omega)]
  rw [e1]
  simp only [pure_bind, er]
  have hmod2 : dims % (L * 8) % L = r2 := rfl
  rw [hmod2]
  rw [loopM_counted E.fuel _ _ stepR (dims - r2) L hL
    (by intro st; rw [usub_le E _ _ (by omega)]; simp)
    (by intro st; rfl)
    n2 (0 + q * (L * 8)) r1 (by have : n2 ≤ r := Nat.div_le_self _ _; omega) (by omega)
    (by intro m hm'
        have : (m + 1) * L ≤ n2 * L := Nat.mul_le_mul_right _ (by omega)
        rw [Nat.succ_mul] at this
        omega)]
  rw [e2]
  simp only [pure_bind, ev]
  rw [loopM_counted E.fuel _ _ stepT dims 1 (by omega)
    (by intro st; rfl)
    (by intro st; rfl)
    r2 (0 + q * (L * 8) + n2 * L) v0 (by omega) (by omega)
    (by intro m hm'; omega)]
  rw [e3]
  simp only [pure_bind]

end

/-- `reduceCore` is the instance of `reduceCoreG` at one register dictionary -/
theorem reduceCore_eq_G {T Reg : Type} (E : Env) (R : SimdRegister T Reg)
    (init : Exec (DenseLane Reg)) (stepD : Nat → DenseLane Reg → Exec (DenseLane Reg)) (rollup : DenseLane Reg → Exec Reg)
    (stepR : Nat → Reg → Exec Reg) (toValue : Reg → Exec T) (stepT : Nat → T → Exec T) (dims : Nat) :
    reduceCore E R init stepD rollup stepR toValue stepT dims
      = reduceCoreG E R.elements_per_dense R.elements_per_lane init stepD rollup stepR toValue stepT dims := rfl

section
variable {T Reg : Type} {E : Env} {R : SimdRegister T Reg} {L : Nat} {lanes : Reg → Nat → T}

/-- **refinement theorem.** A kernel on `reduceCore` whose steps act lane-wise as `O` prescribes returns
`reduceModel O L dims` — bit for bit, without fault, for every length. -/
theorem reduce_lanewise_model (O : ReduceOps T) (hL : 0 < L)
    (hepd : R.elements_per_dense = pure (L * 8)) (hepl : R.elements_per_lane = pure L) (dims : Nat)
    {init : Exec (DenseLane Reg)} {stepD : Nat → DenseLane Reg → Exec (DenseLane Reg)}
    {rollup : DenseLane Reg → Exec Reg} {stepR : Nat → Reg → Exec Reg} {toValue : Reg → Exec T}
    {stepT : Nat → T → Exec T}
    (hinit : ∃ d0, init = pure d0 ∧ ∀ k, k < L * 8 → dlanes L lanes d0 k = O.e)
    (hD : ∀ i acc, i + L * 8 ≤ dims → ∃ acc', stepD i acc = pure acc'
      ∧ ∀ k, k < L * 8 → dlanes L lanes acc' k = O.lane (dlanes L lanes acc k) (i + k))
    (hroll : ∀ d, ∃ r, rollup d = pure r ∧ ∀ k, k < L → lanes r k = tree8 O.roll (fun q => lanes (d.nth q) k))
    (hR : ∀ i acc, i + L ≤ dims → ∃ acc', stepR i acc = pure acc'
      ∧ ∀ k, k < L → lanes acc' k = O.lane (lanes acc k) (i + k))
    (htoV : ∀ r, toValue r = pure (O.hfold (lanes r)))
    (hcongr : ∀ f g : Nat → T, (∀ k, k < L → f k = g k) → O.hfold f = O.hfold g)
    (hT : ∀ i v, i + 1 ≤ dims → stepT i v = pure (O.tail v i))
    (hfuel : dims < E.fuel) :
    reduceCore E R init stepD rollup stepR toValue stepT dims = pure (reduceModel O L dims) := by
  have hK : 0 < L * 8 := by omega
  rw [reduceCore_eq_G]
  obtain ⟨res, e, h⟩ := reduceCoreG_inv (E := E) hL hepd hepl dims
    (fun m d => ∀ k, k < L * 8 → dlanes L lanes d k = accum O.lane (L * 8) m k O.e)
    (fun m x => ∀ k, k < L → lanes x k = accum O.lane L m (dims / (L * 8) * (L * 8) + k)
      (tree8 O.roll (fun qq => accum O.lane (L * 8) (dims / (L * 8)) (qq * L + k) O.e)))
    (fun m v => v = accum O.tail 1 m (dims / (L * 8) * (L * 8) + dims % (L * 8) / L * L)
      (O.hfold (fun k => accum O.lane L (dims % (L * 8) / L) (dims / (L * 8) * (L * 8) + k)
        (tree8 O.roll (fun qq => accum O.lane (L * 8) (dims / (L * 8)) (qq * L + k) O.e)))))
    (by obtain ⟨d0, e0, h0⟩ := hinit; exact ⟨d0, e0, fun k hk => by rw [h0 k hk]; rfl⟩)
    (by
      intro m acc hm hI
      have hb : m * (L * 8) + L * 8 ≤ dims := by rw [Nat.succ_mul] at hm; exact hm
      obtain ⟨acc', e', h'⟩ := hD (m * (L * 8)) acc hb
      refine ⟨acc', e', ?_⟩
      intro k hk
      rw [h' k hk, hI k hk, accum_succ_right]
      congr 1; omega)
    (by
      intro d hI
      obtain ⟨x, e', h'⟩ := hroll d
      refine ⟨x, e', ?_⟩
      intro k hk
      rw [h' k hk]
      have key : ∀ qq, qq < 8 → lanes (d.nth qq) k = accum O.lane (L * 8) (dims / (L * 8)) (qq * L + k) O.e := by
        intro qq hq
        have := hI (qq * L + k) (by
          have : (qq + 1) * L ≤ 8 * L := Nat.mul_le_mul_right L (by omega)
          rw [Nat.succ_mul] at this; omega)
        rw [← this, dlanes_block d qq hq k hk]
      simp only [tree8, accum_zero]
      rw [key 0 (by omega), key 1 (by omega), key 2 (by omega), key 3 (by omega), key 4 (by omega),
        key 5 (by omega), key 6 (by omega), key 7 (by omega)])
    (by
      intro m acc hm hI
      obtain ⟨acc', e', h'⟩ := hR (dims / (L * 8) * (L * 8) + m * L) acc (by rw [Nat.succ_mul] at hm; omega)
      refine ⟨acc', e', ?_⟩
      intro k hk
      rw [h' k hk, hI k hk, accum_succ_right]
      congr 1; omega)
    (by
      intro x hI
      refine ⟨_, htoV x, ?_⟩
      simp only [accum_zero]
      exact hcongr _ _ (fun k hk => hI k hk))
    (by
      intro m v hm hI
      have hdims := Nat.div_add_mod dims (L * 8)
      have hr := Nat.div_add_mod (dims % (L * 8)) L
      rw [Nat.mul_comm] at hdims hr
      refine ⟨_, hT _ v (by omega), ?_⟩
      rw [hI, accum_succ_right]
      congr 1; omega)
    hfuel
  rw [e, h]
  rfl

end
end Cfavml
