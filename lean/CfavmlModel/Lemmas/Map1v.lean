/-
The vector × scalar kernels (`generic_{add,sub,mul,div}_value`, `generic_{max,min}_value`): after the
broadcast of the scalar they all run `map1vCore`; its correctness theorem for an arbitrary lane-wise
faithful backend.
-/
import CfavmlModel.Lemmas.Map2

namespace Cfavml

/-- the part of the vector × scalar kernels after the broadcast: dense blocks, single registers, tail -/
def map1vCore {T Reg : Type} (E : Env) (R : SimdRegister T Reg)
    (opDense : DenseLane Reg → DenseLane Reg → Exec (DenseLane Reg)) (opReg : Reg → Reg → Exec Reg)
    (opTail : T → T → Exec T) (dims : Nat) (value : T) (vreg : Reg) (vdense : DenseLane Reg)
    (a result : Slice T) : Exec (Slice T) := do
  let t1 ← R.elements_per_dense
  let offset_from ← umod dims t1
  let i := 0
  let st1 ← loopM E.fuel (i, result)
    (fun st1 => do
      let i := st1.1
      let result := st1.2
      let t3 ← usub E dims offset_from
      pure (decide (i < t3)))
    (fun st1 => do
      let i := st1.1
      let result := st1.2
      let l1 ← R.load_dense a i
      let res ← opDense l1 vdense
      let result ← R.write_dense result i res
      let t7 ← R.elements_per_dense
      let i := (i + t7)
      pure (i, result))
  let i := st1.1
  let result := st1.2
  let t8 ← R.elements_per_lane
  let offset_from ← umod offset_from t8
  let st1 ← loopM E.fuel (i, result)
    (fun st1 => do
      let i := st1.1
      let result := st1.2
      let t10 ← usub E dims offset_from
      pure (decide (i < t10)))
    (fun st1 => do
      let i := st1.1
      let result := st1.2
      let l1 ← R.load a i
      let res ← opReg l1 vreg
      let result ← R.write result i res
      let t14 ← R.elements_per_lane
      let i := (i + t14)
      pure (i, result))
  let i := st1.1
  let result := st1.2
  let st1 ← loopM E.fuel (i, result)
    (fun st1 => do
      let i := st1.1
      let result := st1.2
      pure (decide (i < dims)))
    (fun st1 => do
      let i := st1.1
      let result := st1.2
      let a ← Slice.read a i
      let t17 ← opTail a value
      let result ← Slice.write result i t17
      let i := (i + 1)
      pure (i, result))
  let i := st1.1
  let result := st1.2
  pure result

section
variable {T Reg : Type} {E : Env} {R : SimdRegister T Reg} {L : Nat} {lanes : Reg → Nat → T}
variable {f ft : T → T → T} {ok : T → Prop}

/-- content written by a vector×value kernel whose registers compute `f` and whose scalar tail computes `ft` -/
def mixGv (cut : Nat) (f ft : T → T → T) (a : Slice T) (value : T) : Nat → T :=
  fun j => if j < cut then f (a.get j) value else ft (a.get j) value
variable {opDense : DenseLane Reg → DenseLane Reg → Exec (DenseLane Reg)} {opReg : Reg → Reg → Exec Reg}
variable {opTail : T → T → Exec T}

theorem map1v_dense_step (MF : MemFaithful R L lanes) (LW : Lanewise2 L lanes f ok opReg opDense)
    (dims : Nat) (value : T) (vdense : DenseLane Reg) (hvd : ∀ k, k < L * 8 → dlanes L lanes vdense k = value)
    (a orig : Slice T) (ha : a.size = dims) (hok : ok value) (i : Nat) (res : Slice T)
    (cut : Nat) (hf : Filled dims (mixGv cut f ft a value) orig i res) (hi : i + L * 8 ≤ dims) (hc : i + L * 8 ≤ cut) :
    ∃ res', (do
        let l1 ← R.load_dense a i
        let r ← opDense l1 vdense
        R.write_dense res i r) = pure res'
      ∧ Filled dims (mixGv cut f ft a value) orig (i + L * 8) res' := by
  obtain ⟨d1, e1, h1⟩ := MF.load_dense_ok a i (by omega)
  obtain ⟨d3, e3, h3⟩ := LW.dense d1 vdense (by intro k hk; rw [hvd k hk]; exact hok)
  refine ⟨_, ?_, hf.setRange (L * 8)⟩
  rw [e1]; simp only [pure_bind]
  rw [e3]; simp only [pure_bind]
  rw [MF.write_dense_ok res i d3 (by rw [hf.1]; exact hi)]
  congr 1
  apply Slice.setRange_congr
  intro k hk
  rw [h3 k hk, h1 k hk, hvd k hk]
  show _ = mixGv cut f ft a value (i + k)
  unfold mixGv
  rw [if_pos (by omega)]

theorem map1v_reg_step (MF : MemFaithful R L lanes) (LW : Lanewise2 L lanes f ok opReg opDense)
    (dims : Nat) (value : T) (vreg : Reg) (hvr : ∀ k, k < L → lanes vreg k = value)
    (a orig : Slice T) (ha : a.size = dims) (hok : ok value) (i : Nat) (res : Slice T)
    (cut : Nat) (hf : Filled dims (mixGv cut f ft a value) orig i res) (hi : i + L ≤ dims) (hc : i + L ≤ cut) :
    ∃ res', (do
        let l1 ← R.load a i
        let r ← opReg l1 vreg
        R.write res i r) = pure res'
      ∧ Filled dims (mixGv cut f ft a value) orig (i + L) res' := by
  obtain ⟨d1, e1, h1⟩ := MF.load_ok a i (by omega)
  obtain ⟨d3, e3, h3⟩ := LW.single d1 vreg (by intro k hk; rw [hvr k hk]; exact hok)
  refine ⟨_, ?_, hf.setRange L⟩
  rw [e1]; simp only [pure_bind]
  rw [e3]; simp only [pure_bind]
  rw [MF.write_ok res i d3 (by rw [hf.1]; exact hi)]
  congr 1
  apply Slice.setRange_congr
  intro k hk
  rw [h3 k hk, h1 k hk, hvr k hk]
  show _ = mixGv cut f ft a value (i + k)
  unfold mixGv
  rw [if_pos (by omega)]

theorem map1v_tail_step (SC : Scalar2 ft ok opTail)
    (dims : Nat) (value : T) (a orig : Slice T) (ha : a.size = dims) (hok : ok value) (i : Nat) (res : Slice T)
    (cut : Nat) (hf : Filled dims (mixGv cut f ft a value) orig i res) (hi : i + 1 ≤ dims) (hc : cut ≤ i) :
    ∃ res', (do
        let x ← Slice.read a i
        let t ← opTail x value
        Slice.write res i t) = pure res'
      ∧ Filled dims (mixGv cut f ft a value) orig (i + 1) res' := by
  refine ⟨_, ?_, hf.set⟩
  have h1 : i < a.size := by omega
  have h3 : i < res.size := by rw [hf.1]; omega
  simp only [Slice.read, Slice.write, h1, h3, if_true, pure_bind]
  rw [SC _ _ hok]
  simp [mixGv, show ¬ i < cut by omega]

/-- **vector × scalar core theorem.** With the scalar broadcast into `vreg` / `vdense`, a lane-wise faithful
backend of any lane count, slices of exactly `dims` elements and enough fuel: no fault, `dims` results,
element `j` is `f a[j] value` where a whole register covers it and `ft a[j] value` in the scalar tail, nothing else of
the result slice changes. -/
theorem map1vCore_spec2 (MF : MemFaithful R L lanes) (LW : Lanewise2 L lanes f ok opReg opDense)
    (SC : Scalar2 ft ok opTail)
    (dims : Nat) (value : T) (vreg : Reg) (vdense : DenseLane Reg)
    (hvr : ∀ k, k < L → lanes vreg k = value) (hvd : ∀ k, k < L * 8 → dlanes L lanes vdense k = value)
    (a result : Slice T) (ha : a.size = dims) (hr : result.size = dims)
    (hok : ok value) (hfuel : dims < E.fuel) :
    ∃ res', map1vCore E R opDense opReg opTail dims value vreg vdense a result = pure res'
      ∧ res'.size = dims ∧ (∀ j, j < dims → res'.get j = mixGv (dims - dims % L) f ft a value j)
      ∧ (∀ j, dims ≤ j → res'.get j = result.get j) := by
  have hL := MF.L_pos
  have hK : 0 < L * 8 := by omega
  let q := dims / (L * 8)
  let r := dims % (L * 8)
  have hdims : dims = q * (L * 8) + r := by
    have := Nat.div_add_mod dims (L * 8)
    simp only [q, r]; rw [Nat.mul_comm]; omega
  have hr_lt : r < L * 8 := Nat.mod_lt _ hK
  let n2 := r / L
  let r2 := r % L
  have hr2 : r = n2 * L + r2 := by
    have := Nat.div_add_mod r L
    simp only [n2, r2]; rw [Nat.mul_comm]; omega
  have hr2_lt : r2 < L := Nat.mod_lt _ hL
  let cut := q * (L * 8) + n2 * L
  have hcut : dims - dims % L = cut := by
    have h8 : dims % L = r2 := by
      show dims % L = dims % (L * 8) % L
      rw [Nat.mod_mul_right_mod]
    rw [h8]; omega
  rw [hcut]
  let g : Nat → T := mixGv cut f ft a value
  have hF0 : Filled dims g result 0 result := ⟨hr, by intro j; simp⟩
  obtain ⟨res1, e1, hF1⟩ := iter_fill_range dims (L * 8) 0 (q * (L * 8)) g result
    (fun i res => do
      let l1 ← R.load_dense a i
      let r ← opDense l1 vdense
      R.write_dense res i r)
    (fun i res hf _ hi => map1v_dense_step MF LW dims value vdense hvd a result ha hok i res cut hf (by omega) (by omega))
    q 0 result hF0 (by omega) (by omega)
  obtain ⟨res2, e2, hF2⟩ := iter_fill_range dims L 0 cut g result
    (fun i res => do
      let l1 ← R.load a i
      let r ← opReg l1 vreg
      R.write res i r)
    (fun i res hf _ hi => map1v_reg_step MF LW dims value vreg hvr a result ha hok i res cut hf (by omega) hi)
    n2 (0 + q * (L * 8)) res1 hF1 (by omega) (by omega)
  obtain ⟨res3, e3, hF3⟩ := iter_fill_range dims 1 cut dims g result
    (fun i res => do
      let x ← Slice.read a i
      let t ← opTail x value
      Slice.write res i t)
    (fun i res hf hlo hi => map1v_tail_step SC dims value a result ha hok i res cut hf hi hlo)
    r2 (0 + q * (L * 8) + n2 * L) res2 hF2 (by omega) (by omega)
  have hend : 0 + q * (L * 8) + n2 * L + r2 * 1 = dims := by omega
  rw [hend] at hF3
  refine ⟨res3, ?_, hF3.1, ?_, ?_⟩
  · unfold map1vCore
    simp only [pure_bind, MF.epd, MF.epl, umod_pos _ _ hK, umod_pos _ _ hL]
    rw [loopM_counted E.fuel _ _
      (fun i res => do
        let l1 ← R.load_dense a i
        let r ← opDense l1 vdense
        R.write_dense res i r) (dims - dims % (L * 8)) (L * 8) hK
      (by intro st; rw [usub_le E _ _ (Nat.mod_le _ _)]; simp)
      (by intro st; simp only [bind_assoc, pure_bind])
      q 0 result (by have : q ≤ dims := Nat.div_le_self _ _; omega) (by omega)
      (by intro m hm
          have : (m + 1) * (L * 8) ≤ q * (L * 8) := Nat.mul_le_mul_right _ (by omega)
          rw [Nat.succ_mul] at this
          omega)]
    rw [e1]
    simp only [pure_bind]
    have hmod2 : dims % (L * 8) % L = r2 := rfl
    rw [hmod2]
    rw [loopM_counted E.fuel _ _
      (fun i res => do
        let l1 ← R.load a i
        let r ← opReg l1 vreg
        R.write res i r) (dims - r2) L hL
      (by intro st; rw [usub_le E _ _ (by omega)]; simp)
      (by intro st; simp only [bind_assoc, pure_bind])
      n2 (0 + q * (L * 8)) res1 (by have : n2 ≤ r := Nat.div_le_self _ _; omega) (by omega)
      (by intro m hm
          have : (m + 1) * L ≤ n2 * L := Nat.mul_le_mul_right _ (by omega)
          rw [Nat.succ_mul] at this
          omega)]
    rw [e2]
    simp only [pure_bind]
    rw [loopM_counted E.fuel _ _
      (fun i res => do
        let x ← Slice.read a i
        let t ← opTail x value
        Slice.write res i t) dims 1 (by omega)
      (by intro st; rfl)
      (by intro st; simp only [bind_assoc, pure_bind])
      r2 (0 + q * (L * 8) + n2 * L) res2 (by omega) (by omega)
      (by intro m hm; omega)]
    rw [e3]
    simp only [pure_bind]
  · intro j hj
    rw [hF3.2 j]
    simp [hj, g]
  · intro j hj
    rw [hF3.2 j]
    have : ¬ (j < dims) := by omega
    simp [this]

/-- the single-function form -/
theorem map1vCore_spec (MF : MemFaithful R L lanes) (LW : Lanewise2 L lanes f ok opReg opDense)
    (SC : Scalar2 f ok opTail)
    (dims : Nat) (value : T) (vreg : Reg) (vdense : DenseLane Reg)
    (hvr : ∀ k, k < L → lanes vreg k = value) (hvd : ∀ k, k < L * 8 → dlanes L lanes vdense k = value)
    (a result : Slice T) (ha : a.size = dims) (hr : result.size = dims)
    (hok : ok value) (hfuel : dims < E.fuel) :
    ∃ res', map1vCore E R opDense opReg opTail dims value vreg vdense a result = pure res'
      ∧ res'.size = dims ∧ (∀ j, j < dims → res'.get j = f (a.get j) value)
      ∧ (∀ j, dims ≤ j → res'.get j = result.get j) := by
  obtain ⟨res', e, h1, h2, h3⟩ := map1vCore_spec2 (ft := f) MF LW SC dims value vreg vdense hvr hvd a result ha hr hok hfuel
  refine ⟨res', e, h1, ?_, h3⟩
  intro j hj
  rw [h2 j hj]
  simp [mixGv]

end

end Cfavml
