/-
Bit-level lemmas for the composite x86 operations (8-bit multiply through 16-bit products, 64-bit
multiply through 32-bit partial products, 64-bit max/min through compare + byte blend) and for the
horizontal folds. Core + Std only.
-/
import CfavmlModel.Lemmas.X86Backend
import CfavmlModel.Lemmas.BitVecMonoid
import CfavmlModel.Lemmas.Loop

namespace Cfavml

/-! ### lanes of lanes -/

/-- a `w`-bit lane is a `w`-bit lane of the `(w·m)`-bit lane that contains it -/
theorem lane_lane {n : Nat} (w m q i : Nat) (hi : i < m) (r : BitVec n) :
    lane w (m * q + i) r = lane w i (lane (w * m) q r) := by
  apply BitVec.eq_of_getLsbD_eq
  intro j hj
  rw [getLsbD_lane, getLsbD_lane, getLsbD_lane]
  have h1 : w * i + j < w * m := by
    have : w * (i + 1) ≤ w * m := Nat.mul_le_mul_left w hi
    rw [Nat.mul_succ] at this; omega
  have h2 : w * (m * q + i) + j = w * m * q + (w * i + j) := by
    rw [Nat.mul_add, Nat.mul_assoc]; omega
  simp [hj, h1, h2]

/-- lane `k` in terms of the wide lane `k / m` -/
theorem lane_div_mod {n : Nat} (w m k : Nat) (hm : 0 < m) (r : BitVec n) :
    lane w k r = lane w (k % m) (lane (w * m) (k / m) r) := by
  have h := lane_lane w m (k / m) (k % m) (Nat.mod_lt _ hm) r
  rw [Nat.div_add_mod] at h
  exact h

theorem lane_zero_eq {n : Nat} (w : Nat) (r : BitVec n) : lane w 0 r = r.setWidth w := by
  unfold lane; simp

theorem lane_map1 {w n L : Nat} (hw : 0 < w) (hn : w * L ≤ n) (f : BitVec w → BitVec w) (x : BitVec n)
    (k : Nat) (hk : k < L) : lane w k (X86.map1 w L f x) = f (lane w k x) := by
  unfold X86.map1
  rw [lane_fromLanes w hw L _ k hk hn]

theorem lane_map2 {w n L : Nat} (hw : 0 < w) (hn : w * L ≤ n) (f : BitVec w → BitVec w → BitVec w)
    (x y : BitVec n) (k : Nat) (hk : k < L) :
    lane w k (X86.map2 w L f x y) = f (lane w k x) (lane w k y) := by
  unfold X86.map2
  rw [lane_fromLanes w hw L _ k hk hn]

theorem lane_map3 {w n L : Nat} (hw : 0 < w) (hn : w * L ≤ n) (f : BitVec w → BitVec w → BitVec w → BitVec w)
    (x y z : BitVec n) (k : Nat) (hk : k < L) :
    lane w k (X86.map3 w L f x y z) = f (lane w k x) (lane w k y) (lane w k z) := by
  unfold X86.map3
  rw [lane_fromLanes w hw L _ k hk hn]

theorem lane_bcast {w n L : Nat} (hw : 0 < w) (hn : w * L ≤ n) (v : BitVec w) (k : Nat) (hk : k < L) :
    lane w k (X86.bcast (n := n) w L v) = v := by
  unfold X86.bcast
  rw [lane_fromLanes w hw L _ k hk hn]

/-! ### 8-bit multiply through 16-bit products -/

/-- the low byte of a 16-bit product is the product of the low bytes -/
theorem mul16_low (x y : BitVec 16) : lane 8 0 (x * y) = lane 8 0 x * lane 8 0 y := by
  rw [lane_zero_eq, lane_zero_eq, lane_zero_eq]
  exact BitVec.setWidth_mul x y (by decide)

/-- the arithmetic shift right by 8 exposes the high byte as the low byte -/
theorem sshift8_low (x : BitVec 16) : lane 8 0 (x.sshiftRight 8) = lane 8 1 x := by
  apply BitVec.eq_of_getLsbD_eq
  intro j hj
  rw [getLsbD_lane, getLsbD_lane, BitVec.getLsbD_sshiftRight]
  have h1 : ¬ (16 ≤ j) := by omega
  have h2 : 8 + j < 16 := by omega
  simp [hj, h1, h2]

/-- the high byte of `p <<< 8` is the low byte of `p` -/
theorem shl8_high (p : BitVec 16) : lane 8 1 (p <<< 8) = lane 8 0 p := by
  apply BitVec.eq_of_getLsbD_eq
  intro j hj
  rw [getLsbD_lane, getLsbD_lane, BitVec.getLsbD_shiftLeft]
  have h1 : 8 + j < 16 := by omega
  simp [hj, h1]

/-- the odd byte of the network: `slli(mullo(srai x, srai y))` has the product of the high bytes as
its high byte -/
theorem mul16_high (x y : BitVec 16) :
    lane 8 1 ((x.sshiftRight 8 * y.sshiftRight 8) <<< 8) = lane 8 1 x * lane 8 1 y := by
  rw [shl8_high, mul16_low, sshift8_low, sshift8_low]

/-- the 8-bit multiply network of `impl_avx2.rs` / `impl_avx512.rs`, parametric in the byte blend -/
def mul8Net {n : Nat} (H : Nat) (blend : BitVec n → BitVec n → BitVec n) (a b : BitVec n) : BitVec n :=
  blend (X86.map2 16 H (· * ·) a b)
    (X86.map1 16 H (fun x => x <<< 8)
      (X86.map2 16 H (· * ·) (X86.map1 16 H (fun x => x.sshiftRight 8) a)
        (X86.map1 16 H (fun x => x.sshiftRight 8) b)))

/-- **the 8-bit multiply network is the wrapping 8-bit product in every byte**, for any blend that takes
the even bytes from its first and the odd bytes from its second operand -/
theorem mul8Net_lane {n : Nat} (H : Nat) (hn : 16 * H ≤ n) (blend : BitVec n → BitVec n → BitVec n)
    (hblend : ∀ e o k, k < 2 * H → lane 8 k (blend e o) = if k % 2 = 1 then lane 8 k o else lane 8 k e)
    (a b : BitVec n) (k : Nat) (hk : k < 2 * H) :
    lane 8 k (mul8Net H blend a b) = lane 8 k a * lane 8 k b := by
  have hq : k / 2 < H := by omega
  unfold mul8Net
  rw [hblend _ _ k hk]
  rw [lane_div_mod 8 2 k (by decide) a, lane_div_mod 8 2 k (by decide) b]
  by_cases hodd : k % 2 = 1
  · rw [if_pos hodd, lane_div_mod 8 2 k (by decide), hodd]
    rw [lane_map1 (by decide) hn _ _ _ hq, lane_map2 (by decide) hn _ _ _ _ hq,
      lane_map1 (by decide) hn _ _ _ hq, lane_map1 (by decide) hn _ _ _ hq]
    exact mul16_high _ _
  · have hev : k % 2 = 0 := by omega
    rw [if_neg hodd, lane_div_mod 8 2 k (by decide), hev]
    rw [lane_map2 (by decide) hn _ _ _ _ hq]
    exact mul16_low _ _

/-- the AVX2 blend: `blendv_epi8` with the mask `set1_epi32(0xFF00FF00)` -/
theorem blendv_FF00_lane {n : Nat} (Q : Nat) (hn : 32 * Q ≤ n) (e o : BitVec n) (k : Nat) (hk : k < 4 * Q) :
    lane 8 k (X86.map3 8 (4 * Q) (fun x y m => if m.msb then y else x) e o
        (X86.bcast 32 Q (BitVec.ofNat 32 0xFF00FF00)))
      = if k % 2 = 1 then lane 8 k o else lane 8 k e := by
  rw [lane_map3 (by decide) (by omega) _ _ _ _ k hk]
  rw [lane_div_mod 8 4 k (by decide) (X86.bcast 32 Q _), lane_bcast (by decide) hn _ _ (by omega)]
  have h4 : k % 4 < 4 := Nat.mod_lt _ (by decide)
  have hm : k % 2 = (k % 4) % 2 := by omega
  rw [hm]
  have : ∀ i, i < 4 → (lane 8 i (BitVec.ofNat 32 0xFF00FF00)).msb = decide (i % 2 = 1) := by decide
  rw [this _ h4]
  by_cases h : k % 4 % 2 = 1 <;> simp [h]

/-- the AVX-512 blend: `mask_blend_epi8` with the mask `0xAAAA…` -/
theorem mask_blend_AA_lane (E : Env) (e o : BitVec 512) (k : Nat) (hk : k < 64) :
    lane 8 k (X86._mm512_mask_blend_epi8 E 0xAAAAAAAAAAAAAAAA e o)
      = if k % 2 = 1 then lane 8 k o else lane 8 k e := by
  unfold X86._mm512_mask_blend_epi8
  rw [lane_fromLanes 8 (by decide) 64 _ k hk (by decide)]
  have : ∀ i, i < 64 → X86.bit 0xAAAAAAAAAAAAAAAA i = i % 2 := by decide
  rw [this k hk]

/-! ### ternary operations (`fmadd`) -/

/-- `apply_dense!(op, l1, l2, l3)` -/
def applyDense3 {Reg : Type} (op : Reg → Reg → Reg → Exec Reg) (l1 l2 l3 : DenseLane Reg) :
    Exec (DenseLane Reg) := do
  let t1 ← op l1.a l2.a l3.a
  let t2 ← op l1.b l2.b l3.b
  let t3 ← op l1.c l2.c l3.c
  let t4 ← op l1.d l2.d l3.d
  let t5 ← op l1.e l2.e l3.e
  let t6 ← op l1.f l2.f l3.f
  let t7 ← op l1.g l2.g l3.g
  let t8 ← op l1.h l2.h l3.h
  pure ({ a := t1, b := t2, c := t3, d := t4, e := t5, f := t6, g := t7, h := t8 } : DenseLane _)

theorem fmadd_dense_default {T Reg : Type} (E : Env) (op : Reg → Reg → Reg → Exec Reg) :
    SimdRegisterDefault.fmadd_dense (T := T) E op = applyDense3 op := rfl

/-- a lane-wise ternary single-register operation applied to the eight fields is lane-wise on the dense lane -/
theorem lanewise3_of_applyDense {T Reg : Type} {L : Nat} {lanes : Reg → Nat → T} {f : T → T → T → T}
    {op : Reg → Reg → Reg → Exec Reg} (hL : 0 < L)
    (hs : ∀ x y z, ∃ r, op x y z = pure r ∧ ∀ k, k < L → lanes r k = f (lanes x k) (lanes y k) (lanes z k)) :
    Lanewise3 L lanes f op (applyDense3 op) := by
  refine ⟨hs, ?_⟩
  intro x y z
  obtain ⟨r0, e0, h0⟩ := hs x.a y.a z.a
  obtain ⟨r1, e1, h1⟩ := hs x.b y.b z.b
  obtain ⟨r2, e2, h2⟩ := hs x.c y.c z.c
  obtain ⟨r3, e3, h3⟩ := hs x.d y.d z.d
  obtain ⟨r4, e4, h4⟩ := hs x.e y.e z.e
  obtain ⟨r5, e5, h5⟩ := hs x.f y.f z.f
  obtain ⟨r6, e6, h6⟩ := hs x.g y.g z.g
  obtain ⟨r7, e7, h7⟩ := hs x.h y.h z.h
  refine ⟨⟨r0, r1, r2, r3, r4, r5, r6, r7⟩, ?_, ?_⟩
  · unfold applyDense3
    rw [e0]; simp only [pure_bind]
    rw [e1]; simp only [pure_bind]
    rw [e2]; simp only [pure_bind]
    rw [e3]; simp only [pure_bind]
    rw [e4]; simp only [pure_bind]
    rw [e5]; simp only [pure_bind]
    rw [e6]; simp only [pure_bind]
    rw [e7]; simp only [pure_bind]
  · intro k hk
    have hq := div_lt_8 hL hk
    have hkm : k % L < L := Nat.mod_lt _ hL
    simp only [dlanes_nth]
    refine forall_lt_8 (fun q => lanes (DenseLane.nth _ q) (k % L)
        = f (lanes (DenseLane.nth x q) (k % L)) (lanes (DenseLane.nth y q) (k % L))
            (lanes (DenseLane.nth z q) (k % L)))
      ?_ ?_ ?_ ?_ ?_ ?_ ?_ ?_ (k / L) hq
    all_goals simp only [DenseLane.nth]
    · exact h0 _ hkm
    · exact h1 _ hkm
    · exact h2 _ hkm
    · exact h3 _ hkm
    · exact h4 _ hkm
    · exact h5 _ hkm
    · exact h6 _ hkm
    · exact h7 _ hkm

/-- a fused multiply-add that is one lane-wise intrinsic, with the default dense form -/
theorem lanewise3_of_map3 {w n L : Nat} (hw : 0 < w) (hL : 0 < L) (hn : w * L ≤ n)
    (f : BitVec w → BitVec w → BitVec w → BitVec w)
    (op : BitVec n → BitVec n → BitVec n → Exec (BitVec n))
    (hop : ∀ x y z, op x y z = pure (X86.map3 w L f x y z))
    (opD : DenseLane (BitVec n) → DenseLane (BitVec n) → DenseLane (BitVec n) → Exec (DenseLane (BitVec n)))
    (hD : opD = applyDense3 op) :
    Lanewise3 L (xlanes w) f op opD := by
  rw [hD]
  exact lanewise3_of_applyDense hL (fun x y z => ⟨_, hop x y z, fun k hk => xlanes_map3 hw hn f x y z k hk⟩)

/-! ### horizontal folds: algebra -/

section foldalg
variable {T : Type} {op : T → T → T} {e : T}

theorem sumR_add4 (g : Nat → T) (m : Nat) :
    sumR op e g (m + 4) = op (op (op (op (sumR op e g m) (g m)) (g (m + 1))) (g (m + 2))) (g (m + 3)) := rfl

theorem CommMonoidOn.interleave4 (hm : CommMonoidOn op e) (A B C D a b c d : T) :
    op (op (op A a) (op B b)) (op (op C c) (op D d))
      = op (op (op (op (op (op A B) (op C D)) a) b) c) d := by
  rw [hm.swap4 A a B b, hm.swap4 C c D d, hm.swap4 (op A B) (op a b) (op C D) (op c d)]
  simp only [hm.assoc]

/-- four interleaved left-to-right accumulators over `4·n` values (`s_j = e ⊕ g j ⊕ g (j+4) ⊕ …`),
combined as `(s0 ⊕ s1) ⊕ (s2 ⊕ s3)` — the scalar tail of the 8/16-bit horizontal folds -/
def hfold4 (op : T → T → T) (e : T) (n : Nat) (g : Nat → T) : T :=
  op (op (sumR op e (fun i => g (4 * i)) n) (sumR op e (fun i => g (4 * i + 1)) n))
    (op (sumR op e (fun i => g (4 * i + 2)) n) (sumR op e (fun i => g (4 * i + 3)) n))

theorem hfold4_congr (n : Nat) (g g' : Nat → T) (h : ∀ k, k < 4 * n → g k = g' k) :
    hfold4 op e n g = hfold4 op e n g' := by
  unfold hfold4
  rw [sumR_congr (fun i => g (4 * i)) (fun i => g' (4 * i)) n (fun k hk => h _ (by omega)),
    sumR_congr (fun i => g (4 * i + 1)) (fun i => g' (4 * i + 1)) n (fun k hk => h _ (by omega)),
    sumR_congr (fun i => g (4 * i + 2)) (fun i => g' (4 * i + 2)) n (fun k hk => h _ (by omega)),
    sumR_congr (fun i => g (4 * i + 3)) (fun i => g' (4 * i + 3)) n (fun k hk => h _ (by omega))]

/-- in a commutative monoid the four interleaved accumulators compute the plain sum -/
theorem hfold4_eq_sumR (hm : CommMonoidOn op e) (n : Nat) (g : Nat → T) :
    hfold4 op e n g = sumR op e g (4 * n) := by
  induction n with
  | zero => simp [hfold4, hm.id_left]
  | succ n ih =>
    rw [Nat.mul_succ, sumR_add4, ← ih]
    unfold hfold4
    simp only [sumR_succ]
    exact hm.interleave4 _ _ _ _ _ _ _ _

/-- combining the upper half onto the lower half first does not change the sum -/
theorem sumR_halves (hm : CommMonoidOn op e) (f : Nat → T) (C : Nat) :
    sumR op e (fun k => op (f (C + k)) (f k)) C = sumR op e f (C + C) := by
  rw [sumR_distrib hm (fun k => f (C + k)) f, hm.comm, ← sumR_append hm]

/-- the 8/16-bit fold: halves combined lane-wise, then `hfold4` over the `C = 4·n` lanes -/
def hfoldHalf4 (op : T → T → T) (e : T) (C n : Nat) (f : Nat → T) : T :=
  hfold4 op e n (fun k => op (f (C + k)) (f k))

theorem hfoldHalf4_eq_sumR (hm : CommMonoidOn op e) (n : Nat) (f : Nat → T) :
    hfoldHalf4 op e (4 * n) n f = sumR op e f (4 * n + 4 * n) := by
  unfold hfoldHalf4
  rw [hfold4_eq_sumR hm, sumR_halves hm]

/-- the 32-bit fold: halves combined, then `(g0 ⊕ g1) ⊕ (g2 ⊕ g3)` -/
def hfoldHalfQ (op : T → T → T) (f : Nat → T) : T :=
  op (op (op (f 4) (f 0)) (op (f 5) (f 1))) (op (op (f 6) (f 2)) (op (f 7) (f 3)))

theorem hfoldHalfQ_eq_sumR (hm : CommMonoidOn op e) (f : Nat → T) :
    hfoldHalfQ op f = sumR op e f 8 := by
  have h := sumR_halves hm f 4
  simp only [sumR, hm.id_left] at h
  unfold hfoldHalfQ
  simp only [sumR, hm.id_left] 
  rw [← h]
  simp only [hm.assoc]

/-- the 64-bit fold: halves combined, then `g0 ⊕ g1` -/
def hfoldHalfD (op : T → T → T) (f : Nat → T) : T := op (op (f 2) (f 0)) (op (f 3) (f 1))

theorem hfoldHalfD_eq_sumR (hm : CommMonoidOn op e) (f : Nat → T) :
    hfoldHalfD op f = sumR op e f 4 := by
  have h := sumR_halves hm f 2
  simp only [sumR, hm.id_left] at h
  unfold hfoldHalfD
  simp only [sumR, hm.id_left]
  rw [← h]

/-- the AVX-512 8/16-bit folds: 256-bit halves combined first, then the AVX2 fold -/
def hfoldHalf512 (op : T → T → T) (e : T) (C n : Nat) (f : Nat → T) : T :=
  hfoldHalf4 op e C n (fun k => op (f (C + C + k)) (f k))

theorem hfoldHalf512_eq_sumR (hm : CommMonoidOn op e) (n : Nat) (f : Nat → T) :
    hfoldHalf512 op e (4 * n) n f = sumR op e f (4 * n + 4 * n + (4 * n + 4 * n)) := by
  unfold hfoldHalf512
  rw [hfoldHalf4_eq_sumR hm, sumR_halves hm]

theorem reduceOrdered_eq_sumR (init : T) (cnt : Nat) (v : Nat → T) :
    X86.reduceOrdered op init cnt v = sumR op init v cnt := by
  unfold X86.reduceOrdered
  induction cnt with
  | zero => rfl
  | succ n ih => rw [List.range_succ, List.foldl_append, ih]; rfl

end foldalg

/-! ### horizontal folds: the scalar loop -/

section foldloop
variable {T : Type}

/-- the 4-accumulator scalar loop of the 8/16-bit horizontal folds -/
def fold4Loop (fuel : Nat) (op : T → T → T) (e : T) (B : Nat) (u : Slice T) : Exec T := do
  let st1 ← loopM fuel ((0 : Nat), e, e, e, e)
    (fun st1 => pure (decide (st1.1 < B)))
    (fun st1 => do
      let t1 ← arrGet u st1.1
      let t2 ← arrGet u (st1.1 + 1)
      let t3 ← arrGet u (st1.1 + 2)
      let t4 ← arrGet u (st1.1 + 3)
      pure (st1.1 + 4, op st1.2.1 t1, op st1.2.2.1 t2, op st1.2.2.2.1 t3, op st1.2.2.2.2 t4))
  pure (op (op st1.2.1 st1.2.2.1) (op st1.2.2.2.1 st1.2.2.2.2))

/-- with `n < fuel` the loop over an array of `4·n` values never faults and computes `hfold4` -/
theorem fold4Loop_eq (fuel : Nat) (op : T → T → T) (e : T) (n : Nat) (u : Slice T) (hsz : u.size = 4 * n)
    (hfuel : n < fuel) : fold4Loop fuel op e (4 * n) u = pure (hfold4 op e n u.get) := by
  unfold fold4Loop
  let step : Nat → T × T × T × T → Exec (T × T × T × T) := fun i s => do
    let t1 ← arrGet u i
    let t2 ← arrGet u (i + 1)
    let t3 ← arrGet u (i + 2)
    let t4 ← arrGet u (i + 3)
    pure (op s.1 t1, op s.2.1 t2, op s.2.2.1 t3, op s.2.2.2 t4)
  rw [loopM_counted fuel _ _ step (4 * n) 4 (by decide) (fun _ => rfl) (fun st => by simp [step])
    n 0 (e, e, e, e) hfuel (by omega) (by intro m hm; omega)]
  obtain ⟨s', hs', hinv⟩ := iter_inv step 4 0
    (fun m s => s = (sumR op e (fun i => u.get (4 * i)) m, sumR op e (fun i => u.get (4 * i + 1)) m,
      sumR op e (fun i => u.get (4 * i + 2)) m, sumR op e (fun i => u.get (4 * i + 3)) m))
    n (e, e, e, e) rfl (by
      intro m hm s hs
      have e0 : 0 + m * 4 = 4 * m := by omega
      have h0 : 4 * m < u.size := by omega
      have h1 : 4 * m + 1 < u.size := by omega
      have h2 : 4 * m + 2 < u.size := by omega
      have h3 : 4 * m + 3 < u.size := by omega
      refine ⟨_, ?_, rfl⟩
      subst hs
      rw [e0]
      simp only [step, arrGet, h0, h1, h2, h3, if_true, pure_bind, sumR_succ])
  rw [hs', hinv]
  rfl

end foldloop

/-! ### horizontal folds: the 128-bit halves of a 256-bit register, the 256-bit halves of a 512-bit one -/

theorem lane_setWidth {n m : Nat} (w k : Nat) (r : BitVec n) (hk : w * (k + 1) ≤ m) :
    lane w k (r.setWidth m) = lane w k r := by
  apply BitVec.eq_of_getLsbD_eq
  intro j hj
  rw [getLsbD_lane, getLsbD_lane, BitVec.getLsbD_setWidth]
  have : w * k + j < m := by rw [Nat.mul_succ] at hk; omega
  simp [this]

theorem lane_ushiftRight {n : Nat} (w c k : Nat) (r : BitVec n) :
    lane w k (r >>> (w * c)) = lane w (c + k) r := by
  apply BitVec.eq_of_getLsbD_eq
  intro j hj
  rw [getLsbD_lane, getLsbD_lane, BitVec.getLsbD_ushiftRight, Nat.mul_add, Nat.add_assoc]

/-- `op(extract128(r, 1), cast128(r))` lane-wise -/
def half128 (w C : Nat) (op : BitVec w → BitVec w → BitVec w) (r : BitVec 256) : BitVec 128 :=
  X86.map2 w C op ((r >>> 128).setWidth 128) (r.setWidth 128)

theorem lane_half128 {w : Nat} (hw : 0 < w) (C : Nat) (hC : w * C = 128) (op : BitVec w → BitVec w → BitVec w)
    (r : BitVec 256) (k : Nat) (hk : k < C) :
    lane w k (half128 w C op r) = op (lane w (C + k) r) (lane w k r) := by
  have hk1 : w * (k + 1) ≤ 128 := by rw [← hC]; exact Nat.mul_le_mul_left w hk
  unfold half128
  rw [lane_map2 hw (by omega) _ _ _ _ hk, lane_setWidth w k _ hk1, lane_setWidth w k _ hk1, ← hC,
    lane_ushiftRight]

end Cfavml
