/-
Bit-level lemmas for the composite x86 operations (8-bit multiply through 16-bit products, 64-bit
multiply through 32-bit partial products, 64-bit max/min through compare + byte blend) and for the
horizontal folds. Core + Std only.
-/
import CfavmlModel.Lemmas.X86Backend
import CfavmlModel.Lemmas.BitVecMonoid
import CfavmlModel.Lemmas.Loop

namespace Cfavml

/-! ### lanes of lanes -/

/-- a `w`-bit lane is a `w`-bit lane of the `(w·m)`-bit lane that contains it -/
theorem lane_lane {n : Nat} (w m q i : Nat) (hi : i < m) (r : BitVec n) :
    lane w (m * q + i) r = lane w i (lane (w * m) q r) := by
  apply BitVec.eq_of_getLsbD_eq
  intro j hj
  rw [getLsbD_lane, getLsbD_lane, getLsbD_lane]
  have h1 : w * i + j < w * m := by
    have : w * (i + 1) ≤ w * m := Nat.mul_le_mul_left w hi
    rw [Nat.mul_succ] at this; omega
  have h2 : w * (m * q + i) + j = w * m * q + (w * i + j) := by
    rw [Nat.mul_add, Nat.mul_assoc]; omega
  simp [hj, h1, h2]

/-- lane `k` in terms of the wide lane `k / m` -/
theorem lane_div_mod {n : Nat} (w m k : Nat) (hm : 0 < m) (r : BitVec n) :
    lane w k r = lane w (k % m) (lane (w * m) (k / m) r) := by
  have h := lane_lane w m (k / m) (k % m) (Nat.mod_lt _ hm) r
  rw [Nat.div_add_mod] at h
  exact h

theorem lane_zero_eq {n : Nat} (w : Nat) (r : BitVec n) : lane w 0 r = r.setWidth w := by
  unfold lane; simp

theorem lane_map1 {w n L : Nat} (hw : 0 < w) (hn : w * L ≤ n) (f : BitVec w → BitVec w) (x : BitVec n)
    (k : Nat) (hk : k < L) : lane w k (X86.map1 w L f x) = f (lane w k x) := by
  unfold X86.map1
  rw [lane_fromLanes w hw L _ k hk hn]

theorem lane_map2 {w n L : Nat} (hw : 0 < w) (hn : w * L ≤ n) (f : BitVec w → BitVec w → BitVec w)
    (x y : BitVec n) (k : Nat) (hk : k < L) :
    lane w k (X86.map2 w L f x y) = f (lane w k x) (lane w k y) := by
  unfold X86.map2
  rw [lane_fromLanes w hw L _ k hk hn]

theorem lane_map3 {w n L : Nat} (hw : 0 < w) (hn : w * L ≤ n) (f : BitVec w → BitVec w → BitVec w → BitVec w)
    (x y z : BitVec n) (k : Nat) (hk : k < L) :
    lane w k (X86.map3 w L f x y z) = f (lane w k x) (lane w k y) (lane w k z) := by
  unfold X86.map3
  rw [lane_fromLanes w hw L _ k hk hn]

theorem lane_bcast {w n L : Nat} (hw : 0 < w) (hn : w * L ≤ n) (v : BitVec w) (k : Nat) (hk : k < L) :
    lane w k (X86.bcast (n := n) w L v) = v := by
  unfold X86.bcast
  rw [lane_fromLanes w hw L _ k hk hn]

/-! ### 8-bit multiply through 16-bit products -/

/-- the low byte of a 16-bit product is the product of the low bytes -/
theorem mul16_low (x y : BitVec 16) : lane 8 0 (x * y) = lane 8 0 x * lane 8 0 y := by
  rw [lane_zero_eq, lane_zero_eq, lane_zero_eq]
  exact BitVec.setWidth_mul x y (by decide)

/-- the arithmetic shift right by 8 exposes the high byte as the low byte -/
theorem sshift8_low (x : BitVec 16) : lane 8 0 (x.sshiftRight 8) = lane 8 1 x := by
  apply BitVec.eq_of_getLsbD_eq
  intro j hj
  rw [getLsbD_lane, getLsbD_lane, BitVec.getLsbD_sshiftRight]
  have h1 : ¬ (16 ≤ j) := by omega
  have h2 : 8 + j < 16 := by omega
  simp [hj, h1, h2]

/-- the high byte of `p <<< 8` is the low byte of `p` -/
theorem shl8_high (p : BitVec 16) : lane 8 1 (p <<< 8) = lane 8 0 p := by
  apply BitVec.eq_of_getLsbD_eq
  intro j hj
  rw [getLsbD_lane, getLsbD_lane, BitVec.getLsbD_shiftLeft]
  have h1 : 8 + j < 16 := by omega
  simp [hj, h1]

/-- the odd byte of the network: `slli(mullo(srai x, srai y))` has the product of the high bytes as
its high byte -/
theorem mul16_high (x y : BitVec 16) :
    lane 8 1 ((x.sshiftRight 8 * y.sshiftRight 8) <<< 8) = lane 8 1 x * lane 8 1 y := by
  rw [shl8_high, mul16_low, sshift8_low, sshift8_low]

/-- the 8-bit multiply network of `impl_avx2.rs` / `impl_avx512.rs`, parametric in the byte blend -/
def mul8Net {n : Nat} (H : Nat) (blend : BitVec n → BitVec n → BitVec n) (a b : BitVec n) : BitVec n :=
  blend (X86.map2 16 H (· * ·) a b)
    (X86.map1 16 H (fun x => x <<< 8)
      (X86.map2 16 H (· * ·) (X86.map1 16 H (fun x => x.sshiftRight 8) a)
        (X86.map1 16 H (fun x => x.sshiftRight 8) b)))

/-- **the 8-bit multiply network is the wrapping 8-bit product in every byte**, for any blend that takes
the even bytes from its first and the odd bytes from its second operand -/
theorem mul8Net_lane {n : Nat} (H : Nat) (hn : 16 * H ≤ n) (blend : BitVec n → BitVec n → BitVec n)
    (hblend : ∀ e o k, k < 2 * H → lane 8 k (blend e o) = if k % 2 = 1 then lane 8 k o else lane 8 k e)
    (a b : BitVec n) (k : Nat) (hk : k < 2 * H) :
    lane 8 k (mul8Net H blend a b) = lane 8 k a * lane 8 k b := by
  have hq : k / 2 < H := by omega
  unfold mul8Net
  rw [hblend _ _ k hk]
  rw [lane_div_mod 8 2 k (by decide) a, lane_div_mod 8 2 k (by decide) b]
  by_cases hodd : k % 2 = 1
  · rw [if_pos hodd, lane_div_mod 8 2 k (by decide), hodd]
    rw [lane_map1 (by decide) hn _ _ _ hq, lane_map2 (by decide) hn _ _ _ _ hq,
      lane_map1 (by decide) hn _ _ _ hq, lane_map1 (by decide) hn _ _ _ hq]
    exact mul16_high _ _
  · have hev : k % 2 = 0 := by omega
    rw [if_neg hodd, lane_div_mod 8 2 k (by decide), hev]
    rw [lane_map2 (by decide) hn _ _ _ _ hq]
    exact mul16_low _ _

/-- the AVX2 blend: `blendv_epi8` with the mask `set1_epi32(0xFF00FF00)` -/
theorem blendv_FF00_lane {n : Nat} (Q : Nat) (hn : 32 * Q ≤ n) (e o : BitVec n) (k : Nat) (hk : k < 4 * Q) :
    lane 8 k (X86.map3 8 (4 * Q) (fun x y m => if m.msb then y else x) e o
        (X86.bcast 32 Q (BitVec.ofNat 32 0xFF00FF00)))
      = if k % 2 = 1 then lane 8 k o else lane 8 k e := by
  rw [lane_map3 (by decide) (by omega) _ _ _ _ k hk]
  rw [lane_div_mod 8 4 k (by decide) (X86.bcast 32 Q _), lane_bcast (by decide) hn _ _ (by omega)]
  have h4 : k % 4 < 4 := Nat.mod_lt _ (by decide)
  have hm : k % 2 = (k % 4) % 2 := by omega
  rw [hm]
  have : ∀ i, i < 4 → (lane 8 i (BitVec.ofNat 32 0xFF00FF00)).msb = decide (i % 2 = 1) := by decide
  rw [this _ h4]
  by_cases h : k % 4 % 2 = 1 <;> simp [h]

/-- the AVX-512 blend: `mask_blend_epi8` with the mask `0xAAAA…` -/
theorem mask_blend_AA_lane (E : Env) (e o : BitVec 512) (k : Nat) (hk : k < 64) :
    lane 8 k (X86._mm512_mask_blend_epi8 E 0xAAAAAAAAAAAAAAAA e o)
      = if k % 2 = 1 then lane 8 k o else lane 8 k e := by
  unfold X86._mm512_mask_blend_epi8
  rw [lane_fromLanes 8 (by decide) 64 _ k hk (by decide)]
  have : ∀ i, i < 64 → X86.bit 0xAAAAAAAAAAAAAAAA i = i % 2 := by decide
  rw [this k hk]

/-! ### ternary operations (`fmadd`) -/

/-- `apply_dense!(op, l1, l2, l3)` -/
def applyDense3 {Reg : Type} (op : Reg → Reg → Reg → Exec Reg) (l1 l2 l3 : DenseLane Reg) :
    Exec (DenseLane Reg) := do
  let t1 ← op l1.a l2.a l3.a
  let t2 ← op l1.b l2.b l3.b
  let t3 ← op l1.c l2.c l3.c
  let t4 ← op l1.d l2.d l3.d
  let t5 ← op l1.e l2.e l3.e
  let t6 ← op l1.f l2.f l3.f
  let t7 ← op l1.g l2.g l3.g
  let t8 ← op l1.h l2.h l3.h
  pure ({ a := t1, b := t2, c := t3, d := t4, e := t5, f := t6, g := t7, h := t8 } : DenseLane _)

theorem fmadd_dense_default {T Reg : Type} (E : Env) (op : Reg → Reg → Reg → Exec Reg) :
    SimdRegisterDefault.fmadd_dense (T := T) E op = applyDense3 op := rfl

/-- a lane-wise ternary single-register operation applied to the eight fields is lane-wise on the dense lane -/
theorem lanewise3_of_applyDense {T Reg : Type} {L : Nat} {lanes : Reg → Nat → T} {f : T → T → T → T}
    {op : Reg → Reg → Reg → Exec Reg} (hL : 0 < L)
    (hs : ∀ x y z, ∃ r, op x y z = pure r ∧ ∀ k, k < L → lanes r k = f (lanes x k) (lanes y k) (lanes z k)) :
    Lanewise3 L lanes f op (applyDense3 op) := by
  refine ⟨hs, ?_⟩
  intro x y z
  obtain ⟨r0, e0, h0⟩ := hs x.a y.a z.a
  obtain ⟨r1, e1, h1⟩ := hs x.b y.b z.b
  obtain ⟨r2, e2, h2⟩ := hs x.c y.c z.c
  obtain ⟨r3, e3, h3⟩ := hs x.d y.d z.d
  obtain ⟨r4, e4, h4⟩ := hs x.e y.e z.e
  obtain ⟨r5, e5, h5⟩ := hs x.f y.f z.f
  obtain ⟨r6, e6, h6⟩ := hs x.g y.g z.g
  obtain ⟨r7, e7, h7⟩ := hs x.h y.h z.h
  refine ⟨⟨r0, r1, r2, r3, r4, r5, r6, r7⟩, ?_, ?_⟩
  · unfold applyDense3
    rw [e0]; simp only [pure_bind]
    rw [e1]; simp only [pure_bind]
    rw [e2]; simp only [pure_bind]
    rw [e3]; simp only [pure_bind]
    rw [e4]; simp only [pure_bind]
    rw [e5]; simp only [pure_bind]
    rw [e6]; simp only [pure_bind]
    rw [e7]; simp only [pure_bind]
  · intro k hk
    have hq := div_lt_8 hL hk
    have hkm : k % L < L := Nat.mod_lt _ hL
    simp only [dlanes_nth]
    refine forall_lt_8 (fun q => lanes (DenseLane.nth _ q) (k % L)
        = f (lanes (DenseLane.nth x q) (k % L)) (lanes (DenseLane.nth y q) (k % L))
            (lanes (DenseLane.nth z q) (k % L)))
      ?_ ?_ ?_ ?_ ?_ ?_ ?_ ?_ (k / L) hq
    all_goals simp only [DenseLane.nth]
    · exact h0 _ hkm
    · exact h1 _ hkm
    · exact h2 _ hkm
    · exact h3 _ hkm
    · exact h4 _ hkm
    · exact h5 _ hkm
    · exact h6 _ hkm
    · exact h7 _ hkm

/-- a fused multiply-add that is one lane-wise intrinsic, with the default dense form -/
theorem lanewise3_of_map3 {w n L : Nat} (hw : 0 < w) (hL : 0 < L) (hn : w * L ≤ n)
    (f : BitVec w → BitVec w → BitVec w → BitVec w)
    (op : BitVec n → BitVec n → BitVec n → Exec (BitVec n))
    (hop : ∀ x y z, op x y z = pure (X86.map3 w L f x y z))
    (opD : DenseLane (BitVec n) → DenseLane (BitVec n) → DenseLane (BitVec n) → Exec (DenseLane (BitVec n)))
    (hD : opD = applyDense3 op) :
    Lanewise3 L (xlanes w) f op opD := by
  rw [hD]
  exact lanewise3_of_applyDense hL (fun x y z => ⟨_, hop x y z, fun k hk => xlanes_map3 hw hn f x y z k hk⟩)

/-! ### horizontal folds: algebra -/

section foldalg
variable {T : Type} {op : T → T → T} {e : T}

theorem sumR_add4 (g : Nat → T) (m : Nat) :
    sumR op e g (m + 4) = op (op (op (op (sumR op e g m) (g m)) (g (m + 1))) (g (m + 2))) (g (m + 3)) := rfl

theorem CommMonoidOn.interleave4 (hm : CommMonoidOn op e) (A B C D a b c d : T) :
    op (op (op A a) (op B b)) (op (op C c) (op D d))
      = op (op (op (op (op (op A B) (op C D)) a) b) c) d := by
  rw [hm.swap4 A a B b, hm.swap4 C c D d, hm.swap4 (op A B) (op a b) (op C D) (op c d)]
  simp only [hm.assoc]

/-- four interleaved left-to-right accumulators over `4·n` values (`s_j = e ⊕ g j ⊕ g (j+4) ⊕ …`),
combined as `(s0 ⊕ s1) ⊕ (s2 ⊕ s3)` — the scalar tail of the 8/16-bit horizontal folds -/
def hfold4 (op : T → T → T) (e : T) (n : Nat) (g : Nat → T) : T :=
  op (op (sumR op e (fun i => g (4 * i)) n) (sumR op e (fun i => g (4 * i + 1)) n))
    (op (sumR op e (fun i => g (4 * i + 2)) n) (sumR op e (fun i => g (4 * i + 3)) n))

theorem hfold4_congr (n : Nat) (g g' : Nat → T) (h : ∀ k, k < 4 * n → g k = g' k) :
    hfold4 op e n g = hfold4 op e n g' := by
  unfold hfold4
  rw [sumR_congr (fun i => g (4 * i)) (fun i => g' (4 * i)) n (fun k hk => h _ (by omega)),
    sumR_congr (fun i => g (4 * i + 1)) (fun i => g' (4 * i + 1)) n (fun k hk => h _ (by omega)),
    sumR_congr (fun i => g (4 * i + 2)) (fun i => g' (4 * i + 2)) n (fun k hk => h _ (by omega)),
    sumR_congr (fun i => g (4 * i + 3)) (fun i => g' (4 * i + 3)) n (fun k hk => h _ (by omega))]

/-- in a commutative monoid the four interleaved accumulators compute the plain sum -/
theorem hfold4_eq_sumR (hm : CommMonoidOn op e) (n : Nat) (g : Nat → T) :
    hfold4 op e n g = sumR op e g (4 * n) := by
  induction n with
  | zero => simp [hfold4, hm.id_left]
  | succ n ih =>
    rw [Nat.mul_succ, sumR_add4, ← ih]
    unfold hfold4
    simp only [sumR_succ]
    exact hm.interleave4 _ _ _ _ _ _ _ _

/-- combining the upper half onto the lower half first does not change the sum -/
theorem sumR_halves (hm : CommMonoidOn op e) (f : Nat → T) (C : Nat) :
    sumR op e (fun k => op (f (C + k)) (f k)) C = sumR op e f (C + C) := by
  rw [sumR_distrib hm (fun k => f (C + k)) f, hm.comm, ← sumR_append hm]

/-- the 8/16-bit fold: halves combined lane-wise, then `hfold4` over the `C = 4·n` lanes -/
def hfoldHalf4 (op : T → T → T) (e : T) (C n : Nat) (f : Nat → T) : T :=
  hfold4 op e n (fun k => op (f (C + k)) (f k))

theorem hfoldHalf4_eq_sumR (hm : CommMonoidOn op e) (n : Nat) (f : Nat → T) :
    hfoldHalf4 op e (4 * n) n f = sumR op e f (4 * n + 4 * n) := by
  unfold hfoldHalf4
  rw [hfold4_eq_sumR hm, sumR_halves hm]

/-- the 32-bit fold: halves combined, then `(g0 ⊕ g1) ⊕ (g2 ⊕ g3)` -/
def hfoldHalfQ (op : T → T → T) (f : Nat → T) : T :=
  op (op (op (f 4) (f 0)) (op (f 5) (f 1))) (op (op (f 6) (f 2)) (op (f 7) (f 3)))

theorem hfoldHalfQ_eq_sumR (hm : CommMonoidOn op e) (f : Nat → T) :
    hfoldHalfQ op f = sumR op e f 8 := by
  have h := sumR_halves hm f 4
  simp only [sumR, hm.id_left] at h
  unfold hfoldHalfQ
  simp only [sumR, hm.id_left] 
  rw [← h]
  simp only [hm.assoc]

/-- the 64-bit fold: halves combined, then `g0 ⊕ g1` -/
def hfoldHalfD (op : T → T → T) (f : Nat → T) : T := op (op (f 2) (f 0)) (op (f 3) (f 1))

theorem hfoldHalfD_eq_sumR (hm : CommMonoidOn op e) (f : Nat → T) :
    hfoldHalfD op f = sumR op e f 4 := by
  have h := sumR_halves hm f 2
  simp only [sumR, hm.id_left] at h
  unfold hfoldHalfD
  simp only [sumR, hm.id_left]
  rw [← h]

/-- the AVX-512 8/16-bit folds: 256-bit halves combined first, then the AVX2 fold -/
def hfoldHalf512 (op : T → T → T) (e : T) (C n : Nat) (f : Nat → T) : T :=
  hfoldHalf4 op e C n (fun k => op (f (C + C + k)) (f k))

theorem hfoldHalf512_eq_sumR (hm : CommMonoidOn op e) (n : Nat) (f : Nat → T) :
    hfoldHalf512 op e (4 * n) n f = sumR op e f (4 * n + 4 * n + (4 * n + 4 * n)) := by
  unfold hfoldHalf512
  rw [hfoldHalf4_eq_sumR hm, sumR_halves hm]

theorem reduceOrdered_eq_sumR (init : T) (cnt : Nat) (v : Nat → T) :
    X86.reduceOrdered op init cnt v = sumR op init v cnt := by
  unfold X86.reduceOrdered
  induction cnt with
  | zero => rfl
  | succ n ih => rw [List.range_succ, List.foldl_append, ih]; rfl

end foldalg

/-! ### horizontal folds: the scalar loop -/

section foldloop
variable {T : Type}

/-- the 4-accumulator scalar loop of the 8/16-bit horizontal folds -/
def fold4Loop (fuel : Nat) (op : T → T → T) (e : T) (B : Nat) (u : Slice T) : Exec T := do
  let st1 ← loopM fuel ((0 : Nat), e, e, e, e)
    (fun st1 => pure (decide (st1.1 < B)))
    (fun st1 => do
      let t1 ← arrGet u st1.1
      let t2 ← arrGet u (st1.1 + 1)
      let t3 ← arrGet u (st1.1 + 2)
      let t4 ← arrGet u (st1.1 + 3)
      pure (st1.1 + 4, op st1.2.1 t1, op st1.2.2.1 t2, op st1.2.2.2.1 t3, op st1.2.2.2.2 t4))
  pure (op (op st1.2.1 st1.2.2.1) (op st1.2.2.2.1 st1.2.2.2.2))

/-- with `n < fuel` the loop over an array of `4·n` values never faults and computes `hfold4` -/
theorem fold4Loop_eq (fuel : Nat) (op : T → T → T) (e : T) (n : Nat) (u : Slice T) (hsz : u.size = 4 * n)
    (hfuel : n < fuel) : fold4Loop fuel op e (4 * n) u = pure (hfold4 op e n u.get) := by
  unfold fold4Loop
  let step : Nat → T × T × T × T → Exec (T × T × T × T) := fun i s => do
    let t1 ← arrGet u i
    let t2 ← arrGet u (i + 1)
    let t3 ← arrGet u (i + 2)
    let t4 ← arrGet u (i + 3)
    pure (op s.1 t1, op s.2.1 t2, op s.2.2.1 t3, op s.2.2.2 t4)
  rw [loopM_counted fuel _ _ step (4 * n) 4 (by decide) (fun _ => rfl) (fun st => by simp [step])
    n 0 (e, e, e, e) hfuel (by omega) (by intro m hm; omega)]
  obtain ⟨s', hs', hinv⟩ := iter_inv step 4 0
    (fun m s => s = (sumR op e (fun i => u.get (4 * i)) m, sumR op e (fun i => u.get (4 * i + 1)) m,
      sumR op e (fun i => u.get (4 * i + 2)) m, sumR op e (fun i => u.get (4 * i + 3)) m))
    n (e, e, e, e) rfl (by
      intro m hm s hs
      have e0 : 0 + m * 4 = 4 * m := by omega
      have h0 : 4 * m < u.size := by omega
      have h1 : 4 * m + 1 < u.size := by omega
      have h2 : 4 * m + 2 < u.size := by omega
      have h3 : 4 * m + 3 < u.size := by omega
      refine ⟨_, ?_, rfl⟩
      subst hs
      rw [e0]
      simp only [step, arrGet, h0, h1, h2, h3, if_true, pure_bind, sumR_succ])
  rw [hs', hinv]
  rfl

end foldloop

/-! ### horizontal folds: the 128-bit halves of a 256-bit register, the 256-bit halves of a 512-bit one -/

theorem lane_setWidth {n m : Nat} (w k : Nat) (r : BitVec n) (hk : w * (k + 1) ≤ m) :
    lane w k (r.setWidth m) = lane w k r := by
  apply BitVec.eq_of_getLsbD_eq
  intro j hj
  rw [getLsbD_lane, getLsbD_lane, BitVec.getLsbD_setWidth]
  have : w * k + j < m := by rw [Nat.mul_succ] at hk; omega
  simp [this]

theorem lane_ushiftRight {n : Nat} (w c k : Nat) (r : BitVec n) :
    lane w k (r >>> (w * c)) = lane w (c + k) r := by
  apply BitVec.eq_of_getLsbD_eq
  intro j hj
  rw [getLsbD_lane, getLsbD_lane, BitVec.getLsbD_ushiftRight, Nat.mul_add, Nat.add_assoc]

/-- `op(extract128(r, 1), cast128(r))` lane-wise -/
def half128 (w C : Nat) (op : BitVec w → BitVec w → BitVec w) (r : BitVec 256) : BitVec 128 :=
  X86.map2 w C op ((r >>> 128).setWidth 128) (r.setWidth 128)

theorem lane_half128 {w : Nat} (hw : 0 < w) (C : Nat) (hC : w * C = 128) (op : BitVec w → BitVec w → BitVec w)
    (r : BitVec 256) (k : Nat) (hk : k < C) :
    lane w k (half128 w C op r) = op (lane w (C + k) r) (lane w k r) := by
  have hk1 : w * (k + 1) ≤ 128 := by rw [← hC]; exact Nat.mul_le_mul_left w hk
  unfold half128
  rw [lane_map2 hw (by omega) _ _ _ _ hk, lane_setWidth w k _ hk1, lane_setWidth w k _ hk1, ← hC,
    lane_ushiftRight]

/-! ### 64-bit max/min through `cmpgt_epi64` + `blendv_epi8` -/

/-- flipping the sign bit turns the unsigned order into the signed one -/
theorem toInt_flip64 (z : BitVec 64) :
    (z ^^^ BitVec.intMin 64).toInt = (z.toNat : Int) - 9223372036854775808 := by
  have h1 : (z ^^^ BitVec.intMin 64).msb = !z.msb := by
    rw [BitVec.msb_xor, BitVec.msb_intMin]; simp
  have h2 : (z ^^^ BitVec.intMin 64).setWidth 63 = z.setWidth 63 := by
    apply BitVec.eq_of_getLsbD_eq
    intro i hi
    have : ¬ (i = 63) := by omega
    simp [BitVec.getLsbD_intMin, hi, this]
  have h3 := congrArg BitVec.toNat h2
  rw [BitVec.toNat_setWidth, BitVec.toNat_setWidth] at h3
  generalize z ^^^ BitVec.intMin 64 = a at h1 h3 ⊢
  have hz := z.isLt
  have ha := a.isLt
  rw [BitVec.toInt_eq_msb_cond, h1]
  rw [BitVec.msb_eq_decide, BitVec.msb_eq_decide] at h1
  rw [BitVec.msb_eq_decide]
  by_cases hm : 2 ^ (64 - 1) ≤ z.toNat
  · simp only [hm, decide_true, Bool.not_true, decide_eq_false_iff_not] at h1 ⊢
    simp only [Bool.false_eq_true, if_false]
    omega
  · simp only [hm, decide_false, Bool.not_false, decide_eq_true_eq] at h1 ⊢
    simp only [if_true]
    omega

/-- `(x ^ MIN) <ₛ (y ^ MIN) ↔ x <ᵤ y`: the sign-bit trick of the unsigned 64-bit compare -/
theorem slt_flip64 (x y : BitVec 64) :
    BitVec.slt (x ^^^ BitVec.intMin 64) (y ^^^ BitVec.intMin 64) = BitVec.ult x y := by
  unfold BitVec.slt BitVec.ult
  rw [toInt_flip64, toInt_flip64]
  by_cases h : x.toNat < y.toNat
  · have : (x.toNat : Int) - 9223372036854775808 < (y.toNat : Int) - 9223372036854775808 := by omega
    simp [h, this]
  · have : ¬ ((x.toNat : Int) - 9223372036854775808 < (y.toNat : Int) - 9223372036854775808) := by omega
    simp [h, this]

theorem lane_xor {n : Nat} (w k : Nat) (x y : BitVec n) : lane w k (x ^^^ y) = lane w k x ^^^ lane w k y := by
  apply BitVec.eq_of_getLsbD_eq
  intro j hj
  simp only [getLsbD_lane, BitVec.getLsbD_xor, hj, decide_true, Bool.true_and]

theorem lane_and {n : Nat} (w k : Nat) (x y : BitVec n) : lane w k (x &&& y) = lane w k x &&& lane w k y := by
  apply BitVec.eq_of_getLsbD_eq
  intro j hj
  simp only [getLsbD_lane, BitVec.getLsbD_and, hj, decide_true, Bool.true_and]

/-- two 64-bit values with equal bytes are equal -/
theorem eq_of_lanes8_64 (x y : BitVec 64) (h : ∀ i, i < 8 → lane 8 i x = lane 8 i y) : x = y := by
  apply BitVec.eq_of_getLsbD_eq
  intro j hj
  have hq : j / 8 < 8 := by omega
  have hm : j % 8 < 8 := by omega
  have h1 := congrArg (fun v => v.getLsbD (j % 8)) (h _ hq)
  have h2 : 8 * (j / 8) + j % 8 = j := by omega
  simp only [getLsbD_lane, hm, decide_true, Bool.true_and, h2] at h1
  exact h1

/-- byte `i` of the 64-bit lane `k` is byte `8k+i` of the register -/
theorem lane8_of_lane64 {n : Nat} (r : BitVec n) (k i : Nat) (hi : i < 8) :
    lane 8 i (lane 64 k r) = lane 8 (8 * k + i) r := (lane_lane 8 8 k i hi r).symm

/-- a byte blend whose mask is all-ones or zero on a 64-bit lane selects that whole lane -/
theorem blendv64_lane {n : Nat} (L : Nat) (hn : 64 * L ≤ n) (a b mask : BitVec n) (c : Bool) (k : Nat)
    (hk : k < L) (hmask : lane 64 k mask = if c then BitVec.allOnes 64 else 0) :
    lane 64 k (X86.map3 8 (8 * L) (fun x y m => if m.msb then y else x) a b mask)
      = if c then lane 64 k b else lane 64 k a := by
  apply eq_of_lanes8_64
  intro i hi
  rw [lane8_of_lane64 _ k i hi, lane_map3 (by decide) (by omega) _ _ _ _ _ (by omega : 8 * k + i < 8 * L),
    ← lane8_of_lane64 mask k i hi, hmask, ← lane8_of_lane64 a k i hi, ← lane8_of_lane64 b k i hi]
  have h1 : ∀ i, i < 8 → (lane 8 i (BitVec.allOnes 64)).msb = true := by decide
  have h0 : ∀ i, i < 8 → (lane 8 i (0 : BitVec 64)).msb = false := by decide
  cases c
  · simp only [Bool.false_eq_true, ↓reduceIte, h0 i hi]
  · simp only [↓reduceIte, h1 i hi]

/-- the lane function of `cmpgt_epi64` -/
def cmpgt64 (x y : BitVec 64) : BitVec 64 := if BitVec.slt y x then BitVec.allOnes 64 else 0

/-- `blendv_epi8(a, b, cmpgt_epi64(p, q))`: per 64-bit lane, `b` where `p >ₛ q`, else `a` -/
theorem blendv_cmpgt64_lane {n : Nat} (L : Nat) (hn : 64 * L ≤ n) (a b p q : BitVec n) (k : Nat) (hk : k < L) :
    lane 64 k (X86.map3 8 (8 * L) (fun x y m => if m.msb then y else x) a b
        (X86.map2 64 L (fun x y => if BitVec.slt y x then BitVec.allOnes 64 else 0) p q))
      = if BitVec.slt (lane 64 k q) (lane 64 k p) then lane 64 k b else lane 64 k a :=
  blendv64_lane L hn a b _ (BitVec.slt (lane 64 k q) (lane 64 k p)) k hk
    (lane_map2 (by decide) hn _ p q k hk)

section
variable {n : Nat} (L : Nat) (hn : 64 * L ≤ n) (p q : BitVec n) (k : Nat) (hk : k < L)
include hn hk

/-- AVX2 signed 64-bit max: `blendv(l2, l1, cmpgt(l1, l2))` -/
theorem smax64_lane :
    lane 64 k (X86.map3 8 (8 * L) (fun x y m => if m.msb then y else x) q p
        (X86.map2 64 L (fun x y => if BitVec.slt y x then BitVec.allOnes 64 else 0) p q))
      = IntPrim.smax (lane 64 k p) (lane 64 k q) := by
  rw [blendv_cmpgt64_lane L hn q p p q k hk, (smax_monoid (by decide : 0 < 64)).comm]
  rfl

/-- AVX2 signed 64-bit min: `blendv(l1, l2, cmpgt(l1, l2))` -/
theorem smin64_lane :
    lane 64 k (X86.map3 8 (8 * L) (fun x y m => if m.msb then y else x) p q
        (X86.map2 64 L (fun x y => if BitVec.slt y x then BitVec.allOnes 64 else 0) p q))
      = IntPrim.smin (lane 64 k p) (lane 64 k q) := by
  rw [blendv_cmpgt64_lane L hn p q p q k hk]
  rfl

theorem lane_flip :
    lane 64 k (p ^^^ X86.bcast 64 L (BitVec.ofNat 64 0x8000000000000000)) = lane 64 k p ^^^ BitVec.intMin 64 := by
  rw [lane_xor, lane_bcast (by decide) hn _ k hk]
  rfl

/-- AVX2 unsigned 64-bit max: compare after flipping the sign bits -/
theorem umax64_lane :
    lane 64 k (X86.map3 8 (8 * L) (fun x y m => if m.msb then y else x) q p
        (X86.map2 64 L (fun x y => if BitVec.slt y x then BitVec.allOnes 64 else 0)
          (p ^^^ X86.bcast 64 L (BitVec.ofNat 64 0x8000000000000000))
          (q ^^^ X86.bcast 64 L (BitVec.ofNat 64 0x8000000000000000))))
      = IntPrim.umax (lane 64 k p) (lane 64 k q) := by
  rw [blendv_cmpgt64_lane L hn q p _ _ k hk, lane_flip L hn p k hk, lane_flip L hn q k hk, slt_flip64,
    (umax_monoid 64).comm]
  rfl

/-- AVX2 unsigned 64-bit min -/
theorem umin64_lane :
    lane 64 k (X86.map3 8 (8 * L) (fun x y m => if m.msb then y else x) p q
        (X86.map2 64 L (fun x y => if BitVec.slt y x then BitVec.allOnes 64 else 0)
          (p ^^^ X86.bcast 64 L (BitVec.ofNat 64 0x8000000000000000))
          (q ^^^ X86.bcast 64 L (BitVec.ofNat 64 0x8000000000000000))))
      = IntPrim.umin (lane 64 k p) (lane 64 k q) := by
  rw [blendv_cmpgt64_lane L hn p q _ _ k hk, lane_flip L hn p k hk, lane_flip L hn q k hk, slt_flip64]
  rfl

end

/-! ### 64-bit multiply through 32-bit partial products -/
/-- `(a + T·b)(c + T·d)` expanded -/
theorem mul_split (a b c d T : Nat) :
    (a + T * b) * (c + T * d) = a * c + T * (a * d) + T * (b * c) + T * T * (b * d) := by
  rw [Nat.add_mul, Nat.mul_add, Nat.mul_add, Nat.mul_left_comm a T d, Nat.mul_assoc T b c,
    Nat.mul_mul_mul_comm T b T d]
  omega

theorem toNat_lane32_0 (x : BitVec 64) : (lane 32 0 x).toNat = x.toNat % 4294967296 := by
  unfold lane
  rw [BitVec.toNat_setWidth, BitVec.toNat_ushiftRight]
  rfl

theorem toNat_lane32_1 (x : BitVec 64) : (lane 32 1 x).toNat = x.toNat / 4294967296 := by
  unfold lane
  rw [BitVec.toNat_setWidth, BitVec.toNat_ushiftRight, Nat.shiftRight_eq_div_pow]
  have := x.isLt
  omega

theorem toNat_and_low32 (x : BitVec 64) : (x &&& 0xFFFFFFFF#64).toNat = x.toNat % 4294967296 := by
  rw [BitVec.toNat_and]
  exact Nat.and_two_pow_sub_one_eq_mod x.toNat 32

theorem and_high32 (S : BitVec 64) : S &&& 0xFFFFFFFF00000000#64 = (S >>> 32) <<< 32 := by
  have hm : 0xFFFFFFFF00000000#64 = BitVec.allOnes 64 <<< 32 := by decide
  rw [hm]
  apply BitVec.eq_of_getLsbD_eq
  intro i hi
  rw [BitVec.getLsbD_and, BitVec.getLsbD_shiftLeft, BitVec.getLsbD_shiftLeft, BitVec.getLsbD_ushiftRight,
    BitVec.getLsbD_allOnes]
  by_cases h : i < 32
  · simp [h]
  · have h2 : 32 + (i - 32) = i := by omega
    have h3 : i - 32 < 64 := by omega
    simp [h, hi, h2, h3]

theorem toNat_and_high32 (S : BitVec 64) :
    (S &&& 0xFFFFFFFF00000000#64).toNat = (lane 32 1 S).toNat * 4294967296 := by
  rw [and_high32, toNat_lane32_1, BitVec.toNat_shiftLeft, BitVec.toNat_ushiftRight, Nat.shiftRight_eq_div_pow,
    Nat.shiftLeft_eq]
  have := S.isLt
  omega


/-- **the schoolbook identity behind the 64-bit multiply**: low×low plus the (wrapping 32-bit) sum of the
cross products shifted into the high half is the wrapping 64-bit product -/
theorem mul64_parts (x y S : BitVec 64)
    (hS : lane 32 1 S = lane 32 0 x * lane 32 1 y + lane 32 1 x * lane 32 0 y) :
    (x &&& 0xFFFFFFFF#64) * (y &&& 0xFFFFFFFF#64) + (S &&& 0xFFFFFFFF00000000#64) = x * y := by
  apply BitVec.eq_of_toNat_eq
  have h := congrArg BitVec.toNat hS
  rw [BitVec.toNat_add, BitVec.toNat_mul, BitVec.toNat_mul, toNat_lane32_0 x, toNat_lane32_1 y, toNat_lane32_0 y,
    toNat_lane32_1 x] at h
  rw [BitVec.toNat_add, BitVec.toNat_mul, BitVec.toNat_mul, toNat_and_low32, toNat_and_low32,
    toNat_and_high32, h]
  have hx := x.isLt
  have hy := y.isLt
  generalize x.toNat = X at *
  generalize y.toNat = Y at *
  have ex : X = X % 4294967296 + 4294967296 * (X / 4294967296) := by omega
  have ey : Y = Y % 4294967296 + 4294967296 * (Y / 4294967296) := by omega
  have hxy : X * Y = (X % 4294967296 + 4294967296 * (X / 4294967296))
      * (Y % 4294967296 + 4294967296 * (Y / 4294967296)) := by rw [← ex, ← ey]
  rw [mul_split] at hxy
  rw [hxy]
  generalize X % 4294967296 * (Y % 4294967296) = P
  generalize X % 4294967296 * (Y / 4294967296) = Q
  generalize X / 4294967296 * (Y % 4294967296) = R
  generalize X / 4294967296 * (Y / 4294967296) = Z
  omega

/-- the high half of `v <<< 32` is the low half of `v` -/
theorem shl32_high (v : BitVec 64) : lane 32 1 (v <<< 32) = lane 32 0 v := by
  apply BitVec.eq_of_getLsbD_eq
  intro j hj
  rw [getLsbD_lane, getLsbD_lane, BitVec.getLsbD_shiftLeft]
  have h1 : 32 + j < 64 := by omega
  simp [hj, h1]

/-- 32-bit half `i` of the 64-bit lane `j` is the 32-bit lane `2j+i` of the register -/
theorem lane32_of_lane64 {n : Nat} (r : BitVec n) (j i : Nat) (hi : i < 2) :
    lane 32 i (lane 64 j r) = lane 32 (2 * j + i) r := (lane_lane 32 2 j i hi r).symm

/-- `shuffle_epi32::<_MM_SHUFFLE(2,3,0,1)>` swaps the two 32-bit halves of every 64-bit lane -/
theorem shuffle177_idx : ∀ k, k < 8 →
    4 * (k / 4) + X86.bits2 177 (2 * (k % 4)) = if k % 2 = 0 then k + 1 else k - 1 := by decide

/-- the AVX2 64-bit multiply network of `impl_avx2.rs` (three 32-bit partial products) -/
def mul64Net256 (E : Env) (imm : Nat) (l1 l2 : BitVec 256) : BitVec 256 :=
  X86._mm256_add_epi64 E (X86._mm256_mul_epu32 E l1 l2)
    (X86._mm256_and_si256 E
      (X86._mm256_add_epi32 E
        (X86._mm256_slli_epi64 E 32 (X86._mm256_mullo_epi32 E l1 (X86._mm256_shuffle_epi32 E imm l2)))
        (X86._mm256_mullo_epi32 E l1 (X86._mm256_shuffle_epi32 E imm l2)))
      (X86._mm256_set1_epi64x E (BitVec.ofNat 64 0xFFFFFFFF00000000)))

/-- 32-bit lanes of the cross product `mullo_epi32(l1, swap(l2))` -/
theorem lane_cross256 (E : Env) (l1 l2 : BitVec 256) (k : Nat) (hk : k < 8) :
    lane 32 k (X86._mm256_mullo_epi32 E l1 (X86._mm256_shuffle_epi32 E 177 l2))
      = lane 32 k l1 * lane 32 (if k % 2 = 0 then k + 1 else k - 1) l2 := by
  unfold X86._mm256_mullo_epi32 X86._mm256_shuffle_epi32
  rw [lane_map2 (by decide) (by decide) _ _ _ k hk, lane_fromLanes 32 (by decide) 8 _ k hk (by decide),
    shuffle177_idx k hk]

/-- **the AVX2 64-bit multiply network is the wrapping 64-bit product in every lane** -/
theorem mul64Net256_lane (E : Env) (l1 l2 : BitVec 256) (j : Nat) (hj : j < 4) :
    lane 64 j (mul64Net256 E 177 l1 l2) = lane 64 j l1 * lane 64 j l2 := by
  unfold mul64Net256 X86._mm256_add_epi64 X86._mm256_mul_epu32 X86._mm256_and_si256 X86._mm256_set1_epi64x
  rw [lane_map2 (by decide) (by decide) _ _ _ j hj, lane_map2 (by decide) (by decide) _ _ _ j hj, lane_and,
    lane_bcast (by decide) (by decide) _ j hj]
  apply mul64_parts
  have h0 : 2 * j < 8 := by omega
  have h1 : 2 * j + 1 < 8 := by omega
  have m0 : (2 * j) % 2 = 0 := by omega
  have m1 : ¬ ((2 * j + 1) % 2 = 0) := by omega
  rw [lane32_of_lane64 _ j 1 (by decide)]
  unfold X86._mm256_add_epi32 X86._mm256_slli_epi64
  rw [lane_map2 (by decide) (by decide) _ _ _ _ h1, ← lane32_of_lane64 _ j 1 (by decide),
    lane_map1 (by decide) (by decide) _ _ j hj, shl32_high, lane32_of_lane64 _ j 0 (by decide),
    Nat.add_zero, lane_cross256 E l1 l2 _ h0, lane_cross256 E l1 l2 _ h1, if_pos m0, if_neg m1,
    Nat.add_sub_cancel, ← lane32_of_lane64 l1 j 1 (by decide), ← lane32_of_lane64 l2 j 1 (by decide)]
  rw [← Nat.add_zero (2 * j), ← lane32_of_lane64 l1 j 0 (by decide), ← lane32_of_lane64 l2 j 0 (by decide)]

/-! ### horizontal folds: from the code shapes to the pure fold functions -/

theorem lane_hi128 {w : Nat} (C : Nat) (hC : w * C = 128) (r : BitVec 256) (k : Nat) (hk : k < C) :
    lane w k ((r >>> 128).setWidth 128 : BitVec 128) = lane w (C + k) r := by
  have hk1 : w * (k + 1) ≤ 128 := by rw [← hC]; exact Nat.mul_le_mul_left w hk
  rw [lane_setWidth w k _ hk1, ← hC, lane_ushiftRight]

theorem lane_lo128 {w : Nat} (C : Nat) (hC : w * C = 128) (r : BitVec 256) (k : Nat) (hk : k < C) :
    lane w k (r.setWidth 128 : BitVec 128) = lane w k r := by
  have hk1 : w * (k + 1) ≤ 128 := by rw [← hC]; exact Nat.mul_le_mul_left w hk
  rw [lane_setWidth w k _ hk1]

/-- AVX2 8/16-bit folds: `op(hi, lo)`, then the 4-accumulator loop over the `4·n` lanes -/
theorem avx2_fold4 {w : Nat} (hw : 0 < w) (n : Nat) (hC : w * (4 * n) = 128) (op : BitVec w → BitVec w → BitVec w)
    (e : BitVec w) (fuel : Nat) (hfuel : n < fuel) (r : BitVec 256) :
    fold4Loop fuel op e (4 * n) (unpackLanes w (4 * n) (half128 w (4 * n) op r))
      = pure (hfoldHalf4 op e (4 * n) n (xlanes w r)) := by
  rw [fold4Loop_eq fuel op e n _ rfl hfuel]
  unfold hfoldHalf4
  rw [hfold4_congr n _ (fun k => op (xlanes w r (4 * n + k)) (xlanes w r k))]
  intro k hk
  exact lane_half128 hw (4 * n) hC op r k hk

/-- AVX2 32-bit folds: `op(hi, lo)`, then `(g0 ⊕ g1) ⊕ (g2 ⊕ g3)` -/
theorem avx2_foldQ (op : BitVec 32 → BitVec 32 → BitVec 32) (r : BitVec 256) :
    op (op (lane 32 0 (half128 32 4 op r)) (lane 32 1 (half128 32 4 op r)))
        (op (lane 32 2 (half128 32 4 op r)) (lane 32 3 (half128 32 4 op r)))
      = hfoldHalfQ op (xlanes 32 r) := by
  rw [lane_half128 (by decide) 4 (by decide) op r 0 (by decide),
    lane_half128 (by decide) 4 (by decide) op r 1 (by decide),
    lane_half128 (by decide) 4 (by decide) op r 2 (by decide),
    lane_half128 (by decide) 4 (by decide) op r 3 (by decide)]
  rfl

/-- AVX2 64-bit sum: `op(hi, lo)`, then `g0 ⊕ g1` -/
theorem avx2_foldD (op : BitVec 64 → BitVec 64 → BitVec 64) (r : BitVec 256) :
    op (lane 64 0 (half128 64 2 op r)) (lane 64 1 (half128 64 2 op r)) = hfoldHalfD op (xlanes 64 r) := by
  rw [lane_half128 (by decide) 2 (by decide) op r 0 (by decide),
    lane_half128 (by decide) 2 (by decide) op r 1 (by decide)]
  rfl

section
variable (r : BitVec 256)

/-- AVX2 `i64` `max_to_value`: `blendv(lo, hi, cmpgt(hi, lo))`, then the scalar max of the two lanes -/
theorem avx2_smaxD :
    IntPrim.smax
        (lane 64 0 (X86.map3 8 16 (fun x y m => if m.msb then y else x) (r.setWidth 128 : BitVec 128)
          ((r >>> 128).setWidth 128) (X86.map2 64 2 (fun x y => if BitVec.slt y x then BitVec.allOnes 64 else 0)
            ((r >>> 128).setWidth 128) (r.setWidth 128))))
        (lane 64 1 (X86.map3 8 16 (fun x y m => if m.msb then y else x) (r.setWidth 128 : BitVec 128)
          ((r >>> 128).setWidth 128) (X86.map2 64 2 (fun x y => if BitVec.slt y x then BitVec.allOnes 64 else 0)
            ((r >>> 128).setWidth 128) (r.setWidth 128))))
      = hfoldHalfD IntPrim.smax (xlanes 64 r) := by
  rw [smax64_lane 2 (by decide) _ _ 0 (by decide), smax64_lane 2 (by decide) _ _ 1 (by decide),
    lane_hi128 2 (by decide) r 0 (by decide), lane_hi128 2 (by decide) r 1 (by decide),
    lane_lo128 2 (by decide) r 0 (by decide), lane_lo128 2 (by decide) r 1 (by decide)]
  rfl

/-- AVX2 `i64` `min_to_value` -/
theorem avx2_sminD :
    IntPrim.smin
        (lane 64 0 (X86.map3 8 16 (fun x y m => if m.msb then y else x) ((r >>> 128).setWidth 128 : BitVec 128)
          (r.setWidth 128) (X86.map2 64 2 (fun x y => if BitVec.slt y x then BitVec.allOnes 64 else 0)
            ((r >>> 128).setWidth 128) (r.setWidth 128))))
        (lane 64 1 (X86.map3 8 16 (fun x y m => if m.msb then y else x) ((r >>> 128).setWidth 128 : BitVec 128)
          (r.setWidth 128) (X86.map2 64 2 (fun x y => if BitVec.slt y x then BitVec.allOnes 64 else 0)
            ((r >>> 128).setWidth 128) (r.setWidth 128))))
      = hfoldHalfD IntPrim.smin (xlanes 64 r) := by
  rw [smin64_lane 2 (by decide) _ _ 0 (by decide), smin64_lane 2 (by decide) _ _ 1 (by decide),
    lane_hi128 2 (by decide) r 0 (by decide), lane_hi128 2 (by decide) r 1 (by decide),
    lane_lo128 2 (by decide) r 0 (by decide), lane_lo128 2 (by decide) r 1 (by decide)]
  rfl

/-- AVX2 `u64` `max_to_value` -/
theorem avx2_umaxD :
    IntPrim.umax
        (lane 64 0 (X86.map3 8 16 (fun x y m => if m.msb then y else x) (r.setWidth 128 : BitVec 128)
          ((r >>> 128).setWidth 128) (X86.map2 64 2 (fun x y => if BitVec.slt y x then BitVec.allOnes 64 else 0)
            (((r >>> 128).setWidth 128) ^^^ X86.bcast 64 2 (BitVec.ofNat 64 0x8000000000000000))
            ((r.setWidth 128) ^^^ X86.bcast 64 2 (BitVec.ofNat 64 0x8000000000000000)))))
        (lane 64 1 (X86.map3 8 16 (fun x y m => if m.msb then y else x) (r.setWidth 128 : BitVec 128)
          ((r >>> 128).setWidth 128) (X86.map2 64 2 (fun x y => if BitVec.slt y x then BitVec.allOnes 64 else 0)
            (((r >>> 128).setWidth 128) ^^^ X86.bcast 64 2 (BitVec.ofNat 64 0x8000000000000000))
            ((r.setWidth 128) ^^^ X86.bcast 64 2 (BitVec.ofNat 64 0x8000000000000000)))))
      = hfoldHalfD IntPrim.umax (xlanes 64 r) := by
  rw [umax64_lane 2 (by decide) _ _ 0 (by decide), umax64_lane 2 (by decide) _ _ 1 (by decide),
    lane_hi128 2 (by decide) r 0 (by decide), lane_hi128 2 (by decide) r 1 (by decide),
    lane_lo128 2 (by decide) r 0 (by decide), lane_lo128 2 (by decide) r 1 (by decide)]
  rfl

/-- AVX2 `u64` `min_to_value` -/
theorem avx2_uminD :
    IntPrim.umin
        (lane 64 0 (X86.map3 8 16 (fun x y m => if m.msb then y else x) ((r >>> 128).setWidth 128 : BitVec 128)
          (r.setWidth 128) (X86.map2 64 2 (fun x y => if BitVec.slt y x then BitVec.allOnes 64 else 0)
            (((r >>> 128).setWidth 128) ^^^ X86.bcast 64 2 (BitVec.ofNat 64 0x8000000000000000))
            ((r.setWidth 128) ^^^ X86.bcast 64 2 (BitVec.ofNat 64 0x8000000000000000)))))
        (lane 64 1 (X86.map3 8 16 (fun x y m => if m.msb then y else x) ((r >>> 128).setWidth 128 : BitVec 128)
          (r.setWidth 128) (X86.map2 64 2 (fun x y => if BitVec.slt y x then BitVec.allOnes 64 else 0)
            (((r >>> 128).setWidth 128) ^^^ X86.bcast 64 2 (BitVec.ofNat 64 0x8000000000000000))
            ((r.setWidth 128) ^^^ X86.bcast 64 2 (BitVec.ofNat 64 0x8000000000000000)))))
      = hfoldHalfD IntPrim.umin (xlanes 64 r) := by
  rw [umin64_lane 2 (by decide) _ _ 0 (by decide), umin64_lane 2 (by decide) _ _ 1 (by decide),
    lane_hi128 2 (by decide) r 0 (by decide), lane_hi128 2 (by decide) r 1 (by decide),
    lane_lo128 2 (by decide) r 0 (by decide), lane_lo128 2 (by decide) r 1 (by decide)]
  rfl

end

/-! AVX-512 8/16-bit: the upper 256 bits are brought down with `shuffle_i64x2::<_MM_SHUFFLE(1,0,3,2)>` -/

/-- `shuffle_i64x2::<0x4E>(r, r)` swaps the 256-bit halves -/
theorem lane_swap512 (E : Env) {w : Nat} (m : Nat) (hm : w * m = 128) (hm0 : 0 < m) (r : BitVec 512) (k : Nat)
    (hk : k < 2 * m) : lane w k (X86._mm512_shuffle_i64x2 E 78 r r) = lane w (2 * m + k) r := by
  have hq : k / m < 2 := (Nat.div_lt_iff_lt_mul hm0).2 hk
  have hb : X86.bits2 78 (2 * (k / m)) = k / m + 2 := by
    generalize k / m = q at hq
    have : q = 0 ∨ q = 1 := by omega
    rcases this with h | h <;> rw [h] <;> decide
  have hidx : m * (k / m + 2) + k % m = 2 * m + k := by
    have := Nat.div_add_mod k m
    rw [Nat.mul_add]; omega
  rw [lane_div_mod w m k hm0, ← hidx, lane_lane w m (k / m + 2) (k % m) (Nat.mod_lt _ hm0), hm]
  unfold X86._mm512_shuffle_i64x2
  rw [lane_fromLanes 128 (by decide) 4 _ (k / m) (by omega) (by decide), if_pos hq, hb]

/-- `op(cast256(swap(r)), cast256(r))` lane-wise -/
def half256 (E : Env) (imm : Nat) (w C : Nat) (op : BitVec w → BitVec w → BitVec w) (r : BitVec 512) : BitVec 256 :=
  X86.map2 w C op ((X86._mm512_shuffle_i64x2 E imm r r).setWidth 256) (r.setWidth 256)

theorem lane_half256 (E : Env) {w : Nat} (hw : 0 < w) (m : Nat) (hm : w * m = 128) (hm0 : 0 < m)
    (op : BitVec w → BitVec w → BitVec w) (r : BitVec 512) (k : Nat) (hk : k < 2 * m) :
    lane w k (half256 E 78 w (2 * m) op r) = op (lane w (2 * m + k) r) (lane w k r) := by
  have hk1 : w * (k + 1) ≤ 256 := by
    have : w * (k + 1) ≤ w * (2 * m) := Nat.mul_le_mul_left w hk
    rw [Nat.mul_left_comm, hm] at this; omega
  have hn : w * (2 * m) ≤ 256 := by rw [Nat.mul_left_comm, hm]; decide
  unfold half256
  rw [lane_map2 hw hn _ _ _ _ hk, lane_setWidth w k _ hk1, lane_setWidth w k _ hk1,
    lane_swap512 E m hm hm0 r k hk]

/-- AVX-512 8/16-bit folds: 256-bit halves combined, then the AVX2 fold -/
theorem avx512_fold4 (E : Env) {w : Nat} (hw : 0 < w) (n : Nat) (hn0 : 0 < n) (hC : w * (4 * n) = 128)
    (op : BitVec w → BitVec w → BitVec w) (e : BitVec w) (fuel : Nat) (hfuel : n < fuel) (imm : Nat)
    (himm : imm = 78) (r : BitVec 512) :
    (fold4Loop fuel op e (4 * n) (unpackLanes w (4 * n) (half128 w (4 * n) op (half256 E imm w (2 * (4 * n)) op r)))
        >>= fun t => pure t)
      = pure (hfoldHalf512 op e (4 * n) n (xlanes w r)) := by
  subst himm
  rw [avx2_fold4 hw n hC op e fuel hfuel, pure_bind]
  unfold hfoldHalf512 hfoldHalf4
  congr 1
  apply hfold4_congr
  intro k hk
  unfold xlanes
  rw [lane_half256 E hw (4 * n) hC (by omega) op r k (by omega),
    lane_half256 E hw (4 * n) hC (by omega) op r (4 * n + k) (by omega)]
  have e1 : 2 * (4 * n) + (4 * n + k) = 4 * n + 4 * n + (4 * n + k) := by omega
  have e2 : 2 * (4 * n) + k = 4 * n + 4 * n + k := by omega
  rw [e1, e2]

/-! packaging -/

/-- a `FoldFaithful` record from a lane-wise total operation with the default roll-up and a horizontal
fold equation -/
theorem foldFaithful_of {T Reg : Type} {L : Nat} {lanes : Reg → Nat → T} {f : T → T → T}
    {op : Reg → Reg → Exec Reg} {opD : DenseLane Reg → DenseLane Reg → Exec (DenseLane Reg)}
    (LW : Lanewise2 L lanes f (fun _ => True) op opD) (hfold : (Nat → T) → T)
    (toReg : DenseLane Reg → Exec Reg) (toValue : Reg → Exec T) (hreg : toReg = rollup8 op)
    (hval : ∀ r, toValue r = pure (hfold (lanes r))) :
    FoldFaithful L lanes f hfold toReg toValue := by
  refine ⟨?_, hval⟩
  intro d
  rw [hreg]
  exact rollup8_lanewise (fun x y => LW.single x y (fun _ _ => trivial)) d

end Cfavml
