/-
Bit-level lemmas for the composite x86 operations (8-bit multiply through 16-bit products, 64-bit
multiply through 32-bit partial products, 64-bit max/min through compare + byte blend) and for the
horizontal folds. Core + Std only.
-/
import CfavmlModel.Lemmas.X86Backend
import CfavmlModel.Lemmas.BitVecMonoid
import CfavmlModel.Lemmas.Loop

namespace Cfavml

/-! ### lanes of lanes -/

/-- a `w`-bit lane is a `w`-bit lane of the `(w·m)`-bit lane that contains it -/
theorem lane_lane {n : Nat} (w m q i : Nat) (hi : i < m) (r : BitVec n) :
    lane w (m * q + i) r = lane w i (lane (w * m) q r) := by
  apply BitVec.eq_of_getLsbD_eq
  intro j hj
  rw [getLsbD_lane, getLsbD_lane, getLsbD_lane]
  have h1 : w * i + j < w * m := by
    have : w * (i + 1) ≤ w * m := Nat.mul_le_mul_left w hi
    rw [Nat.mul_succ] at this; omega
  have h2 : w * (m * q + i) + j = w * m * q + (w * i + j) := by
    rw [Nat.mul_add, Nat.mul_assoc]; omega
  simp [hj, h1, h2]

/-- lane `k` in terms of the wide lane `k / m` -/
theorem lane_div_mod {n : Nat} (w m k : Nat) (hm : 0 < m) (r : BitVec n) :
    lane w k r = lane w (k % m) (lane (w * m) (k / m) r) := by
  have h := lane_lane w m (k / m) (k % m) (Nat.mod_lt _ hm) r
  rw [Nat.div_add_mod] at h
  exact h

theorem lane_zero_eq {n : Nat} (w : Nat) (r : BitVec n) : lane w 0 r = r.setWidth w := by
  unfold lane; simp

theorem lane_map1 {w n L : Nat} (hw : 0 < w) (hn : w * L ≤ n) (f : BitVec w → BitVec w) (x : BitVec n)
    (k : Nat) (hk : k < L) : lane w k (X86.map1 w L f x) = f (lane w k x) := by
  unfold X86.map1
  rw [lane_fromLanes w hw L _ k hk hn]

theorem lane_map2 {w n L : Nat} (hw : 0 < w) (hn : w * L ≤ n) (f : BitVec w → BitVec w → BitVec w)
    (x y : BitVec n) (k : Nat) (hk : k < L) :
    lane w k (X86.map2 w L f x y) = f (lane w k x) (lane w k y) := by
  unfold X86.map2
  rw [lane_fromLanes w hw L _ k hk hn]

theorem lane_map3 {w n L : Nat} (hw : 0 < w) (hn : w * L ≤ n) (f : BitVec w → BitVec w → BitVec w → BitVec w)
    (x y z : BitVec n) (k : Nat) (hk : k < L) :
    lane w k (X86.map3 w L f x y z) = f (lane w k x) (lane w k y) (lane w k z) := by
  unfold X86.map3
  rw [lane_fromLanes w hw L _ k hk hn]

theorem lane_bcast {w n L : Nat} (hw : 0 < w) (hn : w * L ≤ n) (v : BitVec w) (k : Nat) (hk : k < L) :
    lane w k (X86.bcast (n := n) w L v) = v := by
  unfold X86.bcast
  rw [lane_fromLanes w hw L _ k hk hn]

/-! ### 8-bit multiply through 16-bit products -/

/-- the low byte of a 16-bit product is the product of the low bytes -/
theorem mul16_low (x y : BitVec 16) : lane 8 0 (x * y) = lane 8 0 x * lane 8 0 y := by
  rw [lane_zero_eq, lane_zero_eq, lane_zero_eq]
  exact BitVec.setWidth_mul x y (by decide)

/-- the arithmetic shift right by 8 exposes the high byte as the low byte -/
theorem sshift8_low (x : BitVec 16) : lane 8 0 (x.sshiftRight 8) = lane 8 1 x := by
  apply BitVec.eq_of_getLsbD_eq
  intro j hj
  rw [getLsbD_lane, getLsbD_lane, BitVec.getLsbD_sshiftRight]
  have h1 : ¬ (16 ≤ j) := by omega
  have h2 : 8 + j < 16 := by omega
  simp [hj, h1, h2]

/-- the high byte of `p <<< 8` is the low byte of `p` -/
theorem shl8_high (p : BitVec 16) : lane 8 1 (p <<< 8) = lane 8 0 p := by
  apply BitVec.eq_of_getLsbD_eq
  intro j hj
  rw [getLsbD_lane, getLsbD_lane, BitVec.getLsbD_shiftLeft]
  have h1 : 8 + j < 16 := by omega
  simp [hj, h1]

/-- the odd byte of the network: `slli(mullo(srai x, srai y))` has the product of the high bytes as
its high byte -/
theorem mul16_high (x y : BitVec 16) :
    lane 8 1 ((x.sshiftRight 8 * y.sshiftRight 8) <<< 8) = lane 8 1 x * lane 8 1 y := by
  rw [shl8_high, mul16_low, sshift8_low, sshift8_low]

/-- the 8-bit multiply network of `impl_avx2.rs` / `impl_avx512.rs`, parametric in the byte blend -/
def mul8Net {n : Nat} (H : Nat) (blend : BitVec n → BitVec n → BitVec n) (a b : BitVec n) : BitVec n :=
  blend (X86.map2 16 H (· * ·) a b)
    (X86.map1 16 H (fun x => x <<< 8)
      (X86.map2 16 H (· * ·) (X86.map1 16 H (fun x => x.sshiftRight 8) a)
        (X86.map1 16 H (fun x => x.sshiftRight 8) b)))

/-- **the 8-bit multiply network is the wrapping 8-bit product in every byte**, for any blend that takes
the even bytes from its first and the odd bytes from its second operand -/
theorem mul8Net_lane {n : Nat} (H : Nat) (hn : 16 * H ≤ n) (blend : BitVec n → BitVec n → BitVec n)
    (hblend : ∀ e o k, k < 2 * H → lane 8 k (blend e o) = if k % 2 = 1 then lane 8 k o else lane 8 k e)
    (a b : BitVec n) (k : Nat) (hk : k < 2 * H) :
    lane 8 k (mul8Net H blend a b) = lane 8 k a * lane 8 k b := by
  have hq : k / 2 < H := by omega
  unfold mul8Net
  rw [hblend _ _ k hk]
  rw [lane_div_mod 8 2 k (by decide) a, lane_div_mod 8 2 k (by decide) b]
  by_cases hodd : k % 2 = 1
  · rw [if_pos hodd, lane_div_mod 8 2 k (by decide), hodd]
    rw [lane_map1 (by decide) hn _ _ _ hq, lane_map2 (by decide) hn _ _ _ _ hq,
      lane_map1 (by decide) hn _ _ _ hq, lane_map1 (by decide) hn _ _ _ hq]
    exact mul16_high _ _
  · have hev : k % 2 = 0 := by omega
    rw [if_neg hodd, lane_div_mod 8 2 k (by decide), hev]
    rw [lane_map2 (by decide) hn _ _ _ _ hq]
    exact mul16_low _ _

/-- the AVX2 blend: `blendv_epi8` with the mask `set1_epi32(0xFF00FF00)` -/
theorem blendv_FF00_lane {n : Nat} (Q : Nat) (hn : 32 * Q ≤ n) (e o : BitVec n) (k : Nat) (hk : k < 4 * Q) :
    lane 8 k (X86.map3 8 (4 * Q) (fun x y m => if m.msb then y else x) e o
        (X86.bcast 32 Q (BitVec.ofNat 32 0xFF00FF00)))
      = if k % 2 = 1 then lane 8 k o else lane 8 k e := by
  rw [lane_map3 (by decide) (by omega) _ _ _ _ k hk]
  rw [lane_div_mod 8 4 k (by decide) (X86.bcast 32 Q _), lane_bcast (by decide) hn _ _ (by omega)]
  have h4 : k % 4 < 4 := Nat.mod_lt _ (by decide)
  have hm : k % 2 = (k % 4) % 2 := by omega
  rw [hm]
  have : ∀ i, i < 4 → (lane 8 i (BitVec.ofNat 32 0xFF00FF00)).msb = decide (i % 2 = 1) := by decide
  rw [this _ h4]
  by_cases h : k % 4 % 2 = 1 <;> simp [h]

/-- the AVX-512 blend: `mask_blend_epi8` with the mask `0xAAAA…` -/
theorem mask_blend_AA_lane (E : Env) (e o : BitVec 512) (k : Nat) (hk : k < 64) :
    lane 8 k (X86._mm512_mask_blend_epi8 E 0xAAAAAAAAAAAAAAAA e o)
      = if k % 2 = 1 then lane 8 k o else lane 8 k e := by
  unfold X86._mm512_mask_blend_epi8
  rw [lane_fromLanes 8 (by decide) 64 _ k hk (by decide)]
  have : ∀ i, i < 64 → X86.bit 0xAAAAAAAAAAAAAAAA i = i % 2 := by decide
  rw [this k hk]

end Cfavml
