/-
`FloatSem` from correct rounding: if every finite result of `add`, `mul` (and the fused `fma`) is a float nearest to the
exact real result of its finite operands — the IEEE-754 requirement for round-to-nearest, any tie rule — then the
standard-model hypotheses of the C04 / C06 theorems hold with `u = 2^{-p}`, where "no product underflows" (`NoUf x y`)
means the exact product lies on the grid `2^emin·ℤ` of the format.
-/
import CfavmlModel.Lemmas.IEEE
import CfavmlModel.Lemmas.FloatReduce

namespace Cfavml.FloatReduce
open IEEE

section
variable {T : Type} {S : ScalarSpec T} {fm : T → T → T → T}

/-- the three facts about a correctly rounding arithmetic the constructors below use -/
structure CorrectlyRounded (S : ScalarSpec T) (p : ℕ) (emin : ℤ) (val : T → ℝ) (Fin : T → Prop) : Prop where
  hp : 1 ≤ p
  isFloat : ∀ x, Fin x → IsFloat p emin (val x)
  zero_val : val S.zero = 0
  add : ∀ x y, Fin (S.add x y) → Fin x ∧ Fin y ∧ IsNearest p emin (val x + val y) (val (S.add x y))
  mul : ∀ x y, Fin (S.mul x y) → IsNearest p emin (val x * val y) (val (S.mul x y))

theorem CorrectlyRounded.add_std {p emin val Fin} (C : CorrectlyRounded S p emin val Fin) (x y : T) (h : Fin (S.add x y)) :
    Fin x ∧ Fin y ∧ ∃ δ, |δ| ≤ (2 : ℝ) ^ (-(p : ℤ)) ∧ val (S.add x y) = (val x + val y) * (1 + δ) := by
  obtain ⟨hx, hy, hn⟩ := C.add x y h
  exact ⟨hx, hy, nearest_delta_grid C.hp hn ((C.isFloat x hx).onGrid.add (C.isFloat y hy).onGrid)⟩

theorem CorrectlyRounded.mul_std {p emin val Fin} (C : CorrectlyRounded S p emin val Fin) (x y : T) (h : Fin (S.mul x y))
    (hg : OnGrid emin (val x * val y)) :
    ∃ δ, |δ| ≤ (2 : ℝ) ^ (-(p : ℤ)) ∧ val (S.mul x y) = val x * val y * (1 + δ) :=
  nearest_delta_grid C.hp (C.mul x y h) hg

/-- unfused multiply-add (`Fallback`, `Avx2`): `acc + x*y` with two roundings -/
noncomputable def FloatSem.ofIEEE {p : ℕ} {emin : ℤ} {val : T → ℝ} {Fin : T → Prop} (C : CorrectlyRounded S p emin val Fin) :
    FloatSem S (fun x y acc => S.add (S.mul x y) acc) :=
  FloatSem.ofUnfused val ((2 : ℝ) ^ (-(p : ℤ))) (by positivity) Fin (fun x y => OnGrid emin (val x * val y)) C.zero_val
    C.add_std (fun x y h hg => C.mul_std x y h hg)

/-- fused multiply-add (`Avx2Fma`, `Avx512`, NEON): one rounding of the exact `x·y + acc` -/
noncomputable def FloatSem.ofIEEEFused {p : ℕ} {emin : ℤ} {val : T → ℝ} {Fin : T → Prop} (C : CorrectlyRounded S p emin val Fin)
    (hfma : ∀ x y acc, Fin (fm x y acc) → Fin acc ∧ IsNearest p emin (val x * val y + val acc) (val (fm x y acc))) :
    FloatSem S fm :=
  FloatSem.ofFused val ((2 : ℝ) ^ (-(p : ℤ))) (by positivity) Fin (fun x y => OnGrid emin (val x * val y)) C.zero_val
    C.add_std (fun x y h hg => C.mul_std x y h hg)
    (fun x y acc h hg => by
      obtain ⟨ha, hn⟩ := hfma x y acc h
      exact ⟨ha, nearest_delta_grid C.hp hn (hg.add (C.isFloat acc ha).onGrid)⟩)

@[simp] theorem FloatSem.ofIEEE_u {p : ℕ} {emin : ℤ} {val : T → ℝ} {Fin : T → Prop} (C : CorrectlyRounded S p emin val Fin) :
    (FloatSem.ofIEEE C).u = (2 : ℝ) ^ (-(p : ℤ)) := rfl
@[simp] theorem FloatSem.ofIEEE_val {p : ℕ} {emin : ℤ} {val : T → ℝ} {Fin : T → Prop} (C : CorrectlyRounded S p emin val Fin) :
    (FloatSem.ofIEEE C).val = val := rfl

/-! ### exactness (C04, second clause) from correct rounding -/

/-- an integer of magnitude at most `2^p` is a float of the format (for `emin ≤ 0`) -/
theorem isFloat_of_int {p : ℕ} {emin : ℤ} (hp : 1 ≤ p) (he : emin ≤ 0) {r : ℝ} (hi : IsInt r) (hr : |r| ≤ (2 : ℝ) ^ p) :
    IsFloat p emin r := by
  obtain ⟨n, rfl⟩ := hi
  have hn : |n| ≤ 2 ^ p := by
    have : ((|n| : ℤ) : ℝ) ≤ ((2 ^ p : ℤ) : ℝ) := by push_cast; exact hr
    exact_mod_cast this
  by_cases h : |n| < 2 ^ p
  · exact ⟨n, 0, h, he, by simp⟩
  · have heq : |n| = 2 ^ p := by omega
    have hpp : (2 : ℤ) ^ p = 2 ^ (p - 1) * 2 := by
      have : p = (p - 1) + 1 := by omega
      conv_lhs => rw [this, pow_succ]
    rcases abs_choice n with h1 | h1
    · refine ⟨2 ^ (p - 1), 1, ?_, by omega, ?_⟩
      · rw [abs_of_nonneg (by positivity)]; exact pow_lt_pow_right₀ (by norm_num) (by omega)
      · have : n = 2 ^ (p - 1) * 2 := by rw [← hpp, ← heq, h1]
        rw [this]; push_cast; simp
    · refine ⟨-2 ^ (p - 1), 1, ?_, by omega, ?_⟩
      · rw [abs_neg, abs_of_nonneg (by positivity)]; exact pow_lt_pow_right₀ (by norm_num) (by omega)
      · have : n = -(2 ^ (p - 1) * 2) := by rw [← hpp, ← heq, h1]; ring
        rw [this]; push_cast; simp

/-- correct rounding plus "a result of magnitude at most `2^p` does not overflow" -/
structure CorrectlyRoundedTotal (S : ScalarSpec T) (fm : T → T → T → T) (p : ℕ) (emin : ℤ) (val : T → ℝ) (Fin : T → Prop) : Prop
    extends CorrectlyRounded S p emin val Fin where
  emin_le : emin ≤ 0
  zero_fin : Fin S.zero
  add_fin : ∀ x y, Fin x → Fin y → |val x + val y| ≤ (2 : ℝ) ^ p → Fin (S.add x y)
  mul_fin : ∀ x y, Fin x → Fin y → |val x * val y| ≤ (2 : ℝ) ^ p → Fin (S.mul x y)
  fm_fin : ∀ x y acc, Fin x → Fin y → Fin acc → |val x * val y| ≤ (2 : ℝ) ^ p → |val x * val y + val acc| ≤ (2 : ℝ) ^ p →
    Fin (fm x y acc)
  fm_nearest : ∀ x y acc, Fin (fm x y acc) → (∃ r, IsNearest p emin (val x * val y) r ∧ IsNearest p emin (r + val acc) (val (fm x y acc)))
    ∨ IsNearest p emin (val x * val y + val acc) (val (fm x y acc))

theorem IsInt.add' {x y : ℝ} (hx : IsInt x) (hy : IsInt y) : IsInt (x + y) := by
  obtain ⟨a, rfl⟩ := hx; obtain ⟨b, rfl⟩ := hy; exact ⟨a + b, by push_cast; rfl⟩
theorem IsInt.mul' {x y : ℝ} (hx : IsInt x) (hy : IsInt y) : IsInt (x * y) := by
  obtain ⟨a, rfl⟩ := hx; obtain ⟨b, rfl⟩ := hy; exact ⟨a * b, by push_cast; rfl⟩

/-- **`ExactSem` from IEEE**: integer-valued operands whose exact results stay within `2^p` are computed exactly, whether
the multiply-add is fused (one rounding) or not (two) -/
noncomputable def ExactSem.ofIEEE {p : ℕ} {emin : ℤ} {val : T → ℝ} {Fin : T → Prop}
    (C : CorrectlyRoundedTotal S fm p emin val Fin) : ExactSem S fm where
  val := val
  Fin := Fin
  P := (2 : ℝ) ^ p
  zero_val := C.zero_val
  zero_fin := C.zero_fin
  add_exact := by
    intro x y hx hy ix iy hb
    have hf := C.add_fin x y hx hy hb
    exact ⟨hf, (C.add x y hf).2.2.eq_of_isFloat (isFloat_of_int C.hp C.emin_le (ix.add' iy) hb)⟩
  mul_exact := by
    intro x y hx hy ix iy hb
    have hf := C.mul_fin x y hx hy hb
    exact ⟨hf, (C.mul x y hf).eq_of_isFloat (isFloat_of_int C.hp C.emin_le (ix.mul' iy) hb)⟩
  fm_exact := by
    intro x y acc hx hy ha ix iy ia hb1 hb2
    have hf := C.fm_fin x y acc hx hy ha hb1 hb2
    refine ⟨hf, ?_⟩
    rcases C.fm_nearest x y acc hf with ⟨r, h1, h2⟩ | h
    · have e1 := h1.eq_of_isFloat (isFloat_of_int C.hp C.emin_le (ix.mul' iy) hb1)
      rw [e1] at h2
      exact h2.eq_of_isFloat (isFloat_of_int C.hp C.emin_le ((ix.mul' iy).add' ia) hb2)
    · exact h.eq_of_isFloat (isFloat_of_int C.hp C.emin_le ((ix.mul' iy).add' ia) hb2)

end
end Cfavml.FloatReduce
