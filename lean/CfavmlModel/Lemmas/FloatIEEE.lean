/-
`FloatSem` from correct rounding: if every finite result of `add`, `mul` (and the fused `fma`) is a float nearest to the
exact real result of its finite operands — the IEEE-754 requirement for round-to-nearest, any tie rule — then the
standard-model hypotheses of the C04 / C06 theorems hold with `u = 2^{-p}`, where "no product underflows" (`NoUf x y`)
means the exact product lies on the grid `2^emin·ℤ` of the format.
-/
import CfavmlModel.Lemmas.IEEE
import CfavmlModel.Lemmas.FloatReduce

namespace Cfavml.FloatReduce
open IEEE

section
variable {T : Type} {S : ScalarSpec T} {fm : T → T → T → T}

/-- the three facts about a correctly rounding arithmetic the constructors below use -/
structure CorrectlyRounded (S : ScalarSpec T) (p : ℕ) (emin : ℤ) (val : T → ℝ) (Fin : T → Prop) : Prop where
  hp : 1 ≤ p
  isFloat : ∀ x, Fin x → IsFloat p emin (val x)
  zero_val : val S.zero = 0
  add : ∀ x y, Fin (S.add x y) → Fin x ∧ Fin y ∧ IsNearest p emin (val x + val y) (val (S.add x y))
  mul : ∀ x y, Fin (S.mul x y) → IsNearest p emin (val x * val y) (val (S.mul x y))

theorem CorrectlyRounded.add_std {p emin val Fin} (C : CorrectlyRounded S p emin val Fin) (x y : T) (h : Fin (S.add x y)) :
    Fin x ∧ Fin y ∧ ∃ δ, |δ| ≤ (2 : ℝ) ^ (-(p : ℤ)) ∧ val (S.add x y) = (val x + val y) * (1 + δ) := by
  obtain ⟨hx, hy, hn⟩ := C.add x y h
  exact ⟨hx, hy, nearest_delta_grid C.hp hn ((C.isFloat x hx).onGrid.add (C.isFloat y hy).onGrid)⟩

theorem CorrectlyRounded.mul_std {p emin val Fin} (C : CorrectlyRounded S p emin val Fin) (x y : T) (h : Fin (S.mul x y))
    (hg : OnGrid emin (val x * val y)) :
    ∃ δ, |δ| ≤ (2 : ℝ) ^ (-(p : ℤ)) ∧ val (S.mul x y) = val x * val y * (1 + δ) :=
  nearest_delta_grid C.hp (C.mul x y h) hg

/-- unfused multiply-add (`Fallback`, `Avx2`): `acc + x*y` with two roundings -/
noncomputable def FloatSem.ofIEEE {p : ℕ} {emin : ℤ} {val : T → ℝ} {Fin : T → Prop} (C : CorrectlyRounded S p emin val Fin) :
    FloatSem S (fun x y acc => S.add (S.mul x y) acc) :=
  FloatSem.ofUnfused val ((2 : ℝ) ^ (-(p : ℤ))) (by positivity) Fin (fun x y => OnGrid emin (val x * val y)) C.zero_val
    C.add_std (fun x y h hg => C.mul_std x y h hg)

/-- fused multiply-add (`Avx2Fma`, `Avx512`, NEON): one rounding of the exact `x·y + acc` -/
noncomputable def FloatSem.ofIEEEFused {p : ℕ} {emin : ℤ} {val : T → ℝ} {Fin : T → Prop} (C : CorrectlyRounded S p emin val Fin)
    (hfma : ∀ x y acc, Fin (fm x y acc) → Fin acc ∧ IsNearest p emin (val x * val y + val acc) (val (fm x y acc))) :
    FloatSem S fm :=
  FloatSem.ofFused val ((2 : ℝ) ^ (-(p : ℤ))) (by positivity) Fin (fun x y => OnGrid emin (val x * val y)) C.zero_val
    C.add_std (fun x y h hg => C.mul_std x y h hg)
    (fun x y acc h hg => by
      obtain ⟨ha, hn⟩ := hfma x y acc h
      exact ⟨ha, nearest_delta_grid C.hp hn (hg.add (C.isFloat acc ha).onGrid)⟩)

@[simp] theorem FloatSem.ofIEEE_u {p : ℕ} {emin : ℤ} {val : T → ℝ} {Fin : T → Prop} (C : CorrectlyRounded S p emin val Fin) :
    (FloatSem.ofIEEE C).u = (2 : ℝ) ^ (-(p : ℤ)) := rfl
@[simp] theorem FloatSem.ofIEEE_val {p : ℕ} {emin : ℤ} {val : T → ℝ} {Fin : T → Prop} (C : CorrectlyRounded S p emin val Fin) :
    (FloatSem.ofIEEE C).val = val := rfl

end
end Cfavml.FloatReduce
