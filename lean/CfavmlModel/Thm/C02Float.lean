/-
C02 for backends whose register arithmetic (`vop`) may differ from the scalar tail's (`top`): the x86 float backends,
where the registers always use the IEEE operation and the tail uses `AutoMath` — the same IEEE operation on a default
build, the `f*_algebraic` intrinsic on a nightly fast-math build. Element `j` is `vop a[j] b[j]` where a whole register
covers it and `top a[j] b[j]` in the tail. Instances: generated `Thm/X86FloatMap.lean`.
-/
import CfavmlModel.Thm.C05Float

namespace Cfavml.Thm.C02Float
open C05Float

variable {T Reg : Type} {E : Env} {R : SimdRegister T Reg} {L : Nat} {lanes : Reg → Nat → T}
variable {vop top : T → T → T}
variable {opDense : DenseLane Reg → DenseLane Reg → Exec (DenseLane Reg)} {opReg : Reg → Reg → Exec Reg}
variable {opTail : T → T → Exec T}

theorem vector_mixed (MF : MemFaithful R L lanes) (dims : Nat) (hfuel : dims < E.fuel)
    (LW : Lanewise2 L lanes vop (fun _ => True) opReg opDense) (hcmp : ∀ x y, opTail x y = pure (top x y))
    (a b result : Slice T) (ha : a.size = dims) (hb : b.size = dims) (hr : result.size = dims) :
    MixedMap2 (fun j x => x = mixG (dims - dims % L) vop top a b j) dims result
      (map2T E R true opDense opReg opTail dims a b result) :=
  map2T_spec2 MF LW (fun x y _ => hcmp x y) true dims a b result ha hb hr (fun _ _ => trivial) hfuel

theorem value_mixed (MF : MemFaithful R L lanes) (BF : BroadcastFaithful R L lanes) (dims : Nat) (hfuel : dims < E.fuel)
    (LW : Lanewise2 L lanes vop (fun _ => True) opReg opDense) (hcmp : ∀ x y, opTail x y = pure (top x y))
    (value : T) (a result : Slice T) (ha : a.size = dims) (hr : result.size = dims) :
    MixedMap2 (fun j x => x = mixGv (dims - dims % L) vop top a value j) dims result
      (Shapes.arithValueT E R opDense opReg opTail dims value a result) := by
  unfold Shapes.arithValueT
  rw [ha, hr]
  simp only [debugAssertEq_self, pure_bind]
  obtain ⟨vr, e, hv⟩ := BF.filled_ok value
  rw [e]; simp only [pure_bind]
  exact map1vCore_spec2 MF LW (fun x y _ => hcmp x y) dims value vr (DenseLane.copy vr) hv
    (fun k hk => by rw [dlanes_copy MF.L_pos vr k hk]; exact hv _ (Nat.mod_lt _ MF.L_pos))
    a result ha hr trivial hfuel

theorem mixG_same (f : T → T → T) (cut : Nat) (a b : Slice T) (j : Nat) : mixG cut f f a b j = f (a.get j) (b.get j) := by
  simp [mixG]
theorem mixGv_same (f : T → T → T) (cut : Nat) (a : Slice T) (v : T) (j : Nat) : mixGv cut f f a v j = f (a.get j) v := by
  simp [mixGv]

end Cfavml.Thm.C02Float
