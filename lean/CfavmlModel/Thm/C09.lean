/-
C09 — runtime dispatch picks the best available backend and never an unavailable one; every safe
routine hands the dispatcher, in each priority slot, the routine of that backend for the same element
type and operation.
-/
import CfavmlModel.Spec.Dispatch
import CfavmlModel.Gen.Tables
import CfavmlModel.Gen.Dispatch
import CfavmlModel.Lemmas.ListAll

namespace Cfavml.Thm.C09
open Tables Spec

/-- the extracted macro has the shape `selectedBy` gives semantics to -/
theorem dispatch_shape :
    dispatchCandidates.all (fun c => c.condIsGuardConjunction && c.returnsCall) = true
    ∧ dispatchTrailingTokens = 0
    ∧ dispatchFallbackLabel = .fallback
    ∧ dispatchPatternLabels = [(.avx512, true), (.avx2fma, true), (.avx2, true), (.neon, true), (.fallback, false)] := by
  decide

/-- **C09 (selection).** For every build, every subset of supplied optional slots and every answer of the
four availability checks, the macro body selects the first slot in the documented priority order
AVX-512, AVX2+FMA, AVX2, NEON whose backend is compiled in and whose CPU features are all available, and
the fallback when none qualifies. -/
theorem dispatch_spec : ∀ b ∈ builds, ∀ (s1 s2 s3 s4 a1 a2 a3 a4 : Bool),
    selectedBy dispatchCandidates dispatchFallbackLabel b (suppliedOf s1 s2 s3 s4) ⟨a1, a2, a3, a4⟩
      = specSelected b (suppliedOf s1 s2 s3 s4) ⟨a1, a2, a3, a4⟩ := by
  decide

/-- never an unavailable candidate: whatever is selected is usable -/
theorem selected_is_usable : ∀ b ∈ builds, ∀ (s1 s2 s3 s4 a1 a2 a3 a4 : Bool),
    slotUsable b ⟨a1, a2, a3, a4⟩
      (selectedBy dispatchCandidates dispatchFallbackLabel b (suppliedOf s1 s2 s3 s4) ⟨a1, a2, a3, a4⟩) = true := by
  decide

/-- the fallback is reached exactly when no supplied candidate qualifies -/
theorem fallback_iff_none : ∀ b ∈ builds, ∀ (s1 s2 s3 s4 a1 a2 a3 a4 : Bool),
    (selectedBy dispatchCandidates dispatchFallbackLabel b (suppliedOf s1 s2 s3 s4) ⟨a1, a2, a3, a4⟩ = .fallback
      ↔ priority.all (fun s => !(suppliedOf s1 s2 s3 s4 s && slotUsable b ⟨a1, a2, a3, a4⟩ s)) = true) := by
  decide

/-! the availability checks themselves (generated from dispatch.rs) -/

theorem is_avx2_available_eq (E : Env) :
    is_avx2_available E = pure (E.tf_avx2 || (E.feat_std && E.cpu_avx2)) := by
  unfold is_avx2_available
  cases E.tf_avx2 <;> cases E.feat_std <;> cases E.cpu_avx2 <;> rfl

theorem is_fma_available_eq (E : Env) :
    is_fma_available E = pure (E.tf_fma || (E.feat_std && E.cpu_fma)) := by
  unfold is_fma_available
  cases E.tf_fma <;> cases E.feat_std <;> cases E.cpu_fma <;> rfl

theorem is_avx512_available_eq (E : Env) :
    is_avx512_available E
      = pure ((E.tf_avx512f && E.tf_avx512bw) || (E.feat_std && (E.cpu_avx512f && E.cpu_avx512bw))) := by
  unfold is_avx512_available
  cases E.tf_avx512f <;> cases E.tf_avx512bw <;> cases E.feat_std <;> cases E.cpu_avx512f <;> cases E.cpu_avx512bw <;> rfl

theorem is_neon_available_eq (E : Env) :
    is_neon_available E = pure (E.tf_neon || (E.feat_std && E.cpu_neon)) := by
  unfold is_neon_available
  cases E.tf_neon <;> cases E.feat_std <;> cases E.cpu_neon <;> rfl

/-- each availability check exists exactly in the builds whose candidates use it -/
theorem availability_cfgs : availabilityFns.map (·.1)
    = [.is_avx512_available, .is_avx2_available, .is_fma_available, .is_neon_available] := by decide

/-! wiring of the 190 safe macro invocations × 2 forms × up to 5 slots -/

theorem safe_chunks_ok : safeRows_chunks.all (fun c => c.all (safeRowOk safeArms)) = true := by decide +kernel

/-- **C09 (wiring).** Every safe routine, in both forms, supplies in each slot the routine named
`<ty>_x<form>_<arch of the slot's backend>_<fma tag>_<op>` for its own type, form and operation (the
AVX2+FMA slot falling back to the plain AVX2 routine where no fused routine exists), passes its
arguments in parameter order, and always supplies the fallback. With `Thm.C11.names_match_bindings` that
routine is the export bound to that backend's register type and that operation's kernel. -/
theorem slots_wired : ∀ r ∈ safeRows, safeRowOk safeArms r = true :=
  all_flatten_of_all_chunks _ safeRows_chunks safe_chunks_ok

theorem safe_counts : safeRows.length = 190 ∧ safeArms.length = 16 := by decide +kernel

/-- non-vacuity -/
example : ∃ r ∈ safeRows, r.anyName = [.u8, .xany, .dot]
    ∧ lookupBinding r.bindings .avx2fma .xany = some [.u8, .xany, .avx2, .nofma, .dot] := by decide +kernel

end Cfavml.Thm.C09
