/-
C11, the `fma` / `nofma` tag against what the routine really executes: `Spec.regIsFused` (used by `Thm.C11.fma_tag_truthful`)
says which backends fuse; here it is checked against the register methods regenerated from the impl files — the float
`fmadd` of `Avx2` and `Fallback` is `acc + x·y` with two roundings (the scalar specification's mul then add), that of
`Avx2Fma`, `Avx512` and `Neon` is the single-rounding `fma`. A routine named `…_nofma_…` whose backend started to fuse
(or the reverse) breaks one of these.
-/
import CfavmlModel.Spec.Names
import CfavmlModel.Thm.C13X86Hard
import CfavmlModel.Thm.C13Neon
import CfavmlModel.Thm.C13Fallback

namespace Cfavml.Thm.C11
open Tables Spec

/-- the table: which backends fuse -/
theorem regIsFused_table :
    regIsFused .Fallback = false ∧ regIsFused .Avx2 = false ∧ regIsFused .Avx2Fma = true
      ∧ regIsFused .Avx512 = true ∧ regIsFused .Neon = true := by decide

/-- unfused backends: `fmadd` is the specification's multiply then add in every lane -/
theorem unfused_backends (E : Env) :
    Lanewise3 8 (xlanes 32) (fun x y acc => (f32Spec E false).add ((f32Spec E false).mul x y) acc)
        (Avx2_f32.inst E).fmadd (Avx2_f32.inst E).fmadd_dense
    ∧ Lanewise3 4 (xlanes 64) (fun x y acc => (f64Spec E false).add ((f64Spec E false).mul x y) acc)
        (Avx2_f64.inst E).fmadd (Avx2_f64.inst E).fmadd_dense :=
  ⟨C13X86Hard.Avx2_f32.fmadd E, C13X86Hard.Avx2_f64.fmadd E⟩

/-- fused backends: `fmadd` is the one-rounding `fma` in every lane -/
theorem fused_backends (E : Env) :
    Lanewise3 8 (xlanes 32) E.F.fma32 (Avx2Fma_f32.inst E).fmadd (Avx2Fma_f32.inst E).fmadd_dense
    ∧ Lanewise3 4 (xlanes 64) E.F.fma64 (Avx2Fma_f64.inst E).fmadd (Avx2Fma_f64.inst E).fmadd_dense
    ∧ Lanewise3 16 (xlanes 32) E.F.fma32 (Avx512_f32.inst E).fmadd (Avx512_f32.inst E).fmadd_dense
    ∧ Lanewise3 8 (xlanes 64) E.F.fma64 (Avx512_f64.inst E).fmadd (Avx512_f64.inst E).fmadd_dense
    ∧ Lanewise3 4 (xlanes 32) E.F.fma32 (Neon_f32.inst E).fmadd (Neon_f32.inst E).fmadd_dense
    ∧ Lanewise3 2 (xlanes 64) E.F.fma64 (Neon_f64.inst E).fmadd (Neon_f64.inst E).fmadd_dense :=
  ⟨C13X86Hard.Avx2Fma_f32.fmadd E, C13X86Hard.Avx2Fma_f64.fmadd E, C13X86Hard.Avx512_f32.fmadd E,
   C13X86Hard.Avx512_f64.fmadd E, C13Neon.Neon_f32.fmadd E, C13Neon.Neon_f64.fmadd E⟩

end Cfavml.Thm.C11
