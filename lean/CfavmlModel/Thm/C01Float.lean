/-
GENERATED TEXT (/verif/tools/gen_c01float.py). C01 end to end on the eight real float backends: for each safe wrapper macro
and each routine it may select on that backend, arbitrary slice lengths and `DIMS` give a panic or a value — never an
out-of-bounds access or a divergence (`Thm/C01Total.runArm_safe` composed with the kernel theorems of `X86FloatMap`,
`X86FloatExt`, `NeonFloat` and `KernelModel.*'`).
-/
import CfavmlModel.Thm.C01Total
import CfavmlModel.Thm.X86FloatMap
import CfavmlModel.Thm.NeonFloat

namespace Cfavml.Thm.C01Float
open Cfavml.Thm Tables Spec KernelModel C01 C05Float FloatReduce

theorem safe_of_mixed {T : Type} {P : Nat → T → Prop} {dims : Nat} {result : Slice T} {out : Exec (Slice T)}
    (h : MixedMap2 P dims result out) : SafeOutcome out := by
  obtain ⟨r, e, _⟩ := h
  exact Or.inr ⟨r, e⟩

/-- **C01 on `Avx2_f32`**: element-wise wrappers (vector×vector, vertical max/min, vector×scalar, by-value max/min) -/
theorem Avx2_f32_elementwise (E : Env) (f : Form) (D : Nat) (value : F32) (a b result : Slice F32)
    (hfuel : ∀ n, n ≤ max D a.size → n < E.fuel) :
    SafeOutcome (runArm (safeArmOf .export_safe_arithmetic_vector_x_vector_op f) (lens3 a b result) D (fun d => generic_add_vector E (Avx2_f32.inst E) (AutoMath_f32 E) d a b result))
    ∧ SafeOutcome (runArm (safeArmOf .export_safe_arithmetic_vector_x_vector_op f) (lens3 a b result) D (fun d => generic_sub_vector E (Avx2_f32.inst E) (AutoMath_f32 E) d a b result))
    ∧ SafeOutcome (runArm (safeArmOf .export_safe_arithmetic_vector_x_vector_op f) (lens3 a b result) D (fun d => generic_mul_vector E (Avx2_f32.inst E) (AutoMath_f32 E) d a b result))
    ∧ SafeOutcome (runArm (safeArmOf .export_safe_arithmetic_vector_x_vector_op f) (lens3 a b result) D (fun d => generic_div_vector E (Avx2_f32.inst E) (AutoMath_f32 E) d a b result))
    ∧ SafeOutcome (runArm (safeArmOf .export_safe_vertical_op f) (lens3 a b result) D (fun d => generic_max_vertical E (Avx2_f32.inst E) (AutoMath_f32 E) d a b result))
    ∧ SafeOutcome (runArm (safeArmOf .export_safe_vertical_op f) (lens3 a b result) D (fun d => generic_min_vertical E (Avx2_f32.inst E) (AutoMath_f32 E) d a b result))
    ∧ SafeOutcome (runArm (safeArmOf .export_safe_arithmetic_vector_x_value_op f) (lens3 a a result) D (fun d => generic_add_value E (Avx2_f32.inst E) (AutoMath_f32 E) d value a result))
    ∧ SafeOutcome (runArm (safeArmOf .export_safe_arithmetic_vector_x_value_op f) (lens3 a a result) D (fun d => generic_div_value E (Avx2_f32.inst E) (AutoMath_f32 E) d value a result))
    ∧ SafeOutcome (runArm (safeArmOf .export_safe_value_op f) (lens3 a a result) D (fun d => generic_max_value E (Avx2_f32.inst E) (AutoMath_f32 E) d value a result))
    ∧ SafeOutcome (runArm (safeArmOf .export_safe_value_op f) (lens3 a a result) D (fun d => generic_min_value E (Avx2_f32.inst E) (AutoMath_f32 E) d value a result)) := by
  have MFa := C18.auto_f32 E
  refine ⟨?_, ?_, ?_, ?_, ?_, ?_, ?_, ?_, ?_, ?_⟩
  · exact safe_three_slices _ f D a b result (params_vxv f) (form_of _ f) hfuel _ (fun d hd ha hb hr => by
      subst ha; exact safe_of_mixed (X86FloatMap.Avx2_f32_add_vector E a b result hb hr hd))
  · exact safe_three_slices _ f D a b result (params_vxv f) (form_of _ f) hfuel _ (fun d hd ha hb hr => by
      subst ha; exact safe_of_mixed (X86FloatMap.Avx2_f32_sub_vector E a b result hb hr hd))
  · exact safe_three_slices _ f D a b result (params_vxv f) (form_of _ f) hfuel _ (fun d hd ha hb hr => by
      subst ha; exact safe_of_mixed (X86FloatMap.Avx2_f32_mul_vector E a b result hb hr hd))
  · exact safe_three_slices _ f D a b result (params_vxv f) (form_of _ f) hfuel _ (fun d hd ha hb hr => by
      subst ha; exact safe_of_mixed (X86FloatMap.Avx2_f32_div_vector E a b result hb hr hd))
  · exact safe_three_slices _ f D a b result (params_vertical f) (form_of _ f) hfuel _ (fun d hd ha hb hr => by
      subst ha; exact safe_of_mixed (max_vertical_mixed (top := E.F.rmax32) (X86FloatExt.Avx2_f32.ext_max E).mem a.size hd (X86FloatExt.Avx2_f32.ext_max E).op MFa.cmp_max a b result rfl hb hr))
  · exact safe_three_slices _ f D a b result (params_vertical f) (form_of _ f) hfuel _ (fun d hd ha hb hr => by
      subst ha; exact safe_of_mixed (min_vertical_mixed (top := E.F.rmin32) (X86FloatExt.Avx2_f32.ext_max E).mem a.size hd (X86FloatExt.Avx2_f32.ext_min E).op MFa.cmp_min a b result rfl hb hr))
  · exact safe_two_slices _ f D a result (params_vxval f) (form_of _ f) hfuel _ (fun d hd ha hr => by
      subst ha; exact safe_of_mixed (X86FloatMap.Avx2_f32_add_value E value a result hr hd))
  · exact safe_two_slices _ f D a result (params_vxval f) (form_of _ f) hfuel _ (fun d hd ha hr => by
      subst ha; exact safe_of_mixed (X86FloatMap.Avx2_f32_div_value E value a result hr hd))
  · exact safe_two_slices _ f D a result (params_value f) (form_of _ f) hfuel _ (fun d hd ha hr => by
      subst ha; exact safe_of_mixed (max_value_mixed (top := E.F.rmax32) (X86FloatExt.Avx2_f32.ext_max E).mem a.size hd (X86FloatExt.Avx2_f32.ext_max E).bcast (X86FloatExt.Avx2_f32.ext_max E).op MFa.cmp_max value a result rfl hr))
  · exact safe_two_slices _ f D a result (params_value f) (form_of _ f) hfuel _ (fun d hd ha hr => by
      subst ha; exact safe_of_mixed (min_value_mixed (top := E.F.rmin32) (X86FloatExt.Avx2_f32.ext_max E).mem a.size hd (X86FloatExt.Avx2_f32.ext_max E).bcast (X86FloatExt.Avx2_f32.ext_min E).op MFa.cmp_min value a result rfl hr))

/-- **C01 on `Avx2_f32`**: reductions and distances (sum, squared norm, dot product, squared Euclidean, cosine) -/
theorem Avx2_f32_reductions (E : Env) (hn : E.feat_nightly = false) (f : Form) (D : Nat) (a b : Slice F32) (hfuel : ∀ n, n ≤ max D a.size → n < E.fuel)
    (sq : F32 → F32) (hsqrt : ∀ x, (AutoMath_f32 E).sqrt x = pure (sq x)) :
    SafeOutcome (runArm (safeArmOf .export_safe_horizontal_op f) (lens3 a a a) D (fun d => generic_sum E (Avx2_f32.inst E) (AutoMath_f32 E) d a))
    ∧ SafeOutcome (runArm (safeArmOf .export_safe_nofma_norm_op f) (lens3 a a a) D (fun d => generic_squared_norm E (Avx2_f32.inst E) (AutoMath_f32 E) d a))
    ∧ SafeOutcome (runArm (safeArmOf .export_safe_distance_op f) (lens3 a b a) D (fun d => generic_dot_product E (Avx2_f32.inst E) (AutoMath_f32 E) d a b))
    ∧ SafeOutcome (runArm (safeArmOf .export_safe_distance_op f) (lens3 a b a) D (fun d => generic_euclidean E (Avx2_f32.inst E) (AutoMath_f32 E) d a b))
    ∧ SafeOutcome (runArm (safeArmOf .export_safe_distance_op f) (lens3 a b a) D (fun d => generic_cosine E (Avx2_f32.inst E) (AutoMath_f32 E) d a b)) := by
  have MFa : MathFaithful (AutoMath_f32 E) (f32Spec E false) := by
    have := C18.auto_f32 E
    rw [hn] at this
    exact this
  have SM := SumMath.of MFa
  have hloc : FoldLocal 8 (fun f => t8.eval E.F.add32 f) := (fun f g h => FTree.eval_congr _ f g _ (fun k hk => h k (by have := (t8_perm.mem_iff).mp hk; simpa using this)))
  refine ⟨?_, ?_, ?_, ?_, ?_⟩
  · exact safe_one_slice _ f D a (params_horizontal f) (form_of _ f) hfuel _ (fun d hd ha =>
      Or.inr ⟨_, KernelModel.sum' (X86Float.Avx2_f32.sumBackend E) SM d hd hloc a ha⟩)
  · exact safe_one_slice _ f D a (params_nofma_norm f) (form_of _ f) hfuel _ (fun d hd ha =>
      Or.inr ⟨_, KernelModel.squared_norm' (X86Float.Avx2_f32.sumBackend E) SM d hd hloc a ha⟩)
  · exact safe_ab_slices _ f D a b (params_distance f) (form_of _ f) hfuel _ (fun d hd ha hb =>
      Or.inr ⟨_, KernelModel.dot_product' (X86Float.Avx2_f32.sumBackend E) SM d hd hloc a b ha hb⟩)
  · exact safe_ab_slices _ f D a b (params_distance f) (form_of _ f) hfuel _ (fun d hd ha hb =>
      Or.inr ⟨_, KernelModel.euclidean' (X86Float.Avx2_f32.sumBackend E) SM d hd hloc a b ha hb⟩)
  · exact safe_ab_slices _ f D a b (params_distance f) (form_of _ f) hfuel _ (fun d hd ha hb => by
      rw [generic_cosine_model' (X86Float.Avx2_f32.sumBackend E) MFa sq hsqrt hloc d hd a b ha hb]
      unfold cosineVal
      split
      · exact Or.inr ⟨_, rfl⟩
      · split
        · exact Or.inr ⟨_, rfl⟩
        · split
          · exact Or.inr ⟨_, rfl⟩
          · exact Or.inl rfl)

/-- **C01 on `Avx2Fma_f32`**: element-wise wrappers (vector×vector, vertical max/min, vector×scalar, by-value max/min) -/
theorem Avx2Fma_f32_elementwise (E : Env) (f : Form) (D : Nat) (value : F32) (a b result : Slice F32)
    (hfuel : ∀ n, n ≤ max D a.size → n < E.fuel) :
    SafeOutcome (runArm (safeArmOf .export_safe_arithmetic_vector_x_vector_op f) (lens3 a b result) D (fun d => generic_add_vector E (Avx2Fma_f32.inst E) (AutoMath_f32 E) d a b result))
    ∧ SafeOutcome (runArm (safeArmOf .export_safe_arithmetic_vector_x_vector_op f) (lens3 a b result) D (fun d => generic_sub_vector E (Avx2Fma_f32.inst E) (AutoMath_f32 E) d a b result))
    ∧ SafeOutcome (runArm (safeArmOf .export_safe_arithmetic_vector_x_vector_op f) (lens3 a b result) D (fun d => generic_mul_vector E (Avx2Fma_f32.inst E) (AutoMath_f32 E) d a b result))
    ∧ SafeOutcome (runArm (safeArmOf .export_safe_arithmetic_vector_x_vector_op f) (lens3 a b result) D (fun d => generic_div_vector E (Avx2Fma_f32.inst E) (AutoMath_f32 E) d a b result))
    ∧ SafeOutcome (runArm (safeArmOf .export_safe_vertical_op f) (lens3 a b result) D (fun d => generic_max_vertical E (Avx2Fma_f32.inst E) (AutoMath_f32 E) d a b result))
    ∧ SafeOutcome (runArm (safeArmOf .export_safe_vertical_op f) (lens3 a b result) D (fun d => generic_min_vertical E (Avx2Fma_f32.inst E) (AutoMath_f32 E) d a b result))
    ∧ SafeOutcome (runArm (safeArmOf .export_safe_arithmetic_vector_x_value_op f) (lens3 a a result) D (fun d => generic_add_value E (Avx2Fma_f32.inst E) (AutoMath_f32 E) d value a result))
    ∧ SafeOutcome (runArm (safeArmOf .export_safe_arithmetic_vector_x_value_op f) (lens3 a a result) D (fun d => generic_div_value E (Avx2Fma_f32.inst E) (AutoMath_f32 E) d value a result))
    ∧ SafeOutcome (runArm (safeArmOf .export_safe_value_op f) (lens3 a a result) D (fun d => generic_max_value E (Avx2Fma_f32.inst E) (AutoMath_f32 E) d value a result))
    ∧ SafeOutcome (runArm (safeArmOf .export_safe_value_op f) (lens3 a a result) D (fun d => generic_min_value E (Avx2Fma_f32.inst E) (AutoMath_f32 E) d value a result)) := by
  have MFa := C18.auto_f32 E
  refine ⟨?_, ?_, ?_, ?_, ?_, ?_, ?_, ?_, ?_, ?_⟩
  · exact safe_three_slices _ f D a b result (params_vxv f) (form_of _ f) hfuel _ (fun d hd ha hb hr => by
      subst ha; exact safe_of_mixed (X86FloatMap.Avx2Fma_f32_add_vector E a b result hb hr hd))
  · exact safe_three_slices _ f D a b result (params_vxv f) (form_of _ f) hfuel _ (fun d hd ha hb hr => by
      subst ha; exact safe_of_mixed (X86FloatMap.Avx2Fma_f32_sub_vector E a b result hb hr hd))
  · exact safe_three_slices _ f D a b result (params_vxv f) (form_of _ f) hfuel _ (fun d hd ha hb hr => by
      subst ha; exact safe_of_mixed (X86FloatMap.Avx2Fma_f32_mul_vector E a b result hb hr hd))
  · exact safe_three_slices _ f D a b result (params_vxv f) (form_of _ f) hfuel _ (fun d hd ha hb hr => by
      subst ha; exact safe_of_mixed (X86FloatMap.Avx2Fma_f32_div_vector E a b result hb hr hd))
  · exact safe_three_slices _ f D a b result (params_vertical f) (form_of _ f) hfuel _ (fun d hd ha hb hr => by
      subst ha; exact safe_of_mixed (max_vertical_mixed (top := E.F.rmax32) (X86FloatExt.Avx2Fma_f32.ext_max E).mem a.size hd (X86FloatExt.Avx2Fma_f32.ext_max E).op MFa.cmp_max a b result rfl hb hr))
  · exact safe_three_slices _ f D a b result (params_vertical f) (form_of _ f) hfuel _ (fun d hd ha hb hr => by
      subst ha; exact safe_of_mixed (min_vertical_mixed (top := E.F.rmin32) (X86FloatExt.Avx2Fma_f32.ext_max E).mem a.size hd (X86FloatExt.Avx2Fma_f32.ext_min E).op MFa.cmp_min a b result rfl hb hr))
  · exact safe_two_slices _ f D a result (params_vxval f) (form_of _ f) hfuel _ (fun d hd ha hr => by
      subst ha; exact safe_of_mixed (X86FloatMap.Avx2Fma_f32_add_value E value a result hr hd))
  · exact safe_two_slices _ f D a result (params_vxval f) (form_of _ f) hfuel _ (fun d hd ha hr => by
      subst ha; exact safe_of_mixed (X86FloatMap.Avx2Fma_f32_div_value E value a result hr hd))
  · exact safe_two_slices _ f D a result (params_value f) (form_of _ f) hfuel _ (fun d hd ha hr => by
      subst ha; exact safe_of_mixed (max_value_mixed (top := E.F.rmax32) (X86FloatExt.Avx2Fma_f32.ext_max E).mem a.size hd (X86FloatExt.Avx2Fma_f32.ext_max E).bcast (X86FloatExt.Avx2Fma_f32.ext_max E).op MFa.cmp_max value a result rfl hr))
  · exact safe_two_slices _ f D a result (params_value f) (form_of _ f) hfuel _ (fun d hd ha hr => by
      subst ha; exact safe_of_mixed (min_value_mixed (top := E.F.rmin32) (X86FloatExt.Avx2Fma_f32.ext_max E).mem a.size hd (X86FloatExt.Avx2Fma_f32.ext_max E).bcast (X86FloatExt.Avx2Fma_f32.ext_min E).op MFa.cmp_min value a result rfl hr))

/-- **C01 on `Avx2Fma_f32`**: reductions and distances (sum, squared norm, dot product, squared Euclidean, cosine) -/
theorem Avx2Fma_f32_reductions (E : Env) (hn : E.feat_nightly = false) (f : Form) (D : Nat) (a b : Slice F32) (hfuel : ∀ n, n ≤ max D a.size → n < E.fuel)
    (sq : F32 → F32) (hsqrt : ∀ x, (AutoMath_f32 E).sqrt x = pure (sq x)) :
    SafeOutcome (runArm (safeArmOf .export_safe_horizontal_op f) (lens3 a a a) D (fun d => generic_sum E (Avx2Fma_f32.inst E) (AutoMath_f32 E) d a))
    ∧ SafeOutcome (runArm (safeArmOf .export_safe_nofma_norm_op f) (lens3 a a a) D (fun d => generic_squared_norm E (Avx2Fma_f32.inst E) (AutoMath_f32 E) d a))
    ∧ SafeOutcome (runArm (safeArmOf .export_safe_distance_op f) (lens3 a b a) D (fun d => generic_dot_product E (Avx2Fma_f32.inst E) (AutoMath_f32 E) d a b))
    ∧ SafeOutcome (runArm (safeArmOf .export_safe_distance_op f) (lens3 a b a) D (fun d => generic_euclidean E (Avx2Fma_f32.inst E) (AutoMath_f32 E) d a b))
    ∧ SafeOutcome (runArm (safeArmOf .export_safe_distance_op f) (lens3 a b a) D (fun d => generic_cosine E (Avx2Fma_f32.inst E) (AutoMath_f32 E) d a b)) := by
  have MFa : MathFaithful (AutoMath_f32 E) (f32Spec E false) := by
    have := C18.auto_f32 E
    rw [hn] at this
    exact this
  have SM := SumMath.of MFa
  have hloc : FoldLocal 8 (fun f => t8.eval E.F.add32 f) := (fun f g h => FTree.eval_congr _ f g _ (fun k hk => h k (by have := (t8_perm.mem_iff).mp hk; simpa using this)))
  refine ⟨?_, ?_, ?_, ?_, ?_⟩
  · exact safe_one_slice _ f D a (params_horizontal f) (form_of _ f) hfuel _ (fun d hd ha =>
      Or.inr ⟨_, KernelModel.sum' (X86Float.Avx2Fma_f32.sumBackend E) SM d hd hloc a ha⟩)
  · exact safe_one_slice _ f D a (params_nofma_norm f) (form_of _ f) hfuel _ (fun d hd ha =>
      Or.inr ⟨_, KernelModel.squared_norm' (X86Float.Avx2Fma_f32.sumBackend E) SM d hd hloc a ha⟩)
  · exact safe_ab_slices _ f D a b (params_distance f) (form_of _ f) hfuel _ (fun d hd ha hb =>
      Or.inr ⟨_, KernelModel.dot_product' (X86Float.Avx2Fma_f32.sumBackend E) SM d hd hloc a b ha hb⟩)
  · exact safe_ab_slices _ f D a b (params_distance f) (form_of _ f) hfuel _ (fun d hd ha hb =>
      Or.inr ⟨_, KernelModel.euclidean' (X86Float.Avx2Fma_f32.sumBackend E) SM d hd hloc a b ha hb⟩)
  · exact safe_ab_slices _ f D a b (params_distance f) (form_of _ f) hfuel _ (fun d hd ha hb => by
      rw [generic_cosine_model' (X86Float.Avx2Fma_f32.sumBackend E) MFa sq hsqrt hloc d hd a b ha hb]
      unfold cosineVal
      split
      · exact Or.inr ⟨_, rfl⟩
      · split
        · exact Or.inr ⟨_, rfl⟩
        · split
          · exact Or.inr ⟨_, rfl⟩
          · exact Or.inl rfl)

/-- **C01 on `Avx512_f32`**: element-wise wrappers (vector×vector, vertical max/min, vector×scalar, by-value max/min) -/
theorem Avx512_f32_elementwise (E : Env) (f : Form) (D : Nat) (value : F32) (a b result : Slice F32)
    (hfuel : ∀ n, n ≤ max D a.size → n < E.fuel) :
    SafeOutcome (runArm (safeArmOf .export_safe_arithmetic_vector_x_vector_op f) (lens3 a b result) D (fun d => generic_add_vector E (Avx512_f32.inst E) (AutoMath_f32 E) d a b result))
    ∧ SafeOutcome (runArm (safeArmOf .export_safe_arithmetic_vector_x_vector_op f) (lens3 a b result) D (fun d => generic_sub_vector E (Avx512_f32.inst E) (AutoMath_f32 E) d a b result))
    ∧ SafeOutcome (runArm (safeArmOf .export_safe_arithmetic_vector_x_vector_op f) (lens3 a b result) D (fun d => generic_mul_vector E (Avx512_f32.inst E) (AutoMath_f32 E) d a b result))
    ∧ SafeOutcome (runArm (safeArmOf .export_safe_arithmetic_vector_x_vector_op f) (lens3 a b result) D (fun d => generic_div_vector E (Avx512_f32.inst E) (AutoMath_f32 E) d a b result))
    ∧ SafeOutcome (runArm (safeArmOf .export_safe_vertical_op f) (lens3 a b result) D (fun d => generic_max_vertical E (Avx512_f32.inst E) (AutoMath_f32 E) d a b result))
    ∧ SafeOutcome (runArm (safeArmOf .export_safe_vertical_op f) (lens3 a b result) D (fun d => generic_min_vertical E (Avx512_f32.inst E) (AutoMath_f32 E) d a b result))
    ∧ SafeOutcome (runArm (safeArmOf .export_safe_arithmetic_vector_x_value_op f) (lens3 a a result) D (fun d => generic_add_value E (Avx512_f32.inst E) (AutoMath_f32 E) d value a result))
    ∧ SafeOutcome (runArm (safeArmOf .export_safe_arithmetic_vector_x_value_op f) (lens3 a a result) D (fun d => generic_div_value E (Avx512_f32.inst E) (AutoMath_f32 E) d value a result))
    ∧ SafeOutcome (runArm (safeArmOf .export_safe_value_op f) (lens3 a a result) D (fun d => generic_max_value E (Avx512_f32.inst E) (AutoMath_f32 E) d value a result))
    ∧ SafeOutcome (runArm (safeArmOf .export_safe_value_op f) (lens3 a a result) D (fun d => generic_min_value E (Avx512_f32.inst E) (AutoMath_f32 E) d value a result)) := by
  have MFa := C18.auto_f32 E
  refine ⟨?_, ?_, ?_, ?_, ?_, ?_, ?_, ?_, ?_, ?_⟩
  · exact safe_three_slices _ f D a b result (params_vxv f) (form_of _ f) hfuel _ (fun d hd ha hb hr => by
      subst ha; exact safe_of_mixed (X86FloatMap.Avx512_f32_add_vector E a b result hb hr hd))
  · exact safe_three_slices _ f D a b result (params_vxv f) (form_of _ f) hfuel _ (fun d hd ha hb hr => by
      subst ha; exact safe_of_mixed (X86FloatMap.Avx512_f32_sub_vector E a b result hb hr hd))
  · exact safe_three_slices _ f D a b result (params_vxv f) (form_of _ f) hfuel _ (fun d hd ha hb hr => by
      subst ha; exact safe_of_mixed (X86FloatMap.Avx512_f32_mul_vector E a b result hb hr hd))
  · exact safe_three_slices _ f D a b result (params_vxv f) (form_of _ f) hfuel _ (fun d hd ha hb hr => by
      subst ha; exact safe_of_mixed (X86FloatMap.Avx512_f32_div_vector E a b result hb hr hd))
  · exact safe_three_slices _ f D a b result (params_vertical f) (form_of _ f) hfuel _ (fun d hd ha hb hr => by
      subst ha; exact safe_of_mixed (max_vertical_mixed (top := E.F.rmax32) (X86FloatExt.Avx512_f32.ext_max E).mem a.size hd (X86FloatExt.Avx512_f32.ext_max E).op MFa.cmp_max a b result rfl hb hr))
  · exact safe_three_slices _ f D a b result (params_vertical f) (form_of _ f) hfuel _ (fun d hd ha hb hr => by
      subst ha; exact safe_of_mixed (min_vertical_mixed (top := E.F.rmin32) (X86FloatExt.Avx512_f32.ext_max E).mem a.size hd (X86FloatExt.Avx512_f32.ext_min E).op MFa.cmp_min a b result rfl hb hr))
  · exact safe_two_slices _ f D a result (params_vxval f) (form_of _ f) hfuel _ (fun d hd ha hr => by
      subst ha; exact safe_of_mixed (X86FloatMap.Avx512_f32_add_value E value a result hr hd))
  · exact safe_two_slices _ f D a result (params_vxval f) (form_of _ f) hfuel _ (fun d hd ha hr => by
      subst ha; exact safe_of_mixed (X86FloatMap.Avx512_f32_div_value E value a result hr hd))
  · exact safe_two_slices _ f D a result (params_value f) (form_of _ f) hfuel _ (fun d hd ha hr => by
      subst ha; exact safe_of_mixed (max_value_mixed (top := E.F.rmax32) (X86FloatExt.Avx512_f32.ext_max E).mem a.size hd (X86FloatExt.Avx512_f32.ext_max E).bcast (X86FloatExt.Avx512_f32.ext_max E).op MFa.cmp_max value a result rfl hr))
  · exact safe_two_slices _ f D a result (params_value f) (form_of _ f) hfuel _ (fun d hd ha hr => by
      subst ha; exact safe_of_mixed (min_value_mixed (top := E.F.rmin32) (X86FloatExt.Avx512_f32.ext_max E).mem a.size hd (X86FloatExt.Avx512_f32.ext_max E).bcast (X86FloatExt.Avx512_f32.ext_min E).op MFa.cmp_min value a result rfl hr))

/-- **C01 on `Avx512_f32`**: reductions and distances (sum, squared norm, dot product, squared Euclidean, cosine) -/
theorem Avx512_f32_reductions (E : Env) (hn : E.feat_nightly = false) (f : Form) (D : Nat) (a b : Slice F32) (hfuel : ∀ n, n ≤ max D a.size → n < E.fuel)
    (sq : F32 → F32) (hsqrt : ∀ x, (AutoMath_f32 E).sqrt x = pure (sq x)) :
    SafeOutcome (runArm (safeArmOf .export_safe_horizontal_op f) (lens3 a a a) D (fun d => generic_sum E (Avx512_f32.inst E) (AutoMath_f32 E) d a))
    ∧ SafeOutcome (runArm (safeArmOf .export_safe_nofma_norm_op f) (lens3 a a a) D (fun d => generic_squared_norm E (Avx512_f32.inst E) (AutoMath_f32 E) d a))
    ∧ SafeOutcome (runArm (safeArmOf .export_safe_distance_op f) (lens3 a b a) D (fun d => generic_dot_product E (Avx512_f32.inst E) (AutoMath_f32 E) d a b))
    ∧ SafeOutcome (runArm (safeArmOf .export_safe_distance_op f) (lens3 a b a) D (fun d => generic_euclidean E (Avx512_f32.inst E) (AutoMath_f32 E) d a b))
    ∧ SafeOutcome (runArm (safeArmOf .export_safe_distance_op f) (lens3 a b a) D (fun d => generic_cosine E (Avx512_f32.inst E) (AutoMath_f32 E) d a b)) := by
  have MFa : MathFaithful (AutoMath_f32 E) (f32Spec E false) := by
    have := C18.auto_f32 E
    rw [hn] at this
    exact this
  have SM := SumMath.of MFa
  have hloc : FoldLocal 16 (fun f => (halvingTree 4 4 0).eval E.F.add32 f) := (fun f g h => FTree.eval_congr _ f g _ (fun k hk => h k (by have := (h16_perm.mem_iff).mp hk; simpa using this)))
  refine ⟨?_, ?_, ?_, ?_, ?_⟩
  · exact safe_one_slice _ f D a (params_horizontal f) (form_of _ f) hfuel _ (fun d hd ha =>
      Or.inr ⟨_, KernelModel.sum' (X86Float.Avx512_f32.sumBackend E) SM d hd hloc a ha⟩)
  · exact safe_one_slice _ f D a (params_nofma_norm f) (form_of _ f) hfuel _ (fun d hd ha =>
      Or.inr ⟨_, KernelModel.squared_norm' (X86Float.Avx512_f32.sumBackend E) SM d hd hloc a ha⟩)
  · exact safe_ab_slices _ f D a b (params_distance f) (form_of _ f) hfuel _ (fun d hd ha hb =>
      Or.inr ⟨_, KernelModel.dot_product' (X86Float.Avx512_f32.sumBackend E) SM d hd hloc a b ha hb⟩)
  · exact safe_ab_slices _ f D a b (params_distance f) (form_of _ f) hfuel _ (fun d hd ha hb =>
      Or.inr ⟨_, KernelModel.euclidean' (X86Float.Avx512_f32.sumBackend E) SM d hd hloc a b ha hb⟩)
  · exact safe_ab_slices _ f D a b (params_distance f) (form_of _ f) hfuel _ (fun d hd ha hb => by
      rw [generic_cosine_model' (X86Float.Avx512_f32.sumBackend E) MFa sq hsqrt hloc d hd a b ha hb]
      unfold cosineVal
      split
      · exact Or.inr ⟨_, rfl⟩
      · split
        · exact Or.inr ⟨_, rfl⟩
        · split
          · exact Or.inr ⟨_, rfl⟩
          · exact Or.inl rfl)

/-- **C01 on `Avx2_f64`**: element-wise wrappers (vector×vector, vertical max/min, vector×scalar, by-value max/min) -/
theorem Avx2_f64_elementwise (E : Env) (f : Form) (D : Nat) (value : F64) (a b result : Slice F64)
    (hfuel : ∀ n, n ≤ max D a.size → n < E.fuel) :
    SafeOutcome (runArm (safeArmOf .export_safe_arithmetic_vector_x_vector_op f) (lens3 a b result) D (fun d => generic_add_vector E (Avx2_f64.inst E) (AutoMath_f64 E) d a b result))
    ∧ SafeOutcome (runArm (safeArmOf .export_safe_arithmetic_vector_x_vector_op f) (lens3 a b result) D (fun d => generic_sub_vector E (Avx2_f64.inst E) (AutoMath_f64 E) d a b result))
    ∧ SafeOutcome (runArm (safeArmOf .export_safe_arithmetic_vector_x_vector_op f) (lens3 a b result) D (fun d => generic_mul_vector E (Avx2_f64.inst E) (AutoMath_f64 E) d a b result))
    ∧ SafeOutcome (runArm (safeArmOf .export_safe_arithmetic_vector_x_vector_op f) (lens3 a b result) D (fun d => generic_div_vector E (Avx2_f64.inst E) (AutoMath_f64 E) d a b result))
    ∧ SafeOutcome (runArm (safeArmOf .export_safe_vertical_op f) (lens3 a b result) D (fun d => generic_max_vertical E (Avx2_f64.inst E) (AutoMath_f64 E) d a b result))
    ∧ SafeOutcome (runArm (safeArmOf .export_safe_vertical_op f) (lens3 a b result) D (fun d => generic_min_vertical E (Avx2_f64.inst E) (AutoMath_f64 E) d a b result))
    ∧ SafeOutcome (runArm (safeArmOf .export_safe_arithmetic_vector_x_value_op f) (lens3 a a result) D (fun d => generic_add_value E (Avx2_f64.inst E) (AutoMath_f64 E) d value a result))
    ∧ SafeOutcome (runArm (safeArmOf .export_safe_arithmetic_vector_x_value_op f) (lens3 a a result) D (fun d => generic_div_value E (Avx2_f64.inst E) (AutoMath_f64 E) d value a result))
    ∧ SafeOutcome (runArm (safeArmOf .export_safe_value_op f) (lens3 a a result) D (fun d => generic_max_value E (Avx2_f64.inst E) (AutoMath_f64 E) d value a result))
    ∧ SafeOutcome (runArm (safeArmOf .export_safe_value_op f) (lens3 a a result) D (fun d => generic_min_value E (Avx2_f64.inst E) (AutoMath_f64 E) d value a result)) := by
  have MFa := C18.auto_f64 E
  refine ⟨?_, ?_, ?_, ?_, ?_, ?_, ?_, ?_, ?_, ?_⟩
  · exact safe_three_slices _ f D a b result (params_vxv f) (form_of _ f) hfuel _ (fun d hd ha hb hr => by
      subst ha; exact safe_of_mixed (X86FloatMap.Avx2_f64_add_vector E a b result hb hr hd))
  · exact safe_three_slices _ f D a b result (params_vxv f) (form_of _ f) hfuel _ (fun d hd ha hb hr => by
      subst ha; exact safe_of_mixed (X86FloatMap.Avx2_f64_sub_vector E a b result hb hr hd))
  · exact safe_three_slices _ f D a b result (params_vxv f) (form_of _ f) hfuel _ (fun d hd ha hb hr => by
      subst ha; exact safe_of_mixed (X86FloatMap.Avx2_f64_mul_vector E a b result hb hr hd))
  · exact safe_three_slices _ f D a b result (params_vxv f) (form_of _ f) hfuel _ (fun d hd ha hb hr => by
      subst ha; exact safe_of_mixed (X86FloatMap.Avx2_f64_div_vector E a b result hb hr hd))
  · exact safe_three_slices _ f D a b result (params_vertical f) (form_of _ f) hfuel _ (fun d hd ha hb hr => by
      subst ha; exact safe_of_mixed (max_vertical_mixed (top := E.F.rmax64) (X86FloatExt.Avx2_f64.ext_max E).mem a.size hd (X86FloatExt.Avx2_f64.ext_max E).op MFa.cmp_max a b result rfl hb hr))
  · exact safe_three_slices _ f D a b result (params_vertical f) (form_of _ f) hfuel _ (fun d hd ha hb hr => by
      subst ha; exact safe_of_mixed (min_vertical_mixed (top := E.F.rmin64) (X86FloatExt.Avx2_f64.ext_max E).mem a.size hd (X86FloatExt.Avx2_f64.ext_min E).op MFa.cmp_min a b result rfl hb hr))
  · exact safe_two_slices _ f D a result (params_vxval f) (form_of _ f) hfuel _ (fun d hd ha hr => by
      subst ha; exact safe_of_mixed (X86FloatMap.Avx2_f64_add_value E value a result hr hd))
  · exact safe_two_slices _ f D a result (params_vxval f) (form_of _ f) hfuel _ (fun d hd ha hr => by
      subst ha; exact safe_of_mixed (X86FloatMap.Avx2_f64_div_value E value a result hr hd))
  · exact safe_two_slices _ f D a result (params_value f) (form_of _ f) hfuel _ (fun d hd ha hr => by
      subst ha; exact safe_of_mixed (max_value_mixed (top := E.F.rmax64) (X86FloatExt.Avx2_f64.ext_max E).mem a.size hd (X86FloatExt.Avx2_f64.ext_max E).bcast (X86FloatExt.Avx2_f64.ext_max E).op MFa.cmp_max value a result rfl hr))
  · exact safe_two_slices _ f D a result (params_value f) (form_of _ f) hfuel _ (fun d hd ha hr => by
      subst ha; exact safe_of_mixed (min_value_mixed (top := E.F.rmin64) (X86FloatExt.Avx2_f64.ext_max E).mem a.size hd (X86FloatExt.Avx2_f64.ext_max E).bcast (X86FloatExt.Avx2_f64.ext_min E).op MFa.cmp_min value a result rfl hr))

/-- **C01 on `Avx2_f64`**: reductions and distances (sum, squared norm, dot product, squared Euclidean, cosine) -/
theorem Avx2_f64_reductions (E : Env) (hn : E.feat_nightly = false) (f : Form) (D : Nat) (a b : Slice F64) (hfuel : ∀ n, n ≤ max D a.size → n < E.fuel)
    (sq : F64 → F64) (hsqrt : ∀ x, (AutoMath_f64 E).sqrt x = pure (sq x)) :
    SafeOutcome (runArm (safeArmOf .export_safe_horizontal_op f) (lens3 a a a) D (fun d => generic_sum E (Avx2_f64.inst E) (AutoMath_f64 E) d a))
    ∧ SafeOutcome (runArm (safeArmOf .export_safe_nofma_norm_op f) (lens3 a a a) D (fun d => generic_squared_norm E (Avx2_f64.inst E) (AutoMath_f64 E) d a))
    ∧ SafeOutcome (runArm (safeArmOf .export_safe_distance_op f) (lens3 a b a) D (fun d => generic_dot_product E (Avx2_f64.inst E) (AutoMath_f64 E) d a b))
    ∧ SafeOutcome (runArm (safeArmOf .export_safe_distance_op f) (lens3 a b a) D (fun d => generic_euclidean E (Avx2_f64.inst E) (AutoMath_f64 E) d a b))
    ∧ SafeOutcome (runArm (safeArmOf .export_safe_distance_op f) (lens3 a b a) D (fun d => generic_cosine E (Avx2_f64.inst E) (AutoMath_f64 E) d a b)) := by
  have MFa : MathFaithful (AutoMath_f64 E) (f64Spec E false) := by
    have := C18.auto_f64 E
    rw [hn] at this
    exact this
  have SM := SumMath.of MFa
  have hloc : FoldLocal 4 (fun f => t4.eval E.F.add64 f) := (fun f g h => FTree.eval_congr _ f g _ (fun k hk => h k (by have := (t4_perm.mem_iff).mp hk; simpa using this)))
  refine ⟨?_, ?_, ?_, ?_, ?_⟩
  · exact safe_one_slice _ f D a (params_horizontal f) (form_of _ f) hfuel _ (fun d hd ha =>
      Or.inr ⟨_, KernelModel.sum' (X86Float.Avx2_f64.sumBackend E) SM d hd hloc a ha⟩)
  · exact safe_one_slice _ f D a (params_nofma_norm f) (form_of _ f) hfuel _ (fun d hd ha =>
      Or.inr ⟨_, KernelModel.squared_norm' (X86Float.Avx2_f64.sumBackend E) SM d hd hloc a ha⟩)
  · exact safe_ab_slices _ f D a b (params_distance f) (form_of _ f) hfuel _ (fun d hd ha hb =>
      Or.inr ⟨_, KernelModel.dot_product' (X86Float.Avx2_f64.sumBackend E) SM d hd hloc a b ha hb⟩)
  · exact safe_ab_slices _ f D a b (params_distance f) (form_of _ f) hfuel _ (fun d hd ha hb =>
      Or.inr ⟨_, KernelModel.euclidean' (X86Float.Avx2_f64.sumBackend E) SM d hd hloc a b ha hb⟩)
  · exact safe_ab_slices _ f D a b (params_distance f) (form_of _ f) hfuel _ (fun d hd ha hb => by
      rw [generic_cosine_model' (X86Float.Avx2_f64.sumBackend E) MFa sq hsqrt hloc d hd a b ha hb]
      unfold cosineVal
      split
      · exact Or.inr ⟨_, rfl⟩
      · split
        · exact Or.inr ⟨_, rfl⟩
        · split
          · exact Or.inr ⟨_, rfl⟩
          · exact Or.inl rfl)

/-- **C01 on `Avx2Fma_f64`**: element-wise wrappers (vector×vector, vertical max/min, vector×scalar, by-value max/min) -/
theorem Avx2Fma_f64_elementwise (E : Env) (f : Form) (D : Nat) (value : F64) (a b result : Slice F64)
    (hfuel : ∀ n, n ≤ max D a.size → n < E.fuel) :
    SafeOutcome (runArm (safeArmOf .export_safe_arithmetic_vector_x_vector_op f) (lens3 a b result) D (fun d => generic_add_vector E (Avx2Fma_f64.inst E) (AutoMath_f64 E) d a b result))
    ∧ SafeOutcome (runArm (safeArmOf .export_safe_arithmetic_vector_x_vector_op f) (lens3 a b result) D (fun d => generic_sub_vector E (Avx2Fma_f64.inst E) (AutoMath_f64 E) d a b result))
    ∧ SafeOutcome (runArm (safeArmOf .export_safe_arithmetic_vector_x_vector_op f) (lens3 a b result) D (fun d => generic_mul_vector E (Avx2Fma_f64.inst E) (AutoMath_f64 E) d a b result))
    ∧ SafeOutcome (runArm (safeArmOf .export_safe_arithmetic_vector_x_vector_op f) (lens3 a b result) D (fun d => generic_div_vector E (Avx2Fma_f64.inst E) (AutoMath_f64 E) d a b result))
    ∧ SafeOutcome (runArm (safeArmOf .export_safe_vertical_op f) (lens3 a b result) D (fun d => generic_max_vertical E (Avx2Fma_f64.inst E) (AutoMath_f64 E) d a b result))
    ∧ SafeOutcome (runArm (safeArmOf .export_safe_vertical_op f) (lens3 a b result) D (fun d => generic_min_vertical E (Avx2Fma_f64.inst E) (AutoMath_f64 E) d a b result))
    ∧ SafeOutcome (runArm (safeArmOf .export_safe_arithmetic_vector_x_value_op f) (lens3 a a result) D (fun d => generic_add_value E (Avx2Fma_f64.inst E) (AutoMath_f64 E) d value a result))
    ∧ SafeOutcome (runArm (safeArmOf .export_safe_arithmetic_vector_x_value_op f) (lens3 a a result) D (fun d => generic_div_value E (Avx2Fma_f64.inst E) (AutoMath_f64 E) d value a result))
    ∧ SafeOutcome (runArm (safeArmOf .export_safe_value_op f) (lens3 a a result) D (fun d => generic_max_value E (Avx2Fma_f64.inst E) (AutoMath_f64 E) d value a result))
    ∧ SafeOutcome (runArm (safeArmOf .export_safe_value_op f) (lens3 a a result) D (fun d => generic_min_value E (Avx2Fma_f64.inst E) (AutoMath_f64 E) d value a result)) := by
  have MFa := C18.auto_f64 E
  refine ⟨?_, ?_, ?_, ?_, ?_, ?_, ?_, ?_, ?_, ?_⟩
  · exact safe_three_slices _ f D a b result (params_vxv f) (form_of _ f) hfuel _ (fun d hd ha hb hr => by
      subst ha; exact safe_of_mixed (X86FloatMap.Avx2Fma_f64_add_vector E a b result hb hr hd))
  · exact safe_three_slices _ f D a b result (params_vxv f) (form_of _ f) hfuel _ (fun d hd ha hb hr => by
      subst ha; exact safe_of_mixed (X86FloatMap.Avx2Fma_f64_sub_vector E a b result hb hr hd))
  · exact safe_three_slices _ f D a b result (params_vxv f) (form_of _ f) hfuel _ (fun d hd ha hb hr => by
      subst ha; exact safe_of_mixed (X86FloatMap.Avx2Fma_f64_mul_vector E a b result hb hr hd))
  · exact safe_three_slices _ f D a b result (params_vxv f) (form_of _ f) hfuel _ (fun d hd ha hb hr => by
      subst ha; exact safe_of_mixed (X86FloatMap.Avx2Fma_f64_div_vector E a b result hb hr hd))
  · exact safe_three_slices _ f D a b result (params_vertical f) (form_of _ f) hfuel _ (fun d hd ha hb hr => by
      subst ha; exact safe_of_mixed (max_vertical_mixed (top := E.F.rmax64) (X86FloatExt.Avx2Fma_f64.ext_max E).mem a.size hd (X86FloatExt.Avx2Fma_f64.ext_max E).op MFa.cmp_max a b result rfl hb hr))
  · exact safe_three_slices _ f D a b result (params_vertical f) (form_of _ f) hfuel _ (fun d hd ha hb hr => by
      subst ha; exact safe_of_mixed (min_vertical_mixed (top := E.F.rmin64) (X86FloatExt.Avx2Fma_f64.ext_max E).mem a.size hd (X86FloatExt.Avx2Fma_f64.ext_min E).op MFa.cmp_min a b result rfl hb hr))
  · exact safe_two_slices _ f D a result (params_vxval f) (form_of _ f) hfuel _ (fun d hd ha hr => by
      subst ha; exact safe_of_mixed (X86FloatMap.Avx2Fma_f64_add_value E value a result hr hd))
  · exact safe_two_slices _ f D a result (params_vxval f) (form_of _ f) hfuel _ (fun d hd ha hr => by
      subst ha; exact safe_of_mixed (X86FloatMap.Avx2Fma_f64_div_value E value a result hr hd))
  · exact safe_two_slices _ f D a result (params_value f) (form_of _ f) hfuel _ (fun d hd ha hr => by
      subst ha; exact safe_of_mixed (max_value_mixed (top := E.F.rmax64) (X86FloatExt.Avx2Fma_f64.ext_max E).mem a.size hd (X86FloatExt.Avx2Fma_f64.ext_max E).bcast (X86FloatExt.Avx2Fma_f64.ext_max E).op MFa.cmp_max value a result rfl hr))
  · exact safe_two_slices _ f D a result (params_value f) (form_of _ f) hfuel _ (fun d hd ha hr => by
      subst ha; exact safe_of_mixed (min_value_mixed (top := E.F.rmin64) (X86FloatExt.Avx2Fma_f64.ext_max E).mem a.size hd (X86FloatExt.Avx2Fma_f64.ext_max E).bcast (X86FloatExt.Avx2Fma_f64.ext_min E).op MFa.cmp_min value a result rfl hr))

/-- **C01 on `Avx2Fma_f64`**: reductions and distances (sum, squared norm, dot product, squared Euclidean, cosine) -/
theorem Avx2Fma_f64_reductions (E : Env) (hn : E.feat_nightly = false) (f : Form) (D : Nat) (a b : Slice F64) (hfuel : ∀ n, n ≤ max D a.size → n < E.fuel)
    (sq : F64 → F64) (hsqrt : ∀ x, (AutoMath_f64 E).sqrt x = pure (sq x)) :
    SafeOutcome (runArm (safeArmOf .export_safe_horizontal_op f) (lens3 a a a) D (fun d => generic_sum E (Avx2Fma_f64.inst E) (AutoMath_f64 E) d a))
    ∧ SafeOutcome (runArm (safeArmOf .export_safe_nofma_norm_op f) (lens3 a a a) D (fun d => generic_squared_norm E (Avx2Fma_f64.inst E) (AutoMath_f64 E) d a))
    ∧ SafeOutcome (runArm (safeArmOf .export_safe_distance_op f) (lens3 a b a) D (fun d => generic_dot_product E (Avx2Fma_f64.inst E) (AutoMath_f64 E) d a b))
    ∧ SafeOutcome (runArm (safeArmOf .export_safe_distance_op f) (lens3 a b a) D (fun d => generic_euclidean E (Avx2Fma_f64.inst E) (AutoMath_f64 E) d a b))
    ∧ SafeOutcome (runArm (safeArmOf .export_safe_distance_op f) (lens3 a b a) D (fun d => generic_cosine E (Avx2Fma_f64.inst E) (AutoMath_f64 E) d a b)) := by
  have MFa : MathFaithful (AutoMath_f64 E) (f64Spec E false) := by
    have := C18.auto_f64 E
    rw [hn] at this
    exact this
  have SM := SumMath.of MFa
  have hloc : FoldLocal 4 (fun f => t4.eval E.F.add64 f) := (fun f g h => FTree.eval_congr _ f g _ (fun k hk => h k (by have := (t4_perm.mem_iff).mp hk; simpa using this)))
  refine ⟨?_, ?_, ?_, ?_, ?_⟩
  · exact safe_one_slice _ f D a (params_horizontal f) (form_of _ f) hfuel _ (fun d hd ha =>
      Or.inr ⟨_, KernelModel.sum' (X86Float.Avx2Fma_f64.sumBackend E) SM d hd hloc a ha⟩)
  · exact safe_one_slice _ f D a (params_nofma_norm f) (form_of _ f) hfuel _ (fun d hd ha =>
      Or.inr ⟨_, KernelModel.squared_norm' (X86Float.Avx2Fma_f64.sumBackend E) SM d hd hloc a ha⟩)
  · exact safe_ab_slices _ f D a b (params_distance f) (form_of _ f) hfuel _ (fun d hd ha hb =>
      Or.inr ⟨_, KernelModel.dot_product' (X86Float.Avx2Fma_f64.sumBackend E) SM d hd hloc a b ha hb⟩)
  · exact safe_ab_slices _ f D a b (params_distance f) (form_of _ f) hfuel _ (fun d hd ha hb =>
      Or.inr ⟨_, KernelModel.euclidean' (X86Float.Avx2Fma_f64.sumBackend E) SM d hd hloc a b ha hb⟩)
  · exact safe_ab_slices _ f D a b (params_distance f) (form_of _ f) hfuel _ (fun d hd ha hb => by
      rw [generic_cosine_model' (X86Float.Avx2Fma_f64.sumBackend E) MFa sq hsqrt hloc d hd a b ha hb]
      unfold cosineVal
      split
      · exact Or.inr ⟨_, rfl⟩
      · split
        · exact Or.inr ⟨_, rfl⟩
        · split
          · exact Or.inr ⟨_, rfl⟩
          · exact Or.inl rfl)

/-- **C01 on `Avx512_f64`**: element-wise wrappers (vector×vector, vertical max/min, vector×scalar, by-value max/min) -/
theorem Avx512_f64_elementwise (E : Env) (f : Form) (D : Nat) (value : F64) (a b result : Slice F64)
    (hfuel : ∀ n, n ≤ max D a.size → n < E.fuel) :
    SafeOutcome (runArm (safeArmOf .export_safe_arithmetic_vector_x_vector_op f) (lens3 a b result) D (fun d => generic_add_vector E (Avx512_f64.inst E) (AutoMath_f64 E) d a b result))
    ∧ SafeOutcome (runArm (safeArmOf .export_safe_arithmetic_vector_x_vector_op f) (lens3 a b result) D (fun d => generic_sub_vector E (Avx512_f64.inst E) (AutoMath_f64 E) d a b result))
    ∧ SafeOutcome (runArm (safeArmOf .export_safe_arithmetic_vector_x_vector_op f) (lens3 a b result) D (fun d => generic_mul_vector E (Avx512_f64.inst E) (AutoMath_f64 E) d a b result))
    ∧ SafeOutcome (runArm (safeArmOf .export_safe_arithmetic_vector_x_vector_op f) (lens3 a b result) D (fun d => generic_div_vector E (Avx512_f64.inst E) (AutoMath_f64 E) d a b result))
    ∧ SafeOutcome (runArm (safeArmOf .export_safe_vertical_op f) (lens3 a b result) D (fun d => generic_max_vertical E (Avx512_f64.inst E) (AutoMath_f64 E) d a b result))
    ∧ SafeOutcome (runArm (safeArmOf .export_safe_vertical_op f) (lens3 a b result) D (fun d => generic_min_vertical E (Avx512_f64.inst E) (AutoMath_f64 E) d a b result))
    ∧ SafeOutcome (runArm (safeArmOf .export_safe_arithmetic_vector_x_value_op f) (lens3 a a result) D (fun d => generic_add_value E (Avx512_f64.inst E) (AutoMath_f64 E) d value a result))
    ∧ SafeOutcome (runArm (safeArmOf .export_safe_arithmetic_vector_x_value_op f) (lens3 a a result) D (fun d => generic_div_value E (Avx512_f64.inst E) (AutoMath_f64 E) d value a result))
    ∧ SafeOutcome (runArm (safeArmOf .export_safe_value_op f) (lens3 a a result) D (fun d => generic_max_value E (Avx512_f64.inst E) (AutoMath_f64 E) d value a result))
    ∧ SafeOutcome (runArm (safeArmOf .export_safe_value_op f) (lens3 a a result) D (fun d => generic_min_value E (Avx512_f64.inst E) (AutoMath_f64 E) d value a result)) := by
  have MFa := C18.auto_f64 E
  refine ⟨?_, ?_, ?_, ?_, ?_, ?_, ?_, ?_, ?_, ?_⟩
  · exact safe_three_slices _ f D a b result (params_vxv f) (form_of _ f) hfuel _ (fun d hd ha hb hr => by
      subst ha; exact safe_of_mixed (X86FloatMap.Avx512_f64_add_vector E a b result hb hr hd))
  · exact safe_three_slices _ f D a b result (params_vxv f) (form_of _ f) hfuel _ (fun d hd ha hb hr => by
      subst ha; exact safe_of_mixed (X86FloatMap.Avx512_f64_sub_vector E a b result hb hr hd))
  · exact safe_three_slices _ f D a b result (params_vxv f) (form_of _ f) hfuel _ (fun d hd ha hb hr => by
      subst ha; exact safe_of_mixed (X86FloatMap.Avx512_f64_mul_vector E a b result hb hr hd))
  · exact safe_three_slices _ f D a b result (params_vxv f) (form_of _ f) hfuel _ (fun d hd ha hb hr => by
      subst ha; exact safe_of_mixed (X86FloatMap.Avx512_f64_div_vector E a b result hb hr hd))
  · exact safe_three_slices _ f D a b result (params_vertical f) (form_of _ f) hfuel _ (fun d hd ha hb hr => by
      subst ha; exact safe_of_mixed (max_vertical_mixed (top := E.F.rmax64) (X86FloatExt.Avx512_f64.ext_max E).mem a.size hd (X86FloatExt.Avx512_f64.ext_max E).op MFa.cmp_max a b result rfl hb hr))
  · exact safe_three_slices _ f D a b result (params_vertical f) (form_of _ f) hfuel _ (fun d hd ha hb hr => by
      subst ha; exact safe_of_mixed (min_vertical_mixed (top := E.F.rmin64) (X86FloatExt.Avx512_f64.ext_max E).mem a.size hd (X86FloatExt.Avx512_f64.ext_min E).op MFa.cmp_min a b result rfl hb hr))
  · exact safe_two_slices _ f D a result (params_vxval f) (form_of _ f) hfuel _ (fun d hd ha hr => by
      subst ha; exact safe_of_mixed (X86FloatMap.Avx512_f64_add_value E value a result hr hd))
  · exact safe_two_slices _ f D a result (params_vxval f) (form_of _ f) hfuel _ (fun d hd ha hr => by
      subst ha; exact safe_of_mixed (X86FloatMap.Avx512_f64_div_value E value a result hr hd))
  · exact safe_two_slices _ f D a result (params_value f) (form_of _ f) hfuel _ (fun d hd ha hr => by
      subst ha; exact safe_of_mixed (max_value_mixed (top := E.F.rmax64) (X86FloatExt.Avx512_f64.ext_max E).mem a.size hd (X86FloatExt.Avx512_f64.ext_max E).bcast (X86FloatExt.Avx512_f64.ext_max E).op MFa.cmp_max value a result rfl hr))
  · exact safe_two_slices _ f D a result (params_value f) (form_of _ f) hfuel _ (fun d hd ha hr => by
      subst ha; exact safe_of_mixed (min_value_mixed (top := E.F.rmin64) (X86FloatExt.Avx512_f64.ext_max E).mem a.size hd (X86FloatExt.Avx512_f64.ext_max E).bcast (X86FloatExt.Avx512_f64.ext_min E).op MFa.cmp_min value a result rfl hr))

/-- **C01 on `Avx512_f64`**: reductions and distances (sum, squared norm, dot product, squared Euclidean, cosine) -/
theorem Avx512_f64_reductions (E : Env) (hn : E.feat_nightly = false) (f : Form) (D : Nat) (a b : Slice F64) (hfuel : ∀ n, n ≤ max D a.size → n < E.fuel)
    (sq : F64 → F64) (hsqrt : ∀ x, (AutoMath_f64 E).sqrt x = pure (sq x)) :
    SafeOutcome (runArm (safeArmOf .export_safe_horizontal_op f) (lens3 a a a) D (fun d => generic_sum E (Avx512_f64.inst E) (AutoMath_f64 E) d a))
    ∧ SafeOutcome (runArm (safeArmOf .export_safe_nofma_norm_op f) (lens3 a a a) D (fun d => generic_squared_norm E (Avx512_f64.inst E) (AutoMath_f64 E) d a))
    ∧ SafeOutcome (runArm (safeArmOf .export_safe_distance_op f) (lens3 a b a) D (fun d => generic_dot_product E (Avx512_f64.inst E) (AutoMath_f64 E) d a b))
    ∧ SafeOutcome (runArm (safeArmOf .export_safe_distance_op f) (lens3 a b a) D (fun d => generic_euclidean E (Avx512_f64.inst E) (AutoMath_f64 E) d a b))
    ∧ SafeOutcome (runArm (safeArmOf .export_safe_distance_op f) (lens3 a b a) D (fun d => generic_cosine E (Avx512_f64.inst E) (AutoMath_f64 E) d a b)) := by
  have MFa : MathFaithful (AutoMath_f64 E) (f64Spec E false) := by
    have := C18.auto_f64 E
    rw [hn] at this
    exact this
  have SM := SumMath.of MFa
  have hloc : FoldLocal 8 (fun f => (halvingTree 3 3 0).eval E.F.add64 f) := (fun f g h => FTree.eval_congr _ f g _ (fun k hk => h k (by have := (h8_perm.mem_iff).mp hk; simpa using this)))
  refine ⟨?_, ?_, ?_, ?_, ?_⟩
  · exact safe_one_slice _ f D a (params_horizontal f) (form_of _ f) hfuel _ (fun d hd ha =>
      Or.inr ⟨_, KernelModel.sum' (X86Float.Avx512_f64.sumBackend E) SM d hd hloc a ha⟩)
  · exact safe_one_slice _ f D a (params_nofma_norm f) (form_of _ f) hfuel _ (fun d hd ha =>
      Or.inr ⟨_, KernelModel.squared_norm' (X86Float.Avx512_f64.sumBackend E) SM d hd hloc a ha⟩)
  · exact safe_ab_slices _ f D a b (params_distance f) (form_of _ f) hfuel _ (fun d hd ha hb =>
      Or.inr ⟨_, KernelModel.dot_product' (X86Float.Avx512_f64.sumBackend E) SM d hd hloc a b ha hb⟩)
  · exact safe_ab_slices _ f D a b (params_distance f) (form_of _ f) hfuel _ (fun d hd ha hb =>
      Or.inr ⟨_, KernelModel.euclidean' (X86Float.Avx512_f64.sumBackend E) SM d hd hloc a b ha hb⟩)
  · exact safe_ab_slices _ f D a b (params_distance f) (form_of _ f) hfuel _ (fun d hd ha hb => by
      rw [generic_cosine_model' (X86Float.Avx512_f64.sumBackend E) MFa sq hsqrt hloc d hd a b ha hb]
      unfold cosineVal
      split
      · exact Or.inr ⟨_, rfl⟩
      · split
        · exact Or.inr ⟨_, rfl⟩
        · split
          · exact Or.inr ⟨_, rfl⟩
          · exact Or.inl rfl)

/-- **C01 on `Neon_f32`**: element-wise wrappers (vector×vector, vertical max/min, vector×scalar, by-value max/min) -/
theorem Neon_f32_elementwise (E : Env) (f : Form) (D : Nat) (value : F32) (a b result : Slice F32)
    (hfuel : ∀ n, n ≤ max D a.size → n < E.fuel) :
    SafeOutcome (runArm (safeArmOf .export_safe_arithmetic_vector_x_vector_op f) (lens3 a b result) D (fun d => generic_add_vector E (Neon_f32.inst E) (AutoMath_f32 E) d a b result))
    ∧ SafeOutcome (runArm (safeArmOf .export_safe_arithmetic_vector_x_vector_op f) (lens3 a b result) D (fun d => generic_sub_vector E (Neon_f32.inst E) (AutoMath_f32 E) d a b result))
    ∧ SafeOutcome (runArm (safeArmOf .export_safe_arithmetic_vector_x_vector_op f) (lens3 a b result) D (fun d => generic_mul_vector E (Neon_f32.inst E) (AutoMath_f32 E) d a b result))
    ∧ SafeOutcome (runArm (safeArmOf .export_safe_arithmetic_vector_x_vector_op f) (lens3 a b result) D (fun d => generic_div_vector E (Neon_f32.inst E) (AutoMath_f32 E) d a b result))
    ∧ SafeOutcome (runArm (safeArmOf .export_safe_vertical_op f) (lens3 a b result) D (fun d => generic_max_vertical E (Neon_f32.inst E) (AutoMath_f32 E) d a b result))
    ∧ SafeOutcome (runArm (safeArmOf .export_safe_vertical_op f) (lens3 a b result) D (fun d => generic_min_vertical E (Neon_f32.inst E) (AutoMath_f32 E) d a b result))
    ∧ SafeOutcome (runArm (safeArmOf .export_safe_arithmetic_vector_x_value_op f) (lens3 a a result) D (fun d => generic_add_value E (Neon_f32.inst E) (AutoMath_f32 E) d value a result))
    ∧ SafeOutcome (runArm (safeArmOf .export_safe_arithmetic_vector_x_value_op f) (lens3 a a result) D (fun d => generic_div_value E (Neon_f32.inst E) (AutoMath_f32 E) d value a result))
    ∧ SafeOutcome (runArm (safeArmOf .export_safe_value_op f) (lens3 a a result) D (fun d => generic_max_value E (Neon_f32.inst E) (AutoMath_f32 E) d value a result))
    ∧ SafeOutcome (runArm (safeArmOf .export_safe_value_op f) (lens3 a a result) D (fun d => generic_min_value E (Neon_f32.inst E) (AutoMath_f32 E) d value a result)) := by
  have MFa := C18.auto_f32 E
  refine ⟨?_, ?_, ?_, ?_, ?_, ?_, ?_, ?_, ?_, ?_⟩
  · exact safe_three_slices _ f D a b result (params_vxv f) (form_of _ f) hfuel _ (fun d hd ha hb hr => by
      subst ha; exact safe_of_mixed (NeonFloat.Neon_f32_add_vector E a b result hb hr hd))
  · exact safe_three_slices _ f D a b result (params_vxv f) (form_of _ f) hfuel _ (fun d hd ha hb hr => by
      subst ha; exact safe_of_mixed (NeonFloat.Neon_f32_sub_vector E a b result hb hr hd))
  · exact safe_three_slices _ f D a b result (params_vxv f) (form_of _ f) hfuel _ (fun d hd ha hb hr => by
      subst ha; exact safe_of_mixed (NeonFloat.Neon_f32_mul_vector E a b result hb hr hd))
  · exact safe_three_slices _ f D a b result (params_vxv f) (form_of _ f) hfuel _ (fun d hd ha hb hr => by
      subst ha; exact safe_of_mixed (NeonFloat.Neon_f32_div_vector E a b result hb hr hd))
  · exact safe_three_slices _ f D a b result (params_vertical f) (form_of _ f) hfuel _ (fun d hd ha hb hr => by
      subst ha; exact safe_of_mixed (max_vertical_mixed (top := E.F.rmax32) (C13Neon.Neon_f32.ext_max E).mem a.size hd (C13Neon.Neon_f32.ext_max E).op MFa.cmp_max a b result rfl hb hr))
  · exact safe_three_slices _ f D a b result (params_vertical f) (form_of _ f) hfuel _ (fun d hd ha hb hr => by
      subst ha; exact safe_of_mixed (min_vertical_mixed (top := E.F.rmin32) (C13Neon.Neon_f32.ext_max E).mem a.size hd (C13Neon.Neon_f32.ext_min E).op MFa.cmp_min a b result rfl hb hr))
  · exact safe_two_slices _ f D a result (params_vxval f) (form_of _ f) hfuel _ (fun d hd ha hr => by
      subst ha; exact safe_of_mixed (NeonFloat.Neon_f32_add_value E value a result hr hd))
  · exact safe_two_slices _ f D a result (params_vxval f) (form_of _ f) hfuel _ (fun d hd ha hr => by
      subst ha; exact safe_of_mixed (NeonFloat.Neon_f32_div_value E value a result hr hd))
  · exact safe_two_slices _ f D a result (params_value f) (form_of _ f) hfuel _ (fun d hd ha hr => by
      subst ha; exact safe_of_mixed (max_value_mixed (top := E.F.rmax32) (C13Neon.Neon_f32.ext_max E).mem a.size hd (C13Neon.Neon_f32.ext_max E).bcast (C13Neon.Neon_f32.ext_max E).op MFa.cmp_max value a result rfl hr))
  · exact safe_two_slices _ f D a result (params_value f) (form_of _ f) hfuel _ (fun d hd ha hr => by
      subst ha; exact safe_of_mixed (min_value_mixed (top := E.F.rmin32) (C13Neon.Neon_f32.ext_max E).mem a.size hd (C13Neon.Neon_f32.ext_max E).bcast (C13Neon.Neon_f32.ext_min E).op MFa.cmp_min value a result rfl hr))

/-- **C01 on `Neon_f32`**: reductions and distances (sum, squared norm, dot product, squared Euclidean, cosine) -/
theorem Neon_f32_reductions (E : Env) (hn : E.feat_nightly = false) (f : Form) (D : Nat) (a b : Slice F32) (hfuel : ∀ n, n ≤ max D a.size → n < E.fuel)
    (sq : F32 → F32) (hsqrt : ∀ x, (AutoMath_f32 E).sqrt x = pure (sq x)) :
    SafeOutcome (runArm (safeArmOf .export_safe_horizontal_op f) (lens3 a a a) D (fun d => generic_sum E (Neon_f32.inst E) (AutoMath_f32 E) d a))
    ∧ SafeOutcome (runArm (safeArmOf .export_safe_nofma_norm_op f) (lens3 a a a) D (fun d => generic_squared_norm E (Neon_f32.inst E) (AutoMath_f32 E) d a))
    ∧ SafeOutcome (runArm (safeArmOf .export_safe_distance_op f) (lens3 a b a) D (fun d => generic_dot_product E (Neon_f32.inst E) (AutoMath_f32 E) d a b))
    ∧ SafeOutcome (runArm (safeArmOf .export_safe_distance_op f) (lens3 a b a) D (fun d => generic_euclidean E (Neon_f32.inst E) (AutoMath_f32 E) d a b))
    ∧ SafeOutcome (runArm (safeArmOf .export_safe_distance_op f) (lens3 a b a) D (fun d => generic_cosine E (Neon_f32.inst E) (AutoMath_f32 E) d a b)) := by
  have MFa : MathFaithful (AutoMath_f32 E) (f32Spec E false) := by
    have := C18.auto_f32 E
    rw [hn] at this
    exact this
  have SM := SumMath.of MFa
  have hloc : FoldLocal 4 (fun f => C13Neon.tN4.eval E.F.add32 f) := (fun f g h => FTree.eval_congr _ f g _ (fun k hk => h k (by have := (C13Neon.tN4_perm.mem_iff).mp hk; simpa using this)))
  refine ⟨?_, ?_, ?_, ?_, ?_⟩
  · exact safe_one_slice _ f D a (params_horizontal f) (form_of _ f) hfuel _ (fun d hd ha =>
      Or.inr ⟨_, KernelModel.sum' (C13Neon.Neon_f32.sumBackend E) SM d hd hloc a ha⟩)
  · exact safe_one_slice _ f D a (params_nofma_norm f) (form_of _ f) hfuel _ (fun d hd ha =>
      Or.inr ⟨_, KernelModel.squared_norm' (C13Neon.Neon_f32.sumBackend E) SM d hd hloc a ha⟩)
  · exact safe_ab_slices _ f D a b (params_distance f) (form_of _ f) hfuel _ (fun d hd ha hb =>
      Or.inr ⟨_, KernelModel.dot_product' (C13Neon.Neon_f32.sumBackend E) SM d hd hloc a b ha hb⟩)
  · exact safe_ab_slices _ f D a b (params_distance f) (form_of _ f) hfuel _ (fun d hd ha hb =>
      Or.inr ⟨_, KernelModel.euclidean' (C13Neon.Neon_f32.sumBackend E) SM d hd hloc a b ha hb⟩)
  · exact safe_ab_slices _ f D a b (params_distance f) (form_of _ f) hfuel _ (fun d hd ha hb => by
      rw [generic_cosine_model' (C13Neon.Neon_f32.sumBackend E) MFa sq hsqrt hloc d hd a b ha hb]
      unfold cosineVal
      split
      · exact Or.inr ⟨_, rfl⟩
      · split
        · exact Or.inr ⟨_, rfl⟩
        · split
          · exact Or.inr ⟨_, rfl⟩
          · exact Or.inl rfl)

/-- **C01 on `Neon_f64`**: element-wise wrappers (vector×vector, vertical max/min, vector×scalar, by-value max/min) -/
theorem Neon_f64_elementwise (E : Env) (f : Form) (D : Nat) (value : F64) (a b result : Slice F64)
    (hfuel : ∀ n, n ≤ max D a.size → n < E.fuel) :
    SafeOutcome (runArm (safeArmOf .export_safe_arithmetic_vector_x_vector_op f) (lens3 a b result) D (fun d => generic_add_vector E (Neon_f64.inst E) (AutoMath_f64 E) d a b result))
    ∧ SafeOutcome (runArm (safeArmOf .export_safe_arithmetic_vector_x_vector_op f) (lens3 a b result) D (fun d => generic_sub_vector E (Neon_f64.inst E) (AutoMath_f64 E) d a b result))
    ∧ SafeOutcome (runArm (safeArmOf .export_safe_arithmetic_vector_x_vector_op f) (lens3 a b result) D (fun d => generic_mul_vector E (Neon_f64.inst E) (AutoMath_f64 E) d a b result))
    ∧ SafeOutcome (runArm (safeArmOf .export_safe_arithmetic_vector_x_vector_op f) (lens3 a b result) D (fun d => generic_div_vector E (Neon_f64.inst E) (AutoMath_f64 E) d a b result))
    ∧ SafeOutcome (runArm (safeArmOf .export_safe_vertical_op f) (lens3 a b result) D (fun d => generic_max_vertical E (Neon_f64.inst E) (AutoMath_f64 E) d a b result))
    ∧ SafeOutcome (runArm (safeArmOf .export_safe_vertical_op f) (lens3 a b result) D (fun d => generic_min_vertical E (Neon_f64.inst E) (AutoMath_f64 E) d a b result))
    ∧ SafeOutcome (runArm (safeArmOf .export_safe_arithmetic_vector_x_value_op f) (lens3 a a result) D (fun d => generic_add_value E (Neon_f64.inst E) (AutoMath_f64 E) d value a result))
    ∧ SafeOutcome (runArm (safeArmOf .export_safe_arithmetic_vector_x_value_op f) (lens3 a a result) D (fun d => generic_div_value E (Neon_f64.inst E) (AutoMath_f64 E) d value a result))
    ∧ SafeOutcome (runArm (safeArmOf .export_safe_value_op f) (lens3 a a result) D (fun d => generic_max_value E (Neon_f64.inst E) (AutoMath_f64 E) d value a result))
    ∧ SafeOutcome (runArm (safeArmOf .export_safe_value_op f) (lens3 a a result) D (fun d => generic_min_value E (Neon_f64.inst E) (AutoMath_f64 E) d value a result)) := by
  have MFa := C18.auto_f64 E
  refine ⟨?_, ?_, ?_, ?_, ?_, ?_, ?_, ?_, ?_, ?_⟩
  · exact safe_three_slices _ f D a b result (params_vxv f) (form_of _ f) hfuel _ (fun d hd ha hb hr => by
      subst ha; exact safe_of_mixed (NeonFloat.Neon_f64_add_vector E a b result hb hr hd))
  · exact safe_three_slices _ f D a b result (params_vxv f) (form_of _ f) hfuel _ (fun d hd ha hb hr => by
      subst ha; exact safe_of_mixed (NeonFloat.Neon_f64_sub_vector E a b result hb hr hd))
  · exact safe_three_slices _ f D a b result (params_vxv f) (form_of _ f) hfuel _ (fun d hd ha hb hr => by
      subst ha; exact safe_of_mixed (NeonFloat.Neon_f64_mul_vector E a b result hb hr hd))
  · exact safe_three_slices _ f D a b result (params_vxv f) (form_of _ f) hfuel _ (fun d hd ha hb hr => by
      subst ha; exact safe_of_mixed (NeonFloat.Neon_f64_div_vector E a b result hb hr hd))
  · exact safe_three_slices _ f D a b result (params_vertical f) (form_of _ f) hfuel _ (fun d hd ha hb hr => by
      subst ha; exact safe_of_mixed (max_vertical_mixed (top := E.F.rmax64) (C13Neon.Neon_f64.ext_max E).mem a.size hd (C13Neon.Neon_f64.ext_max E).op MFa.cmp_max a b result rfl hb hr))
  · exact safe_three_slices _ f D a b result (params_vertical f) (form_of _ f) hfuel _ (fun d hd ha hb hr => by
      subst ha; exact safe_of_mixed (min_vertical_mixed (top := E.F.rmin64) (C13Neon.Neon_f64.ext_max E).mem a.size hd (C13Neon.Neon_f64.ext_min E).op MFa.cmp_min a b result rfl hb hr))
  · exact safe_two_slices _ f D a result (params_vxval f) (form_of _ f) hfuel _ (fun d hd ha hr => by
      subst ha; exact safe_of_mixed (NeonFloat.Neon_f64_add_value E value a result hr hd))
  · exact safe_two_slices _ f D a result (params_vxval f) (form_of _ f) hfuel _ (fun d hd ha hr => by
      subst ha; exact safe_of_mixed (NeonFloat.Neon_f64_div_value E value a result hr hd))
  · exact safe_two_slices _ f D a result (params_value f) (form_of _ f) hfuel _ (fun d hd ha hr => by
      subst ha; exact safe_of_mixed (max_value_mixed (top := E.F.rmax64) (C13Neon.Neon_f64.ext_max E).mem a.size hd (C13Neon.Neon_f64.ext_max E).bcast (C13Neon.Neon_f64.ext_max E).op MFa.cmp_max value a result rfl hr))
  · exact safe_two_slices _ f D a result (params_value f) (form_of _ f) hfuel _ (fun d hd ha hr => by
      subst ha; exact safe_of_mixed (min_value_mixed (top := E.F.rmin64) (C13Neon.Neon_f64.ext_max E).mem a.size hd (C13Neon.Neon_f64.ext_max E).bcast (C13Neon.Neon_f64.ext_min E).op MFa.cmp_min value a result rfl hr))

/-- **C01 on `Neon_f64`**: reductions and distances (sum, squared norm, dot product, squared Euclidean, cosine) -/
theorem Neon_f64_reductions (E : Env) (hn : E.feat_nightly = false) (f : Form) (D : Nat) (a b : Slice F64) (hfuel : ∀ n, n ≤ max D a.size → n < E.fuel)
    (sq : F64 → F64) (hsqrt : ∀ x, (AutoMath_f64 E).sqrt x = pure (sq x)) :
    SafeOutcome (runArm (safeArmOf .export_safe_horizontal_op f) (lens3 a a a) D (fun d => generic_sum E (Neon_f64.inst E) (AutoMath_f64 E) d a))
    ∧ SafeOutcome (runArm (safeArmOf .export_safe_nofma_norm_op f) (lens3 a a a) D (fun d => generic_squared_norm E (Neon_f64.inst E) (AutoMath_f64 E) d a))
    ∧ SafeOutcome (runArm (safeArmOf .export_safe_distance_op f) (lens3 a b a) D (fun d => generic_dot_product E (Neon_f64.inst E) (AutoMath_f64 E) d a b))
    ∧ SafeOutcome (runArm (safeArmOf .export_safe_distance_op f) (lens3 a b a) D (fun d => generic_euclidean E (Neon_f64.inst E) (AutoMath_f64 E) d a b))
    ∧ SafeOutcome (runArm (safeArmOf .export_safe_distance_op f) (lens3 a b a) D (fun d => generic_cosine E (Neon_f64.inst E) (AutoMath_f64 E) d a b)) := by
  have MFa : MathFaithful (AutoMath_f64 E) (f64Spec E false) := by
    have := C18.auto_f64 E
    rw [hn] at this
    exact this
  have SM := SumMath.of MFa
  have hloc : FoldLocal 2 (fun f => C13Neon.tN2.eval E.F.add64 f) := (fun f g h => FTree.eval_congr _ f g _ (fun k hk => h k (by have := (C13Neon.tN2_perm.mem_iff).mp hk; simpa using this)))
  refine ⟨?_, ?_, ?_, ?_, ?_⟩
  · exact safe_one_slice _ f D a (params_horizontal f) (form_of _ f) hfuel _ (fun d hd ha =>
      Or.inr ⟨_, KernelModel.sum' (C13Neon.Neon_f64.sumBackend E) SM d hd hloc a ha⟩)
  · exact safe_one_slice _ f D a (params_nofma_norm f) (form_of _ f) hfuel _ (fun d hd ha =>
      Or.inr ⟨_, KernelModel.squared_norm' (C13Neon.Neon_f64.sumBackend E) SM d hd hloc a ha⟩)
  · exact safe_ab_slices _ f D a b (params_distance f) (form_of _ f) hfuel _ (fun d hd ha hb =>
      Or.inr ⟨_, KernelModel.dot_product' (C13Neon.Neon_f64.sumBackend E) SM d hd hloc a b ha hb⟩)
  · exact safe_ab_slices _ f D a b (params_distance f) (form_of _ f) hfuel _ (fun d hd ha hb =>
      Or.inr ⟨_, KernelModel.euclidean' (C13Neon.Neon_f64.sumBackend E) SM d hd hloc a b ha hb⟩)
  · exact safe_ab_slices _ f D a b (params_distance f) (form_of _ f) hfuel _ (fun d hd ha hb => by
      rw [generic_cosine_model' (C13Neon.Neon_f64.sumBackend E) MFa sq hsqrt hloc d hd a b ha hb]
      unfold cosineVal
      split
      · exact Or.inr ⟨_, rfl⟩
      · split
        · exact Or.inr ⟨_, rfl⟩
        · split
          · exact Or.inr ⟨_, rfl⟩
          · exact Or.inl rfl)

end Cfavml.Thm.C01Float
