/-
C15 — matrix transposition (cfavml-gemm) is an exact, in-bounds permutation for every shape and type.

Model: `Gen/Transpose.lean`, regenerated from `cfavml-gemm/src/transpose/{mod,impl_avx2}.rs` on every run
(`transpose_matrix`, `generic_transpose`, both `impl TransposeMatrix for Avx2`, the two per-backend exports), plus the
hand-written glue `Hand/TransposeGlue.lean` that says which export stands behind the two `transmute`d views.
-/
import CfavmlModel.Lemmas.Transpose
import CfavmlModel.Lemmas.GenericTranspose
import CfavmlModel.Thm.C13X86

namespace Cfavml.Thm.C15
open X86

/-! ### the AVX2 register networks transpose their register matrices, for arbitrary lane contents -/

set_option maxRecDepth 4000 in
/-- **8×8 network** (`<Avx2 as TransposeMatrix<f32>>::transpose_register_matrix`): lane `j` of output register `i`
is lane `i` of input register `j`. Pure bit movement, so it holds for `u32` data alike. -/
theorem reg8x8_transpose (E : Env) (m : DenseLane (BitVec 256)) :
    ∃ out, Avx2_f32.transpose_register_matrix E m = pure out ∧
      ∀ i j, i < 8 → j < 8 → lane 32 j (out.nth i) = lane 32 i (m.nth j) := by
  refine ⟨_, rfl, ?_⟩
  intro i j hi hj
  have hi' : i = 0 ∨ i = 1 ∨ i = 2 ∨ i = 3 ∨ i = 4 ∨ i = 5 ∨ i = 6 ∨ i = 7 := by omega
  have hj' : j = 0 ∨ j = 1 ∨ j = 2 ∨ j = 3 ∨ j = 4 ∨ j = 5 ∨ j = 6 ∨ j = 7 := by omega
  rcases hi' with rfl | rfl | rfl | rfl | rfl | rfl | rfl | rfl <;>
  rcases hj' with rfl | rfl | rfl | rfl | rfl | rfl | rfl | rfl <;>
  simp (config := {decide := true}) [DenseLane.nth, _mm256_permute2f128_ps, permute2f128, _mm256_shuffle_ps, _mm256_unpacklo_ps,
    _mm256_unpackhi_ps, lane32_of_lanes128, lane32_lane128, lane32_fromLanes8, X86.bits2]

/-- **4×4 network** (`<Avx2 as TransposeMatrix<f64>>::transpose_register_matrix`) -/
theorem reg4x4_transpose (E : Env) (m : Dense4x4Lane (BitVec 256)) :
    ∃ out, Avx2_f64.transpose_register_matrix E m = pure out ∧
      ∀ i j, i < 4 → j < 4 → lane 64 j (out.nth i) = lane 64 i (m.nth j) := by
  refine ⟨_, rfl, ?_⟩
  intro i j hi hj
  have hi' : i = 0 ∨ i = 1 ∨ i = 2 ∨ i = 3 := by omega
  have hj' : j = 0 ∨ j = 1 ∨ j = 2 ∨ j = 3 := by omega
  rcases hi' with rfl | rfl | rfl | rfl <;>
  rcases hj' with rfl | rfl | rfl | rfl <;>
  simp (config := {decide := true}) [Dense4x4Lane.nth, gemm_shuffle_0002, gemm_shuffle_0301, _mm256_permute2f128_pd, permute2f128,
    _mm256_unpacklo_pd, _mm256_unpackhi_pd, lane64_of_lanes128, lane64_lane128, lane64_fromLanes4]

/-! ### `transpose_matrix` -/

section
variable {T : Type}

/-- what `transpose_matrix` needs from the routine behind a `transmute`d view: on buffers of the right length it
returns the transpose (the per-backend exports are documented with exactly this contract) -/
def ExtOk (w h : Nat) (e : Nat → Nat → Slice T → Slice T → Exec (Slice T)) : Prop :=
  ∀ data result : Slice T, data.size = w * h → result.size = w * h →
    ∃ res', e w h data result = pure res' ∧ IsTranspose w h data res'

/-- the naive double loop at the end of `transpose_matrix`, as generated -/
def naiveLoops (E : Env) (width height : Nat) (data result : Slice T) : Exec (Slice T) := do
  let j := 0
  let st1 ← loopM E.fuel (j, result)
    (fun st1 => do
      let j := st1.1
      let result := st1.2
      pure (decide (j < height)))
    (fun st1 => do
      let j := st1.1
      let result := st1.2
      let i := 0
      let st2 ← loopM E.fuel (i, result)
        (fun st2 => do
          let i := st2.1
          let result := st2.2
          pure (decide (i < width)))
        (fun st2 => do
          let i := st2.1
          let result := st2.2
          let blkt5 ← do
            let t6 ← umul E j width
            let t7 ← Slice.read data (t6 + i)
            let t8 ← umul E i height
            let result ← Slice.write result (t8 + j) t7
            pure result
          let result := blkt5
          let i := (i + 1)
          pure (i, result))
      let i := st2.1
      let result := st2.2
      let j := (j + 1)
      pure (j, result))
  let j := st1.1
  let result := st1.2
  pure result

/-- the view-and-dispatch block of `transpose_matrix`, as generated: `some r` = returned `r` from an AVX2 routine -/
def dispatchViews (E : Env) (tyT : RTy) (e1 e2 : Nat → Nat → Slice T → Slice T → Exec (Slice T))
    (width height : Nat) (data result : Slice T) : Exec (Option (Slice T)) :=
  mayReturn do
    if ((tyT == RTy.f32) || (tyT == RTy.u32)) then do
      let data := data
      let result := result
      let t3 ← mayReturn do
          if E.cpu_avx2 then do
            let result ← e1 width height data result
            pure (some result)
          else do
            pure none
      match t3 with
      | some r => pure (some r)
      | none => do
        pure none
    else do
      if ((tyT == RTy.f64) || (tyT == RTy.u64)) then do
        let data := data
        let result := result
        let t4 ← mayReturn do
            if E.cpu_avx2 then do
              let result ← e2 width height data result
              pure (some result)
            else do
              pure none
        match t4 with
        | some r => pure (some r)
        | none => do
          pure none
      else do
        pure none

/-- **shape of the generated `transpose_matrix`** (checked by `rfl` against the regenerated model): checked product,
two length assertions, the two early exits, the view-and-dispatch block, the naive loops -/
theorem transpose_matrix_shape (E : Env) (ty : RTy) (e1 e2 : Nat → Nat → Slice T → Slice T → Exec (Slice T))
    (w h : Nat) (data result : Slice T) :
    transpose_matrix E ty e1 e2 w h data result = (do
      let num_elements ← checkedMulExpect w h
      assertEq data.size num_elements
      assertEq data.size result.size
      if ((decide (w = 0)) || (decide (h = 0))) then pure result
      else if ((decide (w = 1)) || (decide (h = 1))) then Slice.copyFromSlice result data
      else do
        let t2 ← dispatchViews E ty e1 e2 w h data result
        match t2 with
        | some r => pure r
        | none => naiveLoops E w h data result) := rfl

theorem naive_loops (E : Env) {w h : Nat} (data res0 : Slice T) (hwh : w * h < usizeMod)
    (hd : data.size = w * h) (hn : res0.size = w * h) (hfw : w < E.fuel) (hfh : h < E.fuel) :
    ∃ res', naiveLoops E w h data res0 = pure res' ∧ IsTranspose w h data res' := by
  unfold naiveLoops
  dsimp only
  -- one outer iteration = one row scan
  let rowStep : Nat → Slice T → Exec (Slice T) := fun j res =>
    loopM E.fuel (0, res)
      (fun st2 => pure (decide (st2.1 < w)))
      (fun st2 => do
        let blkt5 ← do
          let t6 ← umul E j w
          let t7 ← Slice.read data (t6 + st2.1)
          let t8 ← umul E st2.1 h
          let result ← Slice.write st2.2 (t8 + j) t7
          pure result
        pure (st2.1 + 1, blkt5)) >>= fun st2 => pure st2.2
  rw [loopM_counted E.fuel _ _ rowStep h 1 (by omega) (by intro st; rfl)
    (by intro st; simp only [rowStep, bind_assoc, pure_bind]) h 0 res0 hfh (by omega) (by intro m hm; omega)]
  obtain ⟨res', e, hA⟩ := iter_inv rowStep 1 0
    (fun m r => Agrees w h data res0 (fun a b => a < w ∧ b < m) r) h res0
    ((Agrees.init w h data res0).congr (by intro a b _ _; constructor <;> intro x <;> first | exact x.elim | omega))
    (by
      intro m hm r hr
      obtain ⟨r', e', hr'⟩ := rowScan E data res0 hwh hd hn hfw
        (fun st2 => pure (decide (st2.1 < w)))
        (fun st2 => do
          let blkt5 ← do
            let t6 ← umul E (0 + m * 1) w
            let t7 ← Slice.read data (t6 + st2.1)
            let t8 ← umul E st2.1 h
            let result ← Slice.write st2.2 (t8 + (0 + m * 1)) t7
            pure result
          pure (st2.1 + 1, blkt5))
        (0 + m * 1) (by omega) (by intro st; rfl)
        (by intro st; simp only [copyStep, bind_assoc, pure_bind])
        0 (by omega) _ r hr
      refine ⟨r', by simp only [rowStep]; rw [e']; rfl, ?_⟩
      refine hr'.congr ?_
      intro a b ha _
      constructor
      · rintro (⟨_, x⟩ | ⟨x, _, _⟩) <;> exact ⟨ha, by omega⟩
      · rintro ⟨_, x⟩
        by_cases e : b = 0 + m * 1
        · exact Or.inr ⟨e, by omega, ha⟩
        · exact Or.inl ⟨ha, by omega⟩)
  refine ⟨res', ?_, hA.finish hn (fun a b ha hb => ⟨ha, hb⟩)⟩
  rw [e]; simp

/-- **C15 (success).** For every shape whose product fits `usize` and buffers of exactly that length,
`transpose_matrix` returns without fault and `result[i*height + j] = data[j*width + i]` for all `i < width`,
`j < height`; the result buffer keeps its length. `e1`/`e2` are the AVX2 routines behind the 4- and 8-byte views. -/
theorem transpose_matrix_spec (E : Env) (ty : RTy) (e1 e2 : Nat → Nat → Slice T → Slice T → Exec (Slice T))
    (w h : Nat) (data result : Slice T) (hfw : w < E.fuel) (hfh : h < E.fuel)
    (he1 : (ty = .f32 ∨ ty = .u32) → E.cpu_avx2 = true → ExtOk w h e1)
    (he2 : (ty = .f64 ∨ ty = .u64) → E.cpu_avx2 = true → ExtOk w h e2)
    (hwh : w * h < usizeMod) (hd : data.size = w * h) (hr : result.size = data.size) :
    ∃ res', transpose_matrix E ty e1 e2 w h data result = pure res' ∧ IsTranspose w h data res' := by
  have hn : result.size = w * h := by rw [hr, hd]
  rw [transpose_matrix_shape, checkedMulExpect_ok w h hwh]
  simp only [pure_bind, assertEq, hd, hr, if_true]
  by_cases h0 : w = 0 ∨ h = 0
  · have : (decide (w = 0) || decide (h = 0)) = true := by simpa using h0
    simp only [this, if_true]
    refine ⟨result, rfl, hn, ?_⟩
    intro i j hi hj
    rcases h0 with e | e <;> omega
  · have : (decide (w = 0) || decide (h = 0)) = false := by simpa using h0
    simp only [this, Bool.false_eq_true, if_false]
    by_cases h1 : w = 1 ∨ h = 1
    · have : (decide (w = 1) || decide (h = 1)) = true := by simpa using h1
      simp only [this, if_true]
      refine ⟨⟨result.size, data.get⟩, by simp [Slice.copyFromSlice, hr], hn, ?_⟩
      intro i j hi hj
      rcases h1 with e | e
      · subst e
        have : i = 0 := by omega
        subst this; simp
      · subst e
        have : j = 0 := by omega
        subst this; simp
    · have : (decide (w = 1) || decide (h = 1)) = false := by simpa using h1
      simp only [this, Bool.false_eq_true, if_false]
      obtain ⟨resN, eN, htN⟩ := naive_loops E data result hwh hd hn hfw hfh
      -- the view-and-dispatch block either returns a transpose or falls through
      have hdv : (∃ r, dispatchViews E ty e1 e2 w h data result = pure (some r) ∧ IsTranspose w h data r)
          ∨ dispatchViews E ty e1 e2 w h data result = pure none := by
        unfold dispatchViews mayReturn
        by_cases c1 : (ty == RTy.f32 || ty == RTy.u32) = true
        · simp only [c1, if_true]
          cases hav : E.cpu_avx2
          · right; simp
          · have hty : ty = .f32 ∨ ty = .u32 := by
              cases ty <;> simp at c1 <;> simp
            obtain ⟨res', e, ht⟩ := he1 hty hav data result hd hn
            left; exact ⟨res', by simp [e], ht⟩
        · have c1' : (ty == RTy.f32 || ty == RTy.u32) = false := by simpa using c1
          simp only [c1', Bool.false_eq_true, if_false]
          by_cases c2 : (ty == RTy.f64 || ty == RTy.u64) = true
          · simp only [c2, if_true]
            cases hav : E.cpu_avx2
            · right; simp
            · have hty : ty = .f64 ∨ ty = .u64 := by
                cases ty <;> simp at c2 <;> simp
              obtain ⟨res', e, ht⟩ := he2 hty hav data result hd hn
              left; exact ⟨res', by simp [e], ht⟩
          · have c2' : (ty == RTy.f64 || ty == RTy.u64) = false := by simpa using c2
            right; simp only [c2', Bool.false_eq_true, if_false]
      rcases hdv with ⟨r, e, ht⟩ | e
      · exact ⟨r, by rw [e]; rfl, ht⟩
      · exact ⟨resN, by rw [e]; simpa using eN, htN⟩

/-- **C15 (panics).** When `width * height` overflows `usize`, or a buffer's length is not `width * height`,
`transpose_matrix` panics — before touching either buffer, for every element type and CPU. -/
theorem transpose_matrix_panics (E : Env) (ty : RTy) (e1 e2 : Nat → Nat → Slice T → Slice T → Exec (Slice T))
    (w h : Nat) (data result : Slice T)
    (hbad : ¬ (w * h < usizeMod ∧ data.size = w * h ∧ result.size = data.size)) :
    transpose_matrix E ty e1 e2 w h data result = throw Fault.panic := by
  rw [transpose_matrix_shape]
  by_cases hwh : w * h < usizeMod
  · rw [checkedMulExpect_ok w h hwh]
    simp only [pure_bind, assertEq]
    by_cases hd : data.size = w * h
    · have hr : ¬ data.size = result.size := by
        intro e; exact hbad ⟨hwh, hd, e.symm⟩
      simp only [hd, if_true, pure_bind]
      rw [← hd]; simp only [hr, if_false]
      rfl
    · simp only [hd, if_false]
      rfl
  · rw [checkedMulExpect_overflow w h hwh]
    rfl

end

/-! ### the AVX2 implementations meet the block contract, hence the AVX2 routines are exact for every shape -/

theorem setRange_get {α : Type} (s : Slice α) (i n : Nat) (f : Nat → α) (j : Nat) :
    (s.setRange i n f).get j = if i ≤ j ∧ j < i + n then f (j - i) else s.get j := rfl
theorem setRange_size {α : Type} (s : Slice α) (i n : Nat) (f : Nat → α) : (s.setRange i n f).size = s.size := rfl

/-- **`impl TransposeMatrix<f32> for Avx2`** meets the block contract with `N = 8` -/
theorem avx2_f32_faithful (E : Env) :
    TransposeFaithful (Avx2_f32.inst E) (Avx2_f32.transposeInst E) 8 (fun m r c => xlanes 32 (m.nth r) c) where
  N_pos := by decide
  N_small := by decide
  epl := (C13X86.Avx2_f32.mem E).epl
  load_ok := by
    intro data off width hw hr
    have MF := C13X86.Avx2_f32.mem E
    have m1 : width * 1 < usizeMod := by omega
    have m2 : width * 2 < usizeMod := by omega
    have m3 : width * 3 < usizeMod := by omega
    have m4 : width * 4 < usizeMod := by omega
    have m5 : width * 5 < usizeMod := by omega
    have m6 : width * 6 < usizeMod := by omega
    have m7 : width * 7 < usizeMod := by omega
    obtain ⟨r0, e0, h0⟩ := MF.load_ok data (0 + off) (by omega)
    obtain ⟨r1, e1, h1⟩ := MF.load_ok data (0 + (off + width * 1)) (by omega)
    obtain ⟨r2, e2, h2⟩ := MF.load_ok data (0 + (off + width * 2)) (by omega)
    obtain ⟨r3, e3, h3⟩ := MF.load_ok data (0 + (off + width * 3)) (by omega)
    obtain ⟨r4, e4, h4⟩ := MF.load_ok data (0 + (off + width * 4)) (by omega)
    obtain ⟨r5, e5, h5⟩ := MF.load_ok data (0 + (off + width * 5)) (by omega)
    obtain ⟨r6, e6, h6⟩ := MF.load_ok data (0 + (off + width * 6)) (by omega)
    obtain ⟨r7, e7, h7⟩ := MF.load_ok data (0 + (off + width * 7)) (by omega)
    refine ⟨⟨r0, r1, r2, r3, r4, r5, r6, r7⟩, ?_, ?_⟩
    · show Avx2_f32.load_matrix E off width data 0 = _
      unfold Avx2_f32.load_matrix
      rw [umul_ok E _ _ m1, umul_ok E _ _ m2, umul_ok E _ _ m3, umul_ok E _ _ m4, umul_ok E _ _ m5, umul_ok E _ _ m6, umul_ok E _ _ m7]
      simp only [pure_bind]
      rw [show Avx2_f32.load E = (Avx2_f32.inst E).load from rfl, e0, e1, e2, e3, e4, e5, e6, e7]
      rfl
    · intro r c hr' hc
      have hr'' : r = 0 ∨ r = 1 ∨ r = 2 ∨ r = 3 ∨ r = 4 ∨ r = 5 ∨ r = 6 ∨ r = 7 := by omega
      rcases hr'' with rfl | rfl | rfl | rfl | rfl | rfl | rfl | rfl
      · show xlanes 32 r0 c = _; rw [h0 c hc]; congr 1; omega
      · show xlanes 32 r1 c = _; rw [h1 c hc]; congr 1; omega
      · show xlanes 32 r2 c = _; rw [h2 c hc]; congr 1; omega
      · show xlanes 32 r3 c = _; rw [h3 c hc]; congr 1; omega
      · show xlanes 32 r4 c = _; rw [h4 c hc]; congr 1; omega
      · show xlanes 32 r5 c = _; rw [h5 c hc]; congr 1; omega
      · show xlanes 32 r6 c = _; rw [h6 c hc]; congr 1; omega
      · show xlanes 32 r7 c = _; rw [h7 c hc]; congr 1; omega
  transpose_ok := by
    intro m
    obtain ⟨t, e, h⟩ := reg8x8_transpose E m
    exact ⟨t, e, fun r c hr hc => h r c hr hc⟩
  write_ok := by
    intro res off height m hNh hh hr
    have MF := C13X86.Avx2_f32.mem E
    have m1 : 1 * height < usizeMod := by omega
    have m2 : 2 * height < usizeMod := by omega
    have m3 : 3 * height < usizeMod := by omega
    have m4 : 4 * height < usizeMod := by omega
    have m5 : 5 * height < usizeMod := by omega
    have m6 : 6 * height < usizeMod := by omega
    have m7 : 7 * height < usizeMod := by omega
    refine ⟨(((((((res.setRange (0 + off) 8 (xlanes 32 m.a)).setRange (0 + (off + 1 * height)) 8 (xlanes 32 m.b)).setRange (0 + (off + 2 * height)) 8 (xlanes 32 m.c)).setRange (0 + (off + 3 * height)) 8 (xlanes 32 m.d)).setRange (0 + (off + 4 * height)) 8 (xlanes 32 m.e)).setRange (0 + (off + 5 * height)) 8 (xlanes 32 m.f)).setRange (0 + (off + 6 * height)) 8 (xlanes 32 m.g)).setRange (0 + (off + 7 * height)) 8 (xlanes 32 m.h), ?_, rfl, ?_, ?_⟩
    · show Avx2_f32.write_matrix E off height m res 0 = _
      unfold Avx2_f32.write_matrix
      rw [umul_ok E _ _ m1, umul_ok E _ _ m2, umul_ok E _ _ m3, umul_ok E _ _ m4, umul_ok E _ _ m5, umul_ok E _ _ m6, umul_ok E _ _ m7]
      simp only [pure_bind]
      rw [show Avx2_f32.write E = (Avx2_f32.inst E).write from rfl]
      rw [MF.write_ok res _ m.a (by omega)]; simp only [pure_bind]
      rw [MF.write_ok _ _ m.b (by simp only [setRange_size]; omega)]; simp only [pure_bind]
      rw [MF.write_ok _ _ m.c (by simp only [setRange_size]; omega)]; simp only [pure_bind]
      rw [MF.write_ok _ _ m.d (by simp only [setRange_size]; omega)]; simp only [pure_bind]
      rw [MF.write_ok _ _ m.e (by simp only [setRange_size]; omega)]; simp only [pure_bind]
      rw [MF.write_ok _ _ m.f (by simp only [setRange_size]; omega)]; simp only [pure_bind]
      rw [MF.write_ok _ _ m.g (by simp only [setRange_size]; omega)]; simp only [pure_bind]
      rw [MF.write_ok _ _ m.h (by simp only [setRange_size]; omega)]
    · intro r c hr' hc
      have hr'' : r = 0 ∨ r = 1 ∨ r = 2 ∨ r = 3 ∨ r = 4 ∨ r = 5 ∨ r = 6 ∨ r = 7 := by omega
      simp only [setRange_get]
      rcases hr'' with rfl | rfl | rfl | rfl | rfl | rfl | rfl | rfl
      · rw [if_neg (by omega), if_neg (by omega), if_neg (by omega), if_neg (by omega), if_neg (by omega), if_neg (by omega), if_neg (by omega), if_pos (by omega)]
        show xlanes 32 m.a _ = xlanes 32 m.a c; congr 1; omega
      · rw [if_neg (by omega), if_neg (by omega), if_neg (by omega), if_neg (by omega), if_neg (by omega), if_neg (by omega), if_pos (by omega)]
        show xlanes 32 m.b _ = xlanes 32 m.b c; congr 1; omega
      · rw [if_neg (by omega), if_neg (by omega), if_neg (by omega), if_neg (by omega), if_neg (by omega), if_pos (by omega)]
        show xlanes 32 m.c _ = xlanes 32 m.c c; congr 1; omega
      · rw [if_neg (by omega), if_neg (by omega), if_neg (by omega), if_neg (by omega), if_pos (by omega)]
        show xlanes 32 m.d _ = xlanes 32 m.d c; congr 1; omega
      · rw [if_neg (by omega), if_neg (by omega), if_neg (by omega), if_pos (by omega)]
        show xlanes 32 m.e _ = xlanes 32 m.e c; congr 1; omega
      · rw [if_neg (by omega), if_neg (by omega), if_pos (by omega)]
        show xlanes 32 m.f _ = xlanes 32 m.f c; congr 1; omega
      · rw [if_neg (by omega), if_pos (by omega)]
        show xlanes 32 m.g _ = xlanes 32 m.g c; congr 1; omega
      · rw [if_pos (by omega)]
        show xlanes 32 m.h _ = xlanes 32 m.h c; congr 1; omega
    · intro k hk
      simp only [setRange_get]
      rw [if_neg (by intro ⟨x1, x2⟩; exact hk 7 (k - (off + 7 * height)) (by omega) (by omega) (by omega)),
        if_neg (by intro ⟨x1, x2⟩; exact hk 6 (k - (off + 6 * height)) (by omega) (by omega) (by omega)),
        if_neg (by intro ⟨x1, x2⟩; exact hk 5 (k - (off + 5 * height)) (by omega) (by omega) (by omega)),
        if_neg (by intro ⟨x1, x2⟩; exact hk 4 (k - (off + 4 * height)) (by omega) (by omega) (by omega)),
        if_neg (by intro ⟨x1, x2⟩; exact hk 3 (k - (off + 3 * height)) (by omega) (by omega) (by omega)),
        if_neg (by intro ⟨x1, x2⟩; exact hk 2 (k - (off + 2 * height)) (by omega) (by omega) (by omega)),
        if_neg (by intro ⟨x1, x2⟩; exact hk 1 (k - (off + 1 * height)) (by omega) (by omega) (by omega)),
        if_neg (by intro ⟨x1, x2⟩; exact hk 0 (k - off) (by omega) (by omega) (by omega))]

/-- **`impl TransposeMatrix<f64> for Avx2`** meets the block contract with `N = 4` -/
theorem avx2_f64_faithful (E : Env) :
    TransposeFaithful (Avx2_f64.inst E) (Avx2_f64.transposeInst E) 4 (fun m r c => xlanes 64 (m.nth r) c) where
  N_pos := by decide
  N_small := by decide
  epl := (C13X86.Avx2_f64.mem E).epl
  load_ok := by
    intro data off width hw hr
    have MF := C13X86.Avx2_f64.mem E
    have m1 : width * 1 < usizeMod := by omega
    have m2 : width * 2 < usizeMod := by omega
    have m3 : width * 3 < usizeMod := by omega
    obtain ⟨r0, e0, h0⟩ := MF.load_ok data (0 + off) (by omega)
    obtain ⟨r1, e1, h1⟩ := MF.load_ok data (0 + (off + width * 1)) (by omega)
    obtain ⟨r2, e2, h2⟩ := MF.load_ok data (0 + (off + width * 2)) (by omega)
    obtain ⟨r3, e3, h3⟩ := MF.load_ok data (0 + (off + width * 3)) (by omega)
    refine ⟨⟨r0, r1, r2, r3⟩, ?_, ?_⟩
    · show Avx2_f64.load_matrix E off width data 0 = _
      unfold Avx2_f64.load_matrix
      rw [umul_ok E _ _ m1, umul_ok E _ _ m2, umul_ok E _ _ m3]
      simp only [pure_bind]
      rw [show Avx2_f64.load E = (Avx2_f64.inst E).load from rfl, e0, e1, e2, e3]
      rfl
    · intro r c hr' hc
      have hr'' : r = 0 ∨ r = 1 ∨ r = 2 ∨ r = 3 := by omega
      rcases hr'' with rfl | rfl | rfl | rfl
      · show xlanes 64 r0 c = _; rw [h0 c hc]; congr 1; omega
      · show xlanes 64 r1 c = _; rw [h1 c hc]; congr 1; omega
      · show xlanes 64 r2 c = _; rw [h2 c hc]; congr 1; omega
      · show xlanes 64 r3 c = _; rw [h3 c hc]; congr 1; omega
  transpose_ok := by
    intro m
    obtain ⟨t, e, h⟩ := reg4x4_transpose E m
    exact ⟨t, e, fun r c hr hc => h r c hr hc⟩
  write_ok := by
    intro res off height m hNh hh hr
    have MF := C13X86.Avx2_f64.mem E
    have m1 : 1 * height < usizeMod := by omega
    have m2 : 2 * height < usizeMod := by omega
    have m3 : 3 * height < usizeMod := by omega
    refine ⟨(((res.setRange (0 + off) 4 (xlanes 64 m.a)).setRange (0 + (off + 1 * height)) 4 (xlanes 64 m.b)).setRange (0 + (off + 2 * height)) 4 (xlanes 64 m.c)).setRange (0 + (off + 3 * height)) 4 (xlanes 64 m.d), ?_, rfl, ?_, ?_⟩
    · show Avx2_f64.write_matrix E off height m res 0 = _
      unfold Avx2_f64.write_matrix
      rw [umul_ok E _ _ m1, umul_ok E _ _ m2, umul_ok E _ _ m3]
      simp only [pure_bind]
      rw [show Avx2_f64.write E = (Avx2_f64.inst E).write from rfl]
      rw [MF.write_ok res _ m.a (by omega)]; simp only [pure_bind]
      rw [MF.write_ok _ _ m.b (by simp only [setRange_size]; omega)]; simp only [pure_bind]
      rw [MF.write_ok _ _ m.c (by simp only [setRange_size]; omega)]; simp only [pure_bind]
      rw [MF.write_ok _ _ m.d (by simp only [setRange_size]; omega)]
    · intro r c hr' hc
      have hr'' : r = 0 ∨ r = 1 ∨ r = 2 ∨ r = 3 := by omega
      simp only [setRange_get]
      rcases hr'' with rfl | rfl | rfl | rfl
      · rw [if_neg (by omega), if_neg (by omega), if_neg (by omega), if_pos (by omega)]
        show xlanes 64 m.a _ = xlanes 64 m.a c; congr 1; omega
      · rw [if_neg (by omega), if_neg (by omega), if_pos (by omega)]
        show xlanes 64 m.b _ = xlanes 64 m.b c; congr 1; omega
      · rw [if_neg (by omega), if_pos (by omega)]
        show xlanes 64 m.c _ = xlanes 64 m.c c; congr 1; omega
      · rw [if_pos (by omega)]
        show xlanes 64 m.d _ = xlanes 64 m.d c; congr 1; omega
    · intro k hk
      simp only [setRange_get]
      rw [if_neg (by intro ⟨x1, x2⟩; exact hk 3 (k - (off + 3 * height)) (by omega) (by omega) (by omega)),
        if_neg (by intro ⟨x1, x2⟩; exact hk 2 (k - (off + 2 * height)) (by omega) (by omega) (by omega)),
        if_neg (by intro ⟨x1, x2⟩; exact hk 1 (k - (off + 1 * height)) (by omega) (by omega) (by omega)),
        if_neg (by intro ⟨x1, x2⟩; exact hk 0 (k - off) (by omega) (by omega) (by omega))]

/-- `f32_xany_avx2_nofma_transpose` (also used for `u32`): exact transpose, every shape -/
theorem f32_avx2_transpose_spec (E : Env) (w h : Nat) (data result : Slice F32) (hfw : w < E.fuel) (hfh : h < E.fuel)
    (hwh : w * h < usizeMod) (hd : data.size = w * h) (hr : result.size = data.size) :
    ∃ res', f32_xany_avx2_nofma_transpose E w h data result = pure res' ∧ IsTranspose w h data res' := by
  obtain ⟨res', e, ht⟩ := generic_transpose_spec (E := E) (avx2_f32_faithful E) w h data result hfw hfh hwh hd hr
  exact ⟨res', by unfold f32_xany_avx2_nofma_transpose; rw [e], ht⟩

/-- `f64_xany_avx2_nofma_transpose` (also used for `u64`): exact transpose, every shape -/
theorem f64_avx2_transpose_spec (E : Env) (w h : Nat) (data result : Slice F64) (hfw : w < E.fuel) (hfh : h < E.fuel)
    (hwh : w * h < usizeMod) (hd : data.size = w * h) (hr : result.size = data.size) :
    ∃ res', f64_xany_avx2_nofma_transpose E w h data result = pure res' ∧ IsTranspose w h data res' := by
  obtain ⟨res', e, ht⟩ := generic_transpose_spec (E := E) (avx2_f64_faithful E) w h data result hfw hfh hwh hd hr
  exact ⟨res', by unfold f64_xany_avx2_nofma_transpose; rw [e], ht⟩

/-- **C15 for every 4-byte element type, every CPU**: `transpose_matrix::<T>` for `T` of 4 bytes (f32/u32 through
AVX2 when available, everything else through the naive loop) returns the exact transpose -/
theorem transpose_b32_spec (E : Env) (ty : RTy) (w h : Nat) (data result : Slice (BitVec 32))
    (hfw : w < E.fuel) (hfh : h < E.fuel) (hty : TyOk32 ty)
    (hwh : w * h < usizeMod) (hd : data.size = w * h) (hr : result.size = data.size) :
    ∃ res', transpose_matrix_b32 E ty w h data result = pure res' ∧ IsTranspose w h data res' :=
  transpose_matrix_spec E ty _ _ w h data result hfw hfh
    (fun _ _ d r hd' hr' => f32_avx2_transpose_spec E w h d r hfw hfh hwh hd' (hr'.trans hd'.symm))
    (by intro x; rcases hty with e | e | e <;> subst e <;> rcases x with x | x <;> cases x)
    hwh hd hr

/-- **C15 for every 8-byte element type, every CPU** -/
theorem transpose_b64_spec (E : Env) (ty : RTy) (w h : Nat) (data result : Slice (BitVec 64))
    (hfw : w < E.fuel) (hfh : h < E.fuel) (hty : TyOk64 ty)
    (hwh : w * h < usizeMod) (hd : data.size = w * h) (hr : result.size = data.size) :
    ∃ res', transpose_matrix_b64 E ty w h data result = pure res' ∧ IsTranspose w h data res' :=
  transpose_matrix_spec E ty _ _ w h data result hfw hfh
    (by intro x; rcases hty with e | e | e <;> subst e <;> rcases x with x | x <;> cases x)
    (fun _ _ d r hd' hr' => f64_avx2_transpose_spec E w h d r hfw hfh hwh hd' (hr'.trans hd'.symm))
    hwh hd hr

/-! ### instances -/

/-- every element type that is not `f32/u32/f64/u64` (any size: `i32`, `u8`, `u128`, structs, …), on every CPU -/
theorem transpose_other_spec {T : Type} (E : Env) (w h : Nat) (data result : Slice T) (hfw : w < E.fuel) (hfh : h < E.fuel)
    (hwh : w * h < usizeMod) (hd : data.size = w * h) (hr : result.size = data.size) :
    ∃ res', transpose_matrix_other E w h data result = pure res' ∧ IsTranspose w h data res' :=
  transpose_matrix_spec E RTy.other _ _ w h data result hfw hfh (by intro x; rcases x with x | x <;> cases x)
    (by intro x; rcases x with x | x <;> cases x) hwh hd hr

/-- 4-byte types on a CPU without AVX2 (and `i32` & co. on any CPU) take the naive loop.
`_partial`: with AVX2, `f32`/`u32` go through `generic_transpose::<f32, Avx2>`, covered by `generic_transpose_spec`. -/
theorem transpose_b32_spec_partial (E : Env) (ty : RTy) (w h : Nat) (data result : Slice (BitVec 32))
    (hfw : w < E.fuel) (hfh : h < E.fuel) (hnaive : ty = .other ∨ E.cpu_avx2 = false)
    (hwh : w * h < usizeMod) (hd : data.size = w * h) (hr : result.size = data.size) :
    ∃ res', transpose_matrix_b32 E ty w h data result = pure res' ∧ IsTranspose w h data res' :=
  transpose_matrix_spec E ty _ _ w h data result hfw hfh
    (by intro x y; rcases hnaive with e | e
        · subst e; rcases x with x | x <;> cases x
        · rw [e] at y; cases y)
    (by intro x y; rcases hnaive with e | e
        · subst e; rcases x with x | x <;> cases x
        · rw [e] at y; cases y) hwh hd hr

theorem transpose_b64_spec_partial (E : Env) (ty : RTy) (w h : Nat) (data result : Slice (BitVec 64))
    (hfw : w < E.fuel) (hfh : h < E.fuel) (hnaive : ty = .other ∨ E.cpu_avx2 = false)
    (hwh : w * h < usizeMod) (hd : data.size = w * h) (hr : result.size = data.size) :
    ∃ res', transpose_matrix_b64 E ty w h data result = pure res' ∧ IsTranspose w h data res' :=
  transpose_matrix_spec E ty _ _ w h data result hfw hfh
    (by intro x y; rcases hnaive with e | e
        · subst e; rcases x with x | x <;> cases x
        · rw [e] at y; cases y)
    (by intro x y; rcases hnaive with e | e
        · subst e; rcases x with x | x <;> cases x
        · rw [e] at y; cases y) hwh hd hr

/-- **C15 (involution).** transposing twice restores the input -/
theorem transpose_involution {T : Type} {w h : Nat} {data r1 r2 : Slice T}
    (h1 : IsTranspose w h data r1) (h2 : IsTranspose h w r1 r2) :
    r2.size = w * h ∧ ∀ k, k < w * h → r2.get k = data.get k := by
  refine ⟨by rw [h2.1, Nat.mul_comm], ?_⟩
  intro k hk
  have hw : 0 < w := by
    rcases Nat.eq_zero_or_pos w with e | e
    · subst e; simp at hk
    · exact e
  -- k = j*w + i with i < w, j < h
  have hi : k % w < w := Nat.mod_lt _ hw
  have hj : k / w < h := by rw [Nat.div_lt_iff_lt_mul hw, Nat.mul_comm]; exact hk
  have hk' : k = (k / w) * w + k % w := by
    have := Nat.div_add_mod k w; rw [Nat.mul_comm] at this; omega
  have e2 := h2.2 (k / w) (k % w) hj hi
  have e1 := h1.2 (k % w) (k / w) hi hj
  rw [← hk'] at e2
  rw [e2, e1, ← hk']

/-- non-vacuity: a 2×3 matrix `[[1,2],[3,4],[5,6]]` (width 2, height 3) and its transpose satisfy the specification -/
example : IsTranspose 2 3 (Slice.ofArray #[1, 2, 3, 4, 5, 6]) (Slice.ofArray (#[1, 3, 5, 2, 4, 6] : Array Nat)) := by
  refine ⟨rfl, ?_⟩
  intro i j hi hj
  have : i = 0 ∨ i = 1 := by omega
  have : j = 0 ∨ j = 1 ∨ j = 2 := by omega
  rcases ‹i = 0 ∨ i = 1› with rfl | rfl <;> rcases ‹j = 0 ∨ j = 1 ∨ j = 2› with rfl | rfl | rfl <;> rfl

end Cfavml.Thm.C15
