/-
C13 (x86 backends) — GENERATED TEXT (lean/tools/gen_c13x86.py), hand-designed proofs: each statement is an
instance of a generic lemma of Lemmas/X86Backend.lean; its side conditions are `rfl` against the generated
impl methods (so a changed intrinsic, operand order or shape in impl_avx2.rs / impl_avx512.rs breaks it) and
`decide` on the register geometry.
Per backend × element type: `core`/`mem` (loads, stores, lane count, dense memory forms), `bcast`, and
`Lanewise2` for every operation that is a single lane-wise intrinsic, plus the integer `div` loop.
The composite operations (8-bit and AVX2 64-bit multiply, AVX2 64-bit max/min, horizontal folds) are in
Thm/C13X86Hard.lean as far as they are proved; the register-level correspondence run covers all of them on
the real CPU.
-/
import CfavmlModel.Lemmas.X86Backend
import CfavmlModel.Gen.ImplAvx2
import CfavmlModel.Gen.ImplAvx512
import CfavmlModel.Spec.Backend

namespace Cfavml.Thm.C13X86

namespace Avx2_f32
theorem core (E : Env) : CoreFaithful (Avx2_f32.inst E) 8 (xlanes 32) :=
  core_of_x86 (by decide) (by decide) (by decide) (by decide) _ rfl (fun _ _ => rfl) (fun _ _ _ => rfl)
theorem usesDefaults (E : Env) : UsesDefaultMem E (Avx2_f32.inst E) := ⟨rfl, rfl, rfl⟩
/-- loads/stores move exactly the 8 lanes at the offset, fault exactly outside the slice; dense forms are eight of them -/
theorem mem (E : Env) : MemFaithful (Avx2_f32.inst E) 8 (xlanes 32) := memFaithful_of_defaults (core E) (usesDefaults E)
theorem bcast (E : Env) : BroadcastFaithful (Avx2_f32.inst E) 8 (xlanes 32) :=
  bcast_of_x86 (E := E) (by decide) (by decide) (by decide) _ (fun _ => rfl) rfl
theorem add (E : Env) : Lanewise2 8 (xlanes 32) (f32Spec E false).add (fun _ => True) (Avx2_f32.inst E).add (Avx2_f32.inst E).add_dense :=
  lanewise2_of_map2 (by decide) (by decide) (by decide) _ _ (fun _ _ => rfl) _ rfl
theorem sub (E : Env) : Lanewise2 8 (xlanes 32) (f32Spec E false).sub (fun _ => True) (Avx2_f32.inst E).sub (Avx2_f32.inst E).sub_dense :=
  lanewise2_of_map2 (by decide) (by decide) (by decide) _ _ (fun _ _ => rfl) _ rfl
theorem mul (E : Env) : Lanewise2 8 (xlanes 32) (f32Spec E false).mul (fun _ => True) (Avx2_f32.inst E).mul (Avx2_f32.inst E).mul_dense :=
  lanewise2_of_map2 (by decide) (by decide) (by decide) _ _ (fun _ _ => rfl) _ rfl
theorem div (E : Env) : Lanewise2 8 (xlanes 32) (f32Spec E false).div (fun _ => True) (Avx2_f32.inst E).div (Avx2_f32.inst E).div_dense :=
  lanewise2_of_map2 (by decide) (by decide) (by decide) _ _ (fun _ _ => rfl) _ rfl
theorem max (E : Env) : Lanewise2 8 (xlanes 32) (X86.fmax32 E) (fun _ => True) (Avx2_f32.inst E).max (Avx2_f32.inst E).max_dense :=
  lanewise2_of_map2 (by decide) (by decide) (by decide) _ _ (fun _ _ => rfl) _ rfl
theorem min (E : Env) : Lanewise2 8 (xlanes 32) (X86.fmin32 E) (fun _ => True) (Avx2_f32.inst E).min (Avx2_f32.inst E).min_dense :=
  lanewise2_of_map2 (by decide) (by decide) (by decide) _ _ (fun _ _ => rfl) _ rfl
end Avx2_f32

namespace Avx2_f64
theorem core (E : Env) : CoreFaithful (Avx2_f64.inst E) 4 (xlanes 64) :=
  core_of_x86 (by decide) (by decide) (by decide) (by decide) _ rfl (fun _ _ => rfl) (fun _ _ _ => rfl)
theorem usesDefaults (E : Env) : UsesDefaultMem E (Avx2_f64.inst E) := ⟨rfl, rfl, rfl⟩
/-- loads/stores move exactly the 4 lanes at the offset, fault exactly outside the slice; dense forms are eight of them -/
theorem mem (E : Env) : MemFaithful (Avx2_f64.inst E) 4 (xlanes 64) := memFaithful_of_defaults (core E) (usesDefaults E)
theorem bcast (E : Env) : BroadcastFaithful (Avx2_f64.inst E) 4 (xlanes 64) :=
  bcast_of_x86 (E := E) (by decide) (by decide) (by decide) _ (fun _ => rfl) rfl
theorem add (E : Env) : Lanewise2 4 (xlanes 64) (f64Spec E false).add (fun _ => True) (Avx2_f64.inst E).add (Avx2_f64.inst E).add_dense :=
  lanewise2_of_map2 (by decide) (by decide) (by decide) _ _ (fun _ _ => rfl) _ rfl
theorem sub (E : Env) : Lanewise2 4 (xlanes 64) (f64Spec E false).sub (fun _ => True) (Avx2_f64.inst E).sub (Avx2_f64.inst E).sub_dense :=
  lanewise2_of_map2 (by decide) (by decide) (by decide) _ _ (fun _ _ => rfl) _ rfl
theorem mul (E : Env) : Lanewise2 4 (xlanes 64) (f64Spec E false).mul (fun _ => True) (Avx2_f64.inst E).mul (Avx2_f64.inst E).mul_dense :=
  lanewise2_of_map2 (by decide) (by decide) (by decide) _ _ (fun _ _ => rfl) _ rfl
theorem div (E : Env) : Lanewise2 4 (xlanes 64) (f64Spec E false).div (fun _ => True) (Avx2_f64.inst E).div (Avx2_f64.inst E).div_dense :=
  lanewise2_of_map2 (by decide) (by decide) (by decide) _ _ (fun _ _ => rfl) _ rfl
theorem max (E : Env) : Lanewise2 4 (xlanes 64) (X86.fmax64 E) (fun _ => True) (Avx2_f64.inst E).max (Avx2_f64.inst E).max_dense :=
  lanewise2_of_map2 (by decide) (by decide) (by decide) _ _ (fun _ _ => rfl) _ rfl
theorem min (E : Env) : Lanewise2 4 (xlanes 64) (X86.fmin64 E) (fun _ => True) (Avx2_f64.inst E).min (Avx2_f64.inst E).min_dense :=
  lanewise2_of_map2 (by decide) (by decide) (by decide) _ _ (fun _ _ => rfl) _ rfl
end Avx2_f64

namespace Avx2_i8
theorem core (E : Env) : CoreFaithful (Avx2_i8.inst E) 32 (xlanes 8) :=
  core_of_x86 (by decide) (by decide) (by decide) (by decide) _ rfl (fun _ _ => rfl) (fun _ _ _ => rfl)
theorem usesDefaults (E : Env) : UsesDefaultMem E (Avx2_i8.inst E) := ⟨rfl, rfl, rfl⟩
/-- loads/stores move exactly the 32 lanes at the offset, fault exactly outside the slice; dense forms are eight of them -/
theorem mem (E : Env) : MemFaithful (Avx2_i8.inst E) 32 (xlanes 8) := memFaithful_of_defaults (core E) (usesDefaults E)
theorem bcast (E : Env) : BroadcastFaithful (Avx2_i8.inst E) 32 (xlanes 8) :=
  bcast_of_x86 (E := E) (by decide) (by decide) (by decide) _ (fun _ => rfl) rfl
theorem add (E : Env) : Lanewise2 32 (xlanes 8) (sintSpec 8).add (fun _ => True) (Avx2_i8.inst E).add (Avx2_i8.inst E).add_dense :=
  lanewise2_of_map2 (by decide) (by decide) (by decide) _ _ (fun _ _ => rfl) _ rfl
theorem sub (E : Env) : Lanewise2 32 (xlanes 8) (sintSpec 8).sub (fun _ => True) (Avx2_i8.inst E).sub (Avx2_i8.inst E).sub_dense :=
  lanewise2_of_map2 (by decide) (by decide) (by decide) _ _ (fun _ _ => rfl) _ rfl
theorem max (E : Env) : Lanewise2 32 (xlanes 8) (sintSpec 8).cmpMax (fun _ => True) (Avx2_i8.inst E).max (Avx2_i8.inst E).max_dense :=
  lanewise2_of_map2 (by decide) (by decide) (by decide) _ _ (fun _ _ => rfl) _ rfl
theorem min (E : Env) : Lanewise2 32 (xlanes 8) (sintSpec 8).cmpMin (fun _ => True) (Avx2_i8.inst E).min (Avx2_i8.inst E).min_dense :=
  lanewise2_of_map2 (by decide) (by decide) (by decide) _ _ (fun _ _ => rfl) _ rfl
/-- integer division: the scalar `wrapping_div` in every lane, for non-zero divisors -/
theorem div (E : Env) : Lanewise2 32 (xlanes 8) (sintSpec 8).div (fun y => (sintSpec 8).divOk y = true) (Avx2_i8.inst E).div (Avx2_i8.inst E).div_dense :=
  lanewise2_of_divLoop (by decide) (by decide) (by decide) (I8.lit 0) (I8.wrapping_div E) _ _
    (fun y h => by simpa [sintSpec, uintSpec] using h)
    (fun x y h => by show IntPrim.sdivW x y = _; unfold IntPrim.sdivW; rw [if_neg h]; rfl)
    _ (fun _ _ => rfl) _ rfl
end Avx2_i8

namespace Avx2_i16
theorem core (E : Env) : CoreFaithful (Avx2_i16.inst E) 16 (xlanes 16) :=
  core_of_x86 (by decide) (by decide) (by decide) (by decide) _ rfl (fun _ _ => rfl) (fun _ _ _ => rfl)
theorem usesDefaults (E : Env) : UsesDefaultMem E (Avx2_i16.inst E) := ⟨rfl, rfl, rfl⟩
/-- loads/stores move exactly the 16 lanes at the offset, fault exactly outside the slice; dense forms are eight of them -/
theorem mem (E : Env) : MemFaithful (Avx2_i16.inst E) 16 (xlanes 16) := memFaithful_of_defaults (core E) (usesDefaults E)
theorem bcast (E : Env) : BroadcastFaithful (Avx2_i16.inst E) 16 (xlanes 16) :=
  bcast_of_x86 (E := E) (by decide) (by decide) (by decide) _ (fun _ => rfl) rfl
theorem add (E : Env) : Lanewise2 16 (xlanes 16) (sintSpec 16).add (fun _ => True) (Avx2_i16.inst E).add (Avx2_i16.inst E).add_dense :=
  lanewise2_of_map2 (by decide) (by decide) (by decide) _ _ (fun _ _ => rfl) _ rfl
theorem sub (E : Env) : Lanewise2 16 (xlanes 16) (sintSpec 16).sub (fun _ => True) (Avx2_i16.inst E).sub (Avx2_i16.inst E).sub_dense :=
  lanewise2_of_map2 (by decide) (by decide) (by decide) _ _ (fun _ _ => rfl) _ rfl
theorem mul (E : Env) : Lanewise2 16 (xlanes 16) (sintSpec 16).mul (fun _ => True) (Avx2_i16.inst E).mul (Avx2_i16.inst E).mul_dense :=
  lanewise2_of_map2 (by decide) (by decide) (by decide) _ _ (fun _ _ => rfl) _ rfl
theorem max (E : Env) : Lanewise2 16 (xlanes 16) (sintSpec 16).cmpMax (fun _ => True) (Avx2_i16.inst E).max (Avx2_i16.inst E).max_dense :=
  lanewise2_of_map2 (by decide) (by decide) (by decide) _ _ (fun _ _ => rfl) _ rfl
theorem min (E : Env) : Lanewise2 16 (xlanes 16) (sintSpec 16).cmpMin (fun _ => True) (Avx2_i16.inst E).min (Avx2_i16.inst E).min_dense :=
  lanewise2_of_map2 (by decide) (by decide) (by decide) _ _ (fun _ _ => rfl) _ rfl
/-- integer division: the scalar `wrapping_div` in every lane, for non-zero divisors -/
theorem div (E : Env) : Lanewise2 16 (xlanes 16) (sintSpec 16).div (fun y => (sintSpec 16).divOk y = true) (Avx2_i16.inst E).div (Avx2_i16.inst E).div_dense :=
  lanewise2_of_divLoop (by decide) (by decide) (by decide) (I16.lit 0) (I16.wrapping_div E) _ _
    (fun y h => by simpa [sintSpec, uintSpec] using h)
    (fun x y h => by show IntPrim.sdivW x y = _; unfold IntPrim.sdivW; rw [if_neg h]; rfl)
    _ (fun _ _ => rfl) _ rfl
end Avx2_i16

namespace Avx2_i32
theorem core (E : Env) : CoreFaithful (Avx2_i32.inst E) 8 (xlanes 32) :=
  core_of_x86 (by decide) (by decide) (by decide) (by decide) _ rfl (fun _ _ => rfl) (fun _ _ _ => rfl)
theorem usesDefaults (E : Env) : UsesDefaultMem E (Avx2_i32.inst E) := ⟨rfl, rfl, rfl⟩
/-- loads/stores move exactly the 8 lanes at the offset, fault exactly outside the slice; dense forms are eight of them -/
theorem mem (E : Env) : MemFaithful (Avx2_i32.inst E) 8 (xlanes 32) := memFaithful_of_defaults (core E) (usesDefaults E)
theorem bcast (E : Env) : BroadcastFaithful (Avx2_i32.inst E) 8 (xlanes 32) :=
  bcast_of_x86 (E := E) (by decide) (by decide) (by decide) _ (fun _ => rfl) rfl
theorem add (E : Env) : Lanewise2 8 (xlanes 32) (sintSpec 32).add (fun _ => True) (Avx2_i32.inst E).add (Avx2_i32.inst E).add_dense :=
  lanewise2_of_map2 (by decide) (by decide) (by decide) _ _ (fun _ _ => rfl) _ rfl
theorem sub (E : Env) : Lanewise2 8 (xlanes 32) (sintSpec 32).sub (fun _ => True) (Avx2_i32.inst E).sub (Avx2_i32.inst E).sub_dense :=
  lanewise2_of_map2 (by decide) (by decide) (by decide) _ _ (fun _ _ => rfl) _ rfl
theorem mul (E : Env) : Lanewise2 8 (xlanes 32) (sintSpec 32).mul (fun _ => True) (Avx2_i32.inst E).mul (Avx2_i32.inst E).mul_dense :=
  lanewise2_of_map2 (by decide) (by decide) (by decide) _ _ (fun _ _ => rfl) _ rfl
theorem max (E : Env) : Lanewise2 8 (xlanes 32) (sintSpec 32).cmpMax (fun _ => True) (Avx2_i32.inst E).max (Avx2_i32.inst E).max_dense :=
  lanewise2_of_map2 (by decide) (by decide) (by decide) _ _ (fun _ _ => rfl) _ rfl
theorem min (E : Env) : Lanewise2 8 (xlanes 32) (sintSpec 32).cmpMin (fun _ => True) (Avx2_i32.inst E).min (Avx2_i32.inst E).min_dense :=
  lanewise2_of_map2 (by decide) (by decide) (by decide) _ _ (fun _ _ => rfl) _ rfl
/-- integer division: the scalar `wrapping_div` in every lane, for non-zero divisors -/
theorem div (E : Env) : Lanewise2 8 (xlanes 32) (sintSpec 32).div (fun y => (sintSpec 32).divOk y = true) (Avx2_i32.inst E).div (Avx2_i32.inst E).div_dense :=
  lanewise2_of_divLoop (by decide) (by decide) (by decide) (I32.lit 0) (I32.wrapping_div E) _ _
    (fun y h => by simpa [sintSpec, uintSpec] using h)
    (fun x y h => by show IntPrim.sdivW x y = _; unfold IntPrim.sdivW; rw [if_neg h]; rfl)
    _ (fun _ _ => rfl) _ rfl
end Avx2_i32

namespace Avx2_i64
theorem core (E : Env) : CoreFaithful (Avx2_i64.inst E) 4 (xlanes 64) :=
  core_of_x86 (by decide) (by decide) (by decide) (by decide) _ rfl (fun _ _ => rfl) (fun _ _ _ => rfl)
theorem usesDefaults (E : Env) : UsesDefaultMem E (Avx2_i64.inst E) := ⟨rfl, rfl, rfl⟩
/-- loads/stores move exactly the 4 lanes at the offset, fault exactly outside the slice; dense forms are eight of them -/
theorem mem (E : Env) : MemFaithful (Avx2_i64.inst E) 4 (xlanes 64) := memFaithful_of_defaults (core E) (usesDefaults E)
theorem bcast (E : Env) : BroadcastFaithful (Avx2_i64.inst E) 4 (xlanes 64) :=
  bcast_of_x86 (E := E) (by decide) (by decide) (by decide) _ (fun _ => rfl) rfl
theorem add (E : Env) : Lanewise2 4 (xlanes 64) (sintSpec 64).add (fun _ => True) (Avx2_i64.inst E).add (Avx2_i64.inst E).add_dense :=
  lanewise2_of_map2 (by decide) (by decide) (by decide) _ _ (fun _ _ => rfl) _ rfl
theorem sub (E : Env) : Lanewise2 4 (xlanes 64) (sintSpec 64).sub (fun _ => True) (Avx2_i64.inst E).sub (Avx2_i64.inst E).sub_dense :=
  lanewise2_of_map2 (by decide) (by decide) (by decide) _ _ (fun _ _ => rfl) _ rfl
/-- integer division: the scalar `wrapping_div` in every lane, for non-zero divisors -/
theorem div (E : Env) : Lanewise2 4 (xlanes 64) (sintSpec 64).div (fun y => (sintSpec 64).divOk y = true) (Avx2_i64.inst E).div (Avx2_i64.inst E).div_dense :=
  lanewise2_of_divLoop (by decide) (by decide) (by decide) (I64.lit 0) (I64.wrapping_div E) _ _
    (fun y h => by simpa [sintSpec, uintSpec] using h)
    (fun x y h => by show IntPrim.sdivW x y = _; unfold IntPrim.sdivW; rw [if_neg h]; rfl)
    _ (fun _ _ => rfl) _ rfl
end Avx2_i64

namespace Avx2_u8
theorem core (E : Env) : CoreFaithful (Avx2_u8.inst E) 32 (xlanes 8) :=
  core_of_x86 (by decide) (by decide) (by decide) (by decide) _ rfl (fun _ _ => rfl) (fun _ _ _ => rfl)
theorem usesDefaults (E : Env) : UsesDefaultMem E (Avx2_u8.inst E) := ⟨rfl, rfl, rfl⟩
/-- loads/stores move exactly the 32 lanes at the offset, fault exactly outside the slice; dense forms are eight of them -/
theorem mem (E : Env) : MemFaithful (Avx2_u8.inst E) 32 (xlanes 8) := memFaithful_of_defaults (core E) (usesDefaults E)
theorem bcast (E : Env) : BroadcastFaithful (Avx2_u8.inst E) 32 (xlanes 8) :=
  bcast_of_x86 (E := E) (by decide) (by decide) (by decide) _ (fun _ => rfl) rfl
theorem add (E : Env) : Lanewise2 32 (xlanes 8) (uintSpec 8).add (fun _ => True) (Avx2_u8.inst E).add (Avx2_u8.inst E).add_dense :=
  lanewise2_of_map2 (by decide) (by decide) (by decide) _ _ (fun _ _ => rfl) _ rfl
theorem sub (E : Env) : Lanewise2 32 (xlanes 8) (uintSpec 8).sub (fun _ => True) (Avx2_u8.inst E).sub (Avx2_u8.inst E).sub_dense :=
  lanewise2_of_map2 (by decide) (by decide) (by decide) _ _ (fun _ _ => rfl) _ rfl
theorem max (E : Env) : Lanewise2 32 (xlanes 8) (uintSpec 8).cmpMax (fun _ => True) (Avx2_u8.inst E).max (Avx2_u8.inst E).max_dense :=
  lanewise2_of_map2 (by decide) (by decide) (by decide) _ _ (fun _ _ => rfl) _ rfl
theorem min (E : Env) : Lanewise2 32 (xlanes 8) (uintSpec 8).cmpMin (fun _ => True) (Avx2_u8.inst E).min (Avx2_u8.inst E).min_dense :=
  lanewise2_of_map2 (by decide) (by decide) (by decide) _ _ (fun _ _ => rfl) _ rfl
/-- integer division: the scalar `wrapping_div` in every lane, for non-zero divisors -/
theorem div (E : Env) : Lanewise2 32 (xlanes 8) (uintSpec 8).div (fun y => (uintSpec 8).divOk y = true) (Avx2_u8.inst E).div (Avx2_u8.inst E).div_dense :=
  lanewise2_of_divLoop (by decide) (by decide) (by decide) (U8.lit 0) (U8.wrapping_div E) _ _
    (fun y h => by simpa [sintSpec, uintSpec] using h)
    (fun x y h => by show IntPrim.udivW x y = _; unfold IntPrim.udivW; rw [if_neg h]; rfl)
    _ (fun _ _ => rfl) _ rfl
end Avx2_u8

namespace Avx2_u16
theorem core (E : Env) : CoreFaithful (Avx2_u16.inst E) 16 (xlanes 16) :=
  core_of_x86 (by decide) (by decide) (by decide) (by decide) _ rfl (fun _ _ => rfl) (fun _ _ _ => rfl)
theorem usesDefaults (E : Env) : UsesDefaultMem E (Avx2_u16.inst E) := ⟨rfl, rfl, rfl⟩
/-- loads/stores move exactly the 16 lanes at the offset, fault exactly outside the slice; dense forms are eight of them -/
theorem mem (E : Env) : MemFaithful (Avx2_u16.inst E) 16 (xlanes 16) := memFaithful_of_defaults (core E) (usesDefaults E)
theorem bcast (E : Env) : BroadcastFaithful (Avx2_u16.inst E) 16 (xlanes 16) :=
  bcast_of_x86 (E := E) (by decide) (by decide) (by decide) _ (fun _ => rfl) rfl
theorem add (E : Env) : Lanewise2 16 (xlanes 16) (uintSpec 16).add (fun _ => True) (Avx2_u16.inst E).add (Avx2_u16.inst E).add_dense :=
  lanewise2_of_map2 (by decide) (by decide) (by decide) _ _ (fun _ _ => rfl) _ rfl
theorem sub (E : Env) : Lanewise2 16 (xlanes 16) (uintSpec 16).sub (fun _ => True) (Avx2_u16.inst E).sub (Avx2_u16.inst E).sub_dense :=
  lanewise2_of_map2 (by decide) (by decide) (by decide) _ _ (fun _ _ => rfl) _ rfl
theorem mul (E : Env) : Lanewise2 16 (xlanes 16) (uintSpec 16).mul (fun _ => True) (Avx2_u16.inst E).mul (Avx2_u16.inst E).mul_dense :=
  lanewise2_of_map2 (by decide) (by decide) (by decide) _ _ (fun _ _ => rfl) _ rfl
theorem max (E : Env) : Lanewise2 16 (xlanes 16) (uintSpec 16).cmpMax (fun _ => True) (Avx2_u16.inst E).max (Avx2_u16.inst E).max_dense :=
  lanewise2_of_map2 (by decide) (by decide) (by decide) _ _ (fun _ _ => rfl) _ rfl
theorem min (E : Env) : Lanewise2 16 (xlanes 16) (uintSpec 16).cmpMin (fun _ => True) (Avx2_u16.inst E).min (Avx2_u16.inst E).min_dense :=
  lanewise2_of_map2 (by decide) (by decide) (by decide) _ _ (fun _ _ => rfl) _ rfl
/-- integer division: the scalar `wrapping_div` in every lane, for non-zero divisors -/
theorem div (E : Env) : Lanewise2 16 (xlanes 16) (uintSpec 16).div (fun y => (uintSpec 16).divOk y = true) (Avx2_u16.inst E).div (Avx2_u16.inst E).div_dense :=
  lanewise2_of_divLoop (by decide) (by decide) (by decide) (U16.lit 0) (U16.wrapping_div E) _ _
    (fun y h => by simpa [sintSpec, uintSpec] using h)
    (fun x y h => by show IntPrim.udivW x y = _; unfold IntPrim.udivW; rw [if_neg h]; rfl)
    _ (fun _ _ => rfl) _ rfl
end Avx2_u16

namespace Avx2_u32
theorem core (E : Env) : CoreFaithful (Avx2_u32.inst E) 8 (xlanes 32) :=
  core_of_x86 (by decide) (by decide) (by decide) (by decide) _ rfl (fun _ _ => rfl) (fun _ _ _ => rfl)
theorem usesDefaults (E : Env) : UsesDefaultMem E (Avx2_u32.inst E) := ⟨rfl, rfl, rfl⟩
/-- loads/stores move exactly the 8 lanes at the offset, fault exactly outside the slice; dense forms are eight of them -/
theorem mem (E : Env) : MemFaithful (Avx2_u32.inst E) 8 (xlanes 32) := memFaithful_of_defaults (core E) (usesDefaults E)
theorem bcast (E : Env) : BroadcastFaithful (Avx2_u32.inst E) 8 (xlanes 32) :=
  bcast_of_x86 (E := E) (by decide) (by decide) (by decide) _ (fun _ => rfl) rfl
theorem add (E : Env) : Lanewise2 8 (xlanes 32) (uintSpec 32).add (fun _ => True) (Avx2_u32.inst E).add (Avx2_u32.inst E).add_dense :=
  lanewise2_of_map2 (by decide) (by decide) (by decide) _ _ (fun _ _ => rfl) _ rfl
theorem sub (E : Env) : Lanewise2 8 (xlanes 32) (uintSpec 32).sub (fun _ => True) (Avx2_u32.inst E).sub (Avx2_u32.inst E).sub_dense :=
  lanewise2_of_map2 (by decide) (by decide) (by decide) _ _ (fun _ _ => rfl) _ rfl
theorem mul (E : Env) : Lanewise2 8 (xlanes 32) (uintSpec 32).mul (fun _ => True) (Avx2_u32.inst E).mul (Avx2_u32.inst E).mul_dense :=
  lanewise2_of_map2 (by decide) (by decide) (by decide) _ _ (fun _ _ => rfl) _ rfl
theorem max (E : Env) : Lanewise2 8 (xlanes 32) (uintSpec 32).cmpMax (fun _ => True) (Avx2_u32.inst E).max (Avx2_u32.inst E).max_dense :=
  lanewise2_of_map2 (by decide) (by decide) (by decide) _ _ (fun _ _ => rfl) _ rfl
theorem min (E : Env) : Lanewise2 8 (xlanes 32) (uintSpec 32).cmpMin (fun _ => True) (Avx2_u32.inst E).min (Avx2_u32.inst E).min_dense :=
  lanewise2_of_map2 (by decide) (by decide) (by decide) _ _ (fun _ _ => rfl) _ rfl
/-- integer division: the scalar `wrapping_div` in every lane, for non-zero divisors -/
theorem div (E : Env) : Lanewise2 8 (xlanes 32) (uintSpec 32).div (fun y => (uintSpec 32).divOk y = true) (Avx2_u32.inst E).div (Avx2_u32.inst E).div_dense :=
  lanewise2_of_divLoop (by decide) (by decide) (by decide) (U32.lit 0) (U32.wrapping_div E) _ _
    (fun y h => by simpa [sintSpec, uintSpec] using h)
    (fun x y h => by show IntPrim.udivW x y = _; unfold IntPrim.udivW; rw [if_neg h]; rfl)
    _ (fun _ _ => rfl) _ rfl
end Avx2_u32

namespace Avx2_u64
theorem core (E : Env) : CoreFaithful (Avx2_u64.inst E) 4 (xlanes 64) :=
  core_of_x86 (by decide) (by decide) (by decide) (by decide) _ rfl (fun _ _ => rfl) (fun _ _ _ => rfl)
theorem usesDefaults (E : Env) : UsesDefaultMem E (Avx2_u64.inst E) := ⟨rfl, rfl, rfl⟩
/-- loads/stores move exactly the 4 lanes at the offset, fault exactly outside the slice; dense forms are eight of them -/
theorem mem (E : Env) : MemFaithful (Avx2_u64.inst E) 4 (xlanes 64) := memFaithful_of_defaults (core E) (usesDefaults E)
theorem bcast (E : Env) : BroadcastFaithful (Avx2_u64.inst E) 4 (xlanes 64) :=
  bcast_of_x86 (E := E) (by decide) (by decide) (by decide) _ (fun _ => rfl) rfl
theorem add (E : Env) : Lanewise2 4 (xlanes 64) (uintSpec 64).add (fun _ => True) (Avx2_u64.inst E).add (Avx2_u64.inst E).add_dense :=
  lanewise2_of_map2 (by decide) (by decide) (by decide) _ _ (fun _ _ => rfl) _ rfl
theorem sub (E : Env) : Lanewise2 4 (xlanes 64) (uintSpec 64).sub (fun _ => True) (Avx2_u64.inst E).sub (Avx2_u64.inst E).sub_dense :=
  lanewise2_of_map2 (by decide) (by decide) (by decide) _ _ (fun _ _ => rfl) _ rfl
/-- integer division: the scalar `wrapping_div` in every lane, for non-zero divisors -/
theorem div (E : Env) : Lanewise2 4 (xlanes 64) (uintSpec 64).div (fun y => (uintSpec 64).divOk y = true) (Avx2_u64.inst E).div (Avx2_u64.inst E).div_dense :=
  lanewise2_of_divLoop (by decide) (by decide) (by decide) (U64.lit 0) (U64.wrapping_div E) _ _
    (fun y h => by simpa [sintSpec, uintSpec] using h)
    (fun x y h => by show IntPrim.udivW x y = _; unfold IntPrim.udivW; rw [if_neg h]; rfl)
    _ (fun _ _ => rfl) _ rfl
end Avx2_u64

namespace Avx512_f32
theorem core (E : Env) : CoreFaithful (Avx512_f32.inst E) 16 (xlanes 32) :=
  core_of_x86 (by decide) (by decide) (by decide) (by decide) _ rfl (fun _ _ => rfl) (fun _ _ _ => rfl)
theorem usesDefaults (E : Env) : UsesDefaultMem E (Avx512_f32.inst E) := ⟨rfl, rfl, rfl⟩
/-- loads/stores move exactly the 16 lanes at the offset, fault exactly outside the slice; dense forms are eight of them -/
theorem mem (E : Env) : MemFaithful (Avx512_f32.inst E) 16 (xlanes 32) := memFaithful_of_defaults (core E) (usesDefaults E)
theorem bcast (E : Env) : BroadcastFaithful (Avx512_f32.inst E) 16 (xlanes 32) :=
  bcast_of_x86 (E := E) (by decide) (by decide) (by decide) _ (fun _ => rfl) rfl
theorem add (E : Env) : Lanewise2 16 (xlanes 32) (f32Spec E false).add (fun _ => True) (Avx512_f32.inst E).add (Avx512_f32.inst E).add_dense :=
  lanewise2_of_map2 (by decide) (by decide) (by decide) _ _ (fun _ _ => rfl) _ rfl
theorem sub (E : Env) : Lanewise2 16 (xlanes 32) (f32Spec E false).sub (fun _ => True) (Avx512_f32.inst E).sub (Avx512_f32.inst E).sub_dense :=
  lanewise2_of_map2 (by decide) (by decide) (by decide) _ _ (fun _ _ => rfl) _ rfl
theorem mul (E : Env) : Lanewise2 16 (xlanes 32) (f32Spec E false).mul (fun _ => True) (Avx512_f32.inst E).mul (Avx512_f32.inst E).mul_dense :=
  lanewise2_of_map2 (by decide) (by decide) (by decide) _ _ (fun _ _ => rfl) _ rfl
theorem div (E : Env) : Lanewise2 16 (xlanes 32) (f32Spec E false).div (fun _ => True) (Avx512_f32.inst E).div (Avx512_f32.inst E).div_dense :=
  lanewise2_of_map2 (by decide) (by decide) (by decide) _ _ (fun _ _ => rfl) _ rfl
theorem max (E : Env) : Lanewise2 16 (xlanes 32) (X86.fmax32 E) (fun _ => True) (Avx512_f32.inst E).max (Avx512_f32.inst E).max_dense :=
  lanewise2_of_map2 (by decide) (by decide) (by decide) _ _ (fun _ _ => rfl) _ rfl
theorem min (E : Env) : Lanewise2 16 (xlanes 32) (X86.fmin32 E) (fun _ => True) (Avx512_f32.inst E).min (Avx512_f32.inst E).min_dense :=
  lanewise2_of_map2 (by decide) (by decide) (by decide) _ _ (fun _ _ => rfl) _ rfl
end Avx512_f32

namespace Avx512_f64
theorem core (E : Env) : CoreFaithful (Avx512_f64.inst E) 8 (xlanes 64) :=
  core_of_x86 (by decide) (by decide) (by decide) (by decide) _ rfl (fun _ _ => rfl) (fun _ _ _ => rfl)
theorem usesDefaults (E : Env) : UsesDefaultMem E (Avx512_f64.inst E) := ⟨rfl, rfl, rfl⟩
/-- loads/stores move exactly the 8 lanes at the offset, fault exactly outside the slice; dense forms are eight of them -/
theorem mem (E : Env) : MemFaithful (Avx512_f64.inst E) 8 (xlanes 64) := memFaithful_of_defaults (core E) (usesDefaults E)
theorem bcast (E : Env) : BroadcastFaithful (Avx512_f64.inst E) 8 (xlanes 64) :=
  bcast_of_x86 (E := E) (by decide) (by decide) (by decide) _ (fun _ => rfl) rfl
theorem add (E : Env) : Lanewise2 8 (xlanes 64) (f64Spec E false).add (fun _ => True) (Avx512_f64.inst E).add (Avx512_f64.inst E).add_dense :=
  lanewise2_of_map2 (by decide) (by decide) (by decide) _ _ (fun _ _ => rfl) _ rfl
theorem sub (E : Env) : Lanewise2 8 (xlanes 64) (f64Spec E false).sub (fun _ => True) (Avx512_f64.inst E).sub (Avx512_f64.inst E).sub_dense :=
  lanewise2_of_map2 (by decide) (by decide) (by decide) _ _ (fun _ _ => rfl) _ rfl
theorem mul (E : Env) : Lanewise2 8 (xlanes 64) (f64Spec E false).mul (fun _ => True) (Avx512_f64.inst E).mul (Avx512_f64.inst E).mul_dense :=
  lanewise2_of_map2 (by decide) (by decide) (by decide) _ _ (fun _ _ => rfl) _ rfl
theorem div (E : Env) : Lanewise2 8 (xlanes 64) (f64Spec E false).div (fun _ => True) (Avx512_f64.inst E).div (Avx512_f64.inst E).div_dense :=
  lanewise2_of_map2 (by decide) (by decide) (by decide) _ _ (fun _ _ => rfl) _ rfl
theorem max (E : Env) : Lanewise2 8 (xlanes 64) (X86.fmax64 E) (fun _ => True) (Avx512_f64.inst E).max (Avx512_f64.inst E).max_dense :=
  lanewise2_of_map2 (by decide) (by decide) (by decide) _ _ (fun _ _ => rfl) _ rfl
theorem min (E : Env) : Lanewise2 8 (xlanes 64) (X86.fmin64 E) (fun _ => True) (Avx512_f64.inst E).min (Avx512_f64.inst E).min_dense :=
  lanewise2_of_map2 (by decide) (by decide) (by decide) _ _ (fun _ _ => rfl) _ rfl
end Avx512_f64

namespace Avx512_i8
theorem core (E : Env) : CoreFaithful (Avx512_i8.inst E) 64 (xlanes 8) :=
  core_of_x86 (by decide) (by decide) (by decide) (by decide) _ rfl (fun _ _ => rfl) (fun _ _ _ => rfl)
theorem usesDefaults (E : Env) : UsesDefaultMem E (Avx512_i8.inst E) := ⟨rfl, rfl, rfl⟩
/-- loads/stores move exactly the 64 lanes at the offset, fault exactly outside the slice; dense forms are eight of them -/
theorem mem (E : Env) : MemFaithful (Avx512_i8.inst E) 64 (xlanes 8) := memFaithful_of_defaults (core E) (usesDefaults E)
theorem bcast (E : Env) : BroadcastFaithful (Avx512_i8.inst E) 64 (xlanes 8) :=
  bcast_of_x86 (E := E) (by decide) (by decide) (by decide) _ (fun _ => rfl) rfl
theorem add (E : Env) : Lanewise2 64 (xlanes 8) (sintSpec 8).add (fun _ => True) (Avx512_i8.inst E).add (Avx512_i8.inst E).add_dense :=
  lanewise2_of_map2 (by decide) (by decide) (by decide) _ _ (fun _ _ => rfl) _ rfl
theorem sub (E : Env) : Lanewise2 64 (xlanes 8) (sintSpec 8).sub (fun _ => True) (Avx512_i8.inst E).sub (Avx512_i8.inst E).sub_dense :=
  lanewise2_of_map2 (by decide) (by decide) (by decide) _ _ (fun _ _ => rfl) _ rfl
theorem max (E : Env) : Lanewise2 64 (xlanes 8) (sintSpec 8).cmpMax (fun _ => True) (Avx512_i8.inst E).max (Avx512_i8.inst E).max_dense :=
  lanewise2_of_map2 (by decide) (by decide) (by decide) _ _ (fun _ _ => rfl) _ rfl
theorem min (E : Env) : Lanewise2 64 (xlanes 8) (sintSpec 8).cmpMin (fun _ => True) (Avx512_i8.inst E).min (Avx512_i8.inst E).min_dense :=
  lanewise2_of_map2 (by decide) (by decide) (by decide) _ _ (fun _ _ => rfl) _ rfl
/-- integer division: the scalar `wrapping_div` in every lane, for non-zero divisors -/
theorem div (E : Env) : Lanewise2 64 (xlanes 8) (sintSpec 8).div (fun y => (sintSpec 8).divOk y = true) (Avx512_i8.inst E).div (Avx512_i8.inst E).div_dense :=
  lanewise2_of_divLoop (by decide) (by decide) (by decide) (I8.lit 0) (I8.wrapping_div E) _ _
    (fun y h => by simpa [sintSpec, uintSpec] using h)
    (fun x y h => by show IntPrim.sdivW x y = _; unfold IntPrim.sdivW; rw [if_neg h]; rfl)
    _ (fun _ _ => rfl) _ rfl
end Avx512_i8

namespace Avx512_i16
theorem core (E : Env) : CoreFaithful (Avx512_i16.inst E) 32 (xlanes 16) :=
  core_of_x86 (by decide) (by decide) (by decide) (by decide) _ rfl (fun _ _ => rfl) (fun _ _ _ => rfl)
theorem usesDefaults (E : Env) : UsesDefaultMem E (Avx512_i16.inst E) := ⟨rfl, rfl, rfl⟩
/-- loads/stores move exactly the 32 lanes at the offset, fault exactly outside the slice; dense forms are eight of them -/
theorem mem (E : Env) : MemFaithful (Avx512_i16.inst E) 32 (xlanes 16) := memFaithful_of_defaults (core E) (usesDefaults E)
theorem bcast (E : Env) : BroadcastFaithful (Avx512_i16.inst E) 32 (xlanes 16) :=
  bcast_of_x86 (E := E) (by decide) (by decide) (by decide) _ (fun _ => rfl) rfl
theorem add (E : Env) : Lanewise2 32 (xlanes 16) (sintSpec 16).add (fun _ => True) (Avx512_i16.inst E).add (Avx512_i16.inst E).add_dense :=
  lanewise2_of_map2 (by decide) (by decide) (by decide) _ _ (fun _ _ => rfl) _ rfl
theorem sub (E : Env) : Lanewise2 32 (xlanes 16) (sintSpec 16).sub (fun _ => True) (Avx512_i16.inst E).sub (Avx512_i16.inst E).sub_dense :=
  lanewise2_of_map2 (by decide) (by decide) (by decide) _ _ (fun _ _ => rfl) _ rfl
theorem mul (E : Env) : Lanewise2 32 (xlanes 16) (sintSpec 16).mul (fun _ => True) (Avx512_i16.inst E).mul (Avx512_i16.inst E).mul_dense :=
  lanewise2_of_map2 (by decide) (by decide) (by decide) _ _ (fun _ _ => rfl) _ rfl
theorem max (E : Env) : Lanewise2 32 (xlanes 16) (sintSpec 16).cmpMax (fun _ => True) (Avx512_i16.inst E).max (Avx512_i16.inst E).max_dense :=
  lanewise2_of_map2 (by decide) (by decide) (by decide) _ _ (fun _ _ => rfl) _ rfl
theorem min (E : Env) : Lanewise2 32 (xlanes 16) (sintSpec 16).cmpMin (fun _ => True) (Avx512_i16.inst E).min (Avx512_i16.inst E).min_dense :=
  lanewise2_of_map2 (by decide) (by decide) (by decide) _ _ (fun _ _ => rfl) _ rfl
/-- integer division: the scalar `wrapping_div` in every lane, for non-zero divisors -/
theorem div (E : Env) : Lanewise2 32 (xlanes 16) (sintSpec 16).div (fun y => (sintSpec 16).divOk y = true) (Avx512_i16.inst E).div (Avx512_i16.inst E).div_dense :=
  lanewise2_of_divLoop (by decide) (by decide) (by decide) (I16.lit 0) (I16.wrapping_div E) _ _
    (fun y h => by simpa [sintSpec, uintSpec] using h)
    (fun x y h => by show IntPrim.sdivW x y = _; unfold IntPrim.sdivW; rw [if_neg h]; rfl)
    _ (fun _ _ => rfl) _ rfl
end Avx512_i16

namespace Avx512_i32
theorem core (E : Env) : CoreFaithful (Avx512_i32.inst E) 16 (xlanes 32) :=
  core_of_x86 (by decide) (by decide) (by decide) (by decide) _ rfl (fun _ _ => rfl) (fun _ _ _ => rfl)
theorem usesDefaults (E : Env) : UsesDefaultMem E (Avx512_i32.inst E) := ⟨rfl, rfl, rfl⟩
/-- loads/stores move exactly the 16 lanes at the offset, fault exactly outside the slice; dense forms are eight of them -/
theorem mem (E : Env) : MemFaithful (Avx512_i32.inst E) 16 (xlanes 32) := memFaithful_of_defaults (core E) (usesDefaults E)
theorem bcast (E : Env) : BroadcastFaithful (Avx512_i32.inst E) 16 (xlanes 32) :=
  bcast_of_x86 (E := E) (by decide) (by decide) (by decide) _ (fun _ => rfl) rfl
theorem add (E : Env) : Lanewise2 16 (xlanes 32) (sintSpec 32).add (fun _ => True) (Avx512_i32.inst E).add (Avx512_i32.inst E).add_dense :=
  lanewise2_of_map2 (by decide) (by decide) (by decide) _ _ (fun _ _ => rfl) _ rfl
theorem sub (E : Env) : Lanewise2 16 (xlanes 32) (sintSpec 32).sub (fun _ => True) (Avx512_i32.inst E).sub (Avx512_i32.inst E).sub_dense :=
  lanewise2_of_map2 (by decide) (by decide) (by decide) _ _ (fun _ _ => rfl) _ rfl
theorem mul (E : Env) : Lanewise2 16 (xlanes 32) (sintSpec 32).mul (fun _ => True) (Avx512_i32.inst E).mul (Avx512_i32.inst E).mul_dense :=
  lanewise2_of_map2 (by decide) (by decide) (by decide) _ _ (fun _ _ => rfl) _ rfl
theorem max (E : Env) : Lanewise2 16 (xlanes 32) (sintSpec 32).cmpMax (fun _ => True) (Avx512_i32.inst E).max (Avx512_i32.inst E).max_dense :=
  lanewise2_of_map2 (by decide) (by decide) (by decide) _ _ (fun _ _ => rfl) _ rfl
theorem min (E : Env) : Lanewise2 16 (xlanes 32) (sintSpec 32).cmpMin (fun _ => True) (Avx512_i32.inst E).min (Avx512_i32.inst E).min_dense :=
  lanewise2_of_map2 (by decide) (by decide) (by decide) _ _ (fun _ _ => rfl) _ rfl
/-- integer division: the scalar `wrapping_div` in every lane, for non-zero divisors -/
theorem div (E : Env) : Lanewise2 16 (xlanes 32) (sintSpec 32).div (fun y => (sintSpec 32).divOk y = true) (Avx512_i32.inst E).div (Avx512_i32.inst E).div_dense :=
  lanewise2_of_divLoop (by decide) (by decide) (by decide) (I32.lit 0) (I32.wrapping_div E) _ _
    (fun y h => by simpa [sintSpec, uintSpec] using h)
    (fun x y h => by show IntPrim.sdivW x y = _; unfold IntPrim.sdivW; rw [if_neg h]; rfl)
    _ (fun _ _ => rfl) _ rfl
end Avx512_i32

namespace Avx512_i64
theorem core (E : Env) : CoreFaithful (Avx512_i64.inst E) 8 (xlanes 64) :=
  core_of_x86 (by decide) (by decide) (by decide) (by decide) _ rfl (fun _ _ => rfl) (fun _ _ _ => rfl)
theorem usesDefaults (E : Env) : UsesDefaultMem E (Avx512_i64.inst E) := ⟨rfl, rfl, rfl⟩
/-- loads/stores move exactly the 8 lanes at the offset, fault exactly outside the slice; dense forms are eight of them -/
theorem mem (E : Env) : MemFaithful (Avx512_i64.inst E) 8 (xlanes 64) := memFaithful_of_defaults (core E) (usesDefaults E)
theorem bcast (E : Env) : BroadcastFaithful (Avx512_i64.inst E) 8 (xlanes 64) :=
  bcast_of_x86 (E := E) (by decide) (by decide) (by decide) _ (fun _ => rfl) rfl
theorem add (E : Env) : Lanewise2 8 (xlanes 64) (sintSpec 64).add (fun _ => True) (Avx512_i64.inst E).add (Avx512_i64.inst E).add_dense :=
  lanewise2_of_map2 (by decide) (by decide) (by decide) _ _ (fun _ _ => rfl) _ rfl
theorem sub (E : Env) : Lanewise2 8 (xlanes 64) (sintSpec 64).sub (fun _ => True) (Avx512_i64.inst E).sub (Avx512_i64.inst E).sub_dense :=
  lanewise2_of_map2 (by decide) (by decide) (by decide) _ _ (fun _ _ => rfl) _ rfl
theorem mul (E : Env) : Lanewise2 8 (xlanes 64) (sintSpec 64).mul (fun _ => True) (Avx512_i64.inst E).mul (Avx512_i64.inst E).mul_dense :=
  lanewise2_of_map2 (by decide) (by decide) (by decide) _ _ (fun _ _ => rfl) _ rfl
theorem max (E : Env) : Lanewise2 8 (xlanes 64) (sintSpec 64).cmpMax (fun _ => True) (Avx512_i64.inst E).max (Avx512_i64.inst E).max_dense :=
  lanewise2_of_map2 (by decide) (by decide) (by decide) _ _ (fun _ _ => rfl) _ rfl
theorem min (E : Env) : Lanewise2 8 (xlanes 64) (sintSpec 64).cmpMin (fun _ => True) (Avx512_i64.inst E).min (Avx512_i64.inst E).min_dense :=
  lanewise2_of_map2 (by decide) (by decide) (by decide) _ _ (fun _ _ => rfl) _ rfl
/-- integer division: the scalar `wrapping_div` in every lane, for non-zero divisors -/
theorem div (E : Env) : Lanewise2 8 (xlanes 64) (sintSpec 64).div (fun y => (sintSpec 64).divOk y = true) (Avx512_i64.inst E).div (Avx512_i64.inst E).div_dense :=
  lanewise2_of_divLoop (by decide) (by decide) (by decide) (I64.lit 0) (I64.wrapping_div E) _ _
    (fun y h => by simpa [sintSpec, uintSpec] using h)
    (fun x y h => by show IntPrim.sdivW x y = _; unfold IntPrim.sdivW; rw [if_neg h]; rfl)
    _ (fun _ _ => rfl) _ rfl
end Avx512_i64

namespace Avx512_u8
theorem core (E : Env) : CoreFaithful (Avx512_u8.inst E) 64 (xlanes 8) :=
  core_of_x86 (by decide) (by decide) (by decide) (by decide) _ rfl (fun _ _ => rfl) (fun _ _ _ => rfl)
theorem usesDefaults (E : Env) : UsesDefaultMem E (Avx512_u8.inst E) := ⟨rfl, rfl, rfl⟩
/-- loads/stores move exactly the 64 lanes at the offset, fault exactly outside the slice; dense forms are eight of them -/
theorem mem (E : Env) : MemFaithful (Avx512_u8.inst E) 64 (xlanes 8) := memFaithful_of_defaults (core E) (usesDefaults E)
theorem bcast (E : Env) : BroadcastFaithful (Avx512_u8.inst E) 64 (xlanes 8) :=
  bcast_of_x86 (E := E) (by decide) (by decide) (by decide) _ (fun _ => rfl) rfl
theorem add (E : Env) : Lanewise2 64 (xlanes 8) (uintSpec 8).add (fun _ => True) (Avx512_u8.inst E).add (Avx512_u8.inst E).add_dense :=
  lanewise2_of_map2 (by decide) (by decide) (by decide) _ _ (fun _ _ => rfl) _ rfl
theorem sub (E : Env) : Lanewise2 64 (xlanes 8) (uintSpec 8).sub (fun _ => True) (Avx512_u8.inst E).sub (Avx512_u8.inst E).sub_dense :=
  lanewise2_of_map2 (by decide) (by decide) (by decide) _ _ (fun _ _ => rfl) _ rfl
theorem max (E : Env) : Lanewise2 64 (xlanes 8) (uintSpec 8).cmpMax (fun _ => True) (Avx512_u8.inst E).max (Avx512_u8.inst E).max_dense :=
  lanewise2_of_map2 (by decide) (by decide) (by decide) _ _ (fun _ _ => rfl) _ rfl
theorem min (E : Env) : Lanewise2 64 (xlanes 8) (uintSpec 8).cmpMin (fun _ => True) (Avx512_u8.inst E).min (Avx512_u8.inst E).min_dense :=
  lanewise2_of_map2 (by decide) (by decide) (by decide) _ _ (fun _ _ => rfl) _ rfl
/-- integer division: the scalar `wrapping_div` in every lane, for non-zero divisors -/
theorem div (E : Env) : Lanewise2 64 (xlanes 8) (uintSpec 8).div (fun y => (uintSpec 8).divOk y = true) (Avx512_u8.inst E).div (Avx512_u8.inst E).div_dense :=
  lanewise2_of_divLoop (by decide) (by decide) (by decide) (U8.lit 0) (U8.wrapping_div E) _ _
    (fun y h => by simpa [sintSpec, uintSpec] using h)
    (fun x y h => by show IntPrim.udivW x y = _; unfold IntPrim.udivW; rw [if_neg h]; rfl)
    _ (fun _ _ => rfl) _ rfl
end Avx512_u8

namespace Avx512_u16
theorem core (E : Env) : CoreFaithful (Avx512_u16.inst E) 32 (xlanes 16) :=
  core_of_x86 (by decide) (by decide) (by decide) (by decide) _ rfl (fun _ _ => rfl) (fun _ _ _ => rfl)
theorem usesDefaults (E : Env) : UsesDefaultMem E (Avx512_u16.inst E) := ⟨rfl, rfl, rfl⟩
/-- loads/stores move exactly the 32 lanes at the offset, fault exactly outside the slice; dense forms are eight of them -/
theorem mem (E : Env) : MemFaithful (Avx512_u16.inst E) 32 (xlanes 16) := memFaithful_of_defaults (core E) (usesDefaults E)
theorem bcast (E : Env) : BroadcastFaithful (Avx512_u16.inst E) 32 (xlanes 16) :=
  bcast_of_x86 (E := E) (by decide) (by decide) (by decide) _ (fun _ => rfl) rfl
theorem add (E : Env) : Lanewise2 32 (xlanes 16) (uintSpec 16).add (fun _ => True) (Avx512_u16.inst E).add (Avx512_u16.inst E).add_dense :=
  lanewise2_of_map2 (by decide) (by decide) (by decide) _ _ (fun _ _ => rfl) _ rfl
theorem sub (E : Env) : Lanewise2 32 (xlanes 16) (uintSpec 16).sub (fun _ => True) (Avx512_u16.inst E).sub (Avx512_u16.inst E).sub_dense :=
  lanewise2_of_map2 (by decide) (by decide) (by decide) _ _ (fun _ _ => rfl) _ rfl
theorem mul (E : Env) : Lanewise2 32 (xlanes 16) (uintSpec 16).mul (fun _ => True) (Avx512_u16.inst E).mul (Avx512_u16.inst E).mul_dense :=
  lanewise2_of_map2 (by decide) (by decide) (by decide) _ _ (fun _ _ => rfl) _ rfl
theorem max (E : Env) : Lanewise2 32 (xlanes 16) (uintSpec 16).cmpMax (fun _ => True) (Avx512_u16.inst E).max (Avx512_u16.inst E).max_dense :=
  lanewise2_of_map2 (by decide) (by decide) (by decide) _ _ (fun _ _ => rfl) _ rfl
theorem min (E : Env) : Lanewise2 32 (xlanes 16) (uintSpec 16).cmpMin (fun _ => True) (Avx512_u16.inst E).min (Avx512_u16.inst E).min_dense :=
  lanewise2_of_map2 (by decide) (by decide) (by decide) _ _ (fun _ _ => rfl) _ rfl
/-- integer division: the scalar `wrapping_div` in every lane, for non-zero divisors -/
theorem div (E : Env) : Lanewise2 32 (xlanes 16) (uintSpec 16).div (fun y => (uintSpec 16).divOk y = true) (Avx512_u16.inst E).div (Avx512_u16.inst E).div_dense :=
  lanewise2_of_divLoop (by decide) (by decide) (by decide) (U16.lit 0) (U16.wrapping_div E) _ _
    (fun y h => by simpa [sintSpec, uintSpec] using h)
    (fun x y h => by show IntPrim.udivW x y = _; unfold IntPrim.udivW; rw [if_neg h]; rfl)
    _ (fun _ _ => rfl) _ rfl
end Avx512_u16

namespace Avx512_u32
theorem core (E : Env) : CoreFaithful (Avx512_u32.inst E) 16 (xlanes 32) :=
  core_of_x86 (by decide) (by decide) (by decide) (by decide) _ rfl (fun _ _ => rfl) (fun _ _ _ => rfl)
theorem usesDefaults (E : Env) : UsesDefaultMem E (Avx512_u32.inst E) := ⟨rfl, rfl, rfl⟩
/-- loads/stores move exactly the 16 lanes at the offset, fault exactly outside the slice; dense forms are eight of them -/
theorem mem (E : Env) : MemFaithful (Avx512_u32.inst E) 16 (xlanes 32) := memFaithful_of_defaults (core E) (usesDefaults E)
theorem bcast (E : Env) : BroadcastFaithful (Avx512_u32.inst E) 16 (xlanes 32) :=
  bcast_of_x86 (E := E) (by decide) (by decide) (by decide) _ (fun _ => rfl) rfl
theorem add (E : Env) : Lanewise2 16 (xlanes 32) (uintSpec 32).add (fun _ => True) (Avx512_u32.inst E).add (Avx512_u32.inst E).add_dense :=
  lanewise2_of_map2 (by decide) (by decide) (by decide) _ _ (fun _ _ => rfl) _ rfl
theorem sub (E : Env) : Lanewise2 16 (xlanes 32) (uintSpec 32).sub (fun _ => True) (Avx512_u32.inst E).sub (Avx512_u32.inst E).sub_dense :=
  lanewise2_of_map2 (by decide) (by decide) (by decide) _ _ (fun _ _ => rfl) _ rfl
theorem mul (E : Env) : Lanewise2 16 (xlanes 32) (uintSpec 32).mul (fun _ => True) (Avx512_u32.inst E).mul (Avx512_u32.inst E).mul_dense :=
  lanewise2_of_map2 (by decide) (by decide) (by decide) _ _ (fun _ _ => rfl) _ rfl
theorem max (E : Env) : Lanewise2 16 (xlanes 32) (uintSpec 32).cmpMax (fun _ => True) (Avx512_u32.inst E).max (Avx512_u32.inst E).max_dense :=
  lanewise2_of_map2 (by decide) (by decide) (by decide) _ _ (fun _ _ => rfl) _ rfl
theorem min (E : Env) : Lanewise2 16 (xlanes 32) (uintSpec 32).cmpMin (fun _ => True) (Avx512_u32.inst E).min (Avx512_u32.inst E).min_dense :=
  lanewise2_of_map2 (by decide) (by decide) (by decide) _ _ (fun _ _ => rfl) _ rfl
/-- integer division: the scalar `wrapping_div` in every lane, for non-zero divisors -/
theorem div (E : Env) : Lanewise2 16 (xlanes 32) (uintSpec 32).div (fun y => (uintSpec 32).divOk y = true) (Avx512_u32.inst E).div (Avx512_u32.inst E).div_dense :=
  lanewise2_of_divLoop (by decide) (by decide) (by decide) (U32.lit 0) (U32.wrapping_div E) _ _
    (fun y h => by simpa [sintSpec, uintSpec] using h)
    (fun x y h => by show IntPrim.udivW x y = _; unfold IntPrim.udivW; rw [if_neg h]; rfl)
    _ (fun _ _ => rfl) _ rfl
end Avx512_u32

namespace Avx512_u64
theorem core (E : Env) : CoreFaithful (Avx512_u64.inst E) 8 (xlanes 64) :=
  core_of_x86 (by decide) (by decide) (by decide) (by decide) _ rfl (fun _ _ => rfl) (fun _ _ _ => rfl)
theorem usesDefaults (E : Env) : UsesDefaultMem E (Avx512_u64.inst E) := ⟨rfl, rfl, rfl⟩
/-- loads/stores move exactly the 8 lanes at the offset, fault exactly outside the slice; dense forms are eight of them -/
theorem mem (E : Env) : MemFaithful (Avx512_u64.inst E) 8 (xlanes 64) := memFaithful_of_defaults (core E) (usesDefaults E)
theorem bcast (E : Env) : BroadcastFaithful (Avx512_u64.inst E) 8 (xlanes 64) :=
  bcast_of_x86 (E := E) (by decide) (by decide) (by decide) _ (fun _ => rfl) rfl
theorem add (E : Env) : Lanewise2 8 (xlanes 64) (uintSpec 64).add (fun _ => True) (Avx512_u64.inst E).add (Avx512_u64.inst E).add_dense :=
  lanewise2_of_map2 (by decide) (by decide) (by decide) _ _ (fun _ _ => rfl) _ rfl
theorem sub (E : Env) : Lanewise2 8 (xlanes 64) (uintSpec 64).sub (fun _ => True) (Avx512_u64.inst E).sub (Avx512_u64.inst E).sub_dense :=
  lanewise2_of_map2 (by decide) (by decide) (by decide) _ _ (fun _ _ => rfl) _ rfl
theorem max (E : Env) : Lanewise2 8 (xlanes 64) (uintSpec 64).cmpMax (fun _ => True) (Avx512_u64.inst E).max (Avx512_u64.inst E).max_dense :=
  lanewise2_of_map2 (by decide) (by decide) (by decide) _ _ (fun _ _ => rfl) _ rfl
theorem min (E : Env) : Lanewise2 8 (xlanes 64) (uintSpec 64).cmpMin (fun _ => True) (Avx512_u64.inst E).min (Avx512_u64.inst E).min_dense :=
  lanewise2_of_map2 (by decide) (by decide) (by decide) _ _ (fun _ _ => rfl) _ rfl
/-- integer division: the scalar `wrapping_div` in every lane, for non-zero divisors -/
theorem div (E : Env) : Lanewise2 8 (xlanes 64) (uintSpec 64).div (fun y => (uintSpec 64).divOk y = true) (Avx512_u64.inst E).div (Avx512_u64.inst E).div_dense :=
  lanewise2_of_divLoop (by decide) (by decide) (by decide) (U64.lit 0) (U64.wrapping_div E) _ _
    (fun y h => by simpa [sintSpec, uintSpec] using h)
    (fun x y h => by show IntPrim.udivW x y = _; unfold IntPrim.udivW; rw [if_neg h]; rfl)
    _ (fun _ _ => rfl) _ rfl
end Avx512_u64

end Cfavml.Thm.C13X86
