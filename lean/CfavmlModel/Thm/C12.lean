/-
C12 — const-dimension (xconst) and runtime-length (xany) forms agree.
Every routine pair is produced by one arm of one macro; the arms are extracted from the source, and the
theorems below say that the two functions of an arm make *the same kernel call* when `DIMS = a.len()`,
and that the two forms of a safe wrapper pass their assertions on exactly the same inputs. Identical
calls of the same (deterministic, total) model kernel give identical outputs, faults and panics.
-/
import CfavmlModel.Spec.Wrappers
import CfavmlModel.Lemmas.ListAll

namespace Cfavml.Thm.C12
open Tables Spec

theorem export_arms_ok : allExportMacros.all (fun m => exportArmPairOk m false && exportArmPairOk m true) = true := by
  decide +kernel

/-- **C12 (per-backend routines).** For every export macro and both of its arms, with `DIMS` equal to
the length of `a` the xconst and the xany function pass the same `dims`, the same arguments in the same
order, to the same kernel instantiated at the same type arguments. -/
theorem xconst_xany_same_call : ∀ m ∈ allExportMacros, ∀ wf : Bool,
    ∃ xc xa, exportArmOf m wf "xconst_name" = some xc ∧ exportArmOf m wf "xany_name" = some xa
      ∧ xc.callee = xa.callee ∧ xc.typeArgs = xa.typeArgs ∧ xc.passArgs = xa.passArgs
      ∧ ∀ (DIMS : Nat) (lens : String → Nat), DIMS = lens "a" →
          xc.dimsArg DIMS lens = some DIMS ∧ xa.dimsArg DIMS lens = some DIMS := by
  intro m hm wf
  have h := forall_mem_of_all _ _ export_arms_ok m hm
  simp only [Bool.and_eq_true] at h
  have hwf : exportArmPairOk m wf = true := by cases wf <;> simp [h.1, h.2]
  unfold exportArmPairOk at hwf
  cases hxc : exportArmOf m wf "xconst_name" with
  | none => simp [hxc] at hwf
  | some xc =>
    cases hxa : exportArmOf m wf "xany_name" with
    | none => simp [hxc, hxa] at hwf
    | some xa =>
      simp only [hxc, hxa, Bool.and_eq_true, beq_iff_eq, and_assoc] at hwf
      obtain ⟨_, _, hp, hc1, hc2, ht1, ht2, ha1, ha2, _, _, _⟩ := hwf
      refine ⟨xc, xa, rfl, rfl, by rw [hc1, hc2], by rw [ht1, ht2], ?_, ?_⟩
      · simp [ExportArmFn.passArgs, ha1, ha2, hp]
      · intro DIMS lens hD
        simp [ExportArmFn.dimsArg, ha1, ha2, hD]

/-- every export row is an instance of one of those arms (its macro is one of the six) -/
theorem rows_use_known_macros : ∀ r ∈ exports, r.macro_ ∈ allExportMacros := by
  intro r _
  cases r.macro_ <;> decide

/-! soundness of the syntactic criterion `sameAsserts` -/

theorem evalLen_subst (lens : Param → Nat) (t : LenTerm) : evalLen lens (lens .a) t = lens (substDims t) := by
  cases t <;> rfl

theorem assertsPass_iff (lens : Param → Nat) (as : List (LenTerm × LenTerm)) :
    assertsPass lens (lens .a) as = true ↔ ∀ q ∈ normAsserts as, lens q.1 = lens q.2 := by
  unfold assertsPass normAsserts
  simp only [List.all_eq_true, beq_iff_eq, List.mem_filter, List.mem_map, bne_iff_ne, ne_eq, and_imp,
    forall_exists_index, evalLen_subst]
  constructor
  · intro h q p hp hq _
    subst hq
    have := h p hp
    unfold normPair
    simp only
    split <;> simp [this]
  · intro h p hp
    by_cases heq : substDims p.1 = substDims p.2
    · rw [heq]
    · have := h (normPair p) p hp rfl
      unfold normPair at this
      simp only at this
      split at this
      · exact this heq
      · exact (this (fun e => heq e.symm)).symm

theorem sameAsserts_sound (lens : Param → Nat) (as₁ as₂ : List (LenTerm × LenTerm))
    (h : sameAsserts as₁ as₂ = true) :
    assertsPass lens (lens .a) as₁ = assertsPass lens (lens .a) as₂ := by
  unfold sameAsserts at h
  simp only [Bool.and_eq_true, List.all_eq_true, List.contains_iff_mem] at h
  rw [Bool.eq_iff_iff, assertsPass_iff, assertsPass_iff]
  exact ⟨fun h1 q hq => h1 q (h.2 q hq), fun h2 q hq => h2 q (h.1 q hq)⟩

theorem safe_asserts_same : allSafeMacros.all (fun m =>
    sameAsserts (safeArmOf m .xconst).asserts (safeArmOf m .xany).asserts) = true := by decide +kernel

/-- **C12 (safe API).** For every safe wrapper macro, when `DIMS = a.len()` the assertions of the xconst
form pass exactly when those of the xany form do (so the two forms panic on the same inputs), and then
both hand the kernel the same `dims`. -/
theorem safe_forms_agree (m : SafeMacro) (lens : Param → Nat) (D : Nat) (h : D = lens .a) :
    assertsPass lens D (safeArmOf m .xconst).asserts = assertsPass lens D (safeArmOf m .xany).asserts
    ∧ kernelDims .xconst lens D = kernelDims .xany lens D := by
  refine ⟨?_, by simp [kernelDims, h]⟩
  subst h
  apply sameAsserts_sound
  have hm : m ∈ allSafeMacros := by cases m <;> decide
  exact forall_mem_of_all _ _ safe_asserts_same m hm

/-- **C12 (safe API, backends).** The two forms of every safe wrapper macro offer the dispatcher the same slots, in the same
order, with the wrapper's arguments in the same order: under every CPU feature mask both forms therefore select the same
backend (by `C09.dispatch_spec` the selection is a function of the offered slots and the mask) and hand it the same
operands. A form that lacks, say, the `avx512` line runs the AVX2 routine where the other runs AVX-512 — same value for
integers, other bits for a float sum. -/
theorem safe_forms_same_slots : allSafeMacros.all (fun m =>
    (safeArmOf m .xconst).slots.map (fun s => (s.label, s.args)) == (safeArmOf m .xany).slots.map (fun s => (s.label, s.args))) = true := by
  decide +kernel

/-- **C12 (safe API, nothing else happens).** In both forms of every safe wrapper macro the function body is exactly its
assertions followed by the dispatch: no other statement (an early return for some `cfg`, a special case for some value)
sits in one form and not in the other — there is none in either — and no assertion comes after the dispatch. -/
theorem safe_forms_are_plain : allSafeMacros.all (fun m =>
    (safeArmOf m .xconst).otherStmts == 0 && (safeArmOf m .xany).otherStmts == 0
    && (safeArmOf m .xconst).assertsAfterDispatch == 0 && (safeArmOf m .xany).assertsAfterDispatch == 0) = true := by
  decide +kernel

/-- non-vacuity: the vertical wrappers do assert something, and the hypothesis is satisfiable -/
example : (safeArmOf .export_safe_vertical_op .xconst).asserts.length = 3 ∧
    assertsPass (fun _ => 5) 5 (safeArmOf .export_safe_vertical_op .xany).asserts = true := by decide

end Cfavml.Thm.C12
