/-
C03 — integer sum / dot / squared norm / squared Euclidean distance are exact modulo 2^bits.
For every backend meeting the lane-wise contracts (C13), every lane count and every length the generated
kernels return the wrapping monoid sum of the terms, which is the mathematically exact integer value
reduced modulo 2^w; hence all backends and both API forms return bit-identical integers.
-/
import CfavmlModel.Lemmas.ReduceKernels
import CfavmlModel.Lemmas.BitVecMonoid
import CfavmlModel.Thm.C02

namespace Cfavml.Thm.C03
open ReduceKernels

/-- the scalar specification of an integer type (signed or unsigned: the four ring operations coincide) -/
structure IsIntSpec {w : Nat} (S : ScalarSpec (BitVec w)) : Prop where
  add : S.add = fun x y => x + y
  sub : S.sub = fun x y => x - y
  mul : S.mul = fun x y => x * y
  zero : S.zero = 0

theorem sint_isInt (w : Nat) : IsIntSpec (sintSpec w) := ⟨rfl, rfl, rfl, rfl⟩
theorem uint_isInt (w : Nat) : IsIntSpec (uintSpec w) := ⟨rfl, rfl, rfl, rfl⟩

section generic
variable {w : Nat} {Reg : Type} {E : Env} {R : SimdRegister (BitVec w) Reg} {M : Math (BitVec w)} {L : Nat}
variable {lanes : Reg → Nat → BitVec w} {S : ScalarSpec (BitVec w)}
variable {hsum hmax hmin : (Nat → BitVec w) → BitVec w}
variable (hS : IsIntSpec S) (AF : ArithFaithful R L lanes S)
variable (RF : ReduceFaithful R L lanes S (fun x y acc => S.add (S.mul x y) acc) hsum hmax hmin)
variable (MFa : MathFaithful M S) (hh : ∀ f, hsum f = sumR S.add S.zero f L)
variable (dims : Nat) (hfuel : dims < E.fuel)
include hS AF RF MFa hh hfuel

theorem monoid : CommMonoidOn S.add S.zero := by
  rw [hS.add, hS.zero]; exact add_monoid w

/-- **C03 (sum).** the exact integer sum of the elements, modulo `2^w` -/
theorem sum_exact (a : Slice (BitVec w)) (ha : a.size = dims) :
    generic_sum E R M dims a = pure (BitVec.ofInt w (isum (fun j => (a.get j).toInt) dims)) := by
  rw [sum (monoid hS AF RF MFa hh dims hfuel) AF RF MFa hh dims hfuel a ha, hS.add, hS.zero]
  congr 1
  exact sumR_add_exact _ _ (fun k => (BitVec.ofInt_toInt).symm) dims

/-- **C03 (dot).** `Σ a[j]·b[j]` over the integers, modulo `2^w` -/
theorem dot_exact (a b : Slice (BitVec w)) (ha : a.size = dims) (hb : b.size = dims) :
    generic_dot_product E R M dims a b
      = pure (BitVec.ofInt w (isum (fun j => (a.get j).toInt * (b.get j).toInt) dims)) := by
  rw [dot_product (monoid hS AF RF MFa hh dims hfuel) AF RF MFa hh dims hfuel (fun _ _ _ => rfl) a b ha hb,
    hS.add, hS.zero, hS.mul]
  congr 1
  exact sumR_add_exact _ _ (fun k => by rw [BitVec.ofInt_mul, BitVec.ofInt_toInt, BitVec.ofInt_toInt]) dims

/-- **C03 (squared norm).** `Σ a[j]²` over the integers, modulo `2^w` -/
theorem squared_norm_exact (a : Slice (BitVec w)) (ha : a.size = dims) :
    generic_squared_norm E R M dims a
      = pure (BitVec.ofInt w (isum (fun j => (a.get j).toInt * (a.get j).toInt) dims)) := by
  rw [squared_norm (monoid hS AF RF MFa hh dims hfuel) AF RF MFa hh dims hfuel (fun _ _ _ => rfl) a ha,
    hS.add, hS.zero, hS.mul]
  congr 1
  exact sumR_add_exact _ _ (fun k => by rw [BitVec.ofInt_mul, BitVec.ofInt_toInt]) dims

/-- **C03 (squared Euclidean).** `Σ (a[j]−b[j])²` over the integers, modulo `2^w` -/
theorem euclidean_exact (a b : Slice (BitVec w)) (ha : a.size = dims) (hb : b.size = dims) :
    generic_euclidean E R M dims a b
      = pure (BitVec.ofInt w (isum (fun j => ((a.get j).toInt - (b.get j).toInt) * ((a.get j).toInt - (b.get j).toInt)) dims)) := by
  rw [euclidean (monoid hS AF RF MFa hh dims hfuel) AF RF MFa hh dims hfuel (fun _ _ _ => rfl) a b ha hb,
    hS.add, hS.zero, hS.mul, hS.sub]
  congr 1
  exact sumR_add_exact _ _ (fun k => by
    show (a.get k - b.get k) * (a.get k - b.get k) = _
    rw [BitVec.ofInt_mul, ofInt_sub', BitVec.ofInt_toInt, BitVec.ofInt_toInt]) dims

end generic

/-! ### the Fallback backend meets every hypothesis, for every integer type -/

theorem fallback_hsum {T : Type} {op : T → T → T} {e : T} (hm : CommMonoidOn op e) (f : Nat → T) :
    C13Fallback.hfold1 f = sumR op e f 1 := (sumR_one hm f).symm

/-- e.g. `i32_xany_fallback_nofma_dot`: bit-exact for every input and every length -/
theorem i32_fallback_dot (E : Env) (a b : Slice I32) (hb : b.size = a.size) (hfuel : a.size < E.fuel) :
    generic_dot_product E (Fallback.inst E (AutoMath_i32 E) 4) (AutoMath_i32 E) a.size a b
      = pure (BitVec.ofInt 32 (isum (fun j => (a.get j).toInt * (b.get j).toInt) a.size)) :=
  dot_exact (sint_isInt 32) (C02.fallback_arith E _ _ 4 (by omega) (C18.auto_i32 E))
    (C13Fallback.reduce E _ 4 (C18.auto_i32 E)) (C18.auto_i32 E)
    (fallback_hsum (add_monoid 32)) a.size hfuel a b rfl hb

theorem u8_fallback_sum (E : Env) (a : Slice U8) (hfuel : a.size < E.fuel) :
    generic_sum E (Fallback.inst E (AutoMath_u8 E) 1) (AutoMath_u8 E) a.size a
      = pure (BitVec.ofInt 8 (isum (fun j => (a.get j).toInt) a.size)) :=
  sum_exact (uint_isInt 8) (C02.fallback_arith E _ _ 1 (by omega) (C18.auto_u8 E))
    (C13Fallback.reduce E _ 1 (C18.auto_u8 E)) (C18.auto_u8 E)
    (fallback_hsum (add_monoid 8)) a.size hfuel a rfl

/-- **C03 (backend independence).** two backends that both meet the contracts return the same bits -/
theorem backends_agree {w : Nat} {Reg₁ Reg₂ : Type} {E : Env}
    {R₁ : SimdRegister (BitVec w) Reg₁} {R₂ : SimdRegister (BitVec w) Reg₂} {M : Math (BitVec w)}
    {L₁ L₂ : Nat} {lanes₁ : Reg₁ → Nat → BitVec w} {lanes₂ : Reg₂ → Nat → BitVec w} {S : ScalarSpec (BitVec w)}
    {hs₁ hx₁ hn₁ hs₂ hx₂ hn₂ : (Nat → BitVec w) → BitVec w}
    (hS : IsIntSpec S) (MFa : MathFaithful M S)
    (AF₁ : ArithFaithful R₁ L₁ lanes₁ S) (RF₁ : ReduceFaithful R₁ L₁ lanes₁ S (fun x y acc => S.add (S.mul x y) acc) hs₁ hx₁ hn₁)
    (hh₁ : ∀ f, hs₁ f = sumR S.add S.zero f L₁)
    (AF₂ : ArithFaithful R₂ L₂ lanes₂ S) (RF₂ : ReduceFaithful R₂ L₂ lanes₂ S (fun x y acc => S.add (S.mul x y) acc) hs₂ hx₂ hn₂)
    (hh₂ : ∀ f, hs₂ f = sumR S.add S.zero f L₂)
    (dims : Nat) (hfuel : dims < E.fuel) (a b : Slice (BitVec w)) (ha : a.size = dims) (hb : b.size = dims) :
    generic_dot_product E R₁ M dims a b = generic_dot_product E R₂ M dims a b := by
  rw [dot_exact hS AF₁ RF₁ MFa hh₁ dims hfuel a b ha hb, dot_exact hS AF₂ RF₂ MFa hh₂ dims hfuel a b ha hb]

/-- non-vacuity: on `[3, 250]` as `u8` the specification value is the wrapped sum 253, and on
`[200, 100]` it wraps to 44 -/
example : BitVec.ofInt 8 (isum (fun j => ((if j = 0 then 200#8 else 100#8)).toInt) 2) = 44#8 := by decide

end Cfavml.Thm.C03
