/-
C06 accuracy with the arithmetic hypotheses reduced to IEEE-754 correct rounding: `FinalOps` (the standard model for the
final `×`, `√`, `÷`, `−` of the cosine kernel) follows from "each of these operations returns a float nearest to the exact
result" plus the property's well-scaled clause — the product of the squared norms is a normal number, and the quotient
`dot/√(nx·ny)` is zero or a normal number.
-/
import CfavmlModel.Lemmas.FloatIEEE
import CfavmlModel.Thm.C06Accuracy

namespace Cfavml.Thm.C06
open FloatReduce IEEE

section
variable {T : Type} {S : ScalarSpec T} {fm : T → T → T → T}

theorem finalOps_of_ieee {p : ℕ} {emin : ℤ} {val : T → ℝ} {Fin : T → Prop} (C : CorrectlyRounded S p emin val Fin)
    (hpe : emin + p - 1 ≤ 0) (F : FloatSem S fm) (hv : F.val = val) (hu : F.u = (2 : ℝ) ^ (-(p : ℤ)))
    (sq : T → T) (dotv nav nbv : T) (hone : val S.one = 1)
    (hprod : Fin (S.mul nav nbv)) (hgrid : OnGrid emin (val nav * val nbv))
    (hnorm : (2 : ℝ) ^ (emin + p - 1) ≤ val (S.mul nav nbv))
    (hsq : IsNearest p emin (Real.sqrt (val (S.mul nav nbv))) (val (sq (S.mul nav nbv))))
    (hdivOk : S.divOk (sq (S.mul nav nbv)) = true)
    (hdivN : IsNearest p emin (val dotv / val (sq (S.mul nav nbv))) (val (S.div dotv (sq (S.mul nav nbv)))))
    (hq : val dotv = 0 ∨ (2 : ℝ) ^ (emin + p - 1) ≤ |val dotv / val (sq (S.mul nav nbv))|)
    (hqfin : Fin (S.div dotv (sq (S.mul nav nbv))))
    (hsubN : IsNearest p emin (val S.one - val (S.div dotv (sq (S.mul nav nbv))))
      (val (S.sub S.one (S.div dotv (sq (S.mul nav nbv)))))) :
    FinalOps F sq dotv nav nbv := by
  have hp := C.hp
  have two_pos : (0 : ℝ) < (2 : ℝ) ^ (emin + p - 1) := by positivity
  have hm1 : (2 : ℝ) ^ (emin + p - 1) ≤ 1 := zpow_le_one_of_nonpos₀ (by norm_num) hpe
  refine ⟨?_, ?_, hdivOk, ?_, ?_⟩
  · rw [hv, hu]; exact C.mul_std nav nbv hprod hgrid
  · rw [hv, hu]
    obtain ⟨δ, h1, h2⟩ := nearest_delta hp hsq (by
      rw [abs_of_nonneg (Real.sqrt_nonneg _)]
      apply Real.le_sqrt_of_sq_le
      calc ((2 : ℝ) ^ (emin + p - 1)) ^ 2 = (2 : ℝ) ^ (emin + p - 1) * (2 : ℝ) ^ (emin + p - 1) := by ring
        _ ≤ 1 * (2 : ℝ) ^ (emin + p - 1) := by apply mul_le_mul_of_nonneg_right hm1 two_pos.le
        _ = (2 : ℝ) ^ (emin + p - 1) := by ring
        _ ≤ _ := hnorm)
    exact ⟨δ, h1, h2⟩
  · rw [hv, hu]
    rcases hq with h0 | hn
    · have hz : IsFloat p emin (0 : ℝ) := ⟨0, emin, by simp, le_refl _, by simp⟩
      have hx : val dotv / val (sq (S.mul nav nbv)) = 0 := by rw [h0, zero_div]
      rw [hx] at hdivN
      have := hdivN.eq_of_isFloat hz
      exact ⟨0, by simp, by rw [this, hx]; ring⟩
    · exact nearest_delta hp hdivN hn
  · rw [hv, hu]
    have h1f : IsFloat p emin (val S.one) := by
      rw [hone]
      exact ⟨1, 0, by
        simp only [abs_one]
        exact one_lt_pow₀ (by norm_num) (by omega), by omega, by simp⟩
    have hg : OnGrid emin (val S.one - val (S.div dotv (sq (S.mul nav nbv)))) := by
      have a := h1f.onGrid
      have b := (C.isFloat _ hqfin).neg.onGrid
      have := a.add b
      rwa [← sub_eq_add_neg] at this
    obtain ⟨δ, h1, h2⟩ := nearest_delta_grid hp hsubN hg
    exact ⟨δ, h1, by rw [h2, hone]⟩

end
end Cfavml.Thm.C06
