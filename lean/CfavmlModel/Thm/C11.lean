/-
C11 — every exported routine does what its name says, on the backend its name says.
Table level: all 768 `export_*!` invocations (x2 forms, NEON included) against the naming scheme of
`Spec/Names.lean`. (The functional half — the kernel named by `op` computes the named operation — is
`Thm/C02`, `C03`, `C05`, `C06`; the tie from a row to the kernel call it makes is the macro-arm theorem
in `Thm/C12`.)
-/
import CfavmlModel.Spec.Names
import CfavmlModel.Gen.Tables
import CfavmlModel.Gen.RefTables
import CfavmlModel.Lemmas.ListAll

namespace Cfavml.Thm.C11
open Tables Spec

def rowCheck (r : ExportRow) : Bool := exportRowOk r && exportRowCfgOk r

theorem chunks_ok : exports_chunks.all (fun c => c.all rowCheck) = true := by decide +kernel

/-- **C11 (names).** For every export row: both routine names are exactly
`<ty>_x<form>_<arch of its register>_<fma iff it really fuses>_<name of the kernel it is bound to>`,
the macro's signature kind is the operation's, its declared target features are its backend's, and its
module is compiled exactly in the builds that have the backend. -/
theorem names_match_bindings : ∀ r ∈ exports, exportRowOk r = true ∧ exportRowCfgOk r = true := by
  intro r hr
  have h := all_flatten_of_all_chunks rowCheck exports_chunks chunks_ok r hr
  simpa [rowCheck, Bool.and_eq_true] using h

/-- the operation part of a name determines the kernel: two kernels never share their name tokens, so a
routine named vertical-min can only be bound to the vertical-min kernel, etc. -/
theorem op_tokens_injective : ∀ k₁ ∈ allKernels, ∀ k₂ ∈ allKernels,
    opToksOfKernel k₁ = opToksOfKernel k₂ → k₁ = k₂ := by decide

/-- a `nofma` name never sits on a routine that really fuses, and an `fma` name always does -/
theorem fma_tag_truthful : ∀ r ∈ exports,
    (r.xany.contains .fma = true ↔ reallyFuses r.reg r.ty r.op = true) := by
  have h : exports_chunks.all (fun c => c.all (fun r =>
      r.xany.contains .fma == reallyFuses r.reg r.ty r.op)) = true := by decide +kernel
  intro r hr
  have := all_flatten_of_all_chunks _ exports_chunks h r hr
  simp only [beq_iff_eq] at this
  rw [this]

theorem exports_count : exports.length = 768 := by decide +kernel

/-- **C11 (one name per routine).** The export tables are the only source of routine names: no `pub use … x as y` gives a
routine a second name. (Names are injective — `op_tokens_injective` and the type / form / architecture / fma tokens — so a
second name could only say something else than the first; and an explicit re-export *shadows* a glob-exported routine of
that name, so the name would silently stop meaning what its table row says.) -/
theorem no_renamed_exports : exportAliases = [] := by decide

/-- non-vacuity: a concrete row (the one the fixed defect was in) is in the table and passes -/
example : ∃ r ∈ exports, r.xany = [.f64, .xany, .avx512, .nofma, .min, .vertical] ∧ r.op = .generic_min_vertical := by
  decide +kernel

end Cfavml.Thm.C11
