/-
The reference backend `Hand.modelReg L S` meets the whole backend contract for **every** lane count `L ≥ 1`
(`arithFaithful`, `reduceFaithful`).  Consequences:

* the hypotheses of the kernel theorems (C02, C03, C05, C07: "for every backend that is lane-wise faithful, with any number
  of lanes") are satisfiable for every `L` — including the geometries no shipped backend has (3, 5, 6, 12 … lanes) — so
  those theorems say something there;
* `kernels_in_bounds_every_L`: the generated kernels, run on the reference backend, stay in bounds and terminate for every
  `L ≥ 1` and every length (an instance of `C07.reductions_in_bounds` / `C07.elementwise_in_bounds`).  The driver runs the
  same instances on concrete data (`kernL`), which is where the model search gets a failing input from when this stops
  checking.
-/
import CfavmlModel.Hand.ModelReg
import CfavmlModel.Spec.Backend
import CfavmlModel.Thm.C07

namespace Cfavml.Thm.ModelReg
open Hand

variable {T : Type}

/-- a register *is* its lane function -/
def lanesId : (Nat → T) → Nat → T := fun r k => r k

theorem mkDense_nth (f : Nat → Nat → T) (j : Nat) (hj : j < 8) : (mkDense f).nth j = f j := by
  have : j = 0 ∨ j = 1 ∨ j = 2 ∨ j = 3 ∨ j = 4 ∨ j = 5 ∨ j = 6 ∨ j = 7 := by omega
  rcases this with h | h | h | h | h | h | h | h <;> subst h <;> rfl

theorem copy_nth (g : Nat → T) (j : Nat) : (DenseLane.copy g).nth j = g := by
  unfold DenseLane.nth DenseLane.copy
  split <;> rfl

theorem div_lt8 {L k : Nat} (hL : 0 < L) (hk : k < L * 8) : k / L < 8 :=
  Nat.div_lt_of_lt_mul hk

theorem dlanes_mkDense (L : Nat) (hL : 0 < L) (f : Nat → Nat → T) (k : Nat) (hk : k < L * 8) :
    dlanes L lanesId (mkDense f) k = f (k / L) (k % L) := by
  unfold dlanes lanesId
  rw [mkDense_nth f _ (div_lt8 hL hk)]

theorem all_true (L : Nat) (g : Nat → T) : (List.range L).all (fun k => (fun (_ : T) => true) (g k)) = true := by
  simp

theorem memFaithful (L : Nat) (hL : 0 < L) (S : ScalarSpec T) : MemFaithful (modelReg L S) L lanesId where
  L_pos := hL
  epl := rfl
  epd := rfl
  load_ok := by
    intro s i h
    refine ⟨fun k => s.get (i + k), ?_, fun _ _ => rfl⟩
    show s.readRange i L = _
    unfold Slice.readRange; rw [if_pos h]
  load_oob := by
    intro s i h
    show s.readRange i L = _
    unfold Slice.readRange; rw [if_neg h]
  write_ok := by
    intro s i r h
    show s.writeRange i L r = _
    unfold Slice.writeRange; rw [if_pos h]; rfl
  write_oob := by
    intro s i r h
    show s.writeRange i L r = _
    unfold Slice.writeRange; rw [if_neg h]
  load_dense_ok := by
    intro s i h
    refine ⟨mkDense (fun j k => s.get (i + j * L + k)), ?_, ?_⟩
    · show (if i + L * 8 ≤ s.size then _ else _) = _
      rw [if_pos h]
    · intro k hk
      rw [dlanes_mkDense L hL _ k hk]
      congr 1
      have := Nat.div_add_mod k L
      rw [Nat.mul_comm] at this
      omega
  write_dense_ok := by
    intro s i d h
    show (if i + L * 8 ≤ s.size then _ else _) = _
    rw [if_pos h]; rfl

theorem broadcastFaithful (L : Nat) (S : ScalarSpec T) : BroadcastFaithful (modelReg L S) L lanesId where
  filled_ok := fun v => ⟨fun _ => v, rfl, fun _ _ => rfl⟩
  filled_dense_ok := fun v => ⟨DenseLane.copy (fun _ => v), rfl,
    fun k _ => by unfold dlanes lanesId; rw [copy_nth], fun _ _ => rfl⟩

/-- the lane-wise operations, total ones (`okB = fun _ => true`) and division alike -/
theorem lanewise2 (L : Nat) (hL : 0 < L) (f : T → T → T) (okB : T → Bool) :
    Lanewise2 L lanesId f (fun y => okB y = true) (lane2 L f okB) (dense2 L f okB) where
  single := by
    intro x y hok
    refine ⟨fun k => f (x k) (y k), ?_, fun _ _ => rfl⟩
    unfold lane2
    rw [if_pos]
    exact List.all_eq_true.mpr (fun k hk => hok k (List.mem_range.mp hk))
  dense := by
    intro x y hok
    refine ⟨mkDense (fun j k => f (x.nth j k) (y.nth j k)), ?_, ?_⟩
    · unfold dense2
      rw [if_pos]
      apply List.all_eq_true.mpr
      intro j hj
      apply List.all_eq_true.mpr
      intro k hk
      have hj' : j < 8 := List.mem_range.mp hj
      have hk' : k < L := List.mem_range.mp hk
      have hlt : j * L + k < L * 8 := by
        have : (j + 1) * L ≤ 8 * L := Nat.mul_le_mul_right _ hj'
        rw [Nat.succ_mul] at this
        rw [Nat.mul_comm L 8]; omega
      have h1 : (j * L + k) / L = j := Nat.div_eq_of_lt_le (by omega) (by rw [Nat.succ_mul]; omega)
      have h2 : (j * L + k) % L = k := by
        have := Nat.div_add_mod (j * L + k) L
        rw [h1, Nat.mul_comm] at this
        omega
      have := hok (j * L + k) hlt
      unfold dlanes lanesId at this
      rw [h1, h2] at this
      exact this
    · intro k hk
      rw [dlanes_mkDense L hL _ k hk]
      rfl

theorem lanewise2_total (L : Nat) (hL : 0 < L) (f : T → T → T) :
    Lanewise2 L lanesId f (fun _ => True) (lane2 L f (fun _ => true)) (dense2 L f (fun _ => true)) := by
  have h := lanewise2 L hL f (fun _ => true)
  exact ⟨fun x y _ => h.single x y (fun _ _ => rfl), fun x y _ => h.dense x y (fun _ _ => rfl)⟩

/-- **the element-wise contract, for every lane count** -/
theorem arithFaithful (L : Nat) (hL : 0 < L) (S : ScalarSpec T) : ArithFaithful (modelReg L S) L lanesId S where
  mem := memFaithful L hL S
  bcast := broadcastFaithful L S
  add := lanewise2_total L hL S.add
  sub := lanewise2_total L hL S.sub
  mul := lanewise2_total L hL S.mul
  div := lanewise2 L hL S.div S.divOk
  max := lanewise2_total L hL S.cmpMax
  min := lanewise2_total L hL S.cmpMin

theorem foldFaithful (L : Nat) (op : T → T → T) (hfold : (Nat → T) → T) :
    FoldFaithful L lanesId op hfold (fun d => pure (laneTree8 op d)) (fun r => pure (hfold r)) where
  to_register := fun d => ⟨laneTree8 op d, rfl, fun _ _ => rfl⟩
  to_value := fun _ => rfl

/-- **the reduction contract, for every lane count**: unfused multiply-add, left-fold horizontal sums -/
theorem reduceFaithful (L : Nat) (hL : 0 < L) (S : ScalarSpec T) :
    ReduceFaithful (modelReg L S) L lanesId S (fun x y acc => S.add (S.mul x y) acc)
      (fun r => sumR S.add S.zero r L) (foldFrom0 S.cmpMax L) (foldFrom0 S.cmpMin L) where
  zeroed_dense_ok := ⟨DenseLane.copy (fun _ => S.zero), rfl, fun k _ => by unfold dlanes lanesId; rw [copy_nth]⟩
  fmadd := {
    single := fun x y z => ⟨fun k => S.add (S.mul (x k) (y k)) (z k), rfl, fun _ _ => rfl⟩
    dense := fun x y z => ⟨mkDense (fun j k => S.add (S.mul (x.nth j k) (y.nth j k)) (z.nth j k)), rfl,
      fun k hk => by rw [dlanes_mkDense L hL _ k hk]; rfl⟩ }
  sum := foldFaithful L S.add _
  max := foldFaithful L S.cmpMax _
  min := foldFaithful L S.cmpMin _

/-- **C07 for every lane count, non-vacuously.** On the reference backend with *any* `L ≥ 1` lanes (signed integers of any
width; the unsigned statement is the same with `uintSpec`), every length `dims` and slices of that length, the four
reduction kernels and the ten element-wise kernels run to completion: no out-of-bounds access, no divergence. -/
theorem kernels_in_bounds_every_L (w L : Nat) (hL : 0 < L) (E : Env) (M : Math (BitVec w))
    (MFa : MathFaithful M (sintSpec w)) (dims : Nat) (hfuel : dims < E.fuel)
    (a b result : Slice (BitVec w)) (value : BitVec w)
    (ha : a.size = dims) (hb : b.size = dims) (hr : result.size = dims) :
    let R := modelReg L (sintSpec w)
    (C07.NoFault (generic_sum E R M dims a) ∧ C07.NoFault (generic_squared_norm E R M dims a)
      ∧ C07.NoFault (generic_dot_product E R M dims a b) ∧ C07.NoFault (generic_euclidean E R M dims a b))
    ∧ (C07.NoFault (generic_add_vector E R M dims a b result) ∧ C07.NoFault (generic_sub_vector E R M dims a b result)
      ∧ C07.NoFault (generic_mul_vector E R M dims a b result)
      ∧ C07.NoFault (generic_max_vertical E R M dims a b result) ∧ C07.NoFault (generic_min_vertical E R M dims a b result)
      ∧ C07.NoFault (generic_add_value E R M dims value a result) ∧ C07.NoFault (generic_sub_value E R M dims value a result)
      ∧ C07.NoFault (generic_mul_value E R M dims value a result)
      ∧ C07.NoFault (generic_max_value E R M dims value a result) ∧ C07.NoFault (generic_min_value E R M dims value a result)) :=
  ⟨C07.reductions_in_bounds (C03.sint_isInt w) (arithFaithful L hL _) (reduceFaithful L hL _) MFa (fun _ => rfl) dims hfuel a b ha hb,
   C07.elementwise_in_bounds (arithFaithful L hL _) MFa dims hfuel a b result value ha hb hr⟩

end Cfavml.Thm.ModelReg
