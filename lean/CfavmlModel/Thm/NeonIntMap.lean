/-
GENERATED TEXT (lean/tools/gen_neonint.py): element-wise add/sub/mul/div and vertical / by-value max/min on the NEON integer
backends, exact for every input and length (contracts: Thm/C13Neon.lean).
-/
import CfavmlModel.Thm.C13Neon
import CfavmlModel.Thm.C13Full

namespace Cfavml.Thm.NeonIntMap
open Cfavml.Thm

namespace Neon_i8
variable (E : Env) (a b result : Slice I8) (value : I8)
theorem add_vector (hb : b.size = a.size) (hr : result.size = a.size) (hfuel : a.size < E.fuel) :
    C02.ExactMap2 (sintSpec 8).add a.size a b result (generic_add_vector E (Neon_i8.inst E) (AutoMath_i8 E) a.size a b result) :=
  C02.add_vector (C13Neon.Neon_i8.arith E) (C18.auto_i8 E) a.size a b result rfl hb hr hfuel
theorem add_value (hr : result.size = a.size) (hfuel : a.size < E.fuel) :
    C02.ExactMap1v (sintSpec 8).add a.size value a result (generic_add_value E (Neon_i8.inst E) (AutoMath_i8 E) a.size value a result) :=
  C02.add_value (C13Neon.Neon_i8.arith E) (C18.auto_i8 E) a.size value a result rfl hr hfuel
theorem sub_vector (hb : b.size = a.size) (hr : result.size = a.size) (hfuel : a.size < E.fuel) :
    C02.ExactMap2 (sintSpec 8).sub a.size a b result (generic_sub_vector E (Neon_i8.inst E) (AutoMath_i8 E) a.size a b result) :=
  C02.sub_vector (C13Neon.Neon_i8.arith E) (C18.auto_i8 E) a.size a b result rfl hb hr hfuel
theorem sub_value (hr : result.size = a.size) (hfuel : a.size < E.fuel) :
    C02.ExactMap1v (sintSpec 8).sub a.size value a result (generic_sub_value E (Neon_i8.inst E) (AutoMath_i8 E) a.size value a result) :=
  C02.sub_value (C13Neon.Neon_i8.arith E) (C18.auto_i8 E) a.size value a result rfl hr hfuel
theorem mul_vector (hb : b.size = a.size) (hr : result.size = a.size) (hfuel : a.size < E.fuel) :
    C02.ExactMap2 (sintSpec 8).mul a.size a b result (generic_mul_vector E (Neon_i8.inst E) (AutoMath_i8 E) a.size a b result) :=
  C02.mul_vector (C13Neon.Neon_i8.arith E) (C18.auto_i8 E) a.size a b result rfl hb hr hfuel
theorem mul_value (hr : result.size = a.size) (hfuel : a.size < E.fuel) :
    C02.ExactMap1v (sintSpec 8).mul a.size value a result (generic_mul_value E (Neon_i8.inst E) (AutoMath_i8 E) a.size value a result) :=
  C02.mul_value (C13Neon.Neon_i8.arith E) (C18.auto_i8 E) a.size value a result rfl hr hfuel
theorem div_vector (hb : b.size = a.size) (hr : result.size = a.size) (hfuel : a.size < E.fuel)
    (hnz : ∀ j, j < a.size → b.get j ≠ 0) :
    C02.ExactMap2 (sintSpec 8).div a.size a b result (generic_div_vector E (Neon_i8.inst E) (AutoMath_i8 E) a.size a b result) :=
  C02.div_vector (C13Neon.Neon_i8.arith E) (C18.auto_i8 E) a.size a b result rfl hb hr hfuel
    (fun j hj => by simpa [sintSpec, uintSpec] using hnz j hj)
theorem div_value (hr : result.size = a.size) (hfuel : a.size < E.fuel) (hnz : value ≠ 0) :
    C02.ExactMap1v (sintSpec 8).div a.size value a result (generic_div_value E (Neon_i8.inst E) (AutoMath_i8 E) a.size value a result) :=
  C02.div_value (C13Neon.Neon_i8.arith E) (C18.auto_i8 E) a.size value a result rfl hr hfuel
    (by simpa [sintSpec, uintSpec] using hnz)
theorem max_vertical (hb : b.size = a.size) (hr : result.size = a.size) (hfuel : a.size < E.fuel) :
    C02.ExactMap2 (sintSpec 8).cmpMax a.size a b result (generic_max_vertical E (Neon_i8.inst E) (AutoMath_i8 E) a.size a b result) :=
  C05.max_vertical (C13Neon.Neon_i8.arith E) (C18.auto_i8 E) a.size hfuel a b result rfl hb hr
theorem min_vertical (hb : b.size = a.size) (hr : result.size = a.size) (hfuel : a.size < E.fuel) :
    C02.ExactMap2 (sintSpec 8).cmpMin a.size a b result (generic_min_vertical E (Neon_i8.inst E) (AutoMath_i8 E) a.size a b result) :=
  C05.min_vertical (C13Neon.Neon_i8.arith E) (C18.auto_i8 E) a.size hfuel a b result rfl hb hr
theorem max_value (hr : result.size = a.size) (hfuel : a.size < E.fuel) :
    C02.ExactMap1v (sintSpec 8).cmpMax a.size value a result (generic_max_value E (Neon_i8.inst E) (AutoMath_i8 E) a.size value a result) :=
  C05.max_value (C13Neon.Neon_i8.arith E) (C18.auto_i8 E) a.size hfuel value a result rfl hr
theorem min_value (hr : result.size = a.size) (hfuel : a.size < E.fuel) :
    C02.ExactMap1v (sintSpec 8).cmpMin a.size value a result (generic_min_value E (Neon_i8.inst E) (AutoMath_i8 E) a.size value a result) :=
  C05.min_value (C13Neon.Neon_i8.arith E) (C18.auto_i8 E) a.size hfuel value a result rfl hr
end Neon_i8

namespace Neon_i16
variable (E : Env) (a b result : Slice I16) (value : I16)
theorem add_vector (hb : b.size = a.size) (hr : result.size = a.size) (hfuel : a.size < E.fuel) :
    C02.ExactMap2 (sintSpec 16).add a.size a b result (generic_add_vector E (Neon_i16.inst E) (AutoMath_i16 E) a.size a b result) :=
  C02.add_vector (C13Neon.Neon_i16.arith E) (C18.auto_i16 E) a.size a b result rfl hb hr hfuel
theorem add_value (hr : result.size = a.size) (hfuel : a.size < E.fuel) :
    C02.ExactMap1v (sintSpec 16).add a.size value a result (generic_add_value E (Neon_i16.inst E) (AutoMath_i16 E) a.size value a result) :=
  C02.add_value (C13Neon.Neon_i16.arith E) (C18.auto_i16 E) a.size value a result rfl hr hfuel
theorem sub_vector (hb : b.size = a.size) (hr : result.size = a.size) (hfuel : a.size < E.fuel) :
    C02.ExactMap2 (sintSpec 16).sub a.size a b result (generic_sub_vector E (Neon_i16.inst E) (AutoMath_i16 E) a.size a b result) :=
  C02.sub_vector (C13Neon.Neon_i16.arith E) (C18.auto_i16 E) a.size a b result rfl hb hr hfuel
theorem sub_value (hr : result.size = a.size) (hfuel : a.size < E.fuel) :
    C02.ExactMap1v (sintSpec 16).sub a.size value a result (generic_sub_value E (Neon_i16.inst E) (AutoMath_i16 E) a.size value a result) :=
  C02.sub_value (C13Neon.Neon_i16.arith E) (C18.auto_i16 E) a.size value a result rfl hr hfuel
theorem mul_vector (hb : b.size = a.size) (hr : result.size = a.size) (hfuel : a.size < E.fuel) :
    C02.ExactMap2 (sintSpec 16).mul a.size a b result (generic_mul_vector E (Neon_i16.inst E) (AutoMath_i16 E) a.size a b result) :=
  C02.mul_vector (C13Neon.Neon_i16.arith E) (C18.auto_i16 E) a.size a b result rfl hb hr hfuel
theorem mul_value (hr : result.size = a.size) (hfuel : a.size < E.fuel) :
    C02.ExactMap1v (sintSpec 16).mul a.size value a result (generic_mul_value E (Neon_i16.inst E) (AutoMath_i16 E) a.size value a result) :=
  C02.mul_value (C13Neon.Neon_i16.arith E) (C18.auto_i16 E) a.size value a result rfl hr hfuel
theorem div_vector (hb : b.size = a.size) (hr : result.size = a.size) (hfuel : a.size < E.fuel)
    (hnz : ∀ j, j < a.size → b.get j ≠ 0) :
    C02.ExactMap2 (sintSpec 16).div a.size a b result (generic_div_vector E (Neon_i16.inst E) (AutoMath_i16 E) a.size a b result) :=
  C02.div_vector (C13Neon.Neon_i16.arith E) (C18.auto_i16 E) a.size a b result rfl hb hr hfuel
    (fun j hj => by simpa [sintSpec, uintSpec] using hnz j hj)
theorem div_value (hr : result.size = a.size) (hfuel : a.size < E.fuel) (hnz : value ≠ 0) :
    C02.ExactMap1v (sintSpec 16).div a.size value a result (generic_div_value E (Neon_i16.inst E) (AutoMath_i16 E) a.size value a result) :=
  C02.div_value (C13Neon.Neon_i16.arith E) (C18.auto_i16 E) a.size value a result rfl hr hfuel
    (by simpa [sintSpec, uintSpec] using hnz)
theorem max_vertical (hb : b.size = a.size) (hr : result.size = a.size) (hfuel : a.size < E.fuel) :
    C02.ExactMap2 (sintSpec 16).cmpMax a.size a b result (generic_max_vertical E (Neon_i16.inst E) (AutoMath_i16 E) a.size a b result) :=
  C05.max_vertical (C13Neon.Neon_i16.arith E) (C18.auto_i16 E) a.size hfuel a b result rfl hb hr
theorem min_vertical (hb : b.size = a.size) (hr : result.size = a.size) (hfuel : a.size < E.fuel) :
    C02.ExactMap2 (sintSpec 16).cmpMin a.size a b result (generic_min_vertical E (Neon_i16.inst E) (AutoMath_i16 E) a.size a b result) :=
  C05.min_vertical (C13Neon.Neon_i16.arith E) (C18.auto_i16 E) a.size hfuel a b result rfl hb hr
theorem max_value (hr : result.size = a.size) (hfuel : a.size < E.fuel) :
    C02.ExactMap1v (sintSpec 16).cmpMax a.size value a result (generic_max_value E (Neon_i16.inst E) (AutoMath_i16 E) a.size value a result) :=
  C05.max_value (C13Neon.Neon_i16.arith E) (C18.auto_i16 E) a.size hfuel value a result rfl hr
theorem min_value (hr : result.size = a.size) (hfuel : a.size < E.fuel) :
    C02.ExactMap1v (sintSpec 16).cmpMin a.size value a result (generic_min_value E (Neon_i16.inst E) (AutoMath_i16 E) a.size value a result) :=
  C05.min_value (C13Neon.Neon_i16.arith E) (C18.auto_i16 E) a.size hfuel value a result rfl hr
end Neon_i16

namespace Neon_i32
variable (E : Env) (a b result : Slice I32) (value : I32)
theorem add_vector (hb : b.size = a.size) (hr : result.size = a.size) (hfuel : a.size < E.fuel) :
    C02.ExactMap2 (sintSpec 32).add a.size a b result (generic_add_vector E (Neon_i32.inst E) (AutoMath_i32 E) a.size a b result) :=
  C02.add_vector (C13Neon.Neon_i32.arith E) (C18.auto_i32 E) a.size a b result rfl hb hr hfuel
theorem add_value (hr : result.size = a.size) (hfuel : a.size < E.fuel) :
    C02.ExactMap1v (sintSpec 32).add a.size value a result (generic_add_value E (Neon_i32.inst E) (AutoMath_i32 E) a.size value a result) :=
  C02.add_value (C13Neon.Neon_i32.arith E) (C18.auto_i32 E) a.size value a result rfl hr hfuel
theorem sub_vector (hb : b.size = a.size) (hr : result.size = a.size) (hfuel : a.size < E.fuel) :
    C02.ExactMap2 (sintSpec 32).sub a.size a b result (generic_sub_vector E (Neon_i32.inst E) (AutoMath_i32 E) a.size a b result) :=
  C02.sub_vector (C13Neon.Neon_i32.arith E) (C18.auto_i32 E) a.size a b result rfl hb hr hfuel
theorem sub_value (hr : result.size = a.size) (hfuel : a.size < E.fuel) :
    C02.ExactMap1v (sintSpec 32).sub a.size value a result (generic_sub_value E (Neon_i32.inst E) (AutoMath_i32 E) a.size value a result) :=
  C02.sub_value (C13Neon.Neon_i32.arith E) (C18.auto_i32 E) a.size value a result rfl hr hfuel
theorem mul_vector (hb : b.size = a.size) (hr : result.size = a.size) (hfuel : a.size < E.fuel) :
    C02.ExactMap2 (sintSpec 32).mul a.size a b result (generic_mul_vector E (Neon_i32.inst E) (AutoMath_i32 E) a.size a b result) :=
  C02.mul_vector (C13Neon.Neon_i32.arith E) (C18.auto_i32 E) a.size a b result rfl hb hr hfuel
theorem mul_value (hr : result.size = a.size) (hfuel : a.size < E.fuel) :
    C02.ExactMap1v (sintSpec 32).mul a.size value a result (generic_mul_value E (Neon_i32.inst E) (AutoMath_i32 E) a.size value a result) :=
  C02.mul_value (C13Neon.Neon_i32.arith E) (C18.auto_i32 E) a.size value a result rfl hr hfuel
theorem div_vector (hb : b.size = a.size) (hr : result.size = a.size) (hfuel : a.size < E.fuel)
    (hnz : ∀ j, j < a.size → b.get j ≠ 0) :
    C02.ExactMap2 (sintSpec 32).div a.size a b result (generic_div_vector E (Neon_i32.inst E) (AutoMath_i32 E) a.size a b result) :=
  C02.div_vector (C13Neon.Neon_i32.arith E) (C18.auto_i32 E) a.size a b result rfl hb hr hfuel
    (fun j hj => by simpa [sintSpec, uintSpec] using hnz j hj)
theorem div_value (hr : result.size = a.size) (hfuel : a.size < E.fuel) (hnz : value ≠ 0) :
    C02.ExactMap1v (sintSpec 32).div a.size value a result (generic_div_value E (Neon_i32.inst E) (AutoMath_i32 E) a.size value a result) :=
  C02.div_value (C13Neon.Neon_i32.arith E) (C18.auto_i32 E) a.size value a result rfl hr hfuel
    (by simpa [sintSpec, uintSpec] using hnz)
theorem max_vertical (hb : b.size = a.size) (hr : result.size = a.size) (hfuel : a.size < E.fuel) :
    C02.ExactMap2 (sintSpec 32).cmpMax a.size a b result (generic_max_vertical E (Neon_i32.inst E) (AutoMath_i32 E) a.size a b result) :=
  C05.max_vertical (C13Neon.Neon_i32.arith E) (C18.auto_i32 E) a.size hfuel a b result rfl hb hr
theorem min_vertical (hb : b.size = a.size) (hr : result.size = a.size) (hfuel : a.size < E.fuel) :
    C02.ExactMap2 (sintSpec 32).cmpMin a.size a b result (generic_min_vertical E (Neon_i32.inst E) (AutoMath_i32 E) a.size a b result) :=
  C05.min_vertical (C13Neon.Neon_i32.arith E) (C18.auto_i32 E) a.size hfuel a b result rfl hb hr
theorem max_value (hr : result.size = a.size) (hfuel : a.size < E.fuel) :
    C02.ExactMap1v (sintSpec 32).cmpMax a.size value a result (generic_max_value E (Neon_i32.inst E) (AutoMath_i32 E) a.size value a result) :=
  C05.max_value (C13Neon.Neon_i32.arith E) (C18.auto_i32 E) a.size hfuel value a result rfl hr
theorem min_value (hr : result.size = a.size) (hfuel : a.size < E.fuel) :
    C02.ExactMap1v (sintSpec 32).cmpMin a.size value a result (generic_min_value E (Neon_i32.inst E) (AutoMath_i32 E) a.size value a result) :=
  C05.min_value (C13Neon.Neon_i32.arith E) (C18.auto_i32 E) a.size hfuel value a result rfl hr
end Neon_i32

namespace Neon_i64
variable (E : Env) (a b result : Slice I64) (value : I64)
theorem add_vector (hb : b.size = a.size) (hr : result.size = a.size) (hfuel : a.size < E.fuel) :
    C02.ExactMap2 (sintSpec 64).add a.size a b result (generic_add_vector E (Neon_i64.inst E) (AutoMath_i64 E) a.size a b result) :=
  C02.add_vector (C13Neon.Neon_i64.arith E) (C18.auto_i64 E) a.size a b result rfl hb hr hfuel
theorem add_value (hr : result.size = a.size) (hfuel : a.size < E.fuel) :
    C02.ExactMap1v (sintSpec 64).add a.size value a result (generic_add_value E (Neon_i64.inst E) (AutoMath_i64 E) a.size value a result) :=
  C02.add_value (C13Neon.Neon_i64.arith E) (C18.auto_i64 E) a.size value a result rfl hr hfuel
theorem sub_vector (hb : b.size = a.size) (hr : result.size = a.size) (hfuel : a.size < E.fuel) :
    C02.ExactMap2 (sintSpec 64).sub a.size a b result (generic_sub_vector E (Neon_i64.inst E) (AutoMath_i64 E) a.size a b result) :=
  C02.sub_vector (C13Neon.Neon_i64.arith E) (C18.auto_i64 E) a.size a b result rfl hb hr hfuel
theorem sub_value (hr : result.size = a.size) (hfuel : a.size < E.fuel) :
    C02.ExactMap1v (sintSpec 64).sub a.size value a result (generic_sub_value E (Neon_i64.inst E) (AutoMath_i64 E) a.size value a result) :=
  C02.sub_value (C13Neon.Neon_i64.arith E) (C18.auto_i64 E) a.size value a result rfl hr hfuel
theorem mul_vector (hb : b.size = a.size) (hr : result.size = a.size) (hfuel : a.size < E.fuel) :
    C02.ExactMap2 (sintSpec 64).mul a.size a b result (generic_mul_vector E (Neon_i64.inst E) (AutoMath_i64 E) a.size a b result) :=
  C02.mul_vector (C13Neon.Neon_i64.arith E) (C18.auto_i64 E) a.size a b result rfl hb hr hfuel
theorem mul_value (hr : result.size = a.size) (hfuel : a.size < E.fuel) :
    C02.ExactMap1v (sintSpec 64).mul a.size value a result (generic_mul_value E (Neon_i64.inst E) (AutoMath_i64 E) a.size value a result) :=
  C02.mul_value (C13Neon.Neon_i64.arith E) (C18.auto_i64 E) a.size value a result rfl hr hfuel
theorem div_vector (hb : b.size = a.size) (hr : result.size = a.size) (hfuel : a.size < E.fuel)
    (hnz : ∀ j, j < a.size → b.get j ≠ 0) :
    C02.ExactMap2 (sintSpec 64).div a.size a b result (generic_div_vector E (Neon_i64.inst E) (AutoMath_i64 E) a.size a b result) :=
  C02.div_vector (C13Neon.Neon_i64.arith E) (C18.auto_i64 E) a.size a b result rfl hb hr hfuel
    (fun j hj => by simpa [sintSpec, uintSpec] using hnz j hj)
theorem div_value (hr : result.size = a.size) (hfuel : a.size < E.fuel) (hnz : value ≠ 0) :
    C02.ExactMap1v (sintSpec 64).div a.size value a result (generic_div_value E (Neon_i64.inst E) (AutoMath_i64 E) a.size value a result) :=
  C02.div_value (C13Neon.Neon_i64.arith E) (C18.auto_i64 E) a.size value a result rfl hr hfuel
    (by simpa [sintSpec, uintSpec] using hnz)
theorem max_vertical (hb : b.size = a.size) (hr : result.size = a.size) (hfuel : a.size < E.fuel) :
    C02.ExactMap2 (sintSpec 64).cmpMax a.size a b result (generic_max_vertical E (Neon_i64.inst E) (AutoMath_i64 E) a.size a b result) :=
  C05.max_vertical (C13Neon.Neon_i64.arith E) (C18.auto_i64 E) a.size hfuel a b result rfl hb hr
theorem min_vertical (hb : b.size = a.size) (hr : result.size = a.size) (hfuel : a.size < E.fuel) :
    C02.ExactMap2 (sintSpec 64).cmpMin a.size a b result (generic_min_vertical E (Neon_i64.inst E) (AutoMath_i64 E) a.size a b result) :=
  C05.min_vertical (C13Neon.Neon_i64.arith E) (C18.auto_i64 E) a.size hfuel a b result rfl hb hr
theorem max_value (hr : result.size = a.size) (hfuel : a.size < E.fuel) :
    C02.ExactMap1v (sintSpec 64).cmpMax a.size value a result (generic_max_value E (Neon_i64.inst E) (AutoMath_i64 E) a.size value a result) :=
  C05.max_value (C13Neon.Neon_i64.arith E) (C18.auto_i64 E) a.size hfuel value a result rfl hr
theorem min_value (hr : result.size = a.size) (hfuel : a.size < E.fuel) :
    C02.ExactMap1v (sintSpec 64).cmpMin a.size value a result (generic_min_value E (Neon_i64.inst E) (AutoMath_i64 E) a.size value a result) :=
  C05.min_value (C13Neon.Neon_i64.arith E) (C18.auto_i64 E) a.size hfuel value a result rfl hr
end Neon_i64

namespace Neon_u8
variable (E : Env) (a b result : Slice U8) (value : U8)
theorem add_vector (hb : b.size = a.size) (hr : result.size = a.size) (hfuel : a.size < E.fuel) :
    C02.ExactMap2 (uintSpec 8).add a.size a b result (generic_add_vector E (Neon_u8.inst E) (AutoMath_u8 E) a.size a b result) :=
  C02.add_vector (C13Neon.Neon_u8.arith E) (C18.auto_u8 E) a.size a b result rfl hb hr hfuel
theorem add_value (hr : result.size = a.size) (hfuel : a.size < E.fuel) :
    C02.ExactMap1v (uintSpec 8).add a.size value a result (generic_add_value E (Neon_u8.inst E) (AutoMath_u8 E) a.size value a result) :=
  C02.add_value (C13Neon.Neon_u8.arith E) (C18.auto_u8 E) a.size value a result rfl hr hfuel
theorem sub_vector (hb : b.size = a.size) (hr : result.size = a.size) (hfuel : a.size < E.fuel) :
    C02.ExactMap2 (uintSpec 8).sub a.size a b result (generic_sub_vector E (Neon_u8.inst E) (AutoMath_u8 E) a.size a b result) :=
  C02.sub_vector (C13Neon.Neon_u8.arith E) (C18.auto_u8 E) a.size a b result rfl hb hr hfuel
theorem sub_value (hr : result.size = a.size) (hfuel : a.size < E.fuel) :
    C02.ExactMap1v (uintSpec 8).sub a.size value a result (generic_sub_value E (Neon_u8.inst E) (AutoMath_u8 E) a.size value a result) :=
  C02.sub_value (C13Neon.Neon_u8.arith E) (C18.auto_u8 E) a.size value a result rfl hr hfuel
theorem mul_vector (hb : b.size = a.size) (hr : result.size = a.size) (hfuel : a.size < E.fuel) :
    C02.ExactMap2 (uintSpec 8).mul a.size a b result (generic_mul_vector E (Neon_u8.inst E) (AutoMath_u8 E) a.size a b result) :=
  C02.mul_vector (C13Neon.Neon_u8.arith E) (C18.auto_u8 E) a.size a b result rfl hb hr hfuel
theorem mul_value (hr : result.size = a.size) (hfuel : a.size < E.fuel) :
    C02.ExactMap1v (uintSpec 8).mul a.size value a result (generic_mul_value E (Neon_u8.inst E) (AutoMath_u8 E) a.size value a result) :=
  C02.mul_value (C13Neon.Neon_u8.arith E) (C18.auto_u8 E) a.size value a result rfl hr hfuel
theorem div_vector (hb : b.size = a.size) (hr : result.size = a.size) (hfuel : a.size < E.fuel)
    (hnz : ∀ j, j < a.size → b.get j ≠ 0) :
    C02.ExactMap2 (uintSpec 8).div a.size a b result (generic_div_vector E (Neon_u8.inst E) (AutoMath_u8 E) a.size a b result) :=
  C02.div_vector (C13Neon.Neon_u8.arith E) (C18.auto_u8 E) a.size a b result rfl hb hr hfuel
    (fun j hj => by simpa [sintSpec, uintSpec] using hnz j hj)
theorem div_value (hr : result.size = a.size) (hfuel : a.size < E.fuel) (hnz : value ≠ 0) :
    C02.ExactMap1v (uintSpec 8).div a.size value a result (generic_div_value E (Neon_u8.inst E) (AutoMath_u8 E) a.size value a result) :=
  C02.div_value (C13Neon.Neon_u8.arith E) (C18.auto_u8 E) a.size value a result rfl hr hfuel
    (by simpa [sintSpec, uintSpec] using hnz)
theorem max_vertical (hb : b.size = a.size) (hr : result.size = a.size) (hfuel : a.size < E.fuel) :
    C02.ExactMap2 (uintSpec 8).cmpMax a.size a b result (generic_max_vertical E (Neon_u8.inst E) (AutoMath_u8 E) a.size a b result) :=
  C05.max_vertical (C13Neon.Neon_u8.arith E) (C18.auto_u8 E) a.size hfuel a b result rfl hb hr
theorem min_vertical (hb : b.size = a.size) (hr : result.size = a.size) (hfuel : a.size < E.fuel) :
    C02.ExactMap2 (uintSpec 8).cmpMin a.size a b result (generic_min_vertical E (Neon_u8.inst E) (AutoMath_u8 E) a.size a b result) :=
  C05.min_vertical (C13Neon.Neon_u8.arith E) (C18.auto_u8 E) a.size hfuel a b result rfl hb hr
theorem max_value (hr : result.size = a.size) (hfuel : a.size < E.fuel) :
    C02.ExactMap1v (uintSpec 8).cmpMax a.size value a result (generic_max_value E (Neon_u8.inst E) (AutoMath_u8 E) a.size value a result) :=
  C05.max_value (C13Neon.Neon_u8.arith E) (C18.auto_u8 E) a.size hfuel value a result rfl hr
theorem min_value (hr : result.size = a.size) (hfuel : a.size < E.fuel) :
    C02.ExactMap1v (uintSpec 8).cmpMin a.size value a result (generic_min_value E (Neon_u8.inst E) (AutoMath_u8 E) a.size value a result) :=
  C05.min_value (C13Neon.Neon_u8.arith E) (C18.auto_u8 E) a.size hfuel value a result rfl hr
end Neon_u8

namespace Neon_u16
variable (E : Env) (a b result : Slice U16) (value : U16)
theorem add_vector (hb : b.size = a.size) (hr : result.size = a.size) (hfuel : a.size < E.fuel) :
    C02.ExactMap2 (uintSpec 16).add a.size a b result (generic_add_vector E (Neon_u16.inst E) (AutoMath_u16 E) a.size a b result) :=
  C02.add_vector (C13Neon.Neon_u16.arith E) (C18.auto_u16 E) a.size a b result rfl hb hr hfuel
theorem add_value (hr : result.size = a.size) (hfuel : a.size < E.fuel) :
    C02.ExactMap1v (uintSpec 16).add a.size value a result (generic_add_value E (Neon_u16.inst E) (AutoMath_u16 E) a.size value a result) :=
  C02.add_value (C13Neon.Neon_u16.arith E) (C18.auto_u16 E) a.size value a result rfl hr hfuel
theorem sub_vector (hb : b.size = a.size) (hr : result.size = a.size) (hfuel : a.size < E.fuel) :
    C02.ExactMap2 (uintSpec 16).sub a.size a b result (generic_sub_vector E (Neon_u16.inst E) (AutoMath_u16 E) a.size a b result) :=
  C02.sub_vector (C13Neon.Neon_u16.arith E) (C18.auto_u16 E) a.size a b result rfl hb hr hfuel
theorem sub_value (hr : result.size = a.size) (hfuel : a.size < E.fuel) :
    C02.ExactMap1v (uintSpec 16).sub a.size value a result (generic_sub_value E (Neon_u16.inst E) (AutoMath_u16 E) a.size value a result) :=
  C02.sub_value (C13Neon.Neon_u16.arith E) (C18.auto_u16 E) a.size value a result rfl hr hfuel
theorem mul_vector (hb : b.size = a.size) (hr : result.size = a.size) (hfuel : a.size < E.fuel) :
    C02.ExactMap2 (uintSpec 16).mul a.size a b result (generic_mul_vector E (Neon_u16.inst E) (AutoMath_u16 E) a.size a b result) :=
  C02.mul_vector (C13Neon.Neon_u16.arith E) (C18.auto_u16 E) a.size a b result rfl hb hr hfuel
theorem mul_value (hr : result.size = a.size) (hfuel : a.size < E.fuel) :
    C02.ExactMap1v (uintSpec 16).mul a.size value a result (generic_mul_value E (Neon_u16.inst E) (AutoMath_u16 E) a.size value a result) :=
  C02.mul_value (C13Neon.Neon_u16.arith E) (C18.auto_u16 E) a.size value a result rfl hr hfuel
theorem div_vector (hb : b.size = a.size) (hr : result.size = a.size) (hfuel : a.size < E.fuel)
    (hnz : ∀ j, j < a.size → b.get j ≠ 0) :
    C02.ExactMap2 (uintSpec 16).div a.size a b result (generic_div_vector E (Neon_u16.inst E) (AutoMath_u16 E) a.size a b result) :=
  C02.div_vector (C13Neon.Neon_u16.arith E) (C18.auto_u16 E) a.size a b result rfl hb hr hfuel
    (fun j hj => by simpa [sintSpec, uintSpec] using hnz j hj)
theorem div_value (hr : result.size = a.size) (hfuel : a.size < E.fuel) (hnz : value ≠ 0) :
    C02.ExactMap1v (uintSpec 16).div a.size value a result (generic_div_value E (Neon_u16.inst E) (AutoMath_u16 E) a.size value a result) :=
  C02.div_value (C13Neon.Neon_u16.arith E) (C18.auto_u16 E) a.size value a result rfl hr hfuel
    (by simpa [sintSpec, uintSpec] using hnz)
theorem max_vertical (hb : b.size = a.size) (hr : result.size = a.size) (hfuel : a.size < E.fuel) :
    C02.ExactMap2 (uintSpec 16).cmpMax a.size a b result (generic_max_vertical E (Neon_u16.inst E) (AutoMath_u16 E) a.size a b result) :=
  C05.max_vertical (C13Neon.Neon_u16.arith E) (C18.auto_u16 E) a.size hfuel a b result rfl hb hr
theorem min_vertical (hb : b.size = a.size) (hr : result.size = a.size) (hfuel : a.size < E.fuel) :
    C02.ExactMap2 (uintSpec 16).cmpMin a.size a b result (generic_min_vertical E (Neon_u16.inst E) (AutoMath_u16 E) a.size a b result) :=
  C05.min_vertical (C13Neon.Neon_u16.arith E) (C18.auto_u16 E) a.size hfuel a b result rfl hb hr
theorem max_value (hr : result.size = a.size) (hfuel : a.size < E.fuel) :
    C02.ExactMap1v (uintSpec 16).cmpMax a.size value a result (generic_max_value E (Neon_u16.inst E) (AutoMath_u16 E) a.size value a result) :=
  C05.max_value (C13Neon.Neon_u16.arith E) (C18.auto_u16 E) a.size hfuel value a result rfl hr
theorem min_value (hr : result.size = a.size) (hfuel : a.size < E.fuel) :
    C02.ExactMap1v (uintSpec 16).cmpMin a.size value a result (generic_min_value E (Neon_u16.inst E) (AutoMath_u16 E) a.size value a result) :=
  C05.min_value (C13Neon.Neon_u16.arith E) (C18.auto_u16 E) a.size hfuel value a result rfl hr
end Neon_u16

namespace Neon_u32
variable (E : Env) (a b result : Slice U32) (value : U32)
theorem add_vector (hb : b.size = a.size) (hr : result.size = a.size) (hfuel : a.size < E.fuel) :
    C02.ExactMap2 (uintSpec 32).add a.size a b result (generic_add_vector E (Neon_u32.inst E) (AutoMath_u32 E) a.size a b result) :=
  C02.add_vector (C13Neon.Neon_u32.arith E) (C18.auto_u32 E) a.size a b result rfl hb hr hfuel
theorem add_value (hr : result.size = a.size) (hfuel : a.size < E.fuel) :
    C02.ExactMap1v (uintSpec 32).add a.size value a result (generic_add_value E (Neon_u32.inst E) (AutoMath_u32 E) a.size value a result) :=
  C02.add_value (C13Neon.Neon_u32.arith E) (C18.auto_u32 E) a.size value a result rfl hr hfuel
theorem sub_vector (hb : b.size = a.size) (hr : result.size = a.size) (hfuel : a.size < E.fuel) :
    C02.ExactMap2 (uintSpec 32).sub a.size a b result (generic_sub_vector E (Neon_u32.inst E) (AutoMath_u32 E) a.size a b result) :=
  C02.sub_vector (C13Neon.Neon_u32.arith E) (C18.auto_u32 E) a.size a b result rfl hb hr hfuel
theorem sub_value (hr : result.size = a.size) (hfuel : a.size < E.fuel) :
    C02.ExactMap1v (uintSpec 32).sub a.size value a result (generic_sub_value E (Neon_u32.inst E) (AutoMath_u32 E) a.size value a result) :=
  C02.sub_value (C13Neon.Neon_u32.arith E) (C18.auto_u32 E) a.size value a result rfl hr hfuel
theorem mul_vector (hb : b.size = a.size) (hr : result.size = a.size) (hfuel : a.size < E.fuel) :
    C02.ExactMap2 (uintSpec 32).mul a.size a b result (generic_mul_vector E (Neon_u32.inst E) (AutoMath_u32 E) a.size a b result) :=
  C02.mul_vector (C13Neon.Neon_u32.arith E) (C18.auto_u32 E) a.size a b result rfl hb hr hfuel
theorem mul_value (hr : result.size = a.size) (hfuel : a.size < E.fuel) :
    C02.ExactMap1v (uintSpec 32).mul a.size value a result (generic_mul_value E (Neon_u32.inst E) (AutoMath_u32 E) a.size value a result) :=
  C02.mul_value (C13Neon.Neon_u32.arith E) (C18.auto_u32 E) a.size value a result rfl hr hfuel
theorem div_vector (hb : b.size = a.size) (hr : result.size = a.size) (hfuel : a.size < E.fuel)
    (hnz : ∀ j, j < a.size → b.get j ≠ 0) :
    C02.ExactMap2 (uintSpec 32).div a.size a b result (generic_div_vector E (Neon_u32.inst E) (AutoMath_u32 E) a.size a b result) :=
  C02.div_vector (C13Neon.Neon_u32.arith E) (C18.auto_u32 E) a.size a b result rfl hb hr hfuel
    (fun j hj => by simpa [sintSpec, uintSpec] using hnz j hj)
theorem div_value (hr : result.size = a.size) (hfuel : a.size < E.fuel) (hnz : value ≠ 0) :
    C02.ExactMap1v (uintSpec 32).div a.size value a result (generic_div_value E (Neon_u32.inst E) (AutoMath_u32 E) a.size value a result) :=
  C02.div_value (C13Neon.Neon_u32.arith E) (C18.auto_u32 E) a.size value a result rfl hr hfuel
    (by simpa [sintSpec, uintSpec] using hnz)
theorem max_vertical (hb : b.size = a.size) (hr : result.size = a.size) (hfuel : a.size < E.fuel) :
    C02.ExactMap2 (uintSpec 32).cmpMax a.size a b result (generic_max_vertical E (Neon_u32.inst E) (AutoMath_u32 E) a.size a b result) :=
  C05.max_vertical (C13Neon.Neon_u32.arith E) (C18.auto_u32 E) a.size hfuel a b result rfl hb hr
theorem min_vertical (hb : b.size = a.size) (hr : result.size = a.size) (hfuel : a.size < E.fuel) :
    C02.ExactMap2 (uintSpec 32).cmpMin a.size a b result (generic_min_vertical E (Neon_u32.inst E) (AutoMath_u32 E) a.size a b result) :=
  C05.min_vertical (C13Neon.Neon_u32.arith E) (C18.auto_u32 E) a.size hfuel a b result rfl hb hr
theorem max_value (hr : result.size = a.size) (hfuel : a.size < E.fuel) :
    C02.ExactMap1v (uintSpec 32).cmpMax a.size value a result (generic_max_value E (Neon_u32.inst E) (AutoMath_u32 E) a.size value a result) :=
  C05.max_value (C13Neon.Neon_u32.arith E) (C18.auto_u32 E) a.size hfuel value a result rfl hr
theorem min_value (hr : result.size = a.size) (hfuel : a.size < E.fuel) :
    C02.ExactMap1v (uintSpec 32).cmpMin a.size value a result (generic_min_value E (Neon_u32.inst E) (AutoMath_u32 E) a.size value a result) :=
  C05.min_value (C13Neon.Neon_u32.arith E) (C18.auto_u32 E) a.size hfuel value a result rfl hr
end Neon_u32

namespace Neon_u64
variable (E : Env) (a b result : Slice U64) (value : U64)
theorem add_vector (hb : b.size = a.size) (hr : result.size = a.size) (hfuel : a.size < E.fuel) :
    C02.ExactMap2 (uintSpec 64).add a.size a b result (generic_add_vector E (Neon_u64.inst E) (AutoMath_u64 E) a.size a b result) :=
  C02.add_vector (C13Neon.Neon_u64.arith E) (C18.auto_u64 E) a.size a b result rfl hb hr hfuel
theorem add_value (hr : result.size = a.size) (hfuel : a.size < E.fuel) :
    C02.ExactMap1v (uintSpec 64).add a.size value a result (generic_add_value E (Neon_u64.inst E) (AutoMath_u64 E) a.size value a result) :=
  C02.add_value (C13Neon.Neon_u64.arith E) (C18.auto_u64 E) a.size value a result rfl hr hfuel
theorem sub_vector (hb : b.size = a.size) (hr : result.size = a.size) (hfuel : a.size < E.fuel) :
    C02.ExactMap2 (uintSpec 64).sub a.size a b result (generic_sub_vector E (Neon_u64.inst E) (AutoMath_u64 E) a.size a b result) :=
  C02.sub_vector (C13Neon.Neon_u64.arith E) (C18.auto_u64 E) a.size a b result rfl hb hr hfuel
theorem sub_value (hr : result.size = a.size) (hfuel : a.size < E.fuel) :
    C02.ExactMap1v (uintSpec 64).sub a.size value a result (generic_sub_value E (Neon_u64.inst E) (AutoMath_u64 E) a.size value a result) :=
  C02.sub_value (C13Neon.Neon_u64.arith E) (C18.auto_u64 E) a.size value a result rfl hr hfuel
theorem mul_vector (hb : b.size = a.size) (hr : result.size = a.size) (hfuel : a.size < E.fuel) :
    C02.ExactMap2 (uintSpec 64).mul a.size a b result (generic_mul_vector E (Neon_u64.inst E) (AutoMath_u64 E) a.size a b result) :=
  C02.mul_vector (C13Neon.Neon_u64.arith E) (C18.auto_u64 E) a.size a b result rfl hb hr hfuel
theorem mul_value (hr : result.size = a.size) (hfuel : a.size < E.fuel) :
    C02.ExactMap1v (uintSpec 64).mul a.size value a result (generic_mul_value E (Neon_u64.inst E) (AutoMath_u64 E) a.size value a result) :=
  C02.mul_value (C13Neon.Neon_u64.arith E) (C18.auto_u64 E) a.size value a result rfl hr hfuel
theorem div_vector (hb : b.size = a.size) (hr : result.size = a.size) (hfuel : a.size < E.fuel)
    (hnz : ∀ j, j < a.size → b.get j ≠ 0) :
    C02.ExactMap2 (uintSpec 64).div a.size a b result (generic_div_vector E (Neon_u64.inst E) (AutoMath_u64 E) a.size a b result) :=
  C02.div_vector (C13Neon.Neon_u64.arith E) (C18.auto_u64 E) a.size a b result rfl hb hr hfuel
    (fun j hj => by simpa [sintSpec, uintSpec] using hnz j hj)
theorem div_value (hr : result.size = a.size) (hfuel : a.size < E.fuel) (hnz : value ≠ 0) :
    C02.ExactMap1v (uintSpec 64).div a.size value a result (generic_div_value E (Neon_u64.inst E) (AutoMath_u64 E) a.size value a result) :=
  C02.div_value (C13Neon.Neon_u64.arith E) (C18.auto_u64 E) a.size value a result rfl hr hfuel
    (by simpa [sintSpec, uintSpec] using hnz)
theorem max_vertical (hb : b.size = a.size) (hr : result.size = a.size) (hfuel : a.size < E.fuel) :
    C02.ExactMap2 (uintSpec 64).cmpMax a.size a b result (generic_max_vertical E (Neon_u64.inst E) (AutoMath_u64 E) a.size a b result) :=
  C05.max_vertical (C13Neon.Neon_u64.arith E) (C18.auto_u64 E) a.size hfuel a b result rfl hb hr
theorem min_vertical (hb : b.size = a.size) (hr : result.size = a.size) (hfuel : a.size < E.fuel) :
    C02.ExactMap2 (uintSpec 64).cmpMin a.size a b result (generic_min_vertical E (Neon_u64.inst E) (AutoMath_u64 E) a.size a b result) :=
  C05.min_vertical (C13Neon.Neon_u64.arith E) (C18.auto_u64 E) a.size hfuel a b result rfl hb hr
theorem max_value (hr : result.size = a.size) (hfuel : a.size < E.fuel) :
    C02.ExactMap1v (uintSpec 64).cmpMax a.size value a result (generic_max_value E (Neon_u64.inst E) (AutoMath_u64 E) a.size value a result) :=
  C05.max_value (C13Neon.Neon_u64.arith E) (C18.auto_u64 E) a.size hfuel value a result rfl hr
theorem min_value (hr : result.size = a.size) (hfuel : a.size < E.fuel) :
    C02.ExactMap1v (uintSpec 64).cmpMin a.size value a result (generic_min_value E (Neon_u64.inst E) (AutoMath_u64 E) a.size value a result) :=
  C05.min_value (C13Neon.Neon_u64.arith E) (C18.auto_u64 E) a.size hfuel value a result rfl hr
end Neon_u64

end Cfavml.Thm.NeonIntMap
