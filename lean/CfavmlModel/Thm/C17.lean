/-
C17 — the thread pool honours its configuration for every environment and affinity.
Over the hand-written model `Hand/ThreadPool.lean` (tied to the code by the probe grid of the check).
Partial by nature: real scheduling, rayon's internals, `/proc` parsing by `num_cpus` and the affinity
system calls are parameters of the model, observed by the probes, not proved.
-/
import CfavmlModel.Hand.ThreadPool

namespace Cfavml.Thm.C17
open Hand

/-- **C17 (bounds).** For every value of the thread-count variable (absent, numeric, zero, negative,
non-numeric, huge — any string) and every physical core count ≥ 1, the pool has at least one and at most
`physical` threads. -/
theorem threads_bounds (e : PoolEnv) (hp : 1 ≤ e.physical) : 1 ≤ poolThreads e ∧ poolThreads e ≤ e.physical := by
  unfold poolThreads
  split
  · exact ⟨hp, Nat.le_refl _⟩
  · rename_i r hr
    constructor
    · have : configNumThreads e ≠ 0 := by
        intro h
        exact hr h
      have h1 : 1 ≤ configNumThreads e := Nat.pos_of_ne_zero this
      exact Nat.le_min.mpr ⟨h1, hp⟩
    · exact Nat.min_le_right _ _

theorem configNumThreads_some (e : PoolEnv) (v : String) (hv : requestedVar e = some v) :
    configNumThreads e = (parseUsize v).getD e.physical := by
  unfold configNumThreads; rw [hv]
theorem configNumThreads_none (e : PoolEnv) (hv : requestedVar e = none) : configNumThreads e = e.physical := by
  unfold configNumThreads; rw [hv]

/-- which variable is consulted: `CFAVML_NUM_THREADS` whenever it is set; without `env-var-compat` nothing else;
with it `OMP_NUM_THREADS`, then `OPENBLAS_NUM_THREADS` -/
theorem requestedVar_cfavml (e : PoolEnv) (v : String) (hv : e.numThreads = some v) : requestedVar e = some v := by
  unfold requestedVar; rw [hv]
theorem requestedVar_plain (e : PoolEnv) (hc : e.compat = false) : requestedVar e = e.numThreads := by
  unfold requestedVar; rw [hc]; cases e.numThreads <;> rfl
theorem requestedVar_compat (e : PoolEnv) (hc : e.compat = true) (hn : e.numThreads = none) :
    requestedVar e = (match e.ompThreads with | some v => some v | none => e.openblasThreads) := by
  unfold requestedVar; rw [hn, hc]; rfl

/-- … and exactly `min(requested, physical)` for a valid positive request -/
theorem threads_exact (e : PoolEnv) (v : String) (r : Nat) (hv : requestedVar e = some v)
    (hparse : parseUsize v = some r) (hr : 0 < r) : poolThreads e = min r e.physical := by
  unfold poolThreads
  rw [configNumThreads_some e v hv, hparse]
  simp only [Option.getD_some]
  split
  · omega
  · rfl

/-- an unset, unparsable or zero request gives the physical core count -/
theorem threads_default (e : PoolEnv) (h : requestedVar e = none ∨ ∃ v, requestedVar e = some v ∧ (parseUsize v = none ∨ parseUsize v = some 0)) :
    poolThreads e = e.physical := by
  unfold poolThreads
  rcases h with h | ⟨v, hv, hp | hp⟩
  · rw [configNumThreads_none e h]
    split
    · rfl
    · exact Nat.min_self _
  · rw [configNumThreads_some e v hv, hp]
    simp only [Option.getD_none]
    split
    · rfl
    · exact Nat.min_self _
  · rw [configNumThreads_some e v hv, hp]
    rfl

/-- the property as stated for the variable the documentation names, `CFAVML_NUM_THREADS` -/
theorem threads_exact_cfavml (e : PoolEnv) (v : String) (r : Nat) (hv : e.numThreads = some v)
    (hparse : parseUsize v = some r) (hr : 0 < r) : poolThreads e = min r e.physical :=
  threads_exact e v r (requestedVar_cfavml e v hv) hparse hr

/-- `CFAVML_DEBUG`, `CFAVML_NO_PINNING` and `CFAVML_NO_CACHE_THREADPOOL` have no influence on the size of the pool, and
`CFAVML_DEBUG` none on which pool a caller receives -/
theorem threads_indep (e : PoolEnv) (d p c : Option String) :
    poolThreads { e with debug := d, noPinning := p, noCache := c } = poolThreads e := rfl
theorem pool_indep_debug (e : PoolEnv) (d : Option String) (s : PoolState) :
    getOrInitPool { e with debug := d } s = getOrInitPool e s := rfl

/-- the defect fixed in 3dda54f, as a model fact: handing rayon `min(0, physical) = 0` threads lets rayon
choose (e.g. `RAYON_NUM_THREADS = 40 > physical`) -/
example : min (0 : Nat) 16 = 0 := rfl

/-- **pinning never panics**, for every build configuration, every affinity mask (any number of CPUs, also fewer than
the pool has threads, also none) and every thread index; it pins exactly when the index is inside the mask.
(Before the fix 8898592 the debug-assertions build panicked for `avail ≤ idx`, which aborts the process from inside
rayon's start handler.) -/
theorem pin_total (dbg : Bool) (avail idx : Nat) (ok : Bool) :
    (pinCurrent dbg avail idx ok).isSome = true
    ∧ (pinCurrent dbg avail idx ok = some true ↔ (idx < avail ∧ ok = true)) := by
  unfold pinCurrent
  by_cases h0 : avail = 0
  · simp [h0]
  · by_cases h1 : avail ≤ idx
    · simp [h0, h1]; omega
    · simp [h0, h1]; omega

/-! ### one shared pool -/

/-- invariant of the `OnceLock` state -/
def Inv (e : PoolEnv) (s : PoolState) : Prop :=
  match s.cell with
  | none => s.created = 0
  | some none => configBool e.noCache = true
  | some (some id) => configBool e.noCache = false ∧ id = 0 ∧ 0 < s.created

theorem step_inv (e : PoolEnv) (s : PoolState) (h : Inv e s) : Inv e (getOrInitPool e s).1 := by
  obtain ⟨cell, created⟩ := s
  cases cell with
  | none =>
    have hc : created = 0 := h
    by_cases hb : configBool e.noCache = true
    · simp [getOrInitPool, Inv, hb]
    · simp [getOrInitPool, Inv, hb, hc]
  | some c =>
    cases c with
    | none => simpa [getOrInitPool, Inv] using h
    | some id => simpa [getOrInitPool, Inv] using h

/-- what a call returns: the shared pool `0` when caching is on, a fresh owned pool otherwise -/
theorem step_result (e : PoolEnv) (s : PoolState) (h : Inv e s) :
    (configBool e.noCache = false → (getOrInitPool e s).2 = .borrowed 0)
    ∧ (configBool e.noCache = true → ∃ id, (getOrInitPool e s).2 = .owned id ∧ s.created ≤ id ∧ id < (getOrInitPool e s).1.created) := by
  obtain ⟨cell, created⟩ := s
  cases cell with
  | none =>
    have hc : created = 0 := h
    by_cases hb : configBool e.noCache = true
    · simp [getOrInitPool, hb]
    · simp [getOrInitPool, hb, hc]
  | some c =>
    cases c with
    | none =>
      have hb : configBool e.noCache = true := h
      simp [getOrInitPool, hb]
    | some id =>
      have hb : configBool e.noCache = false ∧ id = 0 ∧ 0 < created := h
      simp [getOrInitPool, hb.1, hb.2.1]

/-- **C17 (sharing).** Unless caching is disabled, every call of every history — however many threads race on
first use — receives the same pool; with caching disabled every call receives its own fresh pool. -/
theorem pool_shared (e : PoolEnv) (n : Nat) (s : PoolState) (h : Inv e s) :
    (configBool e.noCache = false → ∀ r ∈ (runCalls e n s).2, r = .borrowed 0)
    ∧ (configBool e.noCache = true → ∀ r ∈ (runCalls e n s).2, ∃ id, r = .owned id ∧ s.created ≤ id) := by
  induction n generalizing s with
  | zero => simp [runCalls]
  | succ n ih =>
    have hs := step_inv e s h
    have hr := step_result e s h
    have ih' := ih (getOrInitPool e s).1 hs
    constructor
    · intro hb r hrm
      simp only [runCalls, List.mem_cons] at hrm
      rcases hrm with rfl | hrm
      · exact hr.1 hb
      · exact ih'.1 hb r hrm
    · intro hb r hrm
      simp only [runCalls, List.mem_cons] at hrm
      rcases hrm with rfl | hrm
      · obtain ⟨id, e1, h1, _⟩ := hr.2 hb
        exact ⟨id, e1, h1⟩
      · obtain ⟨id, e1, h1⟩ := ih'.2 hb r hrm
        obtain ⟨id0, _, h2, h4⟩ := hr.2 hb
        refine ⟨id, e1, ?_⟩
        exact Nat.le_trans (Nat.le_of_lt (Nat.lt_of_le_of_lt h2 h4)) h1

theorem init_inv (e : PoolEnv) : Inv e PoolState.init := rfl

/-- non-vacuity: the parser on the value classes the property lists -/
example : parseUsize "8" = some 8 ∧ parseUsize "+5" = some 5 ∧ parseUsize "0" = some 0 ∧ parseUsize "-3" = none
    ∧ parseUsize "abc" = none ∧ parseUsize "" = none ∧ parseUsize "99999999999999999999999" = none
    ∧ parseUsize " 4" = none := by decide

/-- non-vacuity of the precedence: an unparsable `CFAVML_NUM_THREADS` hides `OMP_NUM_THREADS`; with the compat feature
and no `CFAVML_NUM_THREADS`, `OMP_NUM_THREADS` beats `OPENBLAS_NUM_THREADS` -/
example : poolThreads { numThreads := some "abc", noCache := none, noPinning := none, physical := 8, compat := true, ompThreads := some "2" } = 8
    ∧ poolThreads { numThreads := none, noCache := none, noPinning := none, physical := 8, compat := true, ompThreads := some "2", openblasThreads := some "3" } = 2
    ∧ poolThreads { numThreads := none, noCache := none, noPinning := none, physical := 8, compat := true, openblasThreads := some "3" } = 3
    ∧ poolThreads { numThreads := none, noCache := none, noPinning := none, physical := 8, compat := false, ompThreads := some "2" } = 8 := by decide

end Cfavml.Thm.C17
